import FeatModel.Lemmas.C10Lift2D
/-! C10 — global 2-D lift, clause `coveredOk` (every fine edge is an edge of some fine cell) and the common
"which terms occur where" facts about the generated table `(2,2,1)`. -/
namespace FeatModel.Refine
open FeatModel.Gen.Refine

theorem coveredOk_iff2 (M : Mesh) (hd : M.dim = 2) : M.coveredOk = true ↔
    ∀ x < M.num 1, ∃ t ∈ M.idx 2 1, x ∈ t := by
  unfold Mesh.coveredOk
  rw [hd]
  simp [List.all_eq_true, List.any_eq_true, List.range'_succ]

/-- every child of every edge of the cell, and every inner edge, is listed by some child cell -/
theorem covered_table (kind : Kind) :
    (∀ e < faceCount kind 2 1, ∀ b < 2, ((List.range 4).any fun r =>
      ((indexTable kind 2 2 1).getD r []).contains ⟨1, 2, some (2, 1, e), .sim 1 0 e b⟩) = true) ∧
    (∀ a < refCount kind 2 1, ((List.range 4).any fun r =>
      ((indexTable kind 2 2 1).getD r []).contains ⟨2, refCount kind 2 1, none, .const a⟩) = true) := by
  cases kind <;> decide

theorem congLookup_edge_surj (kind : Kind) (s0 s1 : Nat) (trg : List Nat) (m : Nat) (hm : m < 2) :
    ∃ b, b < 2 ∧ congLookup kind 1 0 (FeatModel.Refine.compare kind 1 s0 s1 trg) b = m := by
  have hm' : m = 0 ∨ m = 1 := by omega
  unfold FeatModel.Refine.compare congLookup
  by_cases c0 : s0 = trgAt trg 0
  · rcases hm' with rfl | rfl
    · exact ⟨0, by omega, by cases kind <;> simp [c0, congMap]⟩
    · exact ⟨1, by omega, by cases kind <;> simp [c0, congMap]⟩
  · by_cases c1 : s0 = trgAt trg 1
    · have c0' : ¬ trgAt trg 1 = trgAt trg 0 := c1 ▸ c0
      rcases hm' with rfl | rfl
      · exact ⟨1, by omega, by cases kind <;> simp [c1, c0', congMap]⟩
      · exact ⟨0, by omega, by cases kind <;> simp [c1, c0', congMap]⟩
    · rcases hm' with rfl | rfl
      · exact ⟨0, by omega, by cases kind <;> simp [c0, c1, congMap]⟩
      · exact ⟨1, by omega, by cases kind <;> simp [c0, c1, congMap]⟩

theorem simMap_edge_surj (M : Mesh) (i e m : Nat) (hm : m < 2) : ∃ b, b < 2 ∧ simMap M 2 1 0 i e b = m := by
  unfold simMap
  exact congLookup_edge_surj M.kind _ _ _ m hm

theorem tuple_mem_idx (M : Mesh) (c f i : Nat) (hi : i < (M.idx c f).length) : M.tuple c f i ∈ M.idx c f := by
  unfold Mesh.tuple
  rw [List.getD_eq_getElem?_getD, List.getElem?_eq_getElem hi]
  exact List.getElem_mem hi

theorem mem_idx_tuple (M : Mesh) (c f : Nat) (t : List Nat) (ht : t ∈ M.idx c f) :
    ∃ i, i < (M.idx c f).length ∧ M.tuple c f i = t := by
  obtain ⟨i, hi, rfl⟩ := List.getElem_of_mem ht
  refine ⟨i, hi, ?_⟩
  unfold Mesh.tuple
  rw [List.getD_eq_getElem?_getD, List.getElem?_eq_getElem hi]; rfl

theorem mem_tuple_entry (l : List Nat) (x : Nat) (hx : x ∈ l) : ∃ e, e < l.length ∧ l.getD e 0 = x := by
  obtain ⟨e, he, rfl⟩ := List.getElem_of_mem hx
  exact ⟨e, he, by rw [List.getD_eq_getElem?_getD, List.getElem?_eq_getElem he]; rfl⟩

/-- sizes of a refined 2-D mesh -/
theorem fine_sizes2 (M : Mesh) (h : Ok2 M) :
    (refine M).num 1 = 2 * M.num 1 + refCount M.kind 2 1 * M.num 2 ∧ (refine M).num 2 = 4 * M.num 2 ∧
    ((refine M).idx 2 1).length = 4 * M.num 2 := by
  have hd2 : (2 : Nat) ≤ M.dim := by rw [h.dim]; omega
  obtain ⟨o00, o01, o02, o11, o12, o22⟩ := off2 M.kind M.nums
  obtain ⟨r11, r22, r10, f10, r21⟩ := rc2 M.kind
  have h2 : (refine M).num 2 = 4 * M.num 2 := by
    rw [refine_num M 2 hd2]; unfold fineCount
    rw [h.dim, offset_succ _ _ 2 2 (by omega), o22, r22]; simp [Mesh.num]
  refine ⟨?_, h2, ?_⟩
  · rw [refine_num M 1 (by omega)]; unfold fineCount
    rw [h.dim, offset_succ _ _ 1 2 (by omega), o12]; simp [Mesh.num]
  · rw [refine_idx M 2 1 hd2 (by omega), fineIdx_length M 2 1 (by rw [h.dim]; omega) (by omega), ← refine_num M 2 hd2, h2]

/-- if child cell `r` of coarse cell `i` lists term `t`, the fine mesh has a cell listing `evalTerm t` -/
theorem covered_of_term (M : Mesh) (h : Ok2 M) (i r : Nat) (hi : i < M.num 2) (hr : r < 4) (t : Term)
    (ht : ((indexTable M.kind 2 2 1).getD r []).contains t = true) :
    ∃ row ∈ (refine M).idx 2 1, evalTerm M 2 1 i t ∈ row := by
  obtain ⟨_, h2, hlen⟩ := fine_sizes2 M h
  have he' : 4 * i + r < (refine M).num 2 := by omega
  obtain ⟨_, hrow⟩ := fine_cell_rows M h (4 * i + r) he' 1 (by omega)
  have e1 : (4 * i + r) / 4 = i := by omega
  have e2 : (4 * i + r) % 4 = r := by omega
  rw [e1, e2] at hrow
  refine ⟨_, tuple_mem_idx (refine M) 2 1 (4 * i + r) (by omega), ?_⟩
  rw [hrow]
  exact List.mem_map.2 ⟨t, by simpa using ht, rfl⟩

theorem coveredOk_refine2 (M : Mesh) (h : Ok2 M) (hc : M.coveredOk = true) : (refine M).coveredOk = true := by
  rw [coveredOk_iff2 _ (by rw [refine_dim]; exact h.dim)]
  rw [coveredOk_iff2 _ h.dim] at hc
  obtain ⟨o00, o01, o02, o11, o12, o22⟩ := off2 M.kind M.nums
  obtain ⟨r11, r22, r10, f10, r21⟩ := rc2 M.kind
  obtain ⟨h1, _, _⟩ := fine_sizes2 M h
  obtain ⟨ct1, ct2⟩ := covered_table M.kind
  intro x hx
  rw [h1] at hx
  by_cases hlo : x < 2 * M.num 1
  · -- a child of the coarse edge x / 2
    obtain ⟨t, ht, hEt⟩ := hc (x / 2) (by omega)
    obtain ⟨i, hi, rfl⟩ := mem_idx_tuple M 2 1 t ht
    have hlen := ((shapeOk_iff M).1 h.shape 2 (by omega) (by rw [h.dim]; omega) 1 (by omega)).1
    rw [hlen] at hi
    obtain ⟨e, he, hee⟩ := mem_tuple_entry _ _ hEt
    rw [(shape_facts M h 2 1 (by omega) (by omega) (by omega) i hi).1] at he
    obtain ⟨b, hb, hbm⟩ := simMap_edge_surj M i e (x % 2) (by omega)
    have hany := ct1 e he b hb
    rw [List.any_eq_true] at hany
    obtain ⟨r, hr, hcont⟩ := hany
    obtain ⟨row, hrow, hmem⟩ := covered_of_term M h i r hi (by simpa using hr) _ hcont
    refine ⟨row, hrow, ?_⟩
    have : evalTerm M 2 1 i ⟨1, 2, some (2, 1, e), .sim 1 0 e b⟩ = x := by
      have hE : M.entry 2 1 i e = x / 2 := hee
      simp only [evalTerm, evalSrc, evalAdd, o11, hE, hbm]
      omega
    rw [this] at hmem
    exact hmem
  · -- an inner edge of coarse cell (x - 2 ne) / n1
    have hpos := r21
    have hn1 : M.num 1 = M.nums.getD 1 0 := rfl
    obtain ⟨y, hxy⟩ : ∃ y, x = 2 * M.num 1 + y := ⟨x - 2 * M.num 1, by omega⟩
    have hy : y < refCount M.kind 2 1 * M.num 2 := by omega
    have hi : y / refCount M.kind 2 1 < M.num 2 := by
      apply Nat.div_lt_of_lt_mul; exact hy
    have ha : y % refCount M.kind 2 1 < refCount M.kind 2 1 := Nat.mod_lt _ hpos
    have hany := ct2 _ ha
    rw [List.any_eq_true] at hany
    obtain ⟨r, hr, hcont⟩ := hany
    obtain ⟨row, hrow, hmem⟩ := covered_of_term M h _ r hi (by simpa using hr) _ hcont
    refine ⟨row, hrow, ?_⟩
    have : evalTerm M 2 1 (y / refCount M.kind 2 1) ⟨2, refCount M.kind 2 1, none, .const (y % refCount M.kind 2 1)⟩ = x := by
      simp only [evalTerm, evalSrc, evalAdd, o12]
      have := Nat.div_add_mod y (refCount M.kind 2 1)
      omega
    rw [this] at hmem
    exact hmem

end FeatModel.Refine
