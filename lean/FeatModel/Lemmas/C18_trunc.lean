/-
C18 helper lemmas, part 7: truncation is a left inverse of prolongation on the coarse space (vector form).
-/
import FeatModel.Lemmas.C18_pvec
open FeatModel.GT Finset

namespace C18L

/-- generic form of "raw rows = sums of contributions, weights = number of contributions, rows scaled by 1/weight" -/
theorem matVec_scaled (R C : Nat) (contrib : Nat → List (List Rat)) (m : Mat) (x : List Rat)
    (h : scaleRows C ((List.range R).map fun r => sumRows C (contrib r))
      (vtab R fun r => ((contrib r).length : Nat)) = some m) : ∀ r, r < R →
      ((contrib r).length : Rat) ≠ 0 ∧
      (matVec R C m x).getD r 0 = (1 / ((contrib r).length : Rat)) * ((contrib r).map (rowDot C x)).sum := by
  intro r hr
  unfold scaleRows at h
  split at h
  · simp at h
  · rename_i hw
    simp only [Option.some.injEq] at h
    subst h
    have hwr : ((contrib r).length : Rat) ≠ 0 := by
      intro h0
      apply hw
      rw [List.any_eq_true]
      refine ⟨(vtab R fun r => (((contrib r).length : Nat) : Rat)).getD r 0, ?_, ?_⟩
      · unfold vtab
        rw [List.getD_eq_getElem?_getD]
        simp [hr]
        exact ⟨r, hr, rfl⟩
      · rw [getD_vtab _ hr]
        simp [h0]
    refine ⟨hwr, ?_⟩
    unfold matVec
    rw [getD_vtab _ hr, sumTo_eq]
    have e1 : ∀ k ∈ range C,
        FeatModel.GT.get ((List.range ((List.range R).map fun r => sumRows C (contrib r)).length).map fun r =>
          vtab C fun s => FeatModel.GT.get ((List.range R).map fun r => sumRows C (contrib r)) r s *
            (1 / (vtab R fun r => (((contrib r).length : Nat) : Rat)).getD r 0)) r k * x.getD k 0
        = (1 / ((contrib r).length : Rat)) * ((sumRows C (contrib r)).getD k 0 * x.getD k 0) := by
      intro k hk
      have hk' := Finset.mem_range.1 hk
      have g3 : (vtab R fun r => (((contrib r).length : Nat) : Rat)).getD r 0 = ((contrib r).length : Rat) := by
        rw [getD_vtab _ hr]
      unfold FeatModel.GT.get
      simp only [List.getD_eq_getElem?_getD, List.getElem?_map, List.getElem?_range, List.length_map,
        List.length_range, hr]
      simp [vtab, hk', hr]
      ring
    rw [Finset.sum_congr rfl e1, ← Finset.mul_sum, dot_sumRows C _ (fun k => x.getD k 0)]
    rfl

theorem childMapM_ok (ncl : Nat) (minv : Mat) (children : List Child) (xs : List (List Nat × Mat))
    (h : children.mapM (fun ch =>
        let x := matMul ncl ncl ch.fmap.length minv (massCF ncl ch.fmap.length ch.pts)
        if allZero x then (Except.error Fail.exc : Except Fail (List Nat × Mat)) else .ok (ch.fmap, x)) = .ok xs) :
    xs = children.map (fun ch => (ch.fmap, matMul ncl ncl ch.fmap.length minv (massCF ncl ch.fmap.length ch.pts))) := by
  induction children generalizing xs with
  | nil =>
    simp [List.mapM_nil, pure, Except.pure] at h
    subst h; simp
  | cons a l ih =>
    rw [List.mapM_cons] at h
    simp only [] at h
    by_cases hb : allZero (matMul ncl ncl a.fmap.length minv (massCF ncl a.fmap.length a.pts)) = true
    · simp [hb, bind, Except.bind] at h
    · cases hl : l.mapM (fun ch =>
          let x := matMul ncl ncl ch.fmap.length minv (massCF ncl ch.fmap.length ch.pts)
          if allZero x then (Except.error Fail.exc : Except Fail (List Nat × Mat)) else .ok (ch.fmap, x)) with
      | error e' => simp [hb, hl, bind, Except.bind] at h
      | ok bs =>
        simp [hb, hl, bind, Except.bind, pure, Except.pure] at h
        subst h
        rw [List.map_cons, ih bs hl]

theorem localTruncs_mem {d : Dump} {tl : List (List Nat × List (List Nat × Mat))} (h : localTruncs d = .ok tl) :
    ∀ t ∈ tl, ∃ cell ∈ d.cells, ∃ det minv p,
      invertMatrix cell.cmap.length cell.cmap.length (massC cell.cmap.length cell.cpts) = some (det, minv, p) ∧
      t.1 = cell.cmap ∧
      t.2 = cell.children.map (fun ch => (ch.fmap,
        matMul cell.cmap.length cell.cmap.length ch.fmap.length minv
          (massCF cell.cmap.length ch.fmap.length ch.pts))) := by
  intro t ht
  unfold localTruncs at h
  obtain ⟨cell, hcell, hf⟩ := mapM_ok_mem _ _ _ h t ht
  refine ⟨cell, hcell, ?_⟩
  simp only at hf
  split at hf
  · simp at hf
  · rename_i det minv p hinv
    split at hf
    · simp at hf
    · rename_i xs hxs
      simp only [Except.ok.injEq] at hf
      subst hf
      refine ⟨det, minv, p, hinv, rfl, ?_⟩
      exact childMapM_ok cell.cmap.length minv cell.children xs hxs

theorem list_sum_map_mul_both {α : Type} (l : List α) (f : α → Rat) (a y : Rat) :
    (l.map fun p => a * f p * y).sum = a * (l.map f).sum * y := by
  induction l with
  | nil => simp
  | cons b l ih => simp [ih]; ring

theorem quad_rearr (n m c : Nat) (u : ℕ → ℚ) (N E : ℕ → ℕ → ℚ) (y : ℕ → ℚ) :
    ∑ k ∈ range m, (∑ l ∈ range n, u l * N l k) * (∑ j ∈ range c, E k j * y j)
      = ∑ l ∈ range n, ∑ j ∈ range c, u l * (∑ k ∈ range m, N l k * E k j) * y j := by
  have e1 : ∀ k ∈ range m, (∑ l ∈ range n, u l * N l k) * (∑ j ∈ range c, E k j * y j)
      = ∑ l ∈ range n, ∑ j ∈ range c, u l * (N l k * E k j) * y j := by
    intro k _
    rw [Finset.sum_mul]
    apply Finset.sum_congr rfl
    intro l _
    rw [Finset.mul_sum]
    apply Finset.sum_congr rfl
    intro j _
    ring
  rw [Finset.sum_congr rfl e1, Finset.sum_comm]
  apply Finset.sum_congr rfl
  intro l _
  rw [Finset.sum_comm]
  apply Finset.sum_congr rfl
  intro j _
  rw [Finset.mul_sum, Finset.sum_mul]

/-- **truncation is a left inverse of prolongation on the coarse space** (vector form): if `vf` are the fine
coefficients of the coarse function with coefficients `xc` (`vf = E · xc` on every child), and the refined rule
integrates the coarse mass matrix like the unrefined one (`Σ_children Nᵀ E = M_c`), then `T · vf = xc` -/
theorem truncation_exact (d : Dump) (tl : List (List Nat × List (List Nat × Mat))) (td : Mat) (vf : List Rat)
    (xc : Nat → Rat) (E : Cell → Child → Nat → Nat → Rat)
    (htl : localTruncs d = .ok tl)
    (htd : scaleRows d.nf (truncRaw d tl) (truncWeights d tl) = some td)
    (hfmap : ∀ cell ∈ d.cells, ∀ ch ∈ cell.children, ∀ k, k < ch.fmap.length → ch.fmap.getD k 0 < d.nf)
    (hsame : ∀ cell ∈ d.cells, ∀ ch ∈ cell.children, ∀ k, k < ch.fmap.length →
      vf.getD (ch.fmap.getD k 0) 0 = ∑ j ∈ range cell.cmap.length, E cell ch k j * xc (cell.cmap.getD j 0))
    (hint : ∀ cell ∈ d.cells, ∀ l j, l < cell.cmap.length → j < cell.cmap.length →
      (cell.children.map fun ch => ∑ k ∈ range ch.fmap.length,
        FeatModel.GT.get (massCF cell.cmap.length ch.fmap.length ch.pts) l k * E cell ch k j).sum
        = FeatModel.GT.get (massC cell.cmap.length cell.cpts) l j) :
    ∀ r, r < d.nc → (matVec d.nc d.nf td vf).getD r 0 = xc r := by
  intro r hr
  have hms := matVec_scaled d.nc d.nf (truncContrib d.nf tl) td vf htd r hr
  obtain ⟨hne, hmv⟩ := hms
  rw [hmv, list_sum_const _ _ (xc r)]
  · field_simp
  · intro row hrow
    unfold truncContrib at hrow
    rw [List.mem_flatMap] at hrow
    obtain ⟨t, ht, hrow⟩ := hrow
    obtain ⟨cell, hcell, det, minv, p, hinv, h1, h2⟩ := localTruncs_mem htl t ht
    obtain ⟨cmap, xs⟩ := t
    simp only at h1 h2 hrow
    subst h1
    rw [List.mem_filterMap] at hrow
    obtain ⟨i, hi, hrow⟩ := hrow
    rw [List.mem_range] at hi
    split at hrow
    · rename_i hci
      simp only [Option.some.injEq] at hrow
      subst hrow
      unfold rowDot
      rw [dot_sumRows d.nf _ (fun k => vf.getD k 0), List.map_map, h2, List.map_map]
      set ncl := cell.cmap.length with hncl
      -- every child contributes Σ_l Σ_j minv[i][l] * (Σ_k Nᵀ[l][k] E[k][j]) * xc(cmap j)
      have e1 : ∀ ch ∈ cell.children,
          ((fun row => ∑ s ∈ range d.nf, row.getD s 0 * (fun k => vf.getD k 0) s) ∘
            (fun (x : List Nat × Mat) => denseRow d.nf x.1 (x.2.getD i [])) ∘
            (fun ch => (ch.fmap, matMul ncl ncl ch.fmap.length minv (massCF ncl ch.fmap.length ch.pts)))) ch
          = ∑ l ∈ range ncl, ∑ j ∈ range ncl, FeatModel.GT.get minv i l *
              (∑ k ∈ range ch.fmap.length,
                FeatModel.GT.get (massCF ncl ch.fmap.length ch.pts) l k * E cell ch k j) *
              xc (cell.cmap.getD j 0) := by
        intro ch hch
        simp only [Function.comp]
        rw [dot_denseRow d.nf ch.fmap _ (fun k => vf.getD k 0) (hfmap cell hcell ch hch),
          ← quad_rearr ncl ch.fmap.length ncl (fun l => FeatModel.GT.get minv i l)
            (FeatModel.GT.get (massCF ncl ch.fmap.length ch.pts)) (E cell ch) (fun j => xc (cell.cmap.getD j 0))]
        apply Finset.sum_congr rfl
        intro k hk
        have hk' := Finset.mem_range.1 hk
        rw [hsame cell hcell ch hch k hk']
        congr 1
        show FeatModel.GT.get (matMul ncl ncl ch.fmap.length minv (massCF ncl ch.fmap.length ch.pts)) i k = _
        unfold matMul
        rw [get_tab _ hi hk', sumTo_eq]
      refine (congrArg List.sum (List.map_congr_left e1)).trans ?_
      rw [list_sum_map_finset]
      have e2 : ∀ l ∈ range ncl,
          (cell.children.map fun ch => ∑ j ∈ range ncl, FeatModel.GT.get minv i l *
              (∑ k ∈ range ch.fmap.length,
                FeatModel.GT.get (massCF ncl ch.fmap.length ch.pts) l k * E cell ch k j) *
              xc (cell.cmap.getD j 0)).sum
          = ∑ j ∈ range ncl, FeatModel.GT.get minv i l * FeatModel.GT.get (massC ncl cell.cpts) l j *
              xc (cell.cmap.getD j 0) := by
        intro l hl
        rw [list_sum_map_finset]
        apply Finset.sum_congr rfl
        intro j hj
        rw [← hint cell hcell l j (Finset.mem_range.1 hl) (Finset.mem_range.1 hj)]
        exact list_sum_map_mul_both cell.children _ _ _
      rw [Finset.sum_congr rfl e2, Finset.sum_comm]
      have hL := invert_left_inverse hinv (by omega) (le_refl ncl)
      have e3 : ∀ j ∈ range ncl, ∑ l ∈ range ncl, FeatModel.GT.get minv i l *
          FeatModel.GT.get (massC ncl cell.cpts) l j * xc (cell.cmap.getD j 0)
          = (if i = j then 1 else 0) * xc (cell.cmap.getD j 0) := by
        intro j hj
        rw [← Finset.sum_mul, ← sumTo_eq, hL i j hi (Finset.mem_range.1 hj)]
      rw [Finset.sum_congr rfl e3, Finset.sum_eq_single i]
      · rw [if_pos rfl, one_mul, hci]
      · intro j _ hj; rw [if_neg (Ne.symm hj), zero_mul]
      · intro hn; exact absurd (Finset.mem_range.2 hi) hn
    · simp at hrow

end C18L
