import FeatModel.Lemmas.C16_assembly
import Mathlib.Data.List.Nodup
/-!
Helper lemmas for C16, part 4: `SparseMatrixBanded::ScatterAxpy` (column test `off+ix+1 < rows+cols`) as an
instance of the generic scatter lemmas, for square and rectangular matrices.
-/
namespace C16L
open FeatModel.Asm

variable {α : Type} [CommRing α]

/-- band `k` meets row `r` inside the matrix -/
def bvalid (rows cols : Nat) (offsets : List Nat) (r k : Nat) : Bool :=
  decide (offsets.getD k 0 + r + 1 ≥ rows ∧ offsets.getD k 0 + r + 1 < rows + cols)

/-- data positions of row `r` -/
def bseg (rows cols : Nat) (offsets : List Nat) (r : Nat) : List Nat :=
  if r < rows then ((List.range offsets.length).filter (bvalid rows cols offsets r)).map fun k => k * rows + r else []

/-- column of a data position -/
def bcol (rows : Nat) (offsets : List Nat) (pos : Nat) : Nat :=
  offsets.getD (pos / rows) 0 + pos % rows + 1 - rows

theorem pos_div (rows k r : Nat) (hr : r < rows) : (k * rows + r) / rows = k := by
  rw [Nat.mul_comm, Nat.mul_add_div (by omega), Nat.div_eq_of_lt hr, Nat.add_zero]

theorem pos_mod (rows k r : Nat) (hr : r < rows) : (k * rows + r) % rows = r := by
  rw [Nat.mul_comm, Nat.mul_add_mod, Nat.mod_eq_of_lt hr]

theorem bcol_pos (rows : Nat) (offsets : List Nat) (k r : Nat) (hr : r < rows) :
    bcol rows offsets (k * rows + r) = offsets.getD k 0 + r + 1 - rows := by
  unfold bcol; rw [pos_div rows k r hr, pos_mod rows k r hr]

theorem mem_bseg (rows cols : Nat) (offsets : List Nat) (r pos : Nat) :
    pos ∈ bseg rows cols offsets r ↔
      r < rows ∧ ∃ k, k < offsets.length ∧ bvalid rows cols offsets r k = true ∧ pos = k * rows + r := by
  unfold bseg
  split
  · rename_i hr
    simp only [List.mem_map, List.mem_filter, List.mem_range, hr, true_and]
    constructor
    · rintro ⟨k, ⟨hk, hv⟩, rfl⟩; exact ⟨k, hk, hv, rfl⟩
    · rintro ⟨k, hk, hv, rfl⟩; exact ⟨k, ⟨hk, hv⟩, rfl⟩
  · rename_i hr
    simp [hr]

theorem bseg_ok (rows cols : Nat) (offsets : List Nat) : SegOKG (bseg rows cols offsets) (offsets.length * rows) := by
  refine ⟨fun r => ?_, fun r r' pos h h' => ?_, fun r pos h => ?_⟩
  · unfold bseg
    split
    · rename_i hr
      apply List.Nodup.map_on
      · intro a _ b _ hab
        have h1 := pos_div rows a r hr
        have h2 := pos_div rows b r hr
        rw [hab] at h1; omega
      · exact List.nodup_range.filter _
    · exact List.nodup_nil
  · obtain ⟨hr, k, _, _, rfl⟩ := (mem_bseg ..).mp h
    obtain ⟨hr', k', _, _, he⟩ := (mem_bseg ..).mp h'
    have h1 := pos_mod rows k r hr
    have h2 := pos_mod rows k' r' hr'
    rw [he] at h1; omega
  · obtain ⟨hr, k, hk, _, rfl⟩ := (mem_bseg ..).mp h
    have : (k + 1) * rows ≤ offsets.length * rows := Nat.mul_le_mul_right rows (by omega)
    rw [Nat.add_mul, Nat.one_mul] at this
    omega

/-- the C++ column-pointer loop is the generic loop over `bseg` -/
theorem bandedBuild_eq (rows cols : Nat) (offsets : List Nat) (ix : Nat) (hix : ix < rows) (cp : Array (Option Nat)) :
    bandedBuildColPtr rows cols offsets ix cp = foldCp (bcol rows offsets) (bseg rows cols offsets ix) cp := by
  unfold bandedBuildColPtr foldCp bseg
  rw [if_pos hix, List.foldl_map, List.foldl_filter]
  congr 1
  funext cp k
  simp only [bvalid, decide_eq_true_eq, bcol_pos rows offsets k ix hix]

theorem bandedApply_eq (rows cols : Nat) (offsets : List Nat) (d : Array α) (x : Nat → α) (r : Nat) (hr : r < rows) :
    bandedApply rows cols offsets d x r = applyG (bseg rows cols offsets) (bcol rows offsets) d x r := by
  unfold bandedApply applyG bseg
  rw [if_pos hr, List.map_map]
  congr 1
  apply List.map_congr_left
  intro k _
  simp only [Function.comp, bcol_pos rows offsets k r hr]

theorem bandedCovered_iff (rows cols : Nat) (offsets : List Nat) (rowMap colMap : List Nat) :
    bandedCovered rows cols offsets rowMap colMap = true ↔
      ∀ ix ∈ rowMap, ix < rows ∧ ∀ jx ∈ colMap, jx < cols ∧
        ∃ k, k < offsets.length ∧ offsets.getD k 0 + ix + 1 = rows + jx := by
  simp only [bandedCovered, List.all_eq_true, Bool.and_eq_true, decide_eq_true_eq, List.any_eq_true, List.mem_range,
    beq_iff_eq]

theorem bandedScatter_spec (rows cols : Nat) (offsets : List Nat) (st : ScatterSt α) (c : CellCall α)
    (hd : st.data.size = offsets.length * rows) (hcp : st.colPtr.size = cols)
    (hcov : bandedCovered rows cols offsets c.rowMap c.colMap = true) :
    ∃ st', bandedScatterAxpy rows cols offsets st c.loc c.rowMap c.colMap c.alpha = some st' ∧
      st'.data.size = st.data.size ∧ st'.colPtr.size = cols ∧
      ∀ (x : Nat → α) (r : Nat), r < rows →
        bandedApply rows cols offsets st'.data x r = bandedApply rows cols offsets st.data x r + c.alpha * c.contrib x r := by
  have hc := (bandedCovered_iff rows cols offsets c.rowMap c.colMap).mp hcov
  by_cases hrm : c.rowMap = []
  · refine ⟨st, ?_, rfl, hcp, fun x r _ => ?_⟩
    · simp [bandedScatterAxpy, hrm, scatterRowsG]
    · simp [CellCall.contrib, hrm]
  obtain ⟨a, ha⟩ := List.exists_mem_of_ne_nil _ hrm
  obtain ⟨st', hs, hsz, hcs, hsem⟩ := scatterRowsG_spec (bseg rows cols offsets) (bcol rows offsets)
    (bandedBuildColPtr rows cols offsets) c.alpha c.loc c.colMap.zipIdx c.rowMap.zipIdx st
    (by rw [hd]; exact bseg_ok rows cols offsets)
    (fun ix i hi cp => bandedBuild_eq rows cols offsets ix (hc ix (fst_mem_of_mem_zipIdx _ _ _ _ hi)).1 cp)
    (fun jx j hj => by
      rw [hcp]
      exact ((hc a ha).2 jx (fst_mem_of_mem_zipIdx _ _ _ _ hj)).1)
    (fun ix i hi jx j hj => by
      obtain ⟨hix, hcol⟩ := hc ix (fst_mem_of_mem_zipIdx _ _ _ _ hi)
      obtain ⟨hjx, k, hk, hoff⟩ := hcol jx (fst_mem_of_mem_zipIdx _ _ _ _ hj)
      refine ⟨k * rows + ix, (mem_bseg ..).mpr ⟨hix, k, hk, ?_, rfl⟩, ?_⟩
      · simp only [bvalid, decide_eq_true_eq]; omega
      · rw [bcol_pos rows offsets k ix hix]; omega)
  refine ⟨st', hs, hsz, by rw [hcs, hcp], fun x r hr => ?_⟩
  rw [bandedApply_eq _ _ _ _ _ _ hr, bandedApply_eq _ _ _ _ _ _ hr, hsem x r, contrib_eq]

end C16L
