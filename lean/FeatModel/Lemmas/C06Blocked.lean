import FeatModel.Lemmas.C06Slip
/-! helper lemmas for the C06 theorems about `UnitFilterBlocked` on vectors: the pod-level writes of one filter
entry (`ignore_nans` components skipped) and of the whole entry list -/
namespace FeatModel.LA.Filter

section PodEntries
variable {α : Type} [Zero α]

/-- the writes of one entry for the first `n` components, with the written value transformed by `g`
    (`g = id`: `filter_rhs`, `g = fun _ => 0`: `filter_def`) -/
def rowEntriesG (bs : Nat) (skip : α → Bool) (g : α → α) (e : Nat × List α) (n : Nat) : List (Nat × α) :=
  (List.range n).filterMap fun j =>
    let x := e.2.getD j 0
    if skip x then none else some (bs * e.1 + j, g x)

def podEntriesG (bs : Nat) (skip : α → Bool) (g : α → α) (es : List (Nat × List α)) : List (Nat × α) :=
  es.flatMap fun e => rowEntriesG bs skip g e bs

theorem podEntries_eq (bs : Nat) (skip : α → Bool) (es : List (Nat × List α)) :
    podEntries bs skip es = podEntriesG bs skip id es := rfl

theorem podEntries_map_zero (bs : Nat) (skip : α → Bool) (es : List (Nat × List α)) :
    (podEntries bs skip es).map (fun e => (e.1, (0 : α))) = podEntriesG bs skip (fun _ => 0) es := by
  unfold podEntries podEntriesG rowEntriesG
  rw [List.map_flatMap]
  congr 1
  funext e
  rw [List.map_filterMap]
  congr 1
  funext j
  dsimp only
  split <;> rfl

theorem rowEntriesG_succ (bs : Nat) (skip : α → Bool) (g : α → α) (e : Nat × List α) (n : Nat) :
    rowEntriesG bs skip g e (n + 1) = rowEntriesG bs skip g e n ++
      (if skip (e.2.getD n 0) then [] else [(bs * e.1 + n, g (e.2.getD n 0))]) := by
  unfold rowEntriesG
  rw [List.range_succ, List.filterMap_append]
  congr 1
  cases hs : skip (e.2.getD n 0) <;> simp only [List.filterMap_cons, List.filterMap_nil, hs] <;> rfl

theorem podEntriesG_cons (bs : Nat) (skip : α → Bool) (g : α → α) (e : Nat × List α) (t : List (Nat × List α)) :
    podEntriesG bs skip g (e :: t) = rowEntriesG bs skip g e bs ++ podEntriesG bs skip g t := by
  simp [podEntriesG]

/-- the writes of one entry, read position-wise: component `j < n` of block `e.1` receives `g x_j` unless it is
    skipped; everything else is unchanged -/
theorem getElem?_scatter_row (bs : Nat) (skip : α → Bool) (g : α → α) (e : Nat × List α) (n : Nat) (v : List α)
    (p : Nat) :
    (scatter (rowEntriesG bs skip g e n) v)[p]? =
      if bs * e.1 ≤ p ∧ p < bs * e.1 + n ∧ skip (e.2.getD (p - bs * e.1) 0) = false
      then (v[p]?).map (fun _ => g (e.2.getD (p - bs * e.1) 0)) else v[p]? := by
  induction n with
  | zero =>
    have : ¬ (bs * e.1 ≤ p ∧ p < bs * e.1 + 0 ∧ skip (e.2.getD (p - bs * e.1) 0) = false) := by omega
    rw [if_neg this]
    rfl
  | succ n ih =>
    rw [rowEntriesG_succ, scatter_append]
    by_cases hs : skip (e.2.getD n 0)
    · simp only [hs, if_true, scatter_nil]
      rw [ih]
      by_cases hp : p = bs * e.1 + n
      · have h1 : ¬ (bs * e.1 ≤ p ∧ p < bs * e.1 + n ∧ skip (e.2.getD (p - bs * e.1) 0) = false) := by omega
        have h2 : ¬ (bs * e.1 ≤ p ∧ p < bs * e.1 + (n + 1) ∧ skip (e.2.getD (p - bs * e.1) 0) = false) := by
          intro hh
          have : p - bs * e.1 = n := by omega
          rw [this, hs] at hh
          exact absurd hh.2.2 (by simp)
        rw [if_neg h1, if_neg h2]
      · by_cases h1 : bs * e.1 ≤ p ∧ p < bs * e.1 + n ∧ skip (e.2.getD (p - bs * e.1) 0) = false
        · have h2 : bs * e.1 ≤ p ∧ p < bs * e.1 + (n + 1) ∧ skip (e.2.getD (p - bs * e.1) 0) = false :=
            ⟨h1.1, by omega, h1.2.2⟩
          rw [if_pos h1, if_pos h2]
        · have h2 : ¬ (bs * e.1 ≤ p ∧ p < bs * e.1 + (n + 1) ∧ skip (e.2.getD (p - bs * e.1) 0) = false) := by
            intro hh
            exact h1 ⟨hh.1, by omega, hh.2.2⟩
          rw [if_neg h1, if_neg h2]
    · have hs' : skip (e.2.getD n 0) = false := by simpa using hs
      simp only [hs', Bool.false_eq_true, if_false]
      rw [scatter_cons, scatter_nil, List.getElem?_set, length_scatter]
      by_cases hp : bs * e.1 + n = p
      · subst hp
        simp only [if_true]
        have h2 : bs * e.1 ≤ bs * e.1 + n ∧ bs * e.1 + n < bs * e.1 + (n + 1) ∧
            skip (e.2.getD (bs * e.1 + n - bs * e.1) 0) = false := by
          refine ⟨by omega, by omega, ?_⟩
          rw [Nat.add_sub_cancel_left]; exact hs'
        rw [if_pos h2, Nat.add_sub_cancel_left]
        by_cases hl : bs * e.1 + n < v.length
        · simp [hl]
        · have : v[bs * e.1 + n]? = none := by simp; omega
          simp [hl, this]
      · simp only [hp, if_false]
        rw [ih]
        have hp' : ¬ p = bs * e.1 + n := fun hh => hp hh.symm
        by_cases h1 : bs * e.1 ≤ p ∧ p < bs * e.1 + n ∧ skip (e.2.getD (p - bs * e.1) 0) = false
        · have h2 : bs * e.1 ≤ p ∧ p < bs * e.1 + (n + 1) ∧ skip (e.2.getD (p - bs * e.1) 0) = false :=
            ⟨h1.1, by omega, h1.2.2⟩
          rw [if_pos h1, if_pos h2]
        · have h2 : ¬ (bs * e.1 ≤ p ∧ p < bs * e.1 + (n + 1) ∧ skip (e.2.getD (p - bs * e.1) 0) = false) := by
            intro hh
            exact h1 ⟨hh.1, by omega, hh.2.2⟩
          rw [if_neg h1, if_neg h2]

/-- positions outside every constrained block are unchanged by the whole entry list -/
theorem getElem?_scatter_pod_free (bs : Nat) (skip : α → Bool) (g : α → α) (es : List (Nat × List α)) (v : List α)
    (p : Nat) (hfree : ∀ e ∈ es, ¬ (bs * e.1 ≤ p ∧ p < bs * e.1 + bs)) :
    (scatter (podEntriesG bs skip g es) v)[p]? = v[p]? := by
  induction es generalizing v with
  | nil => rfl
  | cons e t ih =>
    rw [podEntriesG_cons, scatter_append, ih _ (fun e' he' => hfree e' (List.mem_cons_of_mem _ he')),
      getElem?_scatter_row]
    have := hfree e List.mem_cons_self
    have h1 : ¬ (bs * e.1 ≤ p ∧ p < bs * e.1 + bs ∧ skip (e.2.getD (p - bs * e.1) 0) = false) :=
      fun hh => this ⟨hh.1, hh.2.1⟩
    rw [if_neg h1]

/-- pairwise different block indices: component `j` of the block of entry `e` holds `g x_j`, or is untouched
    when the component is skipped (`ignore_nans` and the filter value is NaN) -/
theorem getElem?_scatter_pod_mem (bs : Nat) (skip : α → Bool) (g : α → α) (es : List (Nat × List α))
    (hn : (es.map Prod.fst).Nodup) (v : List α) (e : Nat × List α) (he : e ∈ es) (j : Nat) (hj : j < bs) :
    (scatter (podEntriesG bs skip g es) v)[bs * e.1 + j]? =
      if skip (e.2.getD j 0) = false then (v[bs * e.1 + j]?).map (fun _ => g (e.2.getD j 0))
      else v[bs * e.1 + j]? := by
  induction es generalizing v with
  | nil => simp at he
  | cons e' t ih =>
    simp only [List.map_cons, List.nodup_cons] at hn
    rw [podEntriesG_cons, scatter_append]
    rcases List.mem_cons.mp he with hh | hh
    · subst hh
      rw [getElem?_scatter_pod_free bs skip g t _ _ (fun e' he' => block_disjoint bs e'.1 e.1 j
        (fun heq => hn.1 (List.mem_map.mpr ⟨e', he', heq.symm⟩)) hj), getElem?_scatter_row]
      rw [Nat.add_sub_cancel_left]
      by_cases hs : skip (e.2.getD j 0) = false
      · rw [if_pos ⟨by omega, by omega, hs⟩, if_pos hs]
      · rw [if_neg (fun hh => hs hh.2.2), if_neg hs]
    · rw [ih hn.2 _ hh]
      have hne : e.1 ≠ e'.1 := fun heq => hn.1 (List.mem_map.mpr ⟨e, hh, heq⟩)
      have hd := block_disjoint bs e'.1 e.1 j hne hj
      have hrow : (scatter (rowEntriesG bs skip g e' bs) v)[bs * e.1 + j]? = v[bs * e.1 + j]? := by
        rw [getElem?_scatter_row]
        rw [if_neg (fun hh => hd ⟨hh.1, hh.2.1⟩)]
      rw [hrow]

/-- the value transformation of a filter mode -/
def modeVal (m : Mode) : α → α :=
  match m with
  | .rhs | .sol => id
  | .defect | .cor => fun _ => 0

/-- what a successful blocked unit filter call computes -/
theorem unitB_apply_spec (m : Mode) (f : UnitBF α) (v w : List α) (h : f.apply m v = some w) :
    (f.es = [] ∧ w = v) ∨
    (f.es ≠ [] ∧ f.size * f.bs = v.length ∧ w = scatter (podEntriesG f.bs f.skip (modeVal m) f.es) v) := by
  cases hes : f.es with
  | nil =>
    left
    cases m <;> simp [UnitBF.apply, UnitBF.filterRhs, UnitBF.filterDef, hes] at h <;> exact ⟨rfl, h.symm⟩
  | cons e t =>
    right
    refine ⟨by simp, ?_⟩
    cases m <;> simp only [UnitBF.apply, UnitBF.filterRhs, UnitBF.filterDef, hes, List.isEmpty_cons,
      Bool.false_eq_true, if_false] at h <;>
      (split at h
       · simp at h
       · rename_i hsz
         simp only [Option.some.injEq] at h
         refine ⟨by simpa using hsz, ?_⟩
         first
           | (rw [← h, ← hes, podEntries_eq]; rfl)
           | (rw [← h, ← hes, podEntries_map_zero]; rfl))

end PodEntries

end FeatModel.LA.Filter
