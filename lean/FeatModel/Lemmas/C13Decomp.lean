/- C13: type-0 synchronisation sums the values of all sharing patches (lemmas about Decomp.WF). -/
import FeatModel.Lemmas.C13Sum
open FeatModel.Dist

namespace FeatModel.C13L

variable {α : Type} [Field α]

theorem sharedVals_of_index (d : Decomp) (vs : List (List α)) (s g : Nat) (hn : (d.lmap s).Nodup)
    (j : Nat) (hj : j < (d.lmap s).length) (hg : d.gdof s j = g) :
    d.sharedVals vs s g = [val (vs.getD s []) j] := by
  unfold Decomp.sharedVals Decomp.gdof
  rw [filter_range_getD_eq hn j hj g hg]; rfl

theorem sharedVals_nil (d : Decomp) (vs : List (List α)) (s g : Nat)
    (hg : ∀ j, j < (d.lmap s).length → d.gdof s j ≠ g) : d.sharedVals vs s g = [] := by
  unfold Decomp.sharedVals Decomp.gdof
  rw [filter_range_getD_nil g hg]; rfl

theorem sharedVals_length_le_one (d : Decomp) (vs : List (List α)) (s g : Nat) (hn : (d.lmap s).Nodup) :
    (d.sharedVals vs s g).length ≤ 1 := by
  by_cases h : ∃ j, j < (d.lmap s).length ∧ d.gdof s j = g
  · obtain ⟨j, hj, hg⟩ := h
    rw [sharedVals_of_index d vs s g hn j hj hg]; simp
  · rw [sharedVals_nil d vs s g (fun j hj hg => h ⟨j, hj, hg⟩)]; simp

theorem sync0_getD (ps : List Patch) (ords : List (List Nat)) (vs : List (List α)) (r : Nat) (hr : r < ps.length) :
    (sync0 ps ords vs).getD r [] = sync0Patch ps vs r (ords.getD r []) := by
  simp [sync0, List.getD_eq_getElem?_getD, hr]

/-- the buffer received from neighbour `nb` is gathered through the matching mirror `nb'` of `WF.sym` -/
theorem sendBuf_of_nbr (d : Decomp) (h : d.WF) (vs : List (List α)) (r : Nat) (hr : r < d.np)
    (nb : Nat × List Nat) (hnb : nb ∈ (d.patch r).nbrs) :
    ∃ nb' ∈ (d.patch nb.1).nbrs, nb'.1 = r ∧ nb'.2.map (d.gdof nb.1) = nb.2.map (d.gdof r)
      ∧ (∀ j ∈ nb'.2, j < (d.patch nb.1).n)
      ∧ sendBuf d.patches vs nb.1 r = some (gather nb'.2 (vs.getD nb.1 [])) := by
  obtain ⟨hne, hlt⟩ := h.nbr r hr nb hnb
  obtain ⟨nb', hnb', h1, hmap, hrange⟩ := h.sym r hr nb hnb
  refine ⟨nb', hnb', h1, hmap, hrange, ?_⟩
  unfold sendBuf
  have := find?_fst_of_nodup _ (h.ranks nb.1 hlt) nb' hnb' r h1
  unfold Decomp.patch at this
  rw [this]; rfl

/-- what neighbour `nb` of patch `r` contributes to local DOF `i`: the value its patch holds for the same global DOF -/
theorem nbr_contrib (d : Decomp) (h : d.WF) (vs : List (List α)) (r : Nat) (hr : r < d.np) (i : Nat)
    (hi : i < (d.patch r).n) (nb : Nat × List Nat) (hnb : nb ∈ (d.patch r).nbrs) :
    contrib nb.2 ((sendBuf d.patches vs nb.1 r).getD []) 1 i = (d.sharedVals vs nb.1 (d.gdof r i)).sum := by
  obtain ⟨hne, hlt⟩ := h.nbr r hr nb hnb
  obtain ⟨nb', hnb', h1, hmap, hrange, hsb⟩ := sendBuf_of_nbr d h vs r hr nb hnb
  rw [hsb, Option.getD_some]
  have hlen : nb'.2.length = nb.2.length := by simpa using congrArg List.length hmap
  by_cases hi' : i ∈ nb.2
  · obtain ⟨k, hk, hki⟩ := List.getElem_of_mem hi'
    have hk' : k < nb'.2.length := by omega
    have hg : d.gdof nb.1 nb'.2[k] = d.gdof r i := by
      have := congrArg (fun l => l[k]?) hmap
      simpa [hk, hk', hki] using this
    have hkb : k < (gather nb'.2 (vs.getD nb.1 [])).length := by simpa [gather] using hk'
    have hc := contrib_nodup nb.2 (h.mirNodup r hr nb hnb) (gather nb'.2 (vs.getD nb.1 [])) 1 k hk hkb
    rw [hki] at hc
    rw [hc, sharedVals_of_index d vs nb.1 _ (h.inj nb.1 hlt) nb'.2[k]
      (by rw [← h.size nb.1 hlt]; exact hrange _ (List.getElem_mem _)) hg]
    simp [gather]
  · rw [contrib_not_mem _ _ _ _ hi', sharedVals_nil]
    · simp
    · intro j hj hgj
      obtain ⟨nb2, hnb2, h2, hi2⟩ :=
        h.complete r hr nb.1 hlt hne i hi j (by rw [h.size nb.1 hlt]; exact hj) hgj.symm
      have e1 := find?_fst_of_nodup _ (h.ranks r hr) nb2 hnb2 nb.1 h2
      have e2 := find?_fst_of_nodup _ (h.ranks r hr) nb hnb nb.1 rfl
      rw [e1] at e2
      cases e2
      exact hi' hi2

/-- own value + the values of the neighbours = the values of all patches -/
theorem sum_nbrs_sharedVals (d : Decomp) (h : d.WF) (vs : List (List α)) (r : Nat) (hr : r < d.np) (i : Nat)
    (hi : i < (d.patch r).n) :
    val (vs.getD r []) i + ((d.patch r).nbrs.map fun nb => (d.sharedVals vs nb.1 (d.gdof r i)).sum).sum
      = ((List.range d.np).map fun s => (d.sharedVals vs s (d.gdof r i)).sum).sum := by
  rw [sum_reindex_find (d.patch r).nbrs d.np (h.ranks r hr) (fun nb hnb => (h.nbr r hr nb hnb).2)]
  have e2 : ∀ s ∈ List.range d.np, (d.sharedVals vs s (d.gdof r i)).sum
      = (if s = r then val (vs.getD r []) i else 0)
        + (((d.patch r).nbrs.find? (fun x => x.1 == s)).map
            fun nb => (d.sharedVals vs nb.1 (d.gdof r i)).sum).getD 0 := by
    intro s hs
    have hs := List.mem_range.1 hs
    by_cases hsr : s = r
    · subst hsr
      rw [find?_fst_none, sharedVals_of_index d vs s _ (h.inj s hr) i (by rw [← h.size s hr]; exact hi) rfl]
      · simp
      · intro hm
        obtain ⟨nb, hnb, he⟩ := List.mem_map.1 hm
        exact (h.nbr s hr nb hnb).1 he
    · rw [if_neg hsr, zero_add]
      cases hf : (d.patch r).nbrs.find? (fun x => x.1 == s) with
      | some nb =>
        have := List.find?_some hf
        simp only [beq_iff_eq] at this
        simp [this]
      | none =>
        rw [sharedVals_nil]
        · simp
        · intro j hj hgj
          obtain ⟨nb2, hnb2, h2, _⟩ :=
            h.complete r hr s hs hsr i hi j (by rw [h.size s hs]; exact hj) hgj.symm
          rw [find?_fst_of_nodup _ (h.ranks r hr) nb2 hnb2 s h2] at hf
          cases hf
  rw [List.map_congr_left e2, List.sum_map_add, sum_range_indicator _ _ hr]

theorem sync0_sum (d : Decomp) (h : d.WF) (vs : List (List α))
    (hv : ∀ r, r < d.np → (vs.getD r []).length = (d.patch r).n)
    (ords : List (List Nat)) (hord : ∀ r, r < d.np → (ords.getD r []).Perm (List.range (d.patch r).nbrs.length))
    (r : Nat) (hr : r < d.np) (i : Nat) (hi : i < (d.patch r).n) :
    val ((sync0 d.patches ords vs).getD r []) i
      = ((List.range d.np).map fun s => (d.sharedVals vs s (d.gdof r i)).sum).sum := by
  have hi2 : i < (vs.getD r []).length := by rw [hv r hr]; exact hi
  rw [sync0_getD _ _ _ _ hr, sync0Patch_perm _ _ _ (hord r hr), sync0Patch_eq, foldl_scatter_val _ _ _ _ _ _ hi2]
  have e1 : ((List.range (d.patch r).nbrs.length).map fun k =>
        contrib (msgMir d.patches r k) (msgBuf d.patches vs r k) 1 i)
      = (d.patch r).nbrs.map fun nb => (d.sharedVals vs nb.1 (d.gdof r i)).sum := by
    rw [← map_getD_range (d.patch r).nbrs (0, [])]
    apply List.map_congr_left
    intro k hk
    have hk := List.mem_range.1 hk
    have hm : (d.patch r).nbrs.getD k (0, []) ∈ (d.patch r).nbrs := by
      simp [List.getD_eq_getElem?_getD, hk]
    exact nbr_contrib d h vs r hr i hi _ hm
  rw [e1, sum_nbrs_sharedVals d h vs r hr i hi]

/-! ### a concrete well-formed decomposition (non-vacuity of the hypotheses) -/

/-- three patches; global DOF 0 is shared by all three, global DOF 1 by patches 0 and 1 -/
def exDecomp : Decomp :=
  { maps := [[0, 1, 2], [1, 0, 3], [4, 0]]
    patches := [ { n := 3, nbrs := [(1, [0, 1]), (2, [0])] },
                 { n := 3, nbrs := [(2, [1]), (0, [1, 0])] },
                 { n := 2, nbrs := [(0, [1]), (1, [1])] } ] }

/-- arrival orders for `exDecomp` (patch 0 and 2 receive in reverse order) -/
def exOrds : List (List Nat) := [[1, 0], [0, 1], [1, 0]]

end FeatModel.C13L
