import FeatModel.Model.LA.Alias
import FeatModel.Lemmas.C02Transpose
/-!
C02: calls with an aliased or pre-existing target (`FeatModel.LA.Mat.stepAlias`) agree with the fresh-target
operation (`FeatModel.LA.Mat.step`).  The dense buffer-reuse branch of `DenseMatrix::transpose` is modelled loop
for loop (`Dense.transposeKernel`); it writes every slot exactly once.  Core Lean only.
-/
namespace C02L
open FeatModel FeatModel.LA

namespace AliasAux

theorem slot_inj {rows i j i' j' : Nat} (hi : i < rows) (hi' : i' < rows)
    (h : j * rows + i = j' * rows + i') : j = j' ∧ i = i' := by
  have h1 : (j * rows + i) % rows = (j' * rows + i') % rows := by rw [h]
  rw [Nat.mul_add_mod_self_right, Nat.mul_add_mod_self_right, Nat.mod_eq_of_lt hi, Nat.mod_eq_of_lt hi'] at h1
  subst h1
  have h2 : j * rows = j' * rows := by omega
  exact ⟨Nat.eq_of_mul_eq_mul_right (by omega) h2, rfl⟩

theorem slot_lt {rows cols i j : Nat} (hi : i < rows) (hj : j < cols) : j * rows + i < cols * rows := by
  have h : (j + 1) * rows ≤ cols * rows := Nat.mul_le_mul_right _ hj
  rw [Nat.add_mul] at h
  omega

/-- the invariant of the inner loop (row `i`, columns `< j` done) is kept by one store -/
theorem inner_step {α : Type} [Zero α] (src : Array α) (rows cols i : Nat) (hi : i < rows) (j : Nat) (hj : j < cols)
    (b : Array α)
    (h : b.size = cols * rows ∧
      (∀ i' j', i' < i → j' < cols → b.getD (j' * rows + i') 0 = src.getD (i' * cols + j') 0) ∧
      (∀ j', j' < j → b.getD (j' * rows + i) 0 = src.getD (i * cols + j') 0)) :
    (b.setIfInBounds (j * rows + i) (src.getD (i * cols + j) 0)).size = cols * rows ∧
      (∀ i' j', i' < i → j' < cols →
        (b.setIfInBounds (j * rows + i) (src.getD (i * cols + j) 0)).getD (j' * rows + i') 0
          = src.getD (i' * cols + j') 0) ∧
      (∀ j', j' < j + 1 →
        (b.setIfInBounds (j * rows + i) (src.getD (i * cols + j) 0)).getD (j' * rows + i) 0
          = src.getD (i * cols + j') 0) := by
  obtain ⟨hs, h1, h2⟩ := h
  refine ⟨by rw [Array.size_setIfInBounds]; exact hs, ?_, ?_⟩
  · intro i' j' hi' hj'
    rw [getD_setIfInBounds, if_neg]
    · exact h1 i' j' hi' hj'
    · intro ⟨e, _⟩
      have := slot_inj hi (by omega) e
      omega
  · intro j' hj'
    rw [getD_setIfInBounds]
    by_cases e : j' = j
    · subst e
      rw [if_pos ⟨rfl, by rw [hs]; exact slot_lt hi hj⟩]
    · rw [if_neg]
      · exact h2 j' (by omega)
      · intro ⟨e', _⟩
        have := slot_inj hi hi e'
        omega

end AliasAux

open AliasAux

/-- the loop-for-loop kernel writes every slot exactly once: whatever the target buffer held before -/
theorem transposeKernel_eq {α} [Zero α] (r src : Array α) (rows cols : Nat) (hr : r.size = cols * rows) :
    Dense.transposeKernel r src rows cols =
      Array.ofFn (n := cols * rows) fun idx => src.getD ((idx.val % rows) * cols + idx.val / rows) 0 := by
  have key := foldRange_inv
    (fun i (a : Array α) => a.size = cols * rows ∧
      ∀ i' j', i' < i → j' < cols → a.getD (j' * rows + i') 0 = src.getD (i' * cols + j') 0)
    (fun r i => foldRange 0 cols (fun r j => r.setIfInBounds (j * rows + i) (src.getD (i * cols + j) 0)) r)
    0 rows r (Nat.zero_le _) ⟨hr, by intro _ _ h; omega⟩
    (by
      intro i a _ hi ⟨hs, ha⟩
      have inner := foldRange_inv
        (fun j (b : Array α) => b.size = cols * rows ∧
          (∀ i' j', i' < i → j' < cols → b.getD (j' * rows + i') 0 = src.getD (i' * cols + j') 0) ∧
          (∀ j', j' < j → b.getD (j' * rows + i) 0 = src.getD (i * cols + j') 0))
        (fun r j => r.setIfInBounds (j * rows + i) (src.getD (i * cols + j) 0))
        0 cols a (Nat.zero_le _) ⟨hs, ha, by intro _ h; omega⟩
        (fun j b _ hj hb => inner_step src rows cols i hi j hj b hb)
      obtain ⟨is, i1, i2⟩ := inner
      refine ⟨is, ?_⟩
      intro i' j' hi' hj'
      by_cases e : i' = i
      · subst e; exact i2 j' hj'
      · exact i1 i' j' (by omega) hj')
  obtain ⟨ks, k1⟩ := key
  show foldRange 0 rows _ r = _
  apply Array.ext
  · rw [ks, Array.size_ofFn]
  · intro idx h1 h2
    rw [Array.size_ofFn] at h2
    have hrows : 0 < rows := by
      rcases Nat.eq_zero_or_pos rows with h | h
      · subst h; simp at h2
      · exact h
    have hj : idx / rows < cols := by
      rw [Nat.div_lt_iff_lt_mul hrows]; exact h2
    have hi : idx % rows < rows := Nat.mod_lt _ hrows
    have hidx : idx / rows * rows + idx % rows = idx := by
      rw [Nat.mul_comm]; exact Nat.div_add_mod idx rows
    have := k1 (idx % rows) (idx / rows) hi hj
    rw [hidx] at this
    rw [Array.getElem_ofFn]
    simp only [Array.getD, h1, dif_pos] at this
    exact this

/-- buffer reuse / shared memory / any old target content: same result as the fresh-target transpose -/
theorem dense_transposeInto_alias {α} [Zero α] (t x : Dense α) (shared : Bool) (hx : x.wf = true)
    (ht : t.wf = true) (hs : shared = true → t.rows = x.rows ∧ t.cols = x.cols) :
    (Dense.transposeInto t x shared).1 = x.transpose := by
  have hx' : x.val.size = x.rows * x.cols := by simpa [Dense.wf] using hx
  have ht' : t.val.size = t.rows * t.cols := by simpa [Dense.wf] using ht
  unfold Dense.transposeInto Dense.transpose
  split
  · rename_i h
    obtain ⟨h1, h2⟩ := h
    simp only
    rw [transposeKernel_eq]
    · rw [h1, h2]
    · cases shared
      · simp only [Bool.false_eq_true, if_false]; rw [ht', h1, h2]
      · simp only [if_true]; rw [hx', Nat.mul_comm]
  · simp only
    rw [transposeKernel_eq]
    simp

/-- the source afterwards: untouched unless the memory is shared and reused (square matrix), in which case it shows
    the result -/
theorem dense_transposeInto_source {α} [Zero α] (t x : Dense α) (shared : Bool) (hx : x.wf = true)
    (ht : t.wf = true) (hs : shared = true → t.rows = x.rows ∧ t.cols = x.cols) :
    (Dense.transposeInto t x shared).2 = x ∨
    (shared = true ∧ x.rows = x.cols ∧ (Dense.transposeInto t x shared).2 = x.transpose) := by
  have hx' : x.val.size = x.rows * x.cols := by simpa [Dense.wf] using hx
  have _ := ht
  cases shared
  · left
    unfold Dense.transposeInto
    split <;> simp
  · obtain ⟨e1, e2⟩ := hs rfl
    unfold Dense.transposeInto
    split
    · rename_i h
      obtain ⟨h1, h2⟩ := h
      right
      have hsq : x.rows = x.cols := by omega
      refine ⟨rfl, hsq, ?_⟩
      simp only [if_true]
      rw [transposeKernel_eq _ _ _ _ (by rw [hx', Nat.mul_comm])]
      unfold Dense.transpose
      rw [← hsq]
    · left; rfl

/-- every kind of prepared target is well-formed, and the shared one has the source's shape -/
theorem dense_target_wf {α} (fill : α) (x : Dense α) (hx : x.wf = true) (k : Nat) (t : Dense α) (sh : Bool)
    (h : Dense.target fill x k = some (t, sh)) :
    t.wf = true ∧ (sh = true → t.rows = x.rows ∧ t.cols = x.cols) := by
  match k, h with
  | 0, h => simp [Dense.target] at h; obtain ⟨rfl, rfl⟩ := h; simp [Dense.wf]
  | 1, h => simp [Dense.target] at h; obtain ⟨rfl, rfl⟩ := h; simp [Dense.wf]
  | 2, h => simp [Dense.target] at h; obtain ⟨rfl, rfl⟩ := h; simp [Dense.wf]
  | 3, h =>
    simp [Dense.target] at h; obtain ⟨rfl, rfl⟩ := h
    split <;> simp [Dense.wf]
  | 4, h => simp [Dense.target] at h; obtain ⟨rfl, rfl⟩ := h; simp [hx]
  | k + 5, h => simp [Dense.target] at h

namespace AliasAux

theorem fin_ok {α : Type} (c P : Prop) [Decidable c] (X m : Mat α) :
    (∀ t s, (if c then ResA.ok X m else ResA.bad) = ResA.ok t s → X = t ∧ (s = m ∨ P ∧ s = t)) ∧
    ∀ t, (if c then ResA.ok X m else ResA.bad) = ResA.self t → X = t := by
  refine ⟨fun t s h => ?_, fun t h => ?_⟩ <;> split at h <;> simp at h
  obtain ⟨rfl, rfl⟩ := h
  simp

theorem fin_self {α : Type} (c P : Prop) [Decidable c] (X m : Mat α) :
    (∀ t s, (if c then ResA.self X else ResA.bad) = ResA.ok t s → X = t ∧ (s = m ∨ P ∧ s = t)) ∧
    ∀ t, (if c then ResA.self X else ResA.bad) = ResA.self t → X = t := by
  refine ⟨fun t s h => ?_, fun t h => ?_⟩ <;> split at h <;> simp at h
  exact h

end AliasAux

/-- every aliased / pre-existing-target call that the model accepts yields exactly the container the fresh-target
    operation `a.base` yields, and leaves the source as it was — except for the documented sharing of a shallow clone
    (dense square buffer reuse), where the source shows the result -/
theorem stepAlias_agrees {α} [Zero α] (fill : α) (m : Mat α) (hv : m.valid = true) (a : AOp) :
    (∀ t s, m.stepAlias fill a = .ok t s →
        (∃ o, a.base m.fmt = some o ∧ m.step o = .ok t) ∧ (s = m ∨ (m.rows = m.cols ∧ s = t))) ∧
    (∀ t, m.stepAlias fill a = .self t → ∃ o, a.base m.fmt = some o ∧ m.step o = .ok t) := by
  cases a with
  | trs =>
    cases m with
    | dense A =>
      simp [Mat.stepAlias, AOp.base, Mat.step]
      exact (dense_transposeInto_alias A A true hv hv (fun _ => ⟨rfl, rfl⟩)).symm
    | _ => simp [Mat.stepAlias, AOp.base, Mat.step] <;> first | exact fin_ok _ _ _ _ | exact fin_self _ _ _ _
  | trt k =>
    cases m with
    | dense A =>
      have hA : A.wf = true := hv
      simp only [Mat.stepAlias, AOp.base, Mat.step]
      cases hT : Dense.target fill A k with
      | none => simp
      | some p =>
        obtain ⟨t, sh⟩ := p
        obtain ⟨hw, hsh⟩ := dense_target_wf fill A hA k t sh hT
        have e1 := dense_transposeInto_alias t A sh hA hw hsh
        have e2 := dense_transposeInto_source t A sh hA hw hsh
        simp only [e1]
        refine ⟨fun t' s h => ?_, fun t' h => by simp at h⟩
        simp at h
        obtain ⟨rfl, rfl⟩ := h
        refine ⟨⟨_, rfl, rfl⟩, ?_⟩
        rcases e2 with e | ⟨_, hsq, e⟩
        · left; rw [e]
        · right; exact ⟨hsq, by rw [e]⟩
    | _ => simp [Mat.stepAlias, AOp.base, Mat.step] <;> first | exact fin_ok _ _ _ _ | exact fin_self _ _ _ _
  | convs => simp [Mat.stepAlias, AOp.base, Mat.step]
  | convt k f =>
    by_cases hf : f = m.fmt
    · simp only [Mat.stepAlias, AOp.base, if_pos hf, Mat.step]
      simp
      exact fin_ok _ _ _ _
    · simp only [Mat.stepAlias, AOp.base, if_neg hf]
      by_cases hk : (k == 0 || k == 1 || k == 3) = true
      · simp only [if_pos hk]
        cases f <;> cases m <;> simp [Mat.step, Mat.fmt] at hf ⊢
        all_goals
          split
          · rename_i heq
            refine ⟨fun t s h => ?_, fun t h => by simp at h⟩
            simp at h
            obtain ⟨rfl, rfl⟩ := h
            simp [heq]
          · simp
      · simp only [if_neg hk]
        simp
  | clones c => simp [Mat.stepAlias, AOp.base, Mat.step]
  | clonet k c =>
    simp [Mat.stepAlias, AOp.base, Mat.step]
    exact fin_ok _ _ _ _
  | copys => simp [Mat.stepAlias, AOp.base, Mat.step]
  | copyt k =>
    simp [Mat.stepAlias, AOp.base, Mat.step]
    exact fin_ok _ _ _ _

end C02L
