import FeatModel.Model.Adjacency
import FeatModel.Model.AdjKernels
import FeatModel.Lemmas.C19_renders
import FeatModel.Lemmas.C19_walk
import FeatModel.Lemmas.C19_color
import FeatModel.Lemmas.C19_dyn
/-! C19 lemmas, group `wf` (statements fixed by Props/C19.statements) -/
open FeatModel.Adj

namespace C19L.wf

theorem wf_iff (g : Graph) : g.wf = true ↔ ∀ l, l ∈ g.adj → ∀ k, k ∈ l → k < g.nImg := by
  simp only [Graph.wf, List.all_eq_true, decide_eq_true_eq]

theorem mem_transposeRow_lt (adj : List (List Nat)) (i k : Nat) (hk : k ∈ Graph.transposeRow adj i) :
    k < adj.length := by
  unfold Graph.transposeRow at hk
  rw [List.mem_flatMap] at hk
  obtain ⟨⟨l, j⟩, hp, hk⟩ := hk
  simp only [List.mem_map] at hk
  obtain ⟨_, _, rfl⟩ := hk
  exact (List.mem_zipIdx' hp).1

theorem mem_injTransposeRow_lt (adj : List (List Nat)) (i k : Nat) (hk : k ∈ Graph.injTransposeRow adj i) :
    k < adj.length := by
  unfold Graph.injTransposeRow at hk
  rw [List.mem_filterMap] at hk
  obtain ⟨⟨l, j⟩, hp, hk⟩ := hk
  simp only at hk
  split at hk
  · cases hk
    exact (List.mem_zipIdx' hp).1
  · cases hk

theorem sortIndices_wf (g : Graph) (hwf : g.wf = true) : g.sortIndices.wf = true := by
  rw [wf_iff] at hwf ⊢
  simp only [Graph.sortIndices, List.mem_map]
  rintro l ⟨l0, hl0, rfl⟩ k hk
  exact hwf l0 hl0 k ((C19L.renders.sortList_perm l0).mem_iff.mp hk)

theorem injectify_wf (g : Graph) (hwf : g.wf = true) : g.injectify.wf = true := by
  rw [wf_iff] at hwf ⊢
  simp only [Graph.injectify, List.mem_map]
  rintro l ⟨l0, hl0, rfl⟩ k hk
  exact hwf l0 hl0 k ((C19L.renders.mem_dedup l0 k).mp hk)

theorem transpose_wf (g : Graph) : g.transpose.wf = true := by
  rw [wf_iff]
  simp only [Graph.transpose, List.mem_map, Graph.nDom]
  rintro l ⟨i, _, rfl⟩ k hk
  exact mem_transposeRow_lt _ _ _ hk

theorem injectifyTranspose_wf (g : Graph) : g.injectifyTranspose.wf = true := by
  rw [wf_iff]
  simp only [Graph.injectifyTranspose, List.mem_map, Graph.nDom]
  rintro l ⟨i, _, rfl⟩ k hk
  exact mem_injTransposeRow_lt _ _ _ hk

theorem render_wf (rt : Nat) (g r : Graph) (hwf : g.wf = true) (h : g.render rt = some r) : r.wf = true := by
  unfold Graph.render at h
  split at h <;> (try cases h)
  · exact hwf
  · exact sortIndices_wf _ hwf
  · exact injectify_wf _ hwf
  · exact sortIndices_wf _ (injectify_wf _ hwf)
  · exact transpose_wf _
  · exact transpose_wf _
  · exact injectifyTranspose_wf _
  · exact injectifyTranspose_wf _

theorem renderComposite_wf (rt : Nat) (a b r : Graph) (hb : b.wf = true)
    (h : Graph.renderComposite rt a b = some r) : r.wf = true := by
  unfold Graph.renderComposite at h
  split at h
  · cases h
  · exact render_wf rt _ r (C19L.walk.compose_wf a b hb) h

theorem permuted_wf (g : Graph) (dp ip : List Nat) (hwf : g.wf = true)
    (hip : ∀ k, k < g.nImg → ip.getD k 0 < g.nImg) : (g.permuted dp ip).wf = true := by
  rw [wf_iff]
  simp only [Graph.permuted, List.mem_map]
  rintro l ⟨d, _, rfl⟩ k hk
  obtain ⟨k0, hk0, rfl⟩ := List.mem_map.mp hk
  exact hip k0 (C19L.walk.row_lt_of_wf g hwf d k0 hk0)

theorem permuteIndices_wf (g : Graph) (p : List Nat) (hwf : g.wf = true) (hp : ∀ k, k < g.nImg → p.getD k 0 < g.nImg) :
    ({ g with adj := g.adj.map fun l => l.map fun k => p.getD k 0 } : Graph).wf = true := by
  rw [wf_iff] at hwf ⊢
  simp only [List.mem_map]
  rintro l ⟨l0, hl0, rfl⟩ k hk
  obtain ⟨k0, hk0, rfl⟩ := List.mem_map.mp hk
  exact hp k0 (hwf l0 hl0 k0 hk0)

theorem partitionGraph_wf (nc : Nat) (col : List Nat) : (Coloring.partitionGraph nc col).wf = true := by
  rw [wf_iff]
  simp only [Coloring.partitionGraph, List.mem_map]
  rintro l ⟨c, _, rfl⟩ k hk
  rw [List.mem_filterMap] at hk
  obtain ⟨⟨cj, j⟩, hp, hk⟩ := hk
  simp only at hk
  split at hk
  · cases hk
    exact (List.mem_zipIdx' hp).1
  · cases hk

theorem dyn_rows_exists (g : DynGraph) (l : List Nat) (hl : l ∈ g.rows) (k : Nat) (hk : k ∈ l) :
    ∃ i, g.exists i k = true := by
  obtain ⟨i, hi, rfl⟩ := List.getElem_of_mem hl
  refine ⟨i, ?_⟩
  simp only [DynGraph.exists, DynGraph.row, List.getD_eq_getElem?_getD, List.getElem?_eq_getElem hi,
    Option.getD_some, List.contains_iff_mem]
  exact hk

theorem dynGraph_wf (A : Adjactor) (hA : A.Lawful) (hwf : A.toGraph.wf = true) (tr : Bool) :
    (DynGraph.ofAdjactor A tr).toGraph.wf = true := by
  rw [wf_iff]
  simp only [DynGraph.toGraph]
  cases tr with
  | false =>
    rw [C19L.dyn.ofAdjactor_false_eq A hA]
    have := C19L.dyn.insertAll_spec ((List.range A.nDom).flatMap fun i => (A.images i).map fun v => (i, v))
      (DynGraph.empty A.nDom A.nImg) (C19L.dyn.empty_sorted _ _) (by
        intro p hp
        simp only [List.mem_flatMap, List.mem_range, List.mem_map] at hp
        obtain ⟨i, hi, v, _, rfl⟩ := hp
        rw [C19L.dyn.empty_nDom]; exact hi)
    obtain ⟨_, _, b3, b4⟩ := this
    intro l hl k hk
    obtain ⟨i, hik⟩ := dyn_rows_exists _ l hl k hk
    rw [b4, C19L.dyn.empty_exists] at hik
    simp only [Bool.false_eq_true, false_or, List.mem_flatMap, List.mem_range, List.mem_map, Prod.mk.injEq] at hik
    obtain ⟨i', hi', v, hv, rfl, rfl⟩ := hik
    rw [b3]
    exact C19L.dyn.images_lt A hwf i' v hi' hv
  | true =>
    rw [C19L.dyn.ofAdjactor_true_eq A hA]
    have := C19L.dyn.insertAll_spec ((List.range A.nDom).flatMap fun i => (A.images i).map fun v => (v, i))
      (DynGraph.empty A.nImg A.nDom) (C19L.dyn.empty_sorted _ _) (by
        intro p hp
        simp only [List.mem_flatMap, List.mem_range, List.mem_map] at hp
        obtain ⟨i, hi, v, hv, rfl⟩ := hp
        rw [C19L.dyn.empty_nDom]; exact C19L.dyn.images_lt A hwf i v hi hv)
    obtain ⟨_, _, b3, b4⟩ := this
    intro l hl k hk
    obtain ⟨i, hik⟩ := dyn_rows_exists _ l hl k hk
    rw [b4, C19L.dyn.empty_exists] at hik
    simp only [Bool.false_eq_true, false_or, List.mem_flatMap, List.mem_range, List.mem_map, Prod.mk.injEq] at hik
    obtain ⟨i', hi', v, hv, rfl, rfl⟩ := hik
    rw [b3]
    exact hi'

end C19L.wf
