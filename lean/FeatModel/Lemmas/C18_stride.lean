/-
C18 helper lemmas, part 11: `Math::invert_matrix` on the strided storage (`stride ≥ n`): the loops only read and
write the positions `i*stride + j`, `i, j < n`; the result is the `n×n` algorithm on the block, written back, and every
other position of the array (the padding of a `Tiny::Matrix` with `sn > n`) keeps its value.
-/
import FeatModel.Lemmas.C18_inv
open FeatModel.GT

namespace C18L

theorem getD_map_range' (n : Nat) (f : Nat → Rat) {i : Nat} (hi : i < n) :
    ((List.range n).map f).getD i 0 = f i := by
  simp [List.getD_eq_getElem?_getD, hi]

theorem idx_div {stride i j : Nat} (hj : j < stride) : (i * stride + j) / stride = i := by
  have hs : 0 < stride := by omega
  rw [Nat.add_comm, Nat.add_mul_div_right _ _ hs, Nat.div_eq_of_lt hj, Nat.zero_add]

theorem idx_mod {stride i j : Nat} (hj : j < stride) : (i * stride + j) % stride = j := by
  rw [Nat.add_comm, Nat.add_mul_mod_self_right, Nat.mod_eq_of_lt hj]

theorem idx_lt {n stride i j : Nat} (hi : i < n) (hj : j < n) (hs : n ≤ stride) : i * stride + j < n * stride := by
  have h1 : i * stride + j < (i + 1) * stride := by rw [Nat.succ_mul]; omega
  have h2 : (i + 1) * stride ≤ n * stride := Nat.mul_le_mul_right _ (by omega)
  omega

theorem putBlock_length (n stride : Nat) (a : List Rat) (m : Mat) : (putBlock n stride a m).length = a.length := by
  simp [putBlock]

theorem getF_putBlock {n stride : Nat} (a : List Rat) (m : Mat) (hs : n ≤ stride) (hlen : n * stride ≤ a.length)
    {i j : Nat} (hi : i < n) (hj : j < n) :
    getF stride (putBlock n stride a m) i j = FeatModel.GT.get m i j := by
  unfold getF putBlock
  have hlt : i * stride + j < a.length := by have := idx_lt hi hj hs; omega
  rw [getD_map_range' _ _ hlt, idx_div (by omega), idx_mod (by omega)]
  simp [hi, hj]

theorem sweepFlat_putBlock {n stride q : Nat} (a : List Rat) (m : Mat) (hs : n ≤ stride)
    (hlen : n * stride ≤ a.length) (hq : q < n) :
    sweepFlat n stride q (putBlock n stride a m) = putBlock n stride a (sweep n q m) := by
  unfold sweepFlat
  rw [putBlock_length]
  conv_rhs => unfold putBlock
  apply List.map_congr_left
  intro idx hidx
  have hidx' : idx < a.length := List.mem_range.1 hidx
  by_cases hb : idx / stride < n ∧ idx % stride < n
  · rw [if_pos hb, if_pos hb, get_sweep m hb.1 hb.2]
    unfold sweepFn sweepEntry
    simp only [getF_putBlock a m hs hlen hq hb.2, getF_putBlock a m hs hlen hq hq,
      getF_putBlock a m hs hlen hb.1 hb.2, getF_putBlock a m hs hlen hb.1 hq]
  · rw [if_neg hb, if_neg hb]
    unfold putBlock
    rw [getD_map_range' _ _ hidx', if_neg hb]

theorem pivotLoop_congr (d d' : Nat → Rat) (js : List Nat) (pv : Rat) (i : Nat) (h : ∀ j ∈ js, d j = d' j) :
    pivotLoop d js pv i = pivotLoop d' js pv i := by
  induction js generalizing pv i with
  | nil => rfl
  | cons j js ih =>
    unfold pivotLoop
    rw [h j (by simp)]
    split
    · exact ih _ _ (fun x hx => h x (by simp [hx]))
    · exact ih _ _ (fun x hx => h x (by simp [hx]))

theorem pivotSearchF_putBlock {n stride : Nat} (a : List Rat) (m : Mat) (p : List Nat) (hs : n ≤ stride)
    (hlen : n * stride ≤ a.length) (hp : PInv n p) {k : Nat} (hk : k < n) :
    pivotSearchF stride (putBlock n stride a m) p k n = pivotSearch m p k n := by
  simp only [pivotSearchF, pivotSearch]
  have hd : ∀ j, j < n → qabs (getF stride (putBlock n stride a m) (p.getD j 0) (p.getD j 0))
      = qabs (FeatModel.GT.get m (p.getD j 0) (p.getD j 0)) := by
    intro j hj
    rw [getF_putBlock a m hs hlen (hp.2.1 j hj) (hp.2.1 j hj)]
  rw [hd k hk]
  apply pivotLoop_congr
  intro j hj
  rw [List.mem_range'_1] at hj
  exact hd j (by omega)

/-- the strided state that corresponds to an `n×n` state -/
def embedState (n stride : Nat) (a0 : List Rat) (st : InvState) : InvStateF :=
  { a := putBlock n stride a0 st.a, p := st.p, det := st.det }

theorem invStepF_sim {n stride : Nat} (a0 : List Rat) (st : InvState) (hs : n ≤ stride)
    (hlen : n * stride ≤ a0.length) (hp : PInv n st.p) {k : Nat} (hk : k < n) :
    invStepF n stride (embedState n stride a0 st) k = (invStep n st k).map (embedState n stride a0) := by
  unfold invStepF invStep embedState
  simp only
  rw [pivotSearchF_putBlock a0 st.a st.p hs hlen hp hk]
  have hrange := pivotSearch_range st.a st.p hk
  have hp' := PInv_swapPiv hp hk hrange.1 hrange.2
  have hq := hp'.2.1 k hk
  rw [getF_putBlock a0 st.a hs hlen hq hq]
  split
  · rfl
  · simp only [Option.map_some, Option.some.injEq]
    rw [sweepFlat_putBlock a0 st.a hs hlen hq]

theorem invStep_PInv {n : Nat} {st st' : InvState} (hp : PInv n st.p) {k : Nat} (hk : k < n)
    (h : invStep n st k = some st') : PInv n st'.p := by
  unfold invStep at h
  simp only at h
  split at h
  · simp at h
  · simp only [Option.some.injEq] at h
    subst h
    have hrange := pivotSearch_range st.a st.p hk
    exact PInv_swapPiv hp hk hrange.1 hrange.2

theorem invLoopF_sim {n stride : Nat} (a0 : List Rat) (hs : n ≤ stride) (hlen : n * stride ≤ a0.length)
    (ks : List Nat) (hks : ∀ k ∈ ks, k < n) : ∀ (st : InvState), PInv n st.p →
    invLoopF n stride ks (embedState n stride a0 st) = (invLoop n ks st).map (embedState n stride a0) := by
  induction ks with
  | nil => intro st _; rfl
  | cons k ks ih =>
    intro st hp
    have hk := hks k (by simp)
    unfold invLoopF invLoop
    rw [invStepF_sim a0 st hs hlen hp hk]
    cases h : invStep n st k with
    | none => rfl
    | some st' =>
      simp only [Option.map_some]
      exact ih (fun x hx => hks x (by simp [hx])) st' (invStep_PInv hp hk h)

theorem putBlock_extract {n stride : Nat} (a : List Rat) (hs : n ≤ stride) (hn : 0 < n) :
    putBlock n stride a (extractBlock n stride a) = a := by
  unfold putBlock extractBlock
  apply List.ext_getElem
  · simp
  · intro idx h1 h2
    simp only [List.getElem_map, List.getElem_range]
    split
    · rename_i hb
      rw [get_tab _ hb.1 hb.2]
      unfold getF
      rw [Nat.mul_comm, Nat.div_add_mod]
      simp [List.getD_eq_getElem?_getD, h2]
    · simp [List.getD_eq_getElem?_getD, h2]

/-- **strided storage**: `invert_matrix(n, stride, a, p)` = the `n×n` algorithm on the block, written back; pivot array
and determinant are the same; all positions outside the block keep their values -/
theorem invertFlat_eq {n stride : Nat} (a : List Rat) (hn : 0 < n) (hs : n ≤ stride) (hlen : n * stride ≤ a.length) :
    invertFlat n stride a
      = (invertMatrix n stride (extractBlock n stride a)).map fun r => (r.1, putBlock n stride a r.2.1, r.2.2) := by
  unfold invertFlat invertMatrix
  have h0 : ¬ (n = 0 ∨ stride < n) := by omega
  simp only [h0, if_false]
  by_cases h1 : n = 1
  · subst h1
    simp only [if_true]
    have hd : FeatModel.GT.get (extractBlock 1 stride a) 0 0 = a.getD 0 0 := by
      unfold extractBlock
      rw [get_tab _ (by omega) (by omega)]
      simp [getF]
    rw [hd]
    split
    · rfl
    · simp only [Option.map_some, Option.some.injEq, Prod.mk.injEq, true_and, and_true]
      unfold putBlock
      apply List.ext_getElem
      · simp
      · intro idx h1 h2
        simp only [List.getElem_map, List.getElem_range, List.getElem_set]
        have hs0 : 0 < stride := by omega
        by_cases hi : idx = 0
        · subst hi
          simp [FeatModel.GT.get, Nat.zero_div, hs0]
        · have : ¬ (idx / stride < 1 ∧ idx % stride < 1) := by
            intro ⟨h3, h4⟩
            have h5 : idx / stride = 0 := Nat.lt_one_iff.1 h3
            have h6 : idx % stride = 0 := Nat.lt_one_iff.1 h4
            have := Nat.div_add_mod idx stride
            rw [h5, h6] at this
            omega
          rw [if_neg this, if_neg (fun h => hi h.symm)]
          simp at h1
          simp [List.getD_eq_getElem?_getD, h1]
  · simp only [h1, if_false]
    have hsim := invLoopF_sim a hs hlen (List.range n) (fun k hk => List.mem_range.1 hk)
      { a := tab n n (FeatModel.GT.get (extractBlock n stride a)), p := List.range n, det := 1 } (PInv_range n)
    have hinit : embedState n stride a
        { a := tab n n (FeatModel.GT.get (extractBlock n stride a)), p := List.range n, det := 1 }
        = { a := a, p := List.range n, det := 1 } := by
      unfold embedState
      simp only
      congr 1
      have : tab n n (FeatModel.GT.get (extractBlock n stride a)) = extractBlock n stride a := by
        unfold extractBlock tab
        apply List.map_congr_left
        intro i hi
        apply List.map_congr_left
        intro j hj
        exact get_tab _ (List.mem_range.1 hi) (List.mem_range.1 hj)
      rw [this, putBlock_extract a hs hn]
    rw [hinit] at hsim
    rw [hsim]
    cases invLoop n (List.range n) { a := tab n n (FeatModel.GT.get (extractBlock n stride a)), p := List.range n, det := 1 } with
    | none => rfl
    | some st => rfl

end C18L
