import FeatModel.Model.FETrace
/-! The local basis of any cell of any 2-D mesh is the local basis of a reference configuration. -/
namespace FeatModel.FE

theorem mem_allOrients {n : Nat} {l : List Nat} (hl : l.length = n) (h01 : ∀ x ∈ l, x = 0 ∨ x = 1) :
    l ∈ allOrients n := by
  induction n generalizing l with
  | zero =>
    have : l = [] := List.length_eq_zero_iff.mp hl
    subst this; simp [allOrients]
  | succ n ih =>
    cases l with
    | nil => simp at hl
    | cons a t =>
      have ht : t ∈ allOrients n := ih (by simpa using hl) (fun x hx => h01 x (List.mem_cons_of_mem a hx))
      simp only [allOrients, List.mem_flatMap, List.mem_cons, List.not_mem_nil, or_false]
      refine ⟨t, ht, ?_⟩
      rcases h01 a List.mem_cons_self with rfl | rfl
      · exact Or.inl rfl
      · exact Or.inr rfl

theorem orientEdge_01 (s t : List Nat) : orientEdge s t = 0 ∨ orientEdge s t = 1 := by
  unfold orientEdge; split <;> simp

theorem edgeCodes_mem (m : Mesh) (c : Nat) :
    edgeCodes m c ∈ allOrients (fim m.kind m.dim 1).length := by
  apply mem_allOrients
  · simp [edgeCodes]
  · intro x hx
    simp only [edgeCodes, List.mem_map] at hx
    obtain ⟨⟨e, i⟩, _, rfl⟩ := hx
    exact orientEdge_01 _ _

set_option maxRecDepth 100000 in
theorem edgeCodes_refMesh2 : ([Kind.S, Kind.H].all fun k => (allOrients (numFaces k 2 1)).all fun o =>
    edgeCodes (refMesh k 2 o) 0 == o && (refMesh k 2 o).kind == k && (refMesh k 2 o).dim == 2) = true := by
  decide +kernel

/-- the orientation-dependent part of the evaluator model (`slotPerm`) of any cell of any 2-D mesh equals that of the
    reference configuration with the cell's edge orientation codes -/
theorem slotPerm_eq_ref_2d (f : Fam) (m : Mesh) (c : Nat) (hdim : m.dim = 2) :
    edgeCodes m c ∈ allOrients (numFaces m.kind 2 1) ∧
    slotPerm f m c = slotPerm f (refMesh m.kind 2 (edgeCodes m c)) 0 := by
  have hmem : edgeCodes m c ∈ allOrients (numFaces m.kind 2 1) := by
    have := edgeCodes_mem m c
    rw [hdim] at this
    cases hk : m.kind <;> simp only [hk] at this ⊢ <;> exact this
  refine ⟨hmem, ?_⟩
  have hall := edgeCodes_refMesh2
  simp only [List.all_cons, List.all_nil, Bool.and_true, Bool.and_eq_true] at hall
  have href : ∀ k, ∀ o ∈ allOrients (numFaces k 2 1),
      edgeCodes (refMesh k 2 o) 0 = o ∧ (refMesh k 2 o).kind = k ∧ (refMesh k 2 o).dim = 2 := by
    intro k o ho
    cases k
    · have := List.all_eq_true.mp hall.1 o ho
      simp only [Bool.and_eq_true, beq_iff_eq] at this
      exact ⟨this.1.1, this.1.2, this.2⟩
    · have := List.all_eq_true.mp hall.2 o ho
      simp only [Bool.and_eq_true, beq_iff_eq] at this
      exact ⟨this.1.1, this.1.2, this.2⟩
  obtain ⟨h1, h2, h3⟩ := href m.kind (edgeCodes m c) hmem
  have hf : ∀ (mm : Mesh), mm.dim = 2 → faceCodes mm 0 = [] ∧ faceCodes mm c = [] := by
    intro mm hmm
    simp [faceCodes, hmm]
  unfold slotPerm
  rw [h1, h2, h3, hdim, (hf m hdim).2, (hf _ h3).1]

end FeatModel.FE
