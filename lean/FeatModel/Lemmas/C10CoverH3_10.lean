import FeatModel.Model.RefineCover
/-! C10 local refinement lemma, hexahedron, pairwise covering family, configurations 40..43 (kernel evaluation). -/
namespace FeatModel.Refine
set_option maxRecDepth 100000

theorem cover_hexa_10 : ∀ j < 4, (refine (cell3c .hypercube (j + 40))).consistent = true := by decide +kernel

end FeatModel.Refine
