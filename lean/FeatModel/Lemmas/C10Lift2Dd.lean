import FeatModel.Lemmas.C10Lift2Dc
/-! C10 — global 2-D lift: no fine entity has a repeated vertex (first half of `distinctOk`), which makes the
lifted invariant iterable over refinement histories. -/
namespace FeatModel.Refine
open FeatModel.Gen.Refine

theorem allDistinct_iff (l : List Nat) : allDistinct l = true ↔ l.Nodup := by
  induction l with
  | nil => simp [allDistinct]
  | cons a as ih => simp [allDistinct, ih, List.nodup_cons]

/-- first half of `distinctOk`: no entity lists a vertex twice -/
def Mesh.nodupOk (M : Mesh) : Prop := ∀ c, 1 ≤ c → c ≤ M.dim → ∀ t ∈ M.idx c 0, t.Nodup

theorem nodupOk_of_distinctOk (M : Mesh) (h : M.distinctOk = true) : M.nodupOk := by
  intro c hc1 hcd t ht
  unfold Mesh.distinctOk at h
  rw [List.all_eq_true] at h
  have := h c (by rw [List.mem_range'_1]; omega)
  rw [Bool.and_eq_true, List.all_eq_true] at this
  exact (allDistinct_iff t).1 (this.1 t ht)

/-- conformity invariant that is lifted through refinement by this development: `Mesh.consistent` without the
    clause "two different entities of one dimension have different vertex sets" -/
structure Inv2 (M : Mesh) : Prop extends Ok2 M where
  nums3 : M.nums.length = 3
  faces : M.facesOk = true
  nodup : M.nodupOk
  facets : M.facetsOk = true
  covered : M.coveredOk = true

theorem Inv2.conf {M : Mesh} (h : Inv2 M) : Conf2 M where
  toOk2 := h.toOk2
  faces := (facesOk_iff2 M h.dim).1 h.faces
  edgeNodup := by
    intro E hE
    have hp := edge_pair M h.toOk2 E hE
    have hlen := ((shapeOk_iff M).1 h.shape 1 (by omega) (by rw [h.dim]; omega) 0 (by omega)).1
    have hmem := tuple_mem_idx M 1 0 E (by omega)
    have := h.nodup 1 (by omega) (by rw [h.dim]; omega) _ hmem
    rw [hp] at this
    simpa using this

theorem getD_mem_self {l : List Nat} {b : Nat} (h : b < l.length) : l.getD b 0 ∈ l := by
  rw [List.getD_eq_getElem?_getD, List.getElem?_eq_getElem h]
  exact List.getElem_mem _

theorem fim2_distinct (kind : Kind) : ∀ e < faceCount kind 2 1, ∀ e' < faceCount kind 2 1, e ≠ e' →
    ¬ ((((faceIndexMap kind 2 1 0).getD e' []).contains (((faceIndexMap kind 2 1 0).getD e []).getD 0 0)) = true ∧
       (((faceIndexMap kind 2 1 0).getD e' []).contains (((faceIndexMap kind 2 1 0).getD e []).getD 1 0)) = true) := by
  cases kind <;> decide

theorem cell_vertex_inj (M : Mesh) (h : Inv2 M) (i j j' : Nat) (hi : i < M.num 2) (hj : j < faceCount M.kind 2 0)
    (hj' : j' < faceCount M.kind 2 0) (heq : M.entry 2 0 i j = M.entry 2 0 i j') : j = j' := by
  obtain ⟨hlen, _⟩ := shape_facts M h.toOk2 2 0 (by omega) (by omega) (by omega) i hi
  have hlen2 := ((shapeOk_iff M).1 h.shape 2 (by omega) (by rw [h.dim]; omega) 0 (by omega)).1
  have hnd := h.nodup 2 (by omega) (by rw [h.dim]; omega) _ (tuple_mem_idx M 2 0 i (by omega))
  unfold Mesh.entry at heq
  exact (List.getD_inj (by omega) (by omega) hnd).1 heq

/-- different local edges of a cell are different edges -/
theorem cell_edge_inj (M : Mesh) (h : Inv2 M) (i e e' : Nat) (hi : i < M.num 2) (he : e < faceCount M.kind 2 1)
    (he' : e' < faceCount M.kind 2 1) (heq : M.entry 2 1 i e = M.entry 2 1 i e') : e = e' := by
  apply Classical.byContradiction
  intro hne
  have hc := h.conf
  have f1 := hc.faces i hi e he
  have f2 := hc.faces i hi e' he'
  rw [heq] at f1
  have f3 := sameSet_trans (sameSet_symm f1) f2
  rw [localFace_pair M i e he, localFace_pair M i e' he', sameSet_iff] at f3
  have hl := fim2_len M.kind e' he'
  have hp := list_len2 hl
  have key : ∀ b, b < 2 →
      ((faceIndexMap M.kind 2 1 0).getD e' []).contains (((faceIndexMap M.kind 2 1 0).getD e []).getD b 0) = true := by
    intro b hb
    have hmem : M.entry 2 0 i (((faceIndexMap M.kind 2 1 0).getD e []).getD b 0) ∈
        [M.entry 2 0 i (((faceIndexMap M.kind 2 1 0).getD e' []).getD 0 0),
         M.entry 2 0 i (((faceIndexMap M.kind 2 1 0).getD e' []).getD 1 0)] := by
      apply f3.1
      have : b = 0 ∨ b = 1 := by omega
      rcases this with rfl | rfl <;> simp
    simp only [List.mem_cons, List.not_mem_nil, or_false] at hmem
    have hget : ∀ b', b' < 2 → ((faceIndexMap M.kind 2 1 0).getD e' []).getD b' 0 ∈
        (faceIndexMap M.kind 2 1 0).getD e' [] := by
      intro b' hb'
      have hb2 : b' < ((faceIndexMap M.kind 2 1 0).getD e' []).length := by rw [hl]; exact hb'
      exact getD_mem_self hb2
    rw [List.contains_iff_mem]
    rcases hmem with hm | hm
    · rw [cell_vertex_inj M h i _ _ hi (fim2_lt M.kind e he b hb) (fim2_lt M.kind e' he' 0 (by omega)) hm]
      exact hget 0 (by omega)
    · rw [cell_vertex_inj M h i _ _ hi (fim2_lt M.kind e he b hb) (fim2_lt M.kind e' he' 1 (by omega)) hm]
      exact hget 1 (by omega)
  exact fim2_distinct M.kind e he e' he' hne ⟨key 0 (by omega), key 1 (by omega)⟩

/-- the admissible vertex terms in the context of a refined 2-cell -/
def vtermOk (kind : Kind) (t : Term) : Bool :=
  t.mult == 1 && t.add == .const 0 &&
  (match t.src with
   | none => t.off == 2
   | some (a, b, j) => a == 2 && ((b == 0 && t.off == 0 && j < faceCount kind 2 0) ||
                                   (b == 1 && t.off == 1 && j < faceCount kind 2 1)))

theorem vterm_inj (M : Mesh) (h : Inv2 M) (i : Nat) (hi : i < M.num 2) (t t' : Term)
    (ht : vtermOk M.kind t = true) (ht' : vtermOk M.kind t' = true)
    (heq : evalTerm M 2 0 i t = evalTerm M 2 0 i t') : t = t' := by
  obtain ⟨o00, o01, o02, o11, o12, o22⟩ := off2 M.kind M.nums
  have hv : ∀ j, j < faceCount M.kind 2 0 → M.entry 2 0 i j < M.nums.getD 0 0 :=
    fun j hj => (shape_facts M h.toOk2 2 0 (by omega) (by omega) (by omega) i hi).2 j hj
  have hev : ∀ j, j < faceCount M.kind 2 1 → M.entry 2 1 i j < M.nums.getD 1 0 :=
    fun j hj => (shape_facts M h.toOk2 2 1 (by omega) (by omega) (by omega) i hi).2 j hj
  obtain ⟨off, mult, src, add⟩ := t
  obtain ⟨off', mult', src', add'⟩ := t'
  simp only [vtermOk, Bool.and_eq_true, beq_iff_eq] at ht ht'
  obtain ⟨⟨rfl, rfl⟩, hs⟩ := ht
  obtain ⟨⟨rfl, rfl⟩, hs'⟩ := ht'
  cases src with
  | none =>
    simp only [beq_iff_eq] at hs; subst hs
    cases src' with
    | none => simp only [beq_iff_eq] at hs'; subst hs'; rfl
    | some p =>
      obtain ⟨a, b, j⟩ := p
      simp only [Bool.and_eq_true, Bool.or_eq_true, beq_iff_eq, decide_eq_true_eq] at hs'
      obtain ⟨rfl, hs'⟩ := hs'
      exfalso
      rcases hs' with ⟨⟨rfl, rfl⟩, hj⟩ | ⟨⟨rfl, rfl⟩, hj⟩ <;>
        simp only [evalTerm, evalSrc, evalAdd, o00, o01, o02] at heq
      · have := hv j hj; omega
      · have := hev j hj; omega
  | some p =>
    obtain ⟨a, b, j⟩ := p
    simp only [Bool.and_eq_true, Bool.or_eq_true, beq_iff_eq, decide_eq_true_eq] at hs
    obtain ⟨rfl, hs⟩ := hs
    cases src' with
    | none =>
      simp only [beq_iff_eq] at hs'; subst hs'
      exfalso
      rcases hs with ⟨⟨rfl, rfl⟩, hj⟩ | ⟨⟨rfl, rfl⟩, hj⟩ <;>
        simp only [evalTerm, evalSrc, evalAdd, o00, o01, o02] at heq
      · have := hv j hj; omega
      · have := hev j hj; omega
    | some p' =>
      obtain ⟨a', b', j'⟩ := p'
      simp only [Bool.and_eq_true, Bool.or_eq_true, beq_iff_eq, decide_eq_true_eq] at hs'
      obtain ⟨rfl, hs'⟩ := hs'
      rcases hs with ⟨⟨rfl, rfl⟩, hj⟩ | ⟨⟨rfl, rfl⟩, hj⟩ <;>
        rcases hs' with ⟨⟨rfl, rfl⟩, hj'⟩ | ⟨⟨rfl, rfl⟩, hj'⟩ <;>
        simp only [evalTerm, evalSrc, evalAdd, o00, o01, o02] at heq
      · have : j = j' := cell_vertex_inj M h i j j' hi hj hj' (by omega)
        subst this; rfl
      · exfalso; have := hv j hj; have := hev j' hj'; omega
      · exfalso; have := hv j' hj'; have := hev j hj; omega
      · have : j = j' := cell_edge_inj M h i j j' hi hj hj' (by omega)
        subst this; rfl

theorem nodup_map_on {α : Type} (l : List α) (f : α → Nat)
    (H : ∀ x ∈ l, ∀ y ∈ l, f x = f y → x = y) (d : l.Nodup) : (l.map f).Nodup := by
  induction l with
  | nil => simp
  | cons a as ih =>
    rw [List.nodup_cons] at d
    rw [List.map_cons, List.nodup_cons]
    refine ⟨?_, ih (fun x hx y hy => H x (by simp [hx]) y (by simp [hy])) d.2⟩
    intro hmem
    obtain ⟨b, hb, hfb⟩ := List.mem_map.1 hmem
    have := H b (by simp [hb]) a (by simp) hfb
    subst this
    exact d.1 hb

theorem vrows_table (kind : Kind) : ∀ c < 3, 1 ≤ c →
    ((indexTable kind 2 c 0).all fun r => r.all (vtermOk kind) && decide r.Nodup) = true := by
  cases kind <;> decide

theorem nodupOk_refine2 (M : Mesh) (h : Inv2 M) : (refine M).nodupOk := by
  intro c hc1 hcd t ht
  rw [refine_dim, h.dim] at hcd
  rw [refine_idx M c 0 (by rw [h.dim]; exact hcd) (by omega)] at ht
  obtain ⟨s, i, hcs, hsd, hi, r, hr, rfl⟩ := mem_fineIdx ht
  rw [h.dim] at hsd
  obtain ⟨o00, o01, o02, o11, o12, o22⟩ := off2 M.kind M.nums
  by_cases hs2 : s = 2
  · subst hs2
    have htab := vrows_table M.kind c (by omega) hc1
    rw [List.all_eq_true] at htab
    have hrr := htab r hr
    rw [Bool.and_eq_true, List.all_eq_true, decide_eq_true_eq] at hrr
    exact nodup_map_on r _ (fun x hx y hy hxy => vterm_inj M h i hi x y (hrr.1 x hx) (hrr.1 y hy) hxy) hrr.2
  · have hs1 : s = 1 := by omega
    subst hs1
    have hc : c = 1 := by omega
    subst hc
    rw [edgeTable] at hr
    have hv : ∀ j, j < 2 → M.entry 1 0 i j < M.nums.getD 0 0 := by
      intro j hj
      have := (shape_facts M h.toOk2 1 0 (by omega) (by omega) (by omega) i hi).2 j
        (by rw [(rc2 M.kind).2.2.2.1]; exact hj)
      exact this
    have h0 := hv 0 (by omega)
    have h1 := hv 1 (by omega)
    simp only [List.mem_cons, List.not_mem_nil, or_false] at hr
    rcases hr with rfl | rfl <;>
      simp only [List.map_cons, List.map_nil, evalTerm, evalSrc, evalAdd, o00, o01, List.nodup_cons,
        List.mem_cons, List.not_mem_nil, or_false, not_false_eq_true, List.nodup_nil, and_true] <;> omega

/-- **global lift of conformity for 2-D meshes of any size** (without the pairwise-distinct-vertex-sets clause) -/
theorem inv2_refine (M : Mesh) (h : Inv2 M) : Inv2 (refine M) where
  dim := h.dim
  shape := shapeOk_refine M (by rw [h.dim]; omega) h.shape
  nums3 := by
    show (fineNums M.kind M.nums M.dim).length = 3
    unfold fineNums; rw [h.dim]; simp
  faces := facesOk_refine2 M h.conf
  nodup := nodupOk_refine2 M h
  facets := facetsOk_refine2 M h.toOk2 h.facets
  covered := coveredOk_refine2 M h.toOk2 h.covered

theorem inv2_of_consistent (M : Mesh) (hd : M.dim = 2) (h : M.consistent = true) : Inv2 M := by
  unfold Mesh.consistent at h
  simp only [Bool.and_eq_true, beq_iff_eq] at h
  obtain ⟨⟨⟨⟨⟨h1, h2⟩, h3⟩, h4⟩, h5⟩, h6⟩ := h
  exact { dim := hd, shape := h2, nums3 := by rw [h1, hd], faces := h3, nodup := nodupOk_of_distinctOk M h4,
          facets := h5, covered := h6 }


end FeatModel.Refine
