import FeatModel.Model.LA.Convert
/-!
C02: format conversions of the matrix containers preserve the dense meaning `entry`.
Core Lean only, no algebraic laws on the scalar type (both sides are shown to be the *same* fold).
-/
open FeatModel FeatModel.LA
namespace C02L.Conv

/-! ### 1. dense transpose -/

theorem dense_transpose_spec {α : Type} [Zero α] (A : Dense α) (h : A.wf = true) :
    A.transpose.rows = A.cols ∧ A.transpose.cols = A.rows ∧ A.transpose.wf = true ∧
    ∀ i j, i < A.rows → j < A.cols → A.transpose.entry j i = A.entry i j := by
  have _ := h
  refine ⟨rfl, rfl, ?_, ?_⟩
  · simp [Dense.wf, Dense.transpose]
  · intro i j hi hj
    have hlt : j * A.rows + i < A.cols * A.rows := by
      have := Nat.mul_le_mul_right A.rows (Nat.succ_le_of_lt hj)
      rw [Nat.succ_mul] at this
      omega
    have hpos : 0 < A.rows := by omega
    have h1 : (j * A.rows + i) % A.rows = i := by
      rw [Nat.mul_comm, Nat.mul_add_mod, Nat.mod_eq_of_lt hi]
    have h2 : (j * A.rows + i) / A.rows = j := by
      rw [Nat.mul_comm, Nat.mul_add_div hpos, Nat.div_eq_of_lt hi, Nat.add_zero]
    simp [Dense.entry, Dense.transpose, hi, hj, Array.getD, hlt, h1, h2]


/-! ### generic list / fold lemmas -/

/-- a counted loop that reads the `t`-th element of `l` at position `s + t` is the fold over `l` -/
theorem foldl_range'_eq_foldl {β γ : Type} (f : β → Nat → β) (g : β → γ → β) :
    ∀ (l : List γ) (s : Nat) (init : β),
      (∀ t (ht : t < l.length) acc, f acc (s + t) = g acc l[t]) →
      (List.range' s l.length).foldl f init = l.foldl g init
  | [], s, init, _ => by simp
  | x :: l, s, init, hfg => by
    rw [List.length_cons, List.range'_succ, List.foldl_cons, List.foldl_cons]
    have h0 := hfg 0 (by simp) init
    simp only [Nat.add_zero, List.getElem_cons_zero] at h0
    rw [h0]
    apply foldl_range'_eq_foldl f g l (s + 1)
    intro t ht acc
    have := hfg (t + 1) (by simp; omega) acc
    simp only [List.getElem_cons_succ] at this
    rw [← this]
    congr 1
    omega

theorem foldl_range'_congr {β : Type} (f g : β → Nat → β) :
    ∀ (n s : Nat) (init : β), (∀ k acc, s ≤ k → k < s + n → f acc k = g acc k) →
      (List.range' s n).foldl f init = (List.range' s n).foldl g init
  | 0, s, init, _ => by simp
  | n + 1, s, init, h => by
    rw [List.range'_succ, List.foldl_cons, List.foldl_cons, h s init (Nat.le_refl _) (by omega)]
    apply foldl_range'_congr f g n (s + 1)
    intro k acc h1 h2
    exact h k acc (by omega) (by omega)

theorem foldRange_congr {β : Type} (f g : β → Nat → β) (s e : Nat) (init : β)
    (h : ∀ k acc, s ≤ k → k < e → f acc k = g acc k) : foldRange s e f init = foldRange s e g init := by
  unfold foldRange
  apply foldl_range'_congr
  intro k acc h1 h2
  exact h k acc h1 (by omega)

/-- position of element `t` of row `i` inside the concatenation of all rows -/
theorem flatten_getElem? {γ : Type} : ∀ (rs : List (List γ)) (i t : Nat) (hi : i < rs.length) (ht : t < rs[i].length),
    rs.flatten[(rs.take i).flatten.length + t]? = some (rs[i][t])
  | [], i, t, hi, _ => by simp at hi
  | r :: rs, 0, t, _, ht => by
    simp only [List.getElem_cons_zero] at ht
    simp [List.getElem?_append_left ht]
  | r :: rs, i + 1, t, hi, ht => by
    simp only [List.getElem_cons_succ] at ht
    simp only [List.length_cons, Nat.add_lt_add_iff_right] at hi
    have := flatten_getElem? rs i t hi ht
    simp only [List.take_succ_cons, List.flatten_cons, List.length_append, List.getElem_cons_succ]
    rw [Nat.add_assoc, List.getElem?_append_right (by omega), Nat.add_sub_cancel_left]
    exact this


/-! ### `Csr.ofRows` -/

theorem offsets_length {γ : Type} : ∀ (rs : List (List γ)) (s : Nat), (Csr.offsets s rs).length = rs.length + 1
  | [], s => rfl
  | r :: rs, s => by simp [Csr.offsets, offsets_length rs]

theorem offsets_getElem? {γ : Type} : ∀ (rs : List (List γ)) (s i : Nat), i ≤ rs.length →
    (Csr.offsets s rs)[i]? = some (s + (rs.take i).flatten.length)
  | [], s, i, hi => by
    have : i = 0 := by simpa using hi
    subst this; simp [Csr.offsets]
  | r :: rs, s, 0, _ => by simp [Csr.offsets]
  | r :: rs, s, i + 1, hi => by
    simp only [List.length_cons, Nat.add_le_add_iff_right] at hi
    simp only [Csr.offsets, List.getElem?_cons_succ, offsets_getElem? rs _ i hi, List.take_succ_cons,
      List.flatten_cons, List.length_append, Nat.add_assoc]

theorem getD_toArray {γ : Type} (l : List γ) (k : Nat) (d : γ) : l.toArray.getD k d = l[k]?.getD d := by
  simp [Array.getD_eq_getD_getElem?]

theorem ofRows_rowBegin {α : Type} (rows cols : Nat) (rs : List (List (Nat × α))) (i : Nat) (hi : i ≤ rs.length) :
    (Csr.ofRows rows cols rs).rowPtr.getD i 0 = (rs.take i).flatten.length := by
  simp only [Csr.ofRows, getD_toArray, offsets_getElem? rs 0 i hi, Option.getD_some, Nat.zero_add]

/-- the dense meaning of `ofRows` at row `i` is the fold over the `i`-th row list -/
theorem ofRows_entry {α : Type} [Zero α] [Add α] (rows cols : Nat) (rs : List (List (Nat × α))) (i j : Nat)
    (hi : i < rs.length) :
    (Csr.ofRows rows cols rs).entry i j = rs[i].foldl (fun s cv => if cv.1 = j then s + cv.2 else s) 0 := by
  unfold Csr.entry foldRange Csr.rowBegin Csr.rowEnd
  rw [ofRows_rowBegin rows cols rs i (by omega), ofRows_rowBegin rows cols rs (i + 1) (by omega)]
  have hlen : (rs.take (i + 1)).flatten.length - (rs.take i).flatten.length = rs[i].length := by
    rw [List.take_succ_eq_append_getElem hi, List.flatten_append, List.length_append]
    simp only [List.flatten_cons, List.flatten_nil, List.append_nil]
    omega
  rw [hlen]
  apply foldl_range'_eq_foldl
  intro t ht acc
  have := flatten_getElem? rs i t hi ht
  simp only [Csr.ofRows, getD_toArray, List.getElem?_map, this, Option.map_some, Option.getD_some]


theorem ofRows_wf {α : Type} (rows cols : Nat) (rs : List (List (Nat × α))) (hlen : rs.length = rows)
    (hcol : ∀ r, r ∈ rs → ∀ cv, cv ∈ r → cv.1 < cols) : (Csr.ofRows rows cols rs).wf = true := by
  have hb := ofRows_rowBegin rows cols rs
  simp only [Csr.wf, Bool.and_eq_true, beq_iff_eq, List.all_eq_true, List.mem_range, decide_eq_true_eq]
  refine ⟨⟨⟨⟨⟨?_, ?_⟩, ?_⟩, ?_⟩, ?_⟩, ?_⟩
  · simp [Csr.ofRows, offsets_length, hlen]
  · rw [hb 0 (by omega)]; simp
  · have e : (Csr.ofRows rows cols rs).rows = rs.length := hlen.symm
    rw [e, hb rs.length (Nat.le_refl _), List.take_length]
    simp only [Csr.ofRows, List.size_toArray, List.length_map]
  · simp only [Csr.ofRows, List.size_toArray, List.length_map]
  · intro i hi
    have e : (Csr.ofRows rows cols rs).rows = rs.length := hlen.symm
    rw [e] at hi
    rw [hb i (by omega), hb (i + 1) (by omega), List.take_succ_eq_append_getElem hi, List.flatten_append,
      List.length_append]
    omega
  · simp only [Csr.ofRows, List.all_toArray, List.all_eq_true, List.mem_map]
    rintro c ⟨cv, hcv, rfl⟩
    obtain ⟨r, hr, hcr⟩ := List.mem_flatten.mp hcv
    exact decide_eq_true (hcol r hr cv hcr)


/-- `n` groups of `m` items, flattened, indexed by `i ↦ (i / m, i % m)` -/
theorem flatten_uniform {γ : Type} (f : Nat → Nat → γ) (m : Nat) (hm : 0 < m) : ∀ n : Nat,
    ((List.range n).map fun a => (List.range m).map (f a)).flatten
      = (List.range (n * m)).map fun i => f (i / m) (i % m)
  | 0 => by simp
  | n + 1 => by
    rw [List.range_succ, List.map_append, List.flatten_append, flatten_uniform f m hm n, Nat.succ_mul,
      List.range_add, List.map_append]
    congr 1
    simp only [List.map_cons, List.map_nil, List.flatten_cons, List.flatten_nil, List.append_nil, List.map_map]
    apply List.map_congr_left
    intro t ht
    have ht' : t < m := List.mem_range.mp ht
    simp only [Function.comp]
    rw [Nat.mul_comm n m, Nat.mul_add_div hm, Nat.mul_add_mod, Nat.div_eq_of_lt ht', Nat.mod_eq_of_lt ht', Nat.add_zero]

/-- inside one block only the element in column `j` contributes -/
theorem foldl_block {α : Type} [Add α] (base j : Nat) (v : Nat → α) : ∀ (n : Nat) (s0 : α),
    (List.range n).foldl (fun s col => if base + col = j then s + v col else s) s0
      = if base ≤ j ∧ j < base + n then s0 + v (j - base) else s0
  | 0, s0 => by
    have : ¬(base ≤ j ∧ j < base + 0) := by omega
    rw [if_neg this]; rfl
  | n + 1, s0 => by
    rw [List.range_succ, List.foldl_append, foldl_block base j v n s0]
    simp only [List.foldl_cons, List.foldl_nil]
    by_cases h1 : base ≤ j ∧ j < base + n
    · have h2 : base ≤ j ∧ j < base + (n + 1) := by omega
      have h3 : ¬ base + n = j := by omega
      rw [if_pos h1, if_pos h2, if_neg h3]
    · by_cases h3 : base + n = j
      · have h2 : base ≤ j ∧ j < base + (n + 1) := by omega
        have h4 : j - base = n := by omega
        rw [if_neg h1, if_pos h2, if_pos h3, h4]
      · have h2 : ¬(base ≤ j ∧ j < base + (n + 1)) := by omega
        rw [if_neg h1, if_neg h2, if_neg h3]


/-! ### 2. BCSR → CSR -/

theorem block_col_iff (c j bw : Nat) (hbw : 0 < bw) : (c * bw ≤ j ∧ j < c * bw + bw) ↔ c = j / bw := by
  constructor
  · rintro ⟨h1, h2⟩
    apply Nat.le_antisymm
    · exact (Nat.le_div_iff_mul_le hbw).mpr h1
    · have : j / bw < c + 1 := (Nat.div_lt_iff_lt_mul hbw).mpr (by rw [Nat.succ_mul]; exact h2)
      omega
  · rintro rfl
    have h1 := Nat.div_add_mod j bw
    have h2 := Nat.mod_lt j hbw
    rw [Nat.mul_comm] at h1
    omega

theorem block_col_sub (j bw : Nat) : j - j / bw * bw = j % bw := by
  have h1 := Nat.div_add_mod j bw
  rw [Nat.mul_comm] at h1
  omega

/-- the fold over the scalar row list is the fold over the blocks of the block row -/
theorem podRow_fold {α : Type} [Zero α] [Add α] (A : Bcsr α) (hbw : 0 < A.bw) (orow row j : Nat) :
    (A.podRow orow row).foldl (fun s cv => if cv.1 = j then s + cv.2 else s) 0
      = foldRange (A.rowPtr.getD orow 0) (A.rowPtr.getD (orow + 1) 0)
          (fun s k => if A.colInd.getD k 0 = j / A.bw
            then s + A.val.getD (k * A.bh * A.bw + row * A.bw + j % A.bw) 0 else s) 0 := by
  unfold Bcsr.podRow foldRange
  rw [List.foldl_flatten, List.foldl_map]
  congr 1
  funext s ocol
  rw [List.foldl_map]
  have := foldl_block (A.colInd.getD ocol 0 * A.bw) j
    (fun col => A.val.getD (ocol * A.bh * A.bw + row * A.bw + col) 0) A.bw s
  rw [this]
  by_cases hc : A.colInd.getD ocol 0 = j / A.bw
  · rw [if_pos ((block_col_iff _ _ _ hbw).mpr hc), if_pos hc, hc, block_col_sub]
  · rw [if_neg (fun h => hc ((block_col_iff _ _ _ hbw).mp h)), if_neg hc]


/-- `Bcsr.wf` spelled out -/
structure BcsrWF {α : Type} (A : Bcsr α) : Prop where
  size : A.rowPtr.size = A.rows + 1
  first : A.rowPtr.getD 0 0 = 0
  last : A.rowPtr.getD A.rows 0 = A.colInd.size
  valSize : A.val.size = A.colInd.size * A.bh * A.bw
  mono : ∀ i, i < A.rows → A.rowPtr.getD i 0 ≤ A.rowPtr.getD (i + 1) 0
  colLt : ∀ k, k < A.colInd.size → ∀ d, A.colInd.getD k d < A.cols

theorem bcsr_wf_of {α : Type} (A : Bcsr α) (h : A.wf = true) : BcsrWF A := by
  simp only [Bcsr.wf, Bool.and_eq_true, beq_iff_eq, List.all_eq_true, List.mem_range, decide_eq_true_eq,
    Array.all_eq_true] at h
  obtain ⟨⟨⟨⟨⟨h1, h2⟩, h3⟩, h4⟩, h5⟩, h6⟩ := h
  refine ⟨h1, h2, h3, h4, h5, ?_⟩
  intro k hk d
  have := h6 k hk
  simpa [Array.getD, hk] using this

theorem bcsr_rowPtr_mono {α : Type} {A : Bcsr α} (W : BcsrWF A) :
    ∀ j i, i ≤ j → j ≤ A.rows → A.rowPtr.getD i 0 ≤ A.rowPtr.getD j 0
  | 0, i, hij, _ => by
    have : i = 0 := by omega
    subst this; exact Nat.le_refl _
  | j + 1, i, hij, hj => by
    rcases Nat.lt_or_ge i (j + 1) with hlt | hge
    · exact Nat.le_trans (bcsr_rowPtr_mono W j i (by omega) (by omega)) (W.mono j (by omega))
    · have : i = j + 1 := by omega
      subst this; exact Nat.le_refl _

theorem bcsr_rowEnd_le {α : Type} {A : Bcsr α} (W : BcsrWF A) {i : Nat} (hi : i < A.rows) :
    A.rowPtr.getD (i + 1) 0 ≤ A.colInd.size := by
  have := bcsr_rowPtr_mono W A.rows (i + 1) (by omega) (Nat.le_refl _)
  rw [W.last] at this
  exact this

theorem podRow_col_lt {α : Type} [Zero α] {A : Bcsr α} (W : BcsrWF A) {orow : Nat} (ho : orow < A.rows) (row : Nat)
    (cv : Nat × α) (hcv : cv ∈ A.podRow orow row) : cv.1 < A.cols * A.bw := by
  unfold Bcsr.podRow at hcv
  obtain ⟨l, hl, hcl⟩ := List.mem_flatten.mp hcv
  obtain ⟨ocol, hocol, rfl⟩ := List.mem_map.mp hl
  obtain ⟨col, hcol, rfl⟩ := List.mem_map.mp hcl
  have hcol' : col < A.bw := List.mem_range.mp hcol
  have h1 := List.mem_range'_1.mp hocol
  have h2 := bcsr_rowEnd_le W ho
  have h3 := W.colLt ocol (by omega) 0
  have h4 := Nat.mul_le_mul_right A.bw (Nat.succ_le_of_lt h3)
  rw [Nat.succ_mul] at h4
  show A.colInd.getD ocol 0 * A.bw + col < A.cols * A.bw
  omega

theorem bcsr_toCsr_spec {α : Type} [Zero α] [Add α] (A : Bcsr α) (h : A.wf = true) (hbh : 0 < A.bh)
    (hbw : 0 < A.bw) :
    A.toCsr.rows = A.rows * A.bh ∧ A.toCsr.cols = A.cols * A.bw ∧
    (A.toCsr.isArrayless = true ∨ A.toCsr.wf = true) ∧
    ∀ i j, i < A.rows * A.bh → j < A.cols * A.bw → A.toCsr.entry i j = A.entry i j := by
  have W := bcsr_wf_of A h
  have hrow : ∀ i, i < A.rows * A.bh → i / A.bh < A.rows := fun i hi => (Nat.div_lt_iff_lt_mul hbh).mpr hi
  have hnz : ¬(A.bh = 0 ∨ A.bw = 0) := by omega
  by_cases hz : A.usedElements * A.bh * A.bw = 0
  · have hue : A.colInd.size = 0 := by
      rcases Nat.mul_eq_zero.mp hz with h1 | h1
      · rcases Nat.mul_eq_zero.mp h1 with h2 | h2
        · exact h2
        · omega
      · omega
    have e : A.toCsr = Csr.entryFree (A.rows * A.bh) (A.cols * A.bw) := by
      unfold Bcsr.toCsr; rw [if_pos hz]
    rw [e]
    refine ⟨rfl, rfl, Or.inl (by simp [Csr.isArrayless, Csr.entryFree]), ?_⟩
    intro i j hi _
    have l : (Csr.entryFree (A.rows * A.bh) (A.cols * A.bw) : Csr α).entry i j = 0 := by
      simp [Csr.entry, Csr.entryFree, Csr.rowBegin, Csr.rowEnd, foldRange]
    rw [l]
    unfold Bcsr.entry
    rw [if_neg hnz]
    have h1 := bcsr_rowEnd_le W (hrow i hi)
    have h2 : A.rowPtr.getD (i / A.bh + 1) 0 = 0 := by omega
    simp only [h2, foldRange, Nat.zero_sub, List.range'_zero, List.foldl_nil]
  · have e : A.toCsr = Csr.ofRows (A.rows * A.bh) (A.cols * A.bw)
        ((List.range (A.rows * A.bh)).map fun i => A.podRow (i / A.bh) (i % A.bh)) := by
      unfold Bcsr.toCsr; rw [if_neg hz, flatten_uniform _ _ hbh]
    rw [e]
    refine ⟨rfl, rfl, Or.inr ?_, ?_⟩
    · apply ofRows_wf
      · simp
      · intro r hr cv hcv
        obtain ⟨i, hi, rfl⟩ := List.mem_map.mp hr
        exact podRow_col_lt W (hrow i (List.mem_range.mp hi)) _ cv hcv
    · intro i j hi _
      rw [ofRows_entry _ _ _ i j (by simpa using hi)]
      simp only [List.getElem_map, List.getElem_range]
      rw [podRow_fold A hbw]
      unfold Bcsr.entry
      rw [if_neg hnz]
      apply foldRange_congr
      intro k acc _ hk
      have h1 := bcsr_rowEnd_le W (hrow i hi)
      have hks : k < A.colInd.size := by omega
      have : A.colInd.getD k 0 = A.colInd.getD k A.cols := by simp [Array.getD, hks]
      rw [this]


/-! ### 3. CSR → banded: generic pieces -/

/-- a conditional accumulation in which no index qualifies leaves the accumulator alone -/
theorem foldl_if_none {α : Type} [Add α] (c : Nat → Prop) [DecidablePred c] (f : Nat → α) :
    ∀ (L : List Nat) (init : α), (∀ k, k ∈ L → ¬ c k) →
      L.foldl (fun s k => if c k then s + f k else s) init = init
  | [], _, _ => rfl
  | x :: L, init, h => by
    rw [List.foldl_cons, if_neg (h x (by simp))]
    exact foldl_if_none c f L init (fun k hk => h k (by simp [hk]))

/-- … and if exactly one index `b` of a duplicate-free list qualifies the result is `init + f b` -/
theorem foldl_if_one {α : Type} [Add α] (c : Nat → Prop) [DecidablePred c] (f : Nat → α) (b : Nat) (hc : c b) :
    ∀ (L : List Nat) (init : α), b ∈ L → L.Nodup → (∀ k, k ∈ L → c k → k = b) →
      L.foldl (fun s k => if c k then s + f k else s) init = init + f b
  | [], _, hb, _, _ => by simp at hb
  | x :: L, init, hb, hnd, hu => by
    rw [List.foldl_cons]
    have hnd' := List.nodup_cons.mp hnd
    by_cases hx : x = b
    · subst hx
      rw [if_pos hc]
      apply foldl_if_none
      intro k hk hck
      have := hu k (by simp [hk]) hck
      subst this
      exact hnd'.1 hk
    · have hcx : ¬ c x := fun h => hx (hu x (by simp) h)
      rw [if_neg hcx]
      have hb' : b ∈ L := by
        rcases List.mem_cons.mp hb with h | h
        · exact absurd h.symm hx
        · exact h
      exact foldl_if_one c f b hc L init hb' hnd'.2 (fun k hk => hu k (by simp [hk]))

/-- a nested loop as one loop over the list of index pairs -/
theorem foldl_nested {β ι κ : Type} (F : β → ι → κ → β) (inner : ι → List κ) : ∀ (L : List ι) (init : β),
    L.foldl (fun s r => (inner r).foldl (fun s k => F s r k) s) init
      = ((L.map fun r => (inner r).map fun k => (r, k)).flatten).foldl (fun s rk => F s rk.1 rk.2) init
  | [], _ => rfl
  | r :: L, init => by
    rw [List.foldl_cons, List.map_cons, List.flatten_cons, List.foldl_append, List.foldl_map,
      foldl_nested F inner L]

/-! #### `setInsert` -/

theorem mem_setInsert (x y : Nat) : ∀ (s : List Nat), y ∈ Csr.setInsert x s ↔ y = x ∨ y ∈ s
  | [] => by simp [Csr.setInsert]
  | z :: s => by
    unfold Csr.setInsert
    split
    · simp
    · split
      · rename_i h; subst h; simp
      · simp only [List.mem_cons, mem_setInsert x y s]
        constructor
        · rintro (h | h | h)
          · exact Or.inr (Or.inl h)
          · exact Or.inl h
          · exact Or.inr (Or.inr h)
        · rintro (h | h | h)
          · exact Or.inr (Or.inl h)
          · exact Or.inl h
          · exact Or.inr (Or.inr h)

theorem sorted_setInsert (x : Nat) : ∀ (s : List Nat), s.Pairwise (· < ·) → (Csr.setInsert x s).Pairwise (· < ·)
  | [], _ => by simp [Csr.setInsert]
  | z :: s, h => by
    have h' := List.pairwise_cons.mp h
    unfold Csr.setInsert
    split
    · rename_i hxz
      apply List.pairwise_cons.mpr
      refine ⟨?_, h⟩
      intro a ha
      rcases List.mem_cons.mp ha with ha | ha
      · omega
      · have := h'.1 a ha; omega
    · split
      · exact h
      · apply List.pairwise_cons.mpr
        refine ⟨?_, sorted_setInsert x s h'.2⟩
        intro a ha
        rcases (mem_setInsert x a s).mp ha with ha | ha
        · omega
        · exact h'.1 a ha

theorem foldl_setInsert_mem {ι : Type} (g : ι → Nat) (o : Nat) : ∀ (L : List ι) (s : List Nat),
    o ∈ L.foldl (fun s x => Csr.setInsert (g x) s) s ↔ o ∈ s ∨ ∃ x, x ∈ L ∧ g x = o
  | [], s => by simp
  | x :: L, s => by
    rw [List.foldl_cons, foldl_setInsert_mem g o L, mem_setInsert]
    constructor
    · rintro ((h | h) | ⟨y, hy, h⟩)
      · exact Or.inr ⟨x, by simp, h.symm⟩
      · exact Or.inl h
      · exact Or.inr ⟨y, by simp [hy], h⟩
    · rintro (h | ⟨y, hy, h⟩)
      · exact Or.inl (Or.inr h)
      · rcases List.mem_cons.mp hy with hy | hy
        · subst hy; exact Or.inl (Or.inl h.symm)
        · exact Or.inr ⟨y, hy, h⟩

theorem foldl_setInsert_sorted {ι : Type} (g : ι → Nat) : ∀ (L : List ι) (s : List Nat),
    s.Pairwise (· < ·) → (L.foldl (fun s x => Csr.setInsert (g x) s) s).Pairwise (· < ·)
  | [], _, h => h
  | x :: L, s, h => by
    rw [List.foldl_cons]
    exact foldl_setInsert_sorted g L _ (sorted_setInsert _ _ h)

/-! #### scattered writes -/

theorem writes_size {α ι : Type} (pos : ι → Nat) (vl : ι → α) : ∀ (L : List ι) (arr : Array α),
    (L.foldl (fun v x => v.setIfInBounds (pos x) (vl x)) arr).size = arr.size
  | [], _ => rfl
  | x :: L, arr => by rw [List.foldl_cons, writes_size pos vl L, Array.size_setIfInBounds]

theorem getD_setIfInBounds {α : Type} (arr : Array α) (q p : Nat) (x d : α) :
    (arr.setIfInBounds q x).getD p d = if q = p ∧ p < arr.size then x else arr.getD p d := by
  simp only [Array.getD_eq_getD_getElem?, Array.getElem?_setIfInBounds]
  by_cases h : q = p
  · subst h
    by_cases h2 : q < arr.size
    · simp [h2]
    · simp [h2]
  · simp [h]

/-- a slot nobody writes keeps its value -/
theorem writes_getD_not_mem {α ι : Type} (pos : ι → Nat) (vl : ι → α) (p : Nat) (d : α) :
    ∀ (L : List ι) (arr : Array α), (∀ x, x ∈ L → pos x ≠ p) →
      (L.foldl (fun v x => v.setIfInBounds (pos x) (vl x)) arr).getD p d = arr.getD p d
  | [], _, _ => rfl
  | x :: L, arr, h => by
    rw [List.foldl_cons, writes_getD_not_mem pos vl p d L _ (fun y hy => h y (by simp [hy])),
      getD_setIfInBounds, if_neg (fun hh => h x (by simp) hh.1)]

/-- a slot that is written, and only ever with the value `a`, ends up holding `a` -/
theorem writes_getD_mem {α ι : Type} (pos : ι → Nat) (vl : ι → α) (p : Nat) (a d : α) :
    ∀ (L : List ι) (arr : Array α), p < arr.size → (∃ x, x ∈ L ∧ pos x = p) → (∀ x, x ∈ L → pos x = p → vl x = a) →
      (L.foldl (fun v x => v.setIfInBounds (pos x) (vl x)) arr).getD p d = a
  | [], _, _, hex, _ => by obtain ⟨x, hx, _⟩ := hex; simp at hx
  | x :: L, arr, hp, hex, hall => by
    rw [List.foldl_cons]
    by_cases hL : ∃ y, y ∈ L ∧ pos y = p
    · exact writes_getD_mem pos vl p a d L _ (by rw [Array.size_setIfInBounds]; exact hp) hL
        (fun y hy => hall y (by simp [hy]))
    · have hx : pos x = p := by
        obtain ⟨y, hy, hyp⟩ := hex
        rcases List.mem_cons.mp hy with h | h
        · subst h; exact hyp
        · exact absurd ⟨y, h, hyp⟩ hL
      rw [writes_getD_not_mem pos vl p d L _ (fun y hy hyp => hL ⟨y, hy, hyp⟩), getD_setIfInBounds,
        if_pos ⟨hx, hp⟩]
      exact hall x (by simp) hx


theorem pos_decode (a b r i n : Nat) (hr : r < n) (hi : i < n) (h : a * n + r = b * n + i) : a = b ∧ r = i := by
  have h1 : (a * n + r) % n = r := by rw [Nat.mul_comm, Nat.mul_add_mod, Nat.mod_eq_of_lt hr]
  have h2 : (b * n + i) % n = i := by rw [Nat.mul_comm, Nat.mul_add_mod, Nat.mod_eq_of_lt hi]
  have hri : r = i := by rw [← h1, ← h2, h]
  subst hri
  have hn : 0 < n := by omega
  have hab : a * n = b * n := by omega
  exact ⟨Nat.eq_of_mul_eq_mul_right hn hab, rfl⟩

theorem sorted_getElem_inj (offs : List Nat) (hs : offs.Pairwise (· < ·)) (a b : Nat) (ha : a < offs.length)
    (hb : b < offs.length) (h : offs[a] = offs[b]) : a = b := by
  have := List.pairwise_iff_getElem.mp hs
  rcases Nat.lt_trichotomy a b with hab | hab | hab
  · have := this a b ha hb hab; omega
  · exact hab
  · have := this b a hb ha hab; omega

/-- banded meaning at `(i, j)` when the band through `(i, j)` is present … -/
theorem banded_entry_one {α : Type} [Zero α] [Add α] (B : Banded α) (offs : List Nat) (hoff : B.offsets = offs.toArray)
    (hs : offs.Pairwise (· < ·)) (i j : Nat) (hi : i < B.rows) (hmem : j + B.rows - 1 - i ∈ offs) :
    B.entry i j = 0 + B.val.getD (offs.idxOf (j + B.rows - 1 - i) * B.rows + i) 0 := by
  have hb : offs.idxOf (j + B.rows - 1 - i) < offs.length := List.idxOf_lt_length_iff.mpr hmem
  have hob : offs[offs.idxOf (j + B.rows - 1 - i)] = j + B.rows - 1 - i := List.getElem_idxOf hb
  unfold Banded.entry foldRange Banded.noo
  rw [hoff]
  apply foldl_if_one (fun k => i + offs.toArray.getD k 0 + 1 = j + B.rows)
    (fun k => B.val.getD (k * B.rows + i) 0) (offs.idxOf (j + B.rows - 1 - i))
  · show i + offs.toArray.getD _ 0 + 1 = j + B.rows
    rw [getD_toArray, List.getElem?_eq_getElem hb, Option.getD_some, hob]
    omega
  · apply List.mem_range'_1.mpr
    simp only [List.size_toArray]
    omega
  · exact List.nodup_range' 1
  · intro k hk hck
    have hk' : k < offs.length := by
      have := List.mem_range'_1.mp hk
      simp only [List.size_toArray] at this
      omega
    rw [getD_toArray, List.getElem?_eq_getElem hk', Option.getD_some] at hck
    apply sorted_getElem_inj offs hs k _ hk' hb
    rw [hob]
    omega

/-- … and when it is absent -/
theorem banded_entry_none {α : Type} [Zero α] [Add α] (B : Banded α) (offs : List Nat) (hoff : B.offsets = offs.toArray)
    (i j : Nat) (hi : i < B.rows) (hmem : ¬ j + B.rows - 1 - i ∈ offs) : B.entry i j = 0 := by
  unfold Banded.entry foldRange Banded.noo
  rw [hoff]
  apply foldl_if_none (fun k => i + offs.toArray.getD k 0 + 1 = j + B.rows)
  intro k hk hck
  have hk' : k < offs.length := by
    have := List.mem_range'_1.mp hk
    simp only [List.size_toArray] at this
    omega
  rw [getD_toArray, List.getElem?_eq_getElem hk', Option.getD_some] at hck
  apply hmem
  have : j + B.rows - 1 - i = offs[k] := by omega
  rw [this]
  exact List.getElem_mem hk'


/-! #### the CSR side -/

/-- `Csr.wf` spelled out -/
structure CsrWF {α : Type} (A : Csr α) : Prop where
  size : A.rowPtr.size = A.rows + 1
  first : A.rowPtr.getD 0 0 = 0
  last : A.rowPtr.getD A.rows 0 = A.val.size
  colSize : A.colInd.size = A.val.size
  mono : ∀ i, i < A.rows → A.rowPtr.getD i 0 ≤ A.rowPtr.getD (i + 1) 0
  colLt : ∀ k, k < A.colInd.size → ∀ d, A.colInd.getD k d < A.cols

theorem csr_wf_of {α : Type} (A : Csr α) (h : A.wf = true) : CsrWF A := by
  simp only [Csr.wf, Bool.and_eq_true, beq_iff_eq, List.all_eq_true, List.mem_range, decide_eq_true_eq,
    Array.all_eq_true] at h
  obtain ⟨⟨⟨⟨⟨h1, h2⟩, h3⟩, h4⟩, h5⟩, h6⟩ := h
  refine ⟨h1, h2, h3, h4, h5, ?_⟩
  intro k hk d
  have := h6 k hk
  simpa [Array.getD, hk] using this

theorem csr_rowPtr_mono {α : Type} {A : Csr α} (W : CsrWF A) :
    ∀ j i, i ≤ j → j ≤ A.rows → A.rowPtr.getD i 0 ≤ A.rowPtr.getD j 0
  | 0, i, hij, _ => by
    have : i = 0 := by omega
    subst this; exact Nat.le_refl _
  | j + 1, i, hij, hj => by
    rcases Nat.lt_or_ge i (j + 1) with hlt | hge
    · exact Nat.le_trans (csr_rowPtr_mono W j i (by omega) (by omega)) (W.mono j (by omega))
    · have : i = j + 1 := by omega
      subst this; exact Nat.le_refl _

theorem csr_rowEnd_le {α : Type} {A : Csr α} (W : CsrWF A) {i : Nat} (hi : i < A.rows) :
    A.rowEnd i ≤ A.colInd.size := by
  have := csr_rowPtr_mono W A.rows (i + 1) (by omega) (Nat.le_refl _)
  rw [W.last, ← W.colSize] at this
  exact this

theorem getD_default {A : Array Nat} {k : Nat} (hk : k < A.size) (d e : Nat) : A.getD k d = A.getD k e := by
  simp [Array.getD, hk]

theorem sortedRows_step {α : Type} (A : Csr α) (hs : A.sortedRows = true) (i : Nat) (hi : i < A.rows) (k : Nat)
    (h1 : A.rowBegin i ≤ k) (h2 : k + 1 < A.rowEnd i) : A.colInd.getD k 0 < A.colInd.getD (k + 1) 0 := by
  simp only [Csr.sortedRows, List.all_eq_true, List.mem_range, decide_eq_true_eq] at hs
  exact hs i hi k (List.mem_range'_1.mpr (by omega))

theorem sortedRows_strict {α : Type} (A : Csr α) (hs : A.sortedRows = true) (i : Nat) (hi : i < A.rows) (k : Nat)
    (h1 : A.rowBegin i ≤ k) : ∀ k', k < k' → k' < A.rowEnd i → A.colInd.getD k 0 < A.colInd.getD k' 0
  | 0, h, _ => by omega
  | k' + 1, h, h3 => by
    have hstep := sortedRows_step A hs i hi k' (by omega) h3
    rcases Nat.lt_or_ge k k' with hlt | hge
    · exact Nat.lt_trans (sortedRows_strict A hs i hi k h1 k' hlt (by omega)) hstep
    · have : k = k' := by omega
      subst this; exact hstep

theorem sortedRows_inj {α : Type} (A : Csr α) (hs : A.sortedRows = true) (i : Nat) (hi : i < A.rows) (k k' : Nat)
    (h1 : A.rowBegin i ≤ k) (h2 : k < A.rowEnd i) (h1' : A.rowBegin i ≤ k') (h2' : k' < A.rowEnd i)
    (h : A.colInd.getD k 0 = A.colInd.getD k' 0) : k = k' := by
  rcases Nat.lt_trichotomy k k' with hlt | heq | hgt
  · have := sortedRows_strict A hs i hi k h1 k' hlt h2'; omega
  · exact heq
  · have := sortedRows_strict A hs i hi k' h1' k hgt h2; omega

/-- all stored positions `(row, k)` in loop order -/
def stored {α : Type} (A : Csr α) : List (Nat × Nat) :=
  ((List.range A.rows).map fun r =>
    (List.range' (A.rowBegin r) (A.rowEnd r - A.rowBegin r)).map fun k => (r, k)).flatten

theorem mem_stored {α : Type} (A : Csr α) (r k : Nat) :
    (r, k) ∈ stored A ↔ r < A.rows ∧ A.rowBegin r ≤ k ∧ k < A.rowEnd r := by
  simp only [stored, List.mem_flatten, List.mem_map, List.mem_range]
  constructor
  · rintro ⟨l, ⟨r', hr', rfl⟩, hk⟩
    obtain ⟨k', hk', heq⟩ := List.mem_map.mp hk
    have h1 : r' = r := congrArg Prod.fst heq
    have h2 : k' = k := congrArg Prod.snd heq
    subst h1; subst h2
    have := List.mem_range'_1.mp hk'
    exact ⟨hr', this.1, by omega⟩
  · rintro ⟨hr, h1, h2⟩
    exact ⟨_, ⟨r, hr, rfl⟩, List.mem_map.mpr ⟨k, List.mem_range'_1.mpr (by omega), rfl⟩⟩

/-- band offset of a stored position -/
def bo {α : Type} (A : Csr α) (rk : Nat × Nat) : Nat := A.bandOff rk.1 (A.colInd.getD rk.2 0)

theorem offsetSet_eq {α : Type} (A : Csr α) :
    A.offsetSet = (stored A).foldl (fun s rk => Csr.setInsert (bo A rk) s) [] := by
  unfold Csr.offsetSet foldRange stored
  exact foldl_nested (fun s r k => Csr.setInsert (A.bandOff r (A.colInd.getD k 0)) s) _ _ _

theorem toBanded_eq {α : Type} [Zero α] (A : Csr α) (hnz : 0 < A.usedElements) :
    A.toBanded = some ⟨A.rows, A.cols, A.offsetSet.toArray,
      (stored A).foldl (fun v rk => v.setIfInBounds (A.offsetSet.idxOf (bo A rk) * A.rows + rk.1) (A.val.getD rk.2 0))
        (Array.replicate (A.offsetSet.length * A.rows) 0)⟩ := by
  unfold Csr.toBanded
  rw [if_neg (by omega)]
  simp only [foldRange, stored]
  refine congrArg some (congrArg (Banded.mk _ _ _) ?_)
  exact foldl_nested (fun (v : Array α) r k => v.setIfInBounds (A.offsetSet.idxOf (A.bandOff r (A.colInd.getD k 0)) * A.rows + r)
    (A.val.getD k 0)) (fun r => List.range' (A.rowBegin r) (A.rowEnd r - A.rowBegin r)) _ _

theorem mem_offsetSet {α : Type} (A : Csr α) (o : Nat) : o ∈ A.offsetSet ↔ ∃ rk, rk ∈ stored A ∧ bo A rk = o := by
  rw [offsetSet_eq, foldl_setInsert_mem]
  simp

theorem offsetSet_sorted {α : Type} (A : Csr α) : A.offsetSet.Pairwise (· < ·) := by
  rw [offsetSet_eq]
  exact foldl_setInsert_sorted _ _ _ List.Pairwise.nil


theorem csr_entry_one {α : Type} [Zero α] [Add α] (A : Csr α) (W : CsrWF A) (hs : A.sortedRows = true) (i j : Nat)
    (hi : i < A.rows) (k0 : Nat) (h1 : A.rowBegin i ≤ k0) (h2 : k0 < A.rowEnd i) (hc : A.colInd.getD k0 0 = j) :
    A.entry i j = 0 + A.val.getD k0 0 := by
  have hle := csr_rowEnd_le W hi
  unfold Csr.entry foldRange
  apply foldl_if_one (fun k => A.colInd.getD k A.cols = j) (fun k => A.val.getD k 0) k0
  · show A.colInd.getD k0 A.cols = j
    rw [getD_default (by omega) A.cols 0]; exact hc
  · exact List.mem_range'_1.mpr (by omega)
  · exact List.nodup_range' 1
  · intro k hk hck
    have hk' := List.mem_range'_1.mp hk
    rw [getD_default (by omega) A.cols 0] at hck
    exact sortedRows_inj A hs i hi k k0 hk'.1 (by omega) h1 h2 (by rw [hck, hc])

theorem csr_entry_none {α : Type} [Zero α] [Add α] (A : Csr α) (W : CsrWF A) (i j : Nat) (hi : i < A.rows)
    (hno : ∀ k, A.rowBegin i ≤ k → k < A.rowEnd i → A.colInd.getD k 0 ≠ j) : A.entry i j = 0 := by
  have hle := csr_rowEnd_le W hi
  unfold Csr.entry foldRange
  apply foldl_if_none (fun k => A.colInd.getD k A.cols = j)
  intro k hk hck
  have hk' := List.mem_range'_1.mp hk
  rw [getD_default (by omega) A.cols 0] at hck
  exact hno k hk'.1 (by omega) hck

theorem bandOff_inj {α : Type} (A : Csr α) (r c c' : Nat) (hr : r < A.rows) (h : A.bandOff r c = A.bandOff r c') :
    c = c' := by
  unfold Csr.bandOff at h
  omega

theorem idxOf_inj (offs : List Nat) (x y : Nat) (hx : x ∈ offs) (hy : y ∈ offs) (h : offs.idxOf x = offs.idxOf y) :
    x = y := by
  have hbx : offs.idxOf x < offs.length := List.idxOf_lt_length_iff.mpr hx
  have hby : offs.idxOf y < offs.length := List.idxOf_lt_length_iff.mpr hy
  have e1 : offs[offs.idxOf x]? = some x := by rw [List.getElem?_eq_getElem hbx, List.getElem_idxOf]
  have e2 : offs[offs.idxOf y]? = some y := by rw [List.getElem?_eq_getElem hby, List.getElem_idxOf]
  rw [h, e2] at e1
  exact (Option.some.inj e1).symm

/-- the slot of `(i, j)` in the band array is written only from a stored `(i, j)` -/
theorem stored_pos {α : Type} (A : Csr α) (i j : Nat) (hi : i < A.rows) (hmem : A.bandOff i j ∈ A.offsetSet)
    (rk : Nat × Nat) (hrk : rk ∈ stored A)
    (h : A.offsetSet.idxOf (bo A rk) * A.rows + rk.1 = A.offsetSet.idxOf (A.bandOff i j) * A.rows + i) :
    rk.1 = i ∧ A.colInd.getD rk.2 0 = j := by
  obtain ⟨r, k⟩ := rk
  have hr := ((mem_stored A r k).mp hrk).1
  obtain ⟨hidx, hri⟩ := pos_decode _ _ _ _ _ hr hi h
  subst hri
  refine ⟨rfl, ?_⟩
  have hmem' : bo A (r, k) ∈ A.offsetSet := (mem_offsetSet A _).mpr ⟨(r, k), hrk, rfl⟩
  have := idxOf_inj _ _ _ hmem' hmem hidx
  exact bandOff_inj A r _ _ hr this


theorem offsetSet_bound {α : Type} (A : Csr α) (W : CsrWF A) (o : Nat) (ho : o ∈ A.offsetSet) :
    o + 2 ≤ A.rows + A.cols := by
  obtain ⟨⟨r, k⟩, hrk, rfl⟩ := (mem_offsetSet A o).mp ho
  obtain ⟨hr, h1, h2⟩ := (mem_stored A r k).mp hrk
  have hle := csr_rowEnd_le W hr
  have hc := W.colLt k (by omega) 0
  simp only [bo, Csr.bandOff]
  omega

/-- `offsetSet` is the strictly sorted list of exactly the band offsets of the stored entries, all admissible -/
theorem offsetSet_spec {α : Type} (A : Csr α) (h : A.wf = true) :
    A.offsetSet.Pairwise (· < ·) ∧
    (∀ o, o ∈ A.offsetSet ↔
      ∃ r k, r < A.rows ∧ A.rowBegin r ≤ k ∧ k < A.rowEnd r ∧ A.bandOff r (A.colInd.getD k 0) = o) ∧
    ∀ o, o ∈ A.offsetSet → o + 2 ≤ A.rows + A.cols := by
  refine ⟨offsetSet_sorted A, ?_, offsetSet_bound A (csr_wf_of A h)⟩
  intro o
  rw [mem_offsetSet]
  constructor
  · rintro ⟨⟨r, k⟩, hrk, rfl⟩
    obtain ⟨h1, h2, h3⟩ := (mem_stored A r k).mp hrk
    exact ⟨r, k, h1, h2, h3, rfl⟩
  · rintro ⟨r, k, h1, h2, h3, rfl⟩
    exact ⟨(r, k), (mem_stored A r k).mpr ⟨h1, h2, h3⟩, rfl⟩

theorem banded_entry_one' {α : Type} [Zero α] [Add α] (A : Csr α) (V : Array α) (i j : Nat) (hi : i < A.rows)
    (hmem : A.bandOff i j ∈ A.offsetSet) :
    (Banded.mk A.rows A.cols A.offsetSet.toArray V).entry i j
      = 0 + V.getD (A.offsetSet.idxOf (A.bandOff i j) * A.rows + i) 0 :=
  banded_entry_one (Banded.mk A.rows A.cols A.offsetSet.toArray V) A.offsetSet rfl (offsetSet_sorted A) i j hi hmem

theorem banded_entry_none' {α : Type} [Zero α] [Add α] (A : Csr α) (V : Array α) (i j : Nat) (hi : i < A.rows)
    (hmem : ¬ A.bandOff i j ∈ A.offsetSet) :
    (Banded.mk A.rows A.cols A.offsetSet.toArray V).entry i j = 0 :=
  banded_entry_none (Banded.mk A.rows A.cols A.offsetSet.toArray V) A.offsetSet rfl i j hi hmem

theorem csr_toBanded_spec {α : Type} [Zero α] [Add α] (A : Csr α) (h : A.valid = true) (hnz : 0 < A.usedElements)
    (h0 : (0 : α) + 0 = 0) :
    ∃ B, A.toBanded = some B ∧ B.rows = A.rows ∧ B.cols = A.cols ∧ B.wf = true ∧
      ∀ i j, i < A.rows → j < A.cols → B.entry i j = A.entry i j := by
  have hv : A.wf = true ∧ A.sortedRows = true := by
    simp only [Csr.valid, Bool.or_eq_true, Bool.and_eq_true] at h
    rcases h with h | h
    · exfalso
      simp [Csr.isArrayless] at h
      simp [Csr.usedElements, h.2] at hnz
    · exact h
  have W := csr_wf_of A hv.1
  have hs := hv.2
  have hsorted := offsetSet_sorted A
  refine ⟨_, toBanded_eq A hnz, rfl, rfl, ?_, ?_⟩
  · simp only [Banded.wf, Banded.noo, Bool.and_eq_true, beq_iff_eq, List.all_eq_true, List.mem_range,
      decide_eq_true_eq, List.all_toArray]
    refine ⟨⟨?_, ?_⟩, ?_⟩
    · rw [writes_size, Array.size_replicate, Nat.mul_comm, List.size_toArray]
    · intro o ho
      exact offsetSet_bound A W o ho
    · intro k hk
      rw [List.size_toArray] at hk
      have hk1 : k < A.offsetSet.length := by omega
      have hk2 : k + 1 < A.offsetSet.length := by omega
      rw [getD_toArray, getD_toArray, List.getElem?_eq_getElem hk1, List.getElem?_eq_getElem hk2]
      exact List.pairwise_iff_getElem.mp hsorted k (k + 1) hk1 hk2 (by omega)
  · intro i j hi _
    by_cases hex : ∃ k0, A.rowBegin i ≤ k0 ∧ k0 < A.rowEnd i ∧ A.colInd.getD k0 0 = j
    · obtain ⟨k0, h1, h2, hc⟩ := hex
      have hst : (i, k0) ∈ stored A := (mem_stored A i k0).mpr ⟨hi, h1, h2⟩
      have hmem : A.bandOff i j ∈ A.offsetSet := (mem_offsetSet A _).mpr ⟨(i, k0), hst, by simp only [bo, hc]⟩
      have hb : A.offsetSet.idxOf (A.bandOff i j) < A.offsetSet.length := List.idxOf_lt_length_iff.mpr hmem
      rw [csr_entry_one A W hs i j hi k0 h1 h2 hc, banded_entry_one' A _ i j hi hmem]
      congr 1
      apply writes_getD_mem (fun rk => A.offsetSet.idxOf (bo A rk) * A.rows + rk.1) (fun rk => A.val.getD rk.2 0)
        (A.offsetSet.idxOf (A.bandOff i j) * A.rows + i)
      · rw [Array.size_replicate]
        have := Nat.mul_le_mul_right A.rows (Nat.succ_le_of_lt hb)
        rw [Nat.succ_mul] at this
        omega
      · exact ⟨(i, k0), hst, by simp only [bo, hc]⟩
      · intro rk hrk hp
        obtain ⟨hr, hcol⟩ := stored_pos A i j hi hmem rk hrk hp
        obtain ⟨r, k⟩ := rk
        simp only at hr hcol
        subst hr
        obtain ⟨_, hk1, hk2⟩ := (mem_stored A r k).mp hrk
        have := sortedRows_inj A hs r hi k k0 hk1 hk2 h1 h2 (by rw [hcol, hc])
        subst this
        rfl
    · have hno : ∀ k, A.rowBegin i ≤ k → k < A.rowEnd i → A.colInd.getD k 0 ≠ j :=
        fun k h1 h2 hc => hex ⟨k, h1, h2, hc⟩
      rw [csr_entry_none A W i j hi hno]
      by_cases hmem : A.bandOff i j ∈ A.offsetSet
      · rw [banded_entry_one' A _ i j hi hmem]
        have : ((stored A).foldl (fun v rk => v.setIfInBounds (A.offsetSet.idxOf (bo A rk) * A.rows + rk.1)
            (A.val.getD rk.2 0)) (Array.replicate (A.offsetSet.length * A.rows) 0)).getD
            (A.offsetSet.idxOf (A.bandOff i j) * A.rows + i) 0 = 0 := by
          rw [writes_getD_not_mem (fun rk => A.offsetSet.idxOf (bo A rk) * A.rows + rk.1) (fun rk => A.val.getD rk.2 0)]
          · rw [Array.getD_eq_getD_getElem?, Array.getElem?_replicate]
            split <;> rfl
          · intro rk hrk hp
            obtain ⟨hr, hcol⟩ := stored_pos A i j hi hmem rk hrk hp
            obtain ⟨r, k⟩ := rk
            simp only at hr hcol
            subst hr
            obtain ⟨_, hk1, hk2⟩ := (mem_stored A r k).mp hrk
            exact hno k hk1 hk2 hcol
        exact (congrArg (fun x => (0 : α) + x) this).trans h0
      · exact banded_entry_none' A _ i j hi hmem


/-- with the usual law `0 + 0 = 0` supplied by any reasonable scalar type the extra hypothesis disappears;
    without it the statement is false: a band that exists because of another row holds the initial `0` at `(i, j)`,
    so the banded meaning is `0 + 0` while the CSR meaning is the empty sum `0`. -/
theorem csr_toBanded_spec_nat (A : Csr Nat) (h : A.valid = true) (hnz : 0 < A.usedElements) :
    ∃ B, A.toBanded = some B ∧ B.rows = A.rows ∧ B.cols = A.cols ∧ B.wf = true ∧
      ∀ i j, i < A.rows → j < A.cols → B.entry i j = A.entry i j :=
  csr_toBanded_spec A h hnz rfl

/-- the instance the driver runs -/
theorem csr_toBanded_spec_rat (A : Csr Rat) (h : A.valid = true) (hnz : 0 < A.usedElements) :
    ∃ B, A.toBanded = some B ∧ B.rows = A.rows ∧ B.cols = A.cols ∧ B.wf = true ∧
      ∀ i j, i < A.rows → j < A.cols → B.entry i j = A.entry i j :=
  csr_toBanded_spec A h hnz (Rat.add_zero 0)

end C02L.Conv
