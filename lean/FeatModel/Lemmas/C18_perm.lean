/-
C18 helper lemmas, part 8: mesh permutations.  The coarse and the fine mesh may be permuted independently; the
assembly loops find the fine cell of (coarse cell, child) through `coarse_perm` (get_perm) and `fine_perm`
(get_inv_perm).  Here: (a) closed formulas for the entries of the assembled matrix / matrix-free vector as sums over
the list of local matrices; (b) these sums do not depend on the loop order and are equivariant under relabelling
of the dofs; (c) the loop nest with the two lookups on a permuted mesh pair visits the relabelled cells of the
unpermuted pair in permuted order.  Together: `perm_invariance`.
-/
import FeatModel.Lemmas.C18_pvec
import Mathlib.Algebra.BigOperators.Group.List.Basic
open FeatModel.GT Finset

namespace C18L

/-! ### (a) closed formulas -/

theorem addRows_vtab (n : Nat) (f : Nat → Rat) (b : List Rat) :
    addRows n (vtab n f) b = vtab n (fun s => f s + b.getD s 0) := by
  unfold addRows vtab
  apply List.map_congr_left
  intro s hs
  have hs' : s < n := List.mem_range.1 hs
  have := getD_vtab f hs'
  unfold vtab at this
  rw [this]

theorem foldl_addRows_vtab (n : Nat) (rows : List (List Rat)) (f : Nat → Rat) :
    rows.foldl (addRows n) (vtab n f) = vtab n (fun s => f s + (rows.map fun row => row.getD s 0).sum) := by
  induction rows generalizing f with
  | nil => simp
  | cons r rows ih =>
    rw [List.foldl_cons, addRows_vtab, ih]
    unfold vtab
    apply List.map_congr_left
    intro s _
    simp [add_assoc]

theorem sumRows_eq (n : Nat) (rows : List (List Rat)) :
    sumRows n rows = vtab n (fun s => (rows.map fun row => row.getD s 0).sum) := by
  unfold sumRows
  rw [foldl_addRows_vtab]
  unfold vtab
  apply List.map_congr_left
  intro s _
  simp

theorem sum_flatMap_map {α β : Type} (l : List α) (f : α → List β) (g : β → Rat) :
    ((l.flatMap f).map g).sum = (l.map fun a => ((f a).map g).sum).sum := by
  induction l with
  | nil => simp
  | cons a l ih => simp [List.flatMap_cons, ih]

theorem sum_filterMap_range {β : Type} (n : Nat) (c : Nat → Prop) [DecidablePred c] (v : Nat → β) (g : β → Rat) :
    (((List.range n).filterMap fun i => if c i then some (v i) else none).map g).sum
      = ∑ i ∈ range n, if c i then g (v i) else 0 := by
  induction n with
  | zero => simp
  | succ n ih =>
    rw [List.range_succ, List.filterMap_append, List.map_append, List.sum_append, ih, Finset.sum_range_succ]
    congr 1
    by_cases h : c n <;> simp [h]

/-- contribution of one local matrix to the global entry `(r, s)` -/
def locEntry (loc : List Nat × List Nat × Mat) (r s : Nat) : Rat :=
  ∑ i ∈ range loc.2.1.length, if loc.2.1.getD i 0 = r then
    (∑ j ∈ range loc.1.length, if loc.1.getD j 0 = s then FeatModel.GT.get loc.2.2 i j else 0) else 0

/-- number of local rows one local matrix adds to the global row `r` -/
def locCount (loc : List Nat × List Nat × Mat) (r : Nat) : Nat :=
  ((List.range loc.2.1.length).filter fun i => loc.2.1.getD i 0 = r).length

theorem get_prolRaw (d : Dump) (locs : List (List Nat × List Nat × Mat)) {r s : Nat} (hr : r < d.nf) (hs : s < d.nc) :
    FeatModel.GT.get (prolRaw d locs) r s = (locs.map fun loc => locEntry loc r s).sum := by
  have g2 : FeatModel.GT.get (prolRaw d locs) r s = (sumRows d.nc (contribRows d.nc locs r)).getD s 0 := by
    unfold FeatModel.GT.get prolRaw
    simp [hr]
  rw [g2, sumRows_eq, getD_vtab _ hs]
  unfold contribRows
  rw [sum_flatMap_map]
  congr 1
  apply List.map_congr_left
  intro loc _
  obtain ⟨cmap, fmap, x⟩ := loc
  unfold childContrib locEntry
  rw [sum_filterMap_range fmap.length (fun i => fmap.getD i 0 = r) (fun i => denseRow d.nc cmap (x.getD i []))
    (fun row => row.getD s 0)]
  apply Finset.sum_congr rfl
  intro i _
  split
  · unfold denseRow
    rw [getD_vtab _ hs, sumTo_eq]
    rfl
  · rfl

theorem length_filterMap_ite {β : Type} (l : List Nat) (c : Nat → Prop) [DecidablePred c] (v : Nat → β) :
    (l.filterMap fun i => if c i then some (v i) else none).length = (l.filter fun i => c i).length := by
  induction l with
  | nil => simp
  | cons a l ih =>
    by_cases h : c a <;> simp [List.filterMap_cons, List.filter_cons, h, ih]

theorem length_contribRows (nc : Nat) (locs : List (List Nat × List Nat × Mat)) (r : Nat) :
    (contribRows nc locs r).length = (locs.map fun loc => locCount loc r).sum := by
  unfold contribRows
  induction locs with
  | nil => simp
  | cons loc locs ih =>
    rw [List.flatMap_cons, List.length_append, ih, List.map_cons, List.sum_cons]
    congr 1
    obtain ⟨cmap, fmap, x⟩ := loc
    exact length_filterMap_ite _ (fun i => fmap.getD i 0 = r) _

/-- contribution of one local matrix to the matrix-free result entry `r` -/
def locVec (loc : List Nat × List Nat × Mat) (xc : List Rat) (r : Nat) : Rat :=
  ∑ i ∈ range loc.2.1.length, if loc.2.1.getD i 0 = r then
    (∑ j ∈ range loc.1.length, FeatModel.GT.get loc.2.2 i j * xc.getD (loc.1.getD j 0) 0) else 0

theorem getD_pvecRaw (d : Dump) (locs : List (List Nat × List Nat × Mat)) (xc : List Rat) {r : Nat} (hr : r < d.nf) :
    (pvecRaw d locs xc).getD r 0 = (locs.map fun loc => locVec loc xc r).sum := by
  unfold pvecRaw
  rw [getD_vtab _ hr, lsum_eq]
  have := sum_flatMap_map locs (fun (loc : List Nat × List Nat × Mat) =>
      (List.range loc.2.1.length).filterMap fun i =>
        if loc.2.1.getD i 0 = r then
          some (sumTo loc.1.length fun j => FeatModel.GT.get loc.2.2 i j * (gather loc.1 xc).getD j 0)
        else none) id
  simp only [List.map_id] at this
  refine Eq.trans this ?_
  congr 1
  apply List.map_congr_left
  intro loc _
  unfold locVec
  have := sum_filterMap_range loc.2.1.length (fun i => loc.2.1.getD i 0 = r)
    (fun i => sumTo loc.1.length fun j => FeatModel.GT.get loc.2.2 i j * (gather loc.1 xc).getD j 0) id
  simp only [List.map_id, id] at this
  rw [this]
  apply Finset.sum_congr rfl
  intro i _
  split
  · rw [sumTo_eq]
    apply Finset.sum_congr rfl
    intro j hj
    rw [getD_gather _ _ (Finset.mem_range.1 hj)]
  · rfl

/-! ### (b) independence of the loop order, equivariance under relabelling of the dofs -/

/-- relabel the dofs of a local matrix: coarse dofs by `σc`, fine dofs by `σf` -/
def relabelLoc (σc σf : Nat → Nat) (loc : List Nat × List Nat × Mat) : List Nat × List Nat × Mat :=
  (loc.1.map σc, loc.2.1.map σf, loc.2.2)

theorem getD_map_lt (σ : Nat → Nat) (l : List Nat) {i : Nat} (hi : i < l.length) :
    (l.map σ).getD i 0 = σ (l.getD i 0) := by
  simp [List.getD_eq_getElem?_getD, hi]

theorem locEntry_relabel {σc σf : Nat → Nat} (hc : Function.Injective σc) (hf : Function.Injective σf)
    (loc : List Nat × List Nat × Mat) (r s : Nat) :
    locEntry (relabelLoc σc σf loc) (σf r) (σc s) = locEntry loc r s := by
  unfold locEntry relabelLoc
  simp only [List.length_map]
  apply Finset.sum_congr rfl
  intro i hi
  rw [getD_map_lt σf _ (Finset.mem_range.1 hi)]
  have e1 : (σf (loc.2.1.getD i 0) = σf r) ↔ (loc.2.1.getD i 0 = r) := ⟨fun h => hf h, fun h => by rw [h]⟩
  simp only [e1]
  split
  · apply Finset.sum_congr rfl
    intro j hj
    rw [getD_map_lt σc _ (Finset.mem_range.1 hj)]
    have e2 : (σc (loc.1.getD j 0) = σc s) ↔ (loc.1.getD j 0 = s) := ⟨fun h => hc h, fun h => by rw [h]⟩
    simp only [e2]
  · rfl

theorem locCount_relabel {σc σf : Nat → Nat} (hf : Function.Injective σf)
    (loc : List Nat × List Nat × Mat) (r : Nat) :
    locCount (relabelLoc σc σf loc) (σf r) = locCount loc r := by
  unfold locCount relabelLoc
  simp only [List.length_map]
  congr 1
  apply List.filter_congr
  intro i hi
  rw [getD_map_lt σf _ (List.mem_range.1 hi)]
  have e1 : (σf (loc.2.1.getD i 0) = σf r) ↔ (loc.2.1.getD i 0 = r) := ⟨fun h => hf h, fun h => by rw [h]⟩
  simp only [e1]

theorem locVec_relabel {σc σf : Nat → Nat} (hf : Function.Injective σf)
    (loc : List Nat × List Nat × Mat) (xc xc' : List Rat) (r : Nat)
    (hx : ∀ j, j < loc.1.length → xc'.getD (σc (loc.1.getD j 0)) 0 = xc.getD (loc.1.getD j 0) 0) :
    locVec (relabelLoc σc σf loc) xc' (σf r) = locVec loc xc r := by
  unfold locVec relabelLoc
  simp only [List.length_map]
  apply Finset.sum_congr rfl
  intro i hi
  rw [getD_map_lt σf _ (Finset.mem_range.1 hi)]
  have e1 : (σf (loc.2.1.getD i 0) = σf r) ↔ (loc.2.1.getD i 0 = r) := ⟨fun h => hf h, fun h => by rw [h]⟩
  simp only [e1]
  split
  · apply Finset.sum_congr rfl
    intro j hj
    rw [getD_map_lt σc _ (Finset.mem_range.1 hj), hx j (Finset.mem_range.1 hj)]
  · rfl

/-- entries of the weight-normalised matrix -/
theorem get_prolDirect (d : Dump) (locs : List (List Nat × List Nat × Mat)) (pd : Mat)
    (h : prolDirect d locs = some pd) {r s : Nat} (hr : r < d.nf) (hs : s < d.nc) :
    FeatModel.GT.get pd r s
      = (locs.map fun loc => locEntry loc r s).sum * (1 / (((locs.map fun loc => locCount loc r).sum : Nat) : Rat)) := by
  unfold prolDirect scaleRows at h
  split at h
  · simp at h
  · simp only [Option.some.injEq] at h
    subst h
    have hlen : (prolRaw d locs).length = d.nf := by simp [prolRaw]
    have g1 : FeatModel.GT.get ((List.range (prolRaw d locs).length).map fun r =>
        vtab d.nc fun s => FeatModel.GT.get (prolRaw d locs) r s * (1 / (prolWeights d locs).getD r 0)) r s
        = FeatModel.GT.get (prolRaw d locs) r s * (1 / (prolWeights d locs).getD r 0) := by
      unfold FeatModel.GT.get
      simp only [List.getD_eq_getElem?_getD, List.getElem?_map, List.getElem?_range, hlen, hr]
      simp [vtab, hs]
    have g3 : (prolWeights d locs).getD r 0 = ((contribRows d.nc locs r).length : Rat) := by
      unfold prolWeights; rw [getD_vtab _ hr]
    rw [g1, g3, get_prolRaw d locs hr hs, length_contribRows]

/-- the assembled, weight-normalised prolongation matrix depends only on the *multiset* of local matrices and is
equivariant under relabelling of the dofs -/
theorem prolDirect_perm_relabel (d0 dP : Dump) (locs0 locsP : List (List Nat × List Nat × Mat)) (pd0 pdP : Mat)
    {σc σf : Nat → Nat} (hc : Function.Injective σc) (hf : Function.Injective σf)
    (hnf : dP.nf = d0.nf) (hnc : dP.nc = d0.nc)
    (hperm : locsP.Perm (locs0.map (relabelLoc σc σf)))
    (h0 : prolDirect d0 locs0 = some pd0) (hP : prolDirect dP locsP = some pdP)
    {r s : Nat} (hr : r < d0.nf) (hs : s < d0.nc) (hr' : σf r < d0.nf) (hs' : σc s < d0.nc) :
    FeatModel.GT.get pdP (σf r) (σc s) = FeatModel.GT.get pd0 r s := by
  rw [get_prolDirect dP locsP pdP hP (by rw [hnf]; exact hr') (by rw [hnc]; exact hs'),
    get_prolDirect d0 locs0 pd0 h0 hr hs]
  have e1 : (locsP.map fun loc => locEntry loc (σf r) (σc s)).sum = (locs0.map fun loc => locEntry loc r s).sum := by
    rw [(hperm.map _).sum_eq, List.map_map]
    congr 1
    apply List.map_congr_left
    intro loc _
    exact locEntry_relabel hc hf loc r s
  have e2 : (locsP.map fun loc => locCount loc (σf r)).sum = (locs0.map fun loc => locCount loc r).sum := by
    rw [(hperm.map _).sum_eq, List.map_map]
    congr 1
    apply List.map_congr_left
    intro loc _
    exact locCount_relabel hf loc r
  rw [e1, e2]

/-- the same for the matrix-free path (`prolongate_vector_direct`) -/
theorem pvec_perm_relabel (d0 dP : Dump) (locs0 locsP : List (List Nat × List Nat × Mat)) (xc xcP vd0 vdP : List Rat)
    {σc σf : Nat → Nat} (hf : Function.Injective σf)
    (hnf : dP.nf = d0.nf)
    (hperm : locsP.Perm (locs0.map (relabelLoc σc σf)))
    (hx : ∀ s, xcP.getD (σc s) 0 = xc.getD s 0)
    (h0 : scaleVec (pvecRaw d0 locs0 xc) (prolWeights d0 locs0) = some vd0)
    (hP : scaleVec (pvecRaw dP locsP xcP) (prolWeights dP locsP) = some vdP)
    {r : Nat} (hr : r < d0.nf) (hr' : σf r < d0.nf) :
    vdP.getD (σf r) 0 = vd0.getD r 0 := by
  have key : ∀ (d : Dump) (locs : List (List Nat × List Nat × Mat)) (x vd : List Rat) (q : Nat),
      scaleVec (pvecRaw d locs x) (prolWeights d locs) = some vd → q < d.nf →
      vd.getD q 0 = (locs.map fun loc => locVec loc x q).sum *
        (1 / (((locs.map fun loc => locCount loc q).sum : Nat) : Rat)) := by
    intro d locs x vd q h hq
    unfold scaleVec at h
    split at h
    · simp at h
    · simp only [Option.some.injEq] at h
      subst h
      have hl : (pvecRaw d locs x).length = d.nf := by unfold pvecRaw; rw [vtab_length]
      rw [hl, getD_vtab _ hq, getD_pvecRaw d locs x hq]
      have g3 : (prolWeights d locs).getD q 0 = ((contribRows d.nc locs q).length : Rat) := by
        unfold prolWeights; rw [getD_vtab _ hq]
      rw [g3, length_contribRows]
  rw [key dP locsP xcP vdP (σf r) hP (by rw [hnf]; exact hr'), key d0 locs0 xc vd0 r h0 hr]
  have e1 : (locsP.map fun loc => locVec loc xcP (σf r)).sum = (locs0.map fun loc => locVec loc xc r).sum := by
    rw [(hperm.map _).sum_eq, List.map_map]
    congr 1
    apply List.map_congr_left
    intro loc _
    exact locVec_relabel hf loc xc xcP r (fun j _ => hx _)
  have e2 : (locsP.map fun loc => locCount loc (σf r)).sum = (locs0.map fun loc => locCount loc r).sum := by
    rw [(hperm.map _).sum_eq, List.map_map]
    congr 1
    apply List.map_congr_left
    intro loc _
    exact locCount_relabel hf loc r
  rw [e1, e2]

/-! ### (c) the two lookups on a permuted mesh pair -/

def relabelChild (σf : Nat → Nat) (ch : Child) : Child := { ch with fmap := ch.fmap.map σf }

def relabelCell (σc σf : Nat → Nat) (c : Cell) : Cell :=
  { cmap := c.cmap.map σc, cpts := c.cpts, children := c.children.map (relabelChild σf) }

/-- a mesh pair after (optionally) permuting the coarse and/or the fine mesh: position `i` of the permuted coarse
mesh holds the old cell `lookup pc i` with dofs renumbered by `σc` (`pc = []`: coarse mesh not permuted), likewise
`pf`, `σf` for the fine mesh; `pfinv` is what `get_inv_perm()` of the fine mesh returns -/
def permutedPair (m0 : TwoLevel) (pc pf pfinv : List Nat) (σc σf : Nat → Nat) : TwoLevel :=
  { m0 with
    coarse := (List.range m0.coarse.length).map fun i =>
      let cc := m0.coarse.getD (lookup pc i) default
      { cc with cmap := cc.cmap.map σc },
    fine := (List.range m0.fine.length).map fun i =>
      let fc := m0.fine.getD (lookup pf i) default
      { fc with fmap := fc.fmap.map σf },
    coarsePerm := pc, fineInvPerm := pfinv }

theorem getD_map_range {β : Type} (n : Nat) (f : Nat → β) (d : β) {i : Nat} (hi : i < n) :
    ((List.range n).map f).getD i d = f i := by
  simp [List.getD_eq_getElem?_getD, hi]

theorem lookup_nil (i : Nat) : lookup [] i = i := by simp [lookup]

/-- the cells visited by the loop nest on the permuted pair are the relabelled cells of the unpermuted pair, in the
order given by the coarse permutation -/
theorem toDump_permutedPair (m0 : TwoLevel) (pc pf pfinv : List Nat) (σc σf : Nat → Nat)
    (h0c : m0.coarsePerm = []) (h0f : m0.fineInvPerm = [])
    (hpc : ∀ i, i < m0.coarse.length → lookup pc i < m0.coarse.length)
    (hpf : ∀ c child, c < m0.coarse.length → child < m0.nchild →
      lookup pfinv (calcFcell m0.nchild c child) < m0.fine.length ∧
      lookup pf (lookup pfinv (calcFcell m0.nchild c child)) = calcFcell m0.nchild c child) :
    (permutedPair m0 pc pf pfinv σc σf).toDump.cells
      = (List.range m0.coarse.length).map fun i =>
          relabelCell σc σf (m0.toDump.cells.getD (lookup pc i) default) := by
  unfold TwoLevel.toDump
  simp only [permutedPair, List.length_map, List.length_range]
  apply List.map_congr_left
  intro i hi
  have hi' : i < m0.coarse.length := List.mem_range.1 hi
  have hci := hpc i hi'
  rw [getD_map_range _ _ _ hi', getD_map_range _ _ _ hci]
  unfold relabelCell
  simp only [List.map_map]
  congr 1
  apply List.map_congr_left
  intro child hchild
  have hch : child < m0.nchild := List.mem_range.1 hchild
  obtain ⟨hf1, hf2⟩ := hpf (lookup pc i) child hci hch
  simp only [Function.comp, TwoLevel.childOf, TwoLevel.fcellOf, relabelChild, h0c, h0f, lookup_nil]
  rw [getD_map_range _ _ _ hf1, hf2]

theorem mapM_ok_eq_map {α β ε : Type} (f : α → Except ε β) (g : α → β) (hg : ∀ x y, f x = .ok y → g x = y)
    (l : List α) (ys : List β) (h : l.mapM f = .ok ys) : ys = l.map g := by
  induction l generalizing ys with
  | nil =>
    simp [List.mapM_nil, pure, Except.pure] at h
    subst h; simp
  | cons a l ih =>
    rw [List.mapM_cons] at h
    cases hfa : f a with
    | error e => simp [hfa, bind, Except.bind] at h
    | ok b =>
      cases hl : l.mapM f with
      | error e => simp [hfa, hl, bind, Except.bind] at h
      | ok bs =>
        simp [hfa, hl, bind, Except.bind, pure, Except.pure] at h
        subst h
        rw [List.map_cons, ih bs hl, hg a b hfa]

def okMat : Except Fail Mat → Mat
  | .ok x => x
  | .error _ => []

def pairsOf (cell : Cell) : List (Cell × Child) := cell.children.map fun ch => (cell, ch)

def locOf (p : Cell × Child) : List Nat × List Nat × Mat :=
  (p.1.cmap, p.2.fmap, okMat (localProl p.1.cmap.length p.2))

theorem localProls_eq_map {d : Dump} {locs : List (List Nat × List Nat × Mat)} (h : localProls d = .ok locs) :
    locs = (d.cells.flatMap pairsOf).map locOf := by
  unfold localProls at h
  refine mapM_ok_eq_map _ locOf ?_ _ _ h
  intro p y hp
  obtain ⟨cell, ch⟩ := p
  simp only at hp
  unfold locOf
  split at hp
  · simp at hp
  · rename_i x hx
    simp only [Except.ok.injEq] at hp
    rw [← hp, hx]
    rfl

theorem locOf_relabel (σc σf : Nat → Nat) (cell : Cell) (ch : Child) :
    locOf (relabelCell σc σf cell, relabelChild σf ch) = relabelLoc σc σf (locOf (cell, ch)) := by
  simp [locOf, relabelLoc, relabelCell, relabelChild, localProl]

theorem pairsOf_relabel (σc σf : Nat → Nat) (cell : Cell) :
    pairsOf (relabelCell σc σf cell)
      = (pairsOf cell).map fun p => (relabelCell σc σf p.1, relabelChild σf p.2) := by
  simp [pairsOf, relabelCell, List.map_map, Function.comp_def]

theorem list_eq_map_getD {β : Type} (l : List β) (d : β) : l = (List.range l.length).map fun i => l.getD i d := by
  apply List.ext_getElem
  · simp
  · intro i h1 h2
    simp [List.getD_eq_getElem?_getD, h1]

/-- local matrices of the permuted pair = relabelled local matrices of the unpermuted pair, up to the loop order -/
theorem localProls_perm (d0 dP : Dump) (σc σf : Nat → Nat) (idx : List Nat)
    (hidx : idx.Perm (List.range d0.cells.length))
    (hcells : dP.cells = idx.map fun c => relabelCell σc σf (d0.cells.getD c default))
    {locs0 locsP : List (List Nat × List Nat × Mat)}
    (h0 : localProls d0 = .ok locs0) (hP : localProls dP = .ok locsP) :
    locsP.Perm (locs0.map (relabelLoc σc σf)) := by
  rw [localProls_eq_map h0, localProls_eq_map hP, hcells]
  have hc : (idx.map fun c => relabelCell σc σf (d0.cells.getD c default)).Perm (d0.cells.map (relabelCell σc σf)) := by
    have := hidx.map fun c => relabelCell σc σf (d0.cells.getD c default)
    refine this.trans ?_
    have e := list_eq_map_getD d0.cells default
    conv_rhs => rw [e]
    rw [List.map_map]
    exact List.Perm.refl _
  refine ((hc.flatMap_right pairsOf).map locOf).trans ?_
  rw [List.flatMap_map, List.map_map, List.map_flatMap, List.map_flatMap]
  apply List.Perm.of_eq
  congr 1
  funext cell
  rw [pairsOf_relabel, List.map_map]
  apply List.map_congr_left
  intro p _
  exact locOf_relabel σc σf p.1 p.2

/-- hypotheses on the permutation data of a permuted mesh pair: the coarse lookup is a bijection of the coarse cells
(`pc = []` = unpermuted), the fine inverse lookup is a right inverse of the fine cell permutation on every fine cell
that is visited (`pf = pfinv = []` = unpermuted) -/
structure PermOK (m0 : TwoLevel) (pc pf pfinv : List Nat) : Prop where
  base_c : m0.coarsePerm = []
  base_f : m0.fineInvPerm = []
  coarse : ((List.range m0.coarse.length).map (lookup pc)).Perm (List.range m0.coarse.length)
  fine : ∀ c child, c < m0.coarse.length → child < m0.nchild →
    lookup pfinv (calcFcell m0.nchild c child) < m0.fine.length ∧
    lookup pf (lookup pfinv (calcFcell m0.nchild c child)) = calcFcell m0.nchild c child

theorem locs_permutedPair (m0 : TwoLevel) (pc pf pfinv : List Nat) (σc σf : Nat → Nat) (hok : PermOK m0 pc pf pfinv)
    {locs0 locsP : List (List Nat × List Nat × Mat)}
    (h0 : localProls m0.toDump = .ok locs0)
    (hP : localProls (permutedPair m0 pc pf pfinv σc σf).toDump = .ok locsP) :
    locsP.Perm (locs0.map (relabelLoc σc σf)) := by
  have hpc : ∀ i, i < m0.coarse.length → lookup pc i < m0.coarse.length := by
    intro i hi
    have : lookup pc i ∈ (List.range m0.coarse.length).map (lookup pc) :=
      List.mem_map.2 ⟨i, List.mem_range.2 hi, rfl⟩
    exact List.mem_range.1 (hok.coarse.mem_iff.1 this)
  have hcells := toDump_permutedPair m0 pc pf pfinv σc σf hok.base_c hok.base_f hpc hok.fine
  have hlen : m0.toDump.cells.length = m0.coarse.length := by simp [TwoLevel.toDump]
  refine localProls_perm m0.toDump _ σc σf ((List.range m0.coarse.length).map (lookup pc)) (by rw [hlen]; exact hok.coarse)
    ?_ h0 hP
  rw [hcells, List.map_map]
  rfl

/-- **perm_invariance (matrix)**: for every permutation state (coarse and fine mesh permuted independently or not at
all) the prolongation matrix assembled with the two lookups is the unpermuted matrix conjugated by the dof
renumberings: `P'(σf r, σc s) = P(r, s)` -/
theorem perm_invariance_matrix (m0 : TwoLevel) (pc pf pfinv : List Nat) {σc σf : Nat → Nat}
    (hc : Function.Injective σc) (hf : Function.Injective σf) (hok : PermOK m0 pc pf pfinv)
    {locs0 locsP : List (List Nat × List Nat × Mat)} {pd0 pdP : Mat}
    (h0 : localProls m0.toDump = .ok locs0)
    (hP : localProls (permutedPair m0 pc pf pfinv σc σf).toDump = .ok locsP)
    (hd0 : prolDirect m0.toDump locs0 = some pd0)
    (hdP : prolDirect (permutedPair m0 pc pf pfinv σc σf).toDump locsP = some pdP)
    {r s : Nat} (hr : r < m0.nf) (hs : s < m0.nc) (hr' : σf r < m0.nf) (hs' : σc s < m0.nc) :
    FeatModel.GT.get pdP (σf r) (σc s) = FeatModel.GT.get pd0 r s :=
  prolDirect_perm_relabel m0.toDump (permutedPair m0 pc pf pfinv σc σf).toDump locs0 locsP pd0 pdP hc hf rfl rfl
    (locs_permutedPair m0 pc pf pfinv σc σf hok h0 hP) hd0 hdP hr hs hr' hs'

/-- **perm_invariance (matrix-free)**: the same for `prolongate_vector_direct` -/
theorem perm_invariance_vector (m0 : TwoLevel) (pc pf pfinv : List Nat) {σc σf : Nat → Nat}
    (hf : Function.Injective σf) (hok : PermOK m0 pc pf pfinv)
    {locs0 locsP : List (List Nat × List Nat × Mat)} {xc xcP vd0 vdP : List Rat}
    (h0 : localProls m0.toDump = .ok locs0)
    (hP : localProls (permutedPair m0 pc pf pfinv σc σf).toDump = .ok locsP)
    (hx : ∀ s, xcP.getD (σc s) 0 = xc.getD s 0)
    (hv0 : scaleVec (pvecRaw m0.toDump locs0 xc) (prolWeights m0.toDump locs0) = some vd0)
    (hvP : scaleVec (pvecRaw (permutedPair m0 pc pf pfinv σc σf).toDump locsP xcP)
      (prolWeights (permutedPair m0 pc pf pfinv σc σf).toDump locsP) = some vdP)
    {r : Nat} (hr : r < m0.nf) (hr' : σf r < m0.nf) :
    vdP.getD (σf r) 0 = vd0.getD r 0 :=
  pvec_perm_relabel m0.toDump (permutedPair m0 pc pf pfinv σc σf).toDump locs0 locsP xc xcP vd0 vdP hf rfl
    (locs_permutedPair m0 pc pf pfinv σc σf hok h0 hP) hx hv0 hvP hr hr'

end C18L
