import FeatModel.Lemmas.C20Frame
/-! C20 helper lemmas, part 16: lifetime operations never change array CONTENTS: every chunk that existed before an
    operation and still exists afterwards has the same values (`Back`); `copy` writes in place -/
namespace FeatModel.Pool

/-- `p'` is a later pool than `p`: it is at least as long, and every chunk with id `< n` that is in `p'` was in `p`
    with the same contents -/
def Back (p p' : Pool) (n : Nat) : Prop :=
  p.length ≤ p'.length ∧ ∀ id, id < n → ∀ c', get p' id = some c' → ∃ c, get p id = some c ∧ c.vals = c'.vals

theorem Back.refl (p : Pool) (n : Nat) : Back p p n := ⟨Nat.le_refl _, fun _ _ c' h => ⟨c', h, rfl⟩⟩

theorem Back.trans {p p1 p2 : Pool} {n : Nat} (h1 : Back p p1 n) (h2 : Back p1 p2 n) : Back p p2 n := by
  refine ⟨Nat.le_trans h1.1 h2.1, fun id hid c2 hc2 => ?_⟩
  obtain ⟨c1, hc1, e1⟩ := h2.2 id hid c2 hc2
  obtain ⟨c, hc, e⟩ := h1.2 id hid c1 hc1
  exact ⟨c, hc, e.trans e1⟩

theorem back_set {p : Pool} {i : Nat} {c : Chunk} {x : Option Chunk} (n : Nat) (hg : get p i = some c)
    (hx : ∀ c', x = some c' → c'.vals = c.vals) : Back p (p.set i x) n := by
  refine ⟨by simp, fun id _ c' hc' => ?_⟩
  by_cases hij : i = id
  · subst hij
    rw [get_set_self p i x (get_lt hg)] at hc'
    exact ⟨c, hg, (hx c' hc').symm⟩
  · rw [get_set_ne p i id x hij] at hc'; exact ⟨c', hc', rfl⟩

theorem back_incr {p p' : Pool} {q : Ptr} (n : Nat) (h : incr p q = .ok p') : Back p p' n := by
  unfold incr at h
  cases q with
  | null => injection h with h; subst h; exact Back.refl p n
  | «at» id off =>
    simp only at h
    split at h
    · cases h
    · split at h
      · cases h
      · rename_i c hg
        injection h with h; subst h
        exact back_set n hg (fun c' e => by injection e with e; subst e; rfl)

theorem back_release {p p' : Pool} {q : Ptr} (n : Nat) (h : release p q = .ok p') : Back p p' n := by
  unfold release at h
  cases q with
  | null => injection h with h; subst h; exact Back.refl p n
  | «at» id off =>
    simp only at h
    split at h
    · cases h
    · split at h
      · cases h
      · rename_i c hg
        split at h
        · injection h with h; subst h; exact back_set n hg (fun c' e => by cases e)
        · injection h with h; subst h
          exact back_set n hg (fun c' e => by injection e with e; subst e; rfl)

theorem ext_incrAll {l : List Ptr} {p pJ pK : Pool} {n : Nat} (hb : Back p pJ n) (h : incrAll pJ l = .ok pK) :
    Back p pK n := by
  induction l generalizing pJ with
  | nil => unfold incrAll at h; injection h with h; subst h; exact hb
  | cons q qs ih =>
    unfold incrAll at h
    cases hr : incr pJ q with
    | error e => rw [hr] at h; cases h
    | ok p1 => rw [hr] at h; exact ih (hb.trans (back_incr n hr)) h

theorem ext_releaseAll {l : List Ptr} {p pJ pK : Pool} {n : Nat} (hb : Back p pJ n) (h : releaseAll pJ l = .ok pK) :
    Back p pK n := by
  induction l generalizing pJ with
  | nil => unfold releaseAll at h; injection h with h; subst h; exact hb
  | cons q qs ih =>
    unfold releaseAll at h
    cases hr : release pJ q with
    | error e => rw [hr] at h; cases h
    | ok p1 => rw [hr] at h; exact ih (hb.trans (back_release n hr)) h

theorem ext_releaseOwn {c : Cont} {p pJ pK : Pool} {n : Nat} (hb : Back p pJ n) (h : c.releaseOwn pJ = .ok pK) :
    Back p pK n := ext_releaseAll hb h

theorem ext_incr {q : Ptr} {p pJ pK : Pool} {n : Nat} (hb : Back p pJ n) (h : incr pJ q = .ok pK) : Back p pK n :=
  hb.trans (back_incr n h)

theorem ext_alloc {p pJ : Pool} {n : Nat} (hb : Back p pJ n) (hn : n ≤ p.length) (m esz : Nat) (vals : List Int) :
    Back p (alloc pJ m esz vals).1 n := by
  refine hb.trans ⟨alloc_length pJ m esz vals, fun id hid c' hc' => ?_⟩
  have hlt : id < pJ.length := by have := hb.1; omega
  unfold alloc at hc'
  split at hc'
  · exact ⟨c', hc', rfl⟩
  · simp only at hc'
    rw [get_append_lt pJ _ id hlt] at hc'; exact ⟨c', hc', rfl⟩

theorem ext_allocAll {l : List (Ptr × Nat)} {p pJ : Pool} {n : Nat} (hb : Back p pJ n) (hn : n ≤ p.length)
    (esz : Nat) (copy : Bool) : Back p (allocAll pJ esz copy l).1 n := by
  induction l generalizing pJ with
  | nil => exact hb
  | cons x rest ih =>
    obtain ⟨q, m⟩ := x
    simp only [allocAll]
    exact ih (ext_alloc hb hn m esz _)

theorem back_writeArr_fresh (p : Pool) (q : Ptr) (vs : List Int) (n : Nat)
    (hq : ∀ id o, q = .at id o → n ≤ id) : Back p (writeArr p q vs) n := by
  refine ⟨by rw [writeArr_length]; exact Nat.le_refl _, fun id hid c' hc' => ?_⟩
  unfold writeArr at hc'
  cases q with
  | null => exact ⟨c', hc', rfl⟩
  | «at» i o =>
    have : n ≤ i := hq i o rfl
    simp only at hc'
    split at hc'
    · rw [get_set_ne _ i id _ (by omega)] at hc'; exact ⟨c', hc', rfl⟩
    · exact ⟨c', hc', rfl⟩

theorem ext_fillArrs {l : List (Ptr × Nat)} {p pJ : Pool} {n : Nat} (v : Int) (hb : Back p pJ n)
    (hl : ∀ x ∈ l, ∀ id o, x.1 = .at id o → n ≤ id) : Back p (fillArrs pJ v l) n := by
  induction l generalizing pJ with
  | nil => exact hb
  | cons x rest ih =>
    obtain ⟨q, m⟩ := x
    simp only [fillArrs]
    apply ih
    · exact hb.trans (back_writeArr_fresh pJ q _ n (hl (q, m) List.mem_cons_self))
    · exact fun y hy => hl y (List.mem_cons_of_mem _ hy)

theorem fresh_zip {n : Nat} {l : List Ptr} {sz : List Nat} (h : FreshL n l) :
    ∀ x ∈ l.zip sz, ∀ id o, x.1 = .at id o → n ≤ id := by
  intro x hx id o e
  rcases h x.1 (List.of_mem_zip hx).1 with h0 | ⟨i, h0, hle⟩
  · rw [h0] at e; cases e
  · rw [h0] at e; injection e with e1 _; omega

/-- chain the pool transitions recorded in the context backwards from the goal pool to the start pool -/
macro "back_close" : tactic => `(tactic|
  repeat (first
    | assumption
    | exact Back.refl _ _
    | (refine ext_allocAll ?_ (by assumption) _ _)
    | (refine ext_alloc ?_ (by assumption) _ _ _)
    | (refine ext_incrAll ?_ (by assumption))
    | (refine ext_releaseOwn ?_ (by assumption))
    | (refine ext_releaseAll ?_ (by assumption))
    | (refine ext_incr ?_ (by assumption))))

theorem ext_shareOrConvert {p pJ pK : Pool} {n : Nat} {same : Bool} {esz : Nat} {ptrs rs : List Ptr} {sizes : List Nat}
    (hb : Back p pJ n) (hn : n ≤ p.length) (h : shareOrConvert pJ same esz ptrs sizes = .ok (pK, rs)) :
    Back p pK n := by
  unfold shareOrConvert at h
  split at h
  · split at h
    · cases h
    · rename_i p1 hi
      injection h with h; injection h with h1 h2; subst h1
      exact ext_incrAll hb hi
  · injection h with h
    have := ext_allocAll (l := ptrs.zip sizes) hb hn esz true
    rw [h] at this; exact this

theorem ext_cloneFrom {p pJ pK : Pool} {n : Nat} {self other c' : Cont} {so : Bool} {mode : Nat}
    (hb : Back p pJ n) (hn : n ≤ p.length) (h : Cont.cloneFrom pJ self other so mode = .ok (pK, c')) :
    Back p pK n := by
  unfold Cont.cloneFrom at h
  dsimp only at h
  repeat' (split at h)
  all_goals first
    | (cases h; done)
    | (injection h with h; injection h with h1 h2; subst h1; back_close)

theorem ext_assign {p pJ pK : Pool} {n : Nat} {self other c' : Cont} {so : Bool}
    (hb : Back p pJ n) (hn : n ≤ p.length) (h : Cont.assign pJ self other so = .ok (pK, c')) :
    Back p pK n := by
  unfold Cont.assign at h
  split at h
  · injection h with h; injection h with h1 h2; subst h1; exact hb
  · split at h
    · cases h
    · split at h
      · cases h
      · rename_i p0 hr
        have b0 := ext_releaseOwn hb hr
        split at h
        · cases h
        · rename_i p1 es h1
          have b1 := ext_shareOrConvert b0 hn h1
          split at h
          · cases h
          · rename_i p2 is h2
            have b2 := ext_shareOrConvert b1 hn h2
            injection h with h; injection h with e1 e2; subst e1; exact b2

theorem ext_cloneCross {p pJ pK : Pool} {n : Nat} {self other c' : Cont} {mode : Nat}
    (hb : Back p pJ n) (hn : n ≤ p.length) (h : Cont.cloneCross pJ self other mode = .ok (pK, c')) :
    Back p pK n := by
  unfold Cont.cloneCross at h
  dsimp only at h
  split at h
  · cases h
  · rename_i p1 t1 ha
    have b1 := ext_assign hb hn ha
    split at h
    · cases h
    · rename_i p2 s hc
      have b2 := ext_cloneFrom b1 hn hc
      split at h
      · cases h
      · rename_i p3 hr
        injection h with h; injection h with e1 e2; subst e1
        exact ext_releaseOwn b2 hr

theorem ext_convertFrom {p pJ pK : Pool} {n : Nat} {self other c' : Cont} {so : Bool}
    (hb : Back p pJ n) (hn : n ≤ p.length) (h : Cont.convertFrom pJ self other so = .ok (pK, c')) :
    Back p pK n := by
  unfold Cont.convertFrom at h
  split at h
  · unfold Cont.svConvert at h
    split at h
    · exact ext_cloneFrom hb hn h
    · exact ext_cloneCross hb hn h
  · exact ext_assign hb hn h

theorem ext_xconvFrom {p pJ pK : Pool} {n : Nat} {self other c' : Cont}
    (hb : Back p pJ n) (h : Cont.xconvFrom pJ self other = .ok (pK, c')) : Back p pK n := by
  unfold Cont.xconvFrom at h
  dsimp only at h
  repeat' (split at h)
  all_goals first
    | (cases h; done)
    | (injection h with h; injection h with h1 h2; subst h1; back_close)

theorem ext_moveAssign {p pJ pK : Pool} {n : Nat} {self other c1 c2 : Cont}
    (hb : Back p pJ n) (h : Cont.moveAssign pJ self other = .ok (pK, c1, c2)) : Back p pK n := by
  unfold Cont.moveAssign at h
  split at h
  · cases h
  · injection h with h; injection h with h1 h2; subst h1; back_close

theorem ext_clear {p pJ pK : Pool} {n : Nat} {c c' : Cont}
    (hb : Back p pJ n) (h : Cont.clear pJ c = .ok (pK, c')) : Back p pK n := by
  unfold Cont.clear at h
  split at h
  · cases h
  · injection h with h; injection h with h1 h2; subst h1; back_close

theorem ext_fromLayout {p pJ pK : Pool} {n : Nat} {old : Option Cont} {k d : Nat} {L : Layout} {fill : Int} {c' : Cont}
    (hb : Back p pJ n) (hn : n ≤ p.length) (h : Cont.fromLayout pJ old k d L fill = .ok (pK, c')) :
    Back p pK n := by
  unfold Cont.fromLayout at h
  split at h
  · cases h
  · rename_i p0 hpre
    have b0 : Back p p0 n := by
      unfold layoutPre at hpre
      repeat' (split at hpre)
      all_goals first
        | (cases hpre; done)
        | (injection hpre with e; subst e; exact hb)
        | exact ext_releaseAll hb hpre
    repeat' (split at h)
    all_goals first
      | (cases h; done)
      | (injection h with h; injection h with h1 h2; subst h1; back_close)

macro "back_close2" : tactic => `(tactic|
  repeat (first
    | assumption
    | exact Back.refl _ _
    | (refine ext_allocAll ?_ (by assumption) _ _)
    | (refine ext_alloc ?_ (by assumption) _ _ _)
    | (refine ext_incrAll ?_ (by assumption))
    | (refine ext_releaseOwn ?_ (by assumption))
    | (refine ext_releaseAll ?_ (by assumption))
    | (refine ext_incr ?_ (by assumption))
    | (refine ext_convertFrom ?_ (by assumption) (by assumption))
    | (refine ext_xconvFrom ?_ (by assumption))
    | (refine ext_moveAssign ?_ (by assumption))
    | (refine ext_clear ?_ (by assumption))
    | (refine ext_fromLayout ?_ (by assumption) (by assumption))))

/-- the operations that write array contents on purpose -/
def Op.writes : Op → Bool
  | .write .. => true | .format .. => true | .copy .. => true | _ => false

theorem step_back_clone {s s' : State} {a b mode : Nat} {fill : Int}
    (h : step s (.clone a b mode fill) = .ok s') : Back s.pool s'.pool s.pool.length := by
  have hn : s.pool.length ≤ s.pool.length := Nat.le_refl _
  unfold step at h
  simp only at h
  split at h
  · cases h
  · rename_i cb hb
    split at h
    · cases h
    · split at h
      · cases h
      · rename_i p1 c1 hr
        injection h with h; subst h
        have key : Back s.pool p1 s.pool.length ∧ CloneTable s.pool.length mode c1 cb := by
          split at hr
          · exact ⟨ext_cloneFrom (Back.refl _ _) hn hr, cloneTable_same hr rfl rfl⟩
          · split at hr
            · cases hr
            · split at hr
              · rename_i hty
                simp only [Bool.and_eq_true, decide_eq_true_eq] at hty
                exact ⟨ext_cloneFrom (Back.refl _ _) hn hr, cloneTable_same hr hty.1 hty.2⟩
              · exact ⟨ext_cloneCross (Back.refl _ _) hn hr, cloneTable_cross hr⟩
        obtain ⟨b1, _, ti, te⟩ := key
        simp only [State.setSlot]
        refine ext_fillArrs fill (ext_fillArrs fill b1 ?_) ?_
        · by_cases hm : mode = 4 ∨ mode = 1
          · have hm' : (decide (mode = 4) || decide (mode = 1)) = true := by simpa using hm
            simp only [hm', if_true]
            have hm0 : ¬ mode = 0 := by omega
            simp only [hm0, if_false] at te
            exact fresh_zip te
          · have hm' : (decide (mode = 4) || decide (mode = 1)) = false := by simpa using hm
            simp only [hm']
            intro x hx; simp at hx
        · by_cases hm : mode = 4
          · simp only [hm, if_true]
            simp only [hm, Or.inr, if_true] at ti
            exact fresh_zip ti
          · simp only [hm, if_false]
            intro x hx; simp at hx

/-- every operation that is not a deliberate write (write / format / copy) leaves the contents of every chunk that
    existed before and still exists afterwards unchanged -/
theorem step_back {s s' : State} {op : Op} (h : step s op = .ok s') (hw : op.writes = false) :
    Back s.pool s'.pool s.pool.length := by
  have hn : s.pool.length ≤ s.pool.length := Nat.le_refl _
  cases op with
  | clone a b mode fill => exact step_back_clone h
  | write a w j i v => cases hw
  | format a v => cases hw
  | copy a b full => cases hw
  | _ =>
    unfold step at h
    simp only at h
    repeat' (split at h)
    all_goals first
      | (cases h; done)
      | (injection h with h; subst h; (try simp only [State.setSlot, State.setLay]); back_close2; done)

/-- lifetime operations never change the contents of bystanders - sharing relatives included: every owning container
    in a slot the operation does not name keeps its slot and reads exactly the same values through every array -/
theorem bystander_contents {s s' : State} {op : Op} (hi : Inv s) (h : step s op = .ok s') (hw : op.writes = false)
    {c : Nat} {cc : Cont} (hc : c ∉ op.targets) (hsc : s.slot c = some cc) (hf : cc.foreign = false) :
    s'.slot c = some cc ∧ cc.obs s'.pool = cc.obs s.pool := by
  have hi' := inv_step hi h
  have hsc' : s'.slot c = some cc := by rw [step_frame h c hc]; exact hsc
  have hb := step_back h hw
  refine ⟨hsc', ?_⟩
  apply obs_congr
  intro q hq n
  cases q with
  | null => rfl
  | «at» id off =>
    have hm : Ptr.at id off ∈ cc.elems ++ cc.inds := hq
    obtain ⟨ch', hch'⟩ := owned_present hi' (mem_ownIds hsc' hf hm)
    obtain ⟨ch0, hch0⟩ := owned_present hi (mem_ownIds hsc hf hm)
    obtain ⟨ch, hch, hv⟩ := hb.2 id (get_lt hch0) ch' hch'
    unfold readArr
    simp only [hch', hch, hv]

/-- the same for ANY bystander, in particular a range view: it is enough that every chunk it points into has an owner
    before and after the operation (the view's owner survives) -/
theorem bystander_contents_view {s s' : State} {op : Op} (hi : Inv s) (h : step s op = .ok s') (hw : op.writes = false)
    {c : Nat} {cc : Cont} (hc : c ∉ op.targets) (hsc : s.slot c = some cc)
    (hlive : ∀ id off, Ptr.at id off ∈ cc.ptrs → id ∈ s.ownIds ∧ id ∈ s'.ownIds) :
    s'.slot c = some cc ∧ cc.obs s'.pool = cc.obs s.pool := by
  have hi' := inv_step hi h
  have hsc' : s'.slot c = some cc := by rw [step_frame h c hc]; exact hsc
  have hb := step_back h hw
  refine ⟨hsc', ?_⟩
  apply obs_congr
  intro q hq n
  cases q with
  | null => rfl
  | «at» id off =>
    obtain ⟨ho, ho'⟩ := hlive id off hq
    obtain ⟨ch', hch'⟩ := owned_present hi' ho'
    obtain ⟨ch0, hch0⟩ := owned_present hi ho
    obtain ⟨ch, hch, hv⟩ := hb.2 id (get_lt hch0) ch' hch'
    unfold readArr
    simp only [hch', hch, hv]

theorem readArr_copyArrs_other (l : List (Ptr × Ptr × Nat)) (p : Pool) (q : Ptr) (n : Nat)
    (h : ∀ x ∈ l, ∀ id o o', x.1 = .at id o → q ≠ .at id o') :
    readArr (copyArrs p l) q n = readArr p q n := by
  induction l generalizing p with
  | nil => rfl
  | cons x rest ih =>
    obtain ⟨d, src, m⟩ := x
    simp only [copyArrs]
    rw [ih _ (fun y hy => h y (List.mem_cons_of_mem _ hy))]
    split
    · rfl
    · exact readArr_writeArr_other p d _ q n (h (d, src, m) List.mem_cons_self)

theorem count_copyArrs (l : List (Ptr × Ptr × Nat)) (p : Pool) (j : Nat) : count (copyArrs p l) j = count p j := by
  induction l generalizing p with
  | nil => rfl
  | cons x rest ih =>
    obtain ⟨d, src, m⟩ := x
    simp only [copyArrs]
    rw [ih]
    split
    · rfl
    · exact count_writeArr p d _ j

/-- `a.copy(b, full)` writes IN PLACE: the target keeps its arrays (no rebinding, no counter changes), and the
    written values are visible exactly to the sharing relatives of the target - invisible to everybody else -/
theorem copy_in_place {s s' : State} {a b full : Nat} {ca : Cont} (h : step s (.copy a b full) = .ok s')
    (hsa : s.slot a = some ca) :
    (∃ ca', s'.slot a = some ca' ∧ ca'.elems = ca.elems ∧ ca'.inds = ca.inds ∧ ca'.foreign = ca.foreign) ∧
    (∀ j, count s'.pool j = count s.pool j) ∧
    (∀ c cc, c ≠ a → s.slot c = some cc → ¬ Shares s a c → s'.slot c = some cc ∧ cc.obs s'.pool = cc.obs s.pool) := by
  unfold step at h
  simp only [hsa] at h
  split at h
  · rename_i ca0 cb hsa0 hsb
    injection hsa0 with e; subst e
    split at h
    · cases h
    · split at h
      · injection h with h; subst h
        exact ⟨⟨ca, hsa, rfl, rfl, rfl⟩, fun _ => rfl, fun c cc _ hsc _ => ⟨hsc, rfl⟩⟩
      · split at h
        · cases h
        · split at h
          · cases h
          · injection h with h; subst h
            have ha := slot_lt hsa
            refine ⟨⟨_, slot_setSlot_self _ a _ ha, ?_, ?_, ?_⟩, ?_, ?_⟩
            · split <;> rfl
            · split <;> rfl
            · split <;> rfl
            · intro j
              show count (copyArrs (copyArrs s.pool _) _) j = count s.pool j
              rw [count_copyArrs, count_copyArrs]
            · intro c cc hca hsc hn
              refine ⟨by rw [slot_setSlot_ne _ a c _ (Ne.symm hca)]; exact hsc, ?_⟩
              apply obs_congr
              intro q hq n
              show readArr (copyArrs (copyArrs s.pool _) _) q n = readArr s.pool q n
              rw [readArr_copyArrs_other, readArr_copyArrs_other]
              · intro x hx id o o' e
                split at hx
                · have hm : x.1 ∈ ca.ptrs := List.mem_append.mpr (Or.inr (List.of_mem_zip hx).1)
                  exact not_shares_ne hsa hsc hn hm hq id o o' e
                · cases hx
              · intro x hx id o o' e
                have hm : x.1 ∈ ca.ptrs := List.mem_append.mpr (Or.inl (List.of_mem_zip hx).1)
                exact not_shares_ne hsa hsc hn hm hq id o o' e
  · cases h

theorem lay_setLay_self (s : State) (a : Nat) (x : Option Layout) (h : a < s.lays.length) :
    (s.setLay a x).lay a = x := by
  unfold State.setLay State.lay
  simp only
  rw [List.getElem?_set_self h]; rfl

/-- moving a layout (construction into a free slot or assignment onto a live layout) transfers the pointers without
    touching any counter of the moved arrays: the target holds exactly the source's arrays, the source holds nothing,
    the only pool change is the release of what the target held before (nothing for a move construction) -/
theorem step_lmove_table {s s' : State} {d src : Nat} {Ls : Layout} (h : step s (.lmove d src) = .ok s')
    (hLs : s.lay src = some Ls) (hne : d ≠ src) :
    s'.lay d = some Ls ∧ s'.lay src = some Ls.movedFrom ∧
    releaseAll s.pool (layoutInds (s.lay d)) = .ok s'.pool ∧ (s.lay d = none → s'.pool = s.pool) := by
  unfold step at h
  simp only [hLs] at h
  split at h
  · cases h
  · rename_i hc
    simp only [decide_eq_true_eq, Nat.not_le] at hc
    split at h
    · cases h
    · split at h
      · cases h
      · rename_i p1 hr
        injection h with h; subst h
        refine ⟨?_, ?_, hr, ?_⟩
        · rw [lay_setLay_ne _ src d _ (Ne.symm hne)]
          exact lay_setLay_self _ d _ hc
        · exact lay_setLay_self _ src _ (by rw [length_setLay]; exact lay_lt hLs)
        · intro hnone
          rw [hnone] at hr
          simp only [layoutInds, releaseAll] at hr
          injection hr with hr; exact hr.symm

end FeatModel.Pool
