import FeatModel.Model.MGRef
import FeatModel.Lemmas.C09Data
/-!
# C09: the model of FEAT's cycle computes the textbook operator `mgRef` (core Lean only)
-/
namespace FeatModel.MG

/-! ## the unit filter is a projection -/

theorem filt_aux_idem (idx : List Nat) (v : Vec) (k : Nat) :
    List.zipWith (fun i x => if idx.contains i then (0 : Rat) else x)
      (List.range' k (List.zipWith (fun i x => if idx.contains i then (0 : Rat) else x)
        (List.range' k v.length) v).length)
      (List.zipWith (fun i x => if idx.contains i then (0 : Rat) else x) (List.range' k v.length) v)
    = List.zipWith (fun i x => if idx.contains i then (0 : Rat) else x) (List.range' k v.length) v := by
  induction v generalizing k with
  | nil => rfl
  | cons b v ih =>
    have := ih (k + 1)
    simp only [List.length_cons, List.range'_succ, List.zipWith_cons_cons, List.length_zipWith,
      List.length_range', Nat.min_self] at this ⊢
    rw [this]
    congr 1
    split <;> simp [*]

theorem filt_idem (idx : List Nat) (v : Vec) : filt idx (filt idx v) = filt idx v := by
  unfold filt
  simp only [List.range_eq_range']
  exact filt_aux_idem idx v 0

/-! ## local steps against the textbook pieces -/

theorem rRes_rat (L : Level) (b x : Vec) : rRes ratOps (refLevel L) b x = defect L b x := rfl

theorem smoothDef_spec (L : Level) (i : Nat) (m : Mat) (tag : String) (r : LvVecs × List String)
    (h : r.1.defe = defect L r.1.rhs r.1.sol) :
    (smoothDef L i m tag r).1.rhs = r.1.rhs ∧
    (smoothDef L i m tag r).1.sol = rSmooth ratOps (refLevel L) (mulVec m) r.1.rhs r.1.sol ∧
    (smoothDef L i m tag r).1.defe = defect L r.1.rhs (smoothDef L i m tag r).1.sol := by
  refine ⟨rfl, ?_, rfl⟩
  show axpy 1 (filt L.fidx (mulVec m r.1.defe)) r.1.sol =
    axpy 1 (filt L.fidx (mulVec m (defect L r.1.rhs r.1.sol))) r.1.sol
  rw [h]

theorem peakTail_spec (L : Level) (i : Nat) (r0 : LvVecs × List String)
    (h0 : r0.1.defe = defect L r0.1.rhs r0.1.sol) :
    (peakTail L i r0).1.rhs = r0.1.rhs ∧
    (peakTail L i r0).1.sol = rPeak ratOps (refLevel L) r0.1.rhs r0.1.sol ∧
    (peakTail L i r0).1.defe = defect L r0.1.rhs (peakTail L i r0).1.sol := by
  unfold peakTail rPeak
  have e1 : (refLevel L).peak = L.peak.map mulVec := rfl
  have e2 : (refLevel L).pre = L.pre.map mulVec := rfl
  have e3 : (refLevel L).post = L.post.map mulVec := rfl
  rw [e1, e2, e3]
  cases L.peak with
  | some m => exact smoothDef_spec L i m _ r0 h0
  | none =>
    cases L.pre with
    | none =>
      cases L.post with
      | none => exact ⟨rfl, rfl, h0⟩
      | some m => exact smoothDef_spec L i m _ r0 h0
    | some m1 =>
      obtain ⟨a1, b1, c1⟩ := smoothDef_spec L i m1 s!"a{i}" r0 h0
      cases L.post with
      | none => exact ⟨a1, b1, c1⟩
      | some m =>
        obtain ⟨a, b, c⟩ := smoothDef_spec L i m s!"b{i}" (smoothDef L i m1 s!"a{i}" r0) (by rw [c1, a1])
        refine ⟨a.trans a1, ?_, ?_⟩
        · show (smoothDef L i m s!"b{i}" (smoothDef L i m1 s!"a{i}" r0)).1.sol = _
          rw [b, a1, b1]
          rfl
        · show (smoothDef L i m s!"b{i}" (smoothDef L i m1 s!"a{i}" r0)).1.defe = _
          rw [c, a1]

theorem peakLocal_spec (L : Level) (i : Nat) (v : LvVecs) :
    (peakLocal L i v).1.rhs = v.rhs ∧
    (peakLocal L i v).1.sol = rPeak ratOps (refLevel L) v.rhs v.sol ∧
    (peakLocal L i v).1.defe = defect L v.rhs (peakLocal L i v).1.sol :=
  peakTail_spec L i ({ v with defe := defect L v.rhs v.sol }, [s!"D{i}"]) rfl

/-- `prolLocal` against the textbook update `rStep` -/
theorem prolLocal_spec (cgc : Cgc) (L : Level) (i : Nat) (sm : Bool) (v : LvVecs) (xc : Vec) :
    (prolLocal cgc L i sm v xc).1.rhs = v.rhs ∧
    (prolLocal cgc L i sm v xc).1.sol =
      (match L.post, sm with
        | some m, true =>
          axpy 1 (mulVec m (rStep ratOps cgc (refLevel L) v.rhs v.defe v.sol (filt L.fidx (mulVec L.P xc))).2)
            (rStep ratOps cgc (refLevel L) v.rhs v.defe v.sol (filt L.fidx (mulVec L.P xc))).1
        | _, _ => (rStep ratOps cgc (refLevel L) v.rhs v.defe v.sol (filt L.fidx (mulVec L.P xc))).1) := by
  unfold prolLocal cgcStep postDefect rStep
  cases cgc <;> cases L.post <;> cases sm <;> exact ⟨rfl, rfl⟩

/-- initial guess / its defect after the (optional) pre-smoothing -/
def x0Of (L : Level) (b : Vec) : Vec :=
  match L.pre with
  | some m => mulVec m b
  | none => List.replicate L.n 0
def d0Of (L : Level) (b : Vec) : Vec :=
  match L.pre with
  | some m => defect L b (mulVec m b)
  | none => filt L.fidx b

theorem restLocal_true_spec (L : Level) (i : Nat) (v : LvVecs) :
    (restLocal L i true v).1.rhs = v.rhs ∧ (restLocal L i true v).1.sol = x0Of L v.rhs ∧
    (restLocal L i true v).1.defe = d0Of L v.rhs := by
  unfold restLocal preSmooth x0Of d0Of
  cases L.pre <;> exact ⟨rfl, rfl, rfl⟩

/-- normal form of the textbook level body at `Rat` -/
def bodyNF (cgc : Cgc) (L Lc : Level) (tw : Bool) (i1 i2 : Vec → Vec) (b : Vec) : Vec :=
  let r1 := rStep ratOps cgc (refLevel L) b (d0Of L b) (x0Of L b)
    (filt L.fidx (mulVec L.P (i1 (filt Lc.fidx (mulVec L.R (d0Of L b))))))
  let r2 := if tw then
      rStep ratOps cgc (refLevel L) b (defect L b (rPeak ratOps (refLevel L) b r1.1))
        (rPeak ratOps (refLevel L) b r1.1)
        (filt L.fidx (mulVec L.P (i2 (filt Lc.fidx (mulVec L.R (defect L b (rPeak ratOps (refLevel L) b r1.1)))))))
    else r1
  match L.post with
  | some m => axpy 1 (mulVec m r2.2) r2.1
  | none => r2.1

theorem mgBody_rat (cgc : Cgc) (L Lc : Level) (tw : Bool) (i1 i2 : Vec → Vec) (b : Vec) :
    mgBody ratOps cgc (refLevel L) (refLevel Lc) tw i1 i2 b = bodyNF cgc L Lc tw i1 i2 b := by
  unfold mgBody bodyNF rCorr x0Of d0Of
  have e2 : (refLevel L).pre = L.pre.map mulVec := rfl
  have e3 : (refLevel L).post = L.post.map mulVec := rfl
  rw [e2, e3]
  cases L.pre <;> cases L.post <;> cases tw <;> rfl

/-- V-type level: restrict with pre-smoothing, inner cycle, prolongate with post-smoothing -/
theorem local1 (cgc : Cgc) (L Lc : Level) (i : Nat) (i1 i2 : Vec → Vec) (v : LvVecs) :
    (prolLocal cgc L i true (restLocal L i true v).1
      (i1 (filt Lc.fidx (mulVec L.R (restLocal L i true v).1.defe)))).1.sol
      = mgBody ratOps cgc (refLevel L) (refLevel Lc) false i1 i2 v.rhs := by
  obtain ⟨a, b, c⟩ := restLocal_true_spec L i v
  rw [mgBody_rat, (prolLocal_spec cgc L i true _ _).2, a, b, c]
  unfold bodyNF
  cases L.post <;> rfl

/-- W-type level: two inner cycles separated by a peak smoothing step -/
theorem local2 (cgc : Cgc) (L Lc : Level) (i : Nat) (i1 i2 : Vec → Vec) (v : LvVecs)
    (v3 v5 : LvVecs)
    (h3 : v3 = (prolLocal cgc L i false (restLocal L i true v).1
      (i1 (filt Lc.fidx (mulVec L.R (restLocal L i true v).1.defe)))).1)
    (h5 : v5 = (restLocal L i false (peakLocal L i v3).1).1) :
    (prolLocal cgc L i true v5 (i2 (filt Lc.fidx (mulVec L.R v5.defe)))).1.sol
      = mgBody ratOps cgc (refLevel L) (refLevel Lc) true i1 i2 v.rhs := by
  obtain ⟨a, b, c⟩ := restLocal_true_spec L i v
  have h3r : v3.rhs = v.rhs := by rw [h3, (prolLocal_spec cgc L i false _ _).1, a]
  have h3s : v3.sol = (rStep ratOps cgc (refLevel L) v.rhs (d0Of L v.rhs) (x0Of L v.rhs)
      (filt L.fidx (mulVec L.P (i1 (filt Lc.fidx (mulVec L.R (d0Of L v.rhs))))))).1 := by
    rw [h3, (prolLocal_spec cgc L i false _ _).2, a, b, c]
    cases L.post <;> rfl
  obtain ⟨p1, p2, p3⟩ := peakLocal_spec L i v3
  have h5r : v5.rhs = v.rhs := by rw [h5]; show (peakLocal L i v3).1.rhs = _; rw [p1, h3r]
  have h5s : v5.sol = rPeak ratOps (refLevel L) v.rhs v3.sol := by
    rw [h5]; show (peakLocal L i v3).1.sol = _; rw [p2, h3r]
  have h5d : v5.defe = defect L v.rhs v5.sol := by
    rw [h5]
    show filt L.fidx (peakLocal L i v3).1.defe = defect L v.rhs (peakLocal L i v3).1.sol
    rw [p3, h3r]
    exact filt_idem _ _
  rw [mgBody_rat, (prolLocal_spec cgc L i true _ _).2, h5d, h5r, h5s, h3s]
  unfold bodyNF
  cases L.post <;> rfl

/-! ## visits compute the textbook operator -/

/-- the abstract hierarchy of a configuration -/
def refLv (cfg : Cfg) : Nat → RLevel Vec := fun l => refLevel (cfg.level l)

/-- a complete visit of level `l = crs - d` computes `mgRef k d` of the right hand side of that level, keeps the
    array size and does not touch finer levels -/
def VisitEq (cfg : Cfg) (k : RKind) (d l : Nat) (p : List Instr) : Prop :=
  ∀ s : St, cfg.crsLvl < s.lv.size →
    (exec (step cfg) p s).lv.size = s.lv.size ∧
    (∀ j, j < l → (exec (step cfg) p s).get j = s.get j) ∧
    ((exec (step cfg) p s).get l).sol = mgRef ratOps (refLv cfg) cfg.cgc cfg.crsLvl k d (s.get l).rhs

theorem mgRef_succ (cfg : Cfg) (k : RKind) (d l : Nat) (hl : l + 1 + d = cfg.crsLvl) (b : Vec) :
    mgRef ratOps (refLv cfg) cfg.cgc cfg.crsLvl k (d + 1) b =
      mgBody ratOps cfg.cgc (refLevel (cfg.level l)) (refLevel (cfg.level (l + 1))) k.twice
        (mgRef ratOps (refLv cfg) cfg.cgc cfg.crsLvl k.first d)
        (mgRef ratOps (refLv cfg) cfg.cgc cfg.crsLvl k.second d) b := by
  have e : cfg.crsLvl - (d + 1) = l := by omega
  simp only [mgRef, refLv, e]

theorem visitEq_coarse (cfg : Cfg) (k : RKind) : VisitEq cfg k 0 cfg.crsLvl [Instr.coarse] := by
  intro s hs
  refine ⟨stepCoarse_size cfg s, fun j hj => stepCoarse_get_other cfg j s (by omega), ?_⟩
  show ((stepCoarse cfg s).get cfg.crsLvl).sol = _
  rw [stepCoarse_get_self cfg s hs]
  cases k <;> (simp only [mgRef, mgCoarse, refLv, refLevel, coarseLocal]; cases (cfg.level cfg.crsLvl).crs <;> rfl)

theorem visitEq_wrap1 (cfg : Cfg) (k : RKind) (d l : Nat) (hl : l + 1 + d = cfg.crsLvl) (hk : k.twice = false)
    (a : List Instr) (ha : VisitEq cfg k.first d (l + 1) a) :
    VisitEq cfg k (d + 1) l ([Instr.rest l true] ++ a ++ [Instr.prol l true]) := by
  intro s hs
  have hl0 : l < s.lv.size := by omega
  have hl1 : l + 1 < s.lv.size := by omega
  have e : exec (step cfg) ([Instr.rest l true] ++ a ++ [Instr.prol l true]) s =
      stepProl cfg l true (exec (step cfg) a (stepRest cfg l true s)) := by
    rw [exec_append, exec_append]; rfl
  obtain ⟨a1, a2, a3⟩ := ha (stepRest cfg l true s) (by rw [stepRest_size]; exact hs)
  rw [e]
  refine ⟨?_, ?_, ?_⟩
  · rw [stepProl_size, a1, stepRest_size]
  · intro j hj
    rw [stepProl_get_other _ _ _ _ _ (by omega), a2 j (by omega), stepRest_get_other _ _ _ _ _ (by omega) (by omega)]
  · rw [stepProl_get_self _ _ _ _ (by rw [a1, stepRest_size]; exact hl0), a2 l (by omega), a3,
      stepRest_get_self _ _ _ _ hl0, stepRest_get_next _ _ _ _ hl1, mgRef_succ cfg k d l hl, hk]
    exact local1 cfg.cgc (cfg.level l) (cfg.level (l + 1)) l _ _ (s.get l)

theorem visitEq_wrap2 (cfg : Cfg) (k : RKind) (d l : Nat) (hl : l + 1 + d = cfg.crsLvl) (hk : k.twice = true)
    (a b : List Instr) (ha : VisitEq cfg k.first d (l + 1) a) (hb : VisitEq cfg k.second d (l + 1) b) :
    VisitEq cfg k (d + 1) l ([Instr.rest l true] ++ a ++ [Instr.prol l false, Instr.peak l, Instr.rest l false]
      ++ b ++ [Instr.prol l true]) := by
  intro s hs
  have hl0 : l < s.lv.size := by omega
  have hl1 : l + 1 < s.lv.size := by omega
  -- the intermediate states
  let s1 := stepRest cfg l true s
  let s2 := exec (step cfg) a s1
  let s3 := stepProl cfg l false s2
  let s4 := stepPeak cfg l s3
  let s5 := stepRest cfg l false s4
  let s6 := exec (step cfg) b s5
  have e : exec (step cfg) ([Instr.rest l true] ++ a ++ [Instr.prol l false, Instr.peak l, Instr.rest l false]
      ++ b ++ [Instr.prol l true]) s = stepProl cfg l true s6 := by
    rw [exec_append, exec_append, exec_append, exec_append]; rfl
  have z1 : s1.lv.size = s.lv.size := stepRest_size _ _ _ _
  obtain ⟨a1, a2, a3⟩ := ha s1 (by rw [z1]; exact hs)
  have z3 : s3.lv.size = s.lv.size := by show (stepProl cfg l false s2).lv.size = _; rw [stepProl_size, a1, z1]
  have z4 : s4.lv.size = s.lv.size := by show (stepPeak cfg l s3).lv.size = _; rw [stepPeak_size, z3]
  have z5 : s5.lv.size = s.lv.size := by show (stepRest cfg l false s4).lv.size = _; rw [stepRest_size, z4]
  obtain ⟨b1, b2, b3⟩ := hb s5 (by rw [z5]; exact hs)
  -- level `l` vectors along the way
  have g3 : s3.get l = (prolLocal cfg.cgc (cfg.level l) l false (restLocal (cfg.level l) l true (s.get l)).1
      (mgRef ratOps (refLv cfg) cfg.cgc cfg.crsLvl k.first d (filt (cfg.level (l + 1)).fidx
        (mulVec (cfg.level l).R (restLocal (cfg.level l) l true (s.get l)).1.defe)))).1 := by
    show (stepProl cfg l false s2).get l = _
    rw [stepProl_get_self _ _ _ _ (by rw [a1, z1]; exact hl0), a2 l (by omega), a3]
    show (prolLocal cfg.cgc (cfg.level l) l false ((stepRest cfg l true s).get l)
      (mgRef ratOps (refLv cfg) cfg.cgc cfg.crsLvl k.first d ((stepRest cfg l true s).get (l + 1)).rhs)).1 = _
    rw [stepRest_get_self _ _ _ _ hl0, stepRest_get_next _ _ _ _ hl1]
  have g5 : s5.get l = (restLocal (cfg.level l) l false (peakLocal (cfg.level l) l (s3.get l)).1).1 := by
    show (stepRest cfg l false s4).get l = _
    rw [stepRest_get_self _ _ _ _ (by rw [z4]; exact hl0)]
    show (restLocal (cfg.level l) l false ((stepPeak cfg l s3).get l)).1 = _
    rw [stepPeak_get_self _ _ _ (by rw [z3]; exact hl0)]
  have g5n : (s5.get (l + 1)).rhs = filt (cfg.level (l + 1)).fidx (mulVec (cfg.level l).R (s5.get l).defe) := by
    show ((stepRest cfg l false s4).get (l + 1)).rhs = _
    rw [stepRest_get_next _ _ _ _ (by rw [z4]; exact hl1)]
    show _ = filt (cfg.level (l + 1)).fidx (mulVec (cfg.level l).R ((stepRest cfg l false s4).get l).defe)
    rw [stepRest_get_self _ _ _ _ (by rw [z4]; exact hl0)]
  rw [e]
  refine ⟨?_, ?_, ?_⟩
  · rw [stepProl_size, b1, z5]
  · intro j hj
    rw [stepProl_get_other _ _ _ _ _ (by omega), b2 j (by omega)]
    show (stepRest cfg l false s4).get j = _
    rw [stepRest_get_other _ _ _ _ _ (by omega) (by omega)]
    show (stepPeak cfg l s3).get j = _
    rw [stepPeak_get_other _ _ _ _ (by omega)]
    show (stepProl cfg l false s2).get j = _
    rw [stepProl_get_other _ _ _ _ _ (by omega), a2 j (by omega)]
    exact stepRest_get_other _ _ _ _ _ (by omega) (by omega)
  · rw [stepProl_get_self _ _ _ _ (by rw [b1, z5]; exact hl0), b2 l (by omega), b3, g5n,
      mgRef_succ cfg k d l hl, hk]
    exact local2 cfg.cgc (cfg.level l) (cfg.level (l + 1)) l _ _ (s.get l) (s3.get l) (s5.get l) g3 g5

theorem visitEq_recV (cfg : Cfg) (d : Nat) (hd : d ≤ cfg.crsLvl) :
    VisitEq cfg .V d (cfg.crsLvl - d) (recV cfg.crsLvl d) := by
  induction d with
  | zero => exact visitEq_coarse cfg .V
  | succ d ih =>
    have e : cfg.crsLvl - d = cfg.crsLvl - (d + 1) + 1 := by omega
    have ih' := ih (by omega)
    rw [e] at ih'
    exact visitEq_wrap1 cfg .V d _ (by omega) rfl _ ih'

theorem visitEq_recW (cfg : Cfg) (d : Nat) (hd : d ≤ cfg.crsLvl) :
    VisitEq cfg .W d (cfg.crsLvl - d) (recW cfg.crsLvl d) := by
  induction d with
  | zero => exact visitEq_coarse cfg .W
  | succ d ih =>
    have e : cfg.crsLvl - d = cfg.crsLvl - (d + 1) + 1 := by omega
    have ih' := ih (by omega)
    rw [e] at ih'
    exact visitEq_wrap2 cfg .W d _ (by omega) rfl _ _ ih' ih'

theorem visitEq_recFin (cfg : Cfg) (d : Nat) (hd : d ≤ cfg.crsLvl) :
    VisitEq cfg .Fi d (cfg.crsLvl - d) (recFin cfg.crsLvl d) := by
  induction d with
  | zero => exact visitEq_coarse cfg .Fi
  | succ d ih =>
    have e : cfg.crsLvl - d = cfg.crsLvl - (d + 1) + 1 := by omega
    have ih' := ih (by omega)
    have hv := visitEq_recV cfg d (by omega)
    rw [e] at ih' hv
    exact visitEq_wrap2 cfg .Fi d _ (by omega) rfl _ _ ih' hv

theorem visitEq_recF (cfg : Cfg) (d : Nat) (hd : d ≤ cfg.crsLvl) :
    VisitEq cfg .F d (cfg.crsLvl - d) (recF cfg.crsLvl d) := by
  cases d with
  | zero => exact visitEq_coarse cfg .F
  | succ d =>
    have e : cfg.crsLvl - d = cfg.crsLvl - (d + 1) + 1 := by omega
    have hf := visitEq_recFin cfg d (by omega)
    rw [e] at hf
    exact visitEq_wrap1 cfg .F d _ (by omega) rfl _ hf

theorem visitEq_cycleRec (cfg : Cfg) (k : Cycle) (top : Nat) (h : top ≤ cfg.crsLvl) :
    VisitEq cfg (kindOf k) (cfg.crsLvl - top) top (cycleRec k cfg.crsLvl top) := by
  have e : cfg.crsLvl - (cfg.crsLvl - top) = top := by omega
  cases k with
  | V => have := visitEq_recV cfg (cfg.crsLvl - top) (by omega); rwa [e] at this
  | F => have := visitEq_recF cfg (cfg.crsLvl - top) (by omega); rwa [e] at this
  | W => have := visitEq_recW cfg (cfg.crsLvl - top) (by omega); rwa [e] at this

/-! ## sizes and untouched levels -/

theorem step_size (cfg : Cfg) (ins : Instr) (s : St) : (step cfg ins s).lv.size = s.lv.size := by
  cases ins with
  | rest i sm => exact stepRest_size cfg i sm s
  | prol i sm => exact stepProl_size cfg i sm s
  | peak i => exact stepPeak_size cfg i s
  | coarse => exact stepCoarse_size cfg s

theorem exec_size (cfg : Cfg) (p : List Instr) (s : St) : (exec (step cfg) p s).lv.size = s.lv.size := by
  induction p generalizing s with
  | nil => rfl
  | cons i p ih =>
    show (exec (step cfg) p (step cfg i s)).lv.size = _
    rw [ih, step_size]

/-- one application never changes the number of level-vector records of the object -/
theorem applyOnce_size (levels : Array Level) (k : Cycle) (cgc : Cgc) (top crs : Nat) (d : Vec) (o : Obj) :
    (applyOnce levels k cgc top crs d o).2.lv.size = o.lv.size := by
  unfold applyOnce
  rcases cycleIter k crs top o.counters with ⟨prog, cnt⟩
  cases prog with
  | none => rfl
  | some p =>
    show (exec (step _) p (startState o top d)).lv.size = _
    rw [exec_size, startState_size]

/-- the range check of the constructor / `set_levels`: an accepted range satisfies `top ≤ crs < size_virtual` -/
theorem levelRange_spec (nl : Nat) (top crs : Int) (t c : Nat) (h : levelRange nl top crs = some (t, c)) :
    t ≤ c ∧ c < nl := by
  unfold levelRange at h
  simp only at h
  by_cases hc : crs ≥ 0
  · simp only [if_pos hc] at h
    by_cases hr : 0 ≤ crs ∧ crs < ↑nl ∧ 0 ≤ top ∧ top ≤ crs
    · rw [if_pos hr] at h
      simp only [Option.some.injEq, Prod.mk.injEq] at h
      omega
    · rw [if_neg hr] at h
      cases h
  · simp only [if_neg hc] at h
    by_cases hr : 0 ≤ (↑nl + crs : Int) ∧ (↑nl + crs : Int) < ↑nl ∧ 0 ≤ top ∧ top ≤ ↑nl + crs
    · rw [if_pos hr] at h
      simp only [Option.some.injEq, Prod.mk.injEq] at h
      omega
    · rw [if_neg hr] at h
      cases h

/-- levels finer than the top level are not touched by the recursion program -/
theorem cycleRec_frame (levels : Array Level) (k : Cycle) (cgc : Cgc) (top crs : Nat) (h : top ≤ crs)
    (s : St) (hs : crs < s.lv.size) (j : Nat) (hj : j < top) :
    (exec (step { levels := levels, cgc := cgc, crsLvl := crs }) (cycleRec k crs top) s).get j = s.get j :=
  (visitEq_cycleRec { levels := levels, cgc := cgc, crsLvl := crs } k top h s hs).2.1 j hj

/-- the result vector of the recursion program on the start state is the textbook operator applied to the defect -/
theorem runProg_eq_applyRef (levels : Array Level) (k : Cycle) (cgc : Cgc) (top crs : Nat) (h : top ≤ crs)
    (d : Vec) (o : Obj) (ho : crs < o.lv.size) (cnt : Nat → Nat) :
    ∃ log, (runProg { levels := levels, cgc := cgc, crsLvl := crs } top (cycleRec k crs top)
      (startState o top d) cnt).1 = .ok log (applyRef levels k cgc top crs d) := by
  have hv := visitEq_cycleRec { levels := levels, cgc := cgc, crsLvl := crs } k top h (startState o top d)
    (by rw [startState_size]; exact ho)
  have hv3 : ((exec (step { levels := levels, cgc := cgc, crsLvl := crs }) (cycleRec k crs top)
      (startState o top d)).get top).sol =
      mgRef ratOps (refLv { levels := levels, cgc := cgc, crsLvl := crs }) cgc crs (kindOf k) (crs - top)
        ((startState o top d).get top).rhs := hv.2.2
  refine ⟨(exec (step { levels := levels, cgc := cgc, crsLvl := crs }) (cycleRec k crs top)
      (startState o top d)).log.toList, ?_⟩
  show Outcome.ok _ ((exec (step { levels := levels, cgc := cgc, crsLvl := crs }) (cycleRec k crs top)
      (startState o top d)).get top).sol = _
  rw [hv3, startState_get_top o top d (by omega)]
  rfl

end FeatModel.MG
