import FeatModel.Lemmas.C01Csr
import FeatModel.Lemmas.C06Unit
import FeatModel.Model.LA.FilterMat
/-! helper lemmas for the C06 matrix theorems: `setRange`, the row loop of `UnitFilter::filter_mat` on a
well-formed CSR matrix, and the dense meaning of the filtered rows -/
open Finset
namespace FeatModel.LA.Filter
open FeatModel.LA

section SetRange
variable {α : Type}

theorem size_foldl_set (g : Nat → α) : ∀ (n s : Nat) (v : Array α),
    ((List.range' s n).foldl (fun v j => v.setIfInBounds j (g j)) v).size = v.size
  | 0, _, _ => by simp
  | n + 1, s, v => by
    rw [List.range'_succ, List.foldl_cons, size_foldl_set g n (s + 1), Array.size_setIfInBounds]

theorem getD_foldl_set (g : Nat → α) (k : Nat) (d : α) : ∀ (n s : Nat) (v : Array α),
    ((List.range' s n).foldl (fun v j => v.setIfInBounds j (g j)) v).getD k d =
      if s ≤ k ∧ k < s + n ∧ k < v.size then g k else v.getD k d
  | 0, s, v => by
    have : ¬ (s ≤ k ∧ k < s + 0 ∧ k < v.size) := by omega
    rw [if_neg this]
    rfl
  | n + 1, s, v => by
    rw [List.range'_succ, List.foldl_cons, getD_foldl_set g k d n (s + 1), Array.size_setIfInBounds]
    by_cases hks : k = s
    · subst hks
      have h1 : ¬ (k + 1 ≤ k ∧ k < k + 1 + n ∧ k < v.size) := by omega
      simp only [h1, if_false]
      by_cases hl : k < v.size
      · have h2 : k ≤ k ∧ k < k + (n + 1) ∧ k < v.size := by omega
        simp only [h2, and_self, if_true]
        simp [Array.getD_eq_getD_getElem?, Array.getElem?_setIfInBounds, hl]
      · have h2 : ¬ (k ≤ k ∧ k < k + (n + 1) ∧ k < v.size) := by omega
        simp only [h2, if_false]
        simp [Array.getD_eq_getD_getElem?, Array.getElem?_setIfInBounds, hl]
    · have hne : ¬ s = k := fun h => hks h.symm
      have e1 : (v.setIfInBounds s (g s)).getD k d = v.getD k d := by
        simp [Array.getD_eq_getD_getElem?, Array.getElem?_setIfInBounds, hne]
      rw [e1]
      by_cases h : s + 1 ≤ k ∧ k < s + 1 + n ∧ k < v.size
      · have h2 : s ≤ k ∧ k < s + (n + 1) ∧ k < v.size := by omega
        simp only [h, h2, and_self, if_true]
      · have h2 : ¬ (s ≤ k ∧ k < s + (n + 1) ∧ k < v.size) := by omega
        simp only [h, h2, if_false]

theorem size_setRange (s e : Nat) (g : Nat → α) (v : Array α) : (setRange s e g v).size = v.size := by
  unfold setRange foldRange
  exact size_foldl_set g _ _ v

theorem getD_setRange (s e : Nat) (g : Nat → α) (v : Array α) (k : Nat) (d : α) :
    (setRange s e g v).getD k d = if s ≤ k ∧ k < e ∧ k < v.size then g k else v.getD k d := by
  unfold setRange foldRange
  rw [getD_foldl_set]
  by_cases h : s ≤ k ∧ k < e ∧ k < v.size
  · have h2 : s ≤ k ∧ k < s + (e - s) ∧ k < v.size := by omega
    simp only [h, h2, and_self, if_true]
  · have h2 : ¬ (s ≤ k ∧ k < s + (e - s) ∧ k < v.size) := by omega
    simp only [h, h2, if_false]

end SetRange

section Rows
variable {α : Type}

/-- the rows of a well-formed CSR matrix occupy disjoint position ranges -/
theorem rows_disjoint {A : Csr α} (h : A.WF) {i i' : Nat} (hi : i < A.rows) (hi' : i' < A.rows) (hne : i' ≠ i) {k : Nat}
    (hk : A.rowBegin i ≤ k ∧ k < A.rowEnd i) : ¬ (A.rowBegin i' ≤ k ∧ k < A.rowEnd i') := by
  unfold Csr.rowBegin Csr.rowEnd at *
  rcases Nat.lt_or_gt_of_ne hne with hlt | hgt
  · have := Csr.rowPtr_mono h i (i' + 1) (by omega) (by omega)
    omega
  · have := Csr.rowPtr_mono h i' (i + 1) (by omega) (by omega)
    omega

theorem size_rewriteRows (A : Csr α) (es : List (Nat × α)) (g : Nat × α → Nat → α) (v : Array α) :
    (rewriteRows A es g v).size = v.size := by
  induction es generalizing v with
  | nil => rfl
  | cons e t ih =>
    simp only [rewriteRows, List.foldl_cons] at ih ⊢
    rw [ih, size_setRange]

/-- the entry that rewrites row `i` last -/
def lastEntry (es : List (Nat × α)) (i : Nat) : Option (Nat × α) := lastWrite (es.map fun e => (e.1, e)) i

theorem lastEntry_cons (e : Nat × α) (t : List (Nat × α)) (i : Nat) :
    lastEntry (e :: t) i = match lastEntry t i with
      | some x => some x
      | none => if e.1 = i then some e else none := by
  simp only [lastEntry, List.map_cons, lastWrite_cons]
  cases lastWrite (List.map (fun e => (e.1, e)) t) i <;> rfl

theorem lastEntry_some {es : List (Nat × α)} {i : Nat} {e : Nat × α} (h : lastEntry es i = some e) :
    e ∈ es ∧ e.1 = i := by
  have := lastWrite_isSome_mem _ i e h
  obtain ⟨e', he', heq⟩ := List.mem_map.mp this
  have h1 : e'.1 = i := congrArg Prod.fst heq
  have h2 : e' = e := congrArg Prod.snd heq
  subst h2
  exact ⟨he', h1⟩

theorem lastEntry_none {es : List (Nat × α)} {i : Nat} (h : lastEntry es i = none) : ∀ e ∈ es, e.1 ≠ i := by
  intro e he
  have := lastWrite_eq_none_iff_aux _ i h (e.1, e) (List.mem_map.mpr ⟨e, he, rfl⟩)
  exact this

/-- the row loop, read position-wise on a well-formed matrix: a stored position of row `i` holds what the last
    entry for row `i` wrote there, or its old value -/
theorem getD_rewriteRows {A : Csr α} (h : A.WF) (es : List (Nat × α)) (hes : ∀ e ∈ es, e.1 < A.rows)
    (g : Nat × α → Nat → α) (v : Array α) {i k : Nat} (hi : i < A.rows)
    (hk : A.rowBegin i ≤ k ∧ k < A.rowEnd i) (hkv : k < v.size) (d : α) :
    (rewriteRows A es g v).getD k d = match lastEntry es i with
      | some e => g e k
      | none => v.getD k d := by
  induction es generalizing v with
  | nil => rfl
  | cons e t ih =>
    have ht : ∀ e ∈ t, e.1 < A.rows := fun e' he' => hes e' (List.mem_cons_of_mem _ he')
    have ih' := ih ht (setRange (A.rowBegin e.1) (A.rowEnd e.1) (g e) v) (by rw [size_setRange]; exact hkv)
    simp only [rewriteRows, List.foldl_cons] at ih' ⊢
    rw [ih', lastEntry_cons]
    cases hl : lastEntry t i with
    | some x => rfl
    | none =>
      simp only
      rw [getD_setRange]
      by_cases he : e.1 = i
      · have : A.rowBegin e.1 ≤ k ∧ k < A.rowEnd e.1 ∧ k < v.size := by rw [he]; exact ⟨hk.1, hk.2, hkv⟩
        rw [if_pos this, if_pos he]
      · have hd := rows_disjoint h hi (hes e List.mem_cons_self) he hk
        have : ¬ (A.rowBegin e.1 ≤ k ∧ k < A.rowEnd e.1 ∧ k < v.size) := fun hh => hd ⟨hh.1, hh.2.1⟩
        rw [if_neg this, if_neg he]

end Rows

section Dense
variable {α : Type} [CommSemiring α]

theorem entry_with_val (A : Csr α) (w : Array α) (i j : Nat) :
    ({ A with val := w } : Csr α).entry i j =
      ∑ k ∈ Ico (A.rowBegin i) (A.rowEnd i), (if A.colInd.getD k A.cols = j then w.getD k 0 else 0) := by
  rw [Csr.entry_eq_sum_Ico]
  rfl

theorem rowSum_with_val (A : Csr α) (w x : Array α) (i : Nat) :
    ({ A with val := w } : Csr α).rowSum x i =
      ∑ k ∈ Ico (A.rowBegin i) (A.rowEnd i), w.getD k 0 * x.getD (A.colInd.getD k 0) 0 := by
  rw [Csr.rowSum_eq_sum_Ico]
  rfl

/-- positions of row `i` are inside the arrays -/
theorem row_pos_lt {A : Csr α} (h : A.WF) {i k : Nat} (hi : i < A.rows) (hk : k < A.rowEnd i) :
    k < A.colInd.size ∧ k < A.val.size := by
  have := Csr.rowEnd_le h hi
  have hc := h.colSize
  omega

/-- `filter_mat`: the value stored at a position of a constrained row -/
theorem matVals_getD_constrained {A : Csr α} (h : A.WF) (es : List (Nat × α)) (hes : ∀ e ∈ es, e.1 < A.rows)
    {i k : Nat} (hi : i < A.rows) (hk : A.rowBegin i ≤ k ∧ k < A.rowEnd i) {e : Nat × α}
    (hl : lastEntry es i = some e) :
    (UnitF.matVals A es).getD k 0 = if A.colInd.getD k 0 = i then 1 else 0 := by
  unfold UnitF.matVals
  rw [getD_rewriteRows h es hes _ A.val hi hk (row_pos_lt h hi hk.2).2 0, hl]
  simp only [(lastEntry_some hl).2]

/-- a position of a row that no entry constrains keeps its value (all three matrix members) -/
theorem rewriteRows_getD_free {A : Csr α} (h : A.WF) (es : List (Nat × α)) (hes : ∀ e ∈ es, e.1 < A.rows)
    (g : Nat × α → Nat → α) {i k : Nat} (hi : i < A.rows) (hk : A.rowBegin i ≤ k ∧ k < A.rowEnd i)
    (hfree : ∀ e ∈ es, e.1 ≠ i) :
    (rewriteRows A es g A.val).getD k 0 = A.val.getD k 0 := by
  have hl : lastEntry es i = none := by
    unfold lastEntry
    apply lastWrite_eq_none
    intro e' he'
    obtain ⟨e, he, rfl⟩ := List.mem_map.mp he'
    exact hfree e he
  rw [getD_rewriteRows h es hes g A.val hi hk (row_pos_lt h hi hk.2).2 0, hl]

theorem sum_unit_row (s e : Nat) (c : Nat → Nat) (i j : Nat) (k0 : Nat) (hk0 : s ≤ k0 ∧ k0 < e) (hc0 : c k0 = i)
    (huniq : ∀ k, s ≤ k → k < e → c k = i → k = k0) :
    ∑ k ∈ Ico s e, (if c k = j then (if c k = i then (1 : α) else 0) else 0) = if j = i then 1 else 0 := by
  rw [Finset.sum_eq_single k0]
  · rw [hc0]
    by_cases hji : j = i
    · simp [hji]
    · have : ¬ i = j := fun hh => hji hh.symm
      simp [hji, this]
  · intro k hk hne
    rw [Finset.mem_Ico] at hk
    by_cases hci : c k = i
    · exact absurd (huniq k hk.1 hk.2 hci) hne
    · simp [hci]
  · intro hn
    exact absurd (Finset.mem_Ico.mpr hk0) hn

theorem sum_zero_row (s e : Nat) (c : Nat → Nat) (i j : Nat) (hno : ∀ k, s ≤ k → k < e → c k ≠ i) :
    ∑ k ∈ Ico s e, (if c k = j then (if c k = i then (1 : α) else 0) else 0) = 0 := by
  apply Finset.sum_eq_zero
  intro k hk
  rw [Finset.mem_Ico] at hk
  simp [hno k hk.1 hk.2]

theorem sum_unit_row_apply (s e : Nat) (c : Nat → Nat) (i : Nat) (x : Nat → α) (k0 : Nat) (hk0 : s ≤ k0 ∧ k0 < e)
    (hc0 : c k0 = i) (huniq : ∀ k, s ≤ k → k < e → c k = i → k = k0) :
    ∑ k ∈ Ico s e, (if c k = i then (1 : α) else 0) * x (c k) = x i := by
  rw [Finset.sum_eq_single k0]
  · simp [hc0]
  · intro k hk hne
    rw [Finset.mem_Ico] at hk
    by_cases hci : c k = i
    · exact absurd (huniq k hk.1 hk.2 hci) hne
    · simp [hci]
  · intro hn
    exact absurd (Finset.mem_Ico.mpr hk0) hn

theorem filterMat_some (f : UnitF α) (A B : Csr α) (h : f.filterMat A = some B) (hne : f.es ≠ []) :
    B = { A with val := UnitF.matVals A f.es } := by
  unfold UnitF.filterMat at h
  have : f.es.isEmpty = false := by cases hh : f.es <;> simp_all
  simp only [this, Bool.false_eq_true, if_false] at h
  split at h
  · simp at h
  · simp only [Option.some.injEq] at h
    exact h.symm

theorem lastEntry_of_mem {es : List (Nat × α)} {i : Nat} {x : α} (hm : (i, x) ∈ es) :
    ∃ e, lastEntry es i = some e := by
  cases hl : lastEntry es i with
  | some e => exact ⟨e, rfl⟩
  | none => exact absurd rfl (lastEntry_none hl (i, x) hm)

/-- the filtered value array, seen through the dense meaning of a constrained row -/
theorem entry_constrained {A : Csr α} (h : A.WF) (es : List (Nat × α)) (hes : ∀ e ∈ es, e.1 < A.rows)
    {i : Nat} (hi : i < A.rows) {e : Nat × α} (hl : lastEntry es i = some e) (j : Nat) :
    ({ A with val := UnitF.matVals A es } : Csr α).entry i j =
      ∑ k ∈ Ico (A.rowBegin i) (A.rowEnd i),
        (if A.colInd.getD k 0 = j then (if A.colInd.getD k 0 = i then (1 : α) else 0) else 0) := by
  rw [entry_with_val]
  apply Finset.sum_congr rfl
  intro k hk
  rw [Finset.mem_Ico] at hk
  rw [Csr.getD_eq_of_lt _ (row_pos_lt h hi hk.2).1 A.cols 0, matVals_getD_constrained h es hes hi hk hl]

theorem filterOffdiag_some (f : UnitF α) (A B : Csr α) (h : f.filterOffdiagRowMat A = some B) (hne : f.es ≠ []) :
    B = { A with val := UnitF.offdiagVals A f.es } := by
  unfold UnitF.filterOffdiagRowMat at h
  have : f.es.isEmpty = false := by cases hh : f.es <;> simp_all
  simp only [this, Bool.false_eq_true, if_false] at h
  split at h
  · simp at h
  · simp only [Option.some.injEq] at h
    exact h.symm

theorem filterWeak_some (f : UnitF α) (A B : Csr α) (valM : Array α) (h : f.filterWeakMatrixRows A valM = some B)
    (hne : f.es ≠ []) : B = { A with val := UnitF.weakVals A valM f.es } := by
  unfold UnitF.filterWeakMatrixRows at h
  have : f.es.isEmpty = false := by cases hh : f.es <;> simp_all
  simp only [this, Bool.false_eq_true, if_false] at h
  split at h
  · simp at h
  · simp only [Option.some.injEq] at h
    exact h.symm

/-- any of the three row loops at a position of a constrained row -/
theorem rewriteRows_getD_constrained {A : Csr α} (h : A.WF) (es : List (Nat × α)) (hes : ∀ e ∈ es, e.1 < A.rows)
    (g : Nat × α → Nat → α) {i k : Nat} (hi : i < A.rows) (hk : A.rowBegin i ≤ k ∧ k < A.rowEnd i) {e : Nat × α}
    (hl : lastEntry es i = some e) : (rewriteRows A es g A.val).getD k 0 = g e k := by
  rw [getD_rewriteRows h es hes g A.val hi hk (row_pos_lt h hi hk.2).2 0, hl]

/-- with pairwise different row indices the last entry for a row is the entry itself -/
theorem lastEntry_of_mem_nodup {es : List (Nat × α)} (hn : (es.map Prod.fst).Nodup) {e : Nat × α} (he : e ∈ es) :
    lastEntry es e.1 = some e := by
  unfold lastEntry
  apply lastWrite_of_mem_nodup
  · rw [List.map_map]
    exact hn
  · exact List.mem_map.mpr ⟨e, he, rfl⟩

end Dense

end FeatModel.LA.Filter
