import FeatModel.Lemmas.C20Table
/-! C20 helper lemmas, part 13: the sharing table at the level of `step` (which container slots alias afterwards) -/
namespace FeatModel.Pool

theorem slot_setSlot_self (s : State) (a : Nat) (x : Option Cont) (h : a < s.slots.length) :
    (s.setSlot a x).slot a = x := by
  unfold State.setSlot State.slot
  simp only
  rw [List.getElem?_set_self h]; rfl

theorem cloneFrom_types {p p' : Pool} {self other c' : Cont} {so : Bool} {mode : Nat}
    (h : Cont.cloneFrom p self other so mode = .ok (p', c')) : c'.dt = self.dt ∧ c'.it = self.it := by
  unfold Cont.cloneFrom at h
  split at h
  · cases h
  · split at h
    · cases h
    · split at h
      · cases h
      · dsimp only at h
        split at h
        · injection h with h; injection h with h1 h2; subst h2; exact ⟨rfl, rfl⟩
        · split at h
          · cases h
          · split at h
            · split at h
              · cases h
              · injection h with h; injection h with h1 h2; subst h2; exact ⟨rfl, rfl⟩
            · injection h with h; injection h with h1 h2; subst h2; exact ⟨rfl, rfl⟩

theorem assign_types {p p' : Pool} {self other c' : Cont} {so : Bool}
    (h : Cont.assign p self other so = .ok (p', c')) : c'.dt = self.dt ∧ c'.it = self.it := by
  unfold Cont.assign at h
  split at h
  · injection h with h; injection h with h1 h2; subst h2; exact ⟨rfl, rfl⟩
  · split at h
    · cases h
    · split at h
      · cases h
      · split at h
        · cases h
        · split at h
          · cases h
          · injection h with h; injection h with h1 h2; subst h2; exact ⟨rfl, rfl⟩

theorem cloneCross_types {p p' : Pool} {self other c' : Cont} {mode : Nat}
    (h : Cont.cloneCross p self other mode = .ok (p', c')) : c'.dt = self.dt ∧ c'.it = self.it := by
  unfold Cont.cloneCross at h
  dsimp only at h
  split at h
  · cases h
  · split at h
    · cases h
    · rename_i p2 s hc
      split at h
      · cases h
      · injection h with h; injection h with e1 e2; subst e2
        exact cloneFrom_types hc

/-- the clone row of the sharing table, for same-type and cross-type clones alike: an index array of the result is
    the source's iff the mode shares index arrays (Shallow/Layout/Weak) and the index types agree; a data array is the
    source's iff the mode is Shallow and the data types agree; every other array is a fresh chunk -/
def CloneTable (n : Nat) (mode : Nat) (c' cb : Cont) : Prop :=
  c'.foreign = false ∧
  (if mode = 3 ∨ mode = 4 then FreshL n c'.inds
   else if c'.it = cb.it then c'.inds = cb.inds else FreshL n c'.inds) ∧
  (if mode = 0 then (if c'.dt = cb.dt then c'.elems = cb.elems else FreshL n c'.elems)
   else FreshL n c'.elems)

theorem cloneTable_same {p p' : Pool} {self other c' : Cont} {so : Bool} {mode : Nat}
    (h : Cont.cloneFrom p self other so mode = .ok (p', c')) (hd : self.dt = other.dt) (hi : self.it = other.it) :
    CloneTable p.length mode c' other := by
  obtain ⟨hf, _, _, _, ci, ce⟩ := sharing_cloneFrom h
  obtain ⟨td, ti⟩ := cloneFrom_types h
  refine ⟨hf, ?_, ?_⟩
  · by_cases hm : mode = 3 ∨ mode = 4
    · simp only [hm, if_true] at ci ⊢; exact ci
    · simp only [hm, if_false] at ci ⊢
      simp only [ti, hi, if_true]; exact ci.1
  · by_cases hm : mode = 0
    · simp only [hm, if_true] at ce ⊢
      simp only [td, hd, if_true]; exact ce.1
    · simp only [hm, if_false] at ce ⊢; exact ce

theorem cloneTable_cross {p p' : Pool} {self other c' : Cont} {mode : Nat}
    (h : Cont.cloneCross p self other mode = .ok (p', c')) : CloneTable p.length mode c' other := by
  obtain ⟨hf, _, ci, ce⟩ := sharing_cloneCross h
  obtain ⟨td, ti⟩ := cloneCross_types h
  refine ⟨hf, ?_, ?_⟩
  · by_cases hm : mode = 3 ∨ mode = 4
    · simp only [hm, if_true] at ci ⊢; exact ci
    · simp only [hm, if_false] at ci ⊢
      rw [ti]
      by_cases hi : self.it = other.it
      · simp only [hi, if_true] at ci ⊢; exact ci.1
      · simp only [hi, if_false] at ci ⊢; exact ci
  · by_cases hm : mode = 0
    · simp only [hm, if_true] at ce ⊢
      rw [td]
      by_cases hd : self.dt = other.dt
      · simp only [hd, if_true] at ce ⊢; exact ce.1
      · simp only [hd, if_false] at ce ⊢; exact ce
    · simp only [hm, if_false] at ce ⊢; exact ce

theorem step_clone_table {s s' : State} {a b mode : Nat} {fill : Int} {cb : Cont}
    (h : step s (.clone a b mode fill) = .ok s') (hb : s.slot b = some cb) :
    ∃ c', s'.slot a = some c' ∧ (a ≠ b → s'.slot b = some cb) ∧ CloneTable s.pool.length mode c' cb := by
  unfold step at h
  simp only [hb] at h
  split at h
  · cases h
  · rename_i hc
    simp only [Bool.or_eq_true, decide_eq_true_eq, not_or, Nat.not_le, Bool.not_eq_true] at hc
    obtain ⟨ha, _⟩ := hc
    split at h
    · cases h
    · rename_i p1 c1 hr
      injection h with h; subst h
      refine ⟨c1, slot_setSlot_self _ a _ ha, fun hab => ?_, ?_⟩
      · rw [slot_setSlot_ne _ a b _ hab]; exact hb
      · split at hr
        · exact cloneTable_same hr rfl rfl
        · rename_i ca hsa
          split at hr
          · cases hr
          · split at hr
            · rename_i hty
              simp only [Bool.and_eq_true, decide_eq_true_eq] at hty
              exact cloneTable_same hr hty.1 hty.2
            · exact cloneTable_cross hr

/-- the convert row: between two distinct containers an array is shared iff its element type agrees -/
def ConvTable (n : Nat) (c' cb : Cont) : Prop :=
  c'.foreign = false ∧
  (if c'.dt = cb.dt then c'.elems = cb.elems else FreshL n c'.elems) ∧
  (if c'.it = cb.it then c'.inds = cb.inds else FreshL n c'.inds)

theorem convertFrom_lt7 {p : Pool} {self other : Cont} {so : Bool} (hk : other.kind < 7) :
    Cont.convertFrom p self other so = Cont.assign p self other so := by
  unfold Cont.convertFrom
  have : ¬ other.kind ≥ 7 := by omega
  simp only [this, if_false]

theorem step_conv_table {s s' : State} {a b dt it : Nat} {cb : Cont}
    (h : step s (.conv a b dt it) = .ok s') (hb : s.slot b = some cb) (hab : a ≠ b) (hk : cb.kind < 7) :
    ∃ c', s'.slot a = some c' ∧ s'.slot b = some cb ∧ ConvTable s.pool.length c' cb := by
  unfold step at h
  simp only [hb] at h
  split at h
  · cases h
  · rename_i hc
    simp only [decide_eq_true_eq, Nat.not_le] at hc
    split at h
    · cases h
    · split at h
      · cases h
      · rename_i p1 c1 hr
        injection h with h; subst h
        refine ⟨c1, slot_setSlot_self _ a _ hc, by rw [slot_setSlot_ne _ a b _ hab]; exact hb, ?_⟩
        have hso : decide (a = b) = false := by simp [hab]
        rw [hso, convertFrom_lt7 hk] at hr
        obtain ⟨_, st⟩ := sharing_assign hr
        obtain ⟨hf, _, _, se, si⟩ := st rfl
        obtain ⟨td, ti⟩ := assign_types hr
        refine ⟨hf, ?_, ?_⟩
        · rw [td]; split at se
          · rename_i hd; simp only [hd, if_true]; exact se.1
          · rename_i hd; simp only [hd, if_false]; exact se
        · rw [ti]; split at si
          · rename_i hd; simp only [hd, if_true]; exact si.1
          · rename_i hd; simp only [hd, if_false]; exact si

/-- the convert row for the sparse vectors (kinds 7, 8): `convert` is a deep copy, nothing is shared -/
theorem step_conv_sv_table {s s' : State} {a b dt it : Nat} {cb : Cont}
    (h : step s (.conv a b dt it) = .ok s') (hb : s.slot b = some cb) (hk : 7 ≤ cb.kind) :
    ∃ c', s'.slot a = some c' ∧ c'.foreign = false ∧ FreshL s.pool.length c'.elems ∧ FreshL s.pool.length c'.inds := by
  unfold step at h
  simp only [hb] at h
  split at h
  · cases h
  · rename_i hc
    simp only [decide_eq_true_eq, Nat.not_le] at hc
    split at h
    · cases h
    · split at h
      · cases h
      · rename_i p1 c1 hr
        injection h with h; subst h
        refine ⟨c1, slot_setSlot_self _ a _ hc, ?_⟩
        unfold Cont.convertFrom at hr
        simp only [hk, if_true] at hr
        unfold Cont.svConvert at hr
        have key : CloneTable s.pool.length 3 c1 cb := by
          split at hr
          · rename_i hty
            simp only [Bool.and_eq_true, decide_eq_true_eq] at hty
            exact cloneTable_same hr hty.1 hty.2
          · exact cloneTable_cross hr
        obtain ⟨hf, ki, ke⟩ := key
        simp only [true_or, if_true] at ki
        simp only [show ¬ (3 = 0) by omega, if_false] at ke
        exact ⟨hf, ke, ki⟩

/-- `x.convert(x)` changes nothing at all: same container content, same pool -/
theorem step_conv_self {s s' : State} {a dt it : Nat} {c : Cont} (h : step s (.conv a a dt it) = .ok s')
    (hs : s.slot a = some c) (hk : c.kind < 7) : s'.slot a = some c ∧ s'.pool = s.pool := by
  unfold step at h
  simp only [hs] at h
  split at h
  · cases h
  · rename_i hc
    simp only [decide_eq_true_eq, Nat.not_le] at hc
    split at h
    · cases h
    · split at h
      · cases h
      · rename_i p1 c1 hr
        injection h with h; subst h
        have hso : decide True = true := rfl
        rw [hso, convertFrom_lt7 hk] at hr
        obtain ⟨st, _⟩ := sharing_assign hr
        obtain ⟨e1, e2⟩ := st rfl
        subst e1
        refine ⟨?_, rfl⟩
        rw [slot_setSlot_self _ a _ hc, e2]; rfl

/-- adopt-data constructor: the new vector's data array IS the source's first data array -/
theorem step_adopt_table {s s' : State} {a b : Nat} {cb : Cont}
    (h : step s (.adopt a b) = .ok s') (hb : s.slot b = some cb) (hn : cb.size ≠ 0) :
    ∃ c', s'.slot a = some c' ∧ c'.foreign = false ∧ c'.elems = [elemPtr0 cb] ∧ c'.inds = [] ∧
      (a ≠ b → s'.slot b = some cb) := by
  unfold step at h
  simp only [hb] at h
  split at h
  · cases h
  · rename_i hc
    simp only [Bool.or_eq_true, decide_eq_true_eq, not_or, Nat.not_le, Bool.not_eq_true] at hc
    obtain ⟨⟨ha, _⟩, _⟩ := hc
    split at h
    · cases h
    · injection h with h; subst h
      exact ⟨_, slot_setSlot_self _ a _ ha, rfl, rfl, rfl, fun hab => by rw [slot_setSlot_ne _ a b _ hab]; exact hb⟩

/-- layouts: `L = m.layout()` holds exactly the index arrays of `m` -/
theorem step_lay_table {s s' : State} {l a : Nat} {ca : Cont}
    (h : step s (.lay l a) = .ok s') (hs : s.slot a = some ca) :
    ∃ L, s'.lay l = some L ∧ L.inds = ca.inds ∧ L.sidx = ca.sidx ∧ s'.slot a = some ca := by
  unfold step at h
  simp only [hs] at h
  split at h
  · cases h
  · rename_i hc
    simp only [Bool.or_eq_true, decide_eq_true_eq, not_or, Nat.not_le, Nat.not_lt] at hc
    split at h
    · cases h
    · split at h
      · cases h
      · split at h
        · cases h
        · injection h with h; subst h
          refine ⟨{ lk := layKind ca.kind, it := ca.it, inds := ca.inds, indsSize := ca.indsSize, sidx := ca.sidx },
            ?_, rfl, rfl, hs⟩
          unfold State.setLay State.lay
          simp only
          rw [List.getElem?_set_self hc.1.1.1]; rfl

/-- `M(layout)` / `m = layout`: the matrix shares exactly the layout's index arrays, its data array is fresh -/
theorem step_mlay_table {s s' : State} {a l kind dt : Nat} {fill : Int} {L : Layout}
    (h : step s (.mlay a l kind dt fill) = .ok s') (hl : s.lay l = some L) :
    ∃ c', s'.slot a = some c' ∧ c'.foreign = false ∧ c'.inds = L.inds ∧ FreshL s.pool.length c'.elems ∧
      s'.lay l = some L := by
  unfold step at h
  simp only [hl] at h
  split at h
  · cases h
  · rename_i hc
    simp only [decide_eq_true_eq, Nat.not_le] at hc
    split at h
    · cases h
    · split at h
      · cases h
      · split at h
        · cases h
        · rename_i p1 c1 hr
          injection h with h; subst h
          refine ⟨c1, slot_setSlot_self _ a _ hc, ?_⟩
          unfold Cont.fromLayout at hr
          split at hr
          · cases hr
          · rename_i p0 hpre
            have hl0 : p0.length = s.pool.length := by
              unfold layoutPre at hpre
              split at hpre
              · split at hpre
                · cases hpre
                · injection hpre with e; subst e; rfl
              · exact releaseAll_length hpre
            split at hr
            · cases hr
            · rename_i p2 hinc
              have hl1 := incrAll_length hinc
              split at hr
              · cases hr
              · rename_i ne hne
                injection hr with hr; injection hr with e1 e2; subst e2
                refine ⟨rfl, rfl, ?_, hl⟩
                intro q hq
                simp only [Cont.empty, List.mem_singleton] at hq; subst hq
                rcases alloc_fresh p2 ne (esz _) (iota fill ne) with h0 | ⟨id, h0, hle⟩
                · exact Or.inl h0
                · exact Or.inr ⟨id, h0, by omega⟩

/-- move assignment `a = std::move(b)` between two live containers: `a` releases what it owned (nothing if it
    was a range view), takes over `b`'s arrays together with `b`'s view flag; `b` is left owning nothing -/
theorem step_move_table {s s' : State} {a b : Nat} {ca cb : Cont}
    (h : step s (.move a b) = .ok s') (hsa : s.slot a = some ca) (hsb : s.slot b = some cb) (hab : a ≠ b) :
    ∃ c1, s'.slot a = some c1 ∧ s'.slot b = some cb.movedFrom ∧
      c1.elems = cb.elems ∧ c1.inds = cb.inds ∧ c1.foreign = cb.foreign ∧ c1.sidx = cb.sidx ∧
      ca.releaseOwn s.pool = .ok s'.pool := by
  unfold step at h
  simp only [hsb, hsa] at h
  split at h
  · cases h
  · split at h
    · cases h
    · split at h
      · cases h
      · rename_i p1 c1 c2 hm
        all_goals skip
        injection h with h; subst h
        obtain ⟨he, hi, hf, hx, h2, hr⟩ := sharing_moveAssign hm
        subst h2
        have hb := slot_lt hsb
        have ha := slot_lt hsa
        refine ⟨c1, ?_, ?_, he, hi, hf, hx, hr⟩
        · rw [slot_setSlot_ne _ b a _ (Ne.symm hab)]
          exact slot_setSlot_self _ a _ ha
        · exact slot_setSlot_self _ b _ (by rw [length_setSlot]; exact hb)

/-- a range view releases nothing -/
theorem releaseOwn_view (p : Pool) (c : Cont) (h : c.foreign = true) : c.releaseOwn p = .ok p := by
  unfold Cont.releaseOwn Cont.owned; simp [h, releaseAll]

end FeatModel.Pool
