import FeatModel.Model.RefineCover
/-! C10 local refinement lemma, tetrahedron, pairwise covering family, configurations 21..27 (kernel evaluation). -/
namespace FeatModel.Refine
set_option maxRecDepth 100000

theorem cover_tetra_03 : ∀ j < 7, (refine (cell3c .simplex (j + 21))).consistent = true := by decide +kernel

end FeatModel.Refine
