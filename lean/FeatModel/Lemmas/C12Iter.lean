import FeatModel.Model.PartiIterative
/-! C12: example inputs of the PartiIterative core model (facet-neighbour lists, `-1` = no neighbour). -/
namespace FeatModel.Parti

/-- 1-D mesh with two components: cell 0 alone, cells 1-2-3 a chain -/
def exIterDisconnected : List (List Int) := [[-1, -1], [-1, 2], [1, 3], [2, -1]]

/-- connected 9x1 strip of quadrilaterals -/
def exIterStrip9 : List (List Int) :=
  [[-1, -1, -1, 1], [-1, -1, 0, 2], [-1, -1, 1, 3], [-1, -1, 2, 4], [-1, -1, 3, 5], [-1, -1, 4, 6], [-1, -1, 5, 7],
   [-1, -1, 6, 8], [-1, -1, 7, -1]]

theorem cellsPerPatch_length (k : Nat) (items : List (Nat × Option Nat)) : (cellsPerPatch k items).length = k := by
  simp [cellsPerPatch]

end FeatModel.Parti
