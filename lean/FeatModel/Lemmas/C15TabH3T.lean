import FeatModel.Lemmas.C15Tensor
import FeatModel.Lemmas.C15TabH3
import FeatModel.Lemmas.C15FastL2
import FeatModel.Lemmas.C15FastB2
import FeatModel.Lemmas.C15FastL3a
import FeatModel.Lemmas.C15FastL3b
import FeatModel.Lemmas.C15FastL3c
import FeatModel.Lemmas.C15FastL3d
import FeatModel.Lemmas.C15RestH3
import FeatModel.Lemmas.C15RestL3g
import FeatModel.Lemmas.C15RestL3h
import FeatModel.Lemmas.C15RestL3i
/-! the 3-D hypercube tensor tables (Lagrange-2, Bernstein-2, Lagrange-3) through `tensor_table_correct` -/
namespace FeatModel.FE
open FeatModel.Poly FeatModel.Gen

theorem onevar_facts : oneVarTab BasisH1.l2 = true ∧ oneVarTab BasisH1.l3 = true ∧ oneVarTab BasisH1.b2 = true := by
  have := onevar_h1
  simp only [Bool.and_eq_true] at this
  exact ⟨this.1.1, this.1.2, this.2⟩

theorem samples_l2 : BasisH3.l2.samplesOk = true :=
  tensor_table_correct BasisH1.l2 3 true true BasisH3.l2_idx BasisH3.l2_samples onevar_facts.1 fast_l2

theorem samples_b2 : BasisH3.b2.samplesOk = true :=
  tensor_table_correct BasisH1.b2 3 true true BasisH3.b2_idx BasisH3.b2_samples onevar_facts.2.2 fast_b2

theorem fast_l3 : fastSamplesOk BasisH1.l3 3 true true BasisH3.l3_idx BasisH3.l3_samples = true := by
  have hs : BasisH3.l3_samples = BasisH3.l3_samples.take 16 ++ ((BasisH3.l3_samples.drop 16).take 16
      ++ (((BasisH3.l3_samples.drop 16).drop 16).take 16 ++ ((BasisH3.l3_samples.drop 16).drop 16).drop 16)) := by
    rw [List.take_append_drop, List.take_append_drop, List.take_append_drop]
  have h0 := fast_l3_0
  have h1 := fast_l3_1
  have h2 := fast_l3_2
  have h3 := fast_l3_3
  unfold fastSamplesOk at h0 h1 h2 h3 ⊢
  rw [hs, List.all_append, List.all_append, List.all_append, h0, h1, h2, h3]
  rfl

theorem samples_l3 : BasisH3.l3.samplesOk = true :=
  tensor_table_correct BasisH1.l3 3 true true BasisH3.l3_idx BasisH3.l3_samples onevar_facts.2.1 fast_l3

theorem hess_l3h3 : BasisH3.l3.hessOk = true := by
  have hr : List.range BasisH3.l3.nloc = List.range' 0 32 ++ List.range' 32 32 := by decide
  have ha := hess_l3h3_a
  have hb := hess_l3h3_b
  unfold hessOkPart at ha hb
  unfold BasisTab.hessOk
  rw [hr, List.all_append]
  cases hh : BasisH3.l3.hasHess
  · simp
  · simp only [hh, Bool.not_true, Bool.false_or] at ha hb ⊢
    rw [ha, hb]; rfl

theorem tabs_keysH3 : keysH3.all okKey = true := by
  have r2 := rest_l2
  have rb := rest_b2
  simp only [Bool.and_eq_true] at r2 rb
  have k2 : okKey (Fam.L2, Kind.H, 3) = true := by
    show (BasisH3.l2.shapeOk && BasisH3.l2.samplesOk && BasisH3.l2.gradOk && BasisH3.l2.hessOk) = true
    rw [r2.1.1, samples_l2, r2.1.2, r2.2]; rfl
  have kb : okKey (Fam.B2, Kind.H, 3) = true := by
    show (BasisH3.b2.shapeOk && BasisH3.b2.samplesOk && BasisH3.b2.gradOk && BasisH3.b2.hessOk) = true
    rw [rb.1.1, samples_b2, rb.1.2, rb.2]; rfl
  have k3 : okKey (Fam.L3, Kind.H, 3) = true := by
    show (BasisH3.l3.shapeOk && BasisH3.l3.samplesOk && BasisH3.l3.gradOk && BasisH3.l3.hessOk) = true
    rw [shape_l3, samples_l3, grad_l3h3, hess_l3h3]; rfl
  simp only [keysH3, keysH3b, List.all_append, tabs_keysH3a, List.all_cons, List.all_nil, k2, kb, k3, Bool.and_self]

end FeatModel.FE
