import FeatModel.Model.FEDual
/-! kernel-checked partition of unity of the generated tables -/
namespace FeatModel.FE
set_option maxRecDepth 100000 in
theorem pou : pouKeys.all pouKey = true := by decide +kernel
end FeatModel.FE
