import FeatModel.Lemmas.C01Sum
import FeatModel.Model.LA.Dense
/-! dense kernels as sums over the dense meaning -/
open Finset
namespace FeatModel.LA
namespace Dense
variable {α : Type} [CommSemiring α]

theorem kernel_getD (tiny : α → Bool) (A : Dense α) (alpha beta : α) (x y r : Array α) (ali : Bool) (i : Nat)
    (hi : i < A.rows) :
    (A.kernel tiny alpha beta x y r ali).getD i 0
      = alpha * (∑ j ∈ range A.cols, A.entry i j * x.getD j 0)
        + (if tiny beta then 0 else beta * (if ali then r else y).getD i 0) := by
  simp only [kernel]
  rw [getD_ofFn _ i hi, initR_getD _ _ _ _ _ _ _ hi, foldRange_add, zero_add, ← Finset.range_eq_Ico]
  have : ∑ k ∈ range A.cols, A.val.getD (i * A.cols + k) 0 * x.getD k 0
      = ∑ j ∈ range A.cols, A.entry i j * x.getD j 0 := by
    apply Finset.sum_congr rfl
    intro j hj
    simp [entry, Finset.mem_range.mp hj]
  simp only [this]
  split <;> ring

theorem kernelT_getD (tiny : α → Bool) (A : Dense α) (alpha beta : α) (x y r : Array α) (ali : Bool) (j : Nat)
    (hj : j < A.cols) :
    (A.kernelT tiny alpha beta x y r ali).getD j 0
      = alpha * (∑ i ∈ range A.rows, A.entry i j * x.getD i 0)
        + (if tiny beta then 0 else beta * (if ali then r else y).getD j 0) := by
  simp only [kernelT]
  rw [getD_ofFn _ j hj, initR_getD _ _ _ _ _ _ _ hj, foldRange_add, zero_add, ← Finset.range_eq_Ico]
  have : ∑ k ∈ range A.rows, A.val.getD (k * A.cols + j) 0 * x.getD k 0
      = ∑ i ∈ range A.rows, A.entry i j * x.getD i 0 := by
    apply Finset.sum_congr rfl
    intro i _
    simp [entry, hj]
  simp only [this]
  split <;> ring

end Dense
end FeatModel.LA
