import FeatModel.Lemmas.C15Unmap
import FeatModel.Lemmas.C15D1
/-! `unmap(map(s)) = s` on every affine cell: generic Newton-step argument, instantiated for tetrahedra, intervals,
    triangles. -/
namespace FeatModel.FE
open FeatModel.Poly Finset

theorem list_sum_range (n : Nat) (f : Nat → Rat) : ((List.range n).map f).sum = ∑ i ∈ range n, f i := by
  have := sumR_range n f
  rwa [sumR, foldl_add, zero_add] at this

theorem vsub_getD (a b : List Rat) (j : Nat) (ha : j < a.length) (hb : j < b.length) :
    (vsub a b).getD j 0 = a.getD j 0 - b.getD j 0 := by
  simp [vsub, List.getD_eq_getElem?_getD, List.getElem?_zipWith, List.getElem?_eq_getElem ha, List.getElem?_eq_getElem hb]

theorem mapPoint_length (k : Kind) (d : Nat) (V : List (List Rat)) (x : List Rat) :
    (mapPoint k d V x).length = worldDim V := by simp [mapPoint]

theorem range_map_getD (s : List Rat) : (List.range s.length).map (fun i => s.getD i 0) = s := by
  apply List.ext_getElem (by simp)
  intro i h1 h2
  simp [List.getD_eq_getElem?_getD, List.getElem?_eq_getElem h2]

theorem normSq_vsub_self (a : List Rat) : normSq (vsub a a) = 0 := by
  rw [normSq, foldl_add, zero_add]
  induction a with
  | nil => simp [vsub]
  | cons x a ih => simp only [vsub, List.zipWith_cons_cons, List.map_cons, List.sum_cons] at ih ⊢; rw [ih]; ring

/-- the cell is affine as seen from `x` towards `s`: `T(x) - T(s) = J(x) (x - s)` -/
def AffineAt (k : Kind) (d : Nat) (V : List (List Rat)) (x s : List Rat) : Prop :=
  ∀ a, a < d → (mapPoint k d V x).getD a 0 - (mapPoint k d V s).getD a 0
    = ∑ b ∈ range d, mat (jacMat k d V x) a b * (x.getD b 0 - s.getD b 0)

/-- **one Newton step is exact on an affine cell** (dimensions 1, 2, 3; any shape) -/
theorem newton_step_exact (k : Kind) (d : Nat) (hd : d = 1 ∨ d = 2 ∨ d = 3) (V : List (List Rat)) (hV : worldDim V = d)
    (s x : List Rat) (hs : s.length = d) (hdet : det d (jacMat k d V x) ≠ 0) (haff : AffineAt k d V x s) :
    newtonStep k d V (mapPoint k d V s) x = s := by
  have hI := inv_mul_entry d hd _ hdet
  unfold newtonStep
  conv_rhs => rw [← range_map_getD s, hs]
  apply List.map_congr_left
  intro i hi
  have hi' := List.mem_range.mp hi
  rw [sumR_range]
  have h1 : ∀ j ∈ range d, mat (inv d (jacMat k d V x)) i j * (vsub (mapPoint k d V x) (mapPoint k d V s)).getD j 0
      = ∑ b ∈ range d, mat (inv d (jacMat k d V x)) i j * mat (jacMat k d V x) j b * (x.getD b 0 - s.getD b 0) := by
    intro j hj
    have hj' := mem_range.mp hj
    rw [vsub_getD _ _ j (by rw [mapPoint_length, hV]; exact hj') (by rw [mapPoint_length, hV]; exact hj'),
      haff j hj', Finset.mul_sum]
    apply Finset.sum_congr rfl; intro b _; ring
  rw [Finset.sum_congr rfl h1, Finset.sum_comm]
  have h2 : ∀ b ∈ range d, ∑ j ∈ range d,
      mat (inv d (jacMat k d V x)) i j * mat (jacMat k d V x) j b * (x.getD b 0 - s.getD b 0)
      = (if i = b then 1 else 0) * (x.getD b 0 - s.getD b 0) := by
    intro b hb
    rw [← hI i b hi' (mem_range.mp hb), Finset.sum_mul]
  rw [Finset.sum_congr rfl h2]
  simp [ite_mul, Finset.sum_ite_eq, hi']

/-- **`unmap(map(s)) = s`** for the model of `unmap_point_by_newton` on every cell that is affine as seen from the
    centre of the reference cell -/
theorem unmap_map_of_affine (k : Kind) (d : Nat) (hd : d = 1 ∨ d = 2 ∨ d = 3) (V : List (List Rat)) (hV : worldDim V = d)
    (s : List Rat) (hs : s.length = d) (hdet : det d (jacMat k d V (refCentre k d)) ≠ 0)
    (haff : AffineAt k d V (refCentre k d) s) :
    ∃ r, unmapNewton k d V (mapPoint k d V s) = (true, r) ∧
      (r = s ∨ (r = refCentre k d ∧ defectSq k d V (mapPoint k d V s) (refCentre k d) < newtonTolSq)) := by
  unfold unmapNewton
  rw [show (10 : Nat) = 9 + 1 from rfl, newtonLoop]
  by_cases h1 : defectSq k d V (mapPoint k d V s) (refCentre k d) < newtonTolSq
  · exact ⟨refCentre k d, by simp [h1], Or.inr ⟨rfl, h1⟩⟩
  · simp only [h1, if_false, hdet]
    rw [newton_step_exact k d hd V hV s _ hs hdet haff, show (9 : Nat) = 8 + 1 from rfl, newtonLoop]
    have h0 : defectSq k d V (mapPoint k d V s) s < newtonTolSq := by
      rw [defectSq, normSq_vsub_self]; norm_num [newtonTolSq]
    exact ⟨s, by simp [h0], Or.inl rfl⟩

/-- a cell is affine if each vertex function is (simplices, intervals) -/
theorem affineAt_of_vertex (k : Kind) (d : Nat) (V : List (List Rat)) (hV : worldDim V = d) (x s : List Rat)
    (h : ∀ v, v < numVerts k d → evalAt x (shapeFn k d v) - evalAt s (shapeFn k d v)
      = ∑ b ∈ range d, evalAt x (dShape k d v b) * (x.getD b 0 - s.getD b 0)) : AffineAt k d V x s := by
  intro a ha
  rw [mapPoint_comp _ _ _ _ a (by omega), mapPoint_comp _ _ _ _ a (by omega), list_sum_sub, list_sum_range]
  have h1 : ∀ b ∈ range d, mat (jacMat k d V x) a b * (x.getD b 0 - s.getD b 0)
      = ∑ v ∈ range (numVerts k d), (V.getD v []).getD a 0 * evalAt x (dShape k d v b) * (x.getD b 0 - s.getD b 0) := by
    intro b hb
    rw [jacMat_comp _ _ _ _ a b (by omega) (mem_range.mp hb), list_sum_range, Finset.sum_mul]
  rw [Finset.sum_congr rfl h1, Finset.sum_comm]
  apply Finset.sum_congr rfl
  intro v hv
  rw [← mul_sub, h v (mem_range.mp hv), Finset.mul_sum]
  apply Finset.sum_congr rfl; intro b _; ring

end FeatModel.FE
