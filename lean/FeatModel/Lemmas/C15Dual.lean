import FeatModel.Model.FEDual
import FeatModel.Lemmas.C15DualS2
import FeatModel.Lemmas.C15DualH12
import FeatModel.Lemmas.C15DualL3H2a
import FeatModel.Lemmas.C15DualL3H2b
import FeatModel.Lemmas.C15DualS3
import FeatModel.Lemmas.C15DualH3
import FeatModel.Lemmas.C15Pou
/-! kernel-checked duality of node functionals and local basis functions on the reference cell: assembled from the
    per-shape modules (which build in parallel) -/
namespace FeatModel.FE

theorem dual2 : dualKeys2.all (fun key => dualAll key.1 key.2.1 key.2.2) = true := by
  simp only [dualKeys2, List.all_append, dualS2, dualH12, Bool.and_self]

theorem mem_allOrients_succ {n : Nat} {o : List Nat} (h : o ∈ allOrients (n + 1)) :
    ∃ l ∈ allOrients n, o = 0 :: l ∨ o = 1 :: l := by
  simp only [allOrients, List.mem_flatMap, List.mem_cons, List.not_mem_nil, or_false] at h
  obtain ⟨l, hl, ho⟩ := h
  exact ⟨l, hl, ho⟩

theorem dual2b : dualKeys2b.all (fun key => dualAll key.1 key.2.1 key.2.2) = true := by
  have h4 : ∀ o ∈ allOrients 4, dualOk .L3 .H 2 o = true := by
    intro o ho
    obtain ⟨l, hl, h⟩ := mem_allOrients_succ ho
    rcases h with rfl | rfl
    · exact List.all_eq_true.mp dualL3H2_0 l hl
    · exact List.all_eq_true.mp dualL3H2_1 l hl
  have hn : numFaces Kind.H 2 1 * (if (2 : Nat) ≥ 2 then 1 else 0) = 4 := by decide
  simp only [dualKeys2b, List.all_cons, List.all_nil, Bool.and_true, dualAll, hn]
  exact List.all_eq_true.mpr h4

theorem dual3 : dualKeys3.all (fun key => dualOk key.1 key.2.1 key.2.2 []) = true := by
  simp only [dualKeys3, List.all_append, dualS3, dualH3, Bool.and_self]

end FeatModel.FE
