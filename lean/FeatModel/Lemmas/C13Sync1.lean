/- C13: sync_1 (from_1_to_0 + sync_0) keeps a consistent (type-1) vector. -/
import Mathlib.Tactic.FieldSimp
import FeatModel.Lemmas.C13Freqs
open FeatModel.Dist

namespace FeatModel.C13L

variable {α : Type} [Field α]

theorem sum_map_ite_const {ι : Type} (l : List ι) (p : ι → Bool) (c : α) :
    (l.map fun s => if p s then c else 0).sum = ((l.filter p).length : α) * c := by
  induction l with
  | nil => simp
  | cons x l ih =>
    rw [List.map_cons, List.sum_cons, ih, List.filter_cons]
    cases p x <;> simp [add_mul, add_comm]

theorem compMul_length (x y : List α) : (compMul x y).length = min x.length y.length := by
  simp [compMul]

theorem compMul_val (x y : List α) (i : Nat) (hx : i < x.length) (hy : i < y.length) :
    val (compMul x y) i = val x i * val y i := by
  rw [val_eq_getElem _ _ (by rw [compMul_length]; omega), val_eq_getElem _ _ hx, val_eq_getElem _ _ hy]
  simp [compMul]

theorem freqs_length (p : Patch) : (freqs p : List α).length = p.n := by
  unfold freqs; rw [List.length_map, counts_length]

theorem freqs_val_of_isEmpty (p : Patch) (hp : p.nbrs.isEmpty = true) (i : Nat) (hi : i < p.n) :
    val (freqs p : List α) i = 1 := by
  have : p.nbrs = [] := List.isEmpty_iff.1 hp
  unfold freqs
  rw [val_map _ _ _ (by rw [counts_length]; exact hi)]
  unfold counts
  rw [this, List.foldl_nil, val_replicate _ _ _ hi]
  simp

theorem from1to0_length (p : Patch) (v : List α) (hv : v.length = p.n) : (from1to0 p v).length = p.n := by
  unfold from1to0
  split
  · exact hv
  · rw [compMul_length, freqs_length, hv, Nat.min_self]

theorem from1to0_val (p : Patch) (v : List α) (hv : v.length = p.n) (i : Nat) (hi : i < p.n) :
    val (from1to0 p v) i = val v i * val (freqs p : List α) i := by
  unfold from1to0
  split
  · rename_i hp
    rw [freqs_val_of_isEmpty p hp i hi, mul_one]
  · rw [compMul_val _ _ _ (by rw [hv]; exact hi) (by rw [freqs_length]; exact hi)]

theorem sync1_getD_arg (ps : List Patch) (vs : List (List α)) (r : Nat) (hr : r < ps.length) :
    ((List.range ps.length).map fun r => from1to0 (ps.getD r default) (vs.getD r [])).getD r []
      = from1to0 (ps.getD r default) (vs.getD r []) := by
  simp [List.getD_eq_getElem?_getD, hr]

theorem sync1_common [CharZero α] (d : Decomp) (h : d.WF) (vs : List (List α))
    (hv : ∀ r, r < d.np → (vs.getD r []).length = (d.patch r).n)
    (ords : List (List Nat)) (hord : ∀ r, r < d.np → (ords.getD r []).Perm (List.range (d.patch r).nbrs.length))
    (h1 : ∀ r s i j, r < d.np → s < d.np → i < (d.patch r).n → j < (d.patch s).n →
      d.gdof r i = d.gdof s j → val (vs.getD r []) i = val (vs.getD s []) j)
    (r : Nat) (hr : r < d.np) (i : Nat) (hi : i < (d.patch r).n) :
    val ((sync1 d.patches ords vs).getD r []) i = val (vs.getD r []) i := by
  unfold sync1
  have hw : ∀ s, s < d.np →
      ((List.range d.patches.length).map fun r => from1to0 (d.patches.getD r default) (vs.getD r [])).getD s []
        = from1to0 (d.patch s) (vs.getD s []) := fun s hs => sync1_getD_arg d.patches vs s hs
  rw [sync0_sum d h _ (fun s hs => by rw [hw s hs]; exact from1to0_length _ _ (hv s hs)) ords hord r hr i hi]
  have e : ∀ s ∈ List.range d.np,
      (d.sharedVals ((List.range d.patches.length).map fun r =>
          from1to0 (d.patches.getD r default) (vs.getD r [])) s (d.gdof r i)).sum
        = if (d.lmap s).contains (d.gdof r i)
            then val (vs.getD r []) i * (1 / ((d.sharers (d.gdof r i)).length : α)) else 0 := by
    intro s hs
    have hs := List.mem_range.1 hs
    by_cases hg : d.gdof r i ∈ d.lmap s
    · obtain ⟨j, hj, hjg⟩ := List.getElem_of_mem hg
      have hgd : d.gdof s j = d.gdof r i := by simp [Decomp.gdof, List.getD_eq_getElem?_getD, hj, hjg]
      have hj' : j < (d.patch s).n := by rw [h.size s hs]; exact hj
      rw [sharedVals_of_index d _ s _ (h.inj s hs) j hj hgd, hw s hs,
        from1to0_val _ _ (hv s hs) j hj', freqs_val d h s hs j hj', hgd,
        h1 s r j i hs hr hj' hi hgd]
      simp [hg]
    · rw [sharedVals_nil]
      · simp [hg]
      · intro j hj he
        apply hg
        rw [← he]
        simp [Decomp.gdof, List.getD_eq_getElem?_getD, hj]
  rw [List.map_congr_left e, sum_map_ite_const]
  have hN : ((d.sharers (d.gdof r i)).length : α) ≠ 0 := by
    have := List.length_pos_of_mem (self_mem_sharers d h r hr i hi)
    exact Nat.cast_ne_zero.2 (by omega)
  change ((d.sharers (d.gdof r i)).length : α) * _ = _
  field_simp

end FeatModel.C13L
