import FeatModel.Model.Solver.Session
import FeatModel.Lemmas.C07Control
/-! Helper lemmas for C07: a solve on a persistent solver object does not depend on what earlier solves left behind -/
namespace FeatModel.Solver
set_option linter.unusedSectionVars false

variable {V α : Type} [Add α] [Mul α] [Div α] [Neg α] [Zero α] [One α] [LE α] [LT α] [DecidableEq α] [DecidableLE α]
  [DecidableLT α]

theorem pcgIntern_indep (S : Sys V α) (c : Config α) (p1 p2 : State α) (x r : V) :
    pcgIntern S c p1 x r = pcgIntern S c p2 x r := by
  simp only [pcgIntern, setInitial_indep c p1 p2]

theorem richIntern_indep (S : Sys V α) (c : Config α) (p1 p2 : State α) (omega : α) (b x df : V) :
    richIntern S c p1 omega b x df = richIntern S c p2 omega b x df := by
  simp only [richIntern, setInitial_indep c p1 p2]

theorem pcrIntern_indep (S : Sys V α) (c : Config α) (p1 p2 : State α) (x r : V) :
    pcrIntern S c p1 x r = pcrIntern S c p2 x r := by
  simp only [pcrIntern, setInitial_indep c p1 p2]

theorem pcgnrIntern_indep (S : Sys V α) (c : Config α) (p1 p2 : State α) (x r : V) :
    pcgnrIntern S c p1 x r = pcgnrIntern S c p2 x r := by
  simp only [pcgnrIntern, setInitial_indep c p1 p2]

theorem chebIntern_indep (S : Sys V α) (c : Config α) (p1 p2 : State α) (minEv maxEv : α) (b x df : V) :
    chebIntern S c p1 minEv maxEv b x df = chebIntern S c p2 minEv maxEv b x df := by
  simp only [chebIntern, setInitial_indep c p1 p2]

theorem pmrIntern_indep (S : Sys V α) (c : Config α) (p1 p2 : State α) (x r : V) :
    pmrIntern S c p1 x r = pmrIntern S c p2 x r := by
  simp only [pmrIntern, setInitial_indep c p1 p2]

theorem bicgIntern_indep (S : Sys V α) (c : Config α) (p1 p2 : State α) (x r : V) :
    bicgIntern S c p1 x r = bicgIntern S c p2 x r := by
  simp only [bicgIntern, setInitial_indep c p1 p2]

theorem solveOne_indep (k : Kind) (S : Sys V α) (c : Config α) (omega : α) (p1 p2 : State α)
    (isApply : Bool) (x0 b : V) :
    solveOne k S c omega p1 isApply x0 b = solveOne k S c omega p2 isApply x0 b := by
  cases k with
  | pcg => simp only [solveOne, pcgApply, pcgCorrect, pcgIntern_indep S c p1 p2]
  | rich => simp only [solveOne, richApply, richCorrect, richIntern_indep S c p1 p2]
  | pcr => simp only [solveOne, pcrApply, pcrCorrect, pcrIntern_indep S c p1 p2]
  | pmr => simp only [solveOne, pmrApply, pmrCorrect, pmrIntern_indep S c p1 p2]
  | pcgnr => simp only [solveOne, pcgnrApply, pcgnrCorrect, pcgnrIntern_indep S c p1 p2]
  | bicgstab => simp only [solveOne, bicgApply, bicgCorrect, bicgIntern_indep S c p1 p2]
  | cheb => simp only [solveOne, chebSolve, chebIntern_indep S c p1 p2]

theorem runSession_indep (k : Kind) (S : Sys V α) (c : Config α) (omega : α) (st : State α)
    (l : List (Bool × V × V)) :
    ∀ prev : State α, runSession k S c omega prev l = independentSession k S c omega st l := by
  induction l with
  | nil => intro prev; rfl
  | cons a rest ih =>
    obtain ⟨isApply, x0, b⟩ := a
    intro prev
    simp only [runSession, independentSession]
    rw [solveOne_indep k S c omega prev st]
    cases solveOne k S c omega st isApply x0 b with
    | none => rfl
    | some r => simp only [ih r.st]

theorem runSteps_indep (k : Kind) (S : Sys V α) (c : Config α) (omega : α) (st : State α)
    (l : List (SessionStep V)) :
    ∀ prev : State α, runSteps k S c omega prev l = independentSession k S c omega st (solvesOf l) := by
  induction l with
  | nil => intro prev; rfl
  | cons a rest ih =>
    intro prev
    cases a with
    | solve isApply x0 b =>
      simp only [runSteps, solvesOf, independentSession]
      rw [solveOne_indep k S c omega prev st]
      cases solveOne k S c omega st isApply x0 b with
      | none => rfl
      | some r => simp only [ih r.st]
    | reinitNumeric => simp only [runSteps, solvesOf]; exact ih prev
    | reinitFull => simp only [runSteps, solvesOf]; exact ih prev

end FeatModel.Solver
