import FeatModel.Model.Solver.Session
import FeatModel.Lemmas.C07Control
/-! Helper lemmas for C07: a solve on a persistent solver object does not depend on what earlier solves left behind -/
namespace FeatModel.Solver
set_option linter.unusedSectionVars false

variable {V α : Type} [Mul α] [Div α] [Neg α] [Zero α] [One α] [LE α] [LT α] [DecidableEq α] [DecidableLE α]
  [DecidableLT α]

theorem pcgIntern_indep (S : Sys V α) (c : Config α) (p1 p2 : State α) (x r : V) :
    pcgIntern S c p1 x r = pcgIntern S c p2 x r := by
  simp only [pcgIntern, setInitial_indep c p1 p2]

theorem richIntern_indep (S : Sys V α) (c : Config α) (p1 p2 : State α) (omega : α) (b x df : V) :
    richIntern S c p1 omega b x df = richIntern S c p2 omega b x df := by
  simp only [richIntern, setInitial_indep c p1 p2]

theorem pcrIntern_indep (S : Sys V α) (c : Config α) (p1 p2 : State α) (x r : V) :
    pcrIntern S c p1 x r = pcrIntern S c p2 x r := by
  simp only [pcrIntern, setInitial_indep c p1 p2]

theorem pcgnrIntern_indep (S : Sys V α) (c : Config α) (p1 p2 : State α) (x r : V) :
    pcgnrIntern S c p1 x r = pcgnrIntern S c p2 x r := by
  simp only [pcgnrIntern, setInitial_indep c p1 p2]

theorem pmrIntern_indep (S : Sys V α) (c : Config α) (p1 p2 : State α) (x r : V) :
    pmrIntern S c p1 x r = pmrIntern S c p2 x r := by
  simp only [pmrIntern, setInitial_indep c p1 p2]

/-- BiCGStab: independent as soon as the preconditioner does not fail on the initial defect -/
theorem bicgIntern_indep (S : Sys V α) (c : Config α) (p1 p2 : State α) (x r : V) (h : S.prec 0 r ≠ none) :
    bicgIntern S c p1 x r = bicgIntern S c p2 x r := by
  simp only [bicgIntern]
  split
  · rename_i heq; exact absurd heq h
  · simp only [setInitial_indep c p1 p2]

/-- BiCGStab: status and iterate never depend on the history (the early `aborted` return leaves the control members of
    the previous solve in place — open finding c07-edge:F6) -/
theorem bicgIntern_indep_status (S : Sys V α) (c : Config α) (p1 p2 : State α) (x r : V) :
    (bicgIntern S c p1 x r).map (fun res => (res.status, res.x)) =
      (bicgIntern S c p2 x r).map (fun res => (res.status, res.x)) := by
  cases hp : S.prec 0 r with
  | none => simp only [bicgIntern, hp, Option.map_some]
  | some pt => rw [bicgIntern_indep S c p1 p2 x r (by rw [hp]; simp)]

theorem solveOne_indep (k : Kind) (hk : k ≠ .bicgstab) (S : Sys V α) (c : Config α) (omega : α) (p1 p2 : State α)
    (isApply : Bool) (x0 b : V) :
    solveOne k S c omega p1 isApply x0 b = solveOne k S c omega p2 isApply x0 b := by
  cases k with
  | pcg => simp only [solveOne, pcgApply, pcgCorrect, pcgIntern_indep S c p1 p2]
  | rich => simp only [solveOne, richApply, richCorrect, richIntern_indep S c p1 p2]
  | pcr => simp only [solveOne, pcrApply, pcrCorrect, pcrIntern_indep S c p1 p2]
  | pmr => simp only [solveOne, pmrApply, pmrCorrect, pmrIntern_indep S c p1 p2]
  | pcgnr => simp only [solveOne, pcgnrApply, pcgnrCorrect, pcgnrIntern_indep S c p1 p2]
  | bicgstab => exact absurd rfl hk

theorem runSession_indep (k : Kind) (hk : k ≠ .bicgstab) (S : Sys V α) (c : Config α) (omega : α) (st : State α)
    (l : List (Bool × V × V)) :
    ∀ prev : State α, runSession k S c omega prev l = independentSession k S c omega st l := by
  induction l with
  | nil => intro prev; rfl
  | cons a rest ih =>
    obtain ⟨isApply, x0, b⟩ := a
    intro prev
    simp only [runSession, independentSession]
    rw [solveOne_indep k hk S c omega prev st]
    cases solveOne k S c omega st isApply x0 b with
    | none => rfl
    | some r => simp only [ih r.st]

/-- the defect vector a solve starts from -/
def startDefect (S : Sys V α) (isApply : Bool) (x0 b : V) : V := if isApply then b else resid S b x0

theorem solveOne_indep_bicg (S : Sys V α) (c : Config α) (omega : α) (p1 p2 : State α) (isApply : Bool) (x0 b : V)
    (h : S.prec 0 (startDefect S isApply x0 b) ≠ none) :
    solveOne .bicgstab S c omega p1 isApply x0 b = solveOne .bicgstab S c omega p2 isApply x0 b := by
  cases isApply
  · simp only [solveOne, Bool.false_eq_true, ↓reduceIte, bicgCorrect]
    exact bicgIntern_indep S c p1 p2 _ _ (by simpa [startDefect] using h)
  · simp only [solveOne, ↓reduceIte, bicgApply]
    exact bicgIntern_indep S c p1 p2 _ _ (by simpa [startDefect] using h)

theorem runSession_indep_bicg (S : Sys V α) (c : Config α) (omega : α) (st : State α) (l : List (Bool × V × V))
    (h : ∀ e ∈ l, S.prec 0 (startDefect S e.1 e.2.1 e.2.2) ≠ none) :
    ∀ prev : State α, runSession .bicgstab S c omega prev l = independentSession .bicgstab S c omega st l := by
  induction l with
  | nil => intro prev; rfl
  | cons a rest ih =>
    obtain ⟨isApply, x0, b⟩ := a
    intro prev
    simp only [runSession, independentSession]
    rw [solveOne_indep_bicg S c omega prev st isApply x0 b (h _ (List.mem_cons_self ..))]
    cases solveOne Kind.bicgstab S c omega st isApply x0 b with
    | none => rfl
    | some r => simp only [ih (fun e he => h e (List.mem_cons_of_mem _ he)) r.st]

end FeatModel.Solver
