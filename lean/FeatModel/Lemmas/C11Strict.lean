import FeatModel.Model.C11Text
import FeatModel.Lemmas.C11Num
/-!
C11 — the STRICT number layer (`String::parse` consumes the whole trimmed string; a leading `-` is rejected
for unsigned types).  Rejection theorems: the accepted language of `readIndex` is exactly `+?D+` (value
< 2^64), that of `readInt` exactly `[+-]?D+` (32-bit range); every token with a non-digit suffix is
rejected; a printed rational followed by anything is rejected.  Core Lean only.
-/
namespace FeatModel.C11

/-! ### helpers -/

theorem spanDigits_fst_isDigit (r : Str) : ∀ c ∈ (spanDigits r).1, isDigit c = true := by
  intro c hc
  have := List.all_takeWhile (p := isDigit) (l := r)
  rw [List.all_eq_true] at this
  exact this c hc

theorem spanDigits_fst_append_snd (r : Str) : (spanDigits r).1 ++ (spanDigits r).2 = r := by
  unfold spanDigits
  exact List.takeWhile_append_dropWhile

/-- the three cases of `readSign` -/
theorem readSign_cases (t : Str) :
    (∃ r, t = '-' :: r ∧ readSign t = (true, r)) ∨
    (∃ r, t = '+' :: r ∧ readSign t = (false, r)) ∨
    (t.head? ≠ some '-' ∧ t.head? ≠ some '+' ∧ readSign t = (false, t)) := by
  unfold readSign
  split
  · exact Or.inl ⟨_, rfl, rfl⟩
  · exact Or.inr (Or.inl ⟨_, rfl, rfl⟩)
  · rename_i h1 h2
    refine Or.inr (Or.inr ⟨?_, ?_, rfl⟩)
    · intro h
      cases t with
      | nil => simp at h
      | cons a as => simp at h; subst h; exact h1 as rfl
    · intro h
      cases t with
      | nil => simp at h
      | cons a as => simp at h; subst h; exact h2 as rfl

theorem readSign_plus (r : Str) : readSign ('+' :: r) = (false, r) := rfl

theorem isDigit_plus : isDigit '+' = false := by decide
theorem isDigit_minus : isDigit '-' = false := by decide

theorem isEmpty_eq_false_of_ne_nil {l : Str} (h : l ≠ []) : l.isEmpty = false := by
  cases l with
  | nil => exact absurd rfl h
  | cons a as => rfl

/-- the digit span of a nonempty all-digit string followed by a suffix that does not start with a digit -/
theorem readSign_digits_append (ds r : Str) (hne : ds ≠ []) (hd : ∀ c ∈ ds, isDigit c = true) :
    readSign (ds ++ r) = (false, ds ++ r) := by
  cases ds with
  | nil => exact absurd rfl hne
  | cons a as => exact readSign_of_isDigit _ (hd a (by simp))

/-! ### `readIndex`: the accepted language is exactly `+?D+` -/

/-- a leading `-` is rejected (no wrap-around) -/
theorem readIndex_neg (s : Str) (h : (trim s).head? = some '-') : readIndex s = none := by
  cases ht : trim s with
  | nil => rw [ht] at h; simp at h
  | cons a r =>
    rw [ht] at h; simp at h; subst h
    unfold readIndex
    simp only [ht, readSign_minus]
    split
    · rfl
    · simp

/-- whatever `readIndex` accepts is (after `trim`) an optional `+` followed by digits only, and the
    value is the value of these digits -/
theorem readIndex_digits_only {s : Str} {n : Nat} (h : readIndex s = some n) :
    ∃ ds, ds ≠ [] ∧ (∀ c ∈ ds, isDigit c = true) ∧ (trim s = ds ∨ trim s = '+' :: ds) ∧
      digitsVal 0 ds = n := by
  unfold readIndex at h
  simp only at h
  split at h
  · exact absurd h (by simp)
  · split at h
    · exact absurd h (by simp)
    · split at h
      · exact absurd h (by simp)
      · split at h
        · exact absurd h (by simp)
        · rename_i hds hneg hrest _
          injection h with h
          have happ := spanDigits_fst_append_snd (readSign (trim s)).2
          have hr : (spanDigits (readSign (trim s)).2).2 = [] := by
            simpa using hrest
          rw [hr, List.append_nil] at happ
          refine ⟨(spanDigits (readSign (trim s)).2).1, ?_, spanDigits_fst_isDigit _, ?_, h⟩
          · intro h0; rw [h0] at hds; simp at hds
          · rcases readSign_cases (trim s) with ⟨r, _, h2⟩ | ⟨r, h1, h2⟩ | ⟨_, _, h2⟩
            · rw [h2] at hneg; simp at hneg
            · rw [h2] at happ ⊢; simp only at happ ⊢
              right; rw [happ]; exact h1
            · rw [h2] at happ ⊢; simp only at happ ⊢
              left; exact happ.symm

/-- the converse: every `+?D+` with value < 2^64 is accepted -/
theorem readIndex_of_digits {s : Str} (ds : Str) (hne : ds ≠ []) (hd : ∀ c ∈ ds, isDigit c = true)
    (ht : trim s = ds ∨ trim s = '+' :: ds) (hv : digitsVal 0 ds < 2 ^ 64) :
    readIndex s = some (digitsVal 0 ds) := by
  have hsign : readSign (trim s) = (false, ds) := by
    rcases ht with ht | ht
    · rw [ht]; simpa using readSign_digits_append ds [] hne hd
    · rw [ht]; rfl
  unfold readIndex
  simp only [hsign, spanDigits_of_all ds hd, isEmpty_eq_false_of_ne_nil hne]
  simp [Nat.not_le.mpr hv]

/-- the accepted language of `readIndex` -/
theorem readIndex_eq_some_iff (s : Str) (n : Nat) :
    readIndex s = some n ↔
      ∃ ds, ds ≠ [] ∧ (∀ c ∈ ds, isDigit c = true) ∧ (trim s = ds ∨ trim s = '+' :: ds) ∧
        digitsVal 0 ds = n ∧ n < 2 ^ 64 := by
  constructor
  · intro h
    obtain ⟨ds, h1, h2, h3, h4⟩ := readIndex_digits_only h
    refine ⟨ds, h1, h2, h3, h4, ?_⟩
    -- range
    unfold readIndex at h
    simp only at h
    split at h
    · exact absurd h (by simp)
    · split at h
      · exact absurd h (by simp)
      · split at h
        · exact absurd h (by simp)
        · split at h
          · exact absurd h (by simp)
          · injection h with h; omega
  · rintro ⟨ds, h1, h2, h3, h4, h5⟩
    rw [← h4] at h5 ⊢
    exact readIndex_of_digits ds h1 h2 h3 h5

/-- every character of an accepted index token is a digit or the leading `+` -/
theorem readIndex_chars {s : Str} {n : Nat} (h : readIndex s = some n) :
    ∀ c ∈ trim s, isDigit c = true ∨ c = '+' := by
  obtain ⟨ds, _, hd, ht, _⟩ := readIndex_digits_only h
  intro c hc
  rcases ht with ht | ht
  · rw [ht] at hc; exact Or.inl (hd c hc)
  · rw [ht] at hc
    simp only [List.mem_cons] at hc
    rcases hc with hc | hc
    · exact Or.inr hc
    · exact Or.inl (hd c hc)

/-- every (already trimmed) token `digits ++ suffix` with a non-empty suffix that does not start with a
    digit is rejected: `3x`, `1.5`, `0x10`, `7-`, … -/
theorem readIndex_suffix_reject (ds suffix : Str) (hne : ds ≠ []) (hd : ∀ c ∈ ds, isDigit c = true)
    (hs : suffix ≠ []) (hs0 : ∀ c, suffix.head? = some c → isDigit c = false)
    (htrim : trim (ds ++ suffix) = ds ++ suffix) : readIndex (ds ++ suffix) = none := by
  unfold readIndex
  simp only [htrim, readSign_digits_append ds suffix hne hd, spanDigits_append ds suffix hd hs0,
    isEmpty_eq_false_of_ne_nil hne, isEmpty_eq_false_of_ne_nil hs]
  simp

/-- the same with an explicit `+` -/
theorem readIndex_plus_suffix_reject (ds suffix : Str) (hd : ∀ c ∈ ds, isDigit c = true)
    (hs : suffix ≠ []) (hs0 : ∀ c, suffix.head? = some c → isDigit c = false)
    (htrim : trim ('+' :: (ds ++ suffix)) = '+' :: (ds ++ suffix)) :
    readIndex ('+' :: (ds ++ suffix)) = none := by
  unfold readIndex
  simp only [htrim, readSign_plus, spanDigits_append ds suffix hd hs0, isEmpty_eq_false_of_ne_nil hs]
  split
  · rfl
  · simp

/-- the trim hypothesis of the rejection theorems holds when the suffix does not end in white space -/
theorem trim_digits_append (ds suffix : Str) (hne : ds ≠ []) (hd : ∀ c ∈ ds, isDigit c = true)
    (hs : suffix ≠ []) (hl : ∀ c, suffix.getLast? = some c → isWs c = false) :
    trim (ds ++ suffix) = ds ++ suffix := by
  apply trim_eq_self
  · intro c hc
    cases ds with
    | nil => exact absurd rfl hne
    | cons a as => simp at hc; subst hc; exact isWs_of_isDigit (hd a (by simp))
  · intro c hc
    rw [List.getLast?_append] at hc
    cases hl' : suffix.getLast? with
    | none => exact absurd (List.getLast?_eq_none_iff.mp hl') hs
    | some d => rw [hl'] at hc; simp at hc; subst hc; exact hl d hl'

/-! ### `readInt`: the accepted language is exactly `[+-]?D+` -/

theorem readInt_digits_only {s : Str} {z : Int} (h : readInt s = some z) :
    ∃ ds, ds ≠ [] ∧ (∀ c ∈ ds, isDigit c = true) ∧
      (((trim s = ds ∨ trim s = '+' :: ds) ∧ z = (digitsVal 0 ds : Int) ∧ digitsVal 0 ds < 2 ^ 31) ∨
       (trim s = '-' :: ds ∧ z = -(digitsVal 0 ds : Int) ∧ digitsVal 0 ds ≤ 2 ^ 31)) := by
  unfold readInt at h
  simp only at h
  split at h
  · exact absurd h (by simp)
  · split at h
    · exact absurd h (by simp)
    · rename_i hds hrest
      have happ := spanDigits_fst_append_snd (readSign (trim s)).2
      have hr : (spanDigits (readSign (trim s)).2).2 = [] := by
        simpa using hrest
      rw [hr, List.append_nil] at happ
      have hne : (spanDigits (readSign (trim s)).2).1 ≠ [] := by
        intro h0; rw [h0] at hds; simp at hds
      refine ⟨(spanDigits (readSign (trim s)).2).1, hne, spanDigits_fst_isDigit _, ?_⟩
      split at h
      · rename_i hneg
        split at h
        · exact absurd h (by simp)
        · injection h with h
          right
          refine ⟨?_, h.symm, by omega⟩
          rcases readSign_cases (trim s) with ⟨r, h1, h2⟩ | ⟨r, _, h2⟩ | ⟨_, _, h2⟩
          · rw [h2] at happ ⊢; simp only at happ ⊢
            rw [happ]; exact h1
          · rw [h2] at hneg; simp at hneg
          · rw [h2] at hneg; simp at hneg
      · rename_i hneg
        split at h
        · exact absurd h (by simp)
        · injection h with h
          left
          refine ⟨?_, h.symm, by omega⟩
          rcases readSign_cases (trim s) with ⟨r, _, h2⟩ | ⟨r, h1, h2⟩ | ⟨_, _, h2⟩
          · rw [h2] at hneg; simp at hneg
          · rw [h2] at happ ⊢; simp only at happ ⊢
            right; rw [happ]; exact h1
          · rw [h2] at happ ⊢; simp only at happ ⊢
            left; exact happ.symm

/-- every character of an accepted `int` token is a digit or the leading sign -/
theorem readInt_chars {s : Str} {z : Int} (h : readInt s = some z) :
    ∀ c ∈ trim s, isDigit c = true ∨ c = '+' ∨ c = '-' := by
  obtain ⟨ds, _, hd, ht⟩ := readInt_digits_only h
  intro c hc
  rcases ht with ⟨ht | ht, _⟩ | ⟨ht, _⟩
  · rw [ht] at hc; exact Or.inl (hd c hc)
  · rw [ht] at hc
    simp only [List.mem_cons] at hc
    rcases hc with hc | hc
    · exact Or.inr (Or.inl hc)
    · exact Or.inl (hd c hc)
  · rw [ht] at hc
    simp only [List.mem_cons] at hc
    rcases hc with hc | hc
    · exact Or.inr (Or.inr hc)
    · exact Or.inl (hd c hc)

/-- `digits ++ suffix`, optionally signed, with a non-empty suffix not starting with a digit is rejected -/
theorem readInt_suffix_reject (neg : Bool) (ds suffix : Str) (hne : ds ≠ []) (hd : ∀ c ∈ ds, isDigit c = true)
    (hs : suffix ≠ []) (hs0 : ∀ c, suffix.head? = some c → isDigit c = false)
    (htrim : trim (sgnPre neg ++ (ds ++ suffix)) = sgnPre neg ++ (ds ++ suffix)) :
    readInt (sgnPre neg ++ (ds ++ suffix)) = none := by
  have hsign : readSign (sgnPre neg ++ (ds ++ suffix)) = (neg, ds ++ suffix) := by
    cases neg with
    | true => rfl
    | false => exact readSign_digits_append ds suffix hne hd
  unfold readInt
  simp only [htrim, hsign, spanDigits_append ds suffix hd hs0,
    isEmpty_eq_false_of_ne_nil hne, isEmpty_eq_false_of_ne_nil hs]
  simp

/-! ### `readQ`: nothing may follow a printed rational -/

/-- a printed rational `num/den` followed by a non-empty suffix that does not start with a digit is rejected
    (a digit would simply continue the denominator) -/
theorem readQ_suffix_reject (q : Rat) (suffix : Str)
    (hs : suffix ≠ []) (hs0 : ∀ c, suffix.head? = some c → isDigit c = false)
    (htrim : trim (showQ q ++ suffix) = showQ q ++ suffix) :
    readQ (showQ q ++ suffix) = none := by
  obtain ⟨neg, m, hq, _⟩ := showQ_eq q
  rw [hq] at htrim ⊢
  have e : sgnPre neg ++ (showNat m ++ '/' :: showNat q.den) ++ suffix =
      sgnPre neg ++ (showNat m ++ '/' :: (showNat q.den ++ suffix)) := by simp
  rw [e] at htrim ⊢
  have hspan : spanDigits (showNat m ++ '/' :: (showNat q.den ++ suffix)) =
      (showNat m, '/' :: (showNat q.den ++ suffix)) :=
    spanDigits_append _ _ (isDigit_of_mem_showNat m)
      (by intro c hc; simp at hc; subst hc; exact isDigit_slash)
  unfold readQ
  simp only [htrim, readSign_sgnPre, hspan, showNat_isEmpty,
    spanDigits_append _ suffix (isDigit_of_mem_showNat q.den) hs0, isEmpty_eq_false_of_ne_nil hs]
  simp

/-- the trim hypothesis of `readQ_suffix_reject` holds when the suffix does not end in white space -/
theorem trim_showQ_append (q : Rat) (suffix : Str) (hs : suffix ≠ [])
    (hl : ∀ c, suffix.getLast? = some c → isWs c = false) :
    trim (showQ q ++ suffix) = showQ q ++ suffix := by
  have hq := showQ_tok q
  apply trim_eq_self
  · intro c hc
    cases hqs : showQ q with
    | nil => exact absurd hqs hq.1
    | cons a as => rw [hqs] at hc; simp at hc; subst hc; exact hq.2 a (by simp [hqs])
  · intro c hc
    rw [List.getLast?_append] at hc
    cases hl' : suffix.getLast? with
    | none => exact absurd (List.getLast?_eq_none_iff.mp hl') hs
    | some d => rw [hl'] at hc; simp at hc; subst hc; exact hl d hl'

/-! ### `readQ`: the accepted language -/

/-- optional fraction of `readQ` -/
def qFrac (n : Nat) (r1 : Str) : Nat × Nat × Str :=
  match r1 with
  | '.' :: r2 =>
    let (fd, r3) := spanDigits r2
    (digitsVal n fd, 10 ^ fd.length, r3)
  | _ => (n, 1, r1)

def qExp (sgn : Int) (n den : Nat) (r3 : Str) : Option Rat :=
  match r3 with
  | e :: r4 =>
    if e == 'e' || e == 'E' then
      let (eneg, r5) := readSign r4
      let (ed, rest) := spanDigits r5
      if ed.isEmpty then none
      else if !rest.isEmpty then none
      else
        let ev := digitsVal 0 ed
        if ev > 400 then none
        else if eneg then some (mkRat (sgn * n) (den * 10 ^ ev))
        else some (mkRat (sgn * n * 10 ^ ev) den)
    else none
  | [] => some (mkRat (sgn * n) den)

def qBody (sgn : Int) (n : Nat) (r1 : Str) : Option Rat :=
  match r1 with
  | '/' :: r2 =>
    let (dd, rest) := spanDigits r2
    if dd.isEmpty then none
    else if !rest.isEmpty then none
    else
      let d := digitsVal 0 dd
      if d == 0 then none else some (mkRat (sgn * n) d)
  | _ =>
    let (n, den, r3) := qFrac n r1
    qExp sgn n den r3

theorem readQ_eq_body (s : Str) :
    readQ s =
      if (spanDigits (readSign (trim s)).2).1.isEmpty then none
      else qBody (if (readSign (trim s)).1 then -1 else 1) (digitsVal 0 (spanDigits (readSign (trim s)).2).1)
        (spanDigits (readSign (trim s)).2).2 := by
  rfl

def IsSign (p : Str) : Prop := p = [] ∨ p = ['+'] ∨ p = ['-']
def IsDigits (d : Str) : Prop := ∀ c ∈ d, isDigit c = true

theorem readSign_decomp (t : Str) : ∃ pre, IsSign pre ∧ t = pre ++ (readSign t).2 := by
  rcases readSign_cases t with ⟨r, h1, h2⟩ | ⟨r, h1, h2⟩ | ⟨_, _, h2⟩
  · exact ⟨['-'], Or.inr (Or.inr rfl), by rw [h2, h1]; rfl⟩
  · exact ⟨['+'], Or.inr (Or.inl rfl), by rw [h2, h1]; rfl⟩
  · exact ⟨[], Or.inl rfl, by rw [h2]; rfl⟩

theorem qFrac_grammar (n : Nat) (r1 : Str) :
    ∃ frac, (frac = [] ∨ ∃ fd, IsDigits fd ∧ frac = '.' :: fd) ∧ r1 = frac ++ (qFrac n r1).2.2 := by
  unfold qFrac
  split
  · rename_i r2
    refine ⟨'.' :: (spanDigits r2).1, Or.inr ⟨_, spanDigits_fst_isDigit r2, rfl⟩, ?_⟩
    simp only [List.cons_append, spanDigits_fst_append_snd]
  · exact ⟨[], Or.inl rfl, rfl⟩

theorem qExp_grammar {sgn : Int} {n den : Nat} {r3 : Str} {q : Rat} (h : qExp sgn n den r3 = some q) :
    r3 = [] ∨ ∃ e esg ed, (e = 'e' ∨ e = 'E') ∧ IsSign esg ∧ ed ≠ [] ∧ IsDigits ed ∧
      digitsVal 0 ed ≤ 400 ∧ r3 = e :: (esg ++ ed) := by
  unfold qExp at h
  split at h
  · rename_i e r4
    right
    split at h
    · rename_i he
      simp only at h
      split at h
      · exact absurd h (by simp)
      · split at h
        · exact absurd h (by simp)
        · rename_i hed hrest
          obtain ⟨esg, hsg, hr4⟩ := readSign_decomp r4
          have happ := spanDigits_fst_append_snd (readSign r4).2
          have hr : (spanDigits (readSign r4).2).2 = [] := by simpa using hrest
          rw [hr, List.append_nil] at happ
          refine ⟨e, esg, (spanDigits (readSign r4).2).1, ?_, hsg, ?_, spanDigits_fst_isDigit _, ?_, ?_⟩
          · simpa using he
          · intro h0; rw [h0] at hed; simp at hed
          · split at h
            · exact absurd h (by simp)
            · omega
          · rw [happ]; exact congrArg _ hr4
    · exact absurd h (by simp)
  · exact Or.inl rfl

/-- the grammar of the part of a rational token behind the leading digits -/
def IsQTail (r1 : Str) : Prop :=
  (∃ dd, dd ≠ [] ∧ IsDigits dd ∧ r1 = '/' :: dd) ∨
  (∃ frac ex, (frac = [] ∨ ∃ fd, IsDigits fd ∧ frac = '.' :: fd) ∧
    (ex = [] ∨ ∃ e esg ed, (e = 'e' ∨ e = 'E') ∧ IsSign esg ∧ ed ≠ [] ∧ IsDigits ed ∧
      digitsVal 0 ed ≤ 400 ∧ ex = e :: (esg ++ ed)) ∧
    r1 = frac ++ ex)

theorem qBody_grammar {sgn : Int} {n : Nat} {r1 : Str} {q : Rat} (h : qBody sgn n r1 = some q) :
    IsQTail r1 := by
  unfold qBody at h
  split at h
  · rename_i r2
    left
    simp only at h
    split at h
    · exact absurd h (by simp)
    · split at h
      · exact absurd h (by simp)
      · rename_i hdd hrest
        have happ := spanDigits_fst_append_snd r2
        have hr : (spanDigits r2).2 = [] := by simpa using hrest
        rw [hr, List.append_nil] at happ
        refine ⟨(spanDigits r2).1, ?_, spanDigits_fst_isDigit _, by rw [happ]⟩
        intro h0; rw [h0] at hdd; simp at hdd
  · right
    simp only at h
    obtain ⟨frac, hf, hr1⟩ := qFrac_grammar n r1
    exact ⟨frac, _, hf, qExp_grammar h, hr1⟩

/-- whatever `readQ` accepts is (after `trim`) `[+-]? D+ ( '/' D+ | ('.' D*)? ([eE] [+-]? D+)? )` and nothing else:
    in particular nothing may follow the number -/
theorem readQ_grammar {s : Str} {q : Rat} (h : readQ s = some q) :
    ∃ sg ds r1, IsSign sg ∧ ds ≠ [] ∧ IsDigits ds ∧ IsQTail r1 ∧ trim s = sg ++ (ds ++ r1) := by
  rw [readQ_eq_body] at h
  split at h
  · exact absurd h (by simp)
  · rename_i hds
    obtain ⟨sg, hsg, ht⟩ := readSign_decomp (trim s)
    refine ⟨sg, (spanDigits (readSign (trim s)).2).1, (spanDigits (readSign (trim s)).2).2, hsg, ?_,
      spanDigits_fst_isDigit _, qBody_grammar h, ?_⟩
    · intro h0; rw [h0] at hds; simp at hds
    · rw [spanDigits_fst_append_snd]; exact ht

/-- every character of an accepted rational token is a digit or one of `+ - / . e E` -/
theorem readQ_chars {s : Str} {q : Rat} (h : readQ s = some q) :
    ∀ c ∈ trim s, isDigit c = true ∨ c ∈ ['+', '-', '/', '.', 'e', 'E'] := by
  obtain ⟨sg, ds, r1, hsg, _, hds, hr1, ht⟩ := readQ_grammar h
  have hsgc : ∀ (p : Str), IsSign p → ∀ c ∈ p, c = '+' ∨ c = '-' := by
    intro p hp c hc
    rcases hp with hp | hp | hp <;> subst hp <;> simp at hc <;> simp [hc]
  intro c hc
  rw [ht] at hc
  simp only [List.mem_append] at hc
  rcases hc with hc | hc | hc
  · rcases hsgc sg hsg c hc with h | h <;> simp [h]
  · exact Or.inl (hds c hc)
  · rcases hr1 with ⟨dd, _, hdd, rfl⟩ | ⟨frac, ex, hf, he, rfl⟩
    · simp only [List.mem_cons] at hc
      rcases hc with hc | hc
      · simp [hc]
      · exact Or.inl (hdd c hc)
    · simp only [List.mem_append] at hc
      rcases hc with hc | hc
      · rcases hf with rfl | ⟨fd, hfd, rfl⟩
        · simp at hc
        · simp only [List.mem_cons] at hc
          rcases hc with hc | hc
          · simp [hc]
          · exact Or.inl (hfd c hc)
      · rcases he with rfl | ⟨e, esg, ed, hee, hesg, _, hed, _, rfl⟩
        · simp at hc
        · simp only [List.mem_cons, List.mem_append] at hc
          rcases hc with hc | hc | hc
          · rcases hee with h | h <;> simp [hc, h]
          · rcases hsgc esg hesg c hc with h | h <;> simp [h]
          · exact Or.inl (hed c hc)

/-! ### concrete tokens -/

example : readIndex "3x".toList = none := by decide
example : readIndex "1.5".toList = none := by decide
example : readIndex "0x10".toList = none := by decide
example : readIndex "-1".toList = none := by decide
example : readIndex "-0".toList = none := by decide
example : readIndex "+7".toList = some 7 := by decide
example : readIndex " 42\n".toList = some 42 := by decide
example : readIndex "4 2".toList = none := by decide
example : readIndex "18446744073709551615".toList = some (2 ^ 64 - 1) := by decide
example : readIndex "18446744073709551616".toList = none := by decide
example : readInt "-1".toList = some (-1) := by decide
example : readInt "12a".toList = none := by decide
example : readInt "--1".toList = none := by decide
example : readInt "-2147483648".toList = some (-2147483648) := by decide
example : readInt "2147483648".toList = none := by decide
example : readQ "1/2x".toList = none := by decide
example : readQ "1/2/3".toList = none := by decide
example : readQ "1.5e2 3".toList = none := by decide
example : readQ "1.5e2".toList = some 150 := by decide
example : readQ "1.5x".toList = none := by decide

end FeatModel.C11
