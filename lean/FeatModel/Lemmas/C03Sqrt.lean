import FeatModel.Model.Proto
import Mathlib.Data.Nat.Sqrt
import Mathlib.Tactic.Ring
import Mathlib.Tactic.Linarith
import Mathlib.Tactic.Positivity
import Mathlib.Tactic.FieldSimp
import Mathlib.Algebra.Order.Field.Rat
import Mathlib.Data.Rat.Lemmas
/-! The deterministic square root shared by the harness (`q_sqrt` of exact_q.hpp) and the drivers (`Proto.qsqrt`)
    is the floor of the true root on the grid `1 / (den · 2^40)`, hence within `2^-40` below it. -/
namespace FeatModel.LA.MatAlg
open FeatModel

theorem qsqrt_floor (x : Rat) (hx : 0 ≤ x) :
    0 ≤ Proto.qsqrt x ∧ Proto.qsqrt x * Proto.qsqrt x ≤ x ∧
      x < (Proto.qsqrt x + 1 / 2 ^ 40) * (Proto.qsqrt x + 1 / 2 ^ 40) := by
  have hnum : 0 ≤ x.num := Rat.num_nonneg.mpr hx
  have hd : (0 : ℚ) < x.den := by exact_mod_cast x.den_pos
  set n := x.num.toNat with hn
  set d := x.den with hdd
  set s := Nat.sqrt (n * d * 2 ^ 80) with hs
  have hxn : x = (n : ℚ) / d := by
    have h1 : ((n : ℕ) : ℤ) = x.num := Int.toNat_of_nonneg hnum
    have h2 : (x.num : ℚ) / (x.den : ℚ) = x := Rat.num_div_den x
    rw [← h2, ← h1]; push_cast; rfl
  have hq : Proto.qsqrt x = (s : ℚ) / ((d : ℚ) * 2 ^ 40) := by
    unfold Proto.qsqrt
    simp only []
    rw [Rat.mkRat_eq_div]
    push_cast
    rfl
  have hlo : (s : ℚ) * s ≤ (n : ℚ) * d * 2 ^ 80 := by exact_mod_cast Nat.sqrt_le (n * d * 2 ^ 80)
  have hhi : (n : ℚ) * d * 2 ^ 80 < ((s : ℚ) + 1) * ((s : ℚ) + 1) := by
    exact_mod_cast Nat.lt_succ_sqrt (n * d * 2 ^ 80)
  have hP : (0 : ℚ) < 2 ^ 40 := by positivity
  have hDP : (0 : ℚ) < (d : ℚ) * 2 ^ 40 := by positivity
  have hs0 : (0 : ℚ) ≤ s := by positivity
  have hd1 : (1 : ℚ) ≤ d := by exact_mod_cast x.den_pos
  refine ⟨by rw [hq]; positivity, ?_, ?_⟩
  · rw [hq, hxn, div_mul_div_comm, div_le_div_iff₀ (by positivity) hd]
    have : (s : ℚ) * s * d ≤ ((n : ℚ) * d * 2 ^ 80) * d := mul_le_mul_of_nonneg_right hlo (le_of_lt hd)
    calc (s : ℚ) * s * d ≤ ((n : ℚ) * d * 2 ^ 80) * d := this
      _ = (n : ℚ) * ((d : ℚ) * 2 ^ 40 * ((d : ℚ) * 2 ^ 40)) := by ring
  · have hsum : Proto.qsqrt x + 1 / 2 ^ 40 = ((s : ℚ) + d) / ((d : ℚ) * 2 ^ 40) := by
      rw [hq]; field_simp
    rw [hsum, hxn, div_mul_div_comm, div_lt_div_iff₀ hd (by positivity)]
    have h1 : ((s : ℚ) + 1) * (s + 1) ≤ (s + d) * (s + d) := by nlinarith
    calc (n : ℚ) * ((d : ℚ) * 2 ^ 40 * ((d : ℚ) * 2 ^ 40)) = ((n : ℚ) * d * 2 ^ 80) * d := by ring
      _ < (((s : ℚ) + 1) * ((s : ℚ) + 1)) * d := mul_lt_mul_of_pos_right hhi hd
      _ ≤ (((s : ℚ) + d) * ((s : ℚ) + d)) * d := mul_le_mul_of_nonneg_right h1 (le_of_lt hd)

end FeatModel.LA.MatAlg
