import FeatModel.Lemmas.C16_assembly
/-!
Helper lemmas for C16, part 7: history independence. On a covering pattern the data array produced by the scatter loops
does not depend on the content of the (uninitialised) `_col_ptr` scratch array, hence a sequence of assembler calls in one
process yields for each request the value of that request alone.
-/
namespace C16L
open FeatModel.Asm

/-- on a column that occurs in the row, the rebuilt pointer does not depend on the previous content -/
theorem foldCp_indep (col : Nat → Nat) (l : List Nat) (cp1 cp2 : Array (Option Nat)) (hs : cp1.size = cp2.size) (c : Nat)
    (hc : c < cp1.size) (h : ∃ k ∈ l, col k = c) :
    (foldCp col l cp1).getD c none = (foldCp col l cp2).getD c none := by
  induction l generalizing cp1 cp2 with
  | nil => obtain ⟨k, hk, _⟩ := h; cases hk
  | cons k t ih =>
    by_cases ht : ∃ k' ∈ t, col k' = c
    · have := ih (cp1.setIfInBounds (col k) (some k)) (cp2.setIfInBounds (col k) (some k)) (by simpa using hs)
        (by simpa using hc) ht
      simpa [foldCp] using this
    · have hkc : col k = c := by
        obtain ⟨k', hk', hcol⟩ := h
        rcases List.mem_cons.mp hk' with rfl | hk'
        · exact hcol
        · exact absurd ⟨k', hk', hcol⟩ ht
      have hun : ∀ k' ∈ t, col k' ≠ c := fun k' hk' hcol => ht ⟨k', hk', hcol⟩
      have h1 := foldCp_untouched col t (cp1.setIfInBounds (col k) (some k)) c hun
      have h2 := foldCp_untouched col t (cp2.setIfInBounds (col k) (some k)) c hun
      simp only [foldCp, List.foldl_cons] at h1 h2 ⊢
      rw [h1, h2]
      have hc2 : c < cp2.size := by omega
      simp only [Array.getD_eq_getD_getElem?, Array.getElem?_setIfInBounds, hkc, if_pos hc, if_pos hc2, if_true]

variable {α : Type} [Add α] [Mul α]

/-- the inner loop only reads the slots of its columns -/
theorem scatterCols_congr (cp1 cp2 : Array (Option Nat)) (alpha : α) (f : Nat → α) (cols : List (Nat × Nat))
    (d : Array α) (h : ∀ jx j, (jx, j) ∈ cols → cp1.getD jx none = cp2.getD jx none) :
    scatterCols cp1 alpha f cols d = scatterCols cp2 alpha f cols d := by
  induction cols generalizing d with
  | nil => rfl
  | cons c t ih =>
    obtain ⟨jx, j⟩ := c
    simp only [scatterCols, h jx j (List.mem_cons_self ..)]
    cases cp2.getD jx none with
    | none => rfl
    | some k => exact ih _ (fun jx' j' hm => h jx' j' (List.mem_cons_of_mem _ hm))

/-- the outer loop: with covered couplings the data does not depend on the initial scratch array -/
theorem scatterRows_indep (p : Pattern) (alpha : α) (loc : Nat → Nat → α) (cols rows : List (Nat × Nat))
    (cp1 cp2 : Array (Option Nat)) (d : Array α) (hs : cp1.size = cp2.size)
    (hcols : ∀ jx j, (jx, j) ∈ cols → jx < cp1.size)
    (hcov : ∀ ix i, (ix, i) ∈ rows → ∀ jx j, (jx, j) ∈ cols → ∃ k ∈ p.seg ix, p.col k = jx) :
    (scatterRows p alpha loc cols rows ⟨cp1, d⟩).map (·.data) = (scatterRows p alpha loc cols rows ⟨cp2, d⟩).map (·.data) ∧
    ∀ st1 st2, scatterRows p alpha loc cols rows ⟨cp1, d⟩ = some st1 → scatterRows p alpha loc cols rows ⟨cp2, d⟩ = some st2 →
      st1.colPtr.size = cp1.size ∧ st2.colPtr.size = cp2.size := by
  induction rows generalizing cp1 cp2 d with
  | nil =>
    refine ⟨rfl, fun st1 st2 h1 h2 => ?_⟩
    simp only [scatterRows, scatterRowsG, Option.some.injEq] at h1 h2
    subst h1; subst h2; exact ⟨rfl, rfl⟩
  | cons c t ih =>
    obtain ⟨ix, i⟩ := c
    have hb1 : (buildColPtr p ix cp1).size = cp1.size := by rw [buildColPtr_eq]; exact foldCp_size ..
    have hb2 : (buildColPtr p ix cp2).size = cp2.size := by rw [buildColPtr_eq]; exact foldCp_size ..
    have hagree : ∀ jx j, (jx, j) ∈ cols → (buildColPtr p ix cp1).getD jx none = (buildColPtr p ix cp2).getD jx none := by
      intro jx j hj
      rw [buildColPtr_eq, buildColPtr_eq]
      exact foldCp_indep p.col (p.seg ix) cp1 cp2 hs jx (hcols jx j hj) (hcov ix i (List.mem_cons_self ..) jx j hj)
    have hsc := scatterCols_congr (buildColPtr p ix cp1) (buildColPtr p ix cp2) alpha (loc i) cols d hagree
    simp only [scatterRows, scatterRowsG] at ih ⊢
    rw [hsc]
    cases scatterCols (buildColPtr p ix cp2) alpha (loc i) cols d with
    | none => exact ⟨rfl, fun st1 st2 h1 _ => by cases h1⟩
    | some d' =>
      simp only []
      obtain ⟨e1, e2⟩ := ih (buildColPtr p ix cp1) (buildColPtr p ix cp2) d' (by rw [hb1, hb2, hs])
        (fun jx j hj => by rw [hb1]; exact hcols jx j hj)
        (fun ix' i' hm => hcov ix' i' (List.mem_cons_of_mem _ hm))
      refine ⟨e1, fun st1 st2 h1 h2 => ?_⟩
      obtain ⟨a, b⟩ := e2 st1 st2 h1 h2
      exact ⟨by rw [a, hb1], by rw [b, hb2]⟩

variable [Zero α]

omit [Zero α] in
theorem assembleFrom_indep (p : Pattern) (calls : List (CellCall α)) (cp1 cp2 : Array (Option Nat)) (d : Array α)
    (hs1 : cp1.size = p.cols) (hs2 : cp2.size = p.cols) (hcov : ∀ c ∈ calls, c.covered p = true) :
    (assembleFrom p calls ⟨cp1, d⟩).map (·.data) = (assembleFrom p calls ⟨cp2, d⟩).map (·.data) := by
  induction calls generalizing cp1 cp2 d with
  | nil => rfl
  | cons c t ih =>
    obtain ⟨h1, h2⟩ := (covered_iff c p).mp (hcov c (List.mem_cons_self ..))
    obtain ⟨e1, e2⟩ := scatterRows_indep p c.alpha c.loc c.colMap.zipIdx c.rowMap.zipIdx cp1 cp2 d (by rw [hs1, hs2])
      (fun jx j hj => by rw [hs1]; exact h2 jx (fst_mem_of_mem_zipIdx _ _ _ _ hj))
      (fun ix i hi jx j hj => h1 ix (fst_mem_of_mem_zipIdx _ _ _ _ hi) jx (fst_mem_of_mem_zipIdx _ _ _ _ hj))
    simp only [assembleFrom, scatterAxpy]
    cases hx1 : scatterRows p c.alpha c.loc c.colMap.zipIdx c.rowMap.zipIdx ⟨cp1, d⟩ with
    | none =>
      rw [hx1] at e1
      cases hx2 : scatterRows p c.alpha c.loc c.colMap.zipIdx c.rowMap.zipIdx ⟨cp2, d⟩ with
      | none => rfl
      | some st2 => rw [hx2] at e1; cases e1
    | some st1 =>
      rw [hx1] at e1
      cases hx2 : scatterRows p c.alpha c.loc c.colMap.zipIdx c.rowMap.zipIdx ⟨cp2, d⟩ with
      | none => rw [hx2] at e1; cases e1
      | some st2 =>
        rw [hx2] at e1
        simp only [Option.map_some, Option.some.injEq] at e1
        obtain ⟨a, b⟩ := e2 st1 st2 hx1 hx2
        have := ih st1.colPtr st2.colPtr st1.data (by rw [a, hs1]) (by rw [b, hs2])
          (fun c' hc' => hcov c' (List.mem_cons_of_mem _ hc'))
        simp only []
        rw [this, e1]

theorem fitColPtr_size (n : Nat) (lo : Array (Option Nat)) : (fitColPtr n lo).size = n := by
  simp [fitColPtr]

/-- one call after any history = the call alone -/
theorem assembleAfter_eq (lo : Array (Option Nat)) (r : Request α) (hcov : r.covered = true) :
    (assembleAfter lo r).map (·.data) = (assemble r.p r.calls).map (·.data) := by
  unfold assembleAfter assemble ScatterSt.fresh
  exact assembleFrom_indep r.p r.calls _ _ _ (fitColPtr_size ..) (by simp)
    (fun c hc => by
      simp only [Request.covered, List.all_eq_true] at hcov
      exact hcov c hc)

theorem assembleSeq_eq (lo : Array (Option Nat)) (reqs : List (Request α)) (hcov : ∀ r ∈ reqs, r.covered = true) :
    assembleSeq lo reqs = reqs.map fun r => (assemble r.p r.calls).map (·.data) := by
  induction reqs generalizing lo with
  | nil => rfl
  | cons r t ih =>
    have h := assembleAfter_eq lo r (hcov r (List.mem_cons_self ..))
    have ht := fun lo' => ih lo' (fun r' hr' => hcov r' (List.mem_cons_of_mem _ hr'))
    simp only [assembleSeq, List.map_cons]
    cases hx : assembleAfter lo r with
    | none => rw [hx] at h; simp only [Option.map_none] at h; rw [← h, ht]
    | some st => rw [hx] at h; simp only [Option.map_some] at h; simp only [← h, ht]

end C16L
