import FeatModel.Model.FETrace
/-! kernel-checked: the vertex shape functions of every reference cell restrict to the shape functions of every sub-entity (any stored order), and are nodal -/
namespace FeatModel.FE
set_option maxRecDepth 100000 in
theorem shapeTrace_all : ([Kind.S, Kind.H].all fun k => [1, 2, 3].all fun d => shapeTraceAll k d && vertexOk k d) = true := by decide +kernel
end FeatModel.FE
