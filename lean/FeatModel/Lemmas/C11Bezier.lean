import FeatModel.Model.MeshFile
import FeatModel.Lemmas.C11Num
import FeatModel.Lemmas.C11Xml
import FeatModel.Lemmas.C11Mesh
import FeatModel.Lemmas.C11RoundTrip
import FeatModel.Lemmas.C11RoundTrip2
/-!
C11 — `Bezier` charts of the mesh file model: the printed `<Bezier …>` block (`writeBezier`) is read back to the
chart, line by line and as a whole block inside a `<Chart>`; malformed Bezier input is rejected.
(The node-level round trip that uses this file is `parse_print_node_charts` in `C11Charts.lean`.)
Core Lean only.
-/
namespace FeatModel.C11

/-- a Bezier chart that the writer prints faithfully and the reader accepts: at least two vertex points
    (`size ≥ 2`), the vertex count fits into an `Index`, the first vertex point has no control points, every
    control / vertex point has exactly two coordinates, every control-point count fits into an `Index`, there are
    no parameters or one per vertex point, and the orientation is `1` (not printed, the reader's default) or `-1`
    (printed as `orientation="-1"`) -/
def BezierOk (_cl : Bool) (o : Rat) (segs : List (List (List Rat) × List Rat)) (params : List Rat) : Prop :=
  2 ≤ segs.length ∧ segs.length < 2 ^ 64 ∧
  (∀ sg, segs.head? = some sg → sg.1 = []) ∧
  (∀ sg ∈ segs, sg.2.length = 2 ∧ (∀ p ∈ sg.1, p.length = 2) ∧ sg.1.length < 2 ^ 64) ∧
  (params = [] ∨ params.length = segs.length) ∧
  (o = 1 ∨ o = -1)

/-- `BezierOk` is satisfiable: a closed curve with two vertex points, one control point and parameters -/
theorem bezierOk_example :
    BezierOk true (-1) [([], [0, 0]), ([[1, 1 / 2]], [2, 0])] [0, 1] := by
  refine ⟨by decide, by decide, ?_, ?_, Or.inr rfl, Or.inr rfl⟩
  · intro sg h
    simp only [List.head?_cons, Option.some.injEq] at h
    subst h
    rfl
  · intro sg h
    simp only [List.mem_cons, List.not_mem_nil, or_false] at h
    rcases h with rfl | rfl
    · exact ⟨rfl, by simp, by decide⟩
    · refine ⟨rfl, ?_, by decide⟩
      intro p hp
      simp only [List.mem_cons, List.not_mem_nil, or_false] at hp
      subst hp
      rfl

end FeatModel.C11

namespace FeatModel.C11.BZ
open FeatModel.C11.RT FeatModel.C11.RT2

set_option linter.unusedSimpArgs false

/-! ## Part 1: the point lines and the parameter lines -/

/-- the tokens of a printed point line: the number of control points, then all coordinates -/
def ptToks (sg : List (List Rat) × List Rat) : List Str :=
  showNat sg.1.length :: ((sg.1 ++ [sg.2]).flatten.map showQ)

/-- a printed point line (as in `writeBezier`) -/
def ptLine (sg : List (List Rat) × List Rat) : Str := sp 8 ++ joinSp (ptToks sg)

/-- the points the reader rebuilds from a flat coordinate list -/
def regroup (xs : List Rat) (n : Nat) : List (List Rat) :=
  (List.range n).map (fun k => [xs.getD (2 * k) 0, xs.getD (2 * k + 1) 0])

theorem regroup_flatten : ∀ (L : List (List Rat)), (∀ p ∈ L, p.length = 2) →
    regroup L.flatten L.length = L
  | [], _ => rfl
  | p :: L, h => by
    have hp := h p (by simp)
    obtain ⟨a, b, rfl⟩ : ∃ a b, p = [a, b] := by
      match p, hp with
      | [a, b], _ => exact ⟨a, b, rfl⟩
    have ih := regroup_flatten L (fun p hp => h p (by simp [hp]))
    unfold regroup at ih ⊢
    rw [List.length_cons, List.range_succ_eq_map, List.map_cons, List.map_map]
    simp only [List.flatten_cons, List.cons_append, List.nil_append, Nat.mul_zero, Nat.zero_add]
    congr 1

theorem ptToks_tok (sg : List (List Rat) × List Rat) :
    ∀ t ∈ ptToks sg, t ≠ [] ∧ ∀ c ∈ t, isWs c = false := by
  intro t ht
  simp only [ptToks, List.mem_cons, List.mem_map] at ht
  rcases ht with rfl | ⟨x, -, rfl⟩
  · exact showNat_tok _
  · exact showQ_tok x

theorem ptToks_chars (sg : List (List Rat) × List Rat) :
    ∀ c ∈ joinSp (ptToks sg), c = ' ' ∨ tokChar c = true := by
  apply joinSp_chars
  intro t ht
  simp only [ptToks, List.mem_cons, List.mem_map] at ht
  rcases ht with rfl | ⟨x, -, rfl⟩
  · exact tokChar_showNat _
  · exact tokChar_showQ x

/-- a printed point line as a content line -/
theorem ptLine_line (sg : List (List Rat) × List Rat) :
    trim (ptLine sg) = joinSp (ptToks sg) ∧ joinSp (ptToks sg) ≠ [] ∧
      (joinSp (ptToks sg)).head? ≠ some '<' ∧ (joinSp (ptToks sg)).getLast? ≠ some '>' := by
  refine ⟨?_, ?_, tokLine_head (ptToks_chars sg), tokLine_last (ptToks_chars sg)⟩
  · exact trim_replicate_intercalate 8 (ptToks sg) (ptToks_tok sg)
  · exact joinSp_ne_nil (by simp [ptToks]) (fun t ht => (ptToks_tok sg t ht).1)

theorem splitWs_ptToks (sg : List (List Rat) × List Rat) : splitWs (joinSp (ptToks sg)) = ptToks sg := by
  have := splitWs_intercalate 0 (ptToks sg) (ptToks_tok sg)
  simpa [joinSp] using this

theorem flatten_length_two : ∀ (L : List (List Rat)), (∀ p ∈ L, p.length = 2) → L.flatten.length = 2 * L.length
  | [], _ => rfl
  | p :: L, h => by
    have := flatten_length_two L (fun p hp => h p (by simp [hp]))
    have hp := h p (by simp)
    simp only [List.flatten_cons, List.length_append, List.length_cons, this, hp]
    omega

/-- **a printed point line is read back** by the `BezierPointsParser` -/
theorem contentM_point_row (sh : Shape) (dim size read line : Nat) (acc : List (List (List Rat) × List Rat))
    (rs : List Frame) (node : Node) (sg : List (List Rat) × List Rat)
    (h2 : sg.2.length = 2) (h1 : ∀ p ∈ sg.1, p.length = 2) (h64 : sg.1.length < 2 ^ 64)
    (hfirst : read = 0 → sg.1 = []) (hc : read < size) :
    contentM (mkSt sh dim (Frame.bezierPoints size read acc :: rs) node) line (joinSp (ptToks sg)) =
      .ok (mkSt sh dim (Frame.bezierPoints size (read + 1) (sg :: acc) :: rs) node) := by
  obtain ⟨cps, vp⟩ := sg
  simp only at h2 h1 h64 hfirst
  have hall : ∀ p ∈ cps ++ [vp], p.length = 2 := by
    intro p hp
    simp only [List.mem_append, List.mem_singleton] at hp
    rcases hp with hp | rfl
    · exact h1 p hp
    · exact h2
  have hflen : (cps ++ [vp]).flatten.length = 2 * (cps.length + 1) := by
    rw [flatten_length_two _ hall]; simp
  have c1 : ¬ read ≥ size := by omega
  have c2 : readIndex ((ptToks (cps, vp)).headD []) = some cps.length := by
    simp only [ptToks, List.headD_cons]
    exact readIndex_showNat _ h64
  have c3 : (read == 0 && decide (cps.length > 0)) = false := by
    by_cases hr : read = 0
    · simp [hfirst hr]
    · simp [hr]
  have c4 : ((ptToks (cps, vp)).length != (cps.length + 1) * 2 + 1) = false := by
    simp only [ptToks, List.length_cons, List.length_map, hflen]
    simp
    omega
  have c5 : mapMOpt readQ ((ptToks (cps, vp)).drop 1) = some (cps ++ [vp]).flatten := by
    simp only [ptToks, List.drop_succ_cons, List.drop_zero]
    exact mapMOpt_map _ _ _ (fun x _ => readQ_showQ x)
  have c6 : regroup (cps ++ [vp]).flatten (cps.length + 1) = cps ++ [vp] := by
    have := regroup_flatten (cps ++ [vp]) hall
    simpa using this
  have c7 : (cps ++ [vp]).take cps.length = cps := by simp
  have c8 : (cps ++ [vp]).getD cps.length [] = vp := getD_append_length cps vp [] []
  unfold contentM
  simp only [mkSt, splitWs_ptToks]
  simp only [c1, c2, c3, c4, c5, if_false, Bool.false_eq_true]
  have c6' := c6
  unfold regroup at c6'
  simp only [c6', c7, c8]

/-- the `<Points>` rows: every printed point line is pushed onto the `BezierPointsParser` frame -/
theorem Run_point_rows (sh : Shape) (dim size : Nat) (rs : List Frame) (node : Node) (names : List Str)
    (rows : List (List (List Rat) × List Rat)) :
    ∀ (read : Nat) (acc : List (List (List Rat) × List Rat)),
    (∀ sg ∈ rows, sg.2.length = 2 ∧ (∀ p ∈ sg.1, p.length = 2) ∧ sg.1.length < 2 ^ 64) →
    (read = 0 → ∀ sg, rows.head? = some sg → sg.1 = []) → read + rows.length ≤ size →
    Run (rows.map ptLine) names
      (mkSt sh dim (Frame.bezierPoints size read acc :: rs) node) names
      (mkSt sh dim (Frame.bezierPoints size (read + rows.length) (rows.reverse ++ acc) :: rs) node) := by
  induction rows with
  | nil => intro read acc _ _ _; exact Run.nil _ _
  | cons sg rows ih =>
    intro read acc hrows hfirst hcount
    obtain ⟨g2, g1, g64⟩ := hrows sg (by simp)
    simp only [List.length_cons] at hcount
    rw [List.map_cons, List.reverse_cons, List.append_assoc, List.singleton_append, List.length_cons,
      show read + (rows.length + 1) = (read + 1) + rows.length by omega]
    refine Run.cons (Run.single ?_) (ih (read + 1) (sg :: acc) (fun w hw => hrows w (by simp [hw]))
      (fun h => by omega) (by omega))
    intro tail i
    obtain ⟨l1, l2, l3, l4⟩ := ptLine_line sg
    exact step_content l1 l2 l3 l4
      (contentM_point_row sh dim size read (i + 1) acc rs node sg g2 g1 g64
        (fun h => hfirst h sg (by simp)) (by omega))

/-- **a printed parameter line is read back** by the `BezierParamsParser` -/
theorem contentM_param_row (sh : Shape) (dim size read line : Nat) (acc : List Rat) (rs : List Frame)
    (node : Node) (x : Rat) (hc : read < size) :
    contentM (mkSt sh dim (Frame.bezierParams size read acc :: rs) node) line (showQ x) =
      .ok (mkSt sh dim (Frame.bezierParams size (read + 1) (x :: acc) :: rs) node) := by
  have h1 : ¬ read ≥ size := by omega
  simp [contentM, mkSt, h1, readQ_showQ]

/-- a line holding a single number -/
theorem showQ_line (k : Nat) (x : Rat) :
    trim (sp k ++ showQ x) = showQ x ∧ showQ x ≠ [] ∧ (showQ x).head? ≠ some '<' ∧
      (showQ x).getLast? ≠ some '>' := by
  have e : showQ x = joinSp ([x].map showQ) := by simp [joinSp_single]
  refine ⟨?_, (showQ_tok x).1, ?_, ?_⟩
  · conv => lhs; rw [e]
    rw [trim_sp_joinSp_showQ, ← e]
  · rw [e]; exact tokLine_head (joinSp_showQ_chars [x])
  · rw [e]; exact tokLine_last (joinSp_showQ_chars [x])

theorem Run_param_rows (sh : Shape) (dim size : Nat) (rs : List Frame) (node : Node) (names : List Str)
    (rows : List Rat) :
    ∀ (read : Nat) (acc : List Rat), read + rows.length ≤ size →
    Run (rows.map (fun x => sp 8 ++ showQ x)) names
      (mkSt sh dim (Frame.bezierParams size read acc :: rs) node) names
      (mkSt sh dim (Frame.bezierParams size (read + rows.length) (rows.reverse ++ acc) :: rs) node) := by
  induction rows with
  | nil => intro read acc _; exact Run.nil _ _
  | cons x rows ih =>
    intro read acc hcount
    simp only [List.length_cons] at hcount
    rw [List.map_cons, List.reverse_cons, List.append_assoc, List.singleton_append, List.length_cons,
      show read + (rows.length + 1) = (read + 1) + rows.length by omega]
    refine Run.cons (Run.single ?_) (ih (read + 1) (x :: acc) (by omega))
    intro tail i
    obtain ⟨l1, l2, l3, l4⟩ := showQ_line 8 x
    exact step_content l1 l2 l3 l4 (contentM_param_row sh dim size read (i + 1) acc rs node x (by omega))

/-! ## Part 2: the markup lines of the block -/

/-- `<Points>` below a Bezier frame -/
theorem openM_points (sh : Shape) (dim size : Nat) (cl : Bool) (o : Rat) (segs : List (List (List Rat) × List Rat))
    (params : List Rat) (rs : List Frame) (node : Node) (line : Nat) :
    openM (mkSt sh dim (Frame.bezier size cl o segs params :: rs) node) line
      (⟨"Points".toList, [], false, false⟩ : Markup) =
      .ok (mkSt sh dim (Frame.bezierPoints size 0 [] :: Frame.bezier size cl o segs params :: rs) node) := by
  have hc : checkAttribs line [] [] = .ok () := by simp [checkAttribs]
  have hn : String.ofList "Points".toList = "Points" := String_ofList_toList _
  simp [openM, mkSt, hn, hc]

/-- `<Params>` below a Bezier frame -/
theorem openM_params (sh : Shape) (dim size : Nat) (cl : Bool) (o : Rat) (segs : List (List (List Rat) × List Rat))
    (params : List Rat) (rs : List Frame) (node : Node) (line : Nat) :
    openM (mkSt sh dim (Frame.bezier size cl o segs params :: rs) node) line
      (⟨"Params".toList, [], false, false⟩ : Markup) =
      .ok (mkSt sh dim (Frame.bezierParams size 0 [] :: Frame.bezier size cl o segs params :: rs) node) := by
  have hc : checkAttribs line [] [] = .ok () := by simp [checkAttribs]
  have hn : String.ofList "Params".toList = "Params" := String_ofList_toList _
  have hne : ("Params" == "Points") = false := by decide
  simp [openM, mkSt, hn, hc, hne]

/-- `</Points>`: accepted once the declared number of lines has been read -/
theorem closeTop_points_frame (sh : Shape) (dim size read sz : Nat) (acc : List (List (List Rat) × List Rat))
    (cl : Bool) (o : Rat) (segs : List (List (List Rat) × List Rat)) (params : List Rat) (rs : List Frame)
    (node : Node) (line : Nat) (h : size ≤ read) :
    closeTop (mkSt sh dim (Frame.bezierPoints size read acc :: Frame.bezier sz cl o segs params :: rs) node) line =
      .ok (mkSt sh dim (Frame.bezier sz cl o (segs ++ acc.reverse) params :: rs) node) := by
  simp [closeTop, mkSt, Nat.not_lt.mpr h]

/-- `</Params>` -/
theorem closeTop_params_frame (sh : Shape) (dim size read sz : Nat) (acc : List Rat)
    (cl : Bool) (o : Rat) (segs : List (List (List Rat) × List Rat)) (params : List Rat) (rs : List Frame)
    (node : Node) (line : Nat) (h : size ≤ read) :
    closeTop (mkSt sh dim (Frame.bezierParams size read acc :: Frame.bezier sz cl o segs params :: rs) node) line =
      .ok (mkSt sh dim (Frame.bezier sz cl o segs (params ++ acc.reverse) :: rs) node) := by
  simp [closeTop, mkSt, Nat.not_lt.mpr h]

/-- `</Bezier>`: the chart is handed to the enclosing `ChartParser` -/
theorem closeTop_bezier_frame (sh : Shape) (dim sz : Nat) (cl : Bool) (o : Rat)
    (segs : List (List (List Rat) × List Rat)) (params : List Rat) (name : Str) (c0 : Option Chart)
    (rs : List Frame) (node : Node) (line : Nat) (hne : segs ≠ []) :
    closeTop (mkSt sh dim (Frame.bezier sz cl o segs params :: Frame.chart name c0 :: rs) node) line =
      .ok (mkSt sh dim (Frame.chart name (some (Chart.bezier cl o segs params)) :: rs) node) := by
  have : segs.isEmpty = false := by cases segs <;> simp_all
  simp [closeTop, mkSt, this]

/-! ### the `<Bezier …>` line -/

def tyStr (cl : Bool) : Str := if cl then "closed".toList else "open".toList

/-- the attribute map of the scanned `<Bezier …>` line (sorted by key) -/
def bezAttrs (n : Nat) (cl : Bool) (o : Rat) : List (Str × Str) :=
  if o == -1 then
    [("dim".toList, ['2']), ("orientation".toList, "-1".toList), ("size".toList, showNat n),
      ("type".toList, tyStr cl)]
  else [("dim".toList, ['2']), ("size".toList, showNat n), ("type".toList, tyStr cl)]

def bezMarkup (n : Nat) (cl : Bool) (o : Rat) : Markup := ⟨"Bezier".toList, bezAttrs n cl o, false, false⟩

/-- the text between the brackets of the printed `<Bezier …>` line, without its first character -/
def bezHead (n : Nat) (cl : Bool) (o : Rat) : Str :=
  "ezier dim=\"2\" size=".toList ++ q (showNat n) ++ " type=".toList ++ q (tyStr cl) ++
    (if o == -1 then " orientation=\"-1\"".toList else [])

theorem tyStr_attr (cl : Bool) :
    (∀ c ∈ tyStr cl, c ≠ '"' ∧ c ≠ '<' ∧ c ≠ '>') ∧ trim (tyStr cl) = tyStr cl := by
  cases cl <;> decide

theorem fold_bez_attrs3 (a b c : Str) :
    [("dim".toList, a), ("size".toList, b), ("type".toList, c)].foldl insAttr [] =
      [("dim".toList, a), ("size".toList, b), ("type".toList, c)] := by
  have h1 : strLt "size".toList "dim".toList = false := by decide
  have h2 : strLt "dim".toList "size".toList = true := by decide
  have h3 : strLt "type".toList "dim".toList = false := by decide
  have h4 : strLt "dim".toList "type".toList = true := by decide
  have h5 : strLt "type".toList "size".toList = false := by decide
  have h6 : strLt "size".toList "type".toList = true := by decide
  simp only [List.foldl, insAttr, mapInsert, h1, h2, h3, h4, h5, h6, Bool.false_eq_true, if_false, if_true]

theorem fold_bez_attrs4 (a b c d : Str) :
    [("dim".toList, a), ("size".toList, b), ("type".toList, c), ("orientation".toList, d)].foldl insAttr [] =
      [("dim".toList, a), ("orientation".toList, d), ("size".toList, b), ("type".toList, c)] := by
  have h1 : strLt "size".toList "dim".toList = false := by decide
  have h2 : strLt "dim".toList "size".toList = true := by decide
  have h3 : strLt "type".toList "dim".toList = false := by decide
  have h4 : strLt "dim".toList "type".toList = true := by decide
  have h5 : strLt "type".toList "size".toList = false := by decide
  have h6 : strLt "size".toList "type".toList = true := by decide
  have h7 : strLt "orientation".toList "dim".toList = false := by decide
  have h8 : strLt "dim".toList "orientation".toList = true := by decide
  have h9 : strLt "orientation".toList "size".toList = true := by decide
  simp only [List.foldl, insAttr, mapInsert, h1, h2, h3, h4, h5, h6, h7, h8, h9, Bool.false_eq_true, if_false,
    if_true]

/-- **the printed `<Bezier …>` line is scanned** to the markup with the attributes `dim`, `size`, `type`
    and (for orientation -1 only) `orientation` -/
theorem scan_bezier_line (n : Nat) (cl : Bool) (o : Rat) :
    scanMarkup ('<' :: (('B' :: bezHead n cl o) ++ ['>'])) = .ok (some (bezMarkup n cl o)) := by
  have hdim : (∀ c ∈ ['2'], c ≠ '"' ∧ c ≠ '<' ∧ c ≠ '>') ∧ trim ['2'] = ['2'] := by decide
  have hm1 : (∀ c ∈ "-1".toList, c ≠ '"' ∧ c ≠ '<' ∧ c ≠ '>') ∧ trim "-1".toList = "-1".toList := by decide
  by_cases ho : o = -1
  · have hb : (o == -1) = true := by simp [ho]
    have e : '<' :: (('B' :: bezHead n cl o) ++ ['>']) =
        '<' :: (("Bezier".toList ++ ' ' :: attrText [("dim".toList, ['2']), ("size".toList, showNat n),
          ("type".toList, tyStr cl), ("orientation".toList, "-1".toList)]) ++ ['>']) := by
      unfold bezHead
      simp [q, attrText, hb]
    rw [e, scanMarkup_attr_list _ (by simp) (by decide), fold_bez_attrs4]
    · simp [bezMarkup, bezAttrs, hb]
    · intro kv hkv
      simp only [List.mem_cons, List.not_mem_nil, or_false] at hkv
      rcases hkv with rfl | rfl | rfl | rfl
      · exact attrOk_mk (by decide) hdim
      · exact attrOk_mk (by decide) (showNat_attr n)
      · exact attrOk_mk (by decide) (tyStr_attr cl)
      · exact attrOk_mk (by decide) hm1
  · have hb : (o == -1) = false := by simp [ho]
    have e : '<' :: (('B' :: bezHead n cl o) ++ ['>']) =
        '<' :: (("Bezier".toList ++ ' ' :: attrText [("dim".toList, ['2']), ("size".toList, showNat n),
          ("type".toList, tyStr cl)]) ++ ['>']) := by
      unfold bezHead
      simp [q, attrText, hb]
    rw [e, scanMarkup_attr_list _ (by simp) (by decide), fold_bez_attrs3]
    · simp [bezMarkup, bezAttrs, hb]
    · intro kv hkv
      simp only [List.mem_cons, List.not_mem_nil, or_false] at hkv
      rcases hkv with rfl | rfl | rfl
      · exact attrOk_mk (by decide) hdim
      · exact attrOk_mk (by decide) (showNat_attr n)
      · exact attrOk_mk (by decide) (tyStr_attr cl)

theorem find3 (a b c : Str) :
    mapFind strLt "dim".toList [("dim".toList, a), ("size".toList, b), ("type".toList, c)] = some a ∧
    mapFind strLt "size".toList [("dim".toList, a), ("size".toList, b), ("type".toList, c)] = some b ∧
    mapFind strLt "type".toList [("dim".toList, a), ("size".toList, b), ("type".toList, c)] = some c ∧
    mapFind strLt "orientation".toList [("dim".toList, a), ("size".toList, b), ("type".toList, c)] = none :=
  ⟨rfl, rfl, rfl, rfl⟩

theorem find4 (a b c d : Str) :
    mapFind strLt "dim".toList
      [("dim".toList, a), ("orientation".toList, d), ("size".toList, b), ("type".toList, c)] = some a ∧
    mapFind strLt "size".toList
      [("dim".toList, a), ("orientation".toList, d), ("size".toList, b), ("type".toList, c)] = some b ∧
    mapFind strLt "type".toList
      [("dim".toList, a), ("orientation".toList, d), ("size".toList, b), ("type".toList, c)] = some c ∧
    mapFind strLt "orientation".toList
      [("dim".toList, a), ("orientation".toList, d), ("size".toList, b), ("type".toList, c)] = some d :=
  ⟨rfl, rfl, rfl, rfl⟩

theorem bez_attrOf (n : Nat) (cl : Bool) (o : Rat) :
    attrOf (bezMarkup n cl o) "dim" = some ['2'] ∧
    attrOf (bezMarkup n cl o) "size" = some (showNat n) ∧
    attrOf (bezMarkup n cl o) "type" = some (tyStr cl) ∧
    attrOf (bezMarkup n cl o) "orientation" = (if o == -1 then some "-1".toList else none) := by
  unfold attrOf bezMarkup bezAttrs
  by_cases ho : (o == -1) = true
  · simp only [ho, if_true]
    exact find4 _ _ _ _
  · simp only [ho, if_false, Bool.false_eq_true]
    exact find3 _ _ _

theorem checkAttribs_bezier (line n : Nat) (cl : Bool) (o : Rat) :
    checkAttribs line (specOf "Bezier") (bezMarkup n cl o).attrs = .ok () := by
  unfold bezMarkup bezAttrs
  by_cases ho : (o == -1) = true
  · simp only [ho, if_true]
    simp [checkAttribs, specOf]
  · simp only [ho, if_false, Bool.false_eq_true]
    simp [checkAttribs, specOf]

theorem readIndex_two : readIndex ['2'] = some 2 := by
  have := readIndex_showNat 2 (by decide)
  have e : showNat 2 = ['2'] := by decide
  rwa [e] at this

theorem readQ_minus_one : readQ "-1".toList = some (-1) := by
  have := readQ_showQ (-1)
  have e : showQ (-1) = "-1/1".toList := by decide
  rw [e] at this
  have e2 : readQ "-1".toList = readQ "-1/1".toList := by decide
  rw [e2, this]

/-- **`BezierChartParser::create` on the printed line**: the Bezier frame with the printed vertex count, type and
    orientation is pushed -/
theorem openM_bezier (sh : Shape) (dim : Nat) (name : Str) (c0 : Option Chart) (rs : List Frame) (node : Node)
    (hw : node.wdim = 2) (line : Nat)
    (n : Nat) (cl : Bool) (o : Rat) (h2 : 2 ≤ n) (h64 : n < 2 ^ 64) (ho : o = 1 ∨ o = -1) :
    openM (mkSt sh dim (Frame.chart name c0 :: rs) node) line (bezMarkup n cl o) =
      .ok (mkSt sh dim (Frame.bezier n cl o [] [] :: Frame.chart name c0 :: rs) node) := by
  obtain ⟨a1, a2, a3, a4⟩ := bez_attrOf n cl o
  have hck := checkAttribs_bezier line n cl o
  have hn : String.ofList (bezMarkup n cl o).name = "Bezier" := String_ofList_toList _
  have hcl : (bezMarkup n cl o).closed = false := rfl
  have hty : (match (some (tyStr cl) : Option Str) with
      | none => (.ok false : Except Err Bool)
      | some t => if t == "closed".toList then .ok true else if t == "open".toList then .ok false else cErr line)
      = .ok cl := by
    cases cl <;> simp [tyStr]
  have hor : (match (if o == -1 then some "-1".toList else none : Option Str) with
      | none => (1 : Rat)
      | some os => (readQ os).getD 1) = o := by
    rcases ho with rfl | rfl
    · have : ((1 : Rat) == -1) = false := by decide
      simp only [this, Bool.false_eq_true, if_false]
    · have : ((-1 : Rat) == -1) = true := by decide
      simp only [this, if_true, readQ_minus_one, Option.getD_some]
  generalize hst : mkSt sh dim (Frame.chart name c0 :: rs) node = st
  generalize bezMarkup n cl o = m at a1 a2 a3 a4 hck hn hcl ⊢
  have hstack : st.stack = Frame.chart name c0 :: rs := by rw [← hst]; rfl
  have hd : st.wdim = 2 := by rw [← hst]; exact hw
  have hsz : ¬ n < 2 := by omega
  unfold openM
  rw [hstack]
  simp only [hn, hck, hcl, hd, a1, a2, a3, a4, readIndex_two, readIndex_showNat n h64, hty, hor, hsz]
  simp [← hst, mkSt]
  rcases ho with rfl | rfl
  · have h1 : ¬ ((1 : Rat) = -1) := by decide
    simp [h1, hw]
  · have h1 : readQ ['-', '1'] = some (-1) := readQ_minus_one
    simp [h1, hw]

/-! ## Part 3: the blocks -/

/-- the `<Points>` block -/
def pointsBlock (segs : List (List (List Rat) × List Rat)) : List Str :=
  [sp 6 ++ "<Points>".toList] ++ segs.map ptLine ++ [sp 6 ++ "</Points>".toList]

/-- the `<Params>` block (absent when there are no parameters) -/
def paramsBlock (params : List Rat) : List Str :=
  if params.isEmpty then [] else
    [sp 6 ++ "<Params>".toList] ++ params.map (fun x => sp 8 ++ showQ x) ++ [sp 6 ++ "</Params>".toList]

theorem bezHeader_eq (n : Nat) (cl : Bool) (X : Str) :
    sp 4 ++ "<Bezier dim=\"2\" size=".toList ++ q (showNat n) ++ " type=".toList ++
      q (if cl then "closed".toList else "open".toList) ++ X ++ ">".toList =
    sp 4 ++ '<' :: (('B' :: ("ezier dim=\"2\" size=".toList ++ q (showNat n) ++ " type=".toList ++ q (tyStr cl) ++ X))
      ++ ['>']) := by
  have e : "<Bezier dim=\"2\" size=".toList = '<' :: 'B' :: "ezier dim=\"2\" size=".toList := by decide
  have e2 : ">".toList = ['>'] := by decide
  rw [e, e2]
  unfold tyStr
  simp only [List.append_assoc, List.cons_append]

theorem writeBezier_eq (cl : Bool) (o : Rat) (segs : List (List (List Rat) × List Rat)) (params : List Rat) :
    writeBezier cl o segs params =
      [sp 4 ++ '<' :: (('B' :: bezHead segs.length cl o) ++ ['>'])] ++ pointsBlock segs ++ paramsBlock params ++
        [sp 4 ++ '<' :: (('/' :: "Bezier".toList) ++ ['>'])] := by
  have e3 : "</Bezier>".toList = '<' :: (('/' :: "Bezier".toList) ++ ['>']) := by decide
  unfold writeBezier pointsBlock paramsBlock bezHead
  rw [bezHeader_eq, e3]
  simp only [List.append_assoc, List.cons_append, List.nil_append]
  rfl

theorem Run_points_block (sh : Shape) (dim sz : Nat) (cl : Bool) (o : Rat)
    (segs0 : List (List (List Rat) × List Rat)) (params : List Rat) (rs : List Frame) (node : Node) (b : Str)
    (below : List Str) (rows : List (List (List Rat) × List Rat)) (hlen : rows.length = sz)
    (hrows : ∀ sg ∈ rows, sg.2.length = 2 ∧ (∀ p ∈ sg.1, p.length = 2) ∧ sg.1.length < 2 ^ 64)
    (hfirst : ∀ sg, rows.head? = some sg → sg.1 = []) :
    Run (pointsBlock rows) (b :: below)
      (mkSt sh dim (Frame.bezier sz cl o segs0 params :: rs) node) (b :: below)
      (mkSt sh dim (Frame.bezier sz cl o (segs0 ++ rows) params :: rs) node) := by
  unfold pointsBlock
  have e1 : "<Points>".toList = '<' :: (('P' :: "oints".toList) ++ ['>']) := by decide
  have e2 : "</Points>".toList = '<' :: (('/' :: "Points".toList) ++ ['>']) := by decide
  rw [e1, e2]
  have hs : scanMarkup ('<' :: (('P' :: "oints".toList) ++ ['>'])) =
      .ok (some (⟨"Points".toList, [], false, false⟩ : Markup)) :=
    scanMarkup_open (nm := "Points".toList) (by decide)
  have r1 := Run_open_line (k := 6) (by decide) hs rfl rfl
    (fun line => openM_points sh dim sz cl o segs0 params rs node line) (b :: below)
  have r2 := Run_point_rows sh dim sz (Frame.bezier sz cl o segs0 params :: rs) node
    ("Points".toList :: b :: below) rows 0 [] hrows (fun _ => hfirst) (by omega)
  have r3 := Run_close_line (k := 6) (nm := "Points".toList) (by decide)
    (fun line => closeTop_points_frame sh dim sz (0 + rows.length) sz (rows.reverse ++ []) cl o segs0 params rs node
      line (by omega)) b below
  have := Run.append (Run.append r1 r2) r3
  simpa using this

theorem Run_params_block (sh : Shape) (dim sz : Nat) (cl : Bool) (o : Rat)
    (segs : List (List (List Rat) × List Rat)) (rs : List Frame) (node : Node) (b : Str)
    (below : List Str) (rows : List Rat) (hlen : rows = [] ∨ rows.length = sz) :
    Run (paramsBlock rows) (b :: below)
      (mkSt sh dim (Frame.bezier sz cl o segs [] :: rs) node) (b :: below)
      (mkSt sh dim (Frame.bezier sz cl o segs rows :: rs) node) := by
  unfold paramsBlock
  by_cases he : rows = []
  · subst he
    simpa using Run.nil _ _
  · have hlen' : rows.length = sz := by
      rcases hlen with h | h
      · exact absurd h he
      · exact h
    have hemp : rows.isEmpty = false := by cases rows <;> simp_all
    simp only [hemp, Bool.false_eq_true, if_false]
    have e1 : "<Params>".toList = '<' :: (('P' :: "arams".toList) ++ ['>']) := by decide
    have e2 : "</Params>".toList = '<' :: (('/' :: "Params".toList) ++ ['>']) := by decide
    rw [e1, e2]
    have hs : scanMarkup ('<' :: (('P' :: "arams".toList) ++ ['>'])) =
        .ok (some (⟨"Params".toList, [], false, false⟩ : Markup)) :=
      scanMarkup_open (nm := "Params".toList) (by decide)
    have r1 := Run_open_line (k := 6) (by decide) hs rfl rfl
      (fun line => openM_params sh dim sz cl o segs [] rs node line) (b :: below)
    have r2 := Run_param_rows sh dim sz (Frame.bezier sz cl o segs [] :: rs) node
      ("Params".toList :: b :: below) rows 0 [] (by omega)
    have r3 := Run_close_line (k := 6) (nm := "Params".toList) (by decide)
      (fun line => closeTop_params_frame sh dim sz (0 + rows.length) sz (rows.reverse ++ []) cl o segs [] rs node
        line (by omega)) b below
    have := Run.append (Run.append r1 r2) r3
    simpa using this

/-- **the whole `<Bezier>` block inside a `<Chart>`**: the chart is stored in the `ChartParser` -/
theorem Run_writeBezier (sh : Shape) (dim : Nat) (name : Str) (c0 : Option Chart) (rs : List Frame) (node : Node)
    (hw : node.wdim = 2) (b : Str) (below : List Str) (cl : Bool) (o : Rat) (segs : List (List (List Rat) × List Rat)) (params : List Rat)
    (hok : BezierOk cl o segs params) :
    Run (writeBezier cl o segs params) (b :: below)
      (mkSt sh dim (Frame.chart name c0 :: rs) node) (b :: below)
      (mkSt sh dim (Frame.chart name (some (Chart.bezier cl o segs params)) :: rs) node) := by
  obtain ⟨h2, h64, hfirst, hrows, hpar, ho⟩ := hok
  rw [writeBezier_eq]
  have r1 := Run_open_line (k := 4) (a := 'B') (by decide) (scan_bezier_line segs.length cl o) rfl rfl
    (fun line => openM_bezier sh dim name c0 rs node hw line segs.length cl o h2 h64 ho) (b :: below)
  have r2 := Run_points_block sh dim segs.length cl o [] [] (Frame.chart name c0 :: rs) node "Bezier".toList
    (b :: below) segs rfl hrows hfirst
  have r3 := Run_params_block sh dim segs.length cl o ([] ++ segs) (Frame.chart name c0 :: rs) node "Bezier".toList
    (b :: below) params hpar
  have hne : ([] ++ segs) ≠ [] := by
    intro e
    simp only [List.nil_append] at e
    subst e
    simp at h2
  have r4 := Run_close_line (k := 4) (nm := "Bezier".toList) (by decide)
    (fun line => closeTop_bezier_frame sh dim segs.length cl o ([] ++ segs) params name c0 rs node line hne) b below
  have := Run.append (Run.append (Run.append r1 r2) r3) r4
  simpa using this

/-! ## Part 4: no printed line contains a line break -/

theorem nl_writeBezier (cl : Bool) (o : Rat) (segs : List (List (List Rat) × List Rat)) (params : List Rat) :
    ∀ l ∈ writeBezier cl o segs params, '\n' ∉ l := by
  intro l hl
  rw [writeBezier_eq] at hl
  simp only [List.mem_append, List.mem_singleton] at hl
  rcases hl with ((rfl | hl) | hl) | rfl
  · refine nl_open_line 4 _ ?_
    have k1 : '\n' ∉ "ezier dim=\"2\" size=".toList := by decide
    have k2 : '\n' ∉ " type=".toList := by decide
    have k3 : '\n' ∉ tyStr cl := by cases cl <;> decide
    have k4 : '\n' ∉ (if o == -1 then " orientation=\"-1\"".toList else []) := by
      split
      · decide
      · exact List.not_mem_nil
    have : '\n' ∉ bezHead segs.length cl o :=
      nl_append (nl_append (nl_append (nl_append k1 (nl_q (nl_showNat _))) k2) (nl_q k3)) k4
    simp only [List.mem_cons, not_or]
    exact ⟨by decide, this⟩
  · simp only [pointsBlock, List.mem_append, List.mem_singleton, List.mem_map] at hl
    rcases hl with (rfl | ⟨sg, -, rfl⟩) | rfl
    · exact nl_append (nl_sp 6) (by decide)
    · exact nl_append (nl_sp 8) (nl_tokLine (ptToks_chars sg))
    · exact nl_append (nl_sp 6) (by decide)
  · unfold paramsBlock at hl
    split at hl
    · cases hl
    · simp only [List.mem_append, List.mem_singleton, List.mem_map] at hl
      rcases hl with (rfl | ⟨x, -, rfl⟩) | rfl
      · exact nl_append (nl_sp 6) (by decide)
      · exact nl_append (nl_sp 8) (nl_tokLine (fun c hc => Or.inr (tokChar_showQ x c hc)))
      · exact nl_append (nl_sp 6) (by decide)
  · exact nl_close_line 4 _ (by decide)

/-! ## Part 5: a `<Points>` block that is too short -/

theorem step_close_err {raw s nm : Str} {rest below : List Str} {i : Nat} {st : St} {e : Err}
    (htrim : trim raw = s) (hne : s ≠ []) (hcom : startsWith s "<!--".toList = false)
    (hs : scanMarkup s = .ok (some { name := nm, attrs := [], closed := false, termin := true }))
    (hc : closeTop st (i + 1) = .error e) :
    scanLoop meshClient (raw :: rest) i (nm :: below) st = .error e := by
  have he : s.isEmpty = false := by cases s <;> simp_all
  rw [scanLoop]
  simp only [htrim, he, hcom, hs, meshClient, hc, Bool.false_eq_true, if_false, if_true, bne_self_eq_false]

/-- **a `<Points>` block with fewer (well-formed) lines than the declared size cannot close**: whatever follows,
    the scanner stops with a grammar error in the line of `</Points>` -/
theorem points_block_short (sh : Shape) (dim sz : Nat) (cl : Bool) (o : Rat)
    (segs0 : List (List (List Rat) × List Rat)) (params : List Rat) (rs : List Frame) (node : Node) (b : Str)
    (below : List Str) (rows : List (List (List Rat) × List Rat)) (hlen : rows.length < sz)
    (hrows : ∀ sg ∈ rows, sg.2.length = 2 ∧ (∀ p ∈ sg.1, p.length = 2) ∧ sg.1.length < 2 ^ 64)
    (hfirst : ∀ sg, rows.head? = some sg → sg.1 = []) (tail : List Str) (i : Nat) :
    ∃ j, scanLoop meshClient (pointsBlock rows ++ tail) i (b :: below)
        (mkSt sh dim (Frame.bezier sz cl o segs0 params :: rs) node) = .error ⟨.grammar, j⟩ := by
  unfold pointsBlock
  have e1 : "<Points>".toList = '<' :: (('P' :: "oints".toList) ++ ['>']) := by decide
  have e2 : "</Points>".toList = '<' :: (('/' :: "Points".toList) ++ ['>']) := by decide
  rw [e1, e2]
  have hs : scanMarkup ('<' :: (('P' :: "oints".toList) ++ ['>'])) =
      .ok (some (⟨"Points".toList, [], false, false⟩ : Markup)) :=
    scanMarkup_open (nm := "Points".toList) (by decide)
  have r1 := Run_open_line (k := 6) (by decide) hs rfl rfl
    (fun line => openM_points sh dim sz cl o segs0 params rs node line) (b :: below)
  have r2 := Run_point_rows sh dim sz (Frame.bezier sz cl o segs0 params :: rs) node
    ("Points".toList :: b :: below) rows 0 [] hrows (fun _ => hfirst) (by omega)
  obtain ⟨j, hj⟩ := Run.append r1 r2 ([sp 6 ++ '<' :: (('/' :: "Points".toList) ++ ['>'])] ++ tail) i
  refine ⟨j + 1, ?_⟩
  rw [List.append_assoc, hj]
  have hct : closeTop (mkSt sh dim (Frame.bezierPoints sz (0 + rows.length) (rows.reverse ++ []) ::
      Frame.bezier sz cl o segs0 params :: rs) node) (j + 1) = .error ⟨.grammar, j + 1⟩ := by
    simp [closeTop, mkSt, hlen, gErr]
  exact step_close_err (rest := tail) (trim_markup_line 6 ('/' :: "Points".toList)) (by simp)
    (markup_not_comment (by decide)) (scanMarkup_terminator (by decide)) hct

end FeatModel.C11.BZ

/-! ## Part 6: malformed Bezier input is rejected -/

namespace FeatModel.C11

/-- a point line whose number of tokens does not match its announced number of control points
    (`1 + 2·(#control points + 1)`) is a content error -/
theorem contentM_bezier_wrong_coord_count (st : St) (line : Nat) (s : Str) (size read : Nat)
    (acc : List (List (List Rat) × List Rat)) (rest : List Frame) (nc : Nat)
    (hstack : st.stack = Frame.bezierPoints size read acc :: rest)
    (hnc : readIndex ((splitWs s).headD []) = some nc)
    (hlen : (splitWs s).length ≠ (nc + 1) * 2 + 1) :
    contentM st line s = cErr line := by
  have h : ((splitWs s).length != (nc + 1) * 2 + 1) = true := by simpa using hlen
  unfold contentM
  rw [hstack]
  simp only [hnc, h]
  repeat' split
  all_goals first | rfl | simp_all

/-- a first point line that announces control points is a content error ("First point must be a vertex point") -/
theorem contentM_bezier_first_not_vertex (st : St) (line : Nat) (s : Str) (size : Nat)
    (acc : List (List (List Rat) × List Rat)) (rest : List Frame) (nc : Nat)
    (hstack : st.stack = Frame.bezierPoints size 0 acc :: rest)
    (hnc : readIndex ((splitWs s).headD []) = some nc) (hpos : 0 < nc) :
    contentM st line s = cErr line := by
  have h : ((0 : Nat) == 0 && decide (nc > 0)) = true := by simpa using hpos
  unfold contentM
  rw [hstack]
  simp only [hnc, h]
  repeat' split
  all_goals first | rfl | simp_all

/-- more point lines than the declared size are a content error -/
theorem contentM_bezier_too_many_points (st : St) (line : Nat) (s : Str) (size read : Nat)
    (acc : List (List (List Rat) × List Rat)) (rest : List Frame)
    (hstack : st.stack = Frame.bezierPoints size read acc :: rest) (h : size ≤ read) :
    contentM st line s = cErr line := by
  have h' : read ≥ size := h
  unfold contentM
  rw [hstack]
  simp only [h', if_true]

/-- `</Points>` before the declared number of point lines has been read is a grammar error -/
theorem closeTop_bezier_points_short (st : St) (line : Nat) (size read sz : Nat)
    (acc : List (List (List Rat) × List Rat)) (cl : Bool) (o : Rat) (segs : List (List (List Rat) × List Rat))
    (params : List Rat) (rest : List Frame)
    (hstack : st.stack = Frame.bezierPoints size read acc :: Frame.bezier sz cl o segs params :: rest)
    (h : read < size) : closeTop st line = gErr line := by
  unfold closeTop
  rw [hstack]
  simp only [h, if_true]

/-- `</Params>` before the declared number of parameter lines has been read is a grammar error -/
theorem closeTop_bezier_params_short (st : St) (line : Nat) (size read sz : Nat)
    (acc : List Rat) (cl : Bool) (o : Rat) (segs : List (List (List Rat) × List Rat))
    (params : List Rat) (rest : List Frame)
    (hstack : st.stack = Frame.bezierParams size read acc :: Frame.bezier sz cl o segs params :: rest)
    (h : read < size) : closeTop st line = gErr line := by
  unfold closeTop
  rw [hstack]
  simp only [h, if_true]

/-- a `<Bezier>` whose `dim` attribute is not 2 is a grammar error -/
theorem openM_bezier_wrong_dim (st : St) (line : Nat) (m : Markup) (name : Str) (c0 : Option Chart)
    (rest : List Frame) (ds : Str) (d : Nat)
    (hstack : st.stack = Frame.chart name c0 :: rest) (hd : st.wdim = 2)
    (hn : String.ofList m.name = "Bezier")
    (hc : checkAttribs line (specOf "Bezier") m.attrs = .ok ())
    (hdim : attrOf m "dim" = some ds) (hrd : readIndex ds = some d) (hne : d ≠ 2) :
    openM st line m = gErr line := by
  have h : (d != 2) = true := by simpa using hne
  unfold openM
  rw [hstack]
  simp only [hn, hd, hc, hdim]
  simp
  repeat' split
  all_goals first | rfl | (simp_all [gErr]; done) | (simp_all [gErr]; intros; omega)

/-- a `<Bezier>` with fewer than two vertex points is a grammar error -/
theorem openM_bezier_small_size (st : St) (line : Nat) (m : Markup) (name : Str) (c0 : Option Chart)
    (rest : List Frame) (ss : Str) (size : Nat)
    (hstack : st.stack = Frame.chart name c0 :: rest) (hd : st.wdim = 2)
    (hn : String.ofList m.name = "Bezier")
    (hc : checkAttribs line (specOf "Bezier") m.attrs = .ok ())
    (hsize : attrOf m "size" = some ss) (hrd : readIndex ss = some size) (hlt : size < 2) :
    openM st line m = gErr line := by
  unfold openM
  rw [hstack]
  simp only [hn, hd, hc, hsize]
  simp
  repeat' split
  all_goals first | rfl | (simp_all [gErr]; done) | (simp_all [gErr]; intros; omega)

/-- a `<Bezier>` inside a chart of a mesh file whose world dimension is not 2 is a grammar error -/
theorem openM_bezier_wrong_file_dim (st : St) (line : Nat) (m : Markup) (name : Str) (c0 : Option Chart)
    (rest : List Frame) (hstack : st.stack = Frame.chart name c0 :: rest)
    (hn : String.ofList m.name = "Bezier") (hd : st.wdim ≠ 2) :
    openM st line m = gErr line := by
  have hd' : (st.wdim == 2) = false := by simpa using hd
  unfold openM
  rw [hstack]
  simp only [hn, hd']
  simp

end FeatModel.C11
