import FeatModel.Lemmas.C08IluSymbolic
import FeatModel.Lemmas.C08IluFactor
import FeatModel.Model.Solver.IluLevels
/-! C08: the level bookkeeping of `factorize_symbolic(p)`: `_insert` keeps the MINIMUM level of an entry, and the
computed pattern is exactly the textbook level-of-fill-`p` pattern (`levelTable`). -/
namespace FeatModel.Solver
open FeatModel.LA

/-- level stored for column `c` in the region `[b, idx.size)` of the parallel arrays `idx` / `lvl` (`none` = absent) -/
def regionLevel (idx lvl : Array Nat) (b c : Nat) : Option Nat :=
  match (List.range' b (idx.size - b)).find? (fun k => idx.getD k 0 == c) with
  | some k => some (lvl.getD k 0)
  | none => none

namespace Lev
open FeatModel.Solver.Sym FeatModel.Solver.Offs

/-! ### association lists `(column, level)` -/

theorem lookup_none_of_forall (x : Nat) (t : List (Nat × Nat)) (h : ∀ q ∈ t, q.1 ≠ x) : t.lookup x = none :=
  List.lookup_eq_none_iff.mpr (fun q hq => by simpa using (h q hq).symm)

theorem lookup_append_of_forall (x : Nat) (t1 t2 : List (Nat × Nat)) (h : ∀ q ∈ t1, q.1 ≠ x) :
    (t1 ++ t2).lookup x = t2.lookup x := by
  rw [List.lookup_append, lookup_none_of_forall x t1 h]
  rfl

theorem lookup_cons_ne (x c v : Nat) (t : List (Nat × Nat)) (h : x ≠ c) : ((c, v) :: t).lookup x = t.lookup x := by
  rw [List.lookup_cons]
  have : (x == c) = false := by simpa using h
  rw [this]

theorem lookup_append_cons_ne (x c v : Nat) (t1 t2 : List (Nat × Nat)) (h : x ≠ c) :
    (t1 ++ (c, v) :: t2).lookup x = (t1 ++ t2).lookup x := by
  rw [List.lookup_append, List.lookup_append, lookup_cons_ne x c v t2 h]

theorem lookup_cons_self (c v : Nat) (t : List (Nat × Nat)) : ((c, v) :: t).lookup c = some v := by
  rw [List.lookup_cons]
  simp

theorem lookup_of_mem (c l : Nat) : ∀ (t : List (Nat × Nat)), (t.map Prod.fst).Pairwise (· < ·) → (c, l) ∈ t →
    t.lookup c = some l
  | [], _, h => absurd h List.not_mem_nil
  | (k, v) :: t, hp, h => by
    rw [List.map_cons, List.pairwise_cons] at hp
    rcases List.mem_cons.mp h with h | h
    · injection h with h1 h2
      subst h1; subst h2
      exact lookup_cons_self _ _ _
    · have : k < c := hp.1 c (List.mem_map.mpr ⟨(c, l), h, rfl⟩)
      rw [lookup_cons_ne c k v t (by omega)]
      exact lookup_of_mem c l t hp.2 h

theorem mem_of_lookup (x l : Nat) : ∀ (t : List (Nat × Nat)), t.lookup x = some l → (x, l) ∈ t
  | [], h => by simp at h
  | (k, v) :: t, h => by
    by_cases hx : x = k
    · subst hx
      rw [lookup_cons_self] at h
      injection h with h
      subst h
      exact List.mem_cons_self
    · rw [lookup_cons_ne x k v t hx] at h
      exact List.mem_cons_of_mem _ (mem_of_lookup x l t h)

theorem lookup_none_iff (x : Nat) (t : List (Nat × Nat)) : t.lookup x = none ↔ x ∉ t.map Prod.fst := by
  constructor
  · intro h hm
    obtain ⟨q, hq, hqx⟩ := List.mem_map.mp hm
    have := List.lookup_eq_none_iff.mp h q hq
    simp at this
    exact this hqx.symm
  · intro h
    apply lookup_none_of_forall
    intro q hq hqx
    exact h (List.mem_map.mpr ⟨q, hq, hqx⟩)

theorem lookup_isSome_iff (x : Nat) (t : List (Nat × Nat)) : (t.lookup x).isSome = true ↔ x ∈ t.map Prod.fst := by
  cases h : t.lookup x with
  | none =>
    have := (lookup_none_iff x t).mp h
    simp only [Option.isSome_none, Bool.false_eq_true, false_iff]
    exact this
  | some l =>
    simp only [Option.isSome_some, true_iff]
    exact List.mem_map.mpr ⟨(x, l), mem_of_lookup x l t h, rfl⟩

theorem levMin_some (a b : Nat) : levMin (some a) (some b) = some (min a b) := rfl
theorem levMin_none_left (b : Option Nat) : levMin none b = b := rfl

theorem levMin_isSome_right (a : Option Nat) (b : Nat) : (levMin a (some b)).isSome = true := by
  cases a <;> rfl

theorem getD_append_cons (l1 l2 : List Nat) (v : Nat) : (l1 ++ v :: l2).getD l1.length 0 = v := by
  simp

theorem set_append_cons (l1 l2 : List Nat) (v w : Nat) : (l1 ++ v :: l2).set l1.length w = l1 ++ w :: l2 := by
  simp

theorem prefix_of_lt (pre X Y : List (Nat × Nat)) (c : Nat) (hpre : pre <+: X ++ Y) (hlt : ∀ q ∈ pre, q.1 < c)
    (hY : ∀ q ∈ Y, c ≤ q.1) : pre <+: X := by
  rcases List.prefix_or_prefix_of_prefix hpre (List.prefix_append X Y) with h | h
  · exact h
  · obtain ⟨r, hr⟩ := h
    subst hr
    cases r with
    | nil => simp
    | cons q r' =>
      have h1 : q :: r' <+: Y := (List.prefix_append_right_inj X).mp hpre
      have h2 : q ∈ Y := List.IsPrefix.mem List.mem_cons_self h1
      have h3 := hlt q (by simp)
      have h4 := hY q h2
      omega

/-! ### `_insert` on the pair view -/

/-- `_insert` on a tail given as a list of `(column, level)` pairs `a ++ b`, the search starting behind `a` -/
theorem insertEntry_pairs (idx lvl : Array Nat) (start c l : Nat) (p pv : List Nat) (a b : List (Nat × Nat))
    (h : idx.toList = p ++ (a ++ b).map Prod.fst) (hv : lvl.toList = pv ++ (a ++ b).map Prod.snd)
    (hpl : pv.length = p.length) (hs : start = p.length + a.length)
    (hpw : ((a ++ b).map Prod.fst).Pairwise (· < ·)) (ha : ∀ q ∈ a, q.1 < c) :
    ∃ a2 b2 : List (Nat × Nat), (insertEntry idx lvl start c l).1.toList = p ++ (a2 ++ b2).map Prod.fst ∧
      (insertEntry idx lvl start c l).2.1.toList = pv ++ (a2 ++ b2).map Prod.snd ∧
      (insertEntry idx lvl start c l).2.2 = p.length + a2.length ∧
      ((a2 ++ b2).map Prod.fst).Pairwise (· < ·) ∧ (∀ q ∈ a2, q.1 ≤ c) ∧
      (a2 ++ b2).lookup c = levMin ((a ++ b).lookup c) (some l) ∧
      (∀ x, x ≠ c → (a2 ++ b2).lookup x = (a ++ b).lookup x) ∧
      (∀ pre, pre <+: a ++ b → (∀ q ∈ pre, q.1 < c) → pre <+: a2 ++ b2) := by
  have hsz : idx.size = p.length + a.length + b.length := by
    rw [← Array.length_toList, h]; simp [Nat.add_assoc]
  obtain ⟨a', b', hb, hr, ha', ht, hf⟩ := insertSearch_spec idx c (idx.size - start) start (p ++ a.map Prod.fst)
    (b.map Prod.fst) (by rw [h]; simp) (by rw [hs]; simp) (by simp; omega)
  obtain ⟨b1, b2, hb12, hb1, hb2⟩ := List.map_eq_append_iff.mp hb
  subst hb12 hb1 hb2
  have hpos : (insertSearch idx c (idx.size - start) start).1 = p.length + a.length + b1.length := by
    rw [hr]; simp
  have hlt1 : ∀ q ∈ a ++ b1, q.1 < c := by
    intro q hq
    rcases List.mem_append.mp hq with hq | hq
    · exact ha q hq
    · exact ha' q.1 (List.mem_map.mpr ⟨q, hq, rfl⟩)
  have hne1 : ∀ q ∈ a ++ b1, q.1 ≠ c := fun q hq => Nat.ne_of_lt (hlt1 q hq)
  have ha2 : ∀ v, ∀ q ∈ a ++ b1 ++ [(c, v)], q.1 ≤ c := by
    intro v q hq
    rcases List.mem_append.mp hq with hq | hq
    · exact Nat.le_of_lt (hlt1 q hq)
    · rw [List.mem_singleton] at hq
      rw [hq]
  have hidx : idx.toList = (p ++ (a ++ b1).map Prod.fst) ++ b2.map Prod.fst := by rw [h]; simp
  have hlvl : lvl.toList = (pv ++ (a ++ b1).map Prod.snd) ++ b2.map Prod.snd := by rw [hv]; simp
  have hlen1 : (p ++ (a ++ b1).map Prod.fst).length = p.length + a.length + b1.length := by simp [Nat.add_assoc]
  have hlen2 : (pv ++ (a ++ b1).map Prod.snd).length = p.length + a.length + b1.length := by
    simp [Nat.add_assoc, hpl]
  unfold insertEntry
  simp only []
  split
  next hit =>
    obtain ⟨b'', hb''⟩ := ht hit
    cases b2 with
    | nil => simp at hb''
    | cons q0 b3 =>
      obtain ⟨c0, lv⟩ := q0
      have hc0 : c0 = c := by
        simp only [List.map_cons] at hb''
        injection hb'' with h1 _
      subst hc0
      have hget : lvl.getD (insertSearch idx c0 (idx.size - start) start).1 0 = lv := by
        rw [getD_toList, hlvl, hpos, ← hlen2]
        exact getD_append_cons _ _ _
      have hnew : (if l < lvl.getD (insertSearch idx c0 (idx.size - start) start).1 0 then
            lvl.setIfInBounds (insertSearch idx c0 (idx.size - start) start).1 l else lvl).toList
          = (pv ++ (a ++ b1).map Prod.snd) ++ min lv l :: b3.map Prod.snd := by
        rw [hget]
        split
        next hlt =>
          rw [Array.toList_setIfInBounds, hlvl, hpos, ← hlen2, List.map_cons, set_append_cons,
            Nat.min_eq_right (Nat.le_of_lt hlt)]
        next hlt =>
          rw [hlvl, List.map_cons, Nat.min_eq_left (by omega)]
      refine ⟨a ++ b1 ++ [(c0, min lv l)], b3, ?_, ?_, ?_, ?_, ha2 _, ?_, ?_, ?_⟩
      · rw [hidx]; simp
      · rw [hnew]; simp
      · rw [hpos]; simp [Nat.add_assoc]
      · have e : (a ++ b1 ++ [(c0, min lv l)] ++ b3).map Prod.fst = (a ++ (b1 ++ (c0, lv) :: b3)).map Prod.fst := by
          simp
        rw [e]; exact hpw
      · rw [show a ++ b1 ++ [(c0, min lv l)] ++ b3 = (a ++ b1) ++ (c0, min lv l) :: b3 by simp,
          show a ++ (b1 ++ (c0, lv) :: b3) = (a ++ b1) ++ (c0, lv) :: b3 by simp,
          lookup_append_of_forall c0 _ _ hne1, lookup_append_of_forall c0 _ _ hne1, lookup_cons_self,
          lookup_cons_self, levMin_some]
      · intro x hx
        rw [show a ++ b1 ++ [(c0, min lv l)] ++ b3 = (a ++ b1) ++ (c0, min lv l) :: b3 by simp,
          show a ++ (b1 ++ (c0, lv) :: b3) = (a ++ b1) ++ (c0, lv) :: b3 by simp,
          lookup_append_cons_ne x c0 _ _ _ hx, lookup_append_cons_ne x c0 _ _ _ hx]
      · intro pre hpre hlt
        have e : (a ++ (b1 ++ (c0, lv) :: b3)).map Prod.fst = (a ++ b1).map Prod.fst ++ c0 :: b3.map Prod.fst := by
          simp
        rw [e] at hpw
        have hgt := (List.pairwise_cons.mp (List.pairwise_append.mp hpw).2.1).1
        rw [show a ++ (b1 ++ (c0, lv) :: b3) = (a ++ b1) ++ (c0, lv) :: b3 by simp] at hpre
        have := prefix_of_lt pre (a ++ b1) _ c0 hpre hlt (by
          intro q hq
          rcases List.mem_cons.mp hq with hq | hq
          · rw [hq]
          · exact Nat.le_of_lt (hgt q.1 (List.mem_map.mpr ⟨q, hq, rfl⟩)))
        rw [show a ++ b1 ++ [(c0, min lv l)] ++ b3 = (a ++ b1) ++ ([(c0, min lv l)] ++ b3) by simp]
        exact this.trans (List.prefix_append _ _)
  next hit =>
    have hmiss : (insertSearch idx c (idx.size - start) start).2 = false := by simpa using hit
    have hpw' : ((a ++ b1).map Prod.fst ++ b2.map Prod.fst).Pairwise (· < ·) := by
      have e : (a ++ (b1 ++ b2)).map Prod.fst = (a ++ b1).map Prod.fst ++ b2.map Prod.fst := by simp
      rw [← e]; exact hpw
    obtain ⟨q1, q2, q3⟩ := List.pairwise_append.mp hpw'
    have hcb : ∀ y ∈ b2.map Prod.fst, c < y := by
      cases hb2 : b2.map Prod.fst with
      | nil => simp
      | cons y0 b'' =>
        have h0 := hf hmiss y0 b'' hb2
        rw [hb2] at q2
        intro y hy
        rcases List.mem_cons.mp hy with hy | hy
        · rw [hy]; exact h0
        · exact Nat.lt_trans h0 ((List.pairwise_cons.mp q2).1 y hy)
    have hne2 : ∀ q ∈ b2, q.1 ≠ c := by
      intro q hq
      have := hcb q.1 (List.mem_map.mpr ⟨q, hq, rfl⟩)
      omega
    refine ⟨a ++ b1 ++ [(c, l)], b2, ?_, ?_, ?_, ?_, ha2 _, ?_, ?_, ?_⟩
    · simp only [hpos, ← hlen1]
      rw [hidx, List.take_left' rfl, List.drop_left' rfl]
      simp
    · simp only [hpos, ← hlen2]
      rw [hlvl, List.take_left' rfl, List.drop_left' rfl]
      simp
    · rw [hpos]; simp [Nat.add_assoc]
    · have e : (a ++ b1 ++ [(c, l)] ++ b2).map Prod.fst = (a ++ b1).map Prod.fst ++ c :: b2.map Prod.fst := by simp
      rw [e, List.pairwise_append]
      refine ⟨q1, List.pairwise_cons.mpr ⟨hcb, q2⟩, ?_⟩
      intro x hx y hy
      rcases List.mem_cons.mp hy with hy | hy
      · rw [hy]
        obtain ⟨q, hq, hqx⟩ := List.mem_map.mp hx
        rw [← hqx]; exact hlt1 q hq
      · exact q3 x hx y hy
    · rw [show a ++ b1 ++ [(c, l)] ++ b2 = (a ++ b1) ++ (c, l) :: b2 by simp,
        show a ++ (b1 ++ b2) = (a ++ b1) ++ b2 by simp,
        lookup_append_of_forall c _ _ hne1, lookup_append_of_forall c _ _ hne1, lookup_cons_self,
        lookup_none_of_forall c b2 hne2, levMin_none_left]
    · intro x hx
      rw [show a ++ b1 ++ [(c, l)] ++ b2 = (a ++ b1) ++ (c, l) :: b2 by simp,
        show a ++ (b1 ++ b2) = (a ++ b1) ++ b2 by simp,
        lookup_append_cons_ne x c _ _ _ hx]
    · intro pre hpre hlt
      rw [show a ++ (b1 ++ b2) = (a ++ b1) ++ b2 by simp] at hpre
      have := prefix_of_lt pre (a ++ b1) _ c hpre hlt (by
        intro q hq
        exact Nat.le_of_lt (hcb q.1 (List.mem_map.mpr ⟨q, hq, rfl⟩)))
      rw [show a ++ b1 ++ [(c, l)] ++ b2 = (a ++ b1) ++ ([(c, l)] ++ b2) by simp]
      exact this.trans (List.prefix_append _ _)

/-! ### `regionLevel` on the pair view -/

theorem regionLevel_match_eq_lookup (idx lvl : Array Nat) (c : Nat) : ∀ (t : List (Nat × Nat)) (p pv : List Nat),
    idx.toList = p ++ t.map Prod.fst → lvl.toList = pv ++ t.map Prod.snd → pv.length = p.length →
    (match (List.range' p.length t.length).find? (fun k => idx.getD k 0 == c) with
      | some k => some (lvl.getD k 0)
      | none => none) = t.lookup c
  | [], _, _, _, _, _ => rfl
  | (x, v) :: t, p, pv, h, hv, hpl => by
    have hx : idx.getD p.length 0 = x := by
      rw [getD_toList, h, List.map_cons]; exact getD_append_cons _ _ _
    have hvv : lvl.getD p.length 0 = v := by
      rw [getD_toList, hv, List.map_cons, ← hpl]; exact getD_append_cons _ _ _
    have ih := regionLevel_match_eq_lookup idx lvl c t (p ++ [x]) (pv ++ [v]) (by rw [h]; simp) (by rw [hv]; simp)
      (by simp [hpl])
    rw [List.length_append, List.length_singleton] at ih
    rw [List.length_cons, List.range'_succ, List.find?_cons, hx]
    by_cases hxc : x = c
    · subst hxc
      rw [lookup_cons_self]
      simp [hvv]
    · have hf : (x == c) = false := by simpa using hxc
      rw [hf, lookup_cons_ne c x v t (Ne.symm hxc)]
      exact ih

theorem regionLevel_of_pairs (idx lvl : Array Nat) (b c : Nat) (t : List (Nat × Nat)) (p pv : List Nat)
    (h : idx.toList = p ++ t.map Prod.fst) (hv : lvl.toList = pv ++ t.map Prod.snd) (hpl : pv.length = p.length)
    (hb : b = p.length) : regionLevel idx lvl b c = t.lookup c := by
  have hsz : idx.size - b = t.length := by
    rw [← Array.length_toList, h, hb]; simp
  unfold regionLevel
  rw [hsz, hb]
  exact regionLevel_match_eq_lookup idx lvl c t p pv h hv hpl

theorem toList_eq_take_append_map (a : Array Nat) (b : Nat) (hb : b ≤ a.size) :
    a.toList = a.toList.take b ++ (List.range' b (a.size - b)).map (fun k => a.getD k 0) := by
  have hd : a.toList.drop b = (List.range' b (a.size - b)).map (fun k => a.getD k 0) := by
    apply List.ext_getElem
    · simp
    · intro d h1 h2
      simp only [List.getElem_drop, List.getElem_map, List.getElem_range', Nat.one_mul]
      rw [List.length_drop, Array.length_toList] at h1
      rw [Array.getD_eq_getD_getElem?, Array.getElem?_eq_getElem (by omega)]
      rfl
  rw [← hd, List.take_append_drop]

/-! ### the dense table -/

theorem ofFn_getD {n : Nat} (f : Fin n → Option Nat) (j : Nat) (h : j < n) : (Array.ofFn f).getD j none = f ⟨j, h⟩ := by
  rw [Array.getD_eq_getD_getElem?, Array.getElem?_ofFn, dif_pos h]; rfl

theorem getD_none_of_ge (a : Array (Option Nat)) (j : Nat) (h : a.size ≤ j) : a.getD j none = none := by
  rw [Array.getD_eq_getD_getElem?, Array.getElem?_eq_none h]; rfl

theorem levPivot_size (p : Nat) (rowK : Array (Option Nat)) (k : Nat) (row : Array (Option Nat)) :
    (levPivot p rowK k row).size = row.size := by
  unfold levPivot
  split
  · rfl
  · exact Array.size_ofFn

theorem levPivot_none (p : Nat) (rowK : Array (Option Nat)) (k : Nat) (row : Array (Option Nat))
    (h : row.getD k none = none) : levPivot p rowK k row = row := by
  unfold levPivot
  rw [h]

theorem levPivot_getD_some (p : Nat) (rowK : Array (Option Nat)) (k : Nat) (row : Array (Option Nat)) (lk j : Nat)
    (h : row.getD k none = some lk) (hj : j < row.size) :
    (levPivot p rowK k row).getD j none =
      if k < j then
        match rowK.getD j none with
        | some lkj => if lk + lkj + 1 ≤ p then levMin (row.getD j none) (some (lk + lkj + 1)) else row.getD j none
        | none => row.getD j none
      else row.getD j none := by
  unfold levPivot
  rw [h]
  simp only []
  rw [ofFn_getD _ j hj]
  rfl

theorem levPivot_getD_le (p : Nat) (rowK : Array (Option Nat)) (k : Nat) (row : Array (Option Nat)) (j : Nat)
    (hj : j ≤ k) : (levPivot p rowK k row).getD j none = row.getD j none := by
  cases h : row.getD k none with
  | none => rw [levPivot_none p rowK k row h]
  | some lk =>
    rcases Nat.lt_or_ge j row.size with hlt | hge
    · rw [levPivot_getD_some p rowK k row lk j h hlt, if_neg (by omega)]
    · rw [getD_none_of_ge _ j (by rw [levPivot_size]; exact hge), getD_none_of_ge _ j hge]

theorem levPivot_getD_noK (p : Nat) (rowK : Array (Option Nat)) (k : Nat) (row : Array (Option Nat)) (j : Nat)
    (hj : rowK.getD j none = none) : (levPivot p rowK k row).getD j none = row.getD j none := by
  cases h : row.getD k none with
  | none => rw [levPivot_none p rowK k row h]
  | some lk =>
    rcases Nat.lt_or_ge j row.size with hlt | hge
    · rw [levPivot_getD_some p rowK k row lk j h hlt, hj]
      simp
    · rw [getD_none_of_ge _ j (by rw [levPivot_size]; exact hge), getD_none_of_ge _ j hge]

theorem levPivot_getD_hit (p : Nat) (rowK : Array (Option Nat)) (k : Nat) (row : Array (Option Nat)) (lk lkj j : Nat)
    (h : row.getD k none = some lk) (hj : j < row.size) (hkj : k < j) (hK : rowK.getD j none = some lkj) :
    (levPivot p rowK k row).getD j none =
      if lk + lkj + 1 ≤ p then levMin (row.getD j none) (some (lk + lkj + 1)) else row.getD j none := by
  rw [levPivot_getD_some p rowK k row lk j h hj, if_pos hkj, hK]

theorem levPivot_diag (p : Nat) (rowK : Array (Option Nat)) (k : Nat) (row : Array (Option Nat)) (i : Nat)
    (hd : row.getD i none = some 0) : (levPivot p rowK k row).getD i none = some 0 := by
  cases h : row.getD k none with
  | none => rw [levPivot_none p rowK k row h]; exact hd
  | some lk =>
    rcases Nat.lt_or_ge i row.size with hlt | hge
    · rw [levPivot_getD_some p rowK k row lk i h hlt, hd]
      split
      · split
        · split
          · rw [levMin_some, Nat.zero_min]
          · rfl
        · rfl
      · rfl
    · rw [getD_none_of_ge _ i hge] at hd
      exact absurd hd (by simp)

theorem levPivot_zero (rowK : Array (Option Nat)) (k : Nat) (row : Array (Option Nat)) :
    levPivot 0 rowK k row = row := by
  apply Array.ext
  · exact levPivot_size _ _ _ _
  · intro j h1 h2
    have e : (levPivot 0 rowK k row).getD j none = row.getD j none := by
      cases h : row.getD k none with
      | none => rw [levPivot_none 0 rowK k row h]
      | some lk =>
        rw [levPivot_getD_some 0 rowK k row lk j h h2]
        split
        · split
          · rw [if_neg (by omega)]
          · rfl
        · rfl
    rw [Array.getD_eq_getD_getElem?, Array.getD_eq_getD_getElem?, Array.getElem?_eq_getElem h1,
      Array.getElem?_eq_getElem h2] at e
    exact e

theorem levRow_succ (p : Nat) (T : Array (Array (Option Nat))) (r0 : Array (Option Nat)) (c : Nat) :
    levRow p T r0 (c + 1) = levPivot p (T.getD c #[]) c (levRow p T r0 c) := by
  unfold levRow
  rw [List.range_succ, List.foldl_append]
  rfl

theorem levRow_zero (p : Nat) (T : Array (Array (Option Nat))) (r0 : Array (Option Nat)) : levRow p T r0 0 = r0 := rfl

theorem levRow_size (p : Nat) (T : Array (Array (Option Nat))) (r0 : Array (Option Nat)) :
    ∀ c, (levRow p T r0 c).size = r0.size
  | 0 => rfl
  | c + 1 => by rw [levRow_succ, levPivot_size, levRow_size p T r0 c]

theorem levRow_diag (p : Nat) (T : Array (Array (Option Nat))) (r0 : Array (Option Nat)) (i : Nat)
    (h : r0.getD i none = some 0) : ∀ c, (levRow p T r0 c).getD i none = some 0
  | 0 => h
  | c + 1 => by rw [levRow_succ]; exact levPivot_diag _ _ _ _ _ (levRow_diag p T r0 i h c)

/-- pivots whose level is `none` do nothing -/
theorem levRow_skip (p : Nat) (T : Array (Array (Option Nat))) (r0 : Array (Option Nat)) (c : Nat) :
    ∀ d, (∀ k, c ≤ k → k < c + d → (levRow p T r0 c).getD k none = none) → levRow p T r0 (c + d) = levRow p T r0 c
  | 0, _ => rfl
  | d + 1, h => by
    have ih := levRow_skip p T r0 c d (fun k h1 h2 => h k h1 (by omega))
    rw [← Nat.add_assoc, levRow_succ, ih]
    exact levPivot_none _ _ _ _ (h (c + d) (by omega) (by omega))

theorem levRow_zero_p (T : Array (Array (Option Nat))) (r0 : Array (Option Nat)) : ∀ c, levRow 0 T r0 c = r0
  | 0 => rfl
  | c + 1 => by rw [levRow_succ, levPivot_zero, levRow_zero_p T r0 c]

theorem levRow_congr (p : Nat) (T T' : Array (Array (Option Nat))) (r0 : Array (Option Nat)) (c : Nat)
    (h : ∀ k, k < c → T.getD k #[] = T'.getD k #[]) : levRow p T r0 c = levRow p T' r0 c := by
  unfold levRow
  apply List.foldl_ext
  intro a k hk
  rw [List.mem_range] at hk
  rw [h k hk]

/-- the table after `m` rows -/
def tabM (p : Nat) (s : IluSym) (m : Nat) : Array (Array (Option Nat)) :=
  (List.range m).foldl (fun done i => done.push (levRow p done (levRow0 s i) i)) #[]

theorem tabM_succ (p : Nat) (s : IluSym) (m : Nat) :
    tabM p s (m + 1) = (tabM p s m).push (levRow p (tabM p s m) (levRow0 s m) m) := by
  unfold tabM
  rw [List.range_succ, List.foldl_append]
  rfl

theorem tabM_size (p : Nat) (s : IluSym) : ∀ m, (tabM p s m).size = m
  | 0 => rfl
  | m + 1 => by rw [tabM_succ, Array.size_push, tabM_size p s m]

theorem tabM_getD (p : Nat) (s : IluSym) (i : Nat) : ∀ m, i < m →
    (tabM p s m).getD i #[] = levRow p (tabM p s i) (levRow0 s i) i
  | 0, h => absurd h (Nat.not_lt_zero _)
  | m + 1, h => by
    rw [tabM_succ, Array.getD_eq_getD_getElem?, Array.getElem?_push, tabM_size]
    by_cases him : i = m
    · subst him
      rw [if_pos rfl]
      rfl
    · rw [if_neg him, ← Array.getD_eq_getD_getElem?]
      exact tabM_getD p s i m (by omega)

/-- row `i` of the table is `levRow` against the table itself -/
theorem levelTable_row (p : Nat) (s : IluSym) (i : Nat) (hi : i < s.n) :
    (levelTable p s).getD i #[] = levRow p (levelTable p s) (levRow0 s i) i := by
  show (tabM p s s.n).getD i #[] = levRow p (tabM p s s.n) (levRow0 s i) i
  rw [tabM_getD p s i s.n hi]
  apply levRow_congr
  intro k hk
  rw [tabM_getD p s k i hk, tabM_getD p s k s.n (by omega)]

theorem levRow0_size (s : IluSym) (i : Nat) : (levRow0 s i).size = s.n := Array.size_ofFn

theorem levRow0_getD (s : IluSym) (i j : Nat) (hj : j < s.n) : (levRow0 s i).getD j none =
    if j = i then some 0
    else if (List.range' (s.rpL.getD i 0) (s.rpL.getD (i + 1) 0 - s.rpL.getD i 0)).any (fun k => s.ciL.getD k 0 == j)
      then some 0
    else if (List.range' (s.rpU.getD i 0) (s.rpU.getD (i + 1) 0 - s.rpU.getD i 0)).any (fun k => s.ciU.getD k 0 == j)
      then some 0
    else none := by
  unfold levRow0
  rw [ofFn_getD _ j hj]


/-! ### the `k` loop (one pivot) -/

theorem mem_fst_of_insert (t t' : List (Nat × Nat)) (c : Nat)
    (h : ∀ x, x ≠ c → t'.lookup x = t.lookup x) (q : Nat × Nat) (hq : q ∈ t') :
    q.1 = c ∨ ∃ q' ∈ t, q'.1 = q.1 := by
  by_cases hc : q.1 = c
  · exact Or.inl hc
  · right
    have h1 : (t'.lookup q.1).isSome = true := (lookup_isSome_iff q.1 t').mpr (List.mem_map.mpr ⟨q, hq, rfl⟩)
    rw [h q.1 hc, lookup_isSome_iff] at h1
    obtain ⟨q', hq', he⟩ := List.mem_map.mp h1
    exact ⟨q', hq', he⟩

/-- structural part of the invariant of the `k` loop on the pair view; the tails `tL`, `tU` are exposed, `pre` is a
    frozen prefix of the `L` tail -/
def KStruct (i n : Nat) (PL PVL PU PVU : Array Nat) (pre : List (Nat × Nat)) (e k : Nat) (c : SymCur)
    (tL tU : List (Nat × Nat)) : Prop :=
  ∃ aL bL aU bU : List (Nat × Nat), tL = aL ++ bL ∧ tU = aU ++ bU ∧
    c.idxL.toList = PL.toList ++ tL.map Prod.fst ∧ c.lvlL.toList = PVL.toList ++ tL.map Prod.snd ∧
    c.olj = PL.size + aL.length ∧
    c.idxU.toList = PU.toList ++ tU.map Prod.fst ∧ c.lvlU.toList = PVU.toList ++ tU.map Prod.snd ∧
    c.ouj = PU.size + aU.length ∧
    (tL.map Prod.fst).Pairwise (· < ·) ∧ (tU.map Prod.fst).Pairwise (· < ·) ∧
    (∀ q ∈ tL, q.1 < i) ∧ (∀ q ∈ tU, i < q.1 ∧ q.1 < n) ∧
    (∀ q ∈ aL, ∀ k', k ≤ k' → k' < e → q.1 < PU.getD k' 0) ∧
    (∀ q ∈ aU, ∀ k', k ≤ k' → k' < e → q.1 < PU.getD k' 0) ∧
    pre <+: tL

theorem symEntry_struct (pn i n lj : Nat) (PL PVL PU PVU : Array Nat) (hszL : PVL.size = PL.size)
    (hszU : PVU.size = PU.size) (pre : List (Nat × Nat)) (b e k : Nat) (c : SymCur) (tL tU : List (Nat × Nat))
    (hrow : ∀ k', b ≤ k' → k' < e → k' < PU.size ∧ PU.getD k' 0 < n)
    (hsrt : ∀ k' k'', b ≤ k' → k' < k'' → k'' < e → PU.getD k' 0 < PU.getD k'' 0)
    (hpre : ∀ q ∈ pre, ∀ k', b ≤ k' → k' < e → q.1 < PU.getD k' 0)
    (hb : b ≤ k) (hk : k < e) (h : KStruct i n PL PVL PU PVU pre e k c tL tU) :
    ∃ tL' tU' : List (Nat × Nat), KStruct i n PL PVL PU PVU pre e (k + 1) (symEntry pn i lj c k) tL' tU' ∧
      (∀ x, tL'.lookup x = if x = PU.getD k 0 ∧ PU.getD k 0 < i ∧ lj + PVU.getD k 0 + 1 ≤ pn
          then levMin (tL.lookup x) (some (lj + PVU.getD k 0 + 1)) else tL.lookup x) ∧
      (∀ x, tU'.lookup x = if x = PU.getD k 0 ∧ i < PU.getD k 0 ∧ lj + PVU.getD k 0 + 1 ≤ pn
          then levMin (tU.lookup x) (some (lj + PVU.getD k 0 + 1)) else tU.lookup x) := by
  obtain ⟨aL, bL, aU, bU, rfl, rfl, hL, hvL, ho, hU, hvU, hu, pwL, pwU, bdL, bdU, hxL, hxU, hp⟩ := h
  have hck : c.idxU.getD k 0 = PU.getD k 0 := arr_getD_left c.idxU PU _ hU k (hrow k hb hk).1
  have hlk : c.lvlU.getD k 0 = PVU.getD k 0 :=
    arr_getD_left c.lvlU PVU _ hvU k (by rw [hszU]; exact (hrow k hb hk).1)
  have hxL' : ∀ q ∈ aL, ∀ k', k + 1 ≤ k' → k' < e → q.1 < PU.getD k' 0 :=
    fun q hq k' h1 h2 => hxL q hq k' (by omega) h2
  have hxU' : ∀ q ∈ aU, ∀ k', k + 1 ≤ k' → k' < e → q.1 < PU.getD k' 0 :=
    fun q hq k' h1 h2 => hxU q hq k' (by omega) h2
  have hnew : ∀ (a2 : List (Nat × Nat)), (∀ q ∈ a2, q.1 ≤ PU.getD k 0) →
      ∀ q ∈ a2, ∀ k', k + 1 ≤ k' → k' < e → q.1 < PU.getD k' 0 := by
    intro a2 h4 q hq k' h1 h2
    exact Nat.lt_of_le_of_lt (h4 q hq) (hsrt k k' hb (by omega) h2)
  unfold symEntry
  simp only []
  rw [hck, hlk]
  split
  next hgt =>
    refine ⟨aL ++ bL, aU ++ bU, ⟨aL, bL, aU, bU, rfl, rfl, hL, hvL, ho, hU, hvU, hu, pwL, pwU, bdL, bdU, hxL', hxU', hp⟩,
      ?_, ?_⟩
    · intro x; rw [if_neg (by omega)]
    · intro x; rw [if_neg (by omega)]
  next hgt =>
    split
    next hlt =>
      obtain ⟨a2, b2, h1, h2, h3, h4, h5, h6, h7, h8⟩ := insertEntry_pairs c.idxL c.lvlL c.olj (PU.getD k 0)
        (lj + PVU.getD k 0 + 1) PL.toList PVL.toList aL bL hL hvL (by simp [hszL]) (by rw [ho]; simp) pwL
        (fun q hq => hxL q hq k (Nat.le_refl _) hk)
      refine ⟨a2 ++ b2, aU ++ bU, ⟨a2, b2, aU, bU, rfl, rfl, h1, h2, by rw [h3]; simp, hU, hvU, hu, h4, pwU, ?_, bdU,
        hnew a2 h5, hxU', h8 pre hp (fun q hq => hpre q hq k hb hk)⟩, ?_, ?_⟩
      · intro q hq
        rcases mem_fst_of_insert _ _ _ h7 q hq with hq | ⟨q', hq', he⟩
        · rw [hq]; exact hlt
        · rw [← he]; exact bdL q' hq'
      · intro x
        by_cases hx : x = PU.getD k 0
        · rw [if_pos ⟨hx, hlt, by omega⟩, hx, h6]
        · rw [if_neg (fun hh => hx hh.1), h7 x hx]
      · intro x; rw [if_neg (by omega)]
    next hlt =>
      split
      next hgt2 =>
        obtain ⟨a2, b2, h1, h2, h3, h4, h5, h6, h7, h8⟩ := insertEntry_pairs c.idxU c.lvlU c.ouj (PU.getD k 0)
          (lj + PVU.getD k 0 + 1) PU.toList PVU.toList aU bU hU hvU (by simp [hszU]) (by rw [hu]; simp) pwU
          (fun q hq => hxU q hq k (Nat.le_refl _) hk)
        refine ⟨aL ++ bL, a2 ++ b2, ⟨aL, bL, a2, b2, rfl, rfl, hL, hvL, ho, h1, h2, by rw [h3]; simp, pwL, h4, bdL, ?_,
          hxL', hnew a2 h5, hp⟩, ?_, ?_⟩
        · intro q hq
          rcases mem_fst_of_insert _ _ _ h7 q hq with hq | ⟨q', hq', he⟩
          · rw [hq]; exact ⟨hgt2, (hrow k hb hk).2⟩
          · rw [← he]; exact bdU q' hq'
        · intro x; rw [if_neg (by omega)]
        · intro x
          by_cases hx : x = PU.getD k 0
          · rw [if_pos ⟨hx, hgt2, by omega⟩, hx, h6]
          · rw [if_neg (fun hh => hx hh.1), h7 x hx]
      next hgt2 =>
        refine ⟨aL ++ bL, aU ++ bU, ⟨aL, bL, aU, bU, rfl, rfl, hL, hvL, ho, hU, hvU, hu, pwL, pwU, bdL, bdU, hxL', hxU',
          hp⟩, ?_, ?_⟩
        · intro x; rw [if_neg (by omega)]
        · intro x; rw [if_neg (by omega)]

/-- column `x` of the sparse row: already updated to the pivoted dense row `P` if `x` is among the `U` entries
    `[b, k)` of the pivot row, still the old dense row `G` otherwise -/
def Upd (PU : Array Nat) (b k : Nat) (G P : Array (Option Nat)) (t : List (Nat × Nat)) (x : Nat) : Prop :=
  (∀ k', b ≤ k' → k' < k → PU.getD k' 0 = x → t.lookup x = P.getD x none) ∧
  ((∀ k', b ≤ k' → k' < k → PU.getD k' 0 ≠ x) → t.lookup x = G.getD x none)

theorem Upd.base (PU : Array Nat) (b : Nat) (G P : Array (Option Nat)) (t : List (Nat × Nat)) (x : Nat)
    (h : t.lookup x = G.getD x none) : Upd PU b b G P t x :=
  ⟨fun k' h1 h2 => by omega, fun _ => h⟩

theorem Upd.step {PU : Array Nat} {b k : Nat} {G P : Array (Option Nat)} {t t' : List (Nat × Nat)} {x : Nat} (e : Nat)
    (hsrt : ∀ k' k'', b ≤ k' → k' < k'' → k'' < e → PU.getD k' 0 < PU.getD k'' 0) (hb : b ≤ k) (hk : k < e)
    (h : Upd PU b k G P t x) (h1 : x = PU.getD k 0 → t.lookup x = G.getD x none → t'.lookup x = P.getD x none)
    (h2 : x ≠ PU.getD k 0 → t'.lookup x = t.lookup x) : Upd PU b (k + 1) G P t' x := by
  constructor
  · intro k' hk1 hk2 hk3
    by_cases hkk : k' = k
    · subst hkk
      refine h1 hk3.symm (h.2 ?_)
      intro k'' q1 q2 q3
      have := hsrt k'' k' q1 q2 hk
      omega
    · have hlt := hsrt k' k hk1 (by omega) hk
      rw [h2 (by omega)]
      exact h.1 k' hk1 (by omega) hk3
  · intro hall
    rw [h2 (fun hh => hall k hb (Nat.lt_succ_self _) hh.symm)]
    exact h.2 (fun k' q1 q2 => hall k' q1 (by omega))


/-- the whole `k` loop for one pivot: the sparse row follows the dense pivot step -/
theorem kloop_lev (pn i n lj : Nat) (PL PVL PU PVU : Array Nat) (hszL : PVL.size = PL.size)
    (hszU : PVU.size = PU.size) (pre : List (Nat × Nat)) (b e : Nat) (hbe : b ≤ e) (G P : Array (Option Nat))
    (hrow : ∀ k', b ≤ k' → k' < e → k' < PU.size ∧ PU.getD k' 0 < n)
    (hsrt : ∀ k' k'', b ≤ k' → k' < k'' → k'' < e → PU.getD k' 0 < PU.getD k'' 0)
    (hpre : ∀ q ∈ pre, ∀ k', b ≤ k' → k' < e → q.1 < PU.getD k' 0)
    (hP : ∀ k, b ≤ k → k < e → P.getD (PU.getD k 0) none =
      if lj + PVU.getD k 0 + 1 ≤ pn then levMin (G.getD (PU.getD k 0) none) (some (lj + PVU.getD k 0 + 1))
      else G.getD (PU.getD k 0) none)
    (c0 : SymCur) (tL tU : List (Nat × Nat)) (h0 : KStruct i n PL PVL PU PVU pre e b c0 tL tU)
    (hGL : ∀ x, x < i → tL.lookup x = G.getD x none) (hGU : ∀ x, i < x → x < n → tU.lookup x = G.getD x none) :
    ∃ tL' tU' : List (Nat × Nat), KStruct i n PL PVL PU PVU pre e e (foldRange b e (symEntry pn i lj) c0) tL' tU' ∧
      (∀ x, x < i → Upd PU b e G P tL' x) ∧ (∀ x, i < x → x < n → Upd PU b e G P tU' x) := by
  refine foldRange_induct (fun k y => ∃ tL' tU' : List (Nat × Nat), KStruct i n PL PVL PU PVU pre e k y tL' tU' ∧
      (∀ x, x < i → Upd PU b k G P tL' x) ∧ (∀ x, i < x → x < n → Upd PU b k G P tU' x))
    (symEntry pn i lj) b e c0 hbe
    ⟨tL, tU, h0, fun x hx => Upd.base _ _ _ _ _ _ (hGL x hx), fun x hx hxn => Upd.base _ _ _ _ _ _ (hGU x hx hxn)⟩ ?_
  intro k y hbk hke ⟨t1, t2, hs, hu1, hu2⟩
  obtain ⟨t1', t2', hs', hl1, hl2⟩ := symEntry_struct pn i n lj PL PVL PU PVU hszL hszU pre b e k y t1 t2 hrow hsrt hpre
    hbk hke hs
  refine ⟨t1', t2', hs', ?_, ?_⟩
  · intro x hx
    refine Upd.step e hsrt hbk hke (hu1 x hx) ?_ ?_
    · intro hxk hold
      rw [hl1 x, hold]
      subst hxk
      rw [hP k hbk hke]
      by_cases hll : lj + PVU.getD k 0 + 1 ≤ pn
      · rw [if_pos ⟨rfl, hx, hll⟩, if_pos hll]
      · rw [if_neg (fun hh => hll hh.2.2), if_neg hll]
    · intro hxk
      rw [hl1 x, if_neg (fun hh => hxk hh.1)]
  · intro x hx hxn
    refine Upd.step e hsrt hbk hke (hu2 x hx hxn) ?_ ?_
    · intro hxk hold
      rw [hl2 x, hold]
      subst hxk
      rw [hP k hbk hke]
      by_cases hll : lj + PVU.getD k 0 + 1 ≤ pn
      · rw [if_pos ⟨rfl, hx, hll⟩, if_pos hll]
      · rw [if_neg (fun hh => hll hh.2.2), if_neg hll]
    · intro hxk
      rw [hl2 x, if_neg (fun hh => hxk hh.1)]


/-! ### the `j` loop (all pivots of one row) -/

/-- the finished `U` rows `< i` (arrays `PU` / `PVU` with offsets `ptrU`) store exactly the rows of the dense table -/
structure Done (i n : Nat) (PL PVL PU PVU ptrU : Array Nat) (T : Array (Array (Option Nat))) : Prop where
  hin : i < n
  szL : PVL.size = PL.size
  szU : PVU.size = PU.size
  hptr : ptrU.getD i 0 = PU.size
  mono : ∀ r, r < i → ptrU.getD r 0 ≤ ptrU.getD (r + 1) 0
  hrow : ∀ r, r < i → ∀ k, ptrU.getD r 0 ≤ k → k < ptrU.getD (r + 1) 0 →
    k < PU.size ∧ r < PU.getD k 0 ∧ PU.getD k 0 < n
  hsrt : ∀ r, r < i → ∀ k k', ptrU.getD r 0 ≤ k → k < k' → k' < ptrU.getD (r + 1) 0 → PU.getD k 0 < PU.getD k' 0
  hit : ∀ r, r < i → ∀ k, ptrU.getD r 0 ≤ k → k < ptrU.getD (r + 1) 0 →
    (T.getD r #[]).getD (PU.getD k 0) none = some (PVU.getD k 0)
  miss : ∀ r, r < i → ∀ x, r < x → x < n → (∀ k, ptrU.getD r 0 ≤ k → k < ptrU.getD (r + 1) 0 → PU.getD k 0 ≠ x) →
    (T.getD r #[]).getD x none = none

/-- sparse current row = dense row `G` -/
structure Corr (i n : Nat) (tL tU : List (Nat × Nat)) (G : Array (Option Nat)) : Prop where
  pwL : (tL.map Prod.fst).Pairwise (· < ·)
  pwU : (tU.map Prod.fst).Pairwise (· < ·)
  bL : ∀ q ∈ tL, q.1 < i
  bU : ∀ q ∈ tU, i < q.1 ∧ q.1 < n
  sz : G.size = n
  diag : G.getD i none = some 0
  eL : ∀ x, x < i → tL.lookup x = G.getD x none
  eU : ∀ x, i < x → x < n → tU.lookup x = G.getD x none

/-- invariant of the `j` loop: all pivots `< cc` are eliminated, the `L` entries before position `j` are `< cc`, the
    others `≥ cc` -/
def LoopInv (pn i n : Nat) (PL PVL PU PVU : Array Nat) (T : Array (Array (Option Nat))) (r0 : Array (Option Nat))
    (j cc : Nat) (c : SymCur) : Prop :=
  ∃ tL tU : List (Nat × Nat),
    c.idxL.toList = PL.toList ++ tL.map Prod.fst ∧ c.lvlL.toList = PVL.toList ++ tL.map Prod.snd ∧
    c.idxU.toList = PU.toList ++ tU.map Prod.fst ∧ c.lvlU.toList = PVU.toList ++ tU.map Prod.snd ∧
    Corr i n tL tU (levRow pn T r0 cc) ∧ PL.size ≤ j ∧ cc ≤ i ∧
    (∀ q ∈ tL.take (j - PL.size), q.1 < cc) ∧ (∀ q ∈ tL.drop (j - PL.size), cc ≤ q.1)

theorem symRowLoop_lev (pn i n : Nat) (PL PVL PU PVU ptrU : Array Nat) (T : Array (Array (Option Nat)))
    (r0 : Array (Option Nat)) (hd : Done i n PL PVL PU PVU ptrU T) :
    ∀ (f j cc : Nat) (c : SymCur), i < cc + f → LoopInv pn i n PL PVL PU PVU T r0 j cc c →
      ∃ tL tU : List (Nat × Nat),
        (symRowLoop pn i ptrU f j c).idxL.toList = PL.toList ++ tL.map Prod.fst ∧
        (symRowLoop pn i ptrU f j c).lvlL.toList = PVL.toList ++ tL.map Prod.snd ∧
        (symRowLoop pn i ptrU f j c).idxU.toList = PU.toList ++ tU.map Prod.fst ∧
        (symRowLoop pn i ptrU f j c).lvlU.toList = PVU.toList ++ tU.map Prod.snd ∧
        Corr i n tL tU (levRow pn T r0 i)
  | 0, j, cc, c, hf, h => by
    obtain ⟨_, _, _, _, _, _, _, _, hcc, _, _⟩ := h
    omega
  | f + 1, j, cc, c, hf, h => by
    obtain ⟨tL, tU, hL, hvL, hU, hvU, hc, hj, hcc, hlo, hhi⟩ := h
    have hsz : c.idxL.size = PL.size + tL.length := by
      have := arr_size c.idxL PL _ hL
      rwa [List.length_map] at this
    rw [symRowLoop]
    by_cases hjs : j < c.idxL.size
    · rw [if_pos hjs]
      simp only []
      have hdlt : j - PL.size < tL.length := by omega
      have hcj : c.idxL.getD j 0 = (tL[j - PL.size]).1 := by
        rw [arr_getD_right c.idxL PL _ hL j hj]
        simp [List.getD_eq_getElem?_getD, hdlt]
      have hlj : c.lvlL.getD j 0 = (tL[j - PL.size]).2 := by
        rw [arr_getD_right c.lvlL PVL _ hvL j (by rw [hd.szL]; exact hj), hd.szL]
        simp [List.getD_eq_getElem?_getD, hdlt]
      generalize hdd : j - PL.size = d at hdlt hcj hlj hlo hhi
      obtain ⟨cj, lj, hq⟩ : ∃ cj lj, tL[d] = (cj, lj) := ⟨_, _, rfl⟩
      rw [hq] at hcj hlj
      simp only [] at hcj hlj
      rw [hcj, hlj]
      have hmem : (cj, lj) ∈ tL := by rw [← hq]; exact List.getElem_mem hdlt
      have hdrop : tL.drop d = (cj, lj) :: tL.drop (d + 1) := by rw [List.drop_eq_getElem_cons hdlt, hq]
      have hsplit : tL = tL.take d ++ (cj, lj) :: tL.drop (d + 1) := by rw [← hdrop, List.take_append_drop]
      have hcji : cj < i := hc.bL _ hmem
      have hccj : cc ≤ cj := hhi (cj, lj) (by rw [hdrop]; exact List.mem_cons_self)
      have hgt : ∀ q ∈ tL.drop (d + 1), cj < q.1 := by
        intro q hq'
        have hp := hc.pwL
        rw [hsplit, List.map_append, List.map_cons, List.pairwise_append] at hp
        exact (List.pairwise_cons.mp hp.2.1).1 q.1 (List.mem_map.mpr ⟨q, hq', rfl⟩)
      -- the pivots in `[cc, cj)` are absent
      have hskip : levRow pn T r0 cj = levRow pn T r0 cc := by
        have := levRow_skip pn T r0 cc (cj - cc) (by
          intro k hk1 hk2
          rw [← hc.eL k (by omega)]
          apply lookup_none_of_forall
          intro q hq'
          rw [← List.take_append_drop d tL] at hq'
          rcases List.mem_append.mp hq' with hq' | hq'
          · have := hlo q hq'; omega
          · rw [hdrop] at hq'
            rcases List.mem_cons.mp hq' with hq' | hq'
            · rw [hq']; simp only []; omega
            · have := hgt q hq'; omega)
        rwa [show cc + (cj - cc) = cj by omega] at this
      have hc' : Corr i n tL tU (levRow pn T r0 cj) := by rw [hskip]; exact hc
      have hGcj : (levRow pn T r0 cj).getD cj none = some lj := by
        rw [← hc'.eL cj hcji]; exact lookup_of_mem cj lj tL hc.pwL hmem
      have hrow' := hd.hrow cj hcji
      have hsrt' := hd.hsrt cj hcji
      have hit' := hd.hit cj hcji
      have hmiss' := hd.miss cj hcji
      have hbe := hd.mono cj hcji
      generalize ptrU.getD cj 0 = b at hrow' hsrt' hit' hmiss' hbe
      generalize ptrU.getD (cj + 1) 0 = e at hrow' hsrt' hit' hmiss' hbe
      have hpre : ∀ q ∈ tL.take (d + 1), q.1 ≤ cj := by
        intro q hq'
        rw [List.take_succ_eq_append_getElem hdlt, hq] at hq'
        rcases List.mem_append.mp hq' with hq' | hq'
        · have := hlo q hq'; omega
        · rw [List.mem_singleton] at hq'; rw [hq']
      obtain ⟨tL', tU', hs, huL, huU⟩ := kloop_lev pn i n lj PL PVL PU PVU hd.szL hd.szU (tL.take (d + 1)) b e hbe
        (levRow pn T r0 cj) (levRow pn T r0 (cj + 1))
        (fun k' q1 q2 => ⟨(hrow' k' q1 q2).1, (hrow' k' q1 q2).2.2⟩) hsrt'
        (fun q hq' k' q1 q2 => Nat.lt_of_le_of_lt (hpre q hq') (hrow' k' q1 q2).2.1)
        (by
          intro k q1 q2
          rw [levRow_succ]
          exact levPivot_getD_hit pn _ cj _ lj (PVU.getD k 0) (PU.getD k 0) hGcj
            (by rw [hc'.sz]; exact (hrow' k q1 q2).2.2) (hrow' k q1 q2).2.1 (hit' k q1 q2))
        { c with olj := j, ouj := ptrU.getD i 0 } tL tU
        ⟨tL.take d, tL.drop d, [], tU, (List.take_append_drop d tL).symm, rfl, hL, hvL,
          by show j = _; rw [List.length_take]; omega, hU, hvU, by show ptrU.getD i 0 = _; rw [hd.hptr]; rfl,
          hc.pwL, hc.pwU, hc.bL, hc.bU,
          fun q hq' k' q1 q2 => by have := hlo q hq'; have := (hrow' k' q1 q2).2.1; omega,
          fun q hq' => absurd hq' List.not_mem_nil, List.take_prefix _ _⟩
        hc'.eL hc'.eU
      obtain ⟨aL, bL, aU, bU, _, _, hL', hvL', _, hU', hvU', _, pwL', pwU', bdL', bdU', _, _, hpf⟩ := hs
      have hlen : (tL.take (d + 1)).length = d + 1 := by rw [List.length_take]; omega
      have htk : tL'.take (d + 1) = tL.take (d + 1) := by
        have := List.prefix_iff_eq_take.mp hpf
        rw [hlen] at this
        exact this.symm
      refine symRowLoop_lev pn i n PL PVL PU PVU ptrU T r0 hd f (j + 1) (cj + 1) _ (by omega)
        ⟨tL', tU', hL', hvL', hU', hvU', ⟨pwL', pwU', bdL', bdU', ?_, ?_, ?_, ?_⟩, by omega, by omega, ?_, ?_⟩
      · exact (levRow_size pn T r0 (cj + 1)).trans ((levRow_size pn T r0 cc).symm.trans hc.sz)
      · rw [levRow_succ]; exact levPivot_diag _ _ _ _ _ hc'.diag
      · intro x hx
        by_cases hex : ∃ k', b ≤ k' ∧ k' < e ∧ PU.getD k' 0 = x
        · obtain ⟨k', q1, q2, q3⟩ := hex
          exact (huL x hx).1 k' q1 q2 q3
        · rw [(huL x hx).2 (fun k' q1 q2 q3 => hex ⟨k', q1, q2, q3⟩), levRow_succ]
          rcases Nat.lt_or_ge cj x with hlt | hge
          · rw [levPivot_getD_noK _ _ _ _ _ (hmiss' x hlt (by have := hd.hin; omega) (fun k' q1 q2 q3 => hex ⟨k', q1, q2, q3⟩))]
          · rw [levPivot_getD_le _ _ _ _ _ hge]
      · intro x hx hxn
        by_cases hex : ∃ k', b ≤ k' ∧ k' < e ∧ PU.getD k' 0 = x
        · obtain ⟨k', q1, q2, q3⟩ := hex
          exact (huU x hx hxn).1 k' q1 q2 q3
        · rw [(huU x hx hxn).2 (fun k' q1 q2 q3 => hex ⟨k', q1, q2, q3⟩), levRow_succ,
            levPivot_getD_noK _ _ _ _ _ (hmiss' x (by omega) hxn (fun k' q1 q2 q3 => hex ⟨k', q1, q2, q3⟩))]
      · intro q hq'
        rw [show j + 1 - PL.size = d + 1 by omega, htk] at hq'
        have := hpre q hq'
        omega
      · intro q hq'
        rw [show j + 1 - PL.size = d + 1 by omega] at hq'
        rw [← List.take_append_drop (d + 1) tL', htk, List.map_append, List.pairwise_append] at pwL'
        have hm : cj ∈ (tL.take (d + 1)).map Prod.fst := by
          rw [List.take_succ_eq_append_getElem hdlt, hq]
          simp
        exact pwL'.2.2 cj hm q.1 (List.mem_map.mpr ⟨q, hq', rfl⟩)
    · rw [if_neg hjs]
      have hall : ∀ q ∈ tL, q.1 < cc := by
        intro q hq'
        rw [List.take_of_length_le (by omega)] at hlo
        exact hlo q hq'
      have hfin : levRow pn T r0 i = levRow pn T r0 cc := by
        have := levRow_skip pn T r0 cc (i - cc) (by
          intro k hk1 hk2
          rw [← hc.eL k (by omega)]
          apply lookup_none_of_forall
          intro q hq'
          have := hall q hq'
          omega)
        rwa [show cc + (i - cc) = i by omega] at this
      exact ⟨tL, tU, hL, hvL, hU, hvU, by rw [hfin]; exact hc⟩


/-! ### finished rows -/

/-- the rows `< m` of one of the two growing structures store exactly the levels `lev r x` of the columns `x` with
    `Q r x` -/
structure RowsLev (n : Nat) (Q : Nat → Nat → Prop) (ptr idx lvl : Array Nat) (lev : Nat → Nat → Option Nat)
    (m : Nat) : Prop where
  sz : lvl.size = idx.size
  hit : ∀ r, r < m → ∀ k, ptr.getD r 0 ≤ k → k < ptr.getD (r + 1) 0 → lev r (idx.getD k 0) = some (lvl.getD k 0)
  miss : ∀ r, r < m → ∀ x, Q r x → x < n →
    (∀ k, ptr.getD r 0 ≤ k → k < ptr.getD (r + 1) 0 → idx.getD k 0 ≠ x) → lev r x = none

theorem RowsLev.base (n : Nat) (Q : Nat → Nat → Prop) (lev : Nat → Nat → Option Nat) :
    RowsLev n Q #[0] #[] #[] lev 0 :=
  ⟨rfl, fun _ hr => absurd hr (Nat.not_lt_zero _), fun _ hr => absurd hr (Nat.not_lt_zero _)⟩

theorem RowsLev.push {n : Nat} {Q : Nat → Nat → Prop} {ptr idx lvl : Array Nat} {lev : Nat → Nat → Option Nat}
    {m : Nat} (h : RowsLev n Q ptr idx lvl lev m) (hoff : OffInv ptr m idx.size) (idx' lvl' : Array Nat)
    (t : List (Nat × Nat)) (ht : idx'.toList = idx.toList ++ t.map Prod.fst)
    (hv : lvl'.toList = lvl.toList ++ t.map Prod.snd) (hpw : (t.map Prod.fst).Pairwise (· < ·))
    (hlk : ∀ x, Q m x → x < n → t.lookup x = lev m x) (hq : ∀ q ∈ t, Q m q.1 ∧ q.1 < n) :
    RowsLev n Q (ptr.push idx'.size) idx' lvl' lev (m + 1) := by
  have hsz : idx'.size = idx.size + t.length := by
    have := arr_size idx' idx _ ht
    rwa [List.length_map] at this
  have hszv : lvl'.size = lvl.size + t.length := by
    have := arr_size lvl' lvl _ hv
    rwa [List.length_map] at this
  have hp1 : ∀ r, r ≤ m → (ptr.push idx'.size).getD r 0 = ptr.getD r 0 :=
    fun r hr => getD_push_lt _ _ r (by rw [hoff.size]; omega)
  have hp2 : (ptr.push idx'.size).getD (m + 1) 0 = idx'.size := by
    have := getD_push_eq ptr idx'.size
    rwa [hoff.size] at this
  have hlast := hoff.last
  have hend : ∀ r, r < m → ptr.getD (r + 1) 0 ≤ idx.size := by
    intro r hr
    have := rp_mono ptr m hoff.mono m (r + 1) (by omega) (Nat.le_refl _)
    rwa [hoff.last] at this
  have hold : ∀ k, k < idx.size → idx'.getD k 0 = idx.getD k 0 := fun k hk => arr_getD_left idx' idx _ ht k hk
  have holdv : ∀ k, k < idx.size → lvl'.getD k 0 = lvl.getD k 0 :=
    fun k hk => arr_getD_left lvl' lvl _ hv k (by rw [h.sz]; exact hk)
  have hnew : ∀ d, (hd : d < t.length) → idx'.getD (idx.size + d) 0 = (t[d]).1 := by
    intro d hd
    rw [arr_getD_right idx' idx _ ht _ (by omega), Nat.add_sub_cancel_left]
    simp [List.getD_eq_getElem?_getD, hd]
  have hnewv : ∀ d, (hd : d < t.length) → lvl'.getD (idx.size + d) 0 = (t[d]).2 := by
    intro d hd
    rw [arr_getD_right lvl' lvl _ hv _ (by rw [h.sz]; omega), h.sz, Nat.add_sub_cancel_left]
    simp [List.getD_eq_getElem?_getD, hd]
  refine ⟨by rw [hsz, hszv, h.sz], ?_, ?_⟩
  · intro r hr k hk1 hk2
    rcases Nat.lt_or_ge r m with hlt | hge
    · rw [hp1 r (by omega)] at hk1
      rw [hp1 (r + 1) (by omega)] at hk2
      have := hend r hlt
      rw [hold k (by omega), holdv k (by omega)]
      exact h.hit r hlt k hk1 hk2
    · have hrm : r = m := by omega
      subst hrm
      rw [hp1 r (Nat.le_refl _), hlast] at hk1
      rw [hp2] at hk2
      obtain ⟨d, rfl⟩ : ∃ d, k = idx.size + d := ⟨k - idx.size, by omega⟩
      have hd : d < t.length := by omega
      rw [hnew d hd, hnewv d hd, ← hlk _ (hq _ (List.getElem_mem hd)).1 (hq _ (List.getElem_mem hd)).2]
      exact lookup_of_mem _ _ t hpw (List.getElem_mem hd)
  · intro r hr x hx hxn hall
    rcases Nat.lt_or_ge r m with hlt | hge
    · refine h.miss r hlt x hx hxn ?_
      intro k hk1 hk2
      have := hend r hlt
      have := hall k (by rw [hp1 r (by omega)]; exact hk1) (by rw [hp1 (r + 1) (by omega)]; exact hk2)
      rwa [hold k (by omega)] at this
    · have hrm : r = m := by omega
      subst hrm
      rw [← hlk x hx hxn]
      apply lookup_none_of_forall
      intro q hq'
      obtain ⟨d, hd, hde⟩ := List.getElem_of_mem hq'
      have := hall (idx.size + d) (by rw [hp1 r (Nat.le_refl _), hlast]; omega) (by rw [hp2]; omega)
      rw [hnew d hd, hde] at this
      exact this

theorem lookup_level0 (ci : Array Nat) (x : Nat) : ∀ (l : List Nat),
    (l.map (fun j => (ci.getD j 0, 0))).lookup x = if l.any (fun k => ci.getD k 0 == x) then some 0 else none
  | [] => rfl
  | k :: l => by
    rw [List.map_cons, List.any_cons]
    by_cases hk : ci.getD k 0 = x
    · rw [hk, lookup_cons_self]
      simp
    · rw [lookup_cons_ne x _ _ _ (Ne.symm hk), lookup_level0 ci x l]
      have : (ci.getD k 0 == x) = false := by simpa using hk
      rw [this, Bool.false_or]

theorem levelOf_diag (pn : Nat) (s : IluSym) (i : Nat) (hi : i < s.n) : levelOf pn s i i = some 0 := by
  unfold levelOf
  rw [levelTable_row pn s i hi]
  exact levRow_diag pn _ (levRow0 s i) i (by rw [levRow0_getD s i i hi, if_pos rfl]) i


/-- one row of `factorize_symbolic`: the new row stores exactly row `m` of the dense table -/
theorem symRow_lev (s : IluSym) (w : s.WFP) (pn : Nat) (st : SymState) (m : Nat) (hm : m < s.n)
    (hL : Rows s.n (fun r x => x < r) s.rpL s.ciL st.ptrL st.idxL m)
    (hU : Rows s.n (fun r x => r < x) s.rpU s.ciU st.ptrU st.idxU m)
    (lL : RowsLev s.n (fun r x => x < r) st.ptrL st.idxL st.lvlL (levelOf pn s) m)
    (lU : RowsLev s.n (fun r x => r < x) st.ptrU st.idxU st.lvlU (levelOf pn s) m) :
    RowsLev s.n (fun r x => x < r) (symRow s pn st m).ptrL (symRow s pn st m).idxL (symRow s pn st m).lvlL
      (levelOf pn s) (m + 1) ∧
    RowsLev s.n (fun r x => r < x) (symRow s pn st m).ptrU (symRow s pn st m).idxU (symRow s pn st m).lvlU
      (levelOf pn s) (m + 1) := by
  have hd : Done m s.n st.idxL st.lvlL st.idxU st.lvlU st.ptrU (levelTable pn s) := by
    refine ⟨hm, lL.sz, lU.sz, hU.off.last, fun r hr => hU.off.mono r hr, ?_, ?_, lU.hit, lU.miss⟩
    · intro r hr k hk1 hk2
      have hlt : k < st.idxU.size := Nat.lt_of_lt_of_le hk2 (hU.end_le hr)
      exact ⟨hlt, hU.bnd r hr k hk1 hk2, hU.glob k hlt⟩
    · intro r hr k k' hk1 hkk hk2
      exact idx_strictMono st.idxU _ _ (hU.srt r hr) k' k hk1 hkk hk2
  generalize hbL : s.rpL.getD m 0 = bL
  generalize heL : s.rpL.getD (m + 1) 0 = eL
  generalize hbU : s.rpU.getD m 0 = bU
  generalize heU : s.rpU.getD (m + 1) 0 = eU
  have hlowL : ∀ k, bL ≤ k → k < eL → s.ciL.getD k 0 < m := by
    intro k h1 h2; exact w.lowL m hm k (by omega) (by omega)
  have huppU : ∀ k, bU ≤ k → k < eU → m < s.ciU.getD k 0 ∧ s.ciU.getD k 0 < s.n := by
    intro k h1 h2
    exact ⟨w.uppU m hm k (by omega) (by omega),
      w.colU k (Nat.lt_of_lt_of_le (by omega) (w.endU_le hm))⟩
  have hfstL : ((List.range' bL (eL - bL)).map (fun j => (s.ciL.getD j 0, 0))).map Prod.fst
      = (List.range' bL (eL - bL)).map (fun j => s.ciL.getD j 0) := by rw [List.map_map]; rfl
  have hsndL : ((List.range' bL (eL - bL)).map (fun j => (s.ciL.getD j 0, 0))).map Prod.snd
      = (List.range' bL (eL - bL)).map (fun _ => 0) := by rw [List.map_map]; rfl
  have hfstU : ((List.range' bU (eU - bU)).map (fun j => (s.ciU.getD j 0, 0))).map Prod.fst
      = (List.range' bU (eU - bU)).map (fun j => s.ciU.getD j 0) := by rw [List.map_map]; rfl
  have hsndU : ((List.range' bU (eU - bU)).map (fun j => (s.ciU.getD j 0, 0))).map Prod.snd
      = (List.range' bU (eU - bU)).map (fun _ => 0) := by rw [List.map_map]; rfl
  have hc0 : Corr m s.n ((List.range' bL (eL - bL)).map (fun j => (s.ciL.getD j 0, 0)))
      ((List.range' bU (eU - bU)).map (fun j => (s.ciU.getD j 0, 0))) (levRow pn (levelTable pn s) (levRow0 s m) 0) := by
    refine ⟨?_, ?_, ?_, ?_, levRow0_size s m, ?_, ?_, ?_⟩
    · rw [hfstL, List.pairwise_map]
      refine List.Pairwise.imp_of_mem ?_ List.pairwise_lt_range'
      intro a b ha hb hab
      rw [List.mem_range'_1] at ha hb
      exact idx_strictMono s.ciL _ _ (w.sortL m hm) b a (by omega) hab (by omega)
    · rw [hfstU, List.pairwise_map]
      refine List.Pairwise.imp_of_mem ?_ List.pairwise_lt_range'
      intro a b ha hb hab
      rw [List.mem_range'_1] at ha hb
      exact idx_strictMono s.ciU _ _ (w.sortU m hm) b a (by omega) hab (by omega)
    · intro q hq
      obtain ⟨j, hj, hjq⟩ := List.mem_map.mp hq
      rw [List.mem_range'_1] at hj
      rw [← hjq]
      exact hlowL j hj.1 (by omega)
    · intro q hq
      obtain ⟨j, hj, hjq⟩ := List.mem_map.mp hq
      rw [List.mem_range'_1] at hj
      rw [← hjq]
      exact huppU j hj.1 (by omega)
    · show (levRow0 s m).getD m none = some 0
      rw [levRow0_getD s m m hm, if_pos rfl]
    · intro x hx
      show _ = (levRow0 s m).getD x none
      rw [lookup_level0, levRow0_getD s m x (by omega), if_neg (show ¬ x = m by omega), hbL, heL, hbU, heU]
      by_cases hany : (List.range' bL (eL - bL)).any (fun k => s.ciL.getD k 0 == x) = true
      · rw [if_pos hany, if_pos hany]
      · rw [if_neg hany, if_neg hany, if_neg]
        intro hu
        obtain ⟨k, hk, hkx⟩ := List.any_eq_true.mp hu
        rw [List.mem_range'_1] at hk
        have := (huppU k hk.1 (by omega)).1
        have : s.ciU.getD k 0 = x := by simpa using hkx
        omega
    · intro x hx hxn
      show _ = (levRow0 s m).getD x none
      rw [lookup_level0, levRow0_getD s m x hxn, if_neg (show ¬ x = m by omega), hbL, heL, hbU, heU]
      have hnl : ¬ (List.range' bL (eL - bL)).any (fun k => s.ciL.getD k 0 == x) = true := ?_
      · rw [if_neg hnl]
      intro hu
      obtain ⟨k, hk, hkx⟩ := List.any_eq_true.mp hu
      rw [List.mem_range'_1] at hk
      have := hlowL k hk.1 (by omega)
      have : s.ciL.getD k 0 = x := by simpa using hkx
      omega
  have hloop := symRowLoop_lev pn m s.n st.idxL st.lvlL st.idxU st.lvlU st.ptrU (levelTable pn s) (levRow0 s m) hd
    (s.n + (foldRange bL eL (fun a j => a.push (s.ciL.getD j 0)) st.idxL).size + 1) (st.ptrL.getD m 0) 0
    { idxL := foldRange bL eL (fun a j => a.push (s.ciL.getD j 0)) st.idxL,
      lvlL := foldRange bL eL (fun a _ => a.push 0) st.lvlL,
      idxU := foldRange bU eU (fun a j => a.push (s.ciU.getD j 0)) st.idxU,
      lvlU := foldRange bU eU (fun a _ => a.push 0) st.lvlU, olj := 0, ouj := 0 }
    (by omega)
    ⟨_, _, by rw [hfstL]; exact foldRange_push_toList _ _ _ _, by rw [hsndL]; exact foldRange_push_toList _ _ _ _,
      by rw [hfstU]; exact foldRange_push_toList _ _ _ _, by rw [hsndU]; exact foldRange_push_toList _ _ _ _,
      hc0, Nat.le_of_eq hL.off.last.symm, Nat.zero_le _,
      by rw [hL.off.last, Nat.sub_self]; intro q hq; exact absurd hq List.not_mem_nil,
      fun q _ => Nat.zero_le _⟩
  obtain ⟨tL, tU, eL', evL', eU', evU', hc⟩ := hloop
  rw [← levelTable_row pn s m hm] at hc
  unfold symRow
  simp only []
  rw [hbL, heL, hbU, heU]
  constructor
  · exact lL.push hL.off _ _ tL eL' evL' hc.pwL (fun x hx hxn => hc.eL x hx)
      (fun q hq => ⟨hc.bL q hq, Nat.lt_trans (hc.bL q hq) hm⟩)
  · exact lU.push hU.off _ _ tU eU' evU' hc.pwU (fun x hx hxn => hc.eU x hx hxn) (fun q hq => hc.bU q hq)


end Lev
open Lev

/-- **key invariant of `_insert`**: on a strictly increasing region whose entries before the start position are `< c`,
    `_insert(idx, lvl, start, c, l)` never raises a level: column `c` ends up with `min(old level, l)` (with `l` if it was
    absent), every other column keeps its level, and the parallel arrays stay aligned. -/
theorem insertEntry_levels (idx lvl : Array Nat) (b start c l : Nat) (hsz : lvl.size = idx.size)
    (hb : b ≤ start) (hstart : start ≤ idx.size)
    (hsorted : ∀ k, b ≤ k → k + 1 < idx.size → idx.getD k 0 < idx.getD (k + 1) 0)
    (hbefore : ∀ k, b ≤ k → k < start → idx.getD k 0 < c) :
    (insertEntry idx lvl start c l).2.1.size = (insertEntry idx lvl start c l).1.size ∧
    regionLevel (insertEntry idx lvl start c l).1 (insertEntry idx lvl start c l).2.1 b c
      = levMin (regionLevel idx lvl b c) (some l) ∧
    ∀ x, x ≠ c → regionLevel (insertEntry idx lvl start c l).1 (insertEntry idx lvl start c l).2.1 b x
      = regionLevel idx lvl b x := by
  let f : Nat → Nat × Nat := fun k => (idx.getD k 0, lvl.getD k 0)
  have hfst : ∀ (r : List Nat), (r.map f).map Prod.fst = r.map (fun k => idx.getD k 0) := by
    intro r; rw [List.map_map]; rfl
  have hsnd : ∀ (r : List Nat), (r.map f).map Prod.snd = r.map (fun k => lvl.getD k 0) := by
    intro r; rw [List.map_map]; rfl
  have hsplit : (List.range' b (start - b)).map f ++ (List.range' start (idx.size - start)).map f
      = (List.range' b (idx.size - b)).map f := by
    rw [← List.map_append]
    congr 1
    have := List.range'_append (s := b) (m := start - b) (n := idx.size - start) (step := 1)
    rw [Nat.one_mul, show b + (start - b) = start by omega, show start - b + (idx.size - start) = idx.size - b by omega]
      at this
    exact this
  have h : idx.toList = idx.toList.take b
      ++ ((List.range' b (start - b)).map f ++ (List.range' start (idx.size - start)).map f).map Prod.fst := by
    rw [hsplit, hfst]; exact toList_eq_take_append_map idx b (by omega)
  have hv : lvl.toList = lvl.toList.take b
      ++ ((List.range' b (start - b)).map f ++ (List.range' start (idx.size - start)).map f).map Prod.snd := by
    rw [hsplit, hsnd, ← hsz]; exact toList_eq_take_append_map lvl b (by omega)
  have hpl : (lvl.toList.take b).length = (idx.toList.take b).length := by simp [hsz]
  have hpb : b = (idx.toList.take b).length := by simp; omega
  have hpw : (((List.range' b (start - b)).map f ++ (List.range' start (idx.size - start)).map f).map
      Prod.fst).Pairwise (· < ·) := by
    rw [hsplit, hfst, List.pairwise_map]
    refine List.Pairwise.imp_of_mem ?_ List.pairwise_lt_range'
    intro k k' hk hk' hkk
    rw [List.mem_range'_1] at hk hk'
    exact idx_strictMono idx b idx.size hsorted k' k hk.1 hkk (by omega)
  obtain ⟨a2, b2, h1, h2, _, _, _, h6, h7, _⟩ := insertEntry_pairs idx lvl start c l (idx.toList.take b)
    (lvl.toList.take b) _ _ h hv hpl (by rw [← hpb]; simp; omega) hpw (by
      intro q hq
      obtain ⟨k, hk, hkq⟩ := List.mem_map.mp hq
      rw [List.mem_range'_1] at hk
      rw [← hkq]
      exact hbefore k hk.1 (by omega))
  have e0 : ∀ x, regionLevel idx lvl b x = List.lookup x
      ((List.range' b (start - b)).map f ++ (List.range' start (idx.size - start)).map f) :=
    fun x => regionLevel_of_pairs idx lvl b x _ _ _ h hv hpl hpb
  have e1 : ∀ x, regionLevel (insertEntry idx lvl start c l).1 (insertEntry idx lvl start c l).2.1 b x
      = List.lookup x (a2 ++ b2) :=
    fun x => regionLevel_of_pairs _ _ b x _ _ _ h1 h2 hpl hpb
  refine ⟨?_, ?_, ?_⟩
  · rw [← Array.length_toList, ← Array.length_toList, h1, h2]
    simp [hsz]
  · rw [e1, e0, h6]
  · intro x hx
    rw [e1, e0, h7 x hx]

/-- **exact characterisation**: for every well-shaped sorted level-0 structure and every `p`, the pattern produced by
    `factorize_symbolic(p)` is exactly the textbook level-of-fill-`p` pattern -/
theorem factorizeSymbolic_levels (s0 : IluSym) (h1 : s0.wf = true) (h2 : s0.sorted = true) (p : Int)
    (i j : Nat) (hi : i < s0.n) (hj : j < s0.n) :
    (factorizeSymbolic s0 p).inPattern i j ↔ (levelOf p.toNat s0 i j).isSome = true := by
  unfold factorizeSymbolic
  split
  next hp =>
    have hp0 : p.toNat = 0 := by omega
    have hrow : (levelTable 0 s0).getD i #[] = levRow0 s0 i := by rw [levelTable_row 0 s0 i hi, levRow_zero_p]
    rw [hp0]
    unfold levelOf IluSym.inPattern
    rw [hrow, levRow0_getD s0 i j hj]
    generalize s0.rpL.getD i 0 = bL
    generalize s0.rpL.getD (i + 1) 0 = eL
    generalize s0.rpU.getD i 0 = bU
    generalize s0.rpU.getD (i + 1) 0 = eU
    by_cases hji : j = i
    · rw [if_pos hji]
      exact ⟨fun _ => rfl, fun _ => Or.inl hji⟩
    · rw [if_neg hji]
      by_cases hanyL : (List.range' bL (eL - bL)).any (fun k => s0.ciL.getD k 0 == j) = true
      · rw [if_pos hanyL]
        refine ⟨fun _ => rfl, fun _ => Or.inr (Or.inl ?_)⟩
        obtain ⟨k, hk, hkx⟩ := List.any_eq_true.mp hanyL
        rw [List.mem_range'_1] at hk
        exact ⟨k, hk.1, by omega, by simpa using hkx⟩
      · rw [if_neg hanyL]
        by_cases hanyU : (List.range' bU (eU - bU)).any (fun k => s0.ciU.getD k 0 == j) = true
        · rw [if_pos hanyU]
          refine ⟨fun _ => rfl, fun _ => Or.inr (Or.inr ?_)⟩
          obtain ⟨k, hk, hkx⟩ := List.any_eq_true.mp hanyU
          rw [List.mem_range'_1] at hk
          exact ⟨k, hk.1, by omega, by simpa using hkx⟩
        · rw [if_neg hanyU]
          constructor
          · rintro (h | ⟨k, q1, q2, q3⟩ | ⟨k, q1, q2, q3⟩)
            · exact absurd h hji
            · exact absurd (List.any_eq_true.mpr ⟨k, List.mem_range'_1.mpr ⟨q1, by omega⟩, by simpa using q3⟩) hanyL
            · exact absurd (List.any_eq_true.mpr ⟨k, List.mem_range'_1.mpr ⟨q1, by omega⟩, by simpa using q3⟩) hanyU
          · intro h
            exact absurd h (by simp)
  next hp =>
    have w := IluSym.WFP.of_bool s0 h1 h2
    simp only []
    rw [Offs.foldl_range_eq_foldRange]
    have key := foldRange_induct
      (fun m (st : SymState) => Sym.Rows s0.n (fun r x => x < r) s0.rpL s0.ciL st.ptrL st.idxL m ∧
        Sym.Rows s0.n (fun r x => r < x) s0.rpU s0.ciU st.ptrU st.idxU m ∧
        RowsLev s0.n (fun r x => x < r) st.ptrL st.idxL st.lvlL (levelOf p.toNat s0) m ∧
        RowsLev s0.n (fun r x => r < x) st.ptrU st.idxU st.lvlU (levelOf p.toNat s0) m)
      (symRow s0 p.toNat) 0 s0.n
      { ptrL := #[0], idxL := #[], lvlL := #[], ptrU := #[0], idxU := #[], lvlU := #[] } (Nat.zero_le _)
      ⟨Sym.Rows.base _ _ _ _, Sym.Rows.base _ _ _ _, RowsLev.base _ _ _, RowsLev.base _ _ _⟩
      (fun m y _ hm hy =>
        ⟨(Sym.symRow_inv s0 w p.toNat y m hm hy.1 hy.2.1).1, (Sym.symRow_inv s0 w p.toNat y m hm hy.1 hy.2.1).2,
          (symRow_lev s0 w p.toNat y m hm hy.1 hy.2.1 hy.2.2.1 hy.2.2.2).1,
          (symRow_lev s0 w p.toNat y m hm hy.1 hy.2.1 hy.2.2.1 hy.2.2.2).2⟩)
    generalize foldRange 0 s0.n (symRow s0 p.toNat)
      { ptrL := #[0], idxL := #[], lvlL := #[], ptrU := #[0], idxU := #[], lvlU := #[] } = st at key
    obtain ⟨_, _, lL, lU⟩ := key
    unfold IluSym.inPattern
    simp only []
    constructor
    · rintro (h | ⟨k, q1, q2, q3⟩ | ⟨k, q1, q2, q3⟩)
      · rw [h, levelOf_diag _ _ _ hi]; rfl
      · rw [← q3, lL.hit i hi k q1 q2]; rfl
      · rw [← q3, lU.hit i hi k q1 q2]; rfl
    · intro h
      rcases Nat.lt_trichotomy j i with hlt | heq | hgt
      · refine Or.inr (Or.inl ?_)
        apply Classical.byContradiction
        intro hne
        rw [lL.miss i hi j hlt hj (fun k q1 q2 q3 => hne ⟨k, q1, q2, q3⟩)] at h
        exact absurd h (by simp)
      · exact Or.inl heq
      · refine Or.inr (Or.inr ?_)
        apply Classical.byContradiction
        intro hne
        rw [lU.miss i hi j hgt hj (fun k q1 q2 q3 => hne ⟨k, q1, q2, q3⟩)] at h
        exact absurd h (by simp)

end FeatModel.Solver
