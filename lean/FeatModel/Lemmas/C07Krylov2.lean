import FeatModel.Model.Solver.Krylov
import FeatModel.Model.Solver.BiCGStab
import FeatModel.Model.Solver.Chebyshev
import FeatModel.Lemmas.C07Krylov
/-! Helper lemmas for C07: residual identities `r_k = F(b − A x_k)` of PCR and BiCGStab (every k, every
    preconditioner function) -/
namespace FeatModel.Solver
set_option linter.unusedSectionVars false

variable {V α : Type} [Add α] [Mul α] [Div α] [Neg α] [Zero α] [One α] [LE α] [LT α] [DecidableEq α] [DecidableLE α]
  [DecidableLT α]

/-- PCR additionally updates `q_k = F A p_k` by recurrence: linearity of `F∘A` over `scale` + `axpy` -/
structure LawfulLin (S : Sys V α) : Prop where
  toLawful : Lawful S
  lin_comb : ∀ p s β, S.Fd (S.A (S.ops.axpy (S.ops.scale p β) s 1)) =
    S.ops.axpy (S.ops.scale (S.Fd (S.A p)) β) (S.Fd (S.A s)) 1

theorem pcrLoop_spec (S : Sys V α) (hl : LawfulLin S) (c : Config α) (b : V) :
    ∀ (fuel : Nat) (x r s p q : V) (gamma : α) (st : State α) (calls : Nat) (hist : List α) (res : Result V α),
      r = resid S b x → q = S.Fd (S.A p) →
      st.numIter ≤ max c.minIter c.maxIter → max c.minIter c.maxIter + 1 ≤ fuel + st.numIter →
      pcrLoop S c fuel x r s p q gamma st calls hist = some res →
      res.st.defInit = st.defInit ∧ res.status ≠ .undefined ∧ res.status ≠ .progress ∧
        (res.status ≠ .aborted → 0 < res.st.numIter ∧ FinalStep S c b res) := by
  intro fuel
  induction fuel with
  | zero => intro x r s p q gamma st calls hist res _ _ h1 h2; omega
  | succ fuel ih =>
    intro x r s p q gamma st calls hist res hr hq h1 h2 h
    simp only [pcrLoop] at h
    split at h
    · simp only [Option.some.injEq] at h
      subst h
      exact ⟨rfl, by simp, by simp, by simp⟩
    · rename_i z _
      split at h
      · exact absurd h (by simp)
      · have hr' : S.ops.axpy r q (-(gamma / S.ops.dot z q)) =
            resid S b (S.ops.axpy x p (gamma / S.ops.dot z q)) := by
          rw [hl.toLawful.resid_step, hr, hq]
        generalize hx' : S.ops.axpy x p (gamma / S.ops.dot z q) = x' at h hr'
        generalize hr2 : S.ops.axpy r q (-(gamma / S.ops.dot z q)) = r' at h hr'
        generalize hsn : setNewDefect c st true (S.nrm r') = sn at h
        obtain ⟨status, st'⟩ := sn
        have hf := setNew_frame c st st' true _ _ hsn
        simp only at h
        split at h
        · rename_i hne
          simp only [Option.some.injEq] at h
          subst h
          refine ⟨hf.2.1, setNew_ne_undefined c _ _ _ _ _ hsn, by simpa using hne, ?_⟩
          intro _
          exact ⟨by simp only; omega, st, by simp only; rw [← hr']; exact hsn⟩
        · rename_i hne
          have hp : status = .progress := by simpa using hne
          subst hp
          have hb := setNew_progress_bound c st st' true _ hsn
          split at h
          · exact absurd h (by simp)
          · have := ih x' r' _ _ _ _ st' _ _ res hr' (by rw [hl.lin_comb, ← hq]) (by omega) (by omega) h
            rw [hf.2.1] at this
            exact this

theorem pcrIntern_spec (S : Sys V α) (hl : LawfulLin S) (c : Config α) (prev : State α) (b x r : V) (res : Result V α)
    (hr : r = resid S b x) (h : pcrIntern S c prev x r = some res) :
    res.st.defInit = S.nrm r ∧ res.status ≠ .undefined ∧ res.status ≠ .progress ∧
      ((res.st.numIter = 0 ∧ res.x = x ∧ res.st.defCur = S.nrm r ∧
          (res.status = .aborted ∨ (res.status = .success ∧ (S.nrm r < c.tolAbsLow ∨ S.nrm r ≤ c.eps2)))) ∨
        (res.status ≠ .aborted → 0 < res.st.numIter ∧ FinalStep S c b res)) := by
  simp only [pcrIntern] at h
  rcases hsi : setInitialDefect c prev true (S.nrm r) with ⟨status, st⟩
  rw [hsi] at h
  obtain ⟨hst, _, hsu, hpr, hall⟩ := setInitial_spec c prev true _ _ _ hsi
  simp only at h
  split at h
  · rename_i hne
    simp only [Option.some.injEq] at h
    subst h
    subst hst
    have hne' : status ≠ .progress := by simpa using hne
    refine ⟨rfl, ?_, hne', Or.inl ⟨rfl, rfl, rfl, ?_⟩⟩
    · rcases hall with e | e | e <;> simp_all
    · rcases hall with e | e | e
      · exact Or.inl e
      · exact Or.inr ⟨e, (hsu.1 e).2⟩
      · exact absurd e hne'
  · split at h
    · simp only [Option.some.injEq] at h
      subst h
      subst hst
      exact ⟨rfl, by simp, by simp, Or.inl ⟨rfl, rfl, rfl, Or.inl rfl⟩⟩
    · have := pcrLoop_spec S hl c b _ x r _ _ _ _ st _ _ res hr rfl (by subst hst; simp)
        (by subst hst; simp [fuelOf]) h
      subst hst
      exact ⟨this.1, this.2.1, this.2.2.1, Or.inr this.2.2.2⟩

/-- BiCGStab left the loop through its half-step test: the stored defect is the norm of the true filtered residual of
    the returned iterate and meets (`success`) / exceeds (`diverged`) the configured limits -/
def HalfExit (S : Sys V α) (c : Config α) (b : V) (res : Result V α) : Prop :=
  res.st.defCur = S.nrm (resid S b res.x) ∧
    ((res.status = .success ∧ Converged c res.st.defInit res.st.defCur ∧ ¬ Diverged c res.st.defInit res.st.defCur ∧
        c.minIter ≤ res.st.numIter) ∨
     (res.status = .diverged ∧ Diverged c res.st.defInit res.st.defCur))

theorem bicgLoop_spec (S : Sys V α) (hl : Lawful S) (c : Config α) (b rh0 : V) :
    ∀ (fuel : Nat) (x r rt pt : V) (rho : α) (st : State α) (calls : Nat) (hist : List α) (res : Result V α),
      r = resid S b x →
      st.numIter ≤ max c.minIter c.maxIter → max c.minIter c.maxIter + 1 ≤ fuel + st.numIter →
      bicgLoop S c rh0 fuel x r rt pt rho st calls hist = some res →
      res.st.defInit = st.defInit ∧ res.status ≠ .undefined ∧ res.status ≠ .progress ∧
        (res.status ≠ .aborted → 0 < res.st.numIter ∧ (HalfExit S c b res ∨ FinalStep S c b res)) := by
  intro fuel
  induction fuel with
  | zero => intro x r rt pt rho st calls hist res _ h1 h2; omega
  | succ fuel ih =>
    intro x r rt pt rho st calls hist res hr h1 h2 h
    simp only [bicgLoop] at h
    split at h
    · simp only [Option.some.injEq] at h
      subst h
      exact ⟨rfl, by simp, by simp, by simp⟩
    · rename_i qt _
      split at h
      · exact absurd h (by simp)
      · have hr1 : S.ops.axpy r (S.Fd (S.A pt)) (-(rho / S.ops.dot rh0 qt)) =
            resid S b (S.ops.axpy x pt (rho / S.ops.dot rh0 qt)) := by
          rw [hl.resid_step, hr]
        generalize hx1 : S.ops.axpy x pt (rho / S.ops.dot rh0 qt) = x1 at h hr1
        generalize hr1' : S.ops.axpy r (S.Fd (S.A pt)) (-(rho / S.ops.dot rh0 qt)) = r1 at h hr1
        split at h
        · rename_i hdiv
          simp only [Option.some.injEq] at h
          subst h
          refine ⟨rfl, by simp, by simp, fun _ => ⟨by simp only; omega, Or.inl ⟨by simp only; rw [hr1], ?_⟩⟩⟩
          exact Or.inr ⟨rfl, (isDiverged_iff c _ _).1 hdiv⟩
        · rename_i hdiv
          split at h
          · rename_i hconv
            simp only [Option.some.injEq] at h
            subst h
            refine ⟨rfl, by simp, by simp, fun _ => ⟨by simp only; omega, Or.inl ⟨by simp only; rw [hr1], ?_⟩⟩⟩
            simp only [Bool.and_eq_true, decide_eq_true_eq] at hconv
            exact Or.inl ⟨rfl, (isConverged_iff c _ _).1 hconv.2, fun hd => hdiv ((isDiverged_iff c _ _).2 hd),
              hconv.1⟩
          · split at h
            · simp only [Option.some.injEq] at h
              subst h
              exact ⟨rfl, by simp, by simp, by simp⟩
            · rename_i tt _
              split at h
              · exact absurd h (by simp)
              · generalize hrt1 : S.ops.axpy rt qt (-(rho / S.ops.dot rh0 qt)) = rt1 at h
                generalize hom : S.ops.dot tt rt1 / S.ops.dot tt tt = om at h
                have hr2 : S.ops.axpy r1 (S.Fd (S.A rt1)) (-om) = resid S b (S.ops.axpy x1 rt1 om) := by
                  rw [hl.resid_step, hr1]
                generalize hx2 : S.ops.axpy x1 rt1 om = x2 at h hr2
                generalize hr2' : S.ops.axpy r1 (S.Fd (S.A rt1)) (-om) = r2 at h hr2
                generalize hsn : setNewDefect c st true (S.nrm r2) = sn at h
                obtain ⟨status, st'⟩ := sn
                have hf := setNew_frame c st st' true _ _ hsn
                simp only at h
                split at h
                · rename_i hne
                  simp only [Option.some.injEq] at h
                  subst h
                  refine ⟨hf.2.1, setNew_ne_undefined c _ _ _ _ _ hsn, by simpa using hne, ?_⟩
                  intro _
                  exact ⟨by simp only; omega, Or.inr ⟨st, by simp only; rw [← hr2]; exact hsn⟩⟩
                · rename_i hne
                  have hp : status = .progress := by simpa using hne
                  subst hp
                  have hb := setNew_progress_bound c st st' true _ hsn
                  split at h
                  · exact absurd h (by simp)
                  · have := ih x2 r2 _ _ _ st' _ _ res hr2 (by omega) (by omega) h
                    rw [hf.2.1] at this
                    exact this

theorem bicgIntern_spec (S : Sys V α) (hl : Lawful S) (c : Config α) (st0 : State α) (b x r : V)
    (res : Result V α) (hr : r = resid S b x) (h : bicgIntern S c st0 x r = some res) :
    res.status ≠ .undefined ∧ res.status ≠ .progress ∧ res.st.defInit = S.nrm r ∧
      (res.status ≠ .aborted →
        ((res.st.numIter = 0 ∧ res.x = x ∧ res.st.defCur = S.nrm r ∧ res.status = .success ∧
            (S.nrm r < c.tolAbsLow ∨ S.nrm r ≤ c.eps2)) ∨
         (0 < res.st.numIter ∧ (HalfExit S c b res ∨ FinalStep S c b res)))) := by
  simp only [bicgIntern] at h
  rcases hsi : setInitialDefect c st0 true (S.nrm r) with ⟨status, st⟩
  rw [hsi] at h
  obtain ⟨hst, _, hsu, hpr, hall⟩ := setInitial_spec c st0 true _ _ _ hsi
  simp only at h
  split at h
  · rename_i hne
    simp only [Option.some.injEq] at h
    subst h
    subst hst
    have hne' : status ≠ .progress := by simpa using hne
    refine ⟨?_, hne', rfl, fun hna => Or.inl ⟨rfl, rfl, rfl, ?_⟩⟩
    · rcases hall with e | e | e <;> simp_all
    · rcases hall with e | e | e
      · exact absurd e hna
      · exact ⟨e, (hsu.1 e).2⟩
      · exact absurd e hne'
  · split at h
    · simp only [Option.some.injEq] at h
      subst h
      subst hst
      exact ⟨by simp, by simp, rfl, by simp⟩
    · have := bicgLoop_spec S hl c b r _ x r _ _ _ st _ _ res hr (by subst hst; simp)
        (by subst hst; simp [fuelOf]) h
      subst hst
      exact ⟨this.2.1, this.2.2.1, this.1, fun hna => Or.inr (this.2.2.2 hna)⟩

theorem pmrLoop_spec (S : Sys V α) (hl : Lawful S) (c : Config α) (b : V) :
    ∀ (fuel : Nat) (x r s : V) (st : State α) (calls : Nat) (hist : List α) (res : Result V α),
      r = resid S b x →
      st.numIter ≤ max c.minIter c.maxIter → max c.minIter c.maxIter + 1 ≤ fuel + st.numIter →
      pmrLoop S c fuel x r s st calls hist = some res →
      res.st.defInit = st.defInit ∧ res.status ≠ .undefined ∧ res.status ≠ .progress ∧
        (res.status ≠ .aborted → 0 < res.st.numIter ∧ FinalStep S c b res) := by
  intro fuel
  induction fuel with
  | zero => intro x r s st calls hist res _ h1 h2; omega
  | succ fuel ih =>
    intro x r s st calls hist res hr h1 h2 h
    simp only [pmrLoop] at h
    split at h
    · simp only [Option.some.injEq] at h
      subst h
      exact ⟨rfl, by simp, by simp, by simp⟩
    · rename_i z _
      split at h
      · exact absurd h (by simp)
      · generalize hal : S.ops.dot (S.Fd (S.A s)) s / S.ops.dot z (S.Fd (S.A s)) = al at h
        have hr' : S.ops.axpy r (S.Fd (S.A s)) (-al) = resid S b (S.ops.axpy x s al) := by
          rw [hl.resid_step, hr]
        generalize hx' : S.ops.axpy x s al = x' at h hr'
        generalize hr2 : S.ops.axpy r (S.Fd (S.A s)) (-al) = r' at h hr'
        generalize hsn : setNewDefect c st true (S.nrm r') = sn at h
        obtain ⟨status, st'⟩ := sn
        have hf := setNew_frame c st st' true _ _ hsn
        simp only at h
        split at h
        · rename_i hne
          simp only [Option.some.injEq] at h
          subst h
          refine ⟨hf.2.1, setNew_ne_undefined c _ _ _ _ _ hsn, by simpa using hne, ?_⟩
          intro _
          exact ⟨by simp only; omega, st, by simp only; rw [← hr']; exact hsn⟩
        · rename_i hne
          have hp : status = .progress := by simpa using hne
          subst hp
          have hb := setNew_progress_bound c st st' true _ hsn
          have := ih x' r' _ st' _ _ res hr' (by omega) (by omega) h
          rw [hf.2.1] at this
          exact this

theorem pmrIntern_spec (S : Sys V α) (hl : Lawful S) (c : Config α) (prev : State α) (b x r : V) (res : Result V α)
    (hr : r = resid S b x) (h : pmrIntern S c prev x r = some res) :
    res.st.defInit = S.nrm r ∧ res.status ≠ .undefined ∧ res.status ≠ .progress ∧
      ((res.st.numIter = 0 ∧ res.x = x ∧ res.st.defCur = S.nrm r ∧
          (res.status = .aborted ∨ (res.status = .success ∧ (S.nrm r < c.tolAbsLow ∨ S.nrm r ≤ c.eps2)))) ∨
        (res.status ≠ .aborted → 0 < res.st.numIter ∧ FinalStep S c b res)) := by
  simp only [pmrIntern] at h
  rcases hsi : setInitialDefect c prev true (S.nrm r) with ⟨status, st⟩
  rw [hsi] at h
  obtain ⟨hst, _, hsu, hpr, hall⟩ := setInitial_spec c prev true _ _ _ hsi
  simp only at h
  split at h
  · rename_i hne
    simp only [Option.some.injEq] at h
    subst h
    subst hst
    have hne' : status ≠ .progress := by simpa using hne
    refine ⟨rfl, ?_, hne', Or.inl ⟨rfl, rfl, rfl, ?_⟩⟩
    · rcases hall with e | e | e <;> simp_all
    · rcases hall with e | e | e
      · exact Or.inl e
      · exact Or.inr ⟨e, (hsu.1 e).2⟩
      · exact absurd e hne'
  · split at h
    · simp only [Option.some.injEq] at h
      subst h
      subst hst
      exact ⟨rfl, by simp, by simp, Or.inl ⟨rfl, rfl, rfl, Or.inl rfl⟩⟩
    · have := pmrLoop_spec S hl c b _ x r _ st _ _ res hr (by subst hst; simp) (by subst hst; simp [fuelOf]) h
      subst hst
      exact ⟨this.1, this.2.1, this.2.2.1, Or.inr this.2.2.2⟩

theorem pcgnrLoop_spec (S : Sys V α) (hl : Lawful S) (c : Config α) (b : V) :
    ∀ (fuel : Nat) (x r p q : V) (gamma : α) (st : State α) (calls : Nat) (hist : List α) (res : Result V α),
      r = resid S b x →
      st.numIter ≤ max c.minIter c.maxIter → max c.minIter c.maxIter + 1 ≤ fuel + st.numIter →
      pcgnrLoop S c fuel x r p q gamma st calls hist = some res →
      res.st.defInit = st.defInit ∧ res.status ≠ .undefined ∧ res.status ≠ .progress ∧
        (res.status ≠ .aborted → 0 < res.st.numIter ∧ FinalStep S c b res) := by
  intro fuel
  induction fuel with
  | zero => intro x r p q gamma st calls hist res _ h1 h2; omega
  | succ fuel ih =>
    intro x r p q gamma st calls hist res hr h1 h2 h
    simp only [pcgnrLoop] at h
    split at h
    · simp only [Option.some.injEq] at h
      subst h
      exact ⟨rfl, by simp, by simp, by simp⟩
    · rename_i z _
      split at h
      · exact absurd h (by simp)
      · generalize hal : gamma / S.ops.dot (S.Fd (S.A q)) z = al at h
        have hr' : S.ops.axpy r (S.Fd (S.A q)) (-al) = resid S b (S.ops.axpy x q al) := by
          rw [hl.resid_step, hr]
        generalize hx' : S.ops.axpy x q al = x' at h hr'
        generalize hr2 : S.ops.axpy r (S.Fd (S.A q)) (-al) = r' at h hr'
        generalize hsn : setNewDefect c st true (S.nrm r') = sn at h
        obtain ⟨status, st'⟩ := sn
        have hf := setNew_frame c st st' true _ _ hsn
        simp only at h
        split at h
        · rename_i hne
          simp only [Option.some.injEq] at h
          subst h
          refine ⟨hf.2.1, setNew_ne_undefined c _ _ _ _ _ hsn, by simpa using hne, ?_⟩
          intro _
          exact ⟨by simp only; omega, st, by simp only; rw [← hr']; exact hsn⟩
        · rename_i hne
          have hp : status = .progress := by simpa using hne
          subst hp
          have hb := setNew_progress_bound c st st' true _ hsn
          split at h
          · simp only [Option.some.injEq] at h
            subst h
            exact ⟨hf.2.1, by simp, by simp, by simp⟩
          · split at h
            · exact absurd h (by simp)
            · have := ih x' r' _ _ _ st' _ _ res hr' (by omega) (by omega) h
              rw [hf.2.1] at this
              exact this

theorem pcgnrIntern_spec (S : Sys V α) (hl : Lawful S) (c : Config α) (prev : State α) (b x r : V)
    (res : Result V α) (hr : r = resid S b x) (h : pcgnrIntern S c prev x r = some res) :
    res.st.defInit = S.nrm r ∧ res.status ≠ .undefined ∧ res.status ≠ .progress ∧
      ((res.st.numIter = 0 ∧ res.x = x ∧ res.st.defCur = S.nrm r ∧
          (res.status = .aborted ∨ (res.status = .success ∧ (S.nrm r < c.tolAbsLow ∨ S.nrm r ≤ c.eps2)))) ∨
        (res.status ≠ .aborted → 0 < res.st.numIter ∧ FinalStep S c b res)) := by
  simp only [pcgnrIntern] at h
  rcases hsi : setInitialDefect c prev true (S.nrm r) with ⟨status, st⟩
  rw [hsi] at h
  obtain ⟨hst, _, hsu, hpr, hall⟩ := setInitial_spec c prev true _ _ _ hsi
  simp only at h
  split at h
  · rename_i hne
    simp only [Option.some.injEq] at h
    subst h
    subst hst
    have hne' : status ≠ .progress := by simpa using hne
    refine ⟨rfl, ?_, hne', Or.inl ⟨rfl, rfl, rfl, ?_⟩⟩
    · rcases hall with e | e | e <;> simp_all
    · rcases hall with e | e | e
      · exact Or.inl e
      · exact Or.inr ⟨e, (hsu.1 e).2⟩
      · exact absurd e hne'
  · split at h
    · simp only [Option.some.injEq] at h
      subst h
      subst hst
      exact ⟨rfl, by simp, by simp, Or.inl ⟨rfl, rfl, rfl, Or.inl rfl⟩⟩
    · split at h
      · simp only [Option.some.injEq] at h
        subst h
        subst hst
        exact ⟨rfl, by simp, by simp, Or.inl ⟨rfl, rfl, rfl, Or.inl rfl⟩⟩
      · have := pcgnrLoop_spec S hl c b _ x r _ _ _ st _ _ res hr (by subst hst; simp)
          (by subst hst; simp [fuelOf]) h
        subst hst
        exact ⟨this.1, this.2.1, this.2.2.1, Or.inr this.2.2.2⟩

theorem chebLoop_spec (S : Sys V α) (c : Config α) (d cc : α) (b : V) :
    ∀ (fuel : Nat) (x df cor : V) (alpha : α) (st : State α) (hist : List α) (res : Result V α),
      st.numIter ≤ max c.minIter c.maxIter → max c.minIter c.maxIter + 1 ≤ fuel + st.numIter →
      chebLoop S c d cc b fuel x df cor alpha st hist = some res →
      res.st.defInit = st.defInit ∧ res.status ≠ .undefined ∧ res.status ≠ .progress ∧
        (res.status ≠ .aborted → 0 < res.st.numIter ∧ FinalStep S c b res) := by
  intro fuel
  induction fuel with
  | zero => intro x df cor alpha st hist res h1 h2; omega
  | succ fuel ih =>
    intro x df cor alpha st hist res h1 h2 h
    simp only [chebLoop] at h
    split at h
    · exact absurd h (by simp)
    · rename_i alpha' _
      generalize hx' : S.ops.axpy x (S.ops.axpy (S.ops.scale cor (alpha' * d + -1)) df alpha') 1 = x' at h
      generalize hsn : setNewDefect c st true (S.nrm (resid S b x')) = sn at h
      obtain ⟨status, st'⟩ := sn
      have hf := setNew_frame c st st' true _ _ hsn
      simp only at h
      split at h
      · rename_i hne
        simp only [Option.some.injEq] at h
        subst h
        refine ⟨hf.2.1, setNew_ne_undefined c _ _ _ _ _ hsn, by simpa using hne, ?_⟩
        intro _
        exact ⟨by simp only; omega, st, hsn⟩
      · rename_i hne
        have hp : status = .progress := by simpa using hne
        subst hp
        have hb := setNew_progress_bound c st st' true _ hsn
        have := ih x' _ _ _ st' _ res (by omega) (by omega) h
        rw [hf.2.1] at this
        exact this

theorem chebIntern_spec (S : Sys V α) (c : Config α) (prev : State α) (minEv maxEv : α) (b x df : V)
    (res : Result V α) (h : chebIntern S c prev minEv maxEv b x df = some res) :
    res.st.defInit = S.nrm df ∧ res.status ≠ .undefined ∧ res.status ≠ .progress ∧
      ((res.st.numIter = 0 ∧ res.x = x ∧ res.st.defCur = S.nrm df ∧
          (res.status = .aborted ∨ (res.status = .success ∧ (S.nrm df < c.tolAbsLow ∨ S.nrm df ≤ c.eps2)))) ∨
        (res.status ≠ .aborted → 0 < res.st.numIter ∧ FinalStep S c b res)) := by
  simp only [chebIntern] at h
  rcases hsi : setInitialDefect c prev true (S.nrm df) with ⟨status, st⟩
  rw [hsi] at h
  obtain ⟨hst, _, hsu, hpr, hall⟩ := setInitial_spec c prev true _ _ _ hsi
  simp only at h
  split at h
  · exact absurd h (by simp)
  · split at h
    · rename_i hne
      simp only [Option.some.injEq] at h
      subst h
      subst hst
      have hne' : status ≠ .progress := by simpa using hne
      refine ⟨rfl, ?_, hne', Or.inl ⟨rfl, rfl, rfl, ?_⟩⟩
      · rcases hall with e | e | e <;> simp_all
      · rcases hall with e | e | e
        · exact Or.inl e
        · exact Or.inr ⟨e, (hsu.1 e).2⟩
        · exact absurd e hne'
    · have := chebLoop_spec S c _ _ b _ x df _ _ st _ res (by subst hst; simp) (by subst hst; simp [fuelOf]) h
      subst hst
      exact ⟨this.1, this.2.1, this.2.2.1, Or.inr this.2.2.2⟩

end FeatModel.Solver
