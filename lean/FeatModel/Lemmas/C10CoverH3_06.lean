import FeatModel.Model.RefineCover
/-! C10 local refinement lemma, hexahedron, pairwise covering family, configurations 24..27 (kernel evaluation). -/
namespace FeatModel.Refine
set_option maxRecDepth 100000

theorem cover_hexa_06 : ∀ j < 4, (refine (cell3c .hypercube (j + 24))).consistent = true := by decide +kernel

end FeatModel.Refine
