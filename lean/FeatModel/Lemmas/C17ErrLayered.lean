import FeatModel.Lemmas.C17Layered
import FeatModel.Lemmas.C17Termination
/-
C17: the error path (`okay = false`) of the layered protocol (`LESt`, `LCfg.estep`): deadlock-freedom,
safety of the workers that have not failed, and conservativity over the machine without failures.
-/
namespace FeatModel.DA

/-! ## base steps, indexed by their event -/

inductive ELB (c : LCfg) (s : LSt) : Ev → LSt → Prop
  | mopen : s.ph 0 = .front →
      ELB c s (.fopen 0 0) { s with fence := updB s.fence 0 true, ph := updP s.ph 0 .back }
  | join : s.ph 0 = .back → c.allDone s = true →
      ELB c s .join { s with ph := updP s.ph 0 .done }
  | wfront (t : Nat) : 1 ≤ t → t ≤ c.n → s.ph t = .front → s.fence 0 = true →
      ELB c s (.fwait t 0) { s with ph := updP s.ph t (c.after t (s.pos t)) }
  | wwait (t : Nat) : 1 ≤ t → t ≤ c.n → s.ph t = .idle → c.waitAt t = some (s.pos t) →
      s.fence (t + 1) = true →
      ELB c s (.fwait t (t + 1)) { s with ph := updP s.ph t .ready }
  | enterI (t : Nat) : 1 ≤ t → t ≤ c.n → s.ph t = .idle → c.waitAt t ≠ some (s.pos t) →
      ELB c s (.enter t (c.cell (s.pos t))) { s with ph := updP s.ph t .insc }
  | enterR (t : Nat) : 1 ≤ t → t ≤ c.n → s.ph t = .ready →
      ELB c s (.enter t (c.cell (s.pos t))) { s with ph := updP s.ph t .insc }
  | leaveO (t : Nat) : 1 ≤ t → t ≤ c.n → s.ph t = .insc → c.openAt t = some (s.pos t) →
      ELB c s (.leave t (c.cell (s.pos t))) { s with ph := updP s.ph t .toOpen }
  | leaveN (t : Nat) : 1 ≤ t → t ≤ c.n → s.ph t = .insc → c.openAt t ≠ some (s.pos t) →
      ELB c s (.leave t (c.cell (s.pos t)))
        { s with ph := updP s.ph t (c.after t (s.pos t + 1)), pos := upd s.pos t (s.pos t + 1) }
  | wopen (t : Nat) : 1 ≤ t → t ≤ c.n → s.ph t = .toOpen →
      ELB c s (.fopen t t)
        { s with fence := updB s.fence t true, ph := updP s.ph t (c.after t (s.pos t + 1)),
                 pos := upd s.pos t (s.pos t + 1) }
  | center (t : Nat) : 1 ≤ t → t ≤ c.n → s.ph t = .preComb → s.mutex = false →
      ELB c s (.center t) { s with ph := updP s.ph t .inComb, mutex := true }
  | cleave (t : Nat) : 1 ≤ t → t ≤ c.n → s.ph t = .inComb →
      ELB c s (.cleave t) { s with ph := updP s.ph t .done, mutex := false }

theorem el_step_ELB {c : LCfg} {s s' : LSt} {e : Ev} (h : c.step s e = some s') : ELB c s e s' := by
  obtain ⟨hn, hen, rfl⟩ := step_parts h
  by_cases ht : e.thread = 0
  · rw [ht] at hn
    rcases next_zero hn with ⟨hp, rfl⟩ | ⟨hp, rfl⟩
    · simpa [LCfg.apply] using ELB.mopen (c := c) hp
    · simpa [LCfg.apply] using ELB.join hp (by simpa [LCfg.enabled] using hen)
  · generalize hteq : e.thread = t at hn ht
    obtain ⟨hle, hcases⟩ := next_worker ht hn
    have h1 : 1 ≤ t := by omega
    rcases hcases with ⟨hp, rfl⟩ | ⟨hp, hw, rfl⟩ | ⟨hp, hw, rfl⟩ | ⟨hp, rfl⟩ | ⟨hp, rfl⟩ | ⟨hp, rfl⟩ |
      ⟨hp, rfl⟩ | ⟨hp, rfl⟩
    · simpa [LCfg.apply] using ELB.wfront _ h1 hle hp (by simpa [LCfg.enabled] using hen)
    · simpa [LCfg.apply] using ELB.wwait _ h1 hle hp hw (by simpa [LCfg.enabled] using hen)
    · simpa [LCfg.apply] using ELB.enterI _ h1 hle hp hw
    · simpa [LCfg.apply] using ELB.enterR _ h1 hle hp
    · by_cases ho : c.openAt t = some (s.pos t)
      · simpa [LCfg.apply, ho] using ELB.leaveO _ h1 hle hp ho
      · simpa [LCfg.apply, ho] using ELB.leaveN _ h1 hle hp ho
    · simpa [LCfg.apply, ht] using ELB.wopen _ h1 hle hp
    · simpa [LCfg.apply] using ELB.center _ h1 hle hp (by simpa [LCfg.enabled] using hen)
    · simpa [LCfg.apply] using ELB.cleave _ h1 hle hp

/-! ## the transition relation of the error machine in explicit form -/

inductive ELStep (c : LCfg) (s : LESt) : LESt → Prop
  | mopen : s.failing 0 = false → s.base.ph 0 = .front →
      ELStep c s { s with base := { s.base with fence := updB s.base.fence 0 true,
                                                ph := updP s.base.ph 0 .back },
                          okay := updB s.okay 0 true }
  | join : s.failing 0 = false → s.base.ph 0 = .back → c.allDone s.base = true →
      ELStep c s { s with base := { s.base with ph := updP s.base.ph 0 .done } }
  | wfront (t : Nat) : 1 ≤ t → t ≤ c.n → s.failing t = false → s.base.ph t = .front →
      s.base.fence 0 = true → s.okay 0 = true →
      ELStep c s { s with base := { s.base with ph := updP s.base.ph t (c.after t (s.base.pos t)) } }
  | wwait (t : Nat) : 1 ≤ t → t ≤ c.n → s.failing t = false → s.base.ph t = .idle →
      c.waitAt t = some (s.base.pos t) → s.base.fence (t + 1) = true → s.okay (t + 1) = true →
      ELStep c s { s with base := { s.base with ph := updP s.base.ph t .ready } }
  | enterI (t : Nat) : 1 ≤ t → t ≤ c.n → s.failing t = false → s.base.ph t = .idle →
      c.waitAt t ≠ some (s.base.pos t) →
      ELStep c s { s with base := { s.base with ph := updP s.base.ph t .insc } }
  | enterR (t : Nat) : 1 ≤ t → t ≤ c.n → s.failing t = false → s.base.ph t = .ready →
      ELStep c s { s with base := { s.base with ph := updP s.base.ph t .insc } }
  | leaveO (t : Nat) : 1 ≤ t → t ≤ c.n → s.failing t = false → s.base.ph t = .insc →
      c.openAt t = some (s.base.pos t) →
      ELStep c s { s with base := { s.base with ph := updP s.base.ph t .toOpen } }
  | leaveN (t : Nat) : 1 ≤ t → t ≤ c.n → s.failing t = false → s.base.ph t = .insc →
      c.openAt t ≠ some (s.base.pos t) →
      ELStep c s { s with base := { s.base with ph := updP s.base.ph t (c.after t (s.base.pos t + 1)),
                                                pos := upd s.base.pos t (s.base.pos t + 1) } }
  | wopen (t : Nat) : 1 ≤ t → t ≤ c.n → s.failing t = false → s.base.ph t = .toOpen →
      ELStep c s { s with base := { s.base with fence := updB s.base.fence t true,
                                                ph := updP s.base.ph t (c.after t (s.base.pos t + 1)),
                                                pos := upd s.base.pos t (s.base.pos t + 1) },
                          okay := updB s.okay t true }
  | center (t : Nat) : 1 ≤ t → t ≤ c.n → s.failing t = false → s.base.ph t = .preComb →
      s.base.mutex = false →
      ELStep c s { s with base := { s.base with ph := updP s.base.ph t .inComb, mutex := true } }
  | cleave (t : Nat) : 1 ≤ t → t ≤ c.n → s.failing t = false → s.base.ph t = .inComb →
      ELStep c s { s with base := { s.base with ph := updP s.base.ph t .done, mutex := false } }
  | waitF0 (t : Nat) : 1 ≤ t → t ≤ c.n → s.failing t = false → s.base.ph t = .front →
      s.base.fence 0 = true → s.okay 0 = false →
      ELStep c s { s with failing := updB s.failing t true }
  | waitF1 (t : Nat) : 1 ≤ t → t ≤ c.n → s.failing t = false → s.base.ph t = .idle →
      c.waitAt t = some (s.base.pos t) → s.base.fence (t + 1) = true → s.okay (t + 1) = false →
      ELStep c s { s with failing := updB s.failing t true }
  | failC (t : Nat) : 1 ≤ t → t ≤ c.n → s.failing t = false → s.base.ph t = .inComb →
      ELStep c s { s with failing := updB s.failing t true, base := { s.base with mutex := false } }
  | failO (t : Nat) : 1 ≤ t → t ≤ c.n → s.failing t = false → s.base.ph t ≠ .inComb →
      c.canFail s t = true →
      ELStep c s { s with failing := updB s.failing t true }
  | openF (t : Nat) : 1 ≤ t → t ≤ c.n → s.failing t = true →
      ELStep c s { base := { s.base with fence := updB s.base.fence t true, ph := updP s.base.ph t .done },
                   okay := updB s.okay t false, failing := updB s.failing t false }

/-- the `okay` flags after a normal event -/
def el_okay (okay : Nat → Bool) : Ev → (Nat → Bool)
  | .fopen _ f => updB okay f true
  | _ => okay

theorem el_ok_parts {c : LCfg} {s s' : LESt} {e : Ev} (h : c.estep s (.ok e) = some s') :
    s.failing e.thread = false ∧ ∃ b, c.step s.base e = some b ∧
      (∀ t f, e = .fwait t f → s.okay f = true) ∧
      s' = { s with base := b, okay := el_okay s.okay e } := by
  cases e <;> simp [LCfg.estep, el_okay] at h ⊢ <;> grind

theorem el_estep_ELStep {c : LCfg} {s s' : LESt} {e : EEv} (h : c.estep s e = some s') :
    ELStep c s s' := by
  cases e with
  | ok e =>
    obtain ⟨hf, b, hb, hok, rfl⟩ := el_ok_parts h
    have hB := el_step_ELB hb
    cases hB with
    | mopen hp => simpa [el_okay] using ELStep.mopen (c := c) hf hp
    | join hp ha => simpa [el_okay] using ELStep.join hf hp ha
    | wfront t h1 h2 hp hfe => simpa [el_okay] using ELStep.wfront t h1 h2 hf hp hfe (hok _ _ rfl)
    | wwait t h1 h2 hp hw hfe => simpa [el_okay] using ELStep.wwait t h1 h2 hf hp hw hfe (hok _ _ rfl)
    | enterI t h1 h2 hp hw => simpa [el_okay] using ELStep.enterI t h1 h2 hf hp hw
    | enterR t h1 h2 hp => simpa [el_okay] using ELStep.enterR t h1 h2 hf hp
    | leaveO t h1 h2 hp ho => simpa [el_okay] using ELStep.leaveO t h1 h2 hf hp ho
    | leaveN t h1 h2 hp ho => simpa [el_okay] using ELStep.leaveN t h1 h2 hf hp ho
    | wopen t h1 h2 hp => simpa [el_okay] using ELStep.wopen t h1 h2 hf hp
    | center t h1 h2 hp hm => simpa [el_okay] using ELStep.center t h1 h2 hf hp hm
    | cleave t h1 h2 hp => simpa [el_okay] using ELStep.cleave t h1 h2 hf hp
  | fwaitF t f =>
    simp only [LCfg.estep] at h
    split at h
    · next hc =>
      obtain ⟨hfl, hn, hfe, hok⟩ := hc
      injection h with h
      subst h
      have hfl' : s.failing t = false := by simpa using hfl
      by_cases ht : t = 0
      · subst ht
        rcases next_zero hn with ⟨_, he⟩ | ⟨_, he⟩ <;> cases he
      · obtain ⟨hle, hcases⟩ := next_worker ht hn
        have h1 : 1 ≤ t := by omega
        rcases hcases with ⟨hp, he⟩ | ⟨hp, hw, he⟩ | ⟨hp, hw, he⟩ | ⟨hp, he⟩ | ⟨hp, he⟩ | ⟨hp, he⟩ |
          ⟨hp, he⟩ | ⟨hp, he⟩ <;> cases he
        · exact ELStep.waitF0 t h1 hle hfl' hp hfe hok
        · exact ELStep.waitF1 t h1 hle hfl' hp hw hfe hok
    · cases h
  | fail t =>
    simp only [LCfg.estep] at h
    split at h
    · next hc =>
      obtain ⟨h1, h2, hfl, hcan⟩ := hc
      injection h with h
      subst h
      by_cases hp : s.base.ph t = .inComb
      · simpa [hp] using ELStep.failC t h1 h2 hfl hp
      · simpa [hp] using ELStep.failO t h1 h2 hfl hp hcan
    · cases h
  | fopenF t f =>
    simp only [LCfg.estep] at h
    split at h
    · next hc =>
      obtain ⟨h1, h2, hfl, rfl⟩ := hc
      injection h with h
      subst h
      exact ELStep.openF f h1 h2 hfl
    · cases h

theorem el_reach_induct {c : LCfg} {P : LESt → Prop} (h0 : P c.einit)
    (hstep : ∀ s s', P s → ELStep c s s' → P s') : ∀ s, c.EReach s → P s := by
  intro s hs
  induction hs with
  | init => exact h0
  | step e _ h ih => exact hstep _ _ ih (el_estep_ELStep h)

/-! ## the invariant of the error machine -/

set_option linter.unusedSimpArgs false

structure ELInv (c : LCfg) (s : LESt) : Prop where
  posA : ∀ w, 1 ≤ w → w ≤ c.n → c.beg w ≤ s.base.pos w
  actB : ∀ w, 1 ≤ w → w ≤ c.n →
    (s.base.ph w = .idle ∨ s.base.ph w = .ready ∨ s.base.ph w = .insc ∨ s.base.ph w = .toOpen) →
    s.base.pos w < c.fin w
  finC : ∀ w, 1 ≤ w → w ≤ c.n →
    (s.base.ph w = .preComb ∨ s.base.ph w = .inComb) → c.fin w ≤ s.base.pos w
  doneC : ∀ w, 1 ≤ w → w ≤ c.n → s.base.ph w = .done →
    (c.fin w ≤ s.base.pos w ∨ s.base.fence w = true)
  waitE : ∀ w p, 1 ≤ w → w ≤ c.n → c.waitAt w = some p →
    (p < s.base.pos w ∨ (p = s.base.pos w ∧
      (s.base.ph w = .ready ∨ s.base.ph w = .insc ∨ s.base.ph w = .toOpen))) →
    s.base.fence (w + 1) = true
  openF1 : ∀ w q, 1 ≤ w → w ≤ c.n → c.openAt w = some q → s.base.fence w = true →
    (q < s.base.pos w ∨ s.base.ph w = .done)
  openF2 : ∀ w q, 1 ≤ w → w ≤ c.n → c.openAt w = some q → q < s.base.pos w → s.base.fence w = true
  toOpG : ∀ w, 1 ≤ w → w ≤ c.n → s.base.ph w = .toOpen → c.openAt w = some (s.base.pos w)
  mastH : s.base.ph 0 ≠ .front → (s.base.fence 0 = true ∧ s.okay 0 = true)
  mastI : s.base.ph 0 = .front ∨ s.base.ph 0 = .back ∨ s.base.ph 0 = .done
  phJ : ∀ w, 1 ≤ w → w ≤ c.n → s.base.ph w ≠ .back ∧ s.base.ph w ≠ .toOpen2
  mutK : s.base.mutex = true →
    ∃ v, 1 ≤ v ∧ v ≤ c.n ∧ s.base.ph v = .inComb ∧ s.failing v = false
  failR : ∀ t, s.failing t = true → 1 ≤ t ∧ t ≤ c.n

theorem ELInv_init {c : LCfg} (wf : LWF c) : ELInv c c.einit := by
  constructor <;> simp [LCfg.einit, LCfg.init]
  · intro w p h1 h2 h3; have := wf.wait_ge w p h1 h2 h3; omega
  · intro w q h1 h2 h3; have := wf.open_ge w q h1 h2 h3; omega

theorem ELInv_step_posA {c : LCfg} {s s' : LESt} (hi : ELInv c s) (hst : ELStep c s s') :
    ∀ w, 1 ≤ w → w ≤ c.n → c.beg w ≤ s'.base.pos w := by
  obtain ⟨posA, actB, finC, doneC, waitE, openF1, openF2, toOpG, mastH, mastI, phJ, mutK, failR⟩ := hi
  cases hst
  all_goals
    simp only [updP, upd, updB]
    grind [after_cases]

theorem ELInv_step_actB {c : LCfg} {s s' : LESt} (hi : ELInv c s) (hst : ELStep c s s') :
    ∀ w, 1 ≤ w → w ≤ c.n →
    (s'.base.ph w = .idle ∨ s'.base.ph w = .ready ∨ s'.base.ph w = .insc ∨ s'.base.ph w = .toOpen) →
    s'.base.pos w < c.fin w := by
  obtain ⟨posA, actB, finC, doneC, waitE, openF1, openF2, toOpG, mastH, mastI, phJ, mutK, failR⟩ := hi
  cases hst
  all_goals
    simp only [updP, upd, updB]
    grind [after_cases]

theorem ELInv_step_finC {c : LCfg} {s s' : LESt} (hi : ELInv c s) (hst : ELStep c s s') :
    ∀ w, 1 ≤ w → w ≤ c.n →
    (s'.base.ph w = .preComb ∨ s'.base.ph w = .inComb) → c.fin w ≤ s'.base.pos w := by
  obtain ⟨posA, actB, finC, doneC, waitE, openF1, openF2, toOpG, mastH, mastI, phJ, mutK, failR⟩ := hi
  cases hst
  all_goals
    simp only [updP, upd, updB]
    grind [after_cases]

theorem ELInv_step_doneC {c : LCfg} {s s' : LESt} (hi : ELInv c s) (hst : ELStep c s s') :
    ∀ w, 1 ≤ w → w ≤ c.n → s'.base.ph w = .done →
    (c.fin w ≤ s'.base.pos w ∨ s'.base.fence w = true) := by
  obtain ⟨posA, actB, finC, doneC, waitE, openF1, openF2, toOpG, mastH, mastI, phJ, mutK, failR⟩ := hi
  cases hst
  all_goals
    simp only [updP, upd, updB]
    grind [after_cases]

theorem ELInv_step_waitE {c : LCfg} {s s' : LESt} (hi : ELInv c s) (hst : ELStep c s s') :
    ∀ w p, 1 ≤ w → w ≤ c.n → c.waitAt w = some p →
    (p < s'.base.pos w ∨ (p = s'.base.pos w ∧
      (s'.base.ph w = .ready ∨ s'.base.ph w = .insc ∨ s'.base.ph w = .toOpen))) →
    s'.base.fence (w + 1) = true := by
  obtain ⟨posA, actB, finC, doneC, waitE, openF1, openF2, toOpG, mastH, mastI, phJ, mutK, failR⟩ := hi
  cases hst
  all_goals
    simp only [updP, upd, updB]
    grind [after_cases]

theorem ELInv_step_openF1 {c : LCfg} {s s' : LESt} (hi : ELInv c s) (hst : ELStep c s s') :
    ∀ w q, 1 ≤ w → w ≤ c.n → c.openAt w = some q → s'.base.fence w = true →
    (q < s'.base.pos w ∨ s'.base.ph w = .done) := by
  obtain ⟨posA, actB, finC, doneC, waitE, openF1, openF2, toOpG, mastH, mastI, phJ, mutK, failR⟩ := hi
  cases hst
  all_goals
    simp only [updP, upd, updB]
    grind [after_cases]

theorem ELInv_step_openF2 {c : LCfg} {s s' : LESt} (hi : ELInv c s) (hst : ELStep c s s') :
    ∀ w q, 1 ≤ w → w ≤ c.n → c.openAt w = some q → q < s'.base.pos w → s'.base.fence w = true := by
  obtain ⟨posA, actB, finC, doneC, waitE, openF1, openF2, toOpG, mastH, mastI, phJ, mutK, failR⟩ := hi
  cases hst
  all_goals
    simp only [updP, upd, updB]
    grind [after_cases]

theorem ELInv_step_toOpG {c : LCfg} {s s' : LESt} (hi : ELInv c s) (hst : ELStep c s s') :
    ∀ w, 1 ≤ w → w ≤ c.n → s'.base.ph w = .toOpen → c.openAt w = some (s'.base.pos w) := by
  obtain ⟨posA, actB, finC, doneC, waitE, openF1, openF2, toOpG, mastH, mastI, phJ, mutK, failR⟩ := hi
  cases hst
  all_goals
    simp only [updP, upd, updB]
    grind [after_cases]

theorem ELInv_step_mastH {c : LCfg} {s s' : LESt} (hi : ELInv c s) (hst : ELStep c s s') :
    s'.base.ph 0 ≠ .front → (s'.base.fence 0 = true ∧ s'.okay 0 = true) := by
  obtain ⟨posA, actB, finC, doneC, waitE, openF1, openF2, toOpG, mastH, mastI, phJ, mutK, failR⟩ := hi
  cases hst
  all_goals
    simp only [updP, upd, updB]
    grind [after_cases]

theorem ELInv_step_mastI {c : LCfg} {s s' : LESt} (hi : ELInv c s) (hst : ELStep c s s') :
    s'.base.ph 0 = .front ∨ s'.base.ph 0 = .back ∨ s'.base.ph 0 = .done := by
  obtain ⟨posA, actB, finC, doneC, waitE, openF1, openF2, toOpG, mastH, mastI, phJ, mutK, failR⟩ := hi
  cases hst
  all_goals
    simp only [updP, upd, updB]
    grind [after_cases]

theorem ELInv_step_phJ {c : LCfg} {s s' : LESt} (hi : ELInv c s) (hst : ELStep c s s') :
    ∀ w, 1 ≤ w → w ≤ c.n → s'.base.ph w ≠ .back ∧ s'.base.ph w ≠ .toOpen2 := by
  obtain ⟨posA, actB, finC, doneC, waitE, openF1, openF2, toOpG, mastH, mastI, phJ, mutK, failR⟩ := hi
  cases hst
  all_goals
    simp only [updP, upd, updB]
    grind [after_cases]

theorem ELInv_step_mutK {c : LCfg} {s s' : LESt} (hi : ELInv c s) (hst : ELStep c s s') :
    s'.base.mutex = true →
    ∃ v, 1 ≤ v ∧ v ≤ c.n ∧ s'.base.ph v = .inComb ∧ s'.failing v = false := by
  obtain ⟨posA, actB, finC, doneC, waitE, openF1, openF2, toOpG, mastH, mastI, phJ, mutK, failR⟩ := hi
  cases hst
  all_goals
    simp only [updP, upd, updB]
    grind [after_cases]

theorem ELInv_step_failR {c : LCfg} {s s' : LESt} (hi : ELInv c s) (hst : ELStep c s s') :
    ∀ t, s'.failing t = true → 1 ≤ t ∧ t ≤ c.n := by
  obtain ⟨posA, actB, finC, doneC, waitE, openF1, openF2, toOpG, mastH, mastI, phJ, mutK, failR⟩ := hi
  cases hst
  all_goals
    simp only [updP, upd, updB]
    grind [after_cases]

theorem ELInv_step {c : LCfg} {s s' : LESt} (hi : ELInv c s) (hst : ELStep c s s') : ELInv c s' :=
  ⟨ELInv_step_posA hi hst, ELInv_step_actB hi hst, ELInv_step_finC hi hst, ELInv_step_doneC hi hst, ELInv_step_waitE hi hst, ELInv_step_openF1 hi hst, ELInv_step_openF2 hi hst, ELInv_step_toOpG hi hst, ELInv_step_mastH hi hst, ELInv_step_mastI hi hst, ELInv_step_phJ hi hst, ELInv_step_mutK hi hst, ELInv_step_failR hi hst⟩

theorem ELInv_reach {c : LCfg} (wf : LWF c) {s : LESt} (hs : c.EReach s) : ELInv c s :=
  el_reach_induct (ELInv_init wf) (fun _ _ hi hst => ELInv_step hi hst) s hs

/-! ## deadlock-freedom of the error path -/

theorem el_step_some {c : LCfg} {s : LSt} (e : Ev) (hn : c.next s e.thread = some e)
    (hen : c.enabled s e = true) : c.step s e = some (c.apply s e) := by
  simp [LCfg.step, hn, hen]

/-- a normal event of the base machine is an event of the error machine, if its thread has not failed and
the fence it waits for (if any) is okay -/
theorem el_ok_step {c : LCfg} {s : LESt} (e : Ev) (b : LSt) (hf : s.failing e.thread = false)
    (hst : c.step s.base e = some b) (hok : ∀ t f, e = .fwait t f → s.okay f = true) :
    ∃ e' s', c.estep s e' = some s' := by
  refine ⟨.ok e, ?_⟩
  cases e with
  | fwait t f => simp [LCfg.estep, hst, hok t f rfl, (by simpa [Ev.thread] using hf : s.failing t = false)]
  | _ => simp_all [LCfg.estep, Ev.thread]

theorem el_ok_next {c : LCfg} {s : LESt} (e : Ev) (hf : s.failing e.thread = false)
    (hn : c.next s.base e.thread = some e) (hen : c.enabled s.base e = true)
    (hok : ∀ t f, e = .fwait t f → s.okay f = true) : ∃ e' s', c.estep s e' = some s' :=
  el_ok_step e _ hf (el_step_some e hn hen) hok

/-- the largest worker that is not done can move, or a worker inside `combine()` can -/
theorem el_worker_step {c : LCfg} {s : LESt} (wf : LWF c) (inv : ELInv c s)
    (h0 : s.base.fence 0 = true) (hk0 : s.okay 0 = true)
    (w : Nat) (h1 : 1 ≤ w) (h2 : w ≤ c.n) (hnd : s.base.ph w ≠ .done)
    (hlater : ∀ v, w < v → v ≤ c.n → s.base.ph v = .done) : ∃ e s', c.estep s e = some s' := by
  have hw0 : w ≠ 0 := by omega
  have hwn : ¬ c.n < w := by omega
  by_cases hfl : s.failing w = true
  · refine ⟨.fopenF w w, ?_⟩
    simp [LCfg.estep, h1, h2, hfl]
  have hfl' : s.failing w = false := by simpa using hfl
  cases h : s.base.ph w with
  | front =>
    exact el_ok_next (c := c) (s := s) (.fwait w 0) (by simpa [Ev.thread] using hfl')
      (by simp [LCfg.next, Ev.thread, h, hw0, hwn]) (by simpa [LCfg.enabled] using h0)
      (by intro t f he; cases he; exact hk0)
  | idle =>
    by_cases hwt : c.waitAt w = some (s.base.pos w)
    · have hlt := wf.wait_lt w _ h1 h2 hwt
      obtain ⟨q, hq, hqf⟩ := wf.open_ex (w + 1) (by omega) (by omega)
      have hd := hlater (w + 1) (by omega) (by omega)
      have hfe : s.base.fence (w + 1) = true := by
        rcases inv.doneC (w + 1) (by omega) (by omega) hd with hfin | hfe
        · exact inv.openF2 (w + 1) q (by omega) (by omega) hq (by omega)
        · exact hfe
      have hn : c.next s.base w = some (.fwait w (w + 1)) := by
        simp [LCfg.next, h, hw0, hwn, hwt]
      by_cases hok : s.okay (w + 1) = true
      · exact el_ok_next (c := c) (s := s) (.fwait w (w + 1)) (by simpa [Ev.thread] using hfl')
          (by simpa [Ev.thread] using hn) (by simpa [LCfg.enabled] using hfe)
          (by intro t f he; cases he; exact hok)
      · refine ⟨.fwaitF w (w + 1), ?_⟩
        simp [LCfg.estep, hfl', hn, hfe, hok]
    · exact el_ok_next (c := c) (s := s) (.enter w (c.cell (s.base.pos w)))
        (by simpa [Ev.thread] using hfl')
        (by simp [LCfg.next, Ev.thread, h, hw0, hwn, hwt]) (by simp [LCfg.enabled])
        (by intro t f he; cases he)
  | ready =>
    exact el_ok_next (c := c) (s := s) (.enter w (c.cell (s.base.pos w)))
      (by simpa [Ev.thread] using hfl')
      (by simp [LCfg.next, Ev.thread, h, hw0, hwn]) (by simp [LCfg.enabled])
      (by intro t f he; cases he)
  | insc =>
    exact el_ok_next (c := c) (s := s) (.leave w (c.cell (s.base.pos w)))
      (by simpa [Ev.thread] using hfl')
      (by simp [LCfg.next, Ev.thread, h, hw0, hwn]) (by simp [LCfg.enabled])
      (by intro t f he; cases he)
  | toOpen =>
    exact el_ok_next (c := c) (s := s) (.fopen w w) (by simpa [Ev.thread] using hfl')
      (by simp [LCfg.next, Ev.thread, h, hw0, hwn]) (by simp [LCfg.enabled])
      (by intro t f he; cases he)
  | back => exact absurd h (inv.phJ w h1 h2).1
  | toOpen2 => exact absurd h (inv.phJ w h1 h2).2
  | preComb =>
    by_cases hm : s.base.mutex = true
    · obtain ⟨v, hv1, hv2, hv, hvf⟩ := inv.mutK hm
      exact el_ok_next (c := c) (s := s) (.cleave v) (by simpa [Ev.thread] using hvf)
        (by simp [LCfg.next, Ev.thread, hv, show v ≠ 0 by omega, show ¬ c.n < v by omega])
        (by simp [LCfg.enabled]) (by intro t f he; cases he)
    · exact el_ok_next (c := c) (s := s) (.center w) (by simpa [Ev.thread] using hfl')
        (by simp [LCfg.next, Ev.thread, h, hw0, hwn]) (by simpa [LCfg.enabled] using hm)
        (by intro t f he; cases he)
  | inComb =>
    exact el_ok_next (c := c) (s := s) (.cleave w) (by simpa [Ev.thread] using hfl')
      (by simp [LCfg.next, Ev.thread, h, hw0, hwn]) (by simp [LCfg.enabled])
      (by intro t f he; cases he)
  | done => exact absurd h hnd

theorem el_workers_step {c : LCfg} {s : LESt} (wf : LWF c) (inv : ELInv c s)
    (h0 : s.base.fence 0 = true) (hk0 : s.okay 0 = true) :
    ∀ k, k ≤ c.n → (∀ v, k < v → v ≤ c.n → s.base.ph v = .done) →
      (∃ e s', c.estep s e = some s') ∨ (∀ w, 1 ≤ w → w ≤ c.n → s.base.ph w = .done) := by
  intro k
  induction k with
  | zero => intro _ h; exact Or.inr (fun w h1 h2 => h w (by omega) h2)
  | succ k ih =>
    intro hk h
    by_cases hd : s.base.ph (k + 1) = .done
    · refine ih (by omega) (fun v hv1 hv2 => ?_)
      by_cases e : v = k + 1
      · subst e; exact hd
      · exact h v (by omega) hv2
    · exact Or.inl (el_worker_step wf inv h0 hk0 (k + 1) (by omega) hk hd h)

/-- abstract version of `layered_err_no_deadlock` -/
theorem el_no_deadlock {c : LCfg} (wf : LWF c) (s : LESt) (hs : c.EReach s)
    (hf : LCfg.efinal s = false) : ∃ e s', c.estep s e = some s' := by
  have inv := ELInv_reach wf hs
  have hnd : s.base.ph 0 ≠ .done := by simpa [LCfg.efinal, LCfg.final] using hf
  have hf0 : s.failing 0 = false := by
    by_cases h : s.failing 0 = true
    · have := (inv.failR 0 h).1; omega
    · simpa using h
  rcases inv.mastI with h | h | h
  · exact el_ok_next (c := c) (s := s) (.fopen 0 0) (by simpa [Ev.thread] using hf0)
      (by simp [LCfg.next, Ev.thread, h]) (by simp [LCfg.enabled]) (by intro t f he; cases he)
  · obtain ⟨h0, hk0⟩ := inv.mastH (by simp [h])
    rcases el_workers_step wf inv h0 hk0 c.n (Nat.le_refl _) (fun v h1 h2 => by omega) with hst | hall
    · exact hst
    · exact el_ok_next (c := c) (s := s) .join (by simpa [Ev.thread] using hf0)
        (by simp [LCfg.next, Ev.thread, h])
        (by simpa [LCfg.enabled] using (allDone_iff c s.base).2 hall) (by intro t f he; cases he)
  · exact absurd h hnd

/-- the error path cannot deadlock: every reachable non-final state has an enabled transition
    (all workers terminate, the master joins) -/
theorem layered_err_no_deadlock (n : Nat) (le tl cell : Nat → Nat) (comb : Bool)
    (hle : ∀ i j, i < j → j ≤ tl n → le i < le j)
    (htl : ∀ i, i < n → tl i + 2 ≤ tl (i + 1))
    (s : LESt) (hs : (LCfg.ofFns n le tl cell comb).EReach s) (hf : LCfg.efinal s = false) :
    ∃ e s', (LCfg.ofFns n le tl cell comb).estep s e = some s' :=
  el_no_deadlock (ofFns_wf n le tl cell comb hle htl) s hs hf

/-! ## conservativity -/

theorem el_fence_after {c : LCfg} {s s' : LSt} {e : Ev} (h : c.step s e = some s') :
    s'.fence = el_okay s.fence e := by
  obtain ⟨_, _, rfl⟩ := step_parts h
  cases e <;> simp only [LCfg.apply, el_okay] <;> split <;> rfl

theorem el_conservative_aux (c : LCfg) (s : LSt) (hs : c.Reach s) :
    c.EReach { base := s, okay := s.fence, failing := fun _ => false } := by
  induction hs with
  | init => exact LCfg.EReach.init
  | step e _ h ih =>
    refine LCfg.EReach.step (.ok e) ih ?_
    have hfence := el_fence_after h
    have hen := (step_parts h).2.1
    cases e <;> simp_all [LCfg.estep, el_okay, LCfg.enabled]

/-- without failures the extended machine is the old one: a run of normal events only -/
theorem layered_err_conservative (c : LCfg) (s : LSt) (hs : c.Reach s) :
    ∃ es : LESt, c.EReach es ∧ es.base = s ∧ (∀ t, es.failing t = false) :=
  ⟨_, el_conservative_aux c s hs, rfl, fun _ => rfl⟩

/-! ## safety of the workers that have not failed -/

/-- failures do not break the safety of the others -/
theorem layered_err_safe (n : Nat) (le tl cell : Nat → Nat) (comb : Bool)
    (hle : ∀ i j, i < j → j ≤ tl n → le i < le j)
    (htl : ∀ i, i < n → tl i + 2 ≤ tl (i + 1))
    (s : LESt) (hs : (LCfg.ofFns n le tl cell comb).EReach s)
    (a b : Nat) (ha : 1 ≤ a) (hab : a < b) (hb : b ≤ n)
    (hA : s.base.ph a = .insc ∧ s.failing a = false) (hB : s.base.ph b = .insc ∧ s.failing b = false) :
    ∃ l, s.base.pos a < le l ∧ le (l + 1) ≤ s.base.pos b := by
  obtain ⟨hA, _⟩ := hA
  obtain ⟨hB, _⟩ := hB
  have inv := ELInv_reach (ofFns_wf n le tl cell comb hle htl) hs
  have hpa : s.base.pos a < le (tl a) :=
    inv.actB a ha (by simp [LCfg.ofFns]; omega) (by simp [hA])
  have hpb : le (tl (b - 1)) ≤ s.base.pos b :=
    inv.posA b (by omega) (by simpa [LCfg.ofFns] using hb)
  have htla : tl (a - 1) + 2 ≤ tl a := by
    have := htl (a - 1) (by omega)
    have e : a - 1 + 1 = a := by omega
    rw [e] at this; exact this
  by_cases hadj : b = a + 1
  · subst hadj
    have e1 : a + 1 - 1 = a := by omega
    rw [e1] at hpb
    by_cases hw : s.base.pos a < le (tl a - 1)
    · refine ⟨tl a - 1, hw, ?_⟩
      have e : tl a - 1 + 1 = tl a := by omega
      rw [e]; exact hpb
    · have hf : s.base.fence (a + 1) = true :=
        inv.waitE a (le (tl a - 1)) ha (by simp [LCfg.ofFns]; omega)
          (by simp [LCfg.ofFns]; omega) (by rw [hA]; simp; omega)
      have ho := inv.openF1 (a + 1) (le (tl a + 1) - 1) (by omega) (by simpa [LCfg.ofFns] using hb)
        (by simp [LCfg.ofFns]; omega) hf
      rcases ho with ho | ho
      · exact ⟨tl a, hpa, by omega⟩
      · rw [hB] at ho; cases ho
  · refine ⟨tl a, hpa, ?_⟩
    have h1 := tl_mono' htl (a + 1) (b - 1) (by omega) (by omega)
    have h2 := htl a (by omega)
    have := le_mono hle (tl a + 1) (tl (b - 1)) (by omega) (tl_le htl (b - 1) (by omega))
    omega

/-! ## termination of the error path -/

/-- executes a list of events of the error machine -/
def LCfg.erun (c : LCfg) : LESt → List EEv → Option LESt
  | s, [] => some s
  | s, e :: es => match c.estep s e with | some s' => LCfg.erun c s' es | none => none

/-- remaining work of worker `w` in the error machine: a failing worker has its `open(false)` to do; a worker
that has returned through the error path (done, own fence open with `okay = false`) has nothing left;
otherwise the normal remaining work plus a possible failure -/
def LCfg.ewMeasure (c : LCfg) (s : LESt) (w : Nat) : Nat :=
  if s.failing w = true then 1
  else if s.base.ph w = .done ∧ s.base.fence w = true ∧ s.okay w = false then 0
  else c.wMeasure s.base w + 2

def LCfg.emeasure (c : LCfg) (s : LESt) : Nat :=
  LCfg.mMeasure s.base + ((List.range c.n).map fun k => c.ewMeasure s (k + 1)).sum

theorem el_ewMeasure_congr (c : LCfg) (s s' : LESt) (w : Nat) (h0 : s'.failing w = s.failing w)
    (h1 : s'.base.ph w = s.base.ph w) (h2 : s'.base.pos w = s.base.pos w)
    (h3 : s'.base.fence w = s.base.fence w) (h4 : s'.okay w = s.okay w) :
    c.ewMeasure s' w = c.ewMeasure s w := by
  simp only [LCfg.ewMeasure, LCfg.wMeasure, h0, h1, h2, h3, h4]

theorem el_master_dec {c : LCfg} {s s' : LESt}
    (hfl : ∀ w, 1 ≤ w → s'.failing w = s.failing w) (hph : ∀ w, 1 ≤ w → s'.base.ph w = s.base.ph w)
    (hpos : ∀ w, 1 ≤ w → s'.base.pos w = s.base.pos w)
    (hfe : ∀ w, 1 ≤ w → s'.base.fence w = s.base.fence w) (hok : ∀ w, 1 ≤ w → s'.okay w = s.okay w)
    (hlt : LCfg.mMeasure s'.base < LCfg.mMeasure s.base) : c.emeasure s' < c.emeasure s := by
  unfold LCfg.emeasure
  have := term_sum_same (c.ewMeasure s') (c.ewMeasure s) c.n
    (fun w hw => el_ewMeasure_congr c s s' w (hfl w hw) (hph w hw) (hpos w hw) (hfe w hw) (hok w hw))
  omega

theorem el_worker_dec {c : LCfg} {s s' : LESt} (t : Nat) (h1 : 1 ≤ t) (h2 : t ≤ c.n)
    (hfl : ∀ w, w ≠ t → s'.failing w = s.failing w) (hph : ∀ w, w ≠ t → s'.base.ph w = s.base.ph w)
    (hpos : ∀ w, w ≠ t → s'.base.pos w = s.base.pos w)
    (hfe : ∀ w, w ≠ t → s'.base.fence w = s.base.fence w) (hok : ∀ w, w ≠ t → s'.okay w = s.okay w)
    (hlt : c.ewMeasure s' t < c.ewMeasure s t) : c.emeasure s' < c.emeasure s := by
  unfold LCfg.emeasure
  have hm : LCfg.mMeasure s'.base = LCfg.mMeasure s.base :=
    term_mMeasure_congr s.base s'.base (hph 0 (by omega))
  have := term_sum_worker (c.ewMeasure s') (c.ewMeasure s) c.n t h1 h2 hlt
    (fun w hw => el_ewMeasure_congr c s s' w (hfl w hw) (hph w hw) (hpos w hw) (hfe w hw) (hok w hw))
  omega

theorem el_step_dec {c : LCfg} {s s' : LESt} (inv : ELInv c s) (hst : ELStep c s s') :
    c.emeasure s' < c.emeasure s := by
  cases hst with
  | mopen _ h =>
    refine el_master_dec (fun w hw => rfl) (fun w hw => ?_) (fun w hw => rfl) (fun w hw => ?_)
      (fun w hw => ?_) (by simp [LCfg.mMeasure, updP, h])
    all_goals simp [updP, updB]; omega
  | join _ h _ =>
    refine el_master_dec (fun w hw => rfl) (fun w hw => ?_) (fun w hw => rfl) (fun w hw => rfl)
      (fun w hw => rfl) (by simp [LCfg.mMeasure, updP, h])
    simp [updP]; omega
  | wfront t h1 h2 hf h _ _ =>
    refine el_worker_dec t h1 h2 (fun w hw => rfl) (fun w hw => by simp [updP, hw]) (fun w hw => rfl)
      (fun w hw => rfl) (fun w hw => rfl) ?_
    rcases after_cases c t (s.base.pos t) with ⟨ha, hb⟩ | ⟨ha, hb⟩ | ⟨ha, hb⟩ <;>
      simp [LCfg.ewMeasure, LCfg.wMeasure, updP, hf, h, ha] <;> (try split) <;> omega
  | wwait t h1 h2 hf h _ _ _ =>
    refine el_worker_dec t h1 h2 (fun w hw => rfl) (fun w hw => by simp [updP, hw]) (fun w hw => rfl)
      (fun w hw => rfl) (fun w hw => rfl) ?_
    simp [LCfg.ewMeasure, LCfg.wMeasure, updP, hf, h]
  | enterI t h1 h2 hf h _ =>
    refine el_worker_dec t h1 h2 (fun w hw => rfl) (fun w hw => by simp [updP, hw]) (fun w hw => rfl)
      (fun w hw => rfl) (fun w hw => rfl) ?_
    simp [LCfg.ewMeasure, LCfg.wMeasure, updP, hf, h]
  | enterR t h1 h2 hf h =>
    refine el_worker_dec t h1 h2 (fun w hw => rfl) (fun w hw => by simp [updP, hw]) (fun w hw => rfl)
      (fun w hw => rfl) (fun w hw => rfl) ?_
    simp [LCfg.ewMeasure, LCfg.wMeasure, updP, hf, h]
  | leaveO t h1 h2 hf h _ =>
    refine el_worker_dec t h1 h2 (fun w hw => rfl) (fun w hw => by simp [updP, hw]) (fun w hw => rfl)
      (fun w hw => rfl) (fun w hw => rfl) ?_
    simp [LCfg.ewMeasure, LCfg.wMeasure, updP, hf, h]
  | leaveN t h1 h2 hf h _ =>
    refine el_worker_dec t h1 h2 (fun w hw => rfl) (fun w hw => by simp [updP, hw])
      (fun w hw => by simp [upd, hw]) (fun w hw => rfl) (fun w hw => rfl) ?_
    have hp := inv.actB t h1 h2 (by simp [h])
    rcases after_cases c t (s.base.pos t + 1) with ⟨ha, hb⟩ | ⟨ha, hb⟩ | ⟨ha, hb⟩ <;>
      simp [LCfg.ewMeasure, LCfg.wMeasure, updP, upd, hf, h, ha] <;> (try split) <;> omega
  | wopen t h1 h2 hf h =>
    refine el_worker_dec t h1 h2 (fun w hw => rfl) (fun w hw => by simp [updP, hw])
      (fun w hw => by simp [upd, hw]) (fun w hw => by simp [updB, hw]) (fun w hw => by simp [updB, hw]) ?_
    have hp := inv.actB t h1 h2 (by simp [h])
    rcases after_cases c t (s.base.pos t + 1) with ⟨ha, hb⟩ | ⟨ha, hb⟩ | ⟨ha, hb⟩ <;>
      simp [LCfg.ewMeasure, LCfg.wMeasure, updP, upd, updB, hf, h, ha] <;> omega
  | center t h1 h2 hf h _ =>
    refine el_worker_dec t h1 h2 (fun w hw => rfl) (fun w hw => by simp [updP, hw]) (fun w hw => rfl)
      (fun w hw => rfl) (fun w hw => rfl) ?_
    simp [LCfg.ewMeasure, LCfg.wMeasure, updP, hf, h]
  | cleave t h1 h2 hf h =>
    refine el_worker_dec t h1 h2 (fun w hw => rfl) (fun w hw => by simp [updP, hw]) (fun w hw => rfl)
      (fun w hw => rfl) (fun w hw => rfl) ?_
    simp [LCfg.ewMeasure, LCfg.wMeasure, updP, hf, h]
    split <;> omega
  | waitF0 t h1 h2 hf h _ _ =>
    refine el_worker_dec t h1 h2 (fun w hw => by simp [updB, hw]) (fun w hw => rfl) (fun w hw => rfl)
      (fun w hw => rfl) (fun w hw => rfl) ?_
    simp [LCfg.ewMeasure, LCfg.wMeasure, updB, hf, h]
  | waitF1 t h1 h2 hf h _ _ _ =>
    refine el_worker_dec t h1 h2 (fun w hw => by simp [updB, hw]) (fun w hw => rfl) (fun w hw => rfl)
      (fun w hw => rfl) (fun w hw => rfl) ?_
    simp [LCfg.ewMeasure, LCfg.wMeasure, updB, hf, h]
  | failC t h1 h2 hf h =>
    refine el_worker_dec t h1 h2 (fun w hw => by simp [updB, hw]) (fun w hw => rfl) (fun w hw => rfl)
      (fun w hw => rfl) (fun w hw => rfl) ?_
    simp [LCfg.ewMeasure, LCfg.wMeasure, updB, hf, h]
  | failO t h1 h2 hf h hcan =>
    refine el_worker_dec t h1 h2 (fun w hw => by simp [updB, hw]) (fun w hw => rfl) (fun w hw => rfl)
      (fun w hw => rfl) (fun w hw => rfl) ?_
    simp only [LCfg.ewMeasure, updB, if_true, hf]
    simp only [Bool.false_eq_true, if_false]
    split
    · next hb =>
      simp [LCfg.canFail, canFailPh, hb.1, hb.2.1, hb.2.2] at hcan
    · omega
  | openF t h1 h2 hf =>
    refine el_worker_dec t h1 h2 (fun w hw => by simp [updB, hw]) (fun w hw => by simp [updP, hw])
      (fun w hw => rfl) (fun w hw => by simp [updB, hw]) (fun w hw => by simp [updB, hw]) ?_
    simp [LCfg.ewMeasure, updB, updP, hf]

/-- abstract version: the variant decreases with every step of the error machine -/
theorem el_variant_decreases {c : LCfg} (wf : LWF c) {s s' : LESt} {e : EEv} (hs : c.EReach s)
    (h : c.estep s e = some s') : c.emeasure s' < c.emeasure s :=
  el_step_dec (ELInv_reach wf hs) (el_estep_ELStep h)

theorem el_runs_bounded {c : LCfg} (wf : LWF c) : ∀ (es : List EEv) (s s' : LESt), c.EReach s →
    c.erun s es = some s' → es.length + c.emeasure s' ≤ c.emeasure s := by
  intro es
  induction es with
  | nil => intro s s' _ h; simp only [LCfg.erun, Option.some.injEq] at h; subst h; simp
  | cons e es ih =>
    intro s s' hs h
    simp only [LCfg.erun] at h
    split at h
    · next s1 hst =>
      have h1 := ih s1 s' (LCfg.EReach.step e hs hst) h
      have h2 := el_variant_decreases wf hs hst
      simp only [List.length_cons]
      omega
    · cases h

theorem el_terminates {c : LCfg} (wf : LWF c) : ∀ (m : Nat) (s : LESt), c.EReach s →
    c.emeasure s ≤ m → ∃ es s', c.erun s es = some s' ∧ LCfg.efinal s' = true := by
  intro m
  induction m with
  | zero =>
    intro s hs hm
    by_cases hf : LCfg.efinal s = true
    · exact ⟨[], s, rfl, hf⟩
    · obtain ⟨e, s1, hst⟩ := el_no_deadlock wf s hs (by simpa using hf)
      have := el_variant_decreases wf hs hst
      omega
  | succ m ih =>
    intro s hs hm
    by_cases hf : LCfg.efinal s = true
    · exact ⟨[], s, rfl, hf⟩
    · obtain ⟨e, s1, hst⟩ := el_no_deadlock wf s hs (by simpa using hf)
      have hlt := el_variant_decreases wf hs hst
      obtain ⟨es, s', hrun, hfin⟩ := ih s1 (LCfg.EReach.step e hs hst) (by omega)
      exact ⟨e :: es, s', by simp [LCfg.erun, hst, hrun], hfin⟩

/-- the variant strictly decreases with every step of the error machine -/
theorem layered_err_variant_decreases (n : Nat) (le tl cell : Nat → Nat) (comb : Bool)
    (hle : ∀ i j, i < j → j ≤ tl n → le i < le j)
    (htl : ∀ i, i < n → tl i + 2 ≤ tl (i + 1))
    (s : LESt) (hs : (LCfg.ofFns n le tl cell comb).EReach s) (e : EEv) (s' : LESt)
    (h : (LCfg.ofFns n le tl cell comb).estep s e = some s') :
    (LCfg.ofFns n le tl cell comb).emeasure s' < (LCfg.ofFns n le tl cell comb).emeasure s :=
  el_variant_decreases (ofFns_wf n le tl cell comb hle htl) hs h

/-- no run of the error machine is longer than the measure of its first state -/
theorem layered_err_runs_bounded (n : Nat) (le tl cell : Nat → Nat) (comb : Bool)
    (hle : ∀ i j, i < j → j ≤ tl n → le i < le j)
    (htl : ∀ i, i < n → tl i + 2 ≤ tl (i + 1))
    (s : LESt) (hs : (LCfg.ofFns n le tl cell comb).EReach s) (es : List EEv) (s' : LESt)
    (h : (LCfg.ofFns n le tl cell comb).erun s es = some s') :
    es.length + (LCfg.ofFns n le tl cell comb).emeasure s' ≤ (LCfg.ofFns n le tl cell comb).emeasure s :=
  el_runs_bounded (ofFns_wf n le tl cell comb hle htl) es s s' hs h

/-- every run of the error machine that cannot be extended has reached the final state -/
theorem layered_err_maximal_run_final (n : Nat) (le tl cell : Nat → Nat) (comb : Bool)
    (hle : ∀ i j, i < j → j ≤ tl n → le i < le j)
    (htl : ∀ i, i < n → tl i + 2 ≤ tl (i + 1))
    (s : LESt) (hs : (LCfg.ofFns n le tl cell comb).EReach s)
    (hmax : ∀ e, (LCfg.ofFns n le tl cell comb).estep s e = none) : LCfg.efinal s = true := by
  by_cases hf : LCfg.efinal s = true
  · exact hf
  · obtain ⟨e, s1, hst⟩ := layered_err_no_deadlock n le tl cell comb hle htl s hs (by simpa using hf)
    rw [hmax e] at hst; cases hst

/-- from every reachable state of the error machine a final state is reachable -/
theorem layered_err_terminates (n : Nat) (le tl cell : Nat → Nat) (comb : Bool)
    (hle : ∀ i j, i < j → j ≤ tl n → le i < le j)
    (htl : ∀ i, i < n → tl i + 2 ≤ tl (i + 1))
    (s : LESt) (hs : (LCfg.ofFns n le tl cell comb).EReach s) :
    ∃ es s', (LCfg.ofFns n le tl cell comb).erun s es = some s' ∧ LCfg.efinal s' = true :=
  el_terminates (ofFns_wf n le tl cell comb hle htl) _ s hs (Nat.le_refl _)

end FeatModel.DA
