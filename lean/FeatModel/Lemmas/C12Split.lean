import FeatModel.Model.PartitionSplit
import FeatModel.Lemmas.C12Basic
/-! C12 helper lemmas: the sorted-merge intersection of `PatchHaloSplitPart::intersect`. -/
namespace FeatModel.Parti
open FeatModel.Adj

/-- the merge keeps exactly my entries whose halo position also occurs in the other child's (ascending) list -/
theorem isectMerge_eq_filter : ∀ (l1 : List (Nat × Nat)) (l2 : List Nat),
    (l1.map (·.1)).Pairwise (· < ·) → l2.Pairwise (· < ·) →
    isectMerge l1 l2 = (l1.filter fun e => l2.contains e.1).map (·.2)
  | [], _, _, _ => by simp [isectMerge]
  | _ :: _, [], _, _ => by simp [isectMerge]
  | (i1, p1) :: r1, i2 :: r2, h1, h2 => by
    have h1' := h1
    have h2' := h2
    simp only [List.map_cons, List.pairwise_cons] at h1' h2'
    have hr1 : ∀ e ∈ r1, i1 < e.1 := fun e he => h1'.1 e.1 (List.mem_map.mpr ⟨e, he, rfl⟩)
    unfold isectMerge
    by_cases hlt : i1 < i2
    · simp only [hlt, if_true]
      rw [isectMerge_eq_filter r1 (i2 :: r2) h1'.2 h2]
      have : (i2 :: r2).contains i1 = false := by
        simp only [List.contains_eq_mem, List.mem_cons, decide_eq_false_iff_not, not_or]
        exact ⟨by omega, fun hm => by have := h2'.1 i1 hm; omega⟩
      rw [List.filter_cons_of_neg (by rw [this]; exact Bool.false_ne_true)]
    · simp only [hlt, if_false]
      by_cases hgt : i2 < i1
      · simp only [hgt, if_true]
        rw [isectMerge_eq_filter ((i1, p1) :: r1) r2 h1 h2'.2]
        congr 1
        apply List.filter_congr
        intro e he
        have hge : i1 ≤ e.1 := by
          rcases List.mem_cons.mp he with rfl | he
          · exact Nat.le_refl _
          · exact Nat.le_of_lt (hr1 e he)
        have hne : e.1 ≠ i2 := by omega
        simp [List.contains_eq_mem, hne]
      · simp only [hgt, if_false]
        have heq : i1 = i2 := by omega
        subst heq
        rw [isectMerge_eq_filter r1 r2 h1'.2 h2'.2]
        have hc : (i1 :: r2).contains i1 = true := by simp
        simp only [List.filter_cons, hc, if_true, List.map_cons]
        congr 2
        apply List.filter_congr
        intro e he
        have := hr1 e he
        have hne : e.1 ≠ i1 := by omega
        simp [List.contains_eq_mem, hne]
termination_by l1 l2 => l1.length + l2.length

end FeatModel.Parti

namespace FeatModel.Parti
open FeatModel.Adj

theorem filterMap_congr' {α β : Type} {f g : α → Option β} : ∀ {l : List α}, (∀ a ∈ l, f a = g a) →
    l.filterMap f = l.filterMap g
  | [], _ => rfl
  | a :: as, h => by
    simp only [List.filterMap_cons]
    rw [h a (by simp), filterMap_congr' (fun x hx => h x (by simp [hx]))]

theorem zipIdx_eq_map_range (l : List Nat) :
    l.zipIdx = (List.range l.length).map (fun i => (l.getD i 0, i)) := by
  apply List.ext_getElem
  · simp
  · intro i h1 h2
    simp at h1
    simp [List.getD, h1]

theorem filterMap_guard_eq_filter (q : Nat → Bool) : ∀ l : List Nat,
    l.filterMap (fun i => if q i then some i else none) = l.filter q
  | [] => rfl
  | x :: xs => by
    simp only [List.filterMap_cons, List.filter_cons]
    by_cases h : q x <;> simp [h, filterMap_guard_eq_filter q xs]

/-- halo positions of the entities that lie in a child patch -/
theorem splitHalo_fst (ct H : List Nat) :
    (splitHalo ct H).map (·.1) = (List.range H.length).filter (fun i => ct.contains (H.getD i 0)) := by
  unfold splitHalo
  rw [zipIdx_eq_map_range, List.filterMap_map, List.map_filterMap, ← filterMap_guard_eq_filter]
  apply filterMap_congr'
  intro i _
  simp only [Function.comp]
  by_cases h : ct.contains (H.getD i 0) <;> simp [h]

theorem splitHalo_eq (ct H : List Nat) :
    splitHalo ct H = (List.range H.length).filterMap
      (fun i => if ct.contains (H.getD i 0) then some (i, ct.idxOf (H.getD i 0)) else none) := by
  unfold splitHalo
  rw [zipIdx_eq_map_range, List.filterMap_map]
  rfl

theorem opt_aux (a b : Bool) (e : Nat × Nat) (v : Nat) (f : Nat × Nat → Nat) (pred : Nat × Nat → Bool)
    (hp : pred e = b) (hf : a = true → f e = v) :
    Option.map f (Option.filter pred (if a = true then some e else none)) =
      if (a && b) = true then some v else none := by
  cases a <;> cases b <;> simp [Option.filter, hp] <;> exact hf rfl

theorem contains_filter_range (n : Nat) (q : Nat → Bool) (i : Nat) :
    ((List.range n).filter q).contains i = (decide (i < n) && q i) := by
  rw [Bool.eq_iff_iff]
  simp [List.mem_filter]

/-- **one side of the split halo in closed form**: the child halo, mapped to the parent patch numbering, lists the
parent-halo entries that lie in my child AND whose position is one where the other parent's halo entry lies in the
other child -/
theorem childHalo_closed (ctA ctB Ha Hb : List Nat) (g : Nat → Nat) :
    (isectMerge (splitHalo ctA Ha) ((splitHalo ctB Hb).map (·.1))).map (fun i => g (ctA.getD i 0)) =
      (List.range Ha.length).filterMap (fun i =>
        if (ctA.contains (Ha.getD i 0) && (decide (i < Hb.length) && ctB.contains (Hb.getD i 0))) = true
        then some (g (Ha.getD i 0)) else none) := by
  rw [isectMerge_eq_filter _ _ (by rw [splitHalo_fst]; exact filter_range_pairwise _ _)
    (by rw [splitHalo_fst]; exact filter_range_pairwise _ _)]
  rw [splitHalo_fst, splitHalo_eq, List.filter_filterMap, List.map_map, List.map_filterMap]
  apply filterMap_congr'
  intro i _
  refine opt_aux (ctA.contains (Ha.getD i 0)) (decide (i < Hb.length) && ctB.contains (Hb.getD i 0))
    (i, ctA.idxOf (Ha.getD i 0)) (g (Ha.getD i 0)) _ _ ?_ ?_
  · exact contains_filter_range Hb.length (fun i => ctB.contains (Hb.getD i 0)) i
  · intro hA
    have hm : Ha.getD i 0 ∈ ctA := by simpa using hA
    have hlt := List.idxOf_lt_length_of_mem hm
    show g (ctA.getD (ctA.idxOf (Ha.getD i 0)) 0) = g (Ha.getD i 0)
    congr 1
    rw [List.getD_eq_getElem?_getD, List.getElem?_eq_getElem hlt]
    simp

/-- if the two parent halos list the same base entities in the same order, the two child halos obtained by
split + exchange + sorted-merge intersection list the same base entities in the same order, too -/
theorem childHalo_agree_of (ctA ctB Ha Hb TA TB : List Nat)
    (h : Ha.map (fun i => TA.getD i 0) = Hb.map (fun i => TB.getD i 0)) :
    (isectMerge (splitHalo ctA Ha) ((splitHalo ctB Hb).map (·.1))).map (fun i => TA.getD (ctA.getD i 0) 0) =
    (isectMerge (splitHalo ctB Hb) ((splitHalo ctA Ha).map (·.1))).map (fun i => TB.getD (ctB.getD i 0) 0) := by
  have hlen : Ha.length = Hb.length := by
    have := congrArg List.length h
    simpa using this
  have hel : ∀ i, i < Ha.length → TA.getD (Ha.getD i 0) 0 = TB.getD (Hb.getD i 0) 0 := by
    intro i hi
    have hi' : i < Hb.length := by omega
    have := congrArg (fun l => l[i]?) h
    simp only [List.getElem?_map, List.getElem?_eq_getElem hi, List.getElem?_eq_getElem hi', Option.map_some,
      Option.some.injEq] at this
    simpa [List.getD, hi, hi'] using this
  rw [childHalo_closed ctA ctB Ha Hb (fun x => TA.getD x 0), childHalo_closed ctB ctA Hb Ha (fun x => TB.getD x 0),
    ← hlen]
  apply filterMap_congr'
  intro i hi
  rw [List.mem_range] at hi
  rw [hel i hi]
  have hc : (ctA.contains (Ha.getD i 0) && (decide (i < Ha.length) && ctB.contains (Hb.getD i 0))) =
      (ctB.contains (Hb.getD i 0) && (decide (i < Ha.length) && ctA.contains (Ha.getD i 0))) := by
    simp only [hi, decide_true, Bool.true_and]
    exact Bool.and_comm _ _
  rw [hc]

theorem fst_mem_of_mem_zipIdx : ∀ (l : List Nat) (k : Nat) (x : Nat × Nat), x ∈ l.zipIdx k → x.1 ∈ l
  | [], _, _, h => by simp at h
  | a :: as, k, x, h => by
    simp only [List.zipIdx_cons, List.mem_cons] at h
    rcases h with rfl | h
    · simp
    · exact List.mem_cons_of_mem _ (fst_mem_of_mem_zipIdx as (k + 1) x h)

/-- the child's cells depend only on the child numbers of the parent's own cells -/
theorem childCells_congr (cells childOf childOf' : List Nat) (ch : Nat)
    (h : ∀ c ∈ cells, childOf.getD c 0 = childOf'.getD c 0) :
    childCells cells childOf ch = childCells cells childOf' ch := by
  unfold childCells
  apply filterMap_congr'
  intro x hx
  obtain ⟨c, i⟩ := x
  have := h c (fst_mem_of_mem_zipIdx cells 0 (c, i) hx)
  simp only [this]

end FeatModel.Parti
