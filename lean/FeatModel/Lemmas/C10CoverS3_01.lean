import FeatModel.Model.RefineCover
/-! C10 local refinement lemma, tetrahedron, pairwise covering family, configurations 7..13 (kernel evaluation). -/
namespace FeatModel.Refine
set_option maxRecDepth 100000

theorem cover_tetra_01 : ∀ j < 7, (refine (cell3c .simplex (j + 7))).consistent = true := by decide +kernel

end FeatModel.Refine
