import FeatModel.Model.FEDual
/-! kernel-checked: the generated tables of `keysS3` reproduce all samples of the real FEAT evaluators and their
    gradient / Hessian polynomials are the formal derivatives of the value polynomials -/
namespace FeatModel.FE
set_option maxRecDepth 100000 in
theorem tabs_keysS3 : keysS3.all okKey = true := by decide +kernel
end FeatModel.FE
