import FeatModel.Lemmas.C10Lift2Df
/-! C10 — global 2-D lift, last clause, part 3: the refined index sets list every entity once, keys are pairwise
different, and the complete theorem `consistent M → consistent (refine M)` for 2-D meshes of any size. -/
namespace FeatModel.Refine
open FeatModel.Gen.Refine

theorem tables_nodup (kind : Kind) : ∀ s < 3, ∀ c < 3, 1 ≤ c → decide (indexTable kind s c 0).Nodup = true := by
  cases kind <;> decide

/-- **rows are determined by their vertex sets**: two rows of the refined index set `<c,0>` with the same vertex
    set were generated for the same coarse entity by the same table row -/
theorem rows_inj_all (M : Mesh) (h : Inv2 M) (hdis : M.distinctOk = true) (c : Nat) (hc1 : 1 ≤ c) (hc : c ≤ 2)
    (s s' i i' : Nat) (hs : c ≤ s) (hs2 : s ≤ 2) (hs' : c ≤ s') (hs2' : s' ≤ 2) (hi : i < M.num s)
    (hi' : i' < M.num s') (r r' : List Term) (hr : r ∈ indexTable M.kind s c 0)
    (hr' : r' ∈ indexTable M.kind s' c 0)
    (hsame : sameSet (r.map (evalTerm M s 0 i)) (r'.map (evalTerm M s' 0 i')) = true) :
    s = s' ∧ i = i' ∧ r = r' := by
  have hss : (s = 1 ∨ s = 2) := by omega
  have hss' : (s' = 1 ∨ s' = 2) := by omega
  rcases hss with rfl | rfl <;> rcases hss' with rfl | rfl
  · have hc : c = 1 := by omega
    subst hc
    obtain ⟨e1, e2⟩ := rows1_inj M h i i' hi hi' r r' hr hr' hsame
    exact ⟨rfl, e1, e2⟩
  · have hc : c = 1 := by omega
    subst hc
    exact (rows12_disjoint M h i i' hi hi' r r' hr hr' hsame).elim
  · have hc : c = 1 := by omega
    subst hc
    exact (rows12_disjoint M h i' i hi' hi r' r hr' hr (sameSet_symm hsame)).elim
  · obtain ⟨e1, e2⟩ := rows2_inj M h hdis c hc1 (by omega) i i' hi hi' r r' hr hr' hsame
    exact ⟨rfl, e1, e2⟩

theorem fineIdx_nodup2 (M : Mesh) (h : Inv2 M) (hdis : M.distinctOk = true) (c : Nat) (hc1 : 1 ≤ c) (hc : c ≤ 2) :
    (fineIdx M c 0).Nodup := by
  unfold fineIdx
  rw [h.dim]
  apply nodup_flatMap_of
  · intro s hs
    rw [List.mem_range'_1] at hs
    apply nodup_flatMap_of
    · intro i hi
      rw [List.mem_range] at hi
      unfold childRows
      apply nodup_map_of
      · have := tables_nodup M.kind s (by omega) c (by omega) hc1
        simpa using this
      · intro r hr r' hr' heq
        have := rows_inj_all M h hdis c hc1 hc s s i i hs.1 (by omega) hs.1 (by omega) hi hi r r' hr hr'
          (by rw [heq]; exact sameSet_refl _)
        exact this.2.2
    · exact List.nodup_range
    · intro i hi i' hi' b hb hb'
      rw [List.mem_range] at hi hi'
      unfold childRows at hb hb'
      obtain ⟨r, hr, rfl⟩ := List.mem_map.1 hb
      obtain ⟨r', hr', heq⟩ := List.mem_map.1 hb'
      have := rows_inj_all M h hdis c hc1 hc s s i i' hs.1 (by omega) hs.1 (by omega) hi hi' r r' hr hr'
        (by rw [heq]; exact sameSet_refl _)
      exact this.2.1
  · exact List.nodup_range'
  · intro s hs s' hs' b hb hb'
    rw [List.mem_range'_1] at hs hs'
    rw [List.mem_flatMap] at hb hb'
    obtain ⟨i, hi, hb⟩ := hb
    obtain ⟨i', hi', hb'⟩ := hb'
    rw [List.mem_range] at hi hi'
    unfold childRows at hb hb'
    obtain ⟨r, hr, rfl⟩ := List.mem_map.1 hb
    obtain ⟨r', hr', heq⟩ := List.mem_map.1 hb'
    have := rows_inj_all M h hdis c hc1 hc s s' i i' hs.1 (by omega) hs'.1 (by omega) hi hi' r r' hr hr'
      (by rw [heq]; exact sameSet_refl _)
    exact this.1

theorem distinctOk_refine2 (M : Mesh) (h : Inv2 M) (hdis : M.distinctOk = true) : (refine M).distinctOk = true := by
  have hinv := inv2_refine M h
  unfold Mesh.distinctOk
  rw [List.all_eq_true]
  intro c hc
  rw [List.mem_range'_1, refine_dim, h.dim] at hc
  rw [Bool.and_eq_true]
  constructor
  · rw [List.all_eq_true]
    intro t ht
    exact (allDistinct_iff t).2 (hinv.nodup c hc.1 (by rw [refine_dim, h.dim]; omega) t ht)
  · rw [allDistinct_iff]
    have hidx := refine_idx M c 0 (by rw [h.dim]; omega) (by omega)
    rw [hidx]
    apply nodup_map_of _ _ (fineIdx_nodup2 M h hdis c hc.1 (by omega))
    intro x hx y hy hk
    -- bounds of the entries
    have hb : ∀ z ∈ fineIdx M c 0, ∀ v ∈ z, v < (refine M).num 0 := by
      intro z hz v hv
      have := ((shapeOk_iff (refine M)).1 hinv.shape c hc.1 (by rw [refine_dim, h.dim]; omega) 0 (by omega)).2 z
        (by rw [hidx]; exact hz)
      exact this.2 v hv
    have hsame := setKey_eq_sameSet _ x y (hb x hx) (hb y hy) hk
    obtain ⟨s, i, hcs, hsd, hi, r, hr, rfl⟩ := mem_fineIdx hx
    obtain ⟨s', i', hcs', hsd', hi', r', hr', rfl⟩ := mem_fineIdx hy
    rw [h.dim] at hsd hsd'
    obtain ⟨rfl, rfl, rfl⟩ := rows_inj_all M h hdis c hc.1 (by omega) s s' i i' hcs hsd hcs' hsd' hi hi' r r' hr hr' hsame
    rfl

/-- **GLOBAL LIFT, 2-D**: refinement preserves conformity of triangle and quadrilateral meshes of any size -/
theorem consistent_refine2 (M : Mesh) (hd : M.dim = 2) (h : M.consistent = true) : (refine M).consistent = true := by
  have hinv := inv2_of_consistent M hd h
  have hdis : M.distinctOk = true := by
    unfold Mesh.consistent at h
    simp only [Bool.and_eq_true] at h
    exact h.1.1.2
  have h2 := inv2_refine M hinv
  have h3 := distinctOk_refine2 M hinv hdis
  unfold Mesh.consistent
  simp only [Bool.and_eq_true, beq_iff_eq]
  exact ⟨⟨⟨⟨⟨by rw [h2.nums3, refine_dim, hd], h2.shape⟩, h2.faces⟩, h3⟩, h2.facets⟩, h2.covered⟩

end FeatModel.Refine
