/-
C19 permutation group: helper lemmas and final proofs (`C19L.<name>`) for the permutation theorems of
`C19_statements.lean`. The model (`FeatModel.Model.Adjacency`) is untouched.
Key idea for `swap_perm_agree`: by naturality of swaps, `applySwaps s x = (permFromSwap s).map x[·]`; the loop
invariant `aux_inv` of `calc_swap_from_perm` then shows `permFromSwap s = p` (`swapFromPerm_full`).
-/
import FeatModel.Model.Adjacency
import Mathlib.Data.List.Perm.Subperm
open FeatModel.Adj

namespace C19L.perms

/-- Prop-level reading of `Perm.isBijection`. -/
theorem isBij_iff (p : List Nat) :
    Perm.isBijection p = true ↔ (∀ k, k ∈ p → k < p.length) ∧ (∀ k, k < p.length → k ∈ p) := by
  simp [Perm.isBijection, List.all_eq_true]

theorem isBij_nodup (p : List Nat) (h : Perm.isBijection p = true) : p.Nodup := by
  rw [isBij_iff] at h
  have h1 : (List.range p.length).Subperm p :=
    List.subperm_of_subset List.nodup_range (fun k hk => h.2 k (List.mem_range.1 hk))
  have h2 := h1.perm_of_length_le (by simp)
  exact h2.nodup_iff.1 List.nodup_range

theorem isBij_getD_lt (p : List Nat) (h : Perm.isBijection p = true) (i : Nat) (hi : i < p.length) :
    p.getD i 0 < p.length := by
  rw [isBij_iff] at h
  apply h.1
  simp [List.getD_eq_getElem?_getD, hi]

theorem isBij_surj (p : List Nat) (h : Perm.isBijection p = true) (k : Nat) (hk : k < p.length) :
    ∃ i, i < p.length ∧ p.getD i 0 = k := by
  rw [isBij_iff] at h
  obtain ⟨i, hi, rfl⟩ := List.mem_iff_getElem.1 (h.2 k hk)
  exact ⟨i, hi, by simp [List.getD_eq_getElem?_getD, hi]⟩

theorem isBij_inj (p : List Nat) (h : Perm.isBijection p = true) (a b : Nat) (ha : a < p.length)
    (hb : b < p.length) (hab : p.getD a 0 = p.getD b 0) : a = b := by
  have hn := isBij_nodup p h
  exact (List.getD_inj ha hb hn).1 hab

theorem isBij_of (p : List Nat) (h1 : ∀ i, i < p.length → p.getD i 0 < p.length)
    (h2 : ∀ k, k < p.length → ∃ i, i < p.length ∧ p.getD i 0 = k) : Perm.isBijection p = true := by
  rw [isBij_iff]
  constructor
  · intro k hk
    obtain ⟨i, hi, rfl⟩ := List.mem_iff_getElem.1 hk
    have := h1 i hi
    simpa [List.getD_eq_getElem?_getD, hi] using this
  · intro k hk
    obtain ⟨i, hi, rfl⟩ := h2 k hk
    simp [List.getD_eq_getElem?_getD, hi]

theorem swapAt_size {α : Type} (x : Array α) (i j : Nat) : (Perm.swapAt x i j).size = x.size := by
  unfold Perm.swapAt
  split <;> simp

theorem swapAt_getElem? {α : Type} (x : Array α) (i j m : Nat) (hi : i < x.size) (hj : j < x.size) :
    (Perm.swapAt x i j)[m]? =
      if m = j then x[i]? else if m = i then x[j]? else x[m]? := by
  unfold Perm.swapAt
  rw [dif_pos ⟨hi, hj⟩]
  simp only [Array.getElem?_setIfInBounds, Array.getElem?_set]
  by_cases h1 : m = j
  · subst h1; simp [hi, hj]
  · by_cases h2 : m = i
    · subst h2; simp [hj, h1, Ne.symm h1]
    · simp [h1, h2, Ne.symm h1, Ne.symm h2]

theorem swapAt_getD {α : Type} (x : Array α) (i j m : Nat) (d : α) (hi : i < x.size) (hj : j < x.size) :
    (Perm.swapAt x i j).getD m d =
      if m = j then x.getD i d else if m = i then x.getD j d else x.getD m d := by
  simp only [Array.getD_eq_getD_getElem?, swapAt_getElem? x i j m hi hj]
  split
  · rfl
  · split <;> rfl

theorem swapAt_invol {α : Type} (x : Array α) (i j : Nat) :
    Perm.swapAt (Perm.swapAt x i j) i j = x := by
  by_cases h : i < x.size ∧ j < x.size
  · apply Array.ext_getElem?
    intro m
    rw [swapAt_getElem? _ i j m (by simp [swapAt_size, h.1]) (by simp [swapAt_size, h.2]),
      swapAt_getElem? _ i j i h.1 h.2, swapAt_getElem? _ i j j h.1 h.2, swapAt_getElem? _ i j m h.1 h.2]
    by_cases h1 : m = j
    · subst h1; simp; intro h; rw [h]
    · by_cases h2 : m = i
      · subst h2; simp [h1]
      · simp [h1, h2]
  · simp [Perm.swapAt, h]

theorem foldl_reverse_undo {α β : Type} (f : α → β → α) (hf : ∀ x i, f (f x i) i = x) (l : List β) (x : α) :
    l.reverse.foldl f (l.foldl f x) = x := by
  induction l generalizing x with
  | nil => rfl
  | cons a l ih => simp [List.foldl_append, ih, hf]

/-- one step of the in-situ swap loop -/
def swapStep {α : Type} (s : List Nat) (x : Array α) (i : Nat) : Array α :=
  if s.getD i 0 > i then Perm.swapAt x i (s.getD i 0) else x

theorem applySwaps_eq {α : Type} (s : List Nat) (x : Array α) :
    Perm.applySwaps s x = (List.range (s.length - 1)).foldl (swapStep s) x := rfl

theorem applySwapsInv_eq {α : Type} (s : List Nat) (x : Array α) :
    Perm.applySwapsInv s x = (List.range (s.length - 1)).reverse.foldl (swapStep s) x := rfl

theorem swapStep_invol {α : Type} (s : List Nat) (x : Array α) (i : Nat) :
    swapStep s (swapStep s x i) i = x := by
  unfold swapStep
  by_cases h : s.getD i 0 > i <;> simp only [h, if_true, if_false, swapAt_invol]

theorem inverse_swaps_undo {α : Type} (s : List Nat) (x : Array α) :
    Perm.applySwapsInv s (Perm.applySwaps s x) = x ∧ Perm.applySwaps s (Perm.applySwapsInv s x) = x := by
  rw [applySwaps_eq, applySwapsInv_eq, applySwaps_eq, applySwapsInv_eq]
  constructor
  · exact foldl_reverse_undo _ (swapStep_invol s) _ x
  · have := foldl_reverse_undo _ (swapStep_invol s) (List.range (s.length - 1)).reverse x
    rw [List.reverse_reverse] at this
    exact this

theorem trace_mono_succ (s : Array Nat) (i f k j : Nat) (h : Perm.trace s i f k = some j) :
    Perm.trace s i (f + 1) k = some j := by
  induction f generalizing k with
  | zero => simp [Perm.trace] at h
  | succ f ih =>
    rw [Perm.trace] at h
    rw [Perm.trace]
    split
    · rename_i hk; rw [if_pos hk] at h; exact ih _ h
    · rename_i hk; rw [if_neg hk] at h; exact h

theorem trace_mono (s : Array Nat) (i f f' k j : Nat) (hf : f ≤ f') (h : Perm.trace s i f k = some j) :
    Perm.trace s i f' k = some j := by
  induction f' with
  | zero => have : f = 0 := by omega
            subst this; exact h
  | succ f' ih =>
    by_cases h' : f ≤ f'
    · exact trace_mono_succ _ _ _ _ _ (ih h')
    · have : f = f' + 1 := by omega
      subst this; exact h

theorem trace_ge (s : Array Nat) (i f k j : Nat) (h : Perm.trace s i f k = some j) : i ≤ j := by
  induction f generalizing k with
  | zero => simp [Perm.trace] at h
  | succ f ih =>
    rw [Perm.trace] at h
    split at h
    · exact ih _ h
    · simp at h; omega

/-- extending the swap array by one entry: the trace for bound `i+1` follows the trace for bound `i`
and takes one more step if that one stopped exactly at `i`. -/
theorem trace_push (s : Array Nat) (i f k j js : Nat) (hs : s.size = i)
    (h : Perm.trace s i f k = some j) (hjs : j = i → i < js) :
    Perm.trace (s.push js) (i + 1) (f + 1) k = some (if j = i then js else j) := by
  induction f generalizing k with
  | zero => simp [Perm.trace] at h
  | succ f ih =>
    rw [Perm.trace] at h
    split at h
    · rename_i hk
      rw [Perm.trace, if_pos (by omega)]
      have : (s.push js).getD k 0 = s.getD k 0 := by
        have hne : k ≠ i := by omega
        simp [Array.getD_eq_getD_getElem?, Array.getElem?_push, hs, hne]
      rw [this]
      exact ih _ h
    · rename_i hk
      simp at h
      subst h
      by_cases hki : k = i
      · subst hki
        rw [Perm.trace, if_pos (by omega)]
        have : (s.push js).getD k 0 = js := by
          simp [Array.getD_eq_getD_getElem?, hs.symm]
        rw [this, Perm.trace, if_neg (by have := hjs rfl; omega)]
        simp
      · rw [Perm.trace, if_neg (by omega)]
        simp [hki]

theorem push_getD (s : Array Nat) (a m : Nat) :
    (s.push a).getD m 0 = if m = s.size then a else s.getD m 0 := by
  simp only [Array.getD_eq_getD_getElem?, Array.getElem?_push]
  split <;> simp

theorem toList_getD (s : Array Nat) (m : Nat) : s.toList.getD m 0 = s.getD m 0 := by
  simp [List.getD_eq_getElem?_getD, Array.getD_eq_getD_getElem?]

/-- state after (possibly) swapping positions `i` and `j` -/
theorem swapStep_getD (s : List Nat) (σ : Array Nat) (i j m : Nat) (hs : s.getD i 0 = j) (hij : i ≤ j)
    (hj : j < σ.size) :
    (swapStep s σ i).getD m 0 =
      if m = j then σ.getD i 0 else if m = i then σ.getD j 0 else σ.getD m 0 := by
  unfold swapStep
  rw [hs]
  by_cases h : j > i
  · rw [if_pos h, swapAt_getD _ _ _ _ _ (by omega) hj]
  · have : j = i := by omega
    subst this
    rw [if_neg h]
    by_cases hm : m = j
    · subst hm; simp
    · simp [hm]

theorem swapStep_size {α : Type} (s : List Nat) (σ : Array α) (i : Nat) : (swapStep s σ i).size = σ.size := by
  unfold swapStep
  split <;> simp [swapAt_size]

/-- Loop invariant of `calc_swap_from_perm`, stated against the array `σ` obtained by running the first
`i = n - k` swaps on the identity. -/
theorem aux_inv (p : List Nat) (n : Nat) (hlt : ∀ m, m < n → p.getD m 0 < n)
    (hinj : ∀ a b, a < n → b < n → p.getD a 0 = p.getD b 0 → a = b) :
    ∀ (k : Nat) (s σ : Array Nat), k ≤ n → s.size = n - k → σ.size = n →
      (∀ m, m < n - k → σ.getD m 0 = p.getD m 0) →
      (∀ v, v < n → ∃ j, j < n ∧ σ.getD j 0 = v) →
      (∀ j, n - k ≤ j → j < n → Perm.trace s (n - k) (n - k + 1) (σ.getD j 0) = some j) →
      (∀ m, m < n - k → m ≤ s.getD m 0 ∧ s.getD m 0 < n) →
      ∃ sf, Perm.swapFromPermAux p n k s = some sf ∧ sf.size = n ∧
        (∀ m, m < n → m ≤ sf.getD m 0 ∧ sf.getD m 0 < n) ∧
        (∀ m, m < n - k → sf.getD m 0 = s.getD m 0) ∧
        ∀ m, m < n → ((List.range' (n - k) k).foldl (swapStep sf.toList) σ).getD m 0 = p.getD m 0 := by
  intro k
  induction k with
  | zero =>
    intro s σ _ hs hσ hB _ _ hbd
    exact ⟨s, rfl, by omega, by simpa using hbd, fun _ _ => rfl, by simpa using hB⟩
  | succ k ih =>
    intro s σ hk hs hσ hB hC hT hbd
    have hi : n - (k + 1) < n := by omega
    generalize hidef : n - (k + 1) = i at *
    have hik : n - k = i + 1 := by omega
    -- locate p[i] in σ
    obtain ⟨j0, hj0n, hj0⟩ := hC _ (hlt i hi)
    have hj0i : i ≤ j0 := by
      by_cases h : i ≤ j0
      · exact h
      · have h1 := hB j0 (by omega)
        have := hinj j0 i hj0n hi (by rw [← h1, hj0])
        omega
    have htr : Perm.trace s i (n + 1) (p.getD i 0) = some j0 := by
      have := hT j0 hj0i hj0n
      rw [hj0] at this
      exact trace_mono _ _ _ _ _ _ (by omega) this
    have haux : Perm.swapFromPermAux p n (k + 1) s = Perm.swapFromPermAux p n k (s.push j0) := by
      simp only [Perm.swapFromPermAux, hidef, htr]
    let σ' := swapStep ((s.push j0).toList) σ i
    have hσ' : ∀ m, σ'.getD m 0 =
        if m = j0 then σ.getD i 0 else if m = i then σ.getD j0 0 else σ.getD m 0 := by
      intro m
      exact swapStep_getD _ _ _ _ _ (by rw [toList_getD, push_getD, if_pos hs.symm]) hj0i (by omega)
    have := ih (s.push j0) σ' (by omega) (by simp [hs]; omega) (by simp [σ', swapStep_size, hσ])
      ?_ ?_ ?_ ?_
    · obtain ⟨sf, h1, h2, h3, h4, h5⟩ := this
      refine ⟨sf, by rw [haux, h1], h2, h3, ?_, ?_⟩
      · intro m hm
        rw [h4 m (by omega), push_getD, if_neg (by omega)]
      · intro m hm
        have hsfi : sf.toList.getD i 0 = j0 := by
          rw [toList_getD, h4 i (by omega), push_getD, if_pos hs.symm]
        have : swapStep sf.toList σ i = σ' := by
          simp only [σ', swapStep, hsfi]
          rw [toList_getD, push_getD, if_pos hs.symm]
        rw [List.range'_succ, List.foldl_cons, this, ← hik]
        exact h5 m hm
    · -- (B)
      intro m hm
      rw [hσ']
      by_cases hmi : m = i
      · subst hmi
        by_cases hmj : m = j0
        · subst hmj; rw [if_pos rfl, hj0]
        · rw [if_neg hmj, if_pos rfl, hj0]
      · have h1 : m ≠ j0 := by omega
        rw [if_neg h1, if_neg hmi]
        exact hB m (by omega)
    · -- (C)
      intro v hv
      obtain ⟨j, hjn, hj⟩ := hC v hv
      by_cases h1 : j = i
      · refine ⟨j0, hj0n, ?_⟩
        rw [hσ', if_pos rfl, ← h1, hj]
      · by_cases h2 : j = j0
        · refine ⟨i, hi, ?_⟩
          rw [hσ', if_pos rfl, ← h2, hj]
          split
          · rename_i h3; rw [← h3] at hj; exact hj
          · rfl
        · exact ⟨j, hjn, by rw [hσ', if_neg h2, if_neg h1, hj]⟩
    · -- (T)
      intro j hj hjn
      rw [hik]
      rw [hσ']
      by_cases h1 : j = j0
      · subst h1
        rw [if_pos rfl]
        have := trace_push s i (i + 1) (σ.getD i 0) i j (by omega) (hT i (by omega) hi) (by omega)
        simpa using this
      · have h2 : j ≠ i := by omega
        rw [if_neg h1, if_neg h2]
        have := trace_push s i (i + 1) (σ.getD j 0) j j0 (by omega) (hT j (by omega) hjn) (by omega)
        simpa [h2] using this
    · -- bounds
      intro m hm
      rw [push_getD]
      by_cases h : m = s.size
      · rw [if_pos h]; omega
      · rw [if_neg h]; exact hbd m (by omega)

theorem range_getD (n j : Nat) (hj : j < n) : (Array.range n).getD j 0 = j := by
  simp [Array.getD_eq_getD_getElem?, hj]

theorem list_ext_getD (l1 l2 : List Nat) (hl : l1.length = l2.length)
    (h : ∀ m, m < l1.length → l1.getD m 0 = l2.getD m 0) : l1 = l2 := by
  apply List.ext_getElem hl
  intro m h1 h2
  have := h m h1
  simpa [List.getD_eq_getElem?_getD, h1, h2] using this

theorem foldl_swapStep_size {α : Type} (s : List Nat) (l : List Nat) (x : Array α) :
    (l.foldl (swapStep s) x).size = x.size := by
  induction l generalizing x with
  | nil => rfl
  | cons a l ih => rw [List.foldl_cons, ih, swapStep_size]

theorem fold_range_pred {α : Type} (s : List Nat) (x : Array α) (n : Nat)
    (h : n = 0 ∨ s.getD (n - 1) 0 ≤ n - 1) :
    (List.range (n - 1)).foldl (swapStep s) x = (List.range' 0 n).foldl (swapStep s) x := by
  cases n with
  | zero => rfl
  | succ n =>
    rw [← List.range_eq_range', List.range_succ, List.foldl_append]
    simp only [Nat.add_sub_cancel, List.foldl_cons, List.foldl_nil]
    have h' : s.getD n 0 ≤ n := by simpa using h
    unfold swapStep
    rw [if_neg (by omega)]

/-- everything the loop invariant gives for a bijective input -/
theorem swapFromPerm_full (p : List Nat) (h : Perm.isBijection p = true) :
    ∃ s, Perm.swapFromPerm p = some s ∧ s.length = p.length ∧
      (∀ i, i < p.length → i ≤ s.getD i 0 ∧ s.getD i 0 < p.length) ∧
      Perm.permFromSwap s = p := by
  have := aux_inv p p.length (isBij_getD_lt p h) (isBij_inj p h) p.length #[] (Array.range p.length)
    (Nat.le_refl _) (by simp) (by simp) (by intro m hm; omega)
    (by intro v hv; exact ⟨v, hv, range_getD _ _ hv⟩)
    (by intro j _ hj; rw [range_getD _ _ hj]; simp [Perm.trace])
    (by intro m hm; omega)
  obtain ⟨sf, h1, h2, h3, _, h5⟩ := this
  refine ⟨sf.toList, by simp [Perm.swapFromPerm, h1], by simp [h2], ?_, ?_⟩
  · intro i hi; rw [toList_getD]; exact h3 i hi
  · rw [Nat.sub_self] at h5
    apply list_ext_getD
    · simp [Perm.permFromSwap, applySwaps_eq, foldl_swapStep_size, h2]
    · intro m hm
      have hm' : m < p.length := by
        simpa [Perm.permFromSwap, applySwaps_eq, foldl_swapStep_size, h2] using hm
      rw [← h5 m hm']
      unfold Perm.permFromSwap
      rw [applySwaps_eq, toList_getD, fold_range_pred, Array.length_toList, h2]
      rw [Array.length_toList, h2]
      by_cases hp : p.length = 0
      · exact Or.inl hp
      · right
        rw [toList_getD]
        have := h3 (p.length - 1) (by omega)
        omega

theorem swapAt_map {α β : Type} (f : α → β) (y : Array α) (i j : Nat) :
    Perm.swapAt (y.map f) i j = (Perm.swapAt y i j).map f := by
  by_cases h : i < y.size ∧ j < y.size
  · apply Array.ext_getElem?
    intro m
    rw [swapAt_getElem? _ i j m (by simpa using h.1) (by simpa using h.2)]
    simp only [Array.getElem?_map]
    rw [swapAt_getElem? _ i j m h.1 h.2]
    split
    · rfl
    · split <;> rfl
  · have h' : ¬ (i < (y.map f).size ∧ j < (y.map f).size) := by simpa using h
    simp only [Perm.swapAt, dif_neg h, dif_neg h']

theorem swapStep_map {α β : Type} (f : α → β) (s : List Nat) (y : Array α) (i : Nat) :
    swapStep s (y.map f) i = (swapStep s y i).map f := by
  unfold swapStep
  split
  · exact swapAt_map f y i _
  · rfl

theorem foldl_swapStep_map {α β : Type} (f : α → β) (s : List Nat) (l : List Nat) (y : Array α) :
    l.foldl (swapStep s) (y.map f) = (l.foldl (swapStep s) y).map f := by
  induction l generalizing y with
  | nil => rfl
  | cons a l ih => rw [List.foldl_cons, List.foldl_cons, swapStep_map, ih]

theorem applySwaps_map {α β : Type} (f : α → β) (s : List Nat) (y : Array α) :
    Perm.applySwaps s (y.map f) = (Perm.applySwaps s y).map f := by
  rw [applySwaps_eq, applySwaps_eq, foldl_swapStep_map]

theorem toList_getD' {α : Type} (s : Array α) (m : Nat) (d : α) : s.toList.getD m d = s.getD m d := by
  simp [List.getD_eq_getElem?_getD, Array.getD_eq_getD_getElem?]

theorem array_eq_range_map {α : Type} (x : Array α) (d : α) :
    x = (Array.range x.size).map (fun k => x.getD k d) := by
  apply Array.ext
  · simp
  · intro m h1 h2
    simp [Array.getD_eq_getD_getElem?, h1]

/-- applying the swap sequence to any array = indexing through `permFromSwap` -/
theorem applySwaps_eq_permFromSwap {α : Type} (s : List Nat) (x : Array α) (d : α) (hx : x.size = s.length) :
    (Perm.applySwaps s x).toList = (Perm.permFromSwap s).map (fun k => x.toList.getD k d) := by
  conv => lhs; rw [array_eq_range_map x d]
  rw [applySwaps_map, Array.toList_map, hx]
  unfold Perm.permFromSwap
  congr 1
  funext k
  rw [toList_getD']

theorem swapFromPerm_terminates (p : List Nat) (h : Perm.isBijection p = true) :
    ∃ s, Perm.swapFromPerm p = some s ∧ s.length = p.length ∧
      ∀ i, i < p.length → i ≤ s.getD i 0 ∧ s.getD i 0 < p.length := by
  obtain ⟨s, h1, h2, h3, _⟩ := swapFromPerm_full p h
  exact ⟨s, h1, h2, h3⟩

theorem swap_perm_agree {α : Type} [Inhabited α] (p s : List Nat) (h : Perm.isBijection p = true)
    (hs : Perm.swapFromPerm p = some s) (x : Array α) (hx : x.size = p.length) :
    (Perm.applySwaps s x).toList = Perm.applyPerm p x.toList := by
  obtain ⟨s', h1, h2, _, h4⟩ := swapFromPerm_full p h
  rw [hs] at h1
  cases h1
  rw [applySwaps_eq_permFromSwap s x default (by omega), h4]
  rfl

/-- scatter loop `y[key] := val` over a list of pairs -/
def scatter {α : Type} (ps : List (Nat × α)) (init : Array α) : Array α :=
  ps.foldl (fun y pr => y.setIfInBounds pr.1 pr.2) init

theorem scatter_size {α : Type} (ps : List (Nat × α)) (init : Array α) :
    (scatter ps init).size = init.size := by
  induction ps generalizing init with
  | nil => rfl
  | cons a ps ih => simp only [scatter, List.foldl_cons] at *; rw [ih]; simp

theorem scatter_not_mem {α : Type} (ps : List (Nat × α)) (init : Array α) (a : Nat) (d : α)
    (h : a ∉ ps.map Prod.fst) : (scatter ps init).getD a d = init.getD a d := by
  induction ps generalizing init with
  | nil => rfl
  | cons b ps ih =>
    simp only [List.map_cons, List.mem_cons, not_or] at h
    simp only [scatter, List.foldl_cons] at *
    rw [ih _ h.2]
    simp [Array.getD_eq_getD_getElem?, Ne.symm h.1]

theorem scatter_mem {α : Type} (ps : List (Nat × α)) (init : Array α) (a : Nat) (b d : α)
    (hnd : (ps.map Prod.fst).Nodup) (hm : (a, b) ∈ ps) (ha : a < init.size) :
    (scatter ps init).getD a d = b := by
  induction ps generalizing init with
  | nil => simp at hm
  | cons c ps ih =>
    simp only [List.map_cons, List.nodup_cons] at hnd
    simp only [List.mem_cons] at hm
    rcases hm with hm | hm
    · subst hm
      have := scatter_not_mem ps (init.setIfInBounds a b) a d hnd.1
      simp only [scatter, List.foldl_cons] at *
      rw [this]
      simp [Array.getD_eq_getD_getElem?, ha]
    · have := ih (init.setIfInBounds c.1 c.2) hnd.2 hm (by simpa using ha)
      simp only [scatter, List.foldl_cons] at *
      exact this

theorem applyPermInv_eq {α : Type} [Inhabited α] (p : List Nat) (x : List α) :
    Perm.applyPermInv p x = (scatter (p.zip x) (Array.replicate p.length default)).toList := by
  unfold Perm.applyPermInv scatter
  rfl

theorem invPerm_eq (p : List Nat) :
    Perm.invPerm p =
      (scatter ((List.range p.length).map fun i => (p.getD i 0, i)) (Array.replicate p.length 0)).toList := by
  unfold Perm.invPerm scatter
  rw [List.foldl_map]

theorem list_ext_getD' {α : Type} (d : α) (l1 l2 : List α) (hl : l1.length = l2.length)
    (h : ∀ m, m < l1.length → l1.getD m d = l2.getD m d) : l1 = l2 := by
  apply List.ext_getElem hl
  intro m h1 h2
  have := h m h1
  simpa [List.getD_eq_getElem?_getD, h1, h2] using this

theorem scatter_zip {α : Type} (p : List Nat) (x : List α) (init : Array α) (d : α) (hnd : p.Nodup)
    (hl : p.length = x.length) (i : Nat) (hi : i < p.length) (hb : p.getD i 0 < init.size) :
    (scatter (p.zip x) init).getD (p.getD i 0) d = x.getD i d := by
  apply scatter_mem
  · rw [List.map_fst_zip (by omega)]; exact hnd
  · rw [List.mem_iff_getElem]
    refine ⟨i, by simp; omega, ?_⟩
    simp [List.getD_eq_getElem?_getD, hi, show i < x.length by omega]
  · exact hb

theorem applyPerm_length {α : Type} [Inhabited α] (p : List Nat) (x : List α) :
    (Perm.applyPerm p x).length = p.length := by simp [Perm.applyPerm]

theorem applyPerm_getD {α : Type} [Inhabited α] (p : List Nat) (x : List α) (i : Nat) (hi : i < p.length) :
    (Perm.applyPerm p x).getD i default = x.getD (p.getD i 0) default := by
  simp [Perm.applyPerm, List.getD_eq_getElem?_getD, hi]

theorem applyPermInv_length {α : Type} [Inhabited α] (p : List Nat) (x : List α) :
    (Perm.applyPermInv p x).length = p.length := by
  simp [applyPermInv_eq, scatter_size]

theorem applyPermInv_getD {α : Type} [Inhabited α] (p : List Nat) (h : Perm.isBijection p = true)
    (x : List α) (hx : x.length = p.length) (i : Nat) (hi : i < p.length) :
    (Perm.applyPermInv p x).getD (p.getD i 0) default = x.getD i default := by
  rw [applyPermInv_eq, toList_getD']
  exact scatter_zip p x _ default (isBij_nodup p h) hx.symm i hi (by simpa using isBij_getD_lt p h i hi)

theorem applyPermInv_undoes {α : Type} [Inhabited α] (p : List Nat) (h : Perm.isBijection p = true)
    (x : List α) (hx : x.length = p.length) :
    Perm.applyPermInv p (Perm.applyPerm p x) = x ∧ Perm.applyPerm p (Perm.applyPermInv p x) = x := by
  constructor
  · apply list_ext_getD' default
    · rw [applyPermInv_length, hx]
    · intro k hk
      rw [applyPermInv_length] at hk
      obtain ⟨i, hi, rfl⟩ := isBij_surj p h k hk
      rw [applyPermInv_getD p h _ (applyPerm_length p x) i hi, applyPerm_getD p x i hi]
  · apply list_ext_getD' default
    · rw [applyPerm_length, hx]
    · intro i hi
      rw [applyPerm_length] at hi
      rw [applyPerm_getD _ _ i hi, applyPermInv_getD p h x hx i hi]

theorem range_map_getD (p : List Nat) : (List.range p.length).map (fun i => p.getD i 0) = p := by
  apply list_ext_getD
  · simp
  · intro m hm
    have hm' : m < p.length := by simpa using hm
    simp [List.getD_eq_getElem?_getD, hm']

theorem invPerm_length (p : List Nat) : (Perm.invPerm p).length = p.length := by
  simp [invPerm_eq, scatter_size]

theorem invPerm_getD (p : List Nat) (h : Perm.isBijection p = true) (i : Nat) (hi : i < p.length) :
    (Perm.invPerm p).getD (p.getD i 0) 0 = i := by
  rw [invPerm_eq, toList_getD]
  apply scatter_mem
  · rw [List.map_map]
    have : (Prod.fst ∘ fun i => (p.getD i 0, i)) = fun i => p.getD i 0 := rfl
    rw [this, range_map_getD]
    exact isBij_nodup p h
  · exact List.mem_map.2 ⟨i, List.mem_range.2 hi, rfl⟩
  · simpa using isBij_getD_lt p h i hi

theorem invPerm_spec (p : List Nat) (h : Perm.isBijection p = true) :
    Perm.isBijection (Perm.invPerm p) = true ∧
    (∀ i, i < p.length → (Perm.invPerm p).getD (p.getD i 0) 0 = i) ∧
    (∀ k, k < p.length → p.getD ((Perm.invPerm p).getD k 0) 0 = k) := by
  refine ⟨?_, invPerm_getD p h, ?_⟩
  · apply isBij_of
    · intro k hk
      rw [invPerm_length] at *
      obtain ⟨i, hi, rfl⟩ := isBij_surj p h k hk
      rw [invPerm_getD p h i hi]; exact hi
    · intro i hi
      rw [invPerm_length] at *
      exact ⟨p.getD i 0, isBij_getD_lt p h i hi, invPerm_getD p h i hi⟩
  · intro k hk
    obtain ⟨i, hi, rfl⟩ := isBij_surj p h k hk
    rw [invPerm_getD p h i hi]

theorem concat_composes {α : Type} [Inhabited α] (p1 p2 : List Nat) (x : List α)
    (h1 : Perm.isBijection p1 = true) (h2 : Perm.isBijection p2 = true) (hl : p1.length = p2.length)
    (hx : x.length = p1.length) :
    Perm.isBijection (p1.map fun k => p2.getD k 0) = true ∧
    Perm.applyPerm (p1.map fun k => p2.getD k 0) x = Perm.applyPerm p1 (Perm.applyPerm p2 x) := by
  have hg : ∀ i, i < p1.length → (p1.map fun k => p2.getD k 0).getD i 0 = p2.getD (p1.getD i 0) 0 := by
    intro i hi
    simp [List.getD_eq_getElem?_getD, hi]
  constructor
  · apply isBij_of
    · intro i hi
      rw [List.length_map] at *
      rw [hg i hi, hl]
      exact isBij_getD_lt p2 h2 _ (by rw [← hl]; exact isBij_getD_lt p1 h1 i hi)
    · intro k hk
      rw [List.length_map] at *
      obtain ⟨j, hj, rfl⟩ := isBij_surj p2 h2 k (by omega)
      obtain ⟨i, hi, rfl⟩ := isBij_surj p1 h1 j (by omega)
      exact ⟨i, hi, hg i hi⟩
  · unfold Perm.applyPerm
    rw [List.map_map]
    apply List.map_congr_left
    intro k hk
    have hk' : k < p2.length := by
      rw [← hl]; exact ((isBij_iff p1).1 h1).1 k hk
    simp [List.getD_eq_getElem?_getD, hk']

/-- an index array that is a bijection of `0..n-1` -/
def ArrBij (n : Nat) (σ : Array Nat) : Prop :=
  σ.size = n ∧ (∀ m, m < n → σ.getD m 0 < n) ∧ (∀ v, v < n → ∃ j, j < n ∧ σ.getD j 0 = v)

theorem swapAt_arrBij (n : Nat) (σ : Array Nat) (i j : Nat) (h : ArrBij n σ) : ArrBij n (Perm.swapAt σ i j) := by
  by_cases hij : i < σ.size ∧ j < σ.size
  · obtain ⟨h1, h2, h3⟩ := h
    have hg := fun m => swapAt_getD σ i j m 0 hij.1 hij.2
    refine ⟨by rw [swapAt_size, h1], ?_, ?_⟩
    · intro m hm
      rw [hg]
      split
      · exact h2 i (by omega)
      · split
        · exact h2 j (by omega)
        · exact h2 m hm
    · intro v hv
      obtain ⟨a, han, ha⟩ := h3 v hv
      by_cases c1 : a = i
      · exact ⟨j, by omega, by rw [hg, if_pos rfl, ← c1, ha]⟩
      · by_cases c2 : a = j
        · refine ⟨i, by omega, ?_⟩
          rw [hg, if_pos rfl, ← c2, ha]
          split
          · rename_i c3; rw [← c3] at ha; exact ha
          · rfl
        · exact ⟨a, han, by rw [hg, if_neg c2, if_neg c1, ha]⟩
  · simp only [Perm.swapAt, dif_neg hij]; exact h

theorem foldl_swapStep_arrBij (n : Nat) (s l : List Nat) (σ : Array Nat) (h : ArrBij n σ) :
    ArrBij n (l.foldl (swapStep s) σ) := by
  induction l generalizing σ with
  | nil => exact h
  | cons a l ih =>
    rw [List.foldl_cons]
    apply ih
    unfold swapStep
    split
    · exact swapAt_arrBij n σ _ _ h
    · exact h

theorem permFromSwap_bijection (s : List Nat)
    (hs : ∀ i, i < s.length → i ≤ s.getD i 0 ∧ s.getD i 0 < s.length) :
    Perm.isBijection (Perm.permFromSwap s) = true := by
  have _ := hs  -- the range hypothesis is not needed: any swap sequence yields a bijection
  have h0 : ArrBij s.length (Array.range s.length) :=
    ⟨by simp, fun m hm => by rw [range_getD _ _ hm]; exact hm, fun v hv => ⟨v, hv, range_getD _ _ hv⟩⟩
  obtain ⟨h1, h2, h3⟩ := foldl_swapStep_arrBij s.length s (List.range (s.length - 1)) _ h0
  have hl : (Perm.permFromSwap s).length = s.length := by
    simp only [Perm.permFromSwap, applySwaps_eq, Array.length_toList, h1]
  apply isBij_of
  · intro i hi
    rw [hl] at *
    simp only [Perm.permFromSwap, applySwaps_eq, toList_getD]
    exact h2 i hi
  · intro k hk
    rw [hl] at *
    obtain ⟨j, hj, hjk⟩ := h3 k hk
    exact ⟨j, hj, by simp only [Perm.permFromSwap, applySwaps_eq, toList_getD]; exact hjk⟩

end C19L.perms
