import FeatModel.Lemmas.C12RefineShare
/-! C12 helper lemmas: a shared entity implies a shared vertex; initial invariants of the patch parts. -/
namespace FeatModel.Parti
open FeatModel.Adj FeatModel.Refine FeatModel.Gen.Refine

theorem facets_of_facetsOk (m : Mesh) (h : m.facetsOk = true) (d b : Nat) (hd : d < m.dim)
    (hb : b < m.numOf (d + 1)) : m.sub (d + 1) d b ≠ [] := by
  simp only [Mesh.facetsOk, List.all_eq_true, List.mem_range, Bool.and_eq_true, decide_eq_true_eq,
    Bool.not_eq_true', List.isEmpty_eq_false_iff] at h
  obtain ⟨hlen, hne⟩ := h d hd
  have hb' : b < (m.idx (d + 1) d).length := by omega
  have hmem : m.sub (d + 1) d b ∈ m.idx (d + 1) d := by simp [Mesh.sub, List.getD, hb']
  exact hne _ hmem

/-- two cells having a common `d`-entity have a common vertex -/
theorem shared_vertex_of_shared (m : Mesh) (hc : m.Cons) (hf : m.facetsOk = true) (c1 c2 : Nat) :
    ∀ d, d < m.dim → ∀ b, b ∈ m.sub m.dim d c1 → b ∈ m.sub m.dim d c2 →
      ∃ v, v ∈ m.sub m.dim 0 c1 ∧ v ∈ m.sub m.dim 0 c2
  | 0, _, b, h1, h2 => ⟨b, h1, h2⟩
  | d + 1, hd, b, h1, h2 => by
    have hb := hc.bound (d + 1) hd c1 b h1
    obtain ⟨b', hb'⟩ := List.exists_mem_of_ne_nil _ (facets_of_facetsOk m hf d b (by omega) hb)
    exact shared_vertex_of_shared m hc hf c1 c2 d (by omega) b'
      ((hc.chain d hd c1 b').2 ⟨b, h1, hb'⟩) ((hc.chain d hd c2 b').2 ⟨b, h2, hb'⟩)

theorem asRefine_nums (kind : Kind) (m : Mesh) (verts : List (List Rat)) (s : Nat) (hs : s ≤ m.dim) :
    (asRefine kind m verts).nums.getD s 0 = m.numOf s := by
  simp only [asRefine, List.getD_eq_getElem?_getD, List.getElem?_map]
  rw [List.getElem?_range (by omega)]
  simp

theorem patchPart_target (m : Mesh) (cells : List Nat) (d : Nat) :
    (patchPart m cells).target d = if d ≤ m.dim then m.target cells d else [] :=
  target_mk m.dim _ d

/-- the patch part produced by `extract_patch` is duplicate-free and refers to existing base entities -/
theorem patchPart_ok (kind : Kind) (m : Mesh) (verts : List (List Rat)) (p : Parti) (hp : isPartition p = true)
    (hn : p.nImg = m.numCells) (r : Nat) : PartOk (asRefine kind m verts) (patchPart m (p.row r)) := by
  refine ⟨?_, ?_⟩
  · intro s
    rw [patchPart_target]
    by_cases hs : s ≤ m.dim
    · rw [if_pos hs]
      rcases Nat.lt_or_eq_of_le hs with h | h
      · exact nodup_of_pairwise_lt (target_pairwise m _ s h)
      · subst h; rw [target_dim]; exact (isPart_of_isPartition p hp).row_nodup r
    · rw [if_neg hs]; exact List.nodup_nil
  · intro s t ht
    rw [patchPart_target] at ht
    by_cases hs : s ≤ m.dim
    · rw [if_pos hs] at ht
      rw [asRefine_nums kind m verts s hs]
      rcases Nat.lt_or_eq_of_le hs with h | h
      · rw [target_succ m _ s h, mem_deductStep] at ht
        exact ht.1
      · subst h
        rw [target_dim] at ht
        have := (isPart_of_isPartition p hp).lt r t ht
        simpa [Mesh.numCells, hn] using this
    · rw [if_neg hs] at ht
      simp at ht

/-- the common entities of two parts, dimension by dimension -/
def interPart (dim : Nat) (P Q : Part) : Part :=
  { targets := (List.range (dim + 1)).map fun d => (P.target d).filter fun t => (Q.target d).contains t,
    topo := none }

theorem interPart_isInter (m : Mesh) (c1 c2 : List Nat) :
    IsInter (interPart m.dim (patchPart m c1) (patchPart m c2)) (patchPart m c1) (patchPart m c2) := by
  intro s t
  simp only [interPart]
  rw [target_mk]
  by_cases hs : s ≤ m.dim
  · rw [if_pos hs]; simp [List.mem_filter]
  · rw [if_neg hs, patchPart_target, if_neg hs]; simp

end FeatModel.Parti
