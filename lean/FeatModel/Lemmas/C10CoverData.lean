import FeatModel.Model.RefineCover
/-! C10 — the covering families really cover every pair of sub-entity orientations (`decide`). -/
namespace FeatModel.Refine
open FeatModel.Gen.Refine

def faceCodeAt (kind : Kind) (idx k : Nat) : Nat := ((coverOf kind).getD idx ([], 0)).1.getD k 0
def edgeFlipAt (kind : Kind) (idx e : Nat) : Nat := digit 2 ((coverOf kind).getD idx ([], 0)).2 e

theorem cover_hexa_face_pairs : ∀ k < 6, ∀ k' < 6, k ≠ k' → ∀ v < 8, ∀ v' < 8,
    ((List.range 64).any fun i => faceCodeAt .hypercube i k == v && faceCodeAt .hypercube i k' == v') = true := by
  decide +kernel

theorem cover_hexa_face_edge : ∀ k < 6, ∀ v < 8, ∀ e < 12, ∀ f < 2,
    ((List.range 64).any fun i => faceCodeAt .hypercube i k == v && edgeFlipAt .hypercube i e == f) = true := by
  decide +kernel

theorem cover_hexa_edge_pairs : ∀ e < 12, ∀ e' < 12, e ≠ e' → ∀ f < 2, ∀ f' < 2,
    ((List.range 64).any fun i => edgeFlipAt .hypercube i e == f && edgeFlipAt .hypercube i e' == f') = true := by
  decide +kernel

theorem cover_tetra_face_pairs : ∀ k < 4, ∀ k' < 4, k ≠ k' → ∀ v ∈ [0, 1, 2, 4, 5, 6], ∀ v' ∈ [0, 1, 2, 4, 5, 6],
    ((List.range 49).any fun i => faceCodeAt .simplex i k == v && faceCodeAt .simplex i k' == v') = true := by
  decide +kernel

theorem cover_tetra_face_edge : ∀ k < 4, ∀ v ∈ [0, 1, 2, 4, 5, 6], ∀ e < 6, ∀ f < 2,
    ((List.range 49).any fun i => faceCodeAt .simplex i k == v && edgeFlipAt .simplex i e == f) = true := by
  decide +kernel

theorem cover_tetra_edge_pairs : ∀ e < 6, ∀ e' < 6, e ≠ e' → ∀ f < 2, ∀ f' < 2,
    ((List.range 49).any fun i => edgeFlipAt .simplex i e == f && edgeFlipAt .simplex i e' == f') = true := by
  decide +kernel

end FeatModel.Refine
