import FeatModel.Lemmas.C15Lift1
import FeatModel.Lemmas.C15Repro
namespace FeatModel.FE
open FeatModel.Poly

theorem refVertex_length (k : Kind) (dim i : Nat) : (refVertex k dim i).length = dim := by
  cases k <;> simp [refVertex]

theorem numVerts_pos (k : Kind) (d : Nat) : 0 < numVerts k d := by
  cases k
  · simp [numVerts]
  · exact Nat.two_pow_pos d

theorem embedPt_eq_mapPoint (k : Kind) (dim d : Nat) (r : List Nat) (hr : 0 < r.length) (s : List Rat) :
    mapPoint k d (r.map (refVertex k dim)) s = embedPt' k dim d r s := by
  have : worldDim (r.map (refVertex k dim)) = dim := by
    rw [worldDim_eq, getD_map_lt r (refVertex k dim) 0 0 [] hr, refVertex_length]
  simp [mapPoint, this, embedPt', embedL, evalAt]

theorem refMesh_facts (k : Kind) (dim : Nat) (o : List Nat) (hdim : dim = 1 ∨ dim = 2 ∨ dim = 3) :
    (refMesh k dim o).kind = k ∧ (refMesh k dim o).dim = dim ∧
    (refMesh k dim o).coords = (List.range (numVerts k dim)).map (refVertex k dim) ∧
    (refMesh k dim o).n 0 = numVerts k dim := by
  rcases hdim with rfl | rfl | rfl <;> simp [refMesh, Mesh.n]

theorem refVertex_getD (k : Kind) (dim v : Nat) (hv : v < numVerts k dim) :
    ((List.range (numVerts k dim)).map (refVertex k dim)).getD v [] = refVertex k dim v := by
  rw [getD_map_lt _ _ v 0 [] (by simpa using hv)]
  simp [List.getD_eq_getElem?_getD, List.getElem?_range hv]

/-- every node functional of the cell with vertex coordinates `V` evaluates at the image, under the cell's
    transformation, of the corresponding nodal point of the reference cell -/
theorem nodePoint_lift {f : Fam} {k : Kind} {dim : Nat} {o : List Nat} {V : List (List Rat)} {w : Nat}
    (hdim : dim = 1 ∨ dim = 2 ∨ dim = 3) (hg : geomOk (refMesh k dim o) = true)
    (hV : uniformV V (numVerts k dim) w) {d e : Nat} (hd : d ≤ dim) (he : e < (refMesh k dim o).n d) (j : Nat) :
    nodePoint f (cellMesh k dim o V) d e j = mapPoint k dim V (nodePoint f (refMesh k dim o) d e j) := by
  obtain ⟨hk, hdm, hco, hn0⟩ := refMesh_facts k dim o hdim
  simp only [geomOk, hk, hdm, Bool.and_eq_true, List.all_eq_true, List.mem_range, List.mem_range'_1] at hg
  by_cases h0 : d = 0
  · subst h0
    rw [hn0] at he
    simp only [nodePoint, if_true, cellMesh, Mesh.vertex, hco]
    rw [refVertex_getD k dim e he, vertex_lemma hg.1 hV he]
  · have hst := hg.2 d ⟨by omega, by omega⟩ e he
    have hlen : 0 < ((refMesh k dim o).row d 0 e).length := by
      have := (shapeTrace_lt hst (numVerts_pos k d)).2
      have := numVerts_pos k d
      omega
    have hrows : ((refMesh k dim o).row d 0 e).map (fun v => ((List.range (numVerts k dim)).map (refVertex k dim)).getD v [])
        = ((refMesh k dim o).row d 0 e).map (refVertex k dim) := by
      apply List.map_congr_left
      intro v hv
      apply refVertex_getD
      simp only [shapeTraceOk, Bool.and_eq_true, List.all_eq_true, decide_eq_true_eq] at hst
      exact hst.1.2 v hv
    have hc : nodePoint f (cellMesh k dim o V) d e j
        = mapPoint k d (((refMesh k dim o).row d 0 e).map fun v => V.getD v [])
            ((nodePts f k dim d).getD j []) := by
      simp only [nodePoint, h0, if_false]
      show mapPoint (refMesh k dim o).kind d _
        ((nodePts f (refMesh k dim o).kind (refMesh k dim o).dim d).getD j []) = _
      rw [hk, hdm]
      simp only [Mesh.entVerts, h0, if_false]
      rfl
    have hr : nodePoint f (refMesh k dim o) d e j
        = mapPoint k d (((refMesh k dim o).row d 0 e).map (refVertex k dim)) ((nodePts f k dim d).getD j []) := by
      have hvert : (refMesh k dim o).vertex
          = fun v => ((List.range (numVerts k dim)).map (refVertex k dim)).getD v [] := by
        funext v; unfold Mesh.vertex; rw [hco]
      simp only [nodePoint, h0, if_false, Mesh.entVerts, hk, hdm]
      rw [hvert, hrows]
    rw [hc, hr, embedPt_eq_mapPoint k dim d _ hlen,
      embedding_lemma hst hV (numVerts_pos k d) (numVerts_pos k dim)]

theorem flatMap_congr' {α β : Type} {l : List α} {g h : α → List β} (H : ∀ a ∈ l, g a = h a) :
    l.flatMap g = l.flatMap h := by
  induction l with
  | nil => rfl
  | cons a l ih =>
    simp only [List.flatMap_cons]
    rw [H a (List.mem_cons_self), ih (fun b hb => H b (List.mem_cons_of_mem a hb))]

theorem nodeList_lift {f : Fam} {k : Kind} {dim : Nat} {o : List Nat} {V : List (List Rat)} {w : Nat}
    (hdim : dim = 1 ∨ dim = 2 ∨ dim = 3) (hg : geomOk (refMesh k dim o) = true)
    (hV : uniformV V (numVerts k dim) w) :
    nodeList f (cellMesh k dim o V) = (nodeList f (refMesh k dim o)).map (mapPoint k dim V) := by
  have hdm := (refMesh_facts k dim o hdim).2.1
  show ((List.range ((refMesh k dim o).dim + 1)).flatMap fun d =>
      (List.range ((refMesh k dim o).n d)).flatMap fun e =>
        (List.range (dpd f (refMesh k dim o) d)).map fun j => nodePoint f (cellMesh k dim o V) d e j) = _
  simp only [nodeList, List.map_flatMap, List.map_map]
  apply flatMap_congr'
  intro d hd
  apply flatMap_congr'
  intro e he
  apply List.map_congr_left
  intro j _
  have hd' : d ≤ dim := by
    have := List.mem_range.mp hd
    omega
  exact nodePoint_lift hdim hg hV hd' (List.mem_range.mp he) j

/-- the model of `Interpolator::project` on the cell with vertex coordinates `V` evaluates the function at the images of
    the reference nodal points -/
theorem interpolate_cell {f : Fam} {k : Kind} {dim : Nat} {o : List Nat} {V : List (List Rat)} {w : Nat}
    (hdim : dim = 1 ∨ dim = 2 ∨ dim = 3) (hg : geomOk (refMesh k dim o) = true)
    (hV : uniformV V (numVerts k dim) w) (p : Poly) :
    interpolate f (cellMesh k dim o V) p
      = (nodeList f (refMesh k dim o)).map fun x => evalAt (mapPoint k dim V x) p := by
  rw [interpolate_eq_map, nodeList_lift hdim hg hV, List.map_map]
  rfl

/-- reproduction on an arbitrary cell: a function whose pull-back to the reference cell is the combination
    `Σ c_j φ̂_j` of the reference basis is interpolated to exactly the coefficients `c` -/
theorem reproduces_cell {f : Fam} {k : Kind} {dim : Nat} {o : List Nat} {tab : BasisTab} {V : List (List Rat)}
    {w : Nat} (hdim : dim = 1 ∨ dim = 2 ∨ dim = 3) (hg : geomOk (refMesh k dim o) = true)
    (hV : uniformV V (numVerts k dim) w) (ht : tabOf f k dim = some tab) (h : dualOk f k dim o = true)
    (hpos : 0 < tab.nloc) (c : List Rat) (p : Poly)
    (hp : ∀ x, evalAt (mapPoint k dim V x) p = evalAt x (linComb c (localBasis f (refMesh k dim o) tab))) :
    interpolate f (cellMesh k dim o V) p
      = (List.range (numDofs f (refMesh k dim o))).map fun g =>
          dot c ((List.range tab.nloc).map fun j =>
            if g = (localDofs f (refMesh k dim o) 0).getD j 0 then 1 else 0) := by
  rw [interpolate_cell hdim hg hV, ← reproduces ht h hpos c, interpolate_eq_map]
  apply List.map_congr_left
  intro x _
  exact hp x

/-- duality on an arbitrary cell: the `j`-th basis function `φ̂_j ∘ T⁻¹`, i.e. the function whose value at `T(x)` is
    `φ̂_j(x)`, is mapped by the node functionals of the cell (point evaluations at `T(x̂_g)`) to the `j`-th unit vector -/
theorem dual_cell {f : Fam} {k : Kind} {dim : Nat} {o : List Nat} {tab : BasisTab} {V : List (List Rat)}
    {w : Nat} (hdim : dim = 1 ∨ dim = 2 ∨ dim = 3) (hg : geomOk (refMesh k dim o) = true)
    (hV : uniformV V (numVerts k dim) w) (ht : tabOf f k dim = some tab) (h : dualOk f k dim o = true)
    {j : Nat} (hj : j < tab.nloc) (Φ : Poly)
    (hΦ : ∀ x, evalAt (mapPoint k dim V x) Φ = evalAt x (tab.val ((slotPerm f (refMesh k dim o) 0).getD j j))) :
    interpolate f (cellMesh k dim o V) Φ
      = (List.range (numDofs f (refMesh k dim o))).map fun g =>
          if g = (localDofs f (refMesh k dim o) 0).getD j 0 then 1 else 0 := by
  simp only [dualOk, ht, Bool.and_eq_true, beq_iff_eq, List.all_eq_true, List.mem_range] at h
  rw [interpolate_cell hdim hg hV, ← h.2 j hj, interpolate_eq_map]
  apply List.map_congr_left
  intro x _
  exact hΦ x

end FeatModel.FE
