import FeatModel.Model.DA.Fence
/-
C17: jobs without scatter (`NCfg`, `_work_no_scatter`): mutual exclusion of `combine()`, the workers' phases,
and deadlock-freedom — for all interleavings.
-/
namespace FeatModel.DA

/-! ## the transition relation in explicit form -/

inductive NStep (c : NCfg) (s : NSt) : NSt → Prop
  | mopen : s.mph = .front → NStep c s { s with front := true, mph := .back }
  | join : s.mph = .back → c.allDone s = true → NStep c s { s with mph := .done }
  | center (t : Nat) : 1 ≤ t → t ≤ c.n → s.ph t = .preComb → s.mutex = false →
      NStep c s { s with ph := updP s.ph t .inComb, mutex := true }
  | cleave (t : Nat) : 1 ≤ t → t ≤ c.n → s.ph t = .inComb →
      NStep c s { s with ph := updP s.ph t .done, mutex := false }

theorem ns_step_parts {c : NCfg} {s s' : NSt} {e : Ev} (h : c.step s e = some s') :
    c.next s e.thread = some e ∧ c.enabled s e = true ∧ s' = c.apply s e := by
  unfold NCfg.step at h
  split at h
  · next hc => exact ⟨hc.1, hc.2, by injection h with h; exact h.symm⟩
  · cases h

theorem ns_next_zero {c : NCfg} {s : NSt} {e : Ev} (h : c.next s 0 = some e) :
    (s.mph = .front ∧ e = .fopen 0 0) ∨ (s.mph = .back ∧ e = .join) := by
  unfold NCfg.next at h
  simp only [if_true] at h
  split at h <;> simp_all

theorem ns_next_worker {c : NCfg} {s : NSt} {t : Nat} {e : Ev} (ht : t ≠ 0) (h : c.next s t = some e) :
    t ≤ c.n ∧
    ((s.ph t = .preComb ∧ e = .center t) ∨ (s.ph t = .inComb ∧ e = .cleave t)) := by
  unfold NCfg.next at h
  rw [if_neg ht] at h
  by_cases hn : c.n < t
  · rw [if_pos hn] at h; cases h
  · rw [if_neg hn] at h
    refine ⟨by omega, ?_⟩
    split at h
    all_goals simp_all

theorem ns_step_NStep {c : NCfg} {s s' : NSt} {e : Ev} (h : c.step s e = some s') : NStep c s s' := by
  obtain ⟨hn, hen, rfl⟩ := ns_step_parts h
  by_cases ht : e.thread = 0
  · rw [ht] at hn
    rcases ns_next_zero hn with ⟨hp, rfl⟩ | ⟨hp, rfl⟩
    · simpa [NCfg.apply] using NStep.mopen hp
    · simpa [NCfg.apply] using NStep.join hp (by simpa [NCfg.enabled] using hen)
  · generalize hteq : e.thread = t at hn ht
    obtain ⟨hle, hcases⟩ := ns_next_worker ht hn
    have h1 : 1 ≤ t := by omega
    rcases hcases with ⟨hp, rfl⟩ | ⟨hp, rfl⟩
    · simpa [NCfg.apply] using NStep.center _ h1 hle hp (by simpa [NCfg.enabled] using hen)
    · simpa [NCfg.apply] using NStep.cleave _ h1 hle hp

theorem ns_reach_induct {c : NCfg} {P : NSt → Prop} (h0 : P c.init)
    (hstep : ∀ s s', P s → NStep c s s' → P s') : ∀ s, c.Reach s → P s := by
  intro s hs
  induction hs with
  | init => exact h0
  | step e _ h ih => exact hstep _ _ ih (ns_step_NStep h)

/-! ## the invariant -/

structure NInv (c : NCfg) (s : NSt) : Prop where
  phs : ∀ w, s.ph w = .preComb ∨ s.ph w = .inComb ∨ s.ph w = .done
  m1 : ∀ a, s.ph a = .inComb → s.mutex = true
  m2 : ∀ a b, s.ph a = .inComb → s.ph b = .inComb → a = b
  mutK : s.mutex = true → ∃ v, 1 ≤ v ∧ v ≤ c.n ∧ s.ph v = .inComb
  mast : s.mph = .front ∨ s.mph = .back ∨ s.mph = .done

theorem NInv_init (c : NCfg) : NInv c c.init := by
  obtain ⟨n, comb⟩ := c
  cases comb <;> constructor <;> simp [NCfg.init]

theorem NInv_step {c : NCfg} {s s' : NSt} (hi : NInv c s) (hst : NStep c s s') : NInv c s' := by
  obtain ⟨phs, m1, m2, mutK, mast⟩ := hi
  cases hst
  all_goals
    constructor
    · intro w
      simp only [updP]
      grind
    · intro a
      simp only [updP]
      grind
    · intro a b
      simp only [updP]
      grind
    · simp only [updP]
      grind
    · grind

theorem NInv_reach {c : NCfg} {s : NSt} (hs : c.Reach s) : NInv c s :=
  ns_reach_induct (NInv_init c) (fun _ _ hi hst => NInv_step hi hst) s hs

/-- at most one worker is inside combine() -/
theorem noscatter_combine_mutex (c : NCfg) (s : NSt) (hs : c.Reach s)
    (a b : Nat) (ha : 1 ≤ a ∧ a ≤ c.n) (hb : 1 ≤ b ∧ b ≤ c.n)
    (hA : s.ph a = .inComb) (hB : s.ph b = .inComb) : a = b :=
  have _ := ha
  have _ := hb
  (NInv_reach hs).m2 a b hA hB

/-- workers only ever are in preComb / inComb / done -/
theorem noscatter_phases (c : NCfg) (s : NSt) (hs : c.Reach s) (w : Nat) :
    s.ph w = .preComb ∨ s.ph w = .inComb ∨ s.ph w = .done :=
  (NInv_reach hs).phs w

/-! ## deadlock-freedom -/

theorem ns_allDone_iff (c : NCfg) (s : NSt) :
    c.allDone s = true ↔ ∀ w, 1 ≤ w → w ≤ c.n → s.ph w = .done := by
  simp only [NCfg.allDone, List.all_eq_true, List.mem_range, beq_iff_eq]
  constructor
  · intro h w h1 h2
    have := h (w - 1) (by omega)
    have e : w - 1 + 1 = w := by omega
    rw [e] at this; exact this
  · intro h k hk
    exact h (k + 1) (by omega) (by omega)

theorem ns_step_of {c : NCfg} {s : NSt} (e : Ev) (hn : c.next s e.thread = some e)
    (hen : c.enabled s e = true) : ∃ e s', c.step s e = some s' :=
  ⟨e, c.apply s e, by simp [NCfg.step, hn, hen]⟩

theorem ns_worker_step {c : NCfg} {s : NSt} (inv : NInv c s)
    (w : Nat) (h1 : 1 ≤ w) (h2 : w ≤ c.n) (hnd : s.ph w ≠ .done) : ∃ e s', c.step s e = some s' := by
  have hw0 : w ≠ 0 := by omega
  have hwn : ¬ c.n < w := by omega
  rcases inv.phs w with h | h | h
  · by_cases hm : s.mutex = true
    · obtain ⟨v, hv1, hv2, hv⟩ := inv.mutK hm
      exact ns_step_of (c := c) (s := s) (.cleave v)
        (by simp [NCfg.next, Ev.thread, hv, show v ≠ 0 by omega, show ¬ c.n < v by omega])
        (by simp [NCfg.enabled])
    · exact ns_step_of (c := c) (s := s) (.center w) (by simp [NCfg.next, Ev.thread, h, hw0, hwn])
        (by simpa [NCfg.enabled] using hm)
  · exact ns_step_of (c := c) (s := s) (.cleave w) (by simp [NCfg.next, Ev.thread, h, hw0, hwn])
      (by simp [NCfg.enabled])
  · exact absurd h hnd

theorem ns_workers_step {c : NCfg} {s : NSt} (inv : NInv c s) :
    ∀ k, k ≤ c.n → (∀ v, k < v → v ≤ c.n → s.ph v = .done) →
      (∃ e s', c.step s e = some s') ∨ (∀ w, 1 ≤ w → w ≤ c.n → s.ph w = .done) := by
  intro k
  induction k with
  | zero => intro _ h; exact Or.inr (fun w h1 h2 => h w (by omega) h2)
  | succ k ih =>
    intro hk h
    by_cases hd : s.ph (k + 1) = .done
    · refine ih (by omega) (fun v hv1 hv2 => ?_)
      by_cases e : v = k + 1
      · subst e; exact hd
      · exact h v (by omega) hv2
    · exact Or.inl (ns_worker_step inv (k + 1) (by omega) hk hd)

/-- no deadlock: every reachable non-final state has an enabled transition -/
theorem noscatter_no_deadlock (c : NCfg) (s : NSt) (hs : c.Reach s) (hf : NCfg.final s = false) :
    ∃ e s', c.step s e = some s' := by
  have inv := NInv_reach hs
  have hnd : s.mph ≠ .done := by simpa [NCfg.final] using hf
  rcases inv.mast with h | h | h
  · exact ns_step_of (c := c) (s := s) (.fopen 0 0) (by simp [NCfg.next, Ev.thread, h]) (by simp [NCfg.enabled])
  · rcases ns_workers_step inv c.n (Nat.le_refl _) (fun v h1 h2 => by omega) with hst | hall
    · exact hst
    · exact ns_step_of (c := c) (s := s) .join (by simp [NCfg.next, Ev.thread, h])
        (by simpa [NCfg.enabled] using (ns_allDone_iff c s).2 hall)
  · exact absurd h hnd

end FeatModel.DA
