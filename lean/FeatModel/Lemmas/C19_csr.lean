import FeatModel.Model.Adjacency
import FeatModel.Model.AdjKernels
import FeatModel.Model.LA.Convert
import FeatModel.Lemmas.C19_renders
/-! C19 lemmas, group `csr`: the CSR matrix permutation of C02's model acts on the sparsity pattern exactly as the
graph permutation copy-constructor followed by `sort_indices` -/
open FeatModel.Adj

namespace C19L.csr

/-- the sparsity pattern of a CSR matrix as an adjacency graph (`Graph(RenderType::as_is, matrix)`) -/
def patternOf {α : Type} [Zero α] (A : FeatModel.LA.Csr α) : Graph :=
  { nImg := A.cols, adj := (List.range A.rows).map fun i => (A.rowList i).map (·.1) }

open FeatModel.LA in
theorem insSorted_keys_perm {α : Type} (x : Nat × α) (l : List (Nat × α)) :
    ((Csr.insSorted x l).map (·.1)).Perm (x.1 :: l.map (·.1)) := by
  induction l with
  | nil => simp [Csr.insSorted]
  | cons y ys ih =>
    simp only [Csr.insSorted]
    split
    · exact List.Perm.refl _
    · simp only [List.map_cons]
      exact (ih.cons y.1).trans (List.Perm.swap x.1 y.1 _)

open FeatModel.LA in
theorem insSorted_keys_sorted {α : Type} (x : Nat × α) (l : List (Nat × α))
    (h : (l.map (·.1)).Pairwise (· ≤ ·)) : ((Csr.insSorted x l).map (·.1)).Pairwise (· ≤ ·) := by
  induction l with
  | nil => simp [Csr.insSorted]
  | cons y ys ih =>
    simp only [Csr.insSorted]
    simp only [List.map_cons, List.pairwise_cons] at h
    split
    · rename_i hxy
      simp only [List.map_cons, List.pairwise_cons]
      refine ⟨?_, h⟩
      intro a ha
      rcases List.mem_cons.1 ha with rfl | ha
      · omega
      · have := h.1 a ha
        omega
    · rename_i hxy
      simp only [List.map_cons, List.pairwise_cons]
      refine ⟨?_, ih h.2⟩
      intro a ha
      have := (insSorted_keys_perm x ys).mem_iff.1 ha
      rcases List.mem_cons.1 this with rfl | ha
      · omega
      · exact h.1 a ha

open FeatModel.LA in
theorem foldl_insSorted_spec {α : Type} (l acc : List (Nat × α))
    (h : (acc.map (·.1)).Pairwise (· ≤ ·)) :
    ((l.foldl (fun acc x => Csr.insSorted x acc) acc).map (·.1)).Perm (l.map (·.1) ++ acc.map (·.1)) ∧
    ((l.foldl (fun acc x => Csr.insSorted x acc) acc).map (·.1)).Pairwise (· ≤ ·) := by
  induction l generalizing acc with
  | nil => exact ⟨List.Perm.refl _, h⟩
  | cons x xs ih =>
    simp only [List.foldl_cons]
    have := ih (Csr.insSorted x acc) (insSorted_keys_sorted x acc h)
    refine ⟨this.1.trans ?_, this.2⟩
    simp only [List.map_cons, List.cons_append]
    exact ((insSorted_keys_perm x acc).append_left _).trans List.perm_middle

theorem sorted_perm_eq (l₁ l₂ : List Nat) (h₁ : l₁.Pairwise (· ≤ ·)) (h₂ : l₂.Pairwise (· ≤ ·))
    (hp : l₁.Perm l₂) : l₁ = l₂ := by
  induction l₁ generalizing l₂ with
  | nil => exact hp.nil_eq
  | cons a as ih =>
    cases l₂ with
    | nil => exact absurd hp.length_eq (by simp)
    | cons b bs =>
      rw [List.pairwise_cons] at h₁ h₂
      have hab : a = b := by
        have ha : a ∈ b :: bs := hp.mem_iff.1 (List.mem_cons_self)
        have hb : b ∈ a :: as := hp.mem_iff.2 (List.mem_cons_self)
        rcases List.mem_cons.1 ha with h | ha
        · exact h
        · rcases List.mem_cons.1 hb with h | hb
          · exact h.symm
          · have := h₁.1 b hb
            have := h₂.1 a ha
            omega
      subst hab
      rw [ih bs h₁.2 h₂.2 hp.cons_inv]

theorem graph_csr_permute_consistent {α : Type} [Zero α] (A : FeatModel.LA.Csr α) (p qinv : Array Nat) (i : Nat)
    (hi : i < A.rows) (hp : p.size = A.rows) (hpr : ∀ k, k < p.size → p.getD k 0 < A.rows) :
    (A.permRow p qinv i).map (·.1) =
      (((patternOf A).permuted p.toList qinv.toList).sortIndices).row i := by
  have hip : i < p.size := by omega
  have hpi := hpr i hip
  have hrow : ((patternOf A).permuted p.toList qinv.toList).row i =
      ((A.rowList (p.getD i 0)).map (·.1)).map (fun k => qinv.getD k 0) := by
    simp only [Graph.row, Graph.permuted, patternOf, List.getD_eq_getElem?_getD, List.getElem?_map,
      Array.getElem?_toList, Array.getD_eq_getD_getElem?]
    have hpi' : p[i] < A.rows := by
      have := hpi
      simp only [Array.getD_eq_getD_getElem?, Array.getElem?_eq_getElem hip, Option.getD_some] at this
      exact this
    simp [hip, List.getElem?_range hpi']
  rw [C19L.renders.sortIndices_row, hrow]
  have hs := foldl_insSorted_spec ((A.rowList (p.getD i 0)).map fun cv => (qinv.getD cv.1 0, cv.2)) []
    (by simp)
  apply sorted_perm_eq _ _ hs.2 (C19L.renders.sortList_sorted _)
  refine hs.1.trans ?_
  refine List.Perm.trans ?_ (C19L.renders.sortList_perm _).symm
  simp [List.map_map, Function.comp_def]

end C19L.csr
