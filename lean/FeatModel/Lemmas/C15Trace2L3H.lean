import FeatModel.Model.FETrace
/-! kernel-checked trace conformity of Lagrange-3 on the quadrilateral, all 16 edge orientations -/
namespace FeatModel.FE
set_option maxRecDepth 100000 in
theorem trace2L3H : traceAll2 .L3 .H = true := by decide +kernel
end FeatModel.FE
