import FeatModel.Lemmas.C06Slip
import FeatModel.Lemmas.C13Dot
/-! C06, global filters = local filter + synchronised reductions: the links between the C06 filter models and the
distributed-vector model of C13 (`FeatModel.Model.Dist`, read-only) -/
namespace FeatModel.LA.Filter
open FeatModel.Dist

section
variable {α : Type} [Field α]

/-- the C06 weighted products ARE the local parts of `Gate::dot` -/
theorem tdotL_eq_tripleDot (f x y : List α) : tdotL f x y = tripleDot f x y := rfl
theorem dotL_eq_dotLocal (x y : List α) : dotL x y = dotLocal x y := rfl
/-- the unit filter loop of C06 is the one C13 uses for `Global::Filter<UnitFilter>` -/
theorem scatter_eq_unitFilterSet (es : List (Nat × α)) (v : List α) : scatter es v = unitFilterSet es v := rfl

theorem val_axpyL (x d : List α) (t : α) (i : Nat) (hx : i < x.length) (hd : i < d.length) :
    val (axpyL x d t) i = val x i + t * val d i := by
  simp [val, axpyL, List.getD_eq_getElem?_getD, List.getElem?_zipWith, List.getElem?_eq_getElem hx,
    List.getElem?_eq_getElem hd]

/-- every rank updates its local vector along its local direction vector with the factor computed from the
    ALLREDUCED weighted products (`Gate::dot` = frequency-weighted `triple_dot` + allreduce) -/
def gmeanAll (d : Decomp) (wts dirs duals prims xs : List (List α)) : List (List α) :=
  (List.range d.np).map fun r =>
    axpyL (xs.getD r []) (dirs.getD r []) (-(gdot d.patches xs wts) / gdot d.patches prims duals)

/-- one block of the slip filter: the normal component is removed -/
def slipBlock (blk nu : List α) : List α := axpyL blk nu (-(dotL blk nu / dotL nu nu))

variable [DecidableEq α]

/-- the block of an entry after the slip loop depends on the old block and the normal only -/
theorem run_block_value (bs : Nat) (es : List (Nat × List α)) (v w : List α) (h : SlipF.run bs es v = some w)
    (hn : (es.map Prod.fst).Nodup) (hfit : ∀ e ∈ es, bs * e.1 + bs ≤ v.length) :
    ∀ e ∈ es, readBlock bs e.1 w = slipBlock (readBlock bs e.1 v) (SlipF.normal bs e) := by
  induction es generalizing v with
  | nil => simp
  | cons e t ih =>
    simp only [SlipF.run] at h
    simp only [List.map_cons, List.nodup_cons] at hn
    cases hs : SlipF.step bs v e with
    | none => simp [hs] at h
    | some v' =>
      simp only [hs] at h
      have hlen := step_length bs v v' e hs
      intro e' he'
      rcases List.mem_cons.mp he' with hh | hh
      · subst hh
        rw [run_block_untouched bs t v' w h e'.1 (fun g hg heq => hn.1 (List.mem_map.mpr ⟨g, hg, heq⟩))]
        obtain ⟨_, hw⟩ := step_spec bs v v' e' hs
        rw [hw, readBlock_writeBlock bs e'.1 _ v
          (by rw [length_axpyL _ _ _ (by rw [length_readBlock, length_normal]), length_readBlock])
          (hfit e' List.mem_cons_self)]
        rfl
      · have hne : e'.1 ≠ e.1 := fun heq => hn.1 (List.mem_map.mpr ⟨e', hh, heq⟩)
        rw [ih v' h hn.2 (fun g hg => by rw [hlen]; exact hfit g (List.mem_cons_of_mem _ hg)) e' hh]
        congr 1
        apply readBlock_congr
        intro j hj
        exact step_untouched bs v v' e hs _ (block_disjoint bs e.1 e'.1 j hne hj)

end

end FeatModel.LA.Filter
