import Mathlib.Algebra.Order.Field.Rat
import Mathlib.Data.Rat.Lemmas
import Mathlib.Tactic.Linarith
import Mathlib.Tactic.Ring
import Mathlib.Tactic.FieldSimp
import Mathlib.Tactic.Positivity
import Mathlib.Tactic.NormNum
import Mathlib.Data.Nat.Prime.Basic
import FeatModel.Model.LA.Rebuild
/-!
C02: the data-type round trip `Q -> double -> float -> Q` of the harness (`roundDt`) is the identity on every
float-representable value (dyadic rational with at most 24 significant bits; exponent range not modelled).
The 53-bit truncation in between is exact because 24 ≤ 53.
-/
open FeatModel FeatModel.LA
namespace C02L
namespace RoundAux

/-- `floorLog2 n 2^j = log2 n - j` exactly (the first guess `l` is always right for a power-of-two denominator) -/
theorem floorLog2_pow2 (n j : Nat) (hn : n ≠ 0) : floorLog2 n (2 ^ j) = (Nat.log2 n : Int) - (j : Int) := by
  have hL : 2 ^ Nat.log2 n ≤ n := Nat.log2_self_le hn
  unfold floorLog2
  simp only [Nat.log2_two_pow]
  by_cases hl : ((Nat.log2 n : Int) - (j : Int)) ≥ 0
  · have h1 : ((Nat.log2 n : Int) - (j : Int)).toNat = Nat.log2 n - j := by omega
    have h2 : j ≤ Nat.log2 n := by omega
    have h3 : 2 ^ j * 2 ^ (Nat.log2 n - j) ≤ n := by
      rw [← Nat.pow_add]
      have : j + (Nat.log2 n - j) = Nat.log2 n := by omega
      rw [this]; exact hL
    simp [h1, h3]
    intro h; exact absurd h (by omega)
  · have h1 : (-((Nat.log2 n : Int) - (j : Int))).toNat = j - Nat.log2 n := by omega
    have h2 : Nat.log2 n ≤ j := by omega
    have h3 : 2 ^ j ≤ n * 2 ^ (j - Nat.log2 n) := by
      have : 2 ^ j = 2 ^ Nat.log2 n * 2 ^ (j - Nat.log2 n) := by
        rw [← Nat.pow_add]; congr 1; omega
      rw [this]
      exact Nat.mul_le_mul_right _ hL
    simp [h3]
    intro h; exact absurd h (by omega)

/-- exactness of the significand extraction: when `n = m * 2^t` with `m < 2^p` and the denominator is `2^j`,
    the scaled value is the integer `m * 2^q` (`q + log2 n + 1 = p + t`) and the remainder is zero -/
theorem sigParts_exact (p m t j q : Nat) (hm : 0 < m)
    (hq : q + Nat.log2 (m * 2 ^ t) + 1 = p + t) :
    (sigParts p (m * 2 ^ t) (2 ^ j)).1 = m * 2 ^ q ∧
    (sigParts p (m * 2 ^ t) (2 ^ j)).2.1 = (q : Int) - (t : Int) + (j : Int) ∧
    (sigParts p (m * 2 ^ t) (2 ^ j)).2.2.1 = 0 ∧
    0 < (sigParts p (m * 2 ^ t) (2 ^ j)).2.2.2 := by
  have hn : m * 2 ^ t ≠ 0 := Nat.ne_of_gt (Nat.mul_pos hm (Nat.pow_pos (by decide)))
  have hs : (p : Int) - 1 - ((Nat.log2 (m * 2 ^ t) : Int) - (j : Int)) = (q : Int) - (t : Int) + (j : Int) := by
    omega
  unfold sigParts
  simp only [floorLog2_pow2 _ _ hn, hs]
  by_cases hge : (q : Int) - (t : Int) + (j : Int) ≥ 0
  · obtain ⟨s, hs'⟩ : ∃ s : Nat, ((q : Int) - (t : Int) + (j : Int)).toNat = s := ⟨_, rfl⟩
    have hqs : q + j = t + s := by omega
    have hnum : m * 2 ^ t * 2 ^ s = (m * 2 ^ q) * 2 ^ j := by
      rw [Nat.mul_assoc, ← Nat.pow_add, Nat.mul_assoc, ← Nat.pow_add, hqs]
    have hpos : 0 < 2 ^ j := Nat.pow_pos (by decide)
    simp only [hge, if_true, hs', hnum]
    refine ⟨Nat.mul_div_cancel _ hpos, trivial, ?_, hpos⟩
    simp
  · obtain ⟨s, hs'⟩ : ∃ s : Nat, (-((q : Int) - (t : Int) + (j : Int))).toNat = s := ⟨_, rfl⟩
    have hqs : t = q + (j + s) := by omega
    have hnum : m * 2 ^ t = (m * 2 ^ q) * (2 ^ j * 2 ^ s) := by
      rw [hqs, Nat.mul_assoc, ← Nat.pow_add, ← Nat.pow_add]
    have hpos : 0 < 2 ^ j * 2 ^ s := Nat.mul_pos (Nat.pow_pos (by decide)) (Nat.pow_pos (by decide))
    simp only [hge, if_false, hs']
    refine ⟨?_, trivial, ?_, hpos⟩
    · rw [hnum]; exact Nat.mul_div_cancel _ hpos
    · rw [hnum]; simp

/-- `scaleRat` undoes the scaling -/
theorem scaleRat_val (m t j q : Nat) :
    scaleRat (m * 2 ^ q) ((q : Int) - (t : Int) + (j : Int)) = ((m : Rat) * 2 ^ t) / 2 ^ j := by
  unfold scaleRat
  have h2 : (2 : Rat) ≠ 0 := by norm_num
  by_cases hge : (q : Int) - (t : Int) + (j : Int) ≥ 0
  · obtain ⟨s, hs'⟩ : ∃ s : Nat, ((q : Int) - (t : Int) + (j : Int)).toNat = s := ⟨_, rfl⟩
    have hqs : q + j = t + s := by omega
    simp only [hge, if_true, hs']
    rw [Rat.mkRat_eq_div]
    push_cast
    rw [div_eq_div_iff (pow_ne_zero _ h2) (pow_ne_zero _ h2)]
    rw [mul_assoc, ← pow_add, mul_assoc, ← pow_add, hqs]
  · obtain ⟨s, hs'⟩ : ∃ s : Nat, (-((q : Int) - (t : Int) + (j : Int))).toNat = s := ⟨_, rfl⟩
    have hqs : t = q + (j + s) := by omega
    simp only [hge, if_false, hs']
    push_cast
    rw [eq_div_iff (pow_ne_zero _ h2), hqs]
    rw [mul_assoc, mul_assoc, ← pow_add, ← pow_add]
    congr 2; omega

/-- existence of the shift `q` -/
theorem exists_q (p m t : Nat) (hm : 0 < m) (hmp : m < 2 ^ p) :
    ∃ q : Nat, q + Nat.log2 (m * 2 ^ t) + 1 = p + t := by
  have hn : m * 2 ^ t ≠ 0 := Nat.ne_of_gt (Nat.mul_pos hm (Nat.pow_pos (by decide)))
  have hlt : m * 2 ^ t < 2 ^ (p + t) := by
    rw [Nat.pow_add]; exact Nat.mul_lt_mul_of_pos_right hmp (Nat.pow_pos (by decide))
  have := (Nat.log2_lt hn).2 hlt
  exact ⟨p + t - (Nat.log2 (m * 2 ^ t) + 1), by omega⟩

/-- `|x|` as a quotient of the naturals the model works with -/
theorem abs_parts (x : Rat) : (if x < 0 then -(((x.num.natAbs : Nat) : Rat) / (x.den : Rat))
    else ((x.num.natAbs : Nat) : Rat) / (x.den : Rat)) = x := by
  have hx : (x.num : Rat) / (x.den : Rat) = x := Rat.num_div_den x
  by_cases h : x < 0
  · have hnum : x.num < 0 := Rat.num_neg.2 h
    have : ((x.num.natAbs : Nat) : Rat) = -(x.num : Rat) := by
      have : ((x.num.natAbs : Nat) : Int) = -x.num := by omega
      rw [← Int.cast_natCast, this]; simp
    rw [if_pos h, this, neg_div, neg_neg, hx]
  · have hnum : 0 ≤ x.num := Rat.num_nonneg.2 (not_lt.1 h)
    have : ((x.num.natAbs : Nat) : Rat) = (x.num : Rat) := by
      have : ((x.num.natAbs : Nat) : Int) = x.num := by omega
      rw [← Int.cast_natCast, this]
    rw [if_neg h, this, hx]

end RoundAux

open RoundAux

/-! ### main lemmas: `x.den = 2^j`, `|x.num| = m * 2^t` with `m < 2^p` -/

theorem truncBits_fix' (p : Nat) (x : Rat) (hd : ∃ j, x.den = 2 ^ j)
    (hn : ∃ m t, x.num.natAbs = m * 2 ^ t ∧ m < 2 ^ p) : truncBits p x = x := by
  unfold truncBits
  by_cases hx : x = 0
  · simp [hx]
  · obtain ⟨j, hj⟩ := hd
    obtain ⟨m, t, hmt, hmp⟩ := hn
    have hm : 0 < m := by
      rcases Nat.eq_zero_or_pos m with h | h
      · exfalso; apply hx
        have : x.num.natAbs = 0 := by rw [hmt, h]; simp
        exact Rat.num_eq_zero.1 (Int.natAbs_eq_zero.1 this)
      · exact h
    obtain ⟨q, hq⟩ := exists_q p m t hm hmp
    obtain ⟨h1, h2, -, -⟩ := sigParts_exact p m t j q hm hq
    simp only [if_neg hx, hmt, hj, h1, h2, scaleRat_val]
    have := abs_parts x
    rw [hmt, hj] at this
    push_cast at this
    exact this

theorem rneBits_fix' (p : Nat) (x : Rat) (hd : ∃ j, x.den = 2 ^ j)
    (hn : ∃ m t, x.num.natAbs = m * 2 ^ t ∧ m < 2 ^ p) : rneBits p x = x := by
  unfold rneBits
  by_cases hx : x = 0
  · simp [hx]
  · obtain ⟨j, hj⟩ := hd
    obtain ⟨m, t, hmt, hmp⟩ := hn
    have hm : 0 < m := by
      rcases Nat.eq_zero_or_pos m with h | h
      · exfalso; apply hx
        have : x.num.natAbs = 0 := by rw [hmt, h]; simp
        exact Rat.num_eq_zero.1 (Int.natAbs_eq_zero.1 this)
      · exact h
    obtain ⟨q, hq⟩ := exists_q p m t hm hmp
    obtain ⟨h1, h2, h3, h4⟩ := sigParts_exact p m t j q hm hq
    simp only [if_neg hx, hmt, hj, h3, h1, h2]
    generalize (sigParts p (m * 2 ^ t) (2 ^ j)).2.2.2 = X at h4
    have hgt : decide (0 > X) = false := by simp
    have hne : decide (0 = X) = false := by simp; omega
    simp only [hgt, hne, Bool.false_or, Bool.false_and, Bool.false_eq_true, if_false, scaleRat_val]
    have := abs_parts x
    rw [hmt, hj] at this
    push_cast at this
    exact this

theorem roundDt_fix' (x : Rat) (hd : ∃ j, x.den = 2 ^ j)
    (hn : ∃ m t, x.num.natAbs = m * 2 ^ t ∧ m < 2 ^ 24) : roundDt x = x := by
  unfold roundDt
  have h53 : ∃ m t, x.num.natAbs = m * 2 ^ t ∧ m < 2 ^ 53 := by
    obtain ⟨m, t, h, hm⟩ := hn
    exact ⟨m, t, h, Nat.lt_of_lt_of_le hm (by decide)⟩
  rw [truncBits_fix' 53 x hd h53, rneBits_fix' 24 x hd hn]

/-! ### the forms with `|x.num| < 2^p` -/

theorem truncBits_fix (p : Nat) (x : Rat) (hd : ∃ j, x.den = 2 ^ j) (hn : x.num.natAbs < 2 ^ p) :
    truncBits p x = x :=
  truncBits_fix' p x hd ⟨x.num.natAbs, 0, by simp, hn⟩

theorem rneBits_fix (p : Nat) (x : Rat) (hd : ∃ j, x.den = 2 ^ j) (hn : x.num.natAbs < 2 ^ p) :
    rneBits p x = x :=
  rneBits_fix' p x hd ⟨x.num.natAbs, 0, by simp, hn⟩

theorem roundDt_fix (x : Rat) (hd : ∃ j, x.den = 2 ^ j) (hn : x.num.natAbs < 2 ^ 24) : roundDt x = x :=
  roundDt_fix' x hd ⟨x.num.natAbs, 0, by simp, hn⟩

theorem roundDt_zero : roundDt 0 = 0 := by
  simp [roundDt, truncBits, rneBits]

/-! ### the explicit forms: `± m / 2^k` and `± m * 2^k` -/
namespace RoundAux

/-- the signed integer `± m` -/
def sgnInt (neg : Bool) (m : Nat) : Int := if neg then -(m : Int) else (m : Int)

theorem sgnInt_natAbs (neg : Bool) (m : Nat) : (sgnInt neg m).natAbs = m := by
  cases neg <;> simp [sgnInt]

theorem sgnInt_cast (neg : Bool) (m : Nat) : ((sgnInt neg m : Int) : Rat) = (if neg then -1 else 1) * (m : Rat) := by
  cases neg <;> simp [sgnInt]

/-- lowest terms of `n / 2^k`: the denominator is a power of two, the numerator does not grow -/
theorem mkRat_pow2_parts (n : Int) (k : Nat) :
    (∃ j, (mkRat n (2 ^ k)).den = 2 ^ j) ∧ (mkRat n (2 ^ k)).num.natAbs ≤ n.natAbs := by
  have hne : (2 : Nat) ^ k ≠ 0 := Nat.ne_of_gt (Nat.pow_pos (by decide))
  rw [Rat.den_mkRat, Rat.num_mkRat, if_neg hne, if_neg hne]
  obtain ⟨i, hi, hg⟩ := (Nat.dvd_prime_pow Nat.prime_two).1 (Nat.gcd_dvd_left (2 ^ k) n.natAbs)
  refine ⟨⟨k - i, ?_⟩, ?_⟩
  · rw [hg, Nat.pow_div hi (by decide)]
  · exact Int.natAbs_ediv_le_natAbs _ _

theorem dyadic_eq_mkRat (m k : Nat) (neg : Bool) :
    (if neg then -1 else 1) * (m : Rat) / 2 ^ k = mkRat (sgnInt neg m) (2 ^ k) := by
  rw [Rat.mkRat_eq_div, sgnInt_cast]; push_cast; rfl

theorem dyadic_parts (m k : Nat) (neg : Bool) :
    (∃ j, ((if neg then -1 else 1) * (m : Rat) / 2 ^ k).den = 2 ^ j) ∧
    ((if neg then -1 else 1) * (m : Rat) / 2 ^ k).num.natAbs ≤ m := by
  rw [dyadic_eq_mkRat]
  have := mkRat_pow2_parts (sgnInt neg m) k
  rw [sgnInt_natAbs] at this
  exact this

theorem big_eq_intCast (m k : Nat) (neg : Bool) :
    (if neg then -1 else 1) * (m : Rat) * 2 ^ k = ((sgnInt neg m * 2 ^ k : Int) : Rat) := by
  push_cast; rw [sgnInt_cast]

theorem big_parts (m k : Nat) (neg : Bool) :
    ((if neg then -1 else 1) * (m : Rat) * 2 ^ k).den = 2 ^ 0 ∧
    ((if neg then -1 else 1) * (m : Rat) * 2 ^ k).num.natAbs = m * 2 ^ k := by
  rw [big_eq_intCast, Rat.den_intCast, Rat.num_intCast, Int.natAbs_mul, sgnInt_natAbs, Int.natAbs_pow]
  exact ⟨rfl, rfl⟩

end RoundAux

/-- values representable with `p` significant bits are fixed points of truncation -/
theorem truncBits_exact (p : Nat) (m : Nat) (hmp : m < 2 ^ p) (k : Nat) (neg : Bool) :
    truncBits p ((if neg then -1 else 1) * (m : Rat) / 2 ^ k) = (if neg then -1 else 1) * (m : Rat) / 2 ^ k :=
  truncBits_fix p _ (dyadic_parts m k neg).1 (Nat.lt_of_le_of_lt (dyadic_parts m k neg).2 hmp)

theorem truncBits_exact' (p : Nat) (m : Nat) (hmp : m < 2 ^ p) (k : Nat) (neg : Bool) :
    truncBits p ((if neg then -1 else 1) * (m : Rat) * 2 ^ k) = (if neg then -1 else 1) * (m : Rat) * 2 ^ k :=
  truncBits_fix' p _ ⟨0, (big_parts m k neg).1⟩ ⟨m, k, (big_parts m k neg).2, hmp⟩

/-- ... and of round-to-nearest-even -/
theorem rneBits_exact (p : Nat) (m : Nat) (hmp : m < 2 ^ p) (k : Nat) (neg : Bool) :
    rneBits p ((if neg then -1 else 1) * (m : Rat) / 2 ^ k) = (if neg then -1 else 1) * (m : Rat) / 2 ^ k :=
  rneBits_fix p _ (dyadic_parts m k neg).1 (Nat.lt_of_le_of_lt (dyadic_parts m k neg).2 hmp)

theorem rneBits_exact' (p : Nat) (m : Nat) (hmp : m < 2 ^ p) (k : Nat) (neg : Bool) :
    rneBits p ((if neg then -1 else 1) * (m : Rat) * 2 ^ k) = (if neg then -1 else 1) * (m : Rat) * 2 ^ k :=
  rneBits_fix' p _ ⟨0, (big_parts m k neg).1⟩ ⟨m, k, (big_parts m k neg).2, hmp⟩

/-- the harness' data-type round trip is the identity on float-representable values -/
theorem roundDt_exact (m : Nat) (hm : m < 2 ^ 24) (k : Nat) (neg : Bool) :
    roundDt ((if neg then -1 else 1) * (m : Rat) / 2 ^ k) = (if neg then -1 else 1) * (m : Rat) / 2 ^ k :=
  roundDt_fix _ (dyadic_parts m k neg).1 (Nat.lt_of_le_of_lt (dyadic_parts m k neg).2 hm)

theorem roundDt_exact' (m : Nat) (hm : m < 2 ^ 24) (k : Nat) (neg : Bool) :
    roundDt ((if neg then -1 else 1) * (m : Rat) * 2 ^ k) = (if neg then -1 else 1) * (m : Rat) * 2 ^ k :=
  roundDt_fix' _ ⟨0, (big_parts m k neg).1⟩ ⟨m, k, (big_parts m k neg).2, hm⟩

/-- the general statement: `± m * 2^e` for any integer exponent `e` -/
theorem roundDt_exact_zpow (m : Nat) (hm : m < 2 ^ 24) (e : Int) (neg : Bool) :
    roundDt ((if neg then -1 else 1) * (m : Rat) * 2 ^ e) = (if neg then -1 else 1) * (m : Rat) * 2 ^ e := by
  rcases Int.eq_nat_or_neg e with ⟨k, rfl | rfl⟩
  · rw [zpow_natCast]; exact roundDt_exact' m hm k neg
  · rw [zpow_neg, zpow_natCast, ← div_eq_mul_inv]; exact roundDt_exact m hm k neg

/-- sanity (kernel evaluation of the model): the driver's probes that are *not* fixed points, so `roundDt` is not
    the identity and the hypotheses above are needed -/
theorem roundDt_probe_third : roundDt (1 / 3) = 11184811 / 33554432 := by decide +kernel
theorem roundDt_probe_2p24p1 : roundDt 16777217 = 16777216 := by decide +kernel
theorem roundDt_probe_neg : roundDt (-33554435 / 2) = -16777218 := by decide +kernel

end C02L

