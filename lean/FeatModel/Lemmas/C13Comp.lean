/-
C13, composite (tuple / power / nested) mirrors: shapes, buffer sizes, and the reduction of the composite
gather / scatter recursions to the flat `gather` / `scatterAxpy` through `CMir.flatIdx`.
-/
import FeatModel.Lemmas.C13Sum
open FeatModel.Dist

set_option linter.unusedSectionVars false

namespace FeatModel.C13L

variable {α : Type} [Field α]

/-! ### generic list lemmas -/

theorem modify_append_left' {β : Type} (x y : List β) (i : Nat) (f : β → β) (hi : i < x.length) :
    (x ++ y).modify i f = x.modify i f ++ y := by
  induction x generalizing i with
  | nil => simp at hi
  | cons a x ih =>
    cases i with
    | zero => simp
    | succ i => simp [ih i (by simpa using hi)]

theorem modify_append_right' {β : Type} (x y : List β) (i : Nat) (f : β → β) :
    (x ++ y).modify (i + x.length) f = x ++ y.modify i f := by
  induction x with
  | nil => simp
  | cons a x ih =>
    have : i + (a :: x).length = (i + x.length) + 1 := by simp; omega
    rw [this]; simp [ih]

theorem zip_append_left {β γ : Type} (l₁ l₂ : List β) (d : List γ) :
    (l₁ ++ l₂).zip d = l₁.zip d ++ l₂.zip (d.drop l₁.length) := by
  induction l₁ generalizing d with
  | nil => simp
  | cons a l₁ ih =>
    cases d with
    | nil => simp
    | cons b d => simp [ih]

theorem zip_take_right {β γ : Type} (l : List β) (d : List γ) : l.zip (d.take l.length) = l.zip d := by
  induction l generalizing d with
  | nil => simp
  | cons a l ih =>
    cases d with
    | nil => simp
    | cons b d => simp [ih]

/-- a zip only sees the first `l.length` entries of the right list -/
theorem zip_append_right_of_length {β γ : Type} (l : List β) (d e : List γ) (h : l.length ≤ d.length) :
    l.zip (d ++ e) = l.zip d := by
  rw [← zip_take_right l (d ++ e), List.take_append_of_le_length h, zip_take_right]

/-! ### the flat scatter on a concatenation -/

theorem foldl_modify_append_left (l : List (Nat × α)) (a : α) (x y : List α) (h : ∀ p ∈ l, p.1 < x.length) :
    l.foldl (fun w p => w.modify p.1 (fun t => t + a * p.2)) (x ++ y)
      = l.foldl (fun w p => w.modify p.1 (fun t => t + a * p.2)) x ++ y := by
  induction l generalizing x with
  | nil => rfl
  | cons p l ih =>
    rw [List.foldl_cons, List.foldl_cons, modify_append_left' _ _ _ _ (h p (by simp))]
    apply ih
    intro q hq
    rw [List.length_modify]
    exact h q (by simp [hq])

theorem foldl_modify_append_right (l : List (Nat × α)) (a : α) (x y : List α) :
    (l.map fun p => (p.1 + x.length, p.2)).foldl (fun w p => w.modify p.1 (fun t => t + a * p.2)) (x ++ y)
      = x ++ l.foldl (fun w p => w.modify p.1 (fun t => t + a * p.2)) y := by
  induction l generalizing y with
  | nil => rfl
  | cons p l ih =>
    rw [List.map_cons, List.foldl_cons, List.foldl_cons, modify_append_right', ih]

theorem scatterAxpy_append (x y : List α) (m₁ m₂ : List Nat) (d : List α) (a : α)
    (h : ∀ i ∈ m₁, i < x.length) :
    scatterAxpy (x ++ y) (m₁ ++ m₂.map (· + x.length)) d a
      = scatterAxpy x m₁ d a ++ scatterAxpy y m₂ (d.drop m₁.length) a := by
  unfold scatterAxpy
  rw [zip_append_left, List.foldl_append, foldl_modify_append_left _ _ _ _ (fun p hp => h _ (List.of_mem_zip hp).1)]
  have : (m₂.map (· + x.length)).zip (d.drop m₁.length)
      = (m₂.zip (d.drop m₁.length)).map fun p => (p.1 + (List.foldl (fun w p => w.modify p.1 (fun t => t + a * p.2)) x (m₁.zip d)).length, p.2) := by
    rw [foldl_modify_length, List.zip_map_left]
    rfl
  rw [this, foldl_modify_append_right]

/-- a scatter only sees the first `mir.length` entries of the buffer -/
theorem scatterAxpy_take (v : List α) (m : List Nat) (d : List α) (a : α) :
    scatterAxpy v m (d.take m.length) a = scatterAxpy v m d a := by
  unfold scatterAxpy; rw [zip_take_right]

theorem scatterAxpy_append_buf (v : List α) (m : List Nat) (d e : List α) (a : α) (h : m.length ≤ d.length) :
    scatterAxpy v m (d ++ e) a = scatterAxpy v m d a := by
  unfold scatterAxpy; rw [zip_append_right_of_length _ _ _ h]

/-! ### the flat gather on a concatenation -/

theorem val_append_left (x y : List α) (i : Nat) (hi : i < x.length) : val (x ++ y) i = val x i := by
  simp [val, List.getD_eq_getElem?_getD, List.getElem?_append_left hi]

theorem val_append_right (x y : List α) (i : Nat) : val (x ++ y) (i + x.length) = val y i := by
  simp [val, List.getD_eq_getElem?_getD, List.getElem?_append_right]

theorem gather_append (x y : List α) (m₁ m₂ : List Nat) (h : ∀ i ∈ m₁, i < x.length) :
    gather (m₁ ++ m₂.map (· + x.length)) (x ++ y) = gather m₁ x ++ gather m₂ y := by
  unfold gather
  rw [List.map_append, List.map_map]
  congr 1
  · apply List.map_congr_left
    intro i hi
    exact val_append_left x y i (h i hi)
  · apply List.map_congr_left
    intro i _
    exact val_append_right x y i

theorem gather_length (m : List Nat) (v : List α) : (gather m v).length = m.length := by
  simp [gather]

/-! ### `writeAt` -/

theorem writeAt_length (buf : List α) (off : Nat) (seg : List α) (h : off + seg.length ≤ buf.length) :
    (writeAt buf off seg).length = buf.length := by
  simp [writeAt]; omega

theorem writeAt_writeAt (buf : List α) (off : Nat) (s₁ s₂ : List α) (h : off ≤ buf.length) :
    writeAt (writeAt buf off s₁) (off + s₁.length) s₂ = writeAt buf off (s₁ ++ s₂) := by
  have hl : (buf.take off ++ s₁).length = off + s₁.length := by simp [Nat.min_eq_left h]
  unfold writeAt
  rw [← hl, List.take_left, show (buf.take off ++ s₁).length + s₂.length = (buf.take off ++ s₁).length + s₂.length from rfl,
    List.drop_length_add_append, hl, List.drop_drop, List.length_append]
  simp [List.append_assoc, Nat.add_assoc]

theorem writeAt_nil (buf : List α) (off : Nat) : writeAt buf off [] = buf := by
  simp [writeAt]

/-- positions outside the written range are untouched -/
theorem writeAt_val_outside (buf : List α) (off : Nat) (seg : List α) (h : off + seg.length ≤ buf.length)
    (i : Nat) (hi : i < off ∨ off + seg.length ≤ i) : val (writeAt buf off seg) i = val buf i := by
  unfold writeAt val
  rw [List.getD_eq_getElem?_getD, List.getD_eq_getElem?_getD]
  congr 1
  have hto : (buf.take off).length = off := by simp; omega
  rcases hi with hi | hi
  · rw [List.append_assoc, List.getElem?_append_left (by omega), List.getElem?_take_of_lt hi]
  · rw [List.getElem?_append_right (by simp; omega), List.getElem?_drop]
    congr 1
    simp; omega

/-- positions inside the written range hold the segment -/
theorem writeAt_val_inside (buf : List α) (off : Nat) (seg : List α) (h : off ≤ buf.length)
    (k : Nat) (hk : k < seg.length) : val (writeAt buf off seg) (off + k) = val seg k := by
  unfold writeAt val
  rw [List.getD_eq_getElem?_getD, List.getD_eq_getElem?_getD]
  congr 1
  have hto : (buf.take off).length = off := by simp; omega
  rw [List.getElem?_append_left (by simp; omega), List.getElem?_append_right (by omega)]
  congr 1
  omega

/-! ### shapes -/

end FeatModel.C13L

/-- same tree shape, same block sizes, same leaf lengths -/
def FeatModel.Dist.CVec.sameShape {α : Type} : CVec α → CVec α → Prop
  | .leaf bs p, .leaf bs' q => bs = bs' ∧ p.length = q.length
  | .pair a b, .pair c d => sameShape a c ∧ sameShape b d
  | _, _ => False

namespace FeatModel.C13L

variable {α : Type} [Field α]

theorem sameShape_refl (v : CVec α) : v.sameShape v := by
  induction v with
  | leaf bs p => exact ⟨rfl, rfl⟩
  | pair a b iha ihb => exact ⟨iha, ihb⟩

theorem sameShape_symm {v w : CVec α} (h : v.sameShape w) : w.sameShape v := by
  induction v generalizing w with
  | leaf bs p =>
    cases w with
    | leaf bs' q => exact ⟨h.1.symm, h.2.symm⟩
    | pair c d => exact h.elim
  | pair a b iha ihb =>
    cases w with
    | leaf bs' q => exact h.elim
    | pair c d => exact ⟨iha h.1, ihb h.2⟩

theorem sameShape_trans {u v w : CVec α} (h₁ : u.sameShape v) (h₂ : v.sameShape w) : u.sameShape w := by
  induction u generalizing v w with
  | leaf bs p =>
    cases v with
    | leaf bs' q =>
      cases w with
      | leaf bs'' r => exact ⟨h₁.1.trans h₂.1, h₁.2.trans h₂.2⟩
      | pair c d => exact h₂.elim
    | pair c d => exact h₁.elim
  | pair a b iha ihb =>
    cases v with
    | leaf bs' q => exact h₁.elim
    | pair c d =>
      cases w with
      | leaf bs'' r => exact h₂.elim
      | pair e f => exact ⟨iha h₁.1 h₂.1, ihb h₁.2 h₂.2⟩

theorem podSize_eq_flat_length (v : CVec α) : v.podSize = v.flat.length := by
  induction v with
  | leaf bs p => rfl
  | pair a b iha ihb => simp [CVec.podSize, CVec.flat, iha, ihb]

theorem sameShape_podSize {v w : CVec α} (h : v.sameShape w) : v.podSize = w.podSize := by
  induction v generalizing w with
  | leaf bs p =>
    cases w with
    | leaf bs' q => exact h.2
    | pair c d => exact h.elim
  | pair a b iha ihb =>
    cases w with
    | leaf bs' q => exact h.elim
    | pair c d => simp [CVec.podSize, iha h.1, ihb h.2]

theorem sameShape_flat_length {v w : CVec α} (h : v.sameShape w) : v.flat.length = w.flat.length := by
  rw [← podSize_eq_flat_length, ← podSize_eq_flat_length, sameShape_podSize h]

theorem sameShape_flat_ext {v w : CVec α} (hs : v.sameShape w) (hf : v.flat = w.flat) : v = w := by
  induction v generalizing w with
  | leaf bs p =>
    cases w with
    | leaf bs' q => obtain ⟨rfl, _⟩ := hs; simp only [CVec.flat] at hf; rw [hf]
    | pair c d => exact hs.elim
  | pair a b iha ihb =>
    cases w with
    | leaf bs' q => exact hs.elim
    | pair c d =>
      simp only [CVec.flat] at hf
      obtain ⟨h1, h2⟩ := List.append_inj hf (sameShape_flat_length hs.1)
      rw [iha hs.1 h1, ihb hs.2 h2]

theorem sameShape_wf (m : CMir) {v w : CVec α} (h : v.sameShape w) : m.wf v = m.wf w := by
  induction m generalizing v w with
  | leaf idx =>
    cases v with
    | leaf bs p =>
      cases w with
      | leaf bs' q => obtain ⟨rfl, hl⟩ := h; simp [CMir.wf, hl]
      | pair c d => exact h.elim
    | pair a b =>
      cases w with
      | leaf bs' q => exact h.elim
      | pair c d => rfl
  | pair ma mb iha ihb =>
    cases v with
    | leaf bs p =>
      cases w with
      | leaf bs' q => rfl
      | pair c d => exact h.elim
    | pair a b =>
      cases w with
      | leaf bs' q => exact h.elim
      | pair c d => simp [CMir.wf, iha h.1, ihb h.2]

theorem sameShape_bufSize (m : CMir) {v w : CVec α} (h : v.sameShape w) : m.bufSize v = m.bufSize w := by
  induction m generalizing v w with
  | leaf idx =>
    cases v with
    | leaf bs p =>
      cases w with
      | leaf bs' q => obtain ⟨rfl, _⟩ := h; rfl
      | pair c d => exact h.elim
    | pair a b =>
      cases w with
      | leaf bs' q => exact h.elim
      | pair c d => rfl
  | pair ma mb iha ihb =>
    cases v with
    | leaf bs p =>
      cases w with
      | leaf bs' q => rfl
      | pair c d => exact h.elim
    | pair a b =>
      cases w with
      | leaf bs' q => exact h.elim
      | pair c d => simp [CMir.bufSize, iha h.1, ihb h.2]

theorem sameShape_flatIdx (m : CMir) {v w : CVec α} (h : v.sameShape w) (voff : Nat) :
    m.flatIdx v voff = m.flatIdx w voff := by
  induction m generalizing v w voff with
  | leaf idx =>
    cases v with
    | leaf bs p =>
      cases w with
      | leaf bs' q => obtain ⟨rfl, _⟩ := h; rfl
      | pair c d => exact h.elim
    | pair a b =>
      cases w with
      | leaf bs' q => exact h.elim
      | pair c d => rfl
  | pair ma mb iha ihb =>
    cases v with
    | leaf bs p =>
      cases w with
      | leaf bs' q => rfl
      | pair c d => exact h.elim
    | pair a b =>
      cases w with
      | leaf bs' q => exact h.elim
      | pair c d => simp [CMir.flatIdx, iha h.1, ihb h.2, sameShape_podSize h.1]

theorem zero_sameShape (v : CVec α) : v.zero.sameShape v := by
  induction v with
  | leaf bs p => exact ⟨rfl, by simp⟩
  | pair a b iha ihb => exact ⟨iha, ihb⟩

theorem zero_flat (v : CVec α) : v.zero.flat = List.replicate v.podSize 0 := by
  induction v with
  | leaf bs p => rfl
  | pair a b iha ihb => rw [CVec.zero, CVec.flat, iha, ihb, CVec.podSize, List.replicate_append_replicate]

/-- a scatter keeps the shape, whatever the mirror -/
theorem cscatter_sameShape (m : CMir) (v : CVec α) (buf : List α) (a : α) (off : Nat) :
    (cscatter m v buf a off).sameShape v := by
  induction m generalizing v off with
  | leaf idx =>
    cases v with
    | leaf bs p => exact ⟨rfl, scatterAxpy_length _ _ _ _⟩
    | pair x y => exact sameShape_refl _
  | pair ma mb iha ihb =>
    cases v with
    | leaf bs p => exact sameShape_refl _
    | pair x y => exact ⟨iha x off, ihb y _⟩

/-! ### (A) buffer size and flattened mirror -/

theorem expand_length (bs : Nat) (idx : List Nat) : (expand bs idx).length = idx.length * bs := by
  induction idx with
  | nil => simp [expand]
  | cons i idx ih =>
    have : expand bs (i :: idx) = ((List.range bs).map fun k => i * bs + k) ++ expand bs idx := by
      simp [expand]
    rw [this, List.length_append, ih]; simp [Nat.succ_mul]; omega

theorem mem_expand {bs : Nat} {idx : List Nat} {j : Nat} (h : j ∈ expand bs idx) :
    ∃ i ∈ idx, ∃ k < bs, j = i * bs + k := by
  simp only [expand, List.mem_flatMap, List.mem_map, List.mem_range] at h
  obtain ⟨i, hi, k, hk, rfl⟩ := h
  exact ⟨i, hi, k, hk, rfl⟩

theorem flatIdx_length (m : CMir) (v : CVec α) (h : m.wf v = true) (voff : Nat) :
    (m.flatIdx v voff).length = m.bufSize v := by
  induction m generalizing v voff with
  | leaf idx =>
    cases v with
    | leaf bs p => simp [CMir.flatIdx, CMir.bufSize, expand_length]
    | pair x y => simp [CMir.wf] at h
  | pair ma mb iha ihb =>
    cases v with
    | leaf bs p => simp [CMir.wf] at h
    | pair x y =>
      simp only [CMir.wf, Bool.and_eq_true] at h
      simp [CMir.flatIdx, CMir.bufSize, iha x h.1, ihb y h.2]

theorem flatIdx_shift (m : CMir) (v : CVec α) (voff : Nat) :
    m.flatIdx v voff = (m.flatIdx v 0).map (· + voff) := by
  induction m generalizing v voff with
  | leaf idx =>
    cases v with
    | leaf bs p => simp [CMir.flatIdx]
    | pair x y => simp [CMir.flatIdx]
  | pair ma mb iha ihb =>
    cases v with
    | leaf bs p => simp [CMir.flatIdx]
    | pair x y =>
      simp only [CMir.flatIdx, List.map_append, Nat.zero_add]
      rw [iha x voff, ihb y (voff + x.podSize), ihb y x.podSize, List.map_map]
      congr 2
      funext i; simp; omega

/-- every flattened index addresses an entry of the flattened vector -/
theorem flatIdx_lt (m : CMir) (v : CVec α) (h : m.wf v = true) : ∀ i ∈ m.flatIdx v 0, i < v.podSize := by
  induction m generalizing v with
  | leaf idx =>
    cases v with
    | leaf bs p =>
      intro j hj
      simp only [CMir.flatIdx, Nat.add_zero, List.map_id'] at hj
      obtain ⟨i, hi, k, hk, rfl⟩ := mem_expand hj
      simp only [CMir.wf, List.all_eq_true, decide_eq_true_eq] at h
      have := h i hi
      simp only [CVec.podSize]; omega
    | pair x y => simp [CMir.wf] at h
  | pair ma mb iha ihb =>
    cases v with
    | leaf bs p => simp [CMir.wf] at h
    | pair x y =>
      simp only [CMir.wf, Bool.and_eq_true] at h
      intro j hj
      simp only [CMir.flatIdx, Nat.zero_add, List.mem_append] at hj
      rcases hj with hj | hj
      · have := iha x h.1 j hj; simp only [CVec.podSize]; omega
      · rw [flatIdx_shift] at hj
        obtain ⟨i, hi, rfl⟩ := List.mem_map.1 hj
        have := ihb y h.2 i hi; simp only [CVec.podSize]; omega

theorem flatIdx_pair (a b : CMir) (x y : CVec α) :
    (CMir.pair a b).flatIdx (CVec.pair x y) 0 = a.flatIdx x 0 ++ (b.flatIdx y 0).map (· + x.flat.length) := by
  simp only [CMir.flatIdx, Nat.zero_add]
  rw [flatIdx_shift b y, podSize_eq_flat_length]

/-! ### power mirrors -/

/-- the right-nested vector `x₀, pair x₀ x₁, pair x₀ (pair x₁ x₂), …` (a `PowerVector` when all `xᵢ` have one shape) -/
def powerVec (x : CVec α) : List (CVec α) → CVec α
  | [] => x
  | y :: ys => .pair x (powerVec y ys)

theorem power_bufSize (s : CMir) (x : CVec α) (xs : List (CVec α)) :
    (CMir.power (xs.length + 1) s).bufSize (powerVec x xs) = ((x :: xs).map fun y => s.bufSize y).sum := by
  induction xs generalizing x with
  | nil => simp [CMir.power, powerVec]
  | cons y ys ih =>
    have : CMir.power ((y :: ys).length + 1) s = .pair s (CMir.power (ys.length + 1) s) := by
      simp [CMir.power]
    rw [this]
    simp only [powerVec, CMir.bufSize, ih y, List.map_cons, List.sum_cons]

theorem power_wf (s : CMir) (x : CVec α) (xs : List (CVec α)) (h : ∀ y ∈ x :: xs, s.wf y = true) :
    (CMir.power (xs.length + 1) s).wf (powerVec x xs) = true := by
  induction xs generalizing x with
  | nil => simpa [CMir.power, powerVec] using h
  | cons y ys ih =>
    have : CMir.power ((y :: ys).length + 1) s = .pair s (CMir.power (ys.length + 1) s) := by
      simp [CMir.power]
    rw [this]
    simp only [powerVec, CMir.wf, Bool.and_eq_true]
    exact ⟨h x (by simp), ih y (fun z hz => h z (by simp [hz]))⟩

/-! ### (B) composite gather -/

theorem cgather_flat (m : CMir) (v : CVec α) (h : m.wf v = true) (buf : List α) (off : Nat)
    (hb : off + m.bufSize v ≤ buf.length) :
    cgather m v buf off = writeAt buf off (gather (m.flatIdx v 0) v.flat) := by
  induction m generalizing v buf off with
  | leaf idx =>
    cases v with
    | leaf bs p => simp [cgather, CMir.flatIdx, CVec.flat]
    | pair x y => simp [CMir.wf] at h
  | pair ma mb iha ihb =>
    cases v with
    | leaf bs p => simp [CMir.wf] at h
    | pair x y =>
      simp only [CMir.wf, Bool.and_eq_true] at h
      simp only [CMir.bufSize] at hb
      have hla : (gather (ma.flatIdx x 0) x.flat).length = ma.bufSize x := by
        rw [gather_length, flatIdx_length _ _ h.1]
      have hlen : (writeAt buf off (gather (ma.flatIdx x 0) x.flat)).length = buf.length :=
        writeAt_length _ _ _ (by rw [hla]; omega)
      rw [cgather, iha x h.1 buf off (by omega), ihb y h.2 _ _ (by rw [hlen]; omega), ← hla,
        writeAt_writeAt _ _ _ _ (by omega), flatIdx_pair, CVec.flat,
        gather_append _ _ _ _ (fun i hi => by rw [← podSize_eq_flat_length]; exact flatIdx_lt ma x h.1 i hi)]

theorem cgather_length (m : CMir) (v : CVec α) (h : m.wf v = true) (buf : List α) (off : Nat)
    (hb : off + m.bufSize v ≤ buf.length) : (cgather m v buf off).length = buf.length := by
  rw [cgather_flat m v h buf off hb]
  apply writeAt_length
  rw [gather_length, flatIdx_length _ _ h]; exact hb

/-! ### (C) composite scatter -/

theorem cscatter_flat (m : CMir) (v : CVec α) (h : m.wf v = true) (buf : List α) (a : α) (off : Nat) :
    (cscatter m v buf a off).flat = scatterAxpy v.flat (m.flatIdx v 0) (buf.drop off) a := by
  induction m generalizing v off with
  | leaf idx =>
    cases v with
    | leaf bs p => simp [cscatter, CMir.flatIdx, CVec.flat]
    | pair x y => simp [CMir.wf] at h
  | pair ma mb iha ihb =>
    cases v with
    | leaf bs p => simp [CMir.wf] at h
    | pair x y =>
      simp only [CMir.wf, Bool.and_eq_true] at h
      rw [cscatter, CVec.flat, iha x h.1, ihb y h.2, flatIdx_pair, CVec.flat,
        scatterAxpy_append _ _ _ _ _ _ (fun i hi => by rw [← podSize_eq_flat_length]; exact flatIdx_lt ma x h.1 i hi),
        flatIdx_length _ _ h.1, List.drop_drop]

end FeatModel.C13L
