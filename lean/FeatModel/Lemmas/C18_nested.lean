/-
C18 helper lemmas, part 14: nestedness of the parametric Lagrange-1/2 spaces derived from the element polynomials
(C15's generated tables) and the child maps of the refined cubature rule — as polynomial identities on the reference
cell, checked by kernel evaluation per family × shape × child — and `prolongation_exact` for every case whose basis
values are the table values (parametric element on affine / multilinear cells), without a per-case certificate.
-/
import FeatModel.Model.TransferNested
import FeatModel.Lemmas.C15Subst
import FeatModel.Lemmas.C18_tp
import Mathlib.Tactic.IntervalCases
open FeatModel.GT FeatModel.Poly FeatModel.FE Finset

namespace C18L

theorem list_range_map_sum (n : Nat) (f : Nat → Rat) : ((List.range n).map f).sum = ∑ i ∈ range n, f i := by
  induction n with
  | zero => simp
  | succ n ih => rw [List.range_succ, List.map_append, List.sum_append, ih, Finset.sum_range_succ]; simp

theorem pt_map_evalAt (a : List Poly) (xi : List Rat) :
    (fun i => eval (pt xi) (a.getD i [])) = pt (a.map (evalAt xi)) := by
  funext i
  unfold pt evalAt
  by_cases h : i < a.length
  · simp [List.getD_eq_getElem?_getD, h]
    rfl
  · simp [List.getD_eq_getElem?_getD, h, eval]

/-- the polynomial identity as a statement about values: `φ̂_j(A_c ξ) = Σ_i E_ij φ̂_i(ξ)` for every `ξ` -/
theorem nested_ref {t : BasisTab} {k : Kind} {dim : Nat} (h : nestedRefB t k dim = true) {c j : Nat}
    (hc : c < numChildren k dim) (hj : j < t.nloc) (xi : List Rat) :
    evalAt (childPoint k dim c xi) (t.val j)
      = ∑ i ∈ range t.nloc, FeatModel.GT.get (Eref t k dim c) i j * evalAt xi (t.val i) := by
  unfold nestedRefB at h
  simp only [Bool.and_eq_true, List.all_eq_true, List.mem_range] at h
  have hcc := h.2 c hc
  unfold nestedChildB at hcc
  simp only [List.all_eq_true, List.mem_range] at hcc
  have he := equivT_sound (hcc j hj) (pt xi)
  unfold substL at he
  rw [eval_subst, pt_map_evalAt, eval_sum, List.map_map, list_range_map_sum] at he
  unfold evalAt childPoint
  rw [he]
  apply Finset.sum_congr rfl
  intro i _
  simp only [Function.comp, eval_smul, evalAt]

theorem getD_map_evalAt (t : BasisTab) (xi : List Rat) (i : Nat) :
    (t.vals.map (evalAt xi)).getD i 0 = evalAt xi (t.val i) := by
  unfold BasisTab.val
  by_cases h : i < t.vals.length
  · simp [List.getD_eq_getElem?_getD, h]
  · simp [List.getD_eq_getElem?_getD, h, evalAt, eval]

/-- local embedding of a child in terms of its position in the parent's child list -/
def EofRef (t : BasisTab) (k : Kind) (dim : Nat) (cell : Cell) (ch : Child) : Nat → Nat → Rat :=
  FeatModel.GT.get (Eref t k dim (cell.children.idxOf ch))

/-- nestedness at the dumped points, for every case whose basis values are the table values -/
theorem nested_of_param {t : BasisTab} {k : Kind} {dim : Nat} (hn : nestedRefB t k dim = true)
    (xis : List (List Rat)) (d : Dump) (hp : paramB t k dim xis d = true) :
    ∀ cell ∈ d.cells, ∀ ch ∈ cell.children, ∀ p ∈ ch.pts, ∀ j, j < cell.cmap.length →
      p.c.getD j 0 = ∑ m ∈ range ch.fmap.length, EofRef t k dim cell ch m j * p.f.getD m 0 := by
  intro cell hcell ch hch p hpm j hj
  unfold paramB at hp
  simp only [List.all_eq_true, Bool.and_eq_true, beq_iff_eq, List.mem_range] at hp
  obtain ⟨⟨hcl, hnch⟩, hchildren⟩ := hp cell hcell
  have hidx : cell.children.idxOf ch < cell.children.length := List.idxOf_lt_length_of_mem hch
  have hget : cell.children.getD (cell.children.idxOf ch) default = ch := by
    rw [List.getD_eq_getElem?_getD, List.getElem?_eq_getElem hidx]
    simp
  obtain ⟨⟨hfl, hpl⟩, hpts⟩ := hchildren _ hidx
  rw [hget] at hfl hpl hpts
  obtain ⟨q, hq, rfl⟩ := List.getElem_of_mem hpm
  have hq' := hpts q hq
  have hgq : ch.pts.getD q default = ch.pts[q] := by
    rw [List.getD_eq_getElem?_getD, List.getElem?_eq_getElem hq]; simp
  rw [hgq] at hq'
  obtain ⟨hf, hcv⟩ := hq'
  unfold refPt at hf hcv
  simp only at hf hcv
  rw [hcv, hfl, getD_map_evalAt]
  rw [nested_ref hn (by rw [← hnch]; exact hidx) (by rw [← hcl]; exact hj)]
  apply Finset.sum_congr rfl
  intro m _
  rw [hf, getD_map_evalAt]
  rfl

/-- **prolongation is exact for the Lagrange families on every nested mesh**: no per-case nestedness certificate;
the only assumption on the data is that the element is parametric (`paramB`: the basis values the loops see are the
reference polynomials at `ξ` resp. `A_c ξ`) -/
theorem prolongation_exact_param {t : BasisTab} {k : Kind} {dim : Nat} (hn : nestedRefB t k dim = true)
    (xis : List (List Rat)) (d : Dump) (hp : paramB t k dim xis d = true) (hmaps : mapsB d = true)
    (locs : List (List Nat × List Nat × Mat)) (pd : Mat) (xc : List Rat) (vf : Nat → Rat)
    (hlocs : localProls d = .ok locs) (hpd : prolDirect d locs = some pd)
    (hsame : ∀ cell ∈ d.cells, ∀ ch ∈ cell.children, ∀ i, i < ch.fmap.length →
      vf (ch.fmap.getD i 0)
        = ∑ j ∈ range cell.cmap.length, EofRef t k dim cell ch i j * xc.getD (cell.cmap.getD j 0) 0) :
    ∀ r, r < d.nf → (matVec d.nf d.nc pd xc).getD r 0 = vf r :=
  prolongation_exact d locs pd xc vf (EofRef t k dim) hlocs hpd (mapsB_spec hmaps).1
    (nested_of_param hn xis d hp) hsame

/-! ### the finite table: family × shape, every child, every basis function (kernel evaluation) -/

/-! ### the finite table: family × shape, every child, every basis function (kernel evaluation) -/

theorem nested_L1_H1 : nestedRefB FeatModel.Gen.BasisH1.l1 .H 1 = true := by decide +kernel
theorem nested_L2_H1 : nestedRefB FeatModel.Gen.BasisH1.l2 .H 1 = true := by decide +kernel
theorem nested_L1_H2 : nestedRefB FeatModel.Gen.BasisH2.l1 .H 2 = true := by decide +kernel
theorem nested_L2_H2 : nestedRefB FeatModel.Gen.BasisH2.l2 .H 2 = true := by decide +kernel
theorem nested_L1_S2 : nestedRefB FeatModel.Gen.BasisS2.l1 .S 2 = true := by decide +kernel
theorem nested_L2_S2 : nestedRefB FeatModel.Gen.BasisS2.l2 .S 2 = true := by decide +kernel

theorem nested_L1_H3_nodal : nodalB FeatModel.Gen.BasisH3.l1 .H 3 = true := by decide +kernel
theorem nested_L1_H3_c0 : nestedChildB FeatModel.Gen.BasisH3.l1 .H 3 0 = true := by decide +kernel
theorem nested_L1_H3_c1 : nestedChildB FeatModel.Gen.BasisH3.l1 .H 3 1 = true := by decide +kernel
theorem nested_L1_H3_c2 : nestedChildB FeatModel.Gen.BasisH3.l1 .H 3 2 = true := by decide +kernel
theorem nested_L1_H3_c3 : nestedChildB FeatModel.Gen.BasisH3.l1 .H 3 3 = true := by decide +kernel
theorem nested_L1_H3_c4 : nestedChildB FeatModel.Gen.BasisH3.l1 .H 3 4 = true := by decide +kernel
theorem nested_L1_H3_c5 : nestedChildB FeatModel.Gen.BasisH3.l1 .H 3 5 = true := by decide +kernel
theorem nested_L1_H3_c6 : nestedChildB FeatModel.Gen.BasisH3.l1 .H 3 6 = true := by decide +kernel
theorem nested_L1_H3_c7 : nestedChildB FeatModel.Gen.BasisH3.l1 .H 3 7 = true := by decide +kernel

theorem nested_L1_H3 : nestedRefB FeatModel.Gen.BasisH3.l1 .H 3 = true := by
  unfold nestedRefB
  rw [nested_L1_H3_nodal, Bool.true_and, List.all_eq_true]
  intro c hc
  have hc' : c < 8 := by simpa [numChildren] using List.mem_range.1 hc
  interval_cases c
  · exact nested_L1_H3_c0
  · exact nested_L1_H3_c1
  · exact nested_L1_H3_c2
  · exact nested_L1_H3_c3
  · exact nested_L1_H3_c4
  · exact nested_L1_H3_c5
  · exact nested_L1_H3_c6
  · exact nested_L1_H3_c7

end C18L
