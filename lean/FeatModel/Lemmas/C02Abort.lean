/-
C02: abort freedom.  `Mat.failure` (read off the operand alone) classifies the outcome of `Mat.step` exactly; the code
as it is (`Mat.stepCode`) yields a container exactly under `Mat.pre`, aborts exactly on D10 / D7 / wrong permutation
size and crashes exactly on D5; under the conjunction of the per-step preconditions (`Mat.runPre`) a chain
runs through (no abort, no crash, no missing member) and `chain_spec` applies.
-/
import FeatModel.Model.LA.Chain
import FeatModel.Lemmas.C02ChainSpec
open FeatModel FeatModel.LA

namespace C02L
namespace AbortAux

variable {α : Type}

theorem cscr_toCsr_none_iff [Zero α] (B : Cscr α) : B.toCsr = none ↔ B.usedElements = 0 := by
  unfold Cscr.toCsr
  by_cases h1 : B.usedElements = 0 <;> simp [h1]

theorem csr_toBanded_none_iff [Zero α] (A : Csr α) : A.toBanded = none ↔ A.usedElements = 0 := by
  unfold Csr.toBanded
  by_cases h1 : A.usedElements = 0 <;> simp [h1]

theorem csr_permute_none_iff [Zero α] (A : Csr α) (p q : Array Nat) :
    A.permute p q = none ↔ ¬(p.size = 0 ∧ q.size = 0) ∧ (p.size ≠ A.rows ∨ q.size ≠ A.cols) := by
  unfold Csr.permute
  by_cases h1 : p.size = 0 ∧ q.size = 0
  · rw [if_pos h1]; exact ⟨fun h => (by cases h), fun h => absurd h1 h.1⟩
  · rw [if_neg h1]
    by_cases h2 : p.size ≠ A.rows ∨ q.size ≠ A.cols
    · rw [if_pos h2]; exact ⟨fun _ => ⟨h1, h2⟩, fun _ => rfl⟩
    · rw [if_neg h2]
      by_cases h3 : A.isArrayless = true
      · rw [if_pos h3]; exact ⟨fun h => (by cases h), fun h => absurd h.2 h2⟩
      · rw [if_neg h3]; exact ⟨fun h => (by cases h), fun h => absurd h.2 h2⟩

/-- a chain in the code as it is: `none` on any outcome of `stepCode` other than a container -/
def runCode [Zero α] : List Op → Mat α → Option (Mat α)
  | [], m => some m
  | o :: os, m => match m.stepCode o with
    | .ok m' => runCode os m'
    | _ => none

theorem failure_abortD10_iff (m : Mat α) (o : Op) :
    m.failure o = some .abortD10 ↔ ∃ B, m = .cscr B ∧ o = .tocsr ∧ B.usedElements = 0 := by
  cases o <;> cases m <;> simp only [Mat.failure] <;> (try split) <;> (try split) <;> simp_all

theorem failure_abortD7_iff (m : Mat α) (o : Op) :
    m.failure o = some .abortD7 ↔ ∃ A, m = .csr A ∧ o = .tobanded ∧ A.usedElements = 0 := by
  cases o <;> cases m <;> simp only [Mat.failure] <;> (try split) <;> (try split) <;> simp_all

theorem failure_abortPermSize_iff (m : Mat α) (o : Op) :
    m.failure o = some .abortPermSize ↔
      ∃ A p q, m = .csr A ∧ o = .perm p q ∧ ¬(p.size = 0 ∧ q.size = 0) ∧ (p.size ≠ A.rows ∨ q.size ≠ A.cols) := by
  cases o <;> cases m <;> simp only [Mat.failure] <;> (try split) <;> (try split) <;> simp_all

theorem failure_crashD5_iff (m : Mat α) (o : Op) :
    m.failure o = some .crashD5 ↔ ∃ A, m = .csr A ∧ o = .graph ∧ A.usedElements = 0 ∧ 0 < A.rows := by
  cases o <;> cases m <;> simp only [Mat.failure] <;> (try split) <;> (try split) <;> simp_all

end AbortAux
open AbortAux

variable {α : Type}

theorem step_classify [Zero α] (m : Mat α) (o : Op) :
    (m.step o = .abort ↔ m.failure o = some .abortD10 ∨ m.failure o = some .abortD7 ∨
      m.failure o = some .abortPermSize) ∧
    (m.step o = .bad ↔ m.failure o = some .notApplicable) ∧
    ((∃ m', m.step o = .ok m') ↔ m.failure o = none ∨ m.failure o = some .crashD5) := by
  cases o <;> cases m <;> simp only [Mat.step, Mat.failure]
  all_goals first
    | (refine ⟨?_, ?_, ?_⟩ <;> simp; done)
    | skip
  case tocsr.cscr B =>
    have hn := cscr_toCsr_none_iff B
    by_cases hc : B.usedElements = 0
    · rw [hn.2 hc, if_pos hc]; simp
    · rw [if_neg hc]
      cases h : B.toCsr with
      | none => exact absurd (hn.1 h) hc
      | some A => simp
  case tobanded.csr A =>
    have hn := csr_toBanded_none_iff A
    by_cases hc : A.usedElements = 0
    · rw [hn.2 hc, if_pos hc]; simp
    · rw [if_neg hc]
      cases h : A.toBanded with
      | none => exact absurd (hn.1 h) hc
      | some B => simp
  case graph.csr A =>
    by_cases hc : A.usedElements = 0 ∧ 0 < A.rows
    · rw [if_pos hc]; simp
    · rw [if_neg hc]; simp
  case perm.csr p q A =>
    have hn := csr_permute_none_iff A p q
    by_cases h1 : p.size = 0 ∧ q.size = 0
    · rw [if_pos h1]
      cases h : A.permute p q with
      | none => exact absurd h1 (hn.1 h).1
      | some B => simp
    · rw [if_neg h1]
      by_cases h2 : p.size ≠ A.rows ∨ q.size ≠ A.cols
      · rw [hn.2 ⟨h1, h2⟩, if_pos h2]; simp
      · rw [if_neg h2]
        cases h : A.permute p q with
        | none => exact absurd (hn.1 h).2 h2
        | some B => simp

/-! ### the code as it is -/

namespace AbortAux

/-- the four outcomes of `stepCode`, each with the failure class and the outcome of `step` -/
theorem stepCode_cases [Zero α] (m : Mat α) (o : Op) :
    (m.failure o = none ∧ ∃ m', m.step o = .ok m' ∧ m.stepCode o = .ok m') ∨
    (m.failure o = some .crashD5 ∧ m.stepCode o = .crash ∧ ∃ m', m.step o = .ok m') ∨
    ((m.failure o = some .abortD10 ∨ m.failure o = some .abortD7 ∨ m.failure o = some .abortPermSize) ∧
      m.stepCode o = .abort ∧ m.step o = .abort) ∨
    (m.failure o = some .notApplicable ∧ m.stepCode o = .bad ∧ m.step o = .bad) := by
  obtain ⟨ha, hb, hk⟩ := step_classify m o
  unfold Mat.stepCode
  cases hf : m.failure o with
  | none =>
    obtain ⟨m', h⟩ := hk.2 (Or.inl hf)
    exact Or.inl ⟨rfl, m', h, by simp [h]⟩
  | some f =>
    cases f with
    | abortD10 =>
      have h := ha.2 (Or.inl hf)
      exact Or.inr (Or.inr (Or.inl ⟨Or.inl rfl, by simp [h], h⟩))
    | abortD7 =>
      have h := ha.2 (Or.inr (Or.inl hf))
      exact Or.inr (Or.inr (Or.inl ⟨Or.inr (Or.inl rfl), by simp [h], h⟩))
    | abortPermSize =>
      have h := ha.2 (Or.inr (Or.inr hf))
      exact Or.inr (Or.inr (Or.inl ⟨Or.inr (Or.inr rfl), by simp [h], h⟩))
    | crashD5 => exact Or.inr (Or.inl ⟨rfl, rfl, hk.2 (Or.inr hf)⟩)
    | notApplicable =>
      have h := hb.2 hf
      exact Or.inr (Or.inr (Or.inr ⟨rfl, by simp [h], h⟩))

end AbortAux

/-- the code yields a container exactly under the per-step precondition -/
theorem stepCode_ok_iff [Zero α] (m : Mat α) (o : Op) : (∃ m', m.stepCode o = .ok m') ↔ m.pre o = true := by
  unfold Mat.pre
  rcases stepCode_cases m o with ⟨hf, m', _, hc⟩ | ⟨hf, hc, _⟩ | ⟨hf, hc, _⟩ | ⟨hf, hc, _⟩
  · rw [hf, hc]; simp
  · rw [hf, hc]; simp
  · rw [hc]; rcases hf with hf | hf | hf <;> rw [hf] <;> simp
  · rw [hf, hc]; simp

/-- … and that container is the one of `step` -/
theorem stepCode_ok_eq_step [Zero α] (m m' : Mat α) (o : Op) (h : m.stepCode o = .ok m') : m.step o = .ok m' := by
  rcases stepCode_cases m o with ⟨_, m1, hs, hc⟩ | ⟨_, hc, _⟩ | ⟨_, hc, _⟩ | ⟨_, hc, _⟩
  · rw [hc] at h; cases h; exact hs
  · rw [hc] at h; cases h
  · rw [hc] at h; cases h
  · rw [hc] at h; cases h

/-- the code aborts exactly on D10 (an entry-free CSCR matrix to CSR), D7 (an entry-free CSR matrix to banded) and a
    permutation of the wrong size -/
theorem stepCode_abort_iff [Zero α] (m : Mat α) (o : Op) :
    m.stepCode o = .abort ↔
      (∃ B, m = .cscr B ∧ o = .tocsr ∧ B.usedElements = 0) ∨
      (∃ A, m = .csr A ∧ o = .tobanded ∧ A.usedElements = 0) ∨
      (∃ A p q, m = .csr A ∧ o = .perm p q ∧ ¬(p.size = 0 ∧ q.size = 0) ∧
        (p.size ≠ A.rows ∨ q.size ≠ A.cols)) := by
  rw [← failure_abortD10_iff, ← failure_abortD7_iff, ← failure_abortPermSize_iff]
  rcases stepCode_cases m o with ⟨hf, m', _, hc⟩ | ⟨hf, hc, _⟩ | ⟨hf, hc, _⟩ | ⟨hf, hc, _⟩
  · rw [hf, hc]; simp
  · rw [hf, hc]; simp
  · rw [hc]; exact ⟨fun _ => hf, fun _ => rfl⟩
  · rw [hf, hc]; simp

/-- the code crashes exactly on D5: the graph rebuild of a CSR matrix without entries and with rows -/
theorem stepCode_crash_iff [Zero α] (m : Mat α) (o : Op) :
    m.stepCode o = .crash ↔ ∃ A, m = .csr A ∧ o = .graph ∧ A.usedElements = 0 ∧ 0 < A.rows := by
  rw [← failure_crashD5_iff]
  rcases stepCode_cases m o with ⟨hf, m', _, hc⟩ | ⟨hf, hc, _⟩ | ⟨hf, hc, _⟩ | ⟨hf, hc, _⟩
  · rw [hf, hc]; simp
  · rw [hc]; exact ⟨fun _ => hf, fun _ => rfl⟩
  · rw [hc]; rcases hf with hf | hf | hf <;> rw [hf] <;> simp
  · rw [hf, hc]; simp

/-! ### chains under the conjunction of the per-step preconditions -/

/-- under `runPre` the chain runs through -/
theorem run_of_runPre [Zero α] (ops : List Op) (m : Mat α) (h : m.runPre ops = true) :
    ∃ m', m.run ops = some m' := by
  induction ops generalizing m with
  | nil => exact ⟨m, rfl⟩
  | cons o os ih =>
    simp only [Mat.runPre, Bool.and_eq_true] at h
    obtain ⟨_, h2⟩ := h
    simp only [Mat.run]
    cases hs : m.step o with
    | ok m1 => rw [hs] at h2; exact ih m1 h2
    | abort => rw [hs] at h2; cases h2
    | bad => rw [hs] at h2; cases h2

/-- `runPre` says exactly: the chain runs through, and every container met on the way satisfies the precondition of
    the operation applied to it -/
theorem runPre_iff [Zero α] (ops : List Op) (m : Mat α) :
    m.runPre ops = true ↔
      (∃ m', m.run ops = some m') ∧
      ∀ (k : Nat) (hk : k < ops.length) (mk : Mat α), m.run (ops.take k) = some mk → mk.pre ops[k] = true := by
  induction ops generalizing m with
  | nil => simp [Mat.runPre, Mat.run]
  | cons o os ih =>
    simp only [Mat.runPre, Bool.and_eq_true]
    constructor
    · rintro ⟨hp, h2⟩
      cases hs : m.step o with
      | ok m1 =>
        rw [hs] at h2
        obtain ⟨hr, hall⟩ := (ih m1).1 h2
        refine ⟨by simpa only [Mat.run, hs] using hr, ?_⟩
        intro k hk mk hrun
        cases k with
        | zero =>
          simp only [List.take_zero, Mat.run, Option.some.injEq] at hrun
          subst hrun; simpa using hp
        | succ k =>
          simp only [List.take_succ_cons, Mat.run, hs] at hrun
          simpa using hall k (by simpa using hk) mk hrun
      | abort => rw [hs] at h2; cases h2
      | bad => rw [hs] at h2; cases h2
    · rintro ⟨⟨m', hr⟩, hall⟩
      cases hs : m.step o with
      | ok m1 =>
        simp only [Mat.run, hs] at hr
        refine ⟨hall 0 (Nat.succ_pos _) m rfl, ?_⟩
        refine (ih m1).2 ⟨⟨m', hr⟩, ?_⟩
        intro k hk mk hrun
        have := hall (k + 1) (by simpa using hk) mk (by simpa only [List.take_succ_cons, Mat.run, hs] using hrun)
        simpa using this
      | abort => simp only [Mat.run, hs] at hr; cases hr
      | bad => simp only [Mat.run, hs] at hr; cases hr

/-- the converse of `run_of_runPre` -/
theorem runPre_of_run_pre [Zero α] (ops : List Op) (m m' : Mat α) (hrun : m.run ops = some m')
    (hpre : ∀ (k : Nat) (hk : k < ops.length) (mk : Mat α), m.run (ops.take k) = some mk → mk.pre ops[k] = true) :
    m.runPre ops = true :=
  (runPre_iff ops m).2 ⟨⟨m', hrun⟩, hpre⟩

/-- **C02 chain theorem, total form**: on a valid container, under the side conditions of the permutations and the
    per-step preconditions, the chain yields a valid container with the textbook meaning -/
theorem chain_total [Zero α] [Add α] (h0 : (0 : α) + 0 = 0) (ops : List Op) (m : Mat α)
    (hv : m.valid = true) (hok : chainOk ops (⟨m.rows, m.cols, m.entry⟩ : Sem α) = true)
    (hpre : m.runPre ops = true) :
    ∃ m', m.run ops = some m' ∧ m'.valid = true ∧
      m'.rows = (semRun ops ⟨m.rows, m.cols, m.entry⟩).rows ∧
      m'.cols = (semRun ops ⟨m.rows, m.cols, m.entry⟩).cols ∧
      ∀ i j, i < m'.rows → j < m'.cols → m'.entry i j = (semRun ops ⟨m.rows, m.cols, m.entry⟩).f i j := by
  obtain ⟨m', hrun⟩ := run_of_runPre ops m hpre
  exact ⟨m', hrun, chain_spec h0 ops m m' hv hok hrun⟩

/-- along a chain satisfying `runPre` every step of the code as it is yields a container (no abort, no crash, no
    missing member), and it is the container of `step` -/
theorem runCode_eq_run_of_runPre [Zero α] (ops : List Op) (m : Mat α) (h : m.runPre ops = true) :
    runCode ops m = m.run ops := by
  induction ops generalizing m with
  | nil => rfl
  | cons o os ih =>
    simp only [Mat.runPre, Bool.and_eq_true] at h
    obtain ⟨hp, h2⟩ := h
    obtain ⟨m1, hc⟩ := (stepCode_ok_iff m o).2 hp
    have hs := stepCode_ok_eq_step m m1 o hc
    rw [hs] at h2
    simp only [runCode, Mat.run, hc, hs]
    exact ih m1 h2

/-- the code as it is runs through exactly under `runPre` -/
theorem runCode_some_iff [Zero α] (ops : List Op) (m : Mat α) :
    (∃ m', runCode ops m = some m') ↔ m.runPre ops = true := by
  constructor
  · induction ops generalizing m with
    | nil => intro _; rfl
    | cons o os ih =>
      rintro ⟨m', h⟩
      simp only [runCode] at h
      cases hc : m.stepCode o with
      | ok m1 =>
        rw [hc] at h
        have hs := stepCode_ok_eq_step m m1 o hc
        simp only [Mat.runPre, hs, Bool.and_eq_true]
        exact ⟨(stepCode_ok_iff m o).1 ⟨m1, hc⟩, ih m1 ⟨m', h⟩⟩
      | abort => rw [hc] at h; cases h
      | crash => rw [hc] at h; cases h
      | bad => rw [hc] at h; cases h
  · intro h
    rw [runCode_eq_run_of_runPre ops m h]
    exact run_of_runPre ops m h

/-- code-level total form: under `runPre` the code as it is yields the valid container with the textbook meaning -/
theorem chain_total_code [Zero α] [Add α] (h0 : (0 : α) + 0 = 0) (ops : List Op) (m : Mat α)
    (hv : m.valid = true) (hok : chainOk ops (⟨m.rows, m.cols, m.entry⟩ : Sem α) = true)
    (hpre : m.runPre ops = true) :
    ∃ m', runCode ops m = some m' ∧ m'.valid = true ∧
      m'.rows = (semRun ops ⟨m.rows, m.cols, m.entry⟩).rows ∧
      m'.cols = (semRun ops ⟨m.rows, m.cols, m.entry⟩).cols ∧
      ∀ i j, i < m'.rows → j < m'.cols → m'.entry i j = (semRun ops ⟨m.rows, m.cols, m.entry⟩).f i j := by
  rw [runCode_eq_run_of_runPre ops m hpre]
  exact chain_total h0 ops m hv hok hpre

end C02L
