import FeatModel.Model.LA.Clone
/-!
C02: `Container::clone(other, mode)` on the small heap model: every mode yields a container that reads the same
values; the sharing table (which arrays are the same memory) and value independence / aliasing per mode.
Core Lean only.
-/
open FeatModel FeatModel.LA
namespace C02L

variable {α : Type}

/-- all ids of the container are valid in the heap -/
def Handle.okIn (c : Handle) (h : Heap α) : Prop :=
  (∀ id ∈ c.vals, id < h.vals.size) ∧ (∀ id ∈ c.idxs, id < h.idxs.size)

/-! ### 1. `dupVals` / `dupIdxs` only push -/

theorem dupVals_idxs (h : Heap α) (ids : List Nat) : (h.dupVals ids).1.idxs = h.idxs := by
  induction ids generalizing h with
  | nil => rfl
  | cons id ids ih => simp only [Heap.dupVals, Heap.dupVal]; rw [ih]

theorem dupIdxs_vals (h : Heap α) (ids : List Nat) : (h.dupIdxs ids).1.vals = h.vals := by
  induction ids generalizing h with
  | nil => rfl
  | cons id ids ih => simp only [Heap.dupIdxs, Heap.dupIdx]; rw [ih]

theorem dupVals_size (h : Heap α) (ids : List Nat) :
    (h.dupVals ids).1.vals.size = h.vals.size + ids.length := by
  induction ids generalizing h with
  | nil => rfl
  | cons id ids ih =>
    simp only [Heap.dupVals, Heap.dupVal]; rw [ih]
    simp only [Array.size_push, List.length_cons]; omega

theorem dupIdxs_size (h : Heap α) (ids : List Nat) :
    (h.dupIdxs ids).1.idxs.size = h.idxs.size + ids.length := by
  induction ids generalizing h with
  | nil => rfl
  | cons id ids ih =>
    simp only [Heap.dupIdxs, Heap.dupIdx]; rw [ih]
    simp only [Array.size_push, List.length_cons]; omega

theorem dupVals_old (h : Heap α) (ids : List Nat) (i : Nat) (hi : i < h.vals.size) :
    (h.dupVals ids).1.vals[i]? = h.vals[i]? := by
  induction ids generalizing h with
  | nil => rfl
  | cons id ids ih =>
    simp only [Heap.dupVals, Heap.dupVal]
    rw [ih _ (by simp only [Array.size_push]; omega)]
    simp only [Array.getElem?_push]
    rw [if_neg (by omega)]

theorem dupIdxs_old (h : Heap α) (ids : List Nat) (i : Nat) (hi : i < h.idxs.size) :
    (h.dupIdxs ids).1.idxs[i]? = h.idxs[i]? := by
  induction ids generalizing h with
  | nil => rfl
  | cons id ids ih =>
    simp only [Heap.dupIdxs, Heap.dupIdx]
    rw [ih _ (by simp only [Array.size_push]; omega)]
    simp only [Array.getElem?_push]
    rw [if_neg (by omega)]

theorem dupVals_ids (h : Heap α) (ids : List Nat) :
    (h.dupVals ids).2 = List.range' h.vals.size ids.length := by
  induction ids generalizing h with
  | nil => rfl
  | cons id ids ih =>
    simp only [Heap.dupVals, Heap.dupVal]; rw [ih]
    simp only [Array.size_push, List.length_cons, List.range'_succ]

theorem dupIdxs_ids (h : Heap α) (ids : List Nat) :
    (h.dupIdxs ids).2 = List.range' h.idxs.size ids.length := by
  induction ids generalizing h with
  | nil => rfl
  | cons id ids ih =>
    simp only [Heap.dupIdxs, Heap.dupIdx]; rw [ih]
    simp only [Array.size_push, List.length_cons, List.range'_succ]

/-- the `t`-th new value array is a copy of the array `ids[t]` -/
theorem dupVals_new (h : Heap α) (ids : List Nat) (t : Nat) (ht : t < ids.length)
    (hid : ∀ id ∈ ids, id < h.vals.size) :
    (h.dupVals ids).1.vals[h.vals.size + t]? = h.vals[ids[t]]? := by
  induction ids generalizing h t with
  | nil => simp at ht
  | cons id ids ih =>
    have hidlt : id < h.vals.size := hid id (List.mem_cons_self ..)
    simp only [Heap.dupVals, Heap.dupVal]
    cases t with
    | zero =>
      rw [dupVals_old _ _ _ (by simp only [Array.size_push]; omega)]
      simp only [Nat.add_zero, Array.getElem?_push, if_pos, List.getElem_cons_zero,
        Array.getD_eq_getD_getElem?, Array.getElem?_eq_getElem hidlt, Option.getD_some]
    | succ t =>
      have ht' : t < ids.length := by simpa using ht
      have := ih (h := { h with vals := h.vals.push (h.vals.getD id #[]) }) t ht' (by
        intro j hj; have := hid j (List.mem_cons_of_mem _ hj)
        simp only [Array.size_push]; omega)
      simp only [Array.size_push] at this
      rw [show h.vals.size + (t + 1) = h.vals.size + 1 + t by omega, this]
      have hlt : ids[t] < h.vals.size := hid _ (List.mem_cons_of_mem _ (List.getElem_mem ht'))
      simp only [List.getElem_cons_succ, Array.getElem?_push]
      rw [if_neg (by omega)]

/-! ### 2. what `clone` does to the heap and which ids it returns -/

theorem clone_vals_old (h : Heap α) (c : Handle) (m : CloneMode) (i : Nat) (hi : i < h.vals.size) :
    (h.clone c m).1.vals[i]? = h.vals[i]? := by
  cases m
  · rfl
  · simp only [Heap.clone]; exact dupVals_old _ _ _ hi
  · simp only [Heap.clone]; exact dupVals_old _ _ _ hi
  · simp only [Heap.clone]
    rw [dupVals_old _ _ _ (by rw [dupIdxs_vals]; exact hi), dupIdxs_vals]
  · simp only [Heap.clone]
    rw [dupVals_old _ _ _ (by rw [dupIdxs_vals]; exact hi), dupIdxs_vals]

theorem clone_snd_vals (h : Heap α) (c : Handle) (m : CloneMode) (hm : m ≠ .shallow) :
    (h.clone c m).2.vals = List.range' h.vals.size c.vals.length := by
  cases m
  · exact absurd rfl hm
  · simp only [Heap.clone]; exact dupVals_ids _ _
  · simp only [Heap.clone]; exact dupVals_ids _ _
  · simp only [Heap.clone]; rw [dupVals_ids, dupIdxs_vals]
  · simp only [Heap.clone]; rw [dupVals_ids, dupIdxs_vals]

theorem clone_vals_new (h : Heap α) (c : Handle) (hok : Handle.okIn c h) (m : CloneMode) (hm : m ≠ .shallow)
    (t : Nat) (ht : t < c.vals.length) :
    (h.clone c m).1.vals[h.vals.size + t]? = h.vals[c.vals[t]]? := by
  cases m
  · exact absurd rfl hm
  · simp only [Heap.clone]; exact dupVals_new _ _ _ ht hok.1
  · simp only [Heap.clone]; exact dupVals_new _ _ _ ht hok.1
  · simp only [Heap.clone]
    have := dupVals_new (h.dupIdxs c.idxs).1 c.vals t ht (by rw [dupIdxs_vals]; exact hok.1)
    rw [dupIdxs_vals] at this
    exact this
  · simp only [Heap.clone]
    have := dupVals_new (h.dupIdxs c.idxs).1 c.vals t ht (by rw [dupIdxs_vals]; exact hok.1)
    rw [dupIdxs_vals] at this
    exact this

theorem clone_snd_idxs_deep (h : Heap α) (c : Handle) :
    (h.clone c .deep).2.idxs = List.range' h.idxs.size c.idxs.length := by
  simp only [Heap.clone]; exact dupIdxs_ids _ _

theorem clone_snd_idxs_allocate (h : Heap α) (c : Handle) :
    (h.clone c .allocate).2.idxs = List.range' h.idxs.size c.idxs.length := by
  simp only [Heap.clone]; exact dupIdxs_ids _ _

/-! ### 3. the clauses -/

section
variable (h : Heap α) (c : Handle)

theorem read_nil (ci : List Nat) (k : Nat) (dflt : α) : h.read ⟨[], ci⟩ k dflt = dflt := rfl

theorem read_cons (id : Nat) (r ci : List Nat) (k : Nat) (dflt : α) :
    h.read ⟨id :: r, ci⟩ k dflt = (h.vals[id]?.getD #[]).getD k dflt := by
  simp only [Heap.read, Array.getD_eq_getD_getElem?]

/-- shape of a non-shallow clone of a container with a value array -/
theorem clone_cons (id : Nat) (r ci : List Nat) (hok : Handle.okIn ⟨id :: r, ci⟩ h) (m : CloneMode)
    (hm : m ≠ .shallow) :
    id < h.vals.size ∧
    (h.clone ⟨id :: r, ci⟩ m).2.vals = h.vals.size :: List.range' (h.vals.size + 1) r.length ∧
    (h.clone ⟨id :: r, ci⟩ m).1.vals[h.vals.size]? = h.vals[id]? ∧
    (h.clone ⟨id :: r, ci⟩ m).1.vals[id]? = h.vals[id]? := by
  have hid : id < h.vals.size := hok.1 id (List.mem_cons_self ..)
  refine ⟨hid, ?_, ?_, clone_vals_old _ _ _ _ hid⟩
  · rw [clone_snd_vals _ _ _ hm]; simp only [List.length_cons, List.range'_succ]
  · have := clone_vals_new h ⟨id :: r, ci⟩ hok m hm 0 (by simp)
    simpa using this

theorem clone_nil (ci : List Nat) (m : CloneMode) (hm : m ≠ .shallow) :
    (h.clone ⟨[], ci⟩ m).2.vals = [] := by
  rw [clone_snd_vals _ _ _ hm]; rfl

end

section
variable (h : Heap α)

theorem read_of_nil {c : Handle} (hc : c.vals = []) (k : Nat) (dflt : α) : h.read c k dflt = dflt := by
  simp only [Heap.read, hc]

theorem read_of_cons {c : Handle} {id : Nat} {r : List Nat} (hc : c.vals = id :: r) (k : Nat) (dflt : α) :
    h.read c k dflt = (h.vals[id]?.getD #[]).getD k dflt := by
  simp only [Heap.read, hc, Array.getD_eq_getD_getElem?]

theorem write_of_nil {c : Handle} (hc : c.vals = []) (k : Nat) (v : α) : h.write c k v = h := by
  simp only [Heap.write, hc]

theorem write_of_cons {c : Handle} {id : Nat} {r : List Nat} (hc : c.vals = id :: r) (k : Nat) (v : α) :
    (h.write c k v).vals = h.vals.modify id (·.setIfInBounds k v) := by
  simp only [Heap.write, hc]

theorem valSize_of_cons {c : Handle} {id : Nat} {r : List Nat} (hc : c.vals = id :: r) :
    h.valSize c = (h.vals[id]?.getD #[]).size := by
  simp only [Heap.valSize, hc, Array.getD_eq_getD_getElem?]

/-- a write through a container whose first value array is `i` is invisible through one whose first is `j ≠ i` -/
theorem read_write_ne {c d : Handle} {i j : Nat} {r r' : List Nat} (hc : c.vals = i :: r) (hd : d.vals = j :: r')
    (hij : i ≠ j) (k k' : Nat) (v dflt : α) : (h.write c k v).read d k' dflt = h.read d k' dflt := by
  rw [read_of_cons _ hd, read_of_cons _ hd, write_of_cons _ hc, Array.getElem?_modify, if_neg hij]

/-- a write through a container is seen through any container with the same first value array -/
theorem read_write_same {c d : Handle} {i : Nat} {r r' : List Nat} (hc : c.vals = i :: r) (hd : d.vals = i :: r')
    (k : Nat) (v dflt : α) (hk : k < h.valSize c) : (h.write c k v).read d k dflt = v := by
  rw [valSize_of_cons _ hc] at hk
  rw [read_of_cons _ hd, write_of_cons _ hc, Array.getElem?_modify, if_pos rfl]
  cases hi : h.vals[i]? with
  | none => rw [hi] at hk; simp at hk
  | some a =>
    rw [hi] at hk
    simp only [Option.getD_some] at hk
    simp only [Option.map_some, Option.getD_some, Array.getD_eq_getD_getElem?, Array.getElem?_setIfInBounds,
      if_pos hk, if_true]

end

section
variable (h : Heap α) (c : Handle) (hok : Handle.okIn c h)
include hok

/-- every mode: the clone reads the same values as the source -/
theorem clone_reads_same (m : CloneMode) (k : Nat) (dflt : α) :
    (h.clone c m).1.read (h.clone c m).2 k dflt = h.read c k dflt := by
  by_cases hm : m = .shallow
  · subst hm; rfl
  obtain ⟨cv, ci⟩ := c
  cases cv with
  | nil => rw [read_of_nil _ (clone_nil h ci m hm), read_nil]
  | cons id r =>
    obtain ⟨_, hd, hnew, _⟩ := clone_cons h id r ci hok m hm
    rw [read_of_cons _ hd, read_cons, hnew]

/-- ... and the source is unchanged by cloning -/
theorem clone_source_unchanged (m : CloneMode) (k : Nat) (dflt : α) :
    (h.clone c m).1.read c k dflt = h.read c k dflt := by
  by_cases hm : m = .shallow
  · subst hm; rfl
  obtain ⟨cv, ci⟩ := c
  cases cv with
  | nil => rfl
  | cons id r =>
    obtain ⟨_, _, _, hold⟩ := clone_cons h id r ci hok m hm
    rw [read_cons, read_cons, hold]

omit hok in
theorem clone_shallow_shares : (h.clone c .shallow).2 = c ∧ (h.clone c .shallow).1 = h := ⟨rfl, rfl⟩

omit hok in
theorem clone_weak_shares_idx : (h.clone c .weak).2.idxs = c.idxs ∧ (h.clone c .layout).2.idxs = c.idxs :=
  ⟨rfl, rfl⟩

omit hok in
/-- fresh value ids (weak, layout, deep, allocate): disjoint from every id valid in `h` -/
theorem clone_fresh_vals (m : CloneMode) (hm : m ≠ .shallow) : ∀ id ∈ (h.clone c m).2.vals, h.vals.size ≤ id := by
  intro id hid
  rw [clone_snd_vals _ _ _ hm, List.mem_range'_1] at hid
  exact hid.1

omit hok in
theorem clone_weak_fresh_vals : ∀ id ∈ (h.clone c .weak).2.vals, h.vals.size ≤ id :=
  clone_fresh_vals h c .weak (by decide)

omit hok in
theorem clone_layout_fresh_vals : ∀ id ∈ (h.clone c .layout).2.vals, h.vals.size ≤ id :=
  clone_fresh_vals h c .layout (by decide)

omit hok in
theorem clone_deep_fresh_vals : ∀ id ∈ (h.clone c .deep).2.vals, h.vals.size ≤ id :=
  clone_fresh_vals h c .deep (by decide)

omit hok in
theorem clone_deep_fresh_idx : ∀ id ∈ (h.clone c .deep).2.idxs, h.idxs.size ≤ id := by
  intro id hid
  rw [clone_snd_idxs_deep, List.mem_range'_1] at hid
  exact hid.1

omit hok in
theorem clone_allocate_fresh_vals : ∀ id ∈ (h.clone c .allocate).2.vals, h.vals.size ≤ id :=
  clone_fresh_vals h c .allocate (by decide)

omit hok in
theorem clone_allocate_fresh_idx : ∀ id ∈ (h.clone c .allocate).2.idxs, h.idxs.size ≤ id := by
  intro id hid
  rw [clone_snd_idxs_allocate, List.mem_range'_1] at hid
  exact hid.1

omit hok in
/-- `Allocate`: all arrays of the clone are fresh -/
theorem clone_allocate_fresh :
    (∀ id ∈ (h.clone c .allocate).2.vals, h.vals.size ≤ id) ∧
    (∀ id ∈ (h.clone c .allocate).2.idxs, h.idxs.size ≤ id) :=
  ⟨clone_allocate_fresh_vals h c, clone_allocate_fresh_idx h c⟩

/-- value independence (deep, allocate, weak, layout): a write through either side is invisible on the other side -/
theorem clone_independent (m : CloneMode) (hm : m ≠ .shallow) (k k' : Nat) (v dflt : α) :
    let h1 := (h.clone c m).1; let d := (h.clone c m).2
    (h1.write c k v).read d k' dflt = h1.read d k' dflt ∧ (h1.write d k v).read c k' dflt = h1.read c k' dflt := by
  intro h1 d
  obtain ⟨cv, ci⟩ := c
  cases cv with
  | nil =>
    have hd : d.vals = [] := clone_nil h ci m hm
    exact ⟨by rw [write_of_nil _ rfl], by rw [write_of_nil _ hd]⟩
  | cons id r =>
    obtain ⟨hid, hd, _, _⟩ := clone_cons h id r ci hok m hm
    exact ⟨read_write_ne _ rfl hd (by omega) .., read_write_ne _ hd rfl (by omega) ..⟩

omit hok in
/-- aliasing (shallow): a write through either side is seen by the other -/
theorem clone_shallow_alias (k : Nat) (v dflt : α) (hk : k < h.valSize c) :
    let h1 := (h.clone c .shallow).1; let d := (h.clone c .shallow).2
    (h1.write c k v).read d k dflt = v ∧ (h1.write d k v).read c k dflt = v := by
  intro h1 d
  obtain ⟨cv, ci⟩ := c
  cases cv with
  | nil => simp [Heap.valSize] at hk
  | cons id r =>
    have := read_write_same h (c := ⟨id :: r, ci⟩) (d := ⟨id :: r, ci⟩) rfl rfl k v dflt hk
    exact ⟨this, this⟩

end

/-! ### 4. the four flags the harness prints -/

section
variable (h : Heap α) (c : Handle)

/-- a list of valid ids differs from a list of fresh ids (unless both are empty) -/
theorem ne_range'_of_lt (l : List Nat) (n : Nat) (hl : ∀ id ∈ l, id < n) :
    (!l.isEmpty && l == List.range' n l.length) = false := by
  cases l with
  | nil => rfl
  | cons a r =>
    have : a < n := hl a (List.mem_cons_self ..)
    have hne : (a == n) = false := by simp only [beq_eq_false_iff_ne, ne_eq]; omega
    simp only [List.length_cons, List.range'_succ, List.cons_beq_cons, hne, Bool.false_and, Bool.and_false]

theorem self_beq_flag (l : List Nat) : (!l.isEmpty && l == l) = !l.isEmpty := by
  simp only [beq_self_eq_true, Bool.and_true]

theorem cloneObservation_shallow [DecidableEq α] (mark dflt : α) :
    cloneObservation h c .shallow mark dflt =
      (!c.vals.isEmpty, !c.idxs.isEmpty, decide (0 < h.valSize c), decide (0 < h.valSize c)) := by
  unfold cloneObservation
  simp only [clone_shallow_shares, self_beq_flag]
  split
  · next hn => simp only [hn, Nat.lt_irrefl, decide_false]
  · next hn =>
    have hpos : 0 < h.valSize c := Nat.pos_of_ne_zero hn
    have h1 := (clone_shallow_alias h c 0 mark dflt hpos).1
    have h2 := (clone_shallow_alias h c (h.valSize c - 1) mark dflt (by omega)).2
    simp only [clone_shallow_shares] at h1 h2
    simp only [h1, h2, hpos, decide_true]

theorem cloneObservation_nonshallow [DecidableEq α] (hok : Handle.okIn c h) (m : CloneMode) (hm : m ≠ .shallow)
    (mark dflt : α) (hmark : ∀ k, h.read c k dflt ≠ mark) :
    cloneObservation h c m mark dflt =
      (false, !c.idxs.isEmpty && c.idxs == (h.clone c m).2.idxs, false, false) := by
  have hsv : (!c.vals.isEmpty && c.vals == (h.clone c m).2.vals) = false := by
    rw [clone_snd_vals _ _ _ hm]; exact ne_range'_of_lt _ _ hok.1
  unfold cloneObservation
  simp only [hsv]
  split
  · rfl
  · have h1 := (clone_independent h c hok m hm 0 0 mark dflt).1
    have h2 := (clone_independent h c hok m hm ((h.clone c m).1.valSize c - 1) ((h.clone c m).1.valSize c - 1)
      mark dflt).2
    rw [h1, h2, clone_reads_same h c hok, clone_source_unchanged h c hok]
    simp only [hmark, decide_false]

/-- the observation table.  `hok` (all ids of `c` valid in `h`) is needed for the non-shallow rows. -/
theorem cloneObservation_table [DecidableEq α] (hok : Handle.okIn c h) (m : CloneMode) (mark dflt : α)
    (hmark : ∀ k, h.read c k dflt ≠ mark) (hmd : dflt ≠ mark) :
    cloneObservation h c m mark dflt =
      match m with
      | .shallow => (!c.vals.isEmpty, !c.idxs.isEmpty, decide (0 < h.valSize c), decide (0 < h.valSize c))
      | .layout | .weak => (false, !c.idxs.isEmpty, false, false)
      | .deep | .allocate => (false, false, false, false) := by
  have _ := hmd
  cases m with
  | shallow => exact cloneObservation_shallow h c mark dflt
  | layout =>
    rw [cloneObservation_nonshallow h c hok .layout (by decide) mark dflt hmark, (clone_weak_shares_idx h c).2,
      self_beq_flag]
  | weak =>
    rw [cloneObservation_nonshallow h c hok .weak (by decide) mark dflt hmark, (clone_weak_shares_idx h c).1,
      self_beq_flag]
  | deep =>
    rw [cloneObservation_nonshallow h c hok .deep (by decide) mark dflt hmark, clone_snd_idxs_deep,
      ne_range'_of_lt _ _ hok.2]
  | allocate =>
    rw [cloneObservation_nonshallow h c hok .allocate (by decide) mark dflt hmark, clone_snd_idxs_allocate,
      ne_range'_of_lt _ _ hok.2]

end

end C02L
