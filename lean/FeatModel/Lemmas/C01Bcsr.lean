import FeatModel.Lemmas.C01Csr
import FeatModel.Model.LA.Bcsr
/-! BCSR: block products on the raw (pod) arrays as sums over the scalar dense meaning. -/
open Finset
namespace FeatModel.LA

section generic
variable {α : Type} [CommSemiring α]

/-- a sum over `n*m` pod indices is a double sum over (block, component) -/
theorem sum_range_mul (g : Nat → α) (m : Nat) : ∀ n,
    ∑ c ∈ range (n * m), g c = ∑ C ∈ range n, ∑ w ∈ range m, g (C * m + w)
  | 0 => by simp
  | n + 1 => by
    rw [Nat.succ_mul, Finset.sum_range_add, sum_range_mul g m n, Finset.sum_range_succ]

end generic

namespace Bcsr
variable {α : Type}

structure WF (A : Bcsr α) : Prop where
  size : A.rowPtr.size = A.rows + 1
  first : A.rowPtr.getD 0 0 = 0
  last : A.rowPtr.getD A.rows 0 = A.colInd.size
  valSize : A.val.size = A.colInd.size * A.bh * A.bw
  mono : ∀ i, i < A.rows → A.rowPtr.getD i 0 ≤ A.rowPtr.getD (i + 1) 0
  colLt : ∀ k, k < A.colInd.size → A.colInd.getD k 0 < A.cols

theorem wf_iff (A : Bcsr α) : A.wf = true ↔ A.WF := by
  constructor
  · intro h
    simp only [wf, Bool.and_eq_true, beq_iff_eq, List.all_eq_true, List.mem_range, decide_eq_true_eq,
      Array.all_eq_true] at h
    obtain ⟨⟨⟨⟨⟨h1, h2⟩, h3⟩, h4⟩, h5⟩, h6⟩ := h
    refine ⟨h1, h2, h3, h4, h5, ?_⟩
    intro k hk
    have := h6 k hk
    simpa [Array.getD, hk] using this
  · intro h
    simp only [wf, Bool.and_eq_true, beq_iff_eq, List.all_eq_true, List.mem_range, decide_eq_true_eq,
      Array.all_eq_true]
    refine ⟨⟨⟨⟨⟨h.size, h.first⟩, h.last⟩, h.valSize⟩, h.mono⟩, ?_⟩
    intro k hk
    have := h.colLt k hk
    simpa [Array.getD, hk] using this

theorem rowPtr_mono {A : Bcsr α} (h : A.WF) : ∀ j i, i ≤ j → j ≤ A.rows → A.rowPtr.getD i 0 ≤ A.rowPtr.getD j 0
  | 0, i, hij, _ => by
    have : i = 0 := by omega
    subst this; exact Nat.le_refl _
  | j + 1, i, hij, hj => by
    rcases Nat.lt_or_ge i (j + 1) with hlt | hge
    · exact Nat.le_trans (rowPtr_mono h j i (by omega) (by omega)) (h.mono j (by omega))
    · have : i = j + 1 := by omega
      subst this; exact Nat.le_refl _

theorem rowEnd_le {A : Bcsr α} (h : A.WF) {i : Nat} (hi : i < A.rows) : A.rowPtr.getD (i + 1) 0 ≤ A.colInd.size := by
  have := rowPtr_mono h A.rows (i + 1) (by omega) (Nat.le_refl _)
  rw [h.last] at this
  exact this

variable [CommSemiring α]

theorem entry_eq_sum (A : Bcsr α) (hbh : 0 < A.bh) (hbw : 0 < A.bw) (p c : Nat) :
    A.entry p c = ∑ k ∈ Ico (A.rowPtr.getD (p / A.bh) 0) (A.rowPtr.getD (p / A.bh + 1) 0),
      (if A.colInd.getD k A.cols = c / A.bw
        then A.val.getD (k * A.bh * A.bw + p % A.bh * A.bw + c % A.bw) 0 else 0) := by
  unfold entry
  rw [if_neg (by omega)]
  simp only []
  rw [foldRange_add_if, zero_add]

theorem blockRowSum_eq_sum (A : Bcsr α) (x : Array α) (row h : Nat) :
    A.blockRowSum x row h = ∑ k ∈ Ico (A.rowPtr.getD row 0) (A.rowPtr.getD (row + 1) 0), ∑ w ∈ range A.bw,
      A.val.getD (k * A.bh * A.bw + h * A.bw + w) 0 * x.getD (A.colInd.getD k 0 * A.bw + w) 0 := by
  unfold blockRowSum
  have : (fun (sum : α) (i : Nat) => foldRange 0 A.bw (fun sum w =>
      sum + 1 * A.val.getD (i * A.bh * A.bw + h * A.bw + w) 0 * x.getD (A.colInd.getD i 0 * A.bw + w) 0) sum)
      = fun sum i => sum + ∑ w ∈ range A.bw,
          A.val.getD (i * A.bh * A.bw + h * A.bw + w) 0 * x.getD (A.colInd.getD i 0 * A.bw + w) 0 := by
    funext sum i
    rw [foldRange_add, ← Finset.range_eq_Ico]
    simp
  rw [this, foldRange_add, zero_add]

/-- the block-row loop of `bcsr_generic` computes pod row `p` of the dense product -/
theorem blockRowSum_eq {A : Bcsr α} (h : A.WF) (hbh : 0 < A.bh) (hbw : 0 < A.bw) (x : Array α) {p : Nat}
    (hp : p < A.rows * A.bh) :
    A.blockRowSum x (p / A.bh) (p % A.bh) = ∑ c ∈ range (A.cols * A.bw), A.entry p c * x.getD c 0 := by
  have hrow : p / A.bh < A.rows := by
    rw [Nat.div_lt_iff_lt_mul hbh]; exact hp
  rw [blockRowSum_eq_sum, sum_range_mul]
  have hdm : ∀ C w, w < A.bw → (C * A.bw + w) / A.bw = C ∧ (C * A.bw + w) % A.bw = w := by
    intro C w hw
    constructor
    · rw [Nat.mul_comm, Nat.mul_add_div hbw, Nat.div_eq_of_lt hw, Nat.add_zero]
    · rw [Nat.mul_comm, Nat.mul_add_mod, Nat.mod_eq_of_lt hw]
  have hR : ∑ C ∈ range A.cols, ∑ w ∈ range A.bw, A.entry p (C * A.bw + w) * x.getD (C * A.bw + w) 0
      = ∑ C ∈ range A.cols, ∑ w ∈ range A.bw,
          ∑ k ∈ Ico (A.rowPtr.getD (p / A.bh) 0) (A.rowPtr.getD (p / A.bh + 1) 0),
            (if A.colInd.getD k A.cols = C
              then A.val.getD (k * A.bh * A.bw + p % A.bh * A.bw + w) 0 * x.getD (C * A.bw + w) 0 else 0) := by
    apply Finset.sum_congr rfl
    intro C _
    apply Finset.sum_congr rfl
    intro w hw
    rw [Finset.mem_range] at hw
    rw [entry_eq_sum A hbh hbw, (hdm C w hw).1, (hdm C w hw).2, Finset.sum_mul]
    apply Finset.sum_congr rfl
    intro k _
    rw [ite_mul, zero_mul]
  rw [hR]
  refine Eq.trans ?_ (Eq.symm (Finset.sum_comm.trans ((Finset.sum_congr rfl fun w _ => Finset.sum_comm).trans
    Finset.sum_comm)))
  apply Finset.sum_congr rfl
  intro k hk
  rw [Finset.mem_Ico] at hk
  have hks : k < A.colInd.size := Nat.lt_of_lt_of_le hk.2 (rowEnd_le h hrow)
  have hc : A.colInd.getD k A.cols = A.colInd.getD k 0 := Csr.getD_eq_of_lt _ hks _ _
  apply Finset.sum_congr rfl
  intro w _
  rw [hc, Finset.sum_ite_eq, if_pos (Finset.mem_range.mpr (h.colLt k hks))]

theorem divmod_block {bw : Nat} (hbw : 0 < bw) (C w : Nat) (hw : w < bw) :
    (C * bw + w) / bw = C ∧ (C * bw + w) % bw = w := by
  constructor
  · rw [Nat.mul_comm, Nat.mul_add_div hbw, Nat.div_eq_of_lt hw, Nat.add_zero]
  · rw [Nat.mul_comm, Nat.mul_add_mod, Nat.mod_eq_of_lt hw]

/-- the component loop of one block hits pod index `q` at most once -/
theorem sum_block_hit {bw : Nat} (hbw : 0 < bw) (c q : Nat) (F : Nat → α) :
    ∑ j ∈ range bw, (if c * bw + j = q then F j else 0) = if c = q / bw then F (q % bw) else 0 := by
  by_cases hc : c = q / bw
  · rw [if_pos hc, Finset.sum_eq_single (q % bw)]
    · have : c * bw + q % bw = q := by rw [hc, Nat.mul_comm]; exact Nat.div_add_mod q bw
      rw [if_pos this]
    · intro j hj hne
      rw [Finset.mem_range] at hj
      rw [if_neg]
      intro he
      exact hne (by rw [← he]; exact (divmod_block hbw c j hj).2.symm)
    · intro hn
      exact absurd (Finset.mem_range.mpr (Nat.mod_lt q hbw)) hn
  · rw [if_neg hc]
    apply Finset.sum_eq_zero
    intro j hj
    rw [Finset.mem_range] at hj
    rw [if_neg]
    intro he
    exact hc (by rw [← he]; exact (divmod_block hbw c j hj).1.symm)

/-- the scatter loop of `bcsr_transposed_generic` -/
def scatterT (A : Bcsr α) (x r : Array α) : Array α :=
  (List.range A.rows).foldl (fun r row =>
    foldRange (A.rowPtr.getD row 0) (A.rowPtr.getD (row + 1) 0) (fun r i =>
      foldRange 0 A.bw (fun r j =>
        foldRange 0 A.bh (fun r ii =>
          r.modify (A.colInd.getD i 0 * A.bw + j)
            (· + 1 * A.val.getD (i * A.bh * A.bw + ii * A.bw + j) 0 * x.getD (row * A.bh + ii) 0)) r) r) r) r

theorem scatterT_size (A : Bcsr α) (x r : Array α) : (A.scatterT x r).size = r.size := by
  unfold scatterT
  rw [List.range_eq_range']
  apply foldl_range'_size
  intro r row
  apply foldRange_size
  intro r i
  apply foldRange_size
  intro r j
  apply foldRange_size
  intro r ii
  exact Array.size_modify ..

theorem scatterT_getD {A : Bcsr α} (h : A.WF) (hbh : 0 < A.bh) (hbw : 0 < A.bw) (x r : Array α) {q : Nat}
    (hq : q < r.size) :
    (A.scatterT x r).getD q 0 = r.getD q 0 + ∑ p ∈ range (A.rows * A.bh), A.entry p q * x.getD p 0 := by
  unfold scatterT
  rw [List.range_eq_range']
  -- sizes of the nested loops
  have hsz3 : ∀ (row i j : Nat) (r : Array α), (foldRange 0 A.bh (fun r ii =>
      r.modify (A.colInd.getD i 0 * A.bw + j)
        (· + 1 * A.val.getD (i * A.bh * A.bw + ii * A.bw + j) 0 * x.getD (row * A.bh + ii) 0)) r).size = r.size := by
    intro row i j r
    apply foldRange_size
    intro r ii
    exact Array.size_modify ..
  have hsz2 : ∀ (row i : Nat) (r : Array α), (foldRange 0 A.bw (fun r j => foldRange 0 A.bh (fun r ii =>
      r.modify (A.colInd.getD i 0 * A.bw + j)
        (· + 1 * A.val.getD (i * A.bh * A.bw + ii * A.bw + j) 0 * x.getD (row * A.bh + ii) 0)) r) r).size = r.size := by
    intro row i r
    apply foldRange_size
    intro r j
    exact hsz3 row i j r
  have hsz1 : ∀ (r : Array α) (row : Nat), (foldRange (A.rowPtr.getD row 0) (A.rowPtr.getD (row + 1) 0) (fun r i =>
      foldRange 0 A.bw (fun r j => foldRange 0 A.bh (fun r ii =>
      r.modify (A.colInd.getD i 0 * A.bw + j)
        (· + 1 * A.val.getD (i * A.bh * A.bw + ii * A.bw + j) 0 * x.getD (row * A.bh + ii) 0)) r) r) r).size = r.size := by
    intro r row
    apply foldRange_size
    intro r i
    exact hsz2 row i r
  rw [foldl_range'_acc _ (fun row => ∑ i ∈ Ico (A.rowPtr.getD row 0) (A.rowPtr.getD (row + 1) 0),
      ∑ j ∈ Ico 0 A.bw, ∑ ii ∈ Ico 0 A.bh,
        (if A.colInd.getD i 0 * A.bw + j = q
          then 1 * A.val.getD (i * A.bh * A.bw + ii * A.bw + j) 0 * x.getD (row * A.bh + ii) 0 else 0)) q hsz1 ?_ _ _ r hq]
  · congr 1
    rw [sum_range_mul]
    apply Finset.sum_congr rfl
    intro row hrow
    rw [Finset.mem_range] at hrow
    simp only [Nat.zero_add]
    -- RHS: ∑ ii, entry (row*bh+ii) q * x[row*bh+ii]
    have hR : ∑ ii ∈ range A.bh, A.entry (row * A.bh + ii) q * x.getD (row * A.bh + ii) 0
        = ∑ ii ∈ range A.bh, ∑ i ∈ Ico (A.rowPtr.getD row 0) (A.rowPtr.getD (row + 1) 0),
            (if A.colInd.getD i 0 = q / A.bw
              then 1 * A.val.getD (i * A.bh * A.bw + ii * A.bw + q % A.bw) 0 * x.getD (row * A.bh + ii) 0 else 0) := by
      apply Finset.sum_congr rfl
      intro ii hii
      rw [Finset.mem_range] at hii
      rw [entry_eq_sum A hbh hbw, (divmod_block hbh row ii hii).1, (divmod_block hbh row ii hii).2, Finset.sum_mul]
      apply Finset.sum_congr rfl
      intro i hi
      rw [Finset.mem_Ico] at hi
      have his : i < A.colInd.size := Nat.lt_of_lt_of_le hi.2 (rowEnd_le h hrow)
      rw [Csr.getD_eq_of_lt _ his A.cols 0, ite_mul, zero_mul, one_mul]
    rw [hR]
    refine Eq.trans ?_ (Eq.symm Finset.sum_comm)
    apply Finset.sum_congr rfl
    intro i _
    simp only [← Finset.range_eq_Ico]
    refine Eq.trans Finset.sum_comm ?_
    apply Finset.sum_congr rfl
    intro ii _
    exact sum_block_hit hbw (A.colInd.getD i 0) q
      (fun j => 1 * A.val.getD (i * A.bh * A.bw + ii * A.bw + j) 0 * x.getD (row * A.bh + ii) 0)
  · intro r row hqr
    apply foldRange_acc _ _ q ?_ ?_ _ _ r hqr
    · intro r i
      exact hsz2 row i r
    · intro r i hqr'
      apply foldRange_acc _ _ q ?_ ?_ _ _ r hqr'
      · intro r j
        exact hsz3 row i j r
      · intro r j hqr''
        apply foldRange_acc _ _ q ?_ ?_ _ _ r hqr''
        · intro r ii
          exact Array.size_modify ..
        · intro r ii hqr3
          exact getD_modify_add r _ q _ hqr3

/-- a BCSR matrix without stored blocks represents the zero matrix -/
theorem entry_eq_zero_of_empty {A : Bcsr α} (h : A.WF) (h0 : A.usedElements = 0) (p c : Nat) : A.entry p c = 0 := by
  unfold entry
  split
  · rfl
  · simp only []
    rw [foldRange_add_if, zero_add]
    by_cases hp : p / A.bh < A.rows
    · have h1 := rowEnd_le h hp
      have h2 : A.colInd.size = 0 := h0
      have h3 : A.rowPtr.getD (p / A.bh + 1) 0 = 0 := by omega
      rw [h3]; simp
    · -- rows beyond the matrix: the row pointer reads the default 0
      have h3 : A.rowPtr.getD (p / A.bh + 1) 0 = 0 := by
        have : ¬(p / A.bh + 1 < A.rowPtr.size) := by rw [h.size]; omega
        simp [Array.getD, this]
      rw [h3]; simp

end Bcsr
end FeatModel.LA
