import FeatModel.Lemmas.C20Step2
/-! C20 helper lemmas, part 7: clone / convert / move / layouts preserve the invariant -/
namespace FeatModel.Pool

theorem optIds_slot_some {s : State} {a : Nat} {c : Cont} (h : s.slot a = some c) : optIds (s.slot a) = c.ownIds := by
  rw [h]; rfl

theorem inv_clone {s s' : State} {a b mode : Nat} {fill : Int} (hi : Inv s)
    (h : step s (.clone a b mode fill) = .ok s') : Inv s' := by
  unfold step at h
  simp only at h
  split at h
  · cases h
  · rename_i cb hb
    split at h
    · cases h
    · rename_i hc
      simp only [Bool.or_eq_true, decide_eq_true_eq, not_or, Nat.not_le, Bool.not_eq_true] at hc
      obtain ⟨ha, _⟩ := hc
      split at h
      · cases h
      · rename_i p1 c1 hr
        injection h with h; subst h
        -- the counters moved by (+ owned by the result − owned by the old content of slot a)
        have key : Delta s.pool p1 c1.ownIds (optIds (s.slot a)) ∧ PoolPos p1 := by
          split at hr
          · rename_i hsa
            have := delta_cloneFrom hr hi.1
            rw [ownIds_empty] at this
            rw [hsa]; exact this
          · rename_i ca hsa
            rw [hsa, optIds_some]
            split at hr
            · cases hr
            · split at hr
              · exact delta_cloneFrom hr hi.1
              · exact delta_cloneCross hr hi.1
        obtain ⟨d, hp1⟩ := key
        obtain ⟨f1, hq1⟩ := delta_fillArrs (if mode = 4 || mode = 1 then c1.elems.zip c1.elemsSize else []) p1 fill hp1
        obtain ⟨f2, hq2⟩ := delta_fillArrs (if mode = 4 then c1.inds.zip c1.indsSize else [])
          (fillArrs p1 fill (if mode = 4 || mode = 1 then c1.elems.zip c1.elemsSize else [])) fill hq1
        refine inv_setSlot hi ha ?_ hq2
        rw [optIds_some]
        intro j
        have := d j; have := f1 j; have := f2 j
        simp only [List.count_nil] at *
        omega

theorem inv_conv {s s' : State} {a b dt it : Nat} (hi : Inv s)
    (h : step s (.conv a b dt it) = .ok s') : Inv s' := by
  unfold step at h
  simp only at h
  split at h
  · cases h
  · rename_i cb hb
    split at h
    · cases h
    · rename_i hc
      simp only [decide_eq_true_eq, Nat.not_le] at hc
      split at h
      · rename_i hsa
        split at h
        · cases h
        · split at h
          · cases h
          · rename_i p1 c1 hr
            injection h with h; subst h
            obtain ⟨d, hp1⟩ := delta_assign hr hi.1
            refine inv_setSlot hi hc ?_ hp1
            rw [optIds_some, hsa]
            rw [ownIds_empty] at d; exact d
      · rename_i ca hsa
        split at h
        · cases h
        · split at h
          · cases h
          · rename_i p1 c1 hr
            injection h with h; subst h
            obtain ⟨d, hp1⟩ := delta_assign hr hi.1
            refine inv_setSlot hi hc ?_ hp1
            rw [optIds_some, hsa]; exact d

theorem inv_xconv_aux {s : State} {a : Nat} {ca cb c1 : Cont} {p0 p1 : Pool} {q : Ptr} {n len : Nat}
    (hi : Inv s) (ha : a < s.slots.length) (hown : ca.ownIds = optIds (s.slot a))
    (hrel : ca.releaseOwn s.pool = .ok p0) (hinc : incr p0 q = .ok p1)
    (hc1 : c1 = { Cont.empty (1 - cb.kind) cb.dt cb.it [n] with elems := [q], elemsSize := [len] }) :
    Inv ({ s with pool := p1 }.setSlot a (some c1)) := by
  obtain ⟨d0, hp0⟩ := delta_releaseOwn hrel hi.1
  obtain ⟨d1, hp1⟩ := delta_incr hinc hp0
  refine inv_setSlot hi ha ?_ hp1
  intro j
  have := d0 j; have := d1 j
  rw [← hown, hc1]
  simp only [optIds, Cont.ownIds, Cont.owned, Cont.empty, idsOf_append, idsOf_cons,
    idsOf_nil, List.count_append, List.count_nil, Bool.false_eq_true, if_false] at *
  omega

theorem inv_xconv {s s' : State} {a b : Nat} (hi : Inv s) (h : step s (.xconv a b) = .ok s') : Inv s' := by
  unfold step at h
  simp only at h
  split at h
  · cases h
  · rename_i cb hb
    split at h
    · cases h
    · rename_i hc
      simp only [Bool.or_eq_true, decide_eq_true_eq, not_or, Nat.not_le, Bool.not_eq_true] at hc
      obtain ⟨ha, _⟩ := hc
      split at h
      · rename_i hsa
        split at h
        · cases h
        · split at h
          · cases h
          · split at h
            · cases h
            · rename_i p0 hrel
              split at h
              · cases h
              · rename_i q rest hel
                split at h
                · cases h
                · rename_i p1 hinc
                  injection h with h; subst h
                  exact inv_xconv_aux (cb := cb) hi ha (by rw [hsa, ownIds_empty]; rfl) hrel hinc rfl
      · rename_i ca hsa
        split at h
        · cases h
        · split at h
          · cases h
          · split at h
            · cases h
            · rename_i p0 hrel
              split at h
              · cases h
              · rename_i q rest hel
                split at h
                · cases h
                · rename_i p1 hinc
                  injection h with h; subst h
                  exact inv_xconv_aux (cb := cb) hi ha (by rw [hsa]; rfl) hrel hinc rfl

end FeatModel.Pool
