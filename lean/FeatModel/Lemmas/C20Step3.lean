import FeatModel.Lemmas.C20Step2
/-! C20 helper lemmas, part 7: clone / convert / move / layouts preserve the invariant -/
namespace FeatModel.Pool

theorem optIds_slot_some {s : State} {a : Nat} {c : Cont} (h : s.slot a = some c) : optIds (s.slot a) = c.ownIds := by
  rw [h]; rfl

theorem inv_clone {s s' : State} {a b mode : Nat} {fill : Int} (hi : Inv s)
    (h : step s (.clone a b mode fill) = .ok s') : Inv s' := by
  unfold step at h
  simp only at h
  split at h
  · cases h
  · rename_i cb hb
    split at h
    · cases h
    · rename_i hc
      simp only [Bool.or_eq_true, decide_eq_true_eq, not_or, Nat.not_le, Bool.not_eq_true] at hc
      obtain ⟨ha, _⟩ := hc
      split at h
      · cases h
      · rename_i p1 c1 hr
        injection h with h; subst h
        -- the counters moved by (+ owned by the result − owned by the old content of slot a)
        have key : Delta s.pool p1 c1.ownIds (optIds (s.slot a)) ∧ PoolPos p1 := by
          split at hr
          · rename_i hsa
            have := delta_cloneFrom hr hi.1
            rw [ownIds_empty] at this
            rw [hsa]; exact this
          · rename_i ca hsa
            rw [hsa, optIds_some]
            split at hr
            · cases hr
            · split at hr
              · exact delta_cloneFrom hr hi.1
              · exact delta_cloneCross hr hi.1
        obtain ⟨d, hp1⟩ := key
        obtain ⟨f1, hq1⟩ := delta_fillArrs (if mode = 4 || mode = 1 then c1.elems.zip c1.elemsSize else []) p1 fill hp1
        obtain ⟨f2, hq2⟩ := delta_fillArrs (if mode = 4 then c1.inds.zip c1.indsSize else [])
          (fillArrs p1 fill (if mode = 4 || mode = 1 then c1.elems.zip c1.elemsSize else [])) fill hq1
        refine inv_setSlot hi ha ?_ hq2
        rw [optIds_some]
        intro j
        have := d j; have := f1 j; have := f2 j
        simp only [List.count_nil] at *
        omega

theorem ownIds_getD_empty (o : Option Cont) (k d i : Nat) (sx : List Nat) :
    (o.getD (Cont.empty k d i sx)).ownIds = optIds o := by
  cases o with
  | none => simp only [Option.getD, ownIds_empty, optIds]
  | some c => rfl

theorem inv_conv {s s' : State} {a b dt it : Nat} (hi : Inv s)
    (h : step s (.conv a b dt it) = .ok s') : Inv s' := by
  unfold step at h
  simp only at h
  split at h
  · cases h
  · rename_i cb hb
    split at h
    · cases h
    · rename_i hc
      simp only [decide_eq_true_eq, Nat.not_le] at hc
      split at h
      · cases h
      · split at h
        · cases h
        · rename_i p1 c1 hr
          injection h with h; subst h
          obtain ⟨d, hp1⟩ := delta_convertFrom hr hi.1
          refine inv_setSlot hi hc ?_ hp1
          rw [optIds_some, ← ownIds_getD_empty (s.slot a)]; exact d

theorem delta_xconvFrom {p p' : Pool} {self other c' : Cont}
    (h : Cont.xconvFrom p self other = .ok (p', c')) (hp : PoolPos p) :
    Delta p p' c'.ownIds self.ownIds ∧ PoolPos p' := by
  unfold Cont.xconvFrom at h
  split at h
  · cases h
  · split at h
    · cases h
    · rename_i p0 hrel
      obtain ⟨d0, hp0⟩ := delta_releaseOwn hrel hp
      dsimp only at h
      split at h
      · injection h with h; injection h with e1 e2; subst e1; subst e2
        rw [ownIds_empty]; exact ⟨d0, hp0⟩
      · rename_i q rest hel
        split at h
        · cases h
        · rename_i p1 hinc
          obtain ⟨d1, hp1⟩ := delta_incr hinc hp0
          injection h with h; injection h with e1 e2; subst e1; subst e2
          refine ⟨?_, hp1⟩
          intro j
          have := d0 j; have := d1 j
          simp only [Cont.ownIds, Cont.owned, Cont.empty, idsOf_append, idsOf_cons,
            idsOf_nil, List.count_append, List.count_nil, Bool.false_eq_true, if_false] at *
          omega

theorem inv_xconv {s s' : State} {a b : Nat} (hi : Inv s) (h : step s (.xconv a b) = .ok s') : Inv s' := by
  unfold step at h
  simp only at h
  split at h
  · cases h
  · rename_i cb hb
    split at h
    · cases h
    · rename_i hc
      simp only [Bool.or_eq_true, decide_eq_true_eq, not_or, Nat.not_le, Bool.not_eq_true] at hc
      obtain ⟨ha, _⟩ := hc
      split at h
      · cases h
      · split at h
        · cases h
        · rename_i p1 c1 hr
          injection h with h; subst h
          obtain ⟨d, hp1⟩ := delta_xconvFrom hr hi.1
          refine inv_setSlot hi ha ?_ hp1
          rw [optIds_some, ← ownIds_getD_empty (s.slot a)]; exact d

end FeatModel.Pool
