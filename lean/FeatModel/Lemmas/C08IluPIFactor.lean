import FeatModel.Lemmas.C08IluPIAux
/-! C08 (partial-inverse port): the numeric ILU factorisation (find-based formulation `factorizeNumericS`) over a
`Ring` with a PARTIAL inverse `1 / ·` (the algebra of `bs × bs` blocks, `1 / x` = `Tiny::set_inverse`) reproduces the
copied matrix on the symbolic pattern: `(I+L)(D+U) = M0` entry by entry, with the products in the order of the model
(`L_ik * U_kc`, `L_ic * D_c` with `L_ic = w_ic * D_c⁻¹`).  Instead of `dataD[i] ≠ 0` (division ring) the hypothesis is
that every stored inverted pivot `v` satisfies `v * (1 / v) = 1 ∧ (1 / v) * v = 1`, together with the law `InvLaw`
("a computed inverse that is itself inverted correctly was a correct inverse"). -/
open Finset
namespace FeatModel.Solver.PI
open FeatModel.LA FeatModel.Solver

variable {α : Type} [Ring α] [Div α]

/-- `1 / ·` inverts `v` (two-sided) -/
def IsInv (v : α) : Prop := v * (1 / v) = 1 ∧ (1 / v) * v = 1

/-- the only law assumed of the partial inverse: if the computed inverse `1 / x` is itself inverted correctly by
    `1 / ·`, then it was a correct inverse of `x` -/
def InvLaw (α : Type) [Ring α] [Div α] : Prop :=
  ∀ x : α, ((1 / x) * (1 / (1 / x)) = 1 ∧ (1 / (1 / x)) * (1 / x) = 1) → (x * (1 / x) = 1 ∧ (1 / x) * x = 1)

/-- the pre-inversion pivot is invertible as soon as the stored inverted pivot is -/
theorem isInv_of_isInv_one_div (hlaw : InvLaw α) {x : α} (h : IsInv (1 / x)) : IsInv x := hlaw x h

/-- `one_div_one_div` for a partial inverse: uniqueness of two-sided inverses in a ring -/
theorem one_div_one_div_pi (hlaw : InvLaw α) {x : α} (h : IsInv (1 / x)) : 1 / (1 / x) = x := by
  obtain ⟨h1, _⟩ := hlaw x h
  calc 1 / (1 / x) = (x * (1 / x)) * (1 / (1 / x)) := by rw [h1, one_mul]
    _ = x := by rw [mul_assoc, h.1, mul_one]

/-- `((I+L)(D+U))_{ic}` of the stored factors `f`, with `D = 1 / f.dataD` -/
def prodEntry (s : IluSym) (f : IluNum α) (i c : Nat) : α :=
  ∑ k ∈ range (min i c), (s.matL f).entry i k * (s.matU f).entry k c
    + (if c < i then (s.matL f).entry i c * (1 / f.dataD.getD c 0)
       else if c = i then 1 / f.dataD.getD i 0
       else (s.matU f).entry i c)

/-- `prodEntry … i c` reads only the rows `≤ i` of the stored data -/
theorem prodEntry_congr {s : IluSym} (w : s.WFP) (f f' : IluNum α) {i : Nat} (hi : i < s.n) (c : Nat)
    (hL : ∀ p, p < s.rpL.getD (i + 1) 0 → f'.dataL.getD p 0 = f.dataL.getD p 0)
    (hU : ∀ p, p < s.rpU.getD (i + 1) 0 → f'.dataU.getD p 0 = f.dataU.getD p 0)
    (hD : ∀ r, r ≤ i → f'.dataD.getD r 0 = f.dataD.getD r 0) : prodEntry s f' i c = prodEntry s f i c := by
  have eL : ∀ c, (s.matL f').entry i c = (s.matL f).entry i c :=
    fun c => matL_entry_congr f f' i c (fun p _ hp => hL p hp)
  have eU : ∀ k, k ≤ i → ∀ c, (s.matU f').entry k c = (s.matU f).entry k c := by
    intro k hk c
    apply matU_entry_congr
    intro p _ hp
    have := w.rpU_le (i := k + 1) (j := i + 1) (by omega) (by omega)
    exact hU p (by omega)
  have h1 : ∑ k ∈ range (min i c), (s.matL f').entry i k * (s.matU f').entry k c
      = ∑ k ∈ range (min i c), (s.matL f).entry i k * (s.matU f).entry k c := by
    apply Finset.sum_congr rfl
    intro k hk
    rw [Finset.mem_range] at hk
    rw [eL, eU k (by omega)]
  unfold prodEntry
  rw [h1, eL, eU i (Nat.le_refl _), hD i (Nat.le_refl _)]
  by_cases hci : c < i
  · rw [if_pos hci, if_pos hci, hD c (by omega)]
  · rw [if_neg hci, if_neg hci]

omit [Div α] in
theorem dense_congr {s : IluSym} (f f' : IluNum α) (i c : Nat)
    (hL : ∀ p, s.inL i p → f'.dataL.getD p 0 = f.dataL.getD p 0)
    (hU : ∀ p, s.inU i p → f'.dataU.getD p 0 = f.dataU.getD p 0)
    (hD : f'.dataD.getD i 0 = f.dataD.getD i 0) : s.dense f' i c = s.dense f i c := by
  unfold IluSym.dense
  rw [matL_entry_congr f f' i c (fun p h1 h2 => hL p ⟨h1, h2⟩),
    matU_entry_congr f f' i c (fun p h1 h2 => hU p ⟨h1, h2⟩), hD]

/-- row `i`: only the storage of row `i` changes, and afterwards row `i` of `(I+L)(D+U)` reproduces row `i` of the
    data before the row was processed (on the pattern), provided the stored inverted pivots of the rows `≤ i` are
    inverted by `1 / ·` -/
theorem factorRowS_spec (hlaw : InvLaw α) {s : IluSym} (w : s.WFP) {i : Nat} (hi : i < s.n) (d : IluNum α) (hd : d.Sz s) :
    (factorRowS s d i).Sz s ∧
    (∀ p, ¬ s.inL i p → (factorRowS s d i).dataL.getD p 0 = d.dataL.getD p 0) ∧
    (∀ p, ¬ s.inU i p → (factorRowS s d i).dataU.getD p 0 = d.dataU.getD p 0) ∧
    (∀ r, r ≠ i → (factorRowS s d i).dataD.getD r 0 = d.dataD.getD r 0) ∧
    ((∀ c, c ≤ i → IsInv ((factorRowS s d i).dataD.getD c 0)) → ∀ c, c < s.n → s.inPattern i c →
      prodEntry s (factorRowS s d i) i c = s.dense d i c) := by
  have h := RowInv.fold w hi d hd
  generalize hy : foldRange (s.rpL.getD i 0) (s.rpL.getD (i + 1) 0) (elimL s i) d = y at h
  have hL' : (factorRowS s d i).dataL = y.dataL := by rw [← hy]; rfl
  have hU' : (factorRowS s d i).dataU = y.dataU := by rw [← hy]; rfl
  have hD' : (factorRowS s d i).dataD = y.dataD.setIfInBounds i (1 / y.dataD.getD i 0) := by rw [← hy]; rfl
  have hmL : s.matL (factorRowS s d i) = s.matL y := by unfold IluSym.matL; rw [hL']
  have hmU : s.matU (factorRowS s d i) = s.matU y := by unfold IluSym.matU; rw [hU']
  have hDi : (factorRowS s d i).dataD.getD i 0 = 1 / y.dataD.getD i 0 := by
    rw [hD', getD_setIfInBounds, if_pos ⟨rfl, by have := h.sz.2.2; omega⟩]
  have hDr : ∀ r, r ≠ i → (factorRowS s d i).dataD.getD r 0 = d.dataD.getD r 0 := by
    intro r hr
    rw [hD', getD_setIfInBounds, if_neg (fun e => hr e.1.symm)]
    exact h.frD r hr
  refine ⟨⟨by rw [hL']; exact h.sz.1, by rw [hU']; exact h.sz.2.1,
      by rw [hD', Array.size_setIfInBounds]; exact h.sz.2.2⟩,
    fun p hp => by rw [hL']; exact h.frL p hp, fun p hp => by rw [hU']; exact h.frU p hp, hDr, ?_⟩
  intro hpiv c hc hpat
  -- rows `< i` of `U` are those of `d`
  have hue : ∀ k, k < i → ∀ c, (s.matU y).entry k c = (s.matU d).entry k c := by
    intro k hk c
    apply matU_entry_congr
    intro p _ hp2
    apply h.frU
    intro hin
    have := w.rpU_le (i := k + 1) (j := i) (by omega) (by omega)
    have := hin.1
    omega
  have hsum : ∑ k ∈ range (min i c), (s.matL y).entry i k * (s.matU y).entry k c
      = rowS s i d y (s.rpL.getD (i + 1) 0) c := by
    have h1 : rowS s i d y (s.rpL.getD (i + 1) 0) c
        = ∑ q ∈ Ico ((s.matL y).rowBegin i) ((s.matL y).rowEnd i),
            (s.matL y).val.getD q 0 * (fun k => (s.matU y).entry k c) ((s.matL y).colInd.getD q 0) := by
      unfold rowS
      apply Finset.sum_congr rfl
      intro q hq
      rw [Finset.mem_Ico] at hq
      show y.dataL.getD q 0 * _ = y.dataL.getD q 0 * (s.matU y).entry (s.ciL.getD q 0) c
      rw [hue _ (w.lowL i hi q hq.1 hq.2)]
    have h2 := Blk.sum_row_eq (R := α) (V := α) (w.matL_wf y h.sz.1) (fun k => (s.matU y).entry k c)
      (show i < (s.matL y).rows from hi)
    simp only [smul_eq_mul] at h2
    rw [h1, h2]
    apply Finset.sum_subset
    · intro k hk
      rw [Finset.mem_range] at hk ⊢
      show k < s.n
      omega
    · intro k hk1 hk2
      rw [Finset.mem_range] at hk1 hk2
      have hk1' : k < s.n := hk1
      show (s.matL y).entry i k * (s.matU y).entry k c = 0
      rcases Nat.lt_or_ge k i with hki | hki
      · rw [matU_entry_zero w y hk1' (by omega : c ≤ k), mul_zero]
      · rw [matL_entry_zero w y hi hki, zero_mul]
  unfold prodEntry
  rw [hmL, hmU, hsum]
  rcases hpat with hci | ⟨p, hp1, hp2, hpc⟩ | ⟨p, hp1, hp2, hpc⟩
  · subst hci
    have hii := hpiv c (Nat.le_refl _)
    rw [hDi] at hii
    rw [if_neg (Nat.lt_irrefl _), if_pos rfl, hDi, one_div_one_div_pi hlaw hii, h.valD, add_sub_cancel]
    unfold IluSym.dense
    rw [if_neg (Nat.lt_irrefl _), if_pos rfl]
  · have hci : c < i := by rw [← hpc]; exact w.lowL i hi p hp1 hp2
    have hv := h.valL p ⟨hp1, hp2⟩
    rw [if_pos hp2, hpc] at hv
    have hcc := hpiv c (by omega)
    rw [hDr c (by omega)] at hcc
    rw [if_pos hci, hDr c (by omega), ← hpc, matL_entry_at w y hi hp1 hp2, hpc, hv,
      mul_assoc, hcc.1, mul_one, add_sub_cancel]
    unfold IluSym.dense
    rw [if_pos hci, ← hpc, matL_entry_at w d hi hp1 hp2]
  · have hci : i < c := by rw [← hpc]; exact w.uppU i hi p hp1 hp2
    have hv := h.valU p ⟨hp1, hp2⟩
    rw [hpc] at hv
    rw [if_neg (by omega), if_neg (by omega), ← hpc, matU_entry_at w y hi hp1 hp2, hpc, hv, add_sub_cancel]
    unfold IluSym.dense
    rw [if_neg (by omega), if_neg (by omega), ← hpc, matU_entry_at w d hi hp1 hp2]

/-- global invariant: after the rows `< m`, these rows are final and correct, the rows `≥ m` still hold the input -/
theorem factorize_inv (hlaw : InvLaw α) {s : IluSym} (w : s.WFP) (d0 : IluNum α) (hd0 : d0.Sz s) : ∀ m, m ≤ s.n →
    ((List.range m).foldl (factorRowS s) d0).Sz s ∧
    (∀ p, s.rpL.getD m 0 ≤ p → ((List.range m).foldl (factorRowS s) d0).dataL.getD p 0 = d0.dataL.getD p 0) ∧
    (∀ p, s.rpU.getD m 0 ≤ p → ((List.range m).foldl (factorRowS s) d0).dataU.getD p 0 = d0.dataU.getD p 0) ∧
    (∀ r, m ≤ r → ((List.range m).foldl (factorRowS s) d0).dataD.getD r 0 = d0.dataD.getD r 0) ∧
    ((∀ c, c < m → IsInv (((List.range m).foldl (factorRowS s) d0).dataD.getD c 0)) →
      ∀ i, i < m → ∀ c, c < s.n → s.inPattern i c →
        prodEntry s ((List.range m).foldl (factorRowS s) d0) i c = s.dense d0 i c) := by
  intro m
  induction m with
  | zero =>
    intro _
    exact ⟨hd0, fun _ _ => rfl, fun _ _ => rfl, fun _ _ => rfl, fun _ i hi => absurd hi (Nat.not_lt_zero i)⟩
  | succ m ih =>
    intro hm
    obtain ⟨hs, iL, iU, iD, imain⟩ := ih (by omega)
    rw [List.range_succ, List.foldl_append]
    simp only [List.foldl_cons, List.foldl_nil]
    generalize (List.range m).foldl (factorRowS s) d0 = dm at hs iL iU iD imain
    have hmn : m < s.n := by omega
    obtain ⟨hs', fL, fU, fD, hrow⟩ := factorRowS_spec hlaw w hmn dm hs
    have hmoL := w.monoL m hmn
    have hmoU := w.monoU m hmn
    refine ⟨hs', ?_, ?_, ?_, ?_⟩
    · intro p hp
      rw [fL p (fun h => by have := h.2; omega)]
      exact iL p (by omega)
    · intro p hp
      rw [fU p (fun h => by have := h.2; omega)]
      exact iU p (by omega)
    · intro r hr
      rw [fD r (by omega)]
      exact iD r (by omega)
    · intro hpiv i hi c hc hpat
      have hpiv' : ∀ c, c < m → IsInv (dm.dataD.getD c 0) := by
        intro c hc
        rw [← fD c (by omega)]
        exact hpiv c (by omega)
      rcases Nat.lt_or_ge i m with hlt | hge
      · rw [prodEntry_congr w dm (factorRowS s dm m) (by omega : i < s.n) c]
        · exact imain hpiv' i hlt c hc hpat
        · intro p hp
          have := w.rpL_le (i := i + 1) (j := m) (by omega) (by omega)
          exact fL p (fun h => by have := h.1; omega)
        · intro p hp
          have := w.rpU_le (i := i + 1) (j := m) (by omega) (by omega)
          exact fU p (fun h => by have := h.1; omega)
        · intro r hr
          exact fD r (by omega)
      · have : i = m := by omega
        subst this
        rw [hrow (fun c hc => hpiv c (by omega)) c hc hpat]
        exact dense_congr d0 dm i c (fun p hp => iL p hp.1) (fun p hp => iU p hp.1) (iD i (Nat.le_refl _))

/-- `factorize_numeric_il_du` (find-based formulation): with `f` the result on the input data `d0`, `D = 1 / f.dataD`
    (the stored pivots are inverted) and stored pivots that `1 / ·` inverts, `((I+L)(D+U))_{ic} = (d0)_{ic}` on the
    pattern. -/
theorem factorizeNumericS_spec_pi (s : IluSym) (hs : s.wf = true) (hso : s.sorted = true) (d0 : IluNum α)
    (hl : d0.dataL.size = s.ciL.size) (hu : d0.dataU.size = s.ciU.size) (hdd : d0.dataD.size = s.n)
    (hlaw : ∀ x : α, ((1 / x) * (1 / (1 / x)) = 1 ∧ (1 / (1 / x)) * (1 / x) = 1) →
      (x * (1 / x) = 1 ∧ (1 / x) * x = 1))
    (hpiv : ∀ i, i < s.n → let v := (factorizeNumericS s d0).dataD.getD i 0; v * (1 / v) = 1 ∧ (1 / v) * v = 1)
    (i c : Nat) (hi : i < s.n) (hc : c < s.n) (hp : s.inPattern i c) :
    ∑ k ∈ range (min i c), (s.matL (factorizeNumericS s d0)).entry i k * (s.matU (factorizeNumericS s d0)).entry k c
      + (if c < i then (s.matL (factorizeNumericS s d0)).entry i c * (1 / (factorizeNumericS s d0).dataD.getD c 0)
         else if c = i then 1 / (factorizeNumericS s d0).dataD.getD i 0
         else (s.matU (factorizeNumericS s d0)).entry i c)
      = s.dense d0 i c := by
  have w := IluSym.WFP.of_bool s hs hso
  exact (factorize_inv hlaw w d0 ⟨hl, hu, hdd⟩ s.n (Nat.le_refl _)).2.2.2.2 hpiv i hi c hc hp


end FeatModel.Solver.PI
