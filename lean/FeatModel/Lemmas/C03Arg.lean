import FeatModel.Lemmas.C04
/-! First-occurrence tie-breaking of the index kernels `Arch::Max(Abs)Index / Min(Abs)Index` (shared with C04). -/
namespace FeatModel.LA.MatAlg
open FeatModel.Vec

section
variable {α : Type} (lt : α → α → Prop) [DecidableRel lt]

/-- invariant of `for(i) if(lt(m, key(x[i]))) { m = key(x[i]); mi = i; }` for a strict weak order `lt`:
    either nothing beats the start value, or the result is the FIRST position whose key is maximal -/
theorem argLoop_first (hirr : ∀ a, ¬ lt a a) (htr : ∀ a b c, lt a b → lt b c → lt a c)
    (hneg : ∀ a b c, ¬ lt a b → ¬ lt b c → ¬ lt a c) (key : α → α) :
    ∀ (t : List α) (i : Nat) (m : α) (mi : Nat),
      (argLoop key (fun v m => decide (lt m v)) t i m mi = mi ∧ ∀ v ∈ t, ¬ lt m (key v)) ∨
      (∃ p, ∃ hp : p < t.length, argLoop key (fun v m => decide (lt m v)) t i m mi = i + p ∧ lt m (key t[p]) ∧
        (∀ q (hq : q < p), lt (key (t[q]'(Nat.lt_trans hq hp))) (key t[p])) ∧
        ∀ q (hq : q < t.length), ¬ lt (key t[p]) (key t[q])) := by
  intro t
  induction t with
  | nil => intro i m mi; left; simp [argLoop]
  | cons xi t ih =>
    intro i m mi
    unfold argLoop
    by_cases hb : lt m (key xi)
    · simp only [hb, decide_true, if_true]
      rcases ih (i + 1) (key xi) i with ⟨h1, h2⟩ | ⟨p, hp, h1, h2, h3, h4⟩
      · right
        refine ⟨0, by simp, by simpa using h1, by simpa using hb, by intro q hq; omega, ?_⟩
        intro q hq
        cases q with
        | zero => simpa using hirr _
        | succ q => simpa using h2 _ (List.getElem_mem (by simpa using hq))
      · right
        refine ⟨p + 1, by simpa using hp, by rw [h1]; omega, by simpa using htr _ _ _ hb h2, ?_, ?_⟩
        · intro q hq
          cases q with
          | zero => simpa using h2
          | succ q => simpa using h3 q (by omega)
        · intro q hq
          cases q with
          | zero =>
            simp only [List.getElem_cons_succ, List.getElem_cons_zero]
            intro hc; exact hirr _ (htr _ _ _ h2 hc)
          | succ q => simpa using h4 q (by simpa using hq)
    · simp only [hb, decide_false, Bool.false_eq_true, if_false]
      rcases ih (i + 1) m mi with ⟨h1, h2⟩ | ⟨p, hp, h1, h2, h3, h4⟩
      · left
        refine ⟨h1, ?_⟩
        intro v hv
        rcases List.mem_cons.mp hv with rfl | hv
        · exact hb
        · exact h2 v hv
      · right
        refine ⟨p + 1, by simpa using hp, by rw [h1]; omega, by simpa using h2, ?_, ?_⟩
        · intro q hq
          cases q with
          | zero =>
            simp only [List.getElem_cons_succ, List.getElem_cons_zero]
            by_contra hc
            exact hneg _ _ _ hb hc h2
          | succ q => simpa using h3 q (by omega)
        · intro q hq
          cases q with
          | zero =>
            simp only [List.getElem_cons_succ, List.getElem_cons_zero]
            intro hc; exact hb (htr _ _ _ h2 hc)
          | succ q => simpa using h4 q (by simpa using hq)

end

set_option linter.unusedSectionVars false
section Linear
variable {α : Type} [Field α] [LinearOrder α] [IsStrictOrderedRing α]

private theorem neg_trans_lt (a b c : α) (h1 : ¬ a < b) (h2 : ¬ b < c) : ¬ a < c :=
  not_lt.mpr (le_trans (not_lt.mp h2) (not_lt.mp h1))

private theorem neg_trans_gt (a b c : α) (h1 : ¬ b < a) (h2 : ¬ c < b) : ¬ c < a :=
  not_lt.mpr (le_trans (not_lt.mp h1) (not_lt.mp h2))

/-- generic wrapper: the result `r` of a max-type index loop over keys `key`, in `getD` form -/
theorem argLoop_first_getD (lt : α → α → Prop) [DecidableRel lt] (hirr : ∀ a, ¬ lt a a)
    (htr : ∀ a b c, lt a b → lt b c → lt a c) (hneg : ∀ a b c, ¬ lt a b → ¬ lt b c → ¬ lt a c) (key : α → α)
    (x : List α) (hne : x ≠ []) (m0 : α) (hstart : (∀ v ∈ x, ¬ lt m0 (key v)) → ∀ v ∈ x, ¬ lt (key (x.getD 0 0)) (key v)) :
    ∃ r, argLoop key (fun v m => decide (lt m v)) x 0 m0 0 = r ∧ r < x.length ∧
      (∀ q, q < r → lt (key (x.getD q 0)) (key (x.getD r 0))) ∧
      ∀ q, q < x.length → ¬ lt (key (x.getD r 0)) (key (x.getD q 0)) := by
  have hlen : 0 < x.length := List.length_pos_iff.mpr hne
  rcases argLoop_first lt hirr htr hneg key x 0 m0 0 with ⟨h1, h2⟩ | ⟨p, hp, h1, _, h3, h4⟩
  · refine ⟨0, h1, hlen, by intro q hq; omega, fun q hq => ?_⟩
    have := hstart h2 (x.getD q 0) (by rw [← List.getElem_eq_getD (h := hq) 0]; exact List.getElem_mem hq)
    exact this
  · refine ⟨p, by rw [h1, Nat.zero_add], hp, fun q hq => ?_, fun q hq => ?_⟩
    · rw [← List.getElem_eq_getD (h := Nat.lt_trans hq hp) 0, ← List.getElem_eq_getD (h := hp) 0]; exact h3 q hq
    · rw [← List.getElem_eq_getD (h := hq) 0, ← List.getElem_eq_getD (h := hp) 0]; exact h4 q hq

/-- `Arch::MaxIndex` (start value `x[0]`): the FIRST position of the maximum -/
theorem maxIndexK_first (x : List α) (hne : x ≠ []) :
    maxIndexK x < x.length ∧ (∀ q, q < maxIndexK x → x.getD q 0 < x.getD (maxIndexK x) 0) ∧
      ∀ q, q < x.length → x.getD q 0 ≤ x.getD (maxIndexK x) 0 := by
  obtain ⟨r, h1, h2, h3, h4⟩ := argLoop_first_getD (fun a b : α => a < b) (fun a => lt_irrefl a) (fun a b c => lt_trans)
    neg_trans_lt id x hne (x.headD 0) (by
      intro h v hv
      have : x.headD 0 = x.getD 0 0 := by cases x <;> simp
      rw [← this]; exact h v hv)
  unfold maxIndexK
  rw [h1]
  exact ⟨h2, h3, fun q hq => not_lt.mp (h4 q hq)⟩

/-- `Arch::MinIndex` (start value `x[0]`): the FIRST position of the minimum -/
theorem minIndexK_first (x : List α) (hne : x ≠ []) :
    minIndexK x < x.length ∧ (∀ q, q < minIndexK x → x.getD (minIndexK x) 0 < x.getD q 0) ∧
      ∀ q, q < x.length → x.getD (minIndexK x) 0 ≤ x.getD q 0 := by
  obtain ⟨r, h1, h2, h3, h4⟩ := argLoop_first_getD (fun a b : α => b < a) (fun a => lt_irrefl a)
    (fun a b c h1 h2 => lt_trans h2 h1) neg_trans_gt id x hne (x.headD 0) (by
      intro h v hv
      have : x.headD 0 = x.getD 0 0 := by cases x <;> simp
      rw [← this]; exact h v hv)
  unfold minIndexK
  rw [h1]
  exact ⟨h2, h3, fun q hq => not_lt.mp (h4 q hq)⟩

/-- `Arch::MaxAbsIndex` (start value `max = 0`): the FIRST position of the maximal absolute value -/
theorem maxAbsIndexK_first (x : List α) (hne : x ≠ []) :
    maxAbsIndexK x < x.length ∧ (∀ q, q < maxAbsIndexK x → |x.getD q 0| < |x.getD (maxAbsIndexK x) 0|) ∧
      ∀ q, q < x.length → |x.getD q 0| ≤ |x.getD (maxAbsIndexK x) 0| := by
  obtain ⟨r, h1, h2, h3, h4⟩ := argLoop_first_getD (fun a b : α => a < b) (fun a => lt_irrefl a) (fun a b c => lt_trans)
    neg_trans_lt absK x hne 0 (by
      intro h v hv
      have h0 := not_lt.mp (h v hv)
      rw [absK_eq_abs] at h0 ⊢
      rw [absK_eq_abs]
      exact not_lt.mpr (le_trans h0 (abs_nonneg _)))
  unfold maxAbsIndexK
  rw [h1]
  refine ⟨h2, fun q hq => ?_, fun q hq => ?_⟩
  · have := h3 q hq; simpa only [absK_eq_abs] using this
  · have := not_lt.mp (h4 q hq); simpa only [absK_eq_abs] using this

/-- `Arch::MinAbsIndex` (start value `|x[0]|`): the FIRST position of the minimal absolute value -/
theorem minAbsIndexK_first (x : List α) (hne : x ≠ []) :
    minAbsIndexK x < x.length ∧ (∀ q, q < minAbsIndexK x → |x.getD (minAbsIndexK x) 0| < |x.getD q 0|) ∧
      ∀ q, q < x.length → |x.getD (minAbsIndexK x) 0| ≤ |x.getD q 0| := by
  obtain ⟨r, h1, h2, h3, h4⟩ := argLoop_first_getD (fun a b : α => b < a) (fun a => lt_irrefl a)
    (fun a b c h1 h2 => lt_trans h2 h1) neg_trans_gt absK x hne (absK (x.headD 0)) (by
      intro h v hv
      have : x.headD 0 = x.getD 0 0 := by cases x <;> simp
      rw [← this]; exact h v hv)
  unfold minAbsIndexK
  rw [h1]
  refine ⟨h2, fun q hq => ?_, fun q hq => ?_⟩
  · have := h3 q hq; simpa only [absK_eq_abs] using this
  · have := not_lt.mp (h4 q hq); simpa only [absK_eq_abs] using this

end Linear
end FeatModel.LA.MatAlg
