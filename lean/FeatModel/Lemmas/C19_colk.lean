import FeatModel.Model.Adjacency
import FeatModel.Model.AdjKernels
import FeatModel.Lemmas.C19_walk
import FeatModel.Lemmas.C19_renders
/-! C19 lemmas, group `colk` (statements fixed by Props/C19.statements; proofs to be filled in)

Route: `walk_spec` turns every walk into a plain fold over the row `rowOf A inj j` (the images, deduplicated
in the injectify variant), so the three passes become folds over one list of pairs `(image, domain)`;
histogram (`count_aux`), in-place / fused prefix sums (`prefix_aux`, `prefixFused_aux`, `imagePtrInit_spec`),
pointer-bump fill (`fill_aux`: disjoint segments `[off i, off i + cnt i)`), and
`injectifyTranspose = transpose ∘ map dedup` (`transpose_map_dedup`). -/
open FeatModel.Adj

namespace C19L.colk

/-! ### generic array helpers -/

theorem getD_set (a : Array Nat) (v x k : Nat) :
    (a.setIfInBounds v x).getD k 0 = if k = v ∧ v < a.size then x else a.getD k 0 := by
  simp only [Array.getD_eq_getD_getElem?, Array.getElem?_setIfInBounds]
  by_cases h : v = k
  · subst h
    by_cases h2 : v < a.size
    · simp [h2]
    · simp [h2]
  · have h' : ¬ k = v := fun e => h e.symm
    simp [h, h']

theorem getD_set_eq (a : Array Nat) (v x : Nat) (h : v < a.size) : (a.setIfInBounds v x).getD v 0 = x := by
  rw [getD_set]; simp [h]

theorem getD_set_ne (a : Array Nat) (v x k : Nat) (h : k ≠ v) : (a.setIfInBounds v x).getD k 0 = a.getD k 0 := by
  rw [getD_set]; simp [h]

theorem rep0_getD (n k : Nat) : (Array.replicate n 0).getD k 0 = 0 := by
  rw [Array.getD_eq_getD_getElem?, Array.getElem?_replicate]
  split <;> rfl

theorem toArray_getD (l : List Nat) (k : Nat) : l.toArray.getD k 0 = l.getD k 0 := by
  simp [Array.getD_eq_getD_getElem?, List.getD_eq_getElem?_getD]

theorem arr_ext_getD (a b : Array Nat) (hs : a.size = b.size)
    (h : ∀ k, k < a.size → a.getD k 0 = b.getD k 0) : a = b := by
  apply Array.ext hs
  intro i h1 h2
  have := h i h1
  simpa [Array.getD_eq_getD_getElem?, h1, h2] using this

/-! ### pairs (image, domain) in processing order -/

/-- column `i` of a pair list: the domain nodes `j` with `(i, j)` in the list, in order -/
def col (ps : List (Nat × Nat)) (i : Nat) : List Nat := (ps.filter (fun p => p.1 == i)).map (·.2)

def cnt (ps : List (Nat × Nat)) (i : Nat) : Nat := (col ps i).length

/-- offsets: `off ps k = Σ_{i<k} cnt ps i` -/
def off (ps : List (Nat × Nat)) : Nat → Nat
  | 0 => 0
  | k + 1 => off ps k + cnt ps k

theorem col_nil (i : Nat) : col [] i = [] := rfl

theorem col_cons (p : Nat × Nat) (ps : List (Nat × Nat)) (i : Nat) :
    col (p :: ps) i = if p.1 = i then p.2 :: col ps i else col ps i := by
  unfold col
  by_cases h : p.1 = i <;> simp [h]

theorem col_append (ps qs : List (Nat × Nat)) (i : Nat) : col (ps ++ qs) i = col ps i ++ col qs i := by
  simp [col]

theorem cnt_cons (p : Nat × Nat) (ps : List (Nat × Nat)) (i : Nat) :
    cnt (p :: ps) i = (if p.1 = i then 1 else 0) + cnt ps i := by
  unfold cnt
  rw [col_cons]
  split <;> simp <;> omega

theorem off_cons (p : Nat × Nat) (ps : List (Nat × Nat)) (k : Nat) :
    off (p :: ps) k = off ps k + (if p.1 < k then 1 else 0) := by
  induction k with
  | zero => simp [off]
  | succ k ih =>
    simp only [off, ih, cnt_cons]
    split <;> split <;> split <;> omega

theorem off_total (n : Nat) (ps : List (Nat × Nat)) (h : ∀ p ∈ ps, p.1 < n) : off ps n = ps.length := by
  induction ps with
  | nil =>
    induction n with
    | zero => rfl
    | succ k ih => simp [off, cnt, col] at *; exact ih
  | cons p ps ih =>
    rw [off_cons, ih (fun q hq => h q (List.mem_cons_of_mem _ hq))]
    have := h p (List.mem_cons_self)
    simp [this]

theorem off_mono (ps : List (Nat × Nat)) (i k : Nat) (h : i < k) : off ps i + cnt ps i ≤ off ps k := by
  induction k with
  | zero => omega
  | succ k ih =>
    by_cases e : i = k
    · subst e; simp [off]
    · have := ih (by omega)
      simp only [off]; omega


/-! ### histogram pass on pairs -/

def cstep (s : Array Nat × Nat) (v : Nat) : Array Nat × Nat :=
  (s.1.setIfInBounds (v + 1) (s.1.getD (v + 1) 0 + 1), s.2 + 1)

theorem count_aux (n : Nat) (ps : List (Nat × Nat)) (a : Array Nat) (num : Nat) (hs : a.size = n + 1)
    (h : ∀ p ∈ ps, p.1 < n) :
    (ps.foldl (fun s p => cstep s p.1) (a, num)).2 = num + ps.length ∧
    (ps.foldl (fun s p => cstep s p.1) (a, num)).1.size = n + 1 ∧
    (∀ k, (ps.foldl (fun s p => cstep s p.1) (a, num)).1.getD (k + 1) 0 = a.getD (k + 1) 0 + cnt ps k) ∧
    (ps.foldl (fun s p => cstep s p.1) (a, num)).1.getD 0 0 = a.getD 0 0 := by
  induction ps generalizing a num with
  | nil => exact ⟨by simp, hs, fun k => by simp [cnt, col], rfl⟩
  | cons p ps ih =>
    have hp := h p List.mem_cons_self
    have ih' := ih (a.setIfInBounds (p.1 + 1) (a.getD (p.1 + 1) 0 + 1)) (num + 1)
      (by simp [hs]) (fun q hq => h q (List.mem_cons_of_mem _ hq))
    simp only [List.foldl_cons, cstep] at ih' ⊢
    refine ⟨by rw [ih'.1]; simp; omega, ih'.2.1, ?_, by rw [ih'.2.2.2, getD_set_ne _ _ _ _ (by omega)]⟩
    intro k
    rw [ih'.2.2.1 k, cnt_cons]
    by_cases e : p.1 = k
    · subst e
      rw [getD_set_eq _ _ _ (by omega), if_pos rfl]; omega
    · rw [getD_set_ne _ _ _ _ (by omega), if_neg e]; omega

/-! ### prefix sums -/

theorem prefixInPlace_succ (m : Nat) (a : Array Nat) :
    Kern.prefixInPlace (m + 1) a =
      (Kern.prefixInPlace m a).setIfInBounds (m + 1)
        ((Kern.prefixInPlace m a).getD (m + 1) 0 + (Kern.prefixInPlace m a).getD m 0) := by
  simp [Kern.prefixInPlace, List.range_succ, List.foldl_append]

theorem prefix_aux (ps : List (Nat × Nat)) (a : Array Nat)
    (h0 : a.getD 0 0 = 0) (hc : ∀ k, a.getD (k + 1) 0 = cnt ps k) (m : Nat) (hm : m < a.size) :
    (Kern.prefixInPlace m a).size = a.size ∧
    (∀ k, k ≤ m → (Kern.prefixInPlace m a).getD k 0 = off ps k) ∧
    (∀ k, m < k → (Kern.prefixInPlace m a).getD k 0 = a.getD k 0) := by
  induction m with
  | zero =>
    refine ⟨by simp [Kern.prefixInPlace], ?_, by simp [Kern.prefixInPlace]⟩
    intro k hk
    have : k = 0 := by omega
    subst this; simpa [Kern.prefixInPlace, off] using h0
  | succ m ih =>
    obtain ⟨i1, i2, i3⟩ := ih (by omega)
    rw [prefixInPlace_succ]
    refine ⟨by simp [i1], ?_, ?_⟩
    · intro k hk
      rw [getD_set]
      by_cases e : k = m + 1
      · subst e
        have : m + 1 < (Kern.prefixInPlace m a).size := by omega
        simp only [this, and_self, if_true]
        rw [i3 (m + 1) (by omega), i2 m (Nat.le_refl _), hc m]
        simp only [off]; omega
      · simp only [e, false_and, if_false]
        exact i2 k (by omega)
    · intro k hk
      rw [getD_set]
      have e : ¬ k = m + 1 := by omega
      simp only [e, false_and, if_false]
      exact i3 k (by omega)

theorem imagePtrInit_spec (n : Nat) (p : Array Nat) :
    (Kern.imagePtrInit n p).size = n ∧ ∀ k, k < n → (Kern.imagePtrInit n p).getD k 0 = p.getD k 0 := by
  unfold Kern.imagePtrInit
  have gen : ∀ m, m ≤ n →
      ((List.range m).foldl (fun ip i => ip.setIfInBounds i (p.getD i 0)) (Array.replicate n 0)).size = n ∧
      ∀ k, k < m → ((List.range m).foldl (fun ip i => ip.setIfInBounds i (p.getD i 0))
        (Array.replicate n 0)).getD k 0 = p.getD k 0 := by
    intro m
    induction m with
    | zero => intro _; simp
    | succ m ih =>
      intro hm
      obtain ⟨i1, i2⟩ := ih (by omega)
      rw [List.range_succ, List.foldl_append]
      simp only [List.foldl_cons, List.foldl_nil]
      refine ⟨by rw [Array.size_setIfInBounds, i1], ?_⟩
      intro k hk
      by_cases e : k = m
      · subst e
        rw [getD_set_eq _ _ _ (by omega)]
      · rw [getD_set_ne _ _ _ _ e]
        exact i2 k (by omega)
  exact gen n (Nat.le_refl _)

def fstep (st : Array Nat × Array Nat) (i : Nat) : Array Nat × Array Nat :=
  (st.1.setIfInBounds (i + 1) (st.1.getD (i + 1) 0 + st.1.getD i 0),
   st.2.setIfInBounds i ((st.1.setIfInBounds (i + 1) (st.1.getD (i + 1) 0 + st.1.getD i 0)).getD i 0))

theorem prefixFused_eq (n : Nat) (a : Array Nat) :
    Kern.prefixFused n a = (List.range n).foldl fstep (a, Array.replicate n 0) := rfl

theorem prefixFused_aux (n : Nat) (a : Array Nat) :
    ∀ m, m ≤ n → m < a.size →
      ((List.range m).foldl fstep (a, Array.replicate n 0)).1 = Kern.prefixInPlace m a ∧
      ((List.range m).foldl fstep (a, Array.replicate n 0)).2.size = n ∧
      ∀ k, k < m → ((List.range m).foldl fstep (a, Array.replicate n 0)).2.getD k 0
        = (Kern.prefixInPlace k a).getD k 0 := by
  intro m
  induction m with
  | zero => intro _ _; simp [Kern.prefixInPlace]
  | succ m ih =>
    intro hm hs
    obtain ⟨i1, i2, i3⟩ := ih (by omega) (by omega)
    rw [List.range_succ, List.foldl_append]
    simp only [List.foldl_cons, List.foldl_nil]
    simp only [fstep]
    rw [i1]
    refine ⟨(prefixInPlace_succ m a).symm, by rw [Array.size_setIfInBounds, i2], ?_⟩
    intro k hk
    by_cases e : k = m
    · subst e
      rw [getD_set_eq _ _ _ (by omega), getD_set_ne _ _ _ _ (by omega)]
    · rw [getD_set_ne _ _ _ _ e]
      exact i3 k (by omega)


/-! ### pointer-bump fill on pairs -/

def fillStep (s : Array Nat × Array Nat) (p : Nat × Nat) : Array Nat × Array Nat :=
  (s.1.setIfInBounds (s.2.getD p.1 0) p.2, s.2.setIfInBounds p.1 (s.2.getD p.1 0 + 1))

theorem fill_aux (n : Nat) (rest : List (Nat × Nat)) (idx ip : Array Nat) (hs : ip.size = n)
    (hv : ∀ p ∈ rest, p.1 < n)
    (hcap : ∀ i, i < n → ip.getD i 0 + cnt rest i ≤ idx.size)
    (hdisj : ∀ i i', i < i' → i' < n → ip.getD i 0 + cnt rest i ≤ ip.getD i' 0) :
    (rest.foldl fillStep (idx, ip)).1.size = idx.size ∧
    (∀ i, i < n → ∀ t, t < cnt rest i →
      (rest.foldl fillStep (idx, ip)).1.getD (ip.getD i 0 + t) 0 = (col rest i).getD t 0) ∧
    (∀ k, (∀ i, i < n → k < ip.getD i 0 ∨ ip.getD i 0 + cnt rest i ≤ k) →
      (rest.foldl fillStep (idx, ip)).1.getD k 0 = idx.getD k 0) := by
  induction rest generalizing idx ip with
  | nil =>
    refine ⟨rfl, ?_, fun _ _ => rfl⟩
    intro i _ t ht
    simp [cnt, col] at ht
  | cons p rest ih =>
    have hp : p.1 < n := hv p List.mem_cons_self
    have hip : ∀ i, (ip.setIfInBounds p.1 (ip.getD p.1 0 + 1)).getD i 0
        = if p.1 = i then ip.getD p.1 0 + 1 else ip.getD i 0 := by
      intro i
      by_cases e : p.1 = i
      · subst e; rw [getD_set_eq _ _ _ (by omega), if_pos rfl]
      · rw [getD_set_ne _ _ _ _ (fun h => e h.symm), if_neg e]
    have hcap' : ∀ i, i < n → (ip.setIfInBounds p.1 (ip.getD p.1 0 + 1)).getD i 0 + cnt rest i
        ≤ (idx.setIfInBounds (ip.getD p.1 0) p.2).size := by
      intro i hi
      have h1 := hcap i hi
      rw [cnt_cons] at h1
      rw [hip, Array.size_setIfInBounds]
      by_cases e : p.1 = i
      · subst e; rw [if_pos rfl] at h1 ⊢; omega
      · rw [if_neg e] at h1 ⊢; omega
    have hdisj' : ∀ i i', i < i' → i' < n →
        (ip.setIfInBounds p.1 (ip.getD p.1 0 + 1)).getD i 0 + cnt rest i
          ≤ (ip.setIfInBounds p.1 (ip.getD p.1 0 + 1)).getD i' 0 := by
      intro i i' h1 h2
      have h3 := hdisj i i' h1 h2
      rw [cnt_cons] at h3
      rw [hip, hip]
      by_cases e : p.1 = i
      · subst e; rw [if_pos rfl] at h3 ⊢; rw [if_neg (by omega)]; omega
      · rw [if_neg e] at h3 ⊢
        by_cases e' : p.1 = i'
        · subst e'; rw [if_pos rfl]; omega
        · rw [if_neg e']; omega
    obtain ⟨r1, r2, r3⟩ := ih (idx.setIfInBounds (ip.getD p.1 0) p.2)
      (ip.setIfInBounds p.1 (ip.getD p.1 0 + 1)) (by rw [Array.size_setIfInBounds, hs])
      (fun q hq => hv q (List.mem_cons_of_mem _ hq)) hcap' hdisj'
    simp only [List.foldl_cons, fillStep] at r1 r2 r3 ⊢
    refine ⟨by rw [r1, Array.size_setIfInBounds], ?_, ?_⟩
    · intro i hi t ht
      rw [cnt_cons] at ht
      rw [col_cons]
      by_cases e : p.1 = i
      · subst e
        rw [if_pos rfl] at ht ⊢
        cases t with
        | zero =>
          refine Eq.trans (r3 (ip.getD p.1 0) ?_) (getD_set_eq _ _ _ ?_)
          · intro i' hi'
            rw [hip]
            by_cases e' : p.1 = i'
            · rw [if_pos e']; omega
            · rw [if_neg e']
              by_cases lt : p.1 < i'
              · have := hdisj p.1 i' lt hi'
                rw [cnt_cons, if_pos rfl] at this; omega
              · have := hdisj i' p.1 (by omega) hp
                rw [cnt_cons, if_neg (fun h => e' h)] at this; omega
          · have := hcap p.1 hp; rw [cnt_cons, if_pos rfl] at this; omega
        | succ t =>
          have := r2 p.1 hp t (by omega)
          rw [hip, if_pos rfl] at this
          rw [List.getD_cons_succ, ← this]
          congr 1; omega
      · rw [if_neg e] at ht ⊢
        have := r2 i hi t (by omega)
        rw [hip, if_neg e] at this
        exact this
    · intro k hk
      have hkv := hk p.1 hp
      rw [cnt_cons, if_pos rfl] at hkv
      rw [r3 k, getD_set_ne _ _ _ _ (by omega)]
      intro i hi
      have h1 := hk i hi
      rw [cnt_cons] at h1
      rw [hip]
      by_cases e : p.1 = i
      · subst e; rw [if_pos rfl] at h1 ⊢; omega
      · rw [if_neg e] at h1 ⊢; omega


/-! ### list-level: prefix sums, flatten, transposeRow as columns of the pair list -/

theorem prefixSums_getD_succ (acc : Nat) (L : List Nat) (k : Nat) (hk : k < L.length) :
    (Graph.prefixSums acc L).getD (k + 1) 0 = (Graph.prefixSums acc L).getD k 0 + L.getD k 0 := by
  induction L generalizing acc k with
  | nil => simp at hk
  | cons x xs ih =>
    cases k with
    | zero =>
      simp only [Graph.prefixSums, List.getD_cons_succ, List.getD_cons_zero]
      exact C19L.renders.prefixSums_getD_zero _ _
    | succ k =>
      simp only [Graph.prefixSums, List.getD_cons_succ]
      exact ih _ k (by simpa using hk)

theorem prefixSums_off (ps : List (Nat × Nat)) (n k : Nat) (hk : k ≤ n) :
    (Graph.prefixSums 0 ((List.range n).map (cnt ps))).getD k 0 = off ps k := by
  induction k with
  | zero => rw [C19L.renders.prefixSums_getD_zero]; rfl
  | succ k ih =>
    rw [prefixSums_getD_succ _ _ _ (by simp; omega), ih (by omega)]
    simp only [off]
    congr 1
    simp [List.getD_eq_getElem?_getD, List.getElem?_map, List.getElem?_range (show k < n by omega)]

theorem off_succ (ps : List (Nat × Nat)) (k : Nat) : off ps (k + 1) = off ps k + cnt ps k := rfl

theorem off_le (ps : List (Nat × Nat)) (i k : Nat) (h : i ≤ k) : off ps i ≤ off ps k := by
  induction k with
  | zero => have : i = 0 := by omega
            subst this; exact Nat.le_refl _
  | succ k ih =>
    by_cases e : i = k + 1
    · subst e; exact Nat.le_refl _
    · have := ih (by omega); rw [off_succ]; omega

theorem flatten_of_segments (ps : List (Nat × Nat)) (n : Nat) (X : List Nat) (hlen : X.length = off ps n)
    (h : ∀ i, i < n → ∀ t, t < cnt ps i → X.getD (off ps i + t) 0 = (col ps i).getD t 0) :
    X = ((List.range n).map (col ps)).flatten := by
  have gen : ∀ m, m ≤ n → X.take (off ps m) = ((List.range m).map (col ps)).flatten := by
    intro m
    induction m with
    | zero => intro _; simp [off]
    | succ m ih =>
      intro hm
      rw [off_succ, List.take_add, ih (by omega), List.range_succ, List.map_append, List.flatten_append]
      congr 1
      simp only [List.map_cons, List.map_nil, List.flatten_cons, List.flatten_nil, List.append_nil]
      have hle : off ps m + cnt ps m ≤ X.length := by
        rw [hlen, ← off_succ]; exact off_le _ _ _ hm
      apply List.ext_getElem
      · simp only [List.length_take, List.length_drop]
        show _ = cnt ps m
        omega
      · intro t h1 h2
        have h2' : t < cnt ps m := h2
        have := h m (by omega) t h2'
        rw [List.getElem_take, List.getElem_drop]
        rw [List.getD_eq_getElem?_getD, List.getD_eq_getElem?_getD,
          List.getElem?_eq_getElem (by omega), List.getElem?_eq_getElem h2] at this
        simpa using this
  have := gen n (Nat.le_refl _)
  rw [← hlen, List.take_length] at this
  exact this

/-- the pairs `(image, domain)` in the order the kernels visit them -/
def pairsOf (R : Nat → List Nat) (l : List Nat) : List (Nat × Nat) :=
  l.flatMap fun j => (R j).map fun v => (v, j)

theorem pairsOf_cons (R : Nat → List Nat) (j : Nat) (l : List Nat) :
    pairsOf R (j :: l) = ((R j).map fun v => (v, j)) ++ pairsOf R l := by
  simp [pairsOf]

theorem col_map_pair (l : List Nat) (k i : Nat) :
    col (l.map fun v => (v, k)) i = List.replicate (l.count i) k := by
  induction l with
  | nil => simp [col]
  | cons x xs ih =>
    rw [List.map_cons, col_cons, ih, List.count_cons]
    by_cases e : x = i
    · subst e; simp [List.replicate_succ]
    · have : (x == i) = false := by simp [e]
      simp [e, this]

theorem transposeRow_col_aux (R : Nat → List Nat) (i m k : Nat) :
    ((((List.range' k m).map R).zipIdx k).flatMap (C19L.renders.tF i)) = col (pairsOf R (List.range' k m)) i := by
  induction m generalizing k with
  | zero => simp [pairsOf, col]
  | succ m ih =>
    rw [List.range'_succ, List.map_cons, List.zipIdx_cons, List.flatMap_cons, pairsOf_cons, col_append,
      ih (k + 1), C19L.renders.tF_apply, col_map_pair]

theorem transposeRow_col (R : Nat → List Nat) (nd i : Nat) :
    Graph.transposeRow ((List.range nd).map R) i = col (pairsOf R (List.range nd)) i := by
  rw [C19L.renders.transposeRow_eq, List.range_eq_range']
  exact transposeRow_col_aux R i nd 0


/-! ### injectifyTranspose = transpose of the deduplicated rows -/

theorem count_dedup (l : List Nat) (i : Nat) : (Graph.dedup l).count i = if l.contains i then 1 else 0 := by
  by_cases h : i ∈ l
  · have h1 : i ∈ Graph.dedup l := (C19L.renders.mem_dedup l i).2 h
    have h2 := List.count_pos_iff.2 h1
    have h3 := (List.nodup_iff_count.1 (C19L.renders.nodup_dedup l)) i
    have : l.contains i = true := by simpa using h
    rw [this]; simp; omega
  · have h1 : i ∉ Graph.dedup l := fun h' => h ((C19L.renders.mem_dedup l i).1 h')
    have : l.contains i = false := by simpa using h
    rw [this, List.count_eq_zero_of_not_mem h1]; simp

theorem injT_eq_aux (adj : List (List Nat)) (i k : Nat) :
    (adj.zipIdx k).filterMap (C19L.renders.iF i)
      = ((adj.map Graph.dedup).zipIdx k).flatMap (C19L.renders.tF i) := by
  induction adj generalizing k with
  | nil => simp
  | cons x xs ih =>
    rw [List.map_cons, List.zipIdx_cons, List.zipIdx_cons, List.flatMap_cons, C19L.renders.tF_apply,
      count_dedup, ← ih (k + 1)]
    by_cases hx : x.contains i = true
    · rw [List.filterMap_cons_some (by rw [C19L.renders.iF_apply, if_pos hx]), if_pos hx]
      rfl
    · rw [List.filterMap_cons_none (by rw [C19L.renders.iF_apply, if_neg hx]), if_neg hx]
      rfl

theorem transpose_map_dedup (n : Nat) (adj : List (List Nat)) :
    Graph.transpose ⟨n, adj.map Graph.dedup⟩ = Graph.injectifyTranspose ⟨n, adj⟩ := by
  simp only [Graph.transpose, Graph.injectifyTranspose, Graph.nDom, List.length_map]
  congr 1
  apply List.map_congr_left
  intro i _
  rw [C19L.renders.transposeRow_eq, C19L.renders.injTransposeRow_eq, injT_eq_aux]

/-! ### the walks as folds over the pair list -/

/-- the row the kernels see for domain node `j` -/
def rowOf (A : Adjactor) (inj : Bool) (j : Nat) : List Nat :=
  if inj then Graph.dedup (A.images j) else A.images j

theorem mask0_getD (n k : Nat) : (Array.replicate n false).getD k false = false := by
  rw [Array.getD_eq_getD_getElem?, Array.getElem?_replicate]
  split <;> rfl

theorem walk_fold {σ : Type} (A : Adjactor) (hA : A.Lawful) (inj : Bool) (f : Nat → σ → Nat → σ)
    (l : List Nat) (s : σ) (hr : ∀ j, j ∈ l → ∀ v, v ∈ A.images j → v < A.nImg) :
    l.foldl (fun st j => Kern.walk A inj j (f j) st) (s, Array.replicate A.nImg false)
      = ((pairsOf (rowOf A inj) l).foldl (fun s p => f p.2 s p.1) s, Array.replicate A.nImg false) := by
  induction l generalizing s with
  | nil => rfl
  | cons j l ih =>
    rw [List.foldl_cons, C19L.walk.walk_spec A hA inj j (f j) s _ (mask0_getD _)
      (by simpa using hr j List.mem_cons_self), ih _ (fun j' hj' => hr j' (List.mem_cons_of_mem _ hj')),
      pairsOf_cons, List.foldl_append, List.foldl_map]
    rfl


/-! ### assembly -/

theorem images_lt (A : Adjactor) (hwf : A.toGraph.wf = true) :
    ∀ j, j ∈ List.range A.nDom → ∀ v, v ∈ A.images j → v < A.nImg := by
  intro j hj v hv
  have h := hwf
  simp only [Graph.wf, Adjactor.toGraph, List.all_eq_true, List.mem_map] at h
  exact of_decide_eq_true (h (A.images j) ⟨j, hj, rfl⟩ v hv)

theorem mem_rowOf (A : Adjactor) (inj : Bool) (j v : Nat) (h : v ∈ rowOf A inj j) : v ∈ A.images j := by
  unfold rowOf at h
  cases inj
  · simpa using h
  · exact (C19L.renders.mem_dedup _ _).1 (by simpa using h)

theorem pairs_lt (A : Adjactor) (hwf : A.toGraph.wf = true) (inj : Bool) :
    ∀ p, p ∈ pairsOf (rowOf A inj) (List.range A.nDom) → p.1 < A.nImg := by
  intro p hp
  simp only [pairsOf, List.mem_flatMap, List.mem_map] at hp
  obtain ⟨j, hj, v, hv, rfl⟩ := hp
  exact images_lt A hwf j hj v (mem_rowOf A inj j v hv)

theorem colCount_eq (A : Adjactor) (hA : A.Lawful) (hwf : A.toGraph.wf = true) (inj : Bool) :
    Kern.colCount A inj =
      ((pairsOf (rowOf A inj) (List.range A.nDom)).foldl (fun s p => cstep s p.1)
        (Array.replicate (A.nImg + 1) 0, 0), Array.replicate A.nImg false) := by
  unfold Kern.colCount
  exact walk_fold A hA inj (fun _ s v => cstep s v) (List.range A.nDom) _ (images_lt A hwf)

theorem colFill_eq (A : Adjactor) (hA : A.Lawful) (hwf : A.toGraph.wf = true) (inj : Bool) (num : Nat)
    (ip : Array Nat) :
    Kern.colFill A inj num ip (Array.replicate A.nImg false) =
      ((pairsOf (rowOf A inj) (List.range A.nDom)).foldl fillStep (Array.replicate num 0, ip)).1 := by
  unfold Kern.colFill
  have := walk_fold A hA inj (fun j s v => fillStep s (v, j)) (List.range A.nDom)
    (Array.replicate num 0, ip) (images_lt A hwf)
  exact congrArg (fun x => x.1.1) this


theorem renderCols_form (A : Adjactor) (hA : A.Lawful) (hwf : A.toGraph.wf = true) (inj : Bool) :
    ∃ ip : Array Nat, ip.size = A.nImg ∧
      (∀ k, k < A.nImg → ip.getD k 0 = off (pairsOf (rowOf A inj) (List.range A.nDom)) k) ∧
      (Kern.prefixInPlace A.nImg ((pairsOf (rowOf A inj) (List.range A.nDom)).foldl (fun s p => cstep s p.1)
        (Array.replicate (A.nImg + 1) 0, 0)).1).size = A.nImg + 1 ∧
      (∀ k, k ≤ A.nImg → (Kern.prefixInPlace A.nImg ((pairsOf (rowOf A inj) (List.range A.nDom)).foldl
        (fun s p => cstep s p.1) (Array.replicate (A.nImg + 1) 0, 0)).1).getD k 0
          = off (pairsOf (rowOf A inj) (List.range A.nDom)) k) ∧
      Kern.renderCols A inj =
        { nImg := A.nDom,
          ptr := Kern.prefixInPlace A.nImg ((pairsOf (rowOf A inj) (List.range A.nDom)).foldl
            (fun s p => cstep s p.1) (Array.replicate (A.nImg + 1) 0, 0)).1,
          idx := ((pairsOf (rowOf A inj) (List.range A.nDom)).foldl fillStep
            (Array.replicate (off (pairsOf (rowOf A inj) (List.range A.nDom)) A.nImg) 0, ip)).1 } := by
  generalize hps : pairsOf (rowOf A inj) (List.range A.nDom) = ps
  have hlt : ∀ p, p ∈ ps → p.1 < A.nImg := by rw [← hps]; exact pairs_lt A hwf inj
  obtain ⟨c1, c2, c3, c4⟩ := count_aux A.nImg ps (Array.replicate (A.nImg + 1) 0) 0 (by simp) hlt
  have hcc := colCount_eq A hA hwf inj
  rw [hps] at hcc
  generalize hC : (ps.foldl (fun s p => cstep s p.1) (Array.replicate (A.nImg + 1) 0, 0)) = CC at *
  have h0 : CC.1.getD 0 0 = 0 := by rw [c4, rep0_getD]
  have hc : ∀ k, CC.1.getD (k + 1) 0 = cnt ps k := by intro k; rw [c3, rep0_getD, Nat.zero_add]
  obtain ⟨p1, p2, p3⟩ := prefix_aux ps CC.1 h0 hc A.nImg (by omega)
  have hnum : CC.2 = off ps A.nImg := by rw [c1, off_total A.nImg ps hlt]; simp
  cases inj
  · obtain ⟨q1, q2⟩ := imagePtrInit_spec A.nImg (Kern.prefixInPlace A.nImg CC.1)
    refine ⟨Kern.imagePtrInit A.nImg (Kern.prefixInPlace A.nImg CC.1), q1, ?_, by omega, p2, ?_⟩
    · intro k hk; rw [q2 k hk, p2 k (by omega)]
    · unfold Kern.renderCols
      simp only [hcc, Bool.false_eq_true, if_false]
      rw [colFill_eq A hA hwf false, hps, p2 _ (Nat.le_refl _)]
  · obtain ⟨f1, f2, f3⟩ := prefixFused_aux A.nImg CC.1 A.nImg (Nat.le_refl _) (by omega)
    rw [← prefixFused_eq] at f1 f2 f3
    refine ⟨(Kern.prefixFused A.nImg CC.1).2, f2, ?_, by omega, p2, ?_⟩
    · intro k hk
      rw [f3 k hk]
      exact (prefix_aux ps CC.1 h0 hc k (by omega)).2.1 k (Nat.le_refl _)
    · unfold Kern.renderCols
      simp only [hcc, if_true]
      rw [colFill_eq A hA hwf true, hps, f1, hnum]

theorem renderCols_rows (A : Adjactor) (hA : A.Lawful) (hwf : A.toGraph.wf = true) (inj : Bool) :
    Kern.renderCols A inj =
      Arrays.ofGraph (Graph.transpose ⟨A.nImg, (List.range A.nDom).map (rowOf A inj)⟩) := by
  obtain ⟨ip, hs, hip, hP1, hP2, heq⟩ := renderCols_form A hA hwf inj
  rw [heq]
  generalize hps : pairsOf (rowOf A inj) (List.range A.nDom) = ps at *
  have hlt : ∀ p, p ∈ ps → p.1 < A.nImg := by rw [← hps]; exact pairs_lt A hwf inj
  have hrow : ∀ i, Graph.transposeRow ((List.range A.nDom).map (rowOf A inj)) i = col ps i := by
    intro i; rw [transposeRow_col, hps]
  obtain ⟨r1, r2, _⟩ := fill_aux A.nImg ps (Array.replicate (off ps A.nImg) 0) ip hs hlt
    (by intro i hi; rw [hip i hi, Array.size_replicate]; exact off_mono ps i A.nImg hi)
    (by intro i i' h1 h2; rw [hip i (by omega), hip i' h2]; exact off_mono ps i i' h1)
  simp only [Arrays.ofGraph, Graph.transpose, Graph.nDom, Graph.domainPtr, Graph.imageIdx, List.length_map,
    List.length_range, List.map_map]
  have hfun1 : (List.length ∘ Graph.transposeRow ((List.range A.nDom).map (rowOf A inj))) = cnt ps := by
    funext i; simp only [Function.comp, hrow]; rfl
  have hfun2 : Graph.transposeRow ((List.range A.nDom).map (rowOf A inj)) = col ps := funext hrow
  rw [hfun1, hfun2]
  congr 1
  · apply arr_ext_getD
    · rw [hP1]; simp [C19L.renders.prefixSums_length]
    · intro k hk
      rw [hP2 k (by omega)]
      rw [toArray_getD, prefixSums_off ps A.nImg k (by omega)]
  · rw [← Array.toList_inj]
    apply flatten_of_segments ps A.nImg
    · rw [Array.length_toList, r1, Array.size_replicate]
    · intro i hi t ht
      have := r2 i hi t ht
      rw [hip i hi] at this
      rw [← this]
      simp [Array.getD_eq_getD_getElem?, List.getD_eq_getElem?_getD]

theorem renderCols_spec (A : Adjactor) (hA : A.Lawful) (hwf : A.toGraph.wf = true) (inj : Bool) :
    Kern.renderCols A inj = Arrays.ofGraph (if inj then A.toGraph.injectifyTranspose else A.toGraph.transpose) := by
  rw [renderCols_rows A hA hwf inj]
  cases inj
  · simp only [Bool.false_eq_true, if_false]
    rfl
  · simp only [if_true]
    have := transpose_map_dedup A.nImg ((List.range A.nDom).map A.images)
    rw [List.map_map] at this
    exact congrArg Arrays.ofGraph this

end C19L.colk
