import FeatModel.Model.Solver.Control
/-! Helper lemmas for C07: the decision logic of the convergence-control state machine (pure case analysis) -/
namespace FeatModel.Solver
set_option linter.unusedSectionVars false

variable {α : Type} [Mul α] [LE α] [LT α] [DecidableLE α] [DecidableLT α]

/-- the documented convergence criterion as a proposition -/
def Converged (c : Config α) (defInit d : α) : Prop :=
  d ≤ c.tolAbs ∧ (d ≤ c.tolRel * defInit ∨ d ≤ c.tolAbsLow)

/-- the divergence criterion as a proposition -/
def Diverged (c : Config α) (defInit d : α) : Prop :=
  c.divAbs < d ∨ c.divRel * defInit < d

theorem isConverged_iff (c : Config α) (d0 d : α) : isConverged c d0 d = true ↔ Converged c d0 d := by
  simp [isConverged, Converged]

theorem isDiverged_iff (c : Config α) (d0 d : α) : isDiverged c d0 d = true ↔ Diverged c d0 d := by
  simp [isDiverged, Diverged]

/-- `_analyse_defect` only touches the stagnation counter -/
theorem analyse_frame (c : Config α) (s s' : State α) (chk : Bool) (st : Status)
    (h : analyseDefect c s chk = (st, s')) :
    s'.defInit = s.defInit ∧ s'.defCur = s.defCur ∧ s'.defPrev = s.defPrev ∧ s'.numIter = s.numIter ∧
      s'.curFin = s.curFin := by
  unfold analyseDefect at h
  repeat' split at h
  all_goals (simp only [Prod.mk.injEq] at h; obtain ⟨_, rfl⟩ := h; simp)

/-- complete characterisation of the status returned by `_analyse_defect` -/
theorem analyse_spec (c : Config α) (s s' : State α) (chk : Bool) (st : Status)
    (h : analyseDefect c s chk = (st, s')) :
    (st = .aborted ↔ s.curFin = false) ∧
    (st = .diverged ↔ s.curFin = true ∧ Diverged c s.defInit s.defCur) ∧
    (st = .success ↔ s.curFin = true ∧ ¬ Diverged c s.defInit s.defCur ∧ c.minIter ≤ s.numIter ∧
      Converged c s.defInit s.defCur) ∧
    (st = .maxIter ↔ s.curFin = true ∧ ¬ Diverged c s.defInit s.defCur ∧ c.minIter ≤ s.numIter ∧
      ¬ Converged c s.defInit s.defCur ∧ c.maxIter ≤ s.numIter) ∧
    (st = .stagnated → chk = true ∧ 0 < c.minStag ∧ c.stagRate * s.defPrev ≤ s.defCur ∧
      s'.numStag = s.numStag + 1 ∧ c.minStag ≤ s'.numStag ∧ s.numIter < c.maxIter ∧ c.minIter ≤ s.numIter ∧
      ¬ Converged c s.defInit s.defCur ∧ ¬ Diverged c s.defInit s.defCur) ∧
    (st = .progress → s.curFin = true ∧ ¬ Diverged c s.defInit s.defCur ∧
      (s.numIter < c.minIter ∨ (¬ Converged c s.defInit s.defCur ∧ s.numIter < c.maxIter))) ∧
    st ≠ .undefined := by
  unfold analyseDefect at h
  rw [← isConverged_iff, ← isDiverged_iff]
  repeat' split at h
  all_goals (simp only [Prod.mk.injEq] at h; obtain ⟨rfl, rfl⟩ := h)
  all_goals simp_all
  all_goals omega

/-- how the stagnation counter moves in one `_analyse_defect` call -/
theorem analyse_stag (c : Config α) (s s' : State α) (st : Status)
    (h : analyseDefect c s true = (st, s')) :
    s'.numStag = s.numStag ∨ s'.numStag = 0 ∨
      (s'.numStag = s.numStag + 1 ∧ c.stagRate * s.defPrev ≤ s.defCur) := by
  unfold analyseDefect at h
  repeat' split at h
  all_goals (simp only [Prod.mk.injEq] at h; obtain ⟨rfl, rfl⟩ := h)
  all_goals simp_all


/-- `_set_new_defect` = `_analyse_defect` of an intermediate state, except that a `success` resting on a defect that was
    not computed is reported as `max_iter` -/
theorem setNew_analyse (c : Config α) (s s' : State α) (fin : Bool) (d : α) (st : Status)
    (h : setNewDefect c s fin d = (st, s')) :
    ∃ (s2 : State α) (stRaw : Status), analyseDefect c s2 true = (stRaw, s') ∧
      s2.numIter = s.numIter + 1 ∧ s2.defPrev = s.defCur ∧ s2.numStag = s.numStag ∧ s2.defInit = s.defInit ∧
      (calcDef c (s.numIter + 1) = true → s2.defCur = d ∧ s2.curFin = fin) ∧
      (calcDef c (s.numIter + 1) = false → s2.defCur = s.defCur ∧ s2.curFin = s.curFin) ∧
      ((st = stRaw ∧ (st = .success → calcDef c (s.numIter + 1) = true)) ∨
        (stRaw = .success ∧ st = .maxIter ∧ calcDef c (s.numIter + 1) = false)) := by
  unfold setNewDefect at h
  simp only at h
  rcases hraw : setNewDefectRaw c s fin d with ⟨stRaw, sR⟩
  rw [hraw] at h
  unfold setNewDefectRaw at hraw
  simp only at hraw
  by_cases hc : calcDef c (s.numIter + 1) = true
  · rw [hc] at h
    simp only [hc] at hraw
    simp only [Bool.not_true, Bool.false_and, Bool.false_eq_true, ↓reduceIte, Prod.mk.injEq] at h hraw
    obtain ⟨h1, h2⟩ := h
    subst h1; subst h2
    exact ⟨_, stRaw, hraw, rfl, rfl, rfl, rfl, fun _ => ⟨rfl, rfl⟩, fun e => absurd (hc.symm.trans e) (by decide),
      Or.inl ⟨rfl, fun _ => hc⟩⟩
  · have hc' : calcDef c (s.numIter + 1) = false := by simpa using hc
    rw [hc'] at h
    simp only [hc'] at hraw
    simp only [Bool.not_false, Bool.true_and, decide_eq_true_eq, Bool.false_eq_true, ↓reduceIte] at h hraw
    by_cases hs : stRaw = .success
    · subst hs
      simp only [↓reduceIte, Prod.mk.injEq] at h
      obtain ⟨h1, h2⟩ := h
      subst h1; subst h2
      exact ⟨_, .success, hraw, rfl, rfl, rfl, rfl, fun e => absurd (hc'.symm.trans e) (by decide), fun _ => ⟨rfl, rfl⟩,
        Or.inr ⟨rfl, rfl, hc'⟩⟩
    · rw [if_neg hs] at h
      simp only [Prod.mk.injEq] at h
      obtain ⟨h1, h2⟩ := h
      subst h1; subst h2
      exact ⟨_, stRaw, hraw, rfl, rfl, rfl, rfl, fun e => absurd (hc'.symm.trans e) (by decide), fun _ => ⟨rfl, rfl⟩,
        Or.inl ⟨rfl, fun e => absurd e hs⟩⟩

/-- bookkeeping of `_set_new_defect` -/
theorem setNew_frame (c : Config α) (s s' : State α) (fin : Bool) (d : α) (st : Status)
    (h : setNewDefect c s fin d = (st, s')) :
    s'.numIter = s.numIter + 1 ∧ s'.defInit = s.defInit ∧ s'.defPrev = s.defCur ∧
      (calcDef c (s.numIter + 1) = true → s'.defCur = d ∧ s'.curFin = fin) ∧
      (calcDef c (s.numIter + 1) = false → s'.defCur = s.defCur ∧ s'.curFin = s.curFin) := by
  obtain ⟨s2, stRaw, ha, hn, hp, _, hi, hc1, hc2, _⟩ := setNew_analyse c s s' fin d st h
  obtain ⟨h1, h2, h3, h4, h5⟩ := analyse_frame c _ _ _ _ ha
  refine ⟨by omega, by rw [h1, hi], by rw [h3, hp], fun hc => ?_, fun hc => ?_⟩
  · have := hc1 hc
    exact ⟨by rw [h2, this.1], by rw [h5, this.2]⟩
  · have := hc2 hc
    exact ⟨by rw [h2, this.1], by rw [h5, this.2]⟩

theorem calcDef_false_iters (c : Config α) (k : Nat) (h : calcDef c k = false) : c.maxIter ≤ c.minIter := by
  unfold calcDef at h
  simp only [Bool.or_eq_false_iff, decide_eq_false_iff_not] at h
  omega

/-- complete reading of a `_set_new_defect` step in terms of the resulting state `s'`: `stRaw` is the verdict of
    `_analyse_defect`; the reported status equals it, except that a `success` on a defect that was not computed is
    reported as `max_iter` -/
theorem setNew_spec (c : Config α) (s s' : State α) (fin : Bool) (d : α) (st : Status)
    (h : setNewDefect c s fin d = (st, s')) :
    ∃ stRaw : Status,
      (stRaw = .aborted ↔ s'.curFin = false) ∧
      (stRaw = .diverged ↔ s'.curFin = true ∧ Diverged c s'.defInit s'.defCur) ∧
      (stRaw = .success ↔ s'.curFin = true ∧ ¬ Diverged c s'.defInit s'.defCur ∧ c.minIter ≤ s'.numIter ∧
        Converged c s'.defInit s'.defCur) ∧
      (stRaw = .maxIter ↔ s'.curFin = true ∧ ¬ Diverged c s'.defInit s'.defCur ∧ c.minIter ≤ s'.numIter ∧
        ¬ Converged c s'.defInit s'.defCur ∧ c.maxIter ≤ s'.numIter) ∧
      (stRaw = .stagnated → 0 < c.minStag ∧ c.stagRate * s'.defPrev ≤ s'.defCur ∧ s'.numStag = s.numStag + 1 ∧
        c.minStag ≤ s'.numStag ∧ s'.numIter < c.maxIter ∧ c.minIter ≤ s'.numIter ∧
        ¬ Converged c s'.defInit s'.defCur ∧ ¬ Diverged c s'.defInit s'.defCur) ∧
      stRaw ≠ .undefined ∧
      ((st = stRaw ∧ (st = .success → calcDef c (s.numIter + 1) = true)) ∨
        (stRaw = .success ∧ st = .maxIter ∧ calcDef c (s.numIter + 1) = false)) := by
  obtain ⟨s2, stRaw, ha, _, _, hs, _, _, _, hcase⟩ := setNew_analyse c s s' fin d st h
  obtain ⟨f1, f2, f3, f4, f5⟩ := analyse_frame c _ _ _ _ ha
  have hsp := analyse_spec c _ _ _ _ ha
  rw [← f1, ← f2, ← f3, ← f4, ← f5, hs] at hsp
  obtain ⟨h1, h2, h3, h4, h5, _, h7⟩ := hsp
  exact ⟨stRaw, h1, h2, h3, h4, fun e => by have := h5 e; exact ⟨this.2.1, this.2.2.1, this.2.2.2.1,
    this.2.2.2.2.1, this.2.2.2.2.2.1, this.2.2.2.2.2.2.1, this.2.2.2.2.2.2.2.1, this.2.2.2.2.2.2.2.2⟩, h7, hcase⟩

/-- bookkeeping of `_update_defect` -/
theorem update_frame (c : Config α) (s s' : State α) (fin : Bool) (d : α) (st : Status)
    (h : updateDefect c s fin d = (st, s')) :
    s'.numIter = s.numIter + 1 ∧ s'.defInit = s.defInit ∧ s'.defPrev = s.defCur ∧ s'.defCur = d ∧
      s'.curFin = fin := by
  unfold updateDefect at h
  have hf := analyse_frame c _ _ _ _ h
  simp_all

/-- one control step, either variant -/
def ctlStep (c : Config α) (upd : Bool) (s : State α) (fin : Bool) (d : α) : Status × State α :=
  if upd then updateDefect c s fin d else setNewDefect c s fin d

/-- invariant tying the stagnation counter to the defect trace (latest first) -/
def StagInv (c : Config α) (s : State α) (tr : List α) : Prop :=
  tr.head? = some s.defCur ∧ (c.minStag = 0 ∨ s.numIter < c.minIter → s.numStag = 0) ∧ s.numStag ≤ stagRun c tr

theorem stagRun_cons (c : Config α) (d1 d0 : α) (rest : List α) :
    stagRun c (d1 :: d0 :: rest) = if c.stagRate * d0 ≤ d1 then stagRun c (d0 :: rest) + 1 else 0 := rfl

/-- the step function as `analyseDefect` of an intermediate state; `stRaw` is what `_analyse_defect` returned, which
    differs from the reported status only for a `success` on a defect that was not computed (reported `max_iter`) -/
theorem ctlStep_eq (c : Config α) (upd : Bool) (s s' : State α) (fin : Bool) (d : α) (st : Status)
    (h : ctlStep c upd s fin d = (st, s')) :
    ∃ (s2 : State α) (stRaw : Status), analyseDefect c s2 true = (stRaw, s') ∧ s2.numIter = s.numIter + 1 ∧
      s2.defPrev = s.defCur ∧ s2.numStag = s.numStag ∧ s2.defInit = s.defInit ∧
      (st = stRaw ∨ (stRaw = .success ∧ st = .maxIter ∧ upd = false ∧ calcDef c (s.numIter + 1) = false)) := by
  unfold ctlStep at h
  cases upd
  · simp only [Bool.false_eq_true, ↓reduceIte] at h
    obtain ⟨s2, stRaw, ha, hn, hp, hs, hi, _, _, hcase⟩ := setNew_analyse c s s' fin d st h
    refine ⟨s2, stRaw, ha, hn, hp, hs, hi, ?_⟩
    rcases hcase with ⟨e, _⟩ | ⟨e1, e2, e3⟩
    · exact Or.inl e
    · exact Or.inr ⟨e1, e2, rfl, e3⟩
  · simp only [↓reduceIte] at h
    unfold updateDefect at h
    exact ⟨_, st, h, rfl, rfl, rfl, rfl, Or.inl rfl⟩

theorem analyse_inv (c : Config α) (s2 s' : State α) (st : Status) (rest : List α)
    (h : analyseDefect c s2 true = (st, s'))
    (hzero : c.minStag = 0 ∨ s2.numIter ≤ c.minIter → s2.numStag = 0)
    (hle : s2.numStag ≤ stagRun c (s2.defPrev :: rest))
    (hst : st = .progress ∨ st = .stagnated) :
    (c.minStag = 0 ∨ s'.numIter < c.minIter → s'.numStag = 0) ∧
      s'.numStag ≤ stagRun c (s'.defCur :: s2.defPrev :: rest) := by
  unfold analyseDefect at h
  rw [stagRun_cons]
  repeat' split at h
  all_goals (simp only [Prod.mk.injEq] at h; obtain ⟨rfl, rfl⟩ := h)
  all_goals simp_all
  all_goals omega

theorem ctlStep_inv (c : Config α) (upd : Bool) (s s' : State α) (fin : Bool) (d : α) (st : Status) (tr : List α)
    (hinv : StagInv c s tr) (h : ctlStep c upd s fin d = (st, s')) (hst : st = .progress ∨ st = .stagnated) :
    StagInv c s' (s'.defCur :: tr) := by
  obtain ⟨s2, stRaw, ha, hn, hp, hs, _, hcase⟩ := ctlStep_eq c upd s s' fin d st h
  have hraw : st = stRaw := by
    rcases hcase with e | ⟨_, e, _, _⟩
    · exact e
    · rcases hst with e' | e' <;> rw [e'] at e <;> cases e
  subst hraw
  have h := ha
  obtain ⟨hhead, hzero, hle⟩ := hinv
  cases tr with
  | nil => simp at hhead
  | cons d0 rest =>
    simp only [List.head?_cons, Option.some.injEq] at hhead
    subst hhead
    rw [← hp]
    have := analyse_inv c s2 s' st rest h (by intro hz; rw [hs]; apply hzero; omega) (by rw [hp, hs]; exact hle) hst
    exact ⟨rfl, this.1, this.2⟩


theorem feed_cons (c : Config α) (upd : Bool) (st : Status) (s : State α) (tr : List α) (fin : Bool) (d : α)
    (ds : List (Bool × α)) :
    feed c upd st s tr ((fin, d) :: ds) =
      if st ≠ .progress then ([], s, tr)
      else ((ctlStep c upd s fin d).1 ::
              (feed c upd (ctlStep c upd s fin d).1 (ctlStep c upd s fin d).2
                ((ctlStep c upd s fin d).2.defCur :: tr) ds).1,
            (feed c upd (ctlStep c upd s fin d).1 (ctlStep c upd s fin d).2
                ((ctlStep c upd s fin d).2.defCur :: tr) ds).2) := by
  simp only [feed, ctlStep]

theorem feed_nil_out (c : Config α) (upd : Bool) (st : Status) (s : State α) (tr : List α) (ds : List (Bool × α))
    (h : (feed c upd st s tr ds).1 = []) : (feed c upd st s tr ds).2 = (s, tr) := by
  cases ds with
  | nil => simp [feed]
  | cons a ds =>
    obtain ⟨fin, d⟩ := a
    rw [feed_cons] at h ⊢
    split at h
    · rw [if_pos (by assumption)]
    · simp at h

theorem feed_nonprogress (c : Config α) (upd : Bool) (st : Status) (s : State α) (tr : List α)
    (ds : List (Bool × α)) (h : st ≠ .progress) : feed c upd st s tr ds = ([], s, tr) := by
  cases ds with
  | nil => simp [feed]
  | cons a ds => obtain ⟨fin, d⟩ := a; rw [feed_cons, if_pos h]

/-- the invariant survives a whole `feed` as long as the last status is `progress` or `stagnated` -/
theorem feed_inv (c : Config α) (upd : Bool) (ds : List (Bool × α)) :
    ∀ (s : State α) (tr : List α), StagInv c s tr →
      ∀ stl, (feed c upd .progress s tr ds).1.getLast? = some stl → (stl = .progress ∨ stl = .stagnated) →
        StagInv c (feed c upd .progress s tr ds).2.1 (feed c upd .progress s tr ds).2.2 := by
  induction ds with
  | nil => intro s tr _ stl h; simp [feed] at h
  | cons a ds ih =>
    obtain ⟨fin, d⟩ := a
    intro s tr hinv stl hlast hst
    rw [feed_cons] at hlast ⊢
    simp only [ne_eq, not_true_eq_false, ↓reduceIte] at hlast ⊢
    generalize hr : ctlStep c upd s fin d = r at hlast ⊢
    obtain ⟨st1, s1⟩ := r
    simp only at hlast ⊢
    by_cases hp : st1 = .progress
    · subst hp
      have hinv1 : StagInv c s1 (s1.defCur :: tr) := ctlStep_inv c upd s s1 fin d _ tr hinv hr (Or.inl rfl)
      cases hrest : (feed c upd .progress s1 (s1.defCur :: tr) ds).1 with
      | nil =>
        rw [feed_nil_out c upd _ _ _ _ hrest]
        exact hinv1
      | cons b l =>
        rw [hrest] at hlast
        have hl : (feed c upd .progress s1 (s1.defCur :: tr) ds).1.getLast? = some stl := by
          rw [hrest]; simpa [List.getLast?_cons_cons] using hlast
        exact ih s1 _ hinv1 stl hl hst
    · rw [feed_nonprogress c upd st1 s1 _ ds hp] at hlast ⊢
      simp only [List.getLast?_singleton, Option.some.injEq] at hlast
      subst hlast
      exact ctlStep_inv c upd s s1 fin d _ tr hinv hr hst

/-- a step that returns `progress` has not yet reached `max(min_iter, max_iter)` iterations -/
theorem analyse_progress_bound (c : Config α) (s s' : State α) (chk : Bool)
    (h : analyseDefect c s chk = (.progress, s')) : s.numIter < max c.minIter c.maxIter := by
  have := (analyse_spec c s s' chk _ h).2.2.2.2.2.1 rfl
  omega

theorem setNew_progress_bound (c : Config α) (s s' : State α) (fin : Bool) (d : α)
    (h : setNewDefect c s fin d = (.progress, s')) : s'.numIter < max c.minIter c.maxIter := by
  have h' : ctlStep c false s fin d = (.progress, s') := h
  obtain ⟨s2, stRaw, ha, hn, _, _, _, hcase⟩ := ctlStep_eq c false s s' fin d _ h'
  have hf := analyse_frame c _ _ _ _ ha
  have hraw : stRaw = .progress := by
    rcases hcase with e | ⟨_, e, _, _⟩
    · exact e.symm
    · cases e
  subst hraw
  have := analyse_progress_bound c _ _ _ ha
  omega

/-- `_set_initial_defect` -/
theorem setInitial_spec (c : Config α) (prev : State α) (fin : Bool) (d : α) (st : Status) (s : State α)
    (h : setInitialDefect c prev fin d = (st, s)) :
    s = { defInit := d, defCur := d, defPrev := d, numIter := 0, numStag := 0, curFin := fin } ∧
    (st = .aborted ↔ fin = false) ∧
    (st = .success ↔ fin = true ∧ (d < c.tolAbsLow ∨ d ≤ c.eps2)) ∧
    (st = .progress ↔ fin = true ∧ ¬ d < c.tolAbsLow ∧ ¬ d ≤ c.eps2) ∧
    (st = .aborted ∨ st = .success ∨ st = .progress) := by
  unfold setInitialDefect at h
  repeat' split at h
  all_goals (simp only [Prod.mk.injEq] at h; obtain ⟨rfl, rfl⟩ := h)
  all_goals simp_all

/-- a `feed` whose last status is `stagnated` ends with the counter at or above `min_stag_iter` -/
theorem feed_last_stagnated (c : Config α) (upd : Bool) (ds : List (Bool × α)) :
    ∀ (s : State α) (tr : List α), (feed c upd .progress s tr ds).1.getLast? = some .stagnated →
      0 < c.minStag ∧ c.minStag ≤ (feed c upd .progress s tr ds).2.1.numStag := by
  induction ds with
  | nil => intro s tr h; simp [feed] at h
  | cons a ds ih =>
    obtain ⟨fin, d⟩ := a
    intro s tr hlast
    rw [feed_cons] at hlast ⊢
    simp only [ne_eq, not_true_eq_false, ↓reduceIte] at hlast ⊢
    generalize hr : ctlStep c upd s fin d = r at hlast ⊢
    obtain ⟨st1, s1⟩ := r
    simp only at hlast ⊢
    by_cases hp : st1 = .progress
    · subst hp
      cases hrest : (feed c upd .progress s1 (s1.defCur :: tr) ds).1 with
      | nil => rw [hrest] at hlast; simp at hlast
      | cons b l =>
        rw [hrest] at hlast
        have hl : (feed c upd .progress s1 (s1.defCur :: tr) ds).1.getLast? = some .stagnated := by
          rw [hrest]; simpa [List.getLast?_cons_cons] using hlast
        exact ih s1 _ hl
    · rw [feed_nonprogress c upd st1 s1 _ ds hp] at hlast ⊢
      simp only [List.getLast?_singleton, Option.some.injEq] at hlast
      subst hlast
      obtain ⟨s2, stRaw, ha, _, _, _, _, hcase⟩ := ctlStep_eq c upd s s1 fin d _ hr
      have hraw : stRaw = .stagnated := by
        rcases hcase with e | ⟨_, e, _, _⟩
        · exact e.symm
        · cases e
      subst hraw
      have := (analyse_spec c _ _ _ _ ha).2.2.2.2.1 rfl
      exact ⟨this.2.1, this.2.2.2.2.1⟩

/-- `_set_initial_defect` overwrites the whole convergence-control state: what the previous solve left is irrelevant -/
theorem setInitial_indep (c : Config α) (prev1 prev2 : State α) (fin : Bool) (d : α) :
    setInitialDefect c prev1 fin d = setInitialDefect c prev2 fin d := by
  unfold setInitialDefect
  rfl

/-- complete decision list of `_analyse_defect`, in the order of the tests in the code: non-finite → `aborted`;
    diverged → `diverged`; fewer than `min_iter` iterations → `progress`; converged → `success`;
    `max_iter` reached → `max_iter`; stagnation control → `stagnated` / `progress` -/
theorem analyse_precedence (c : Config α) (s s' : State α) (chk : Bool) (st : Status)
    (h : analyseDefect c s chk = (st, s')) :
    (s.curFin = false → st = .aborted) ∧
    (s.curFin = true → Diverged c s.defInit s.defCur → st = .diverged) ∧
    (s.curFin = true → ¬ Diverged c s.defInit s.defCur → s.numIter < c.minIter → st = .progress) ∧
    (s.curFin = true → ¬ Diverged c s.defInit s.defCur → c.minIter ≤ s.numIter →
      Converged c s.defInit s.defCur → st = .success) ∧
    (s.curFin = true → ¬ Diverged c s.defInit s.defCur → c.minIter ≤ s.numIter →
      ¬ Converged c s.defInit s.defCur → c.maxIter ≤ s.numIter → st = .maxIter) ∧
    (s.curFin = true → ¬ Diverged c s.defInit s.defCur → c.minIter ≤ s.numIter →
      ¬ Converged c s.defInit s.defCur → s.numIter < c.maxIter →
      (st = .stagnated ↔ chk = true ∧ 0 < c.minStag ∧ c.stagRate * s.defPrev ≤ s.defCur ∧
        c.minStag ≤ s.numStag + 1) ∧ (st = .stagnated ∨ st = .progress)) := by
  unfold analyseDefect at h
  rw [← isConverged_iff, ← isDiverged_iff]
  repeat' split at h
  all_goals (simp only [Prod.mk.injEq] at h; obtain ⟨rfl, rfl⟩ := h)
  all_goals simp_all
  all_goals omega

/-- the last status of a `feed` is the outcome of one control step that produced the final state -/
theorem feed_last_step (c : Config α) (upd : Bool) (ds : List (Bool × α)) :
    ∀ (s : State α) (tr : List α) (stl : Status), (feed c upd .progress s tr ds).1.getLast? = some stl →
      ∃ (s0 : State α) (fin : Bool) (d : α),
        ctlStep c upd s0 fin d = (stl, (feed c upd .progress s tr ds).2.1) := by
  induction ds with
  | nil => intro s tr stl h; simp [feed] at h
  | cons a ds ih =>
    obtain ⟨fin, d⟩ := a
    intro s tr stl hlast
    rw [feed_cons] at hlast ⊢
    simp only [ne_eq, not_true_eq_false, ↓reduceIte] at hlast ⊢
    generalize hr : ctlStep c upd s fin d = r at hlast ⊢
    obtain ⟨st1, s1⟩ := r
    simp only at hlast ⊢
    by_cases hp : st1 = .progress
    · subst hp
      cases hrest : (feed c upd .progress s1 (s1.defCur :: tr) ds).1 with
      | nil =>
        rw [hrest] at hlast
        simp only [List.getLast?_singleton, Option.some.injEq] at hlast
        subst hlast
        rw [feed_nil_out c upd _ _ _ _ hrest]
        exact ⟨s, fin, d, hr⟩
      | cons b l =>
        rw [hrest] at hlast
        have hl : (feed c upd .progress s1 (s1.defCur :: tr) ds).1.getLast? = some stl := by
          rw [hrest]; simpa [List.getLast?_cons_cons] using hlast
        exact ih s1 _ stl hl
    · rw [feed_nonprogress c upd st1 s1 _ ds hp] at hlast ⊢
      simp only [List.getLast?_singleton, Option.some.injEq] at hlast
      subst hlast
      exact ⟨s, fin, d, hr⟩

theorem ctlStep_numIter (c : Config α) (upd : Bool) (s s' : State α) (fin : Bool) (d : α) (st : Status)
    (h : ctlStep c upd s fin d = (st, s')) :
    s'.numIter = s.numIter + 1 ∧ (st = .progress → s'.numIter < max c.minIter c.maxIter) := by
  obtain ⟨s2, stRaw, ha, hn, _, _, _, hcase⟩ := ctlStep_eq c upd s s' fin d st h
  have hf := analyse_frame c _ _ _ _ ha
  refine ⟨by omega, fun hp => ?_⟩
  subst hp
  have hraw : stRaw = .progress := by
    rcases hcase with e | ⟨_, e, _, _⟩
    · exact e.symm
    · cases e
  subst hraw
  have := analyse_progress_bound c _ _ _ ha
  omega

/-- iteration count at the end of a `feed` that started with fewer than `max(min_iter, max_iter)` iterations (or none) -/
theorem feed_numIter_le (c : Config α) (upd : Bool) (ds : List (Bool × α)) :
    ∀ (s : State α) (tr : List α) (stl : Status),
      (s.numIter < max c.minIter c.maxIter ∨ s.numIter = 0) →
      (feed c upd .progress s tr ds).1.getLast? = some stl →
      (feed c upd .progress s tr ds).2.1.numIter ≤ max 1 (max c.minIter c.maxIter) ∧
        0 < (feed c upd .progress s tr ds).2.1.numIter := by
  induction ds with
  | nil => intro s tr stl _ h; simp [feed] at h
  | cons a ds ih =>
    obtain ⟨fin, d⟩ := a
    intro s tr stl hs hlast
    rw [feed_cons] at hlast ⊢
    simp only [ne_eq, not_true_eq_false, ↓reduceIte] at hlast ⊢
    generalize hr : ctlStep c upd s fin d = r at hlast ⊢
    obtain ⟨st1, s1⟩ := r
    simp only at hlast ⊢
    have hn := ctlStep_numIter c upd s s1 fin d st1 hr
    by_cases hp : st1 = .progress
    · cases hrest : (feed c upd st1 s1 (s1.defCur :: tr) ds).1 with
      | nil =>
        rw [feed_nil_out c upd _ _ _ _ hrest]
        simp only
        omega
      | cons b l =>
        rw [hrest] at hlast
        subst hp
        have hl : (feed c upd .progress s1 (s1.defCur :: tr) ds).1.getLast? = some stl := by
          rw [hrest]; simpa [List.getLast?_cons_cons] using hlast
        exact ih s1 _ stl (Or.inl (hn.2 rfl)) hl
    · rw [feed_nonprogress c upd st1 s1 _ ds hp]
      simp only
      omega

end FeatModel.Solver
