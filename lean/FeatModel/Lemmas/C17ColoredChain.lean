import FeatModel.Lemmas.C17Cover
import FeatModel.Lemmas.C17Colored
import FeatModel.Lemmas.C17Neighbours
/-!
C17: the colored strategy end to end: colouring of the neighbours graph (`colors_proper`, `neighbours_spec`) →
worker shares of a colour block → fence protocol (`colored_safe`).  Core Lean only.
-/
open FeatModel.Adj

namespace FeatModel.DA

/-- shares of one colour block: worker `a`'s share ends before worker `b`'s begins (`a < b`), the block is not empty
when a share is not, and all shares lie inside the block -/
theorem cc_share_arith (n sz a b x y o : Nat) (ha : 1 ≤ a) (hab : a < b) (hb : b ≤ n)
    (h1 : o + (sz * (a - 1)) / n ≤ x) (h2 : x < o + (sz * a) / n)
    (h3 : o + (sz * (b - 1)) / n ≤ y) (h4 : y < o + (sz * b) / n) :
    o ≤ x ∧ x < y ∧ y < o + sz ∧ 0 < sz := by
  have e1 : (sz * a) / n ≤ (sz * (b - 1)) / n :=
    Nat.div_le_div_right (Nat.mul_le_mul_left _ (by omega))
  have e2 : (sz * b) / n ≤ sz :=
    Nat.div_le_of_le_mul (by rw [Nat.mul_comm n sz]; exact Nat.mul_le_mul_left _ hb)
  have e3 : (sz * (a - 1)) / n ≤ (sz * a) / n :=
    Nat.div_le_div_right (Nat.mul_le_mul_left _ (by omega))
  have e4 : sz = 0 → (sz * a) / n = 0 := by intro h; rw [h]; simp
  generalize (sz * (a - 1)) / n = q1 at h1 e3
  generalize (sz * a) / n = q2 at h2 e1 e3 e4
  generalize (sz * (b - 1)) / n = q3 at h3 e1
  generalize (sz * b) / n = q4 at h4 e2
  refine ⟨by omega, by omega, by omega, ?_⟩
  by_cases hz : sz = 0
  · have := e4 hz; omega
  · omega

/-- two workers simultaneously inside scatter(): their positions lie, in worker order, in one colour block -/
theorem cc_same_block (d : Dist) (comb : Bool) (hn : 1 ≤ d.nW)
    (s : CSt) (hs : (CCfg.ofDist d comb).Reach s) (a b : Nat) (ha : 1 ≤ a) (hab : a < b) (hb : b ≤ d.nW)
    (hA : s.ph a = .insc) (hB : s.ph b = .insc) :
    ∃ c, c + 1 < d.colorElems.length ∧ d.colorElems.getD c 0 ≤ s.pos a ∧ s.pos a < s.pos b ∧
      s.pos b < d.colorElems.getD (c + 1) 0 := by
  have hn' : 1 ≤ (CCfg.ofDist d comb).n := hn
  have hbn : b ≤ (CCfg.ofDist d comb).n := hb
  obtain ⟨e, a1, a2⟩ := colored_safe (CCfg.ofDist d comb) hn' s hs a b ⟨ha, by omega⟩ ⟨by omega, hbn⟩ hA hB
  obtain ⟨_, b1, b2⟩ := colored_safe (CCfg.ofDist d comb) hn' s hs b a ⟨by omega, hbn⟩ ⟨ha, by omega⟩ hB hA
  rw [← e] at b1 b2
  simp only [CCfg.ofDist] at a1 a2 b1 b2
  obtain ⟨g1, g2, g3, g4⟩ := cc_share_arith d.nW _ a b _ _ _ ha hab hb a1 a2 b1 b2
  refine ⟨s.col a, ?_, g1, g2, ?_⟩
  · by_cases hl : s.col a + 1 < d.colorElems.length
    · exact hl
    · exfalso
      have : d.colorElems.getD (s.col a + 1) 0 = 0 := by
        rw [List.getD_eq_getElem?_getD, List.getElem?_eq_none (by omega)]
        rfl
      rw [this] at g4
      omega
  · omega

/-- colored strategy end to end (colouring of the mesh's neighbours graph → worker shares → fence protocol), for all
interleavings: two workers that are inside scatter() at the same time are on two different cells that share no vertex -/
theorem colored_never_adjacent (nvt : Nat) (vae : List (List Nat)) (hv : ∀ l, l ∈ vae → ∀ v, v ∈ l → v < nvt)
    (elemIdx : List Nat) (maxW : Nat) (d : Dist) (comb : Bool) (hn : 1 ≤ d.nW)
    (hce : d.colorElems = (buildColors (neighbours nvt vae) elemIdx maxW).2.2)
    (hei : d.elemIdx = (buildColors (neighbours nvt vae) elemIdx maxW).2.1)
    (s : CSt) (hs : (CCfg.ofDist d comb).Reach s) (a b : Nat) (ha : 1 ≤ a) (hab : a < b) (hb : b ≤ d.nW)
    (hA : s.ph a = .insc) (hB : s.ph b = .insc) :
    ∃ loc : List Nat, d.elemIdx = loc.map (fun k => elemIdx.getD k 0) ∧ loc.Perm (List.range vae.length) ∧
      s.pos a < s.pos b ∧
      ¬ ∃ v, v ∈ vae.getD (loc.getD (s.pos a) 0) [] ∧ v ∈ vae.getD (loc.getD (s.pos b) 0) [] := by
  obtain ⟨hsq, hnd, hwf, hsym, _⟩ := neighbours_wf nvt vae hv
  obtain ⟨loc, h1, h2, h3⟩ := colors_proper (neighbours nvt vae) elemIdx maxW hsq hwf hsym
  obtain ⟨c, hc, p1, p2, p3⟩ := cc_same_block d comb hn s hs a b ha hab hb hA hB
  rw [hce] at hc p1 p3
  refine ⟨loc, hei.trans h1, hnd ▸ h2, p2, ?_⟩
  rintro ⟨v, hv1, hv2⟩
  exact (h3 c _ _ hc p1 p2 p3).1 ((neighbours_spec nvt vae hv _ _).2
    ⟨nbr_getD_lt hv1, nbr_getD_lt hv2, v, hv1, hv2⟩)

end FeatModel.DA
