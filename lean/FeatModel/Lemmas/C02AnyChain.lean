/-
C02: ONE chain theorem over the whole op alphabet of the driver (`AnyOp` = `Op` | `AOp` | `XOp`): running a chain of
operations of any of the three families on a valid container yields a valid container with the dimensions and the
entries of the textbook meaning of the chain.

Scope: every `Op`, every `AOp` (the next container of the chain is the TARGET of the call), and the value-exact
extension operations `itx`, `layoutz`, `layouta k`, `graphz`, `triDense`, `xclone false _`.
Excluded by `AnyOp.exact` (a chain containing one of them does not satisfy `anyChainOk`): the rounding operations
`dtx`, `dtw`, `xclone true _` (their meaning depends on `round`) and, in `anychain_spec`, the block permutation
`bperm p q` (its meaning depends on the block shape of the current container, which a `Sem` does not carry).
`anychain_spec_b` includes `bperm`: there every step announces a block shape `(bh, bw)`, `anyChainOkB` checks the
announcement against the current container at the `bperm` steps (`bcsr_permute_spec`).
-/
import FeatModel.Lemmas.C02Valid
open FeatModel FeatModel.LA

namespace C02L
open ChainAux RebuildAux ValidAux

variable {α : Type}

/-! ### textbook meaning of the three families -/

/-- aliased / pre-existing-target members: the two transposes transpose, everything else is the identity -/
def aopSem (s : Sem α) : AOp → Sem α
  | .trs | .trt _ => ⟨s.cols, s.rows, fun i j => s.f j i⟩
  | _ => s

/-- extension operations: the rebuilds yield the zero matrix of the same dimensions, the in-place dense transpose
    transposes, the (exact) type round trips are the identity -/
def xopSem [Zero α] (s : Sem α) : XOp → Sem α
  | .layoutz | .layouta _ | .graphz => ⟨s.rows, s.cols, fun _ _ => 0⟩
  | .triDense => ⟨s.cols, s.rows, fun i j => s.f j i⟩
  | _ => s

/-- the step does not round values and is not a block permutation -/
def xopExact : XOp → Bool
  | .dtx | .dtw | .bperm _ _ => false
  | .xclone d _ => !d
  | _ => true

/-- the step passes the index arrays through a 32-bit type -/
def xopNeedsFit : XOp → Bool
  | .itx => true
  | .xclone _ i => i
  | _ => false

namespace AnyOp

/-- the next container of a chain: the target of the step (`none` = abort / bad) -/
def next [Zero α] (fill : α) (round : α → α) (m : Mat α) : AnyOp → Option (Mat α)
  | .op o => match m.step o with
    | .ok t => some t
    | _ => none
  | .alias a => match m.stepAlias fill a with
    | .ok t _ => some t
    | .self t => some t
    | _ => none
  | .ext x => match m.stepX round x with
    | .ok t _ => some t
    | _ => none

/-- textbook meaning of one operation of the alphabet -/
def sem [Zero α] (s : Sem α) : AnyOp → Sem α
  | .op o => o.sem s
  | .alias a => aopSem s a
  | .ext x => xopSem s x

/-- exactness: excludes `dtx`, `dtw`, `xclone true _`, `bperm _ _` -/
def exact : AnyOp → Bool
  | .ext x => xopExact x
  | _ => true

/-- side condition of one step on the current container `m` representing `s`: permutations are bijections of the
    index sets (`Op.okFor`), the step is exact, and where the index arrays pass through 32 bits the sizes fit -/
def ok (m : Mat α) (s : Sem α) : AnyOp → Prop
  | .op o => o.okFor s.rows s.cols = true
  | .alias _ => True
  | .ext x => xopExact x = true ∧ (xopNeedsFit x = true → sizeFit m)

end AnyOp

/-- a chain over the whole alphabet: `none` as soon as one operation aborts or does not exist -/
def anyRun [Zero α] (fill : α) (round : α → α) : List AnyOp → Mat α → Option (Mat α)
  | [], m => some m
  | a :: as, m => match a.next fill round m with
    | some t => anyRun fill round as t
    | none => none

def anySemRun [Zero α] : List AnyOp → Sem α → Sem α
  | [], s => s
  | a :: as, s => anySemRun as (a.sem s)

/-- all side conditions along the run (containers following the run, dimensions following the textbook meaning) -/
def anyChainOk [Zero α] (fill : α) (round : α → α) : List AnyOp → Mat α → Sem α → Prop
  | [], _, _ => True
  | a :: as, m, s => a.ok m s ∧ ∀ t, a.next fill round m = some t → anyChainOk fill round as t (a.sem s)

/-- every operation of a chain that is ok along a completed run is exact -/
theorem anyChainOk_exact [Zero α] (fill : α) (round : α → α) (as : List AnyOp) :
    ∀ (m m' : Mat α) (s : Sem α), anyChainOk fill round as m s → anyRun fill round as m = some m' →
      ∀ a ∈ as, a.exact = true := by
  induction as with
  | nil => intro _ _ _ _ _ a ha; cases ha
  | cons b bs ih =>
    intro m m' s hok hrun a ha
    simp only [anyRun] at hrun
    split at hrun
    · next t ht =>
      rcases List.mem_cons.1 ha with rfl | ha
      · cases a with
        | op o => rfl
        | «alias» a => rfl
        | ext x => exact hok.1.1
      · exact ih t m' _ (hok.2 t ht) hrun a ha
    · cases hrun

/-! ### one step -/

/-- the fresh-target operation an aliased call agrees with has the same textbook meaning -/
theorem base_sem (f : Fmt) (a : AOp) (o : Op) (h : a.base f = some o) (s : Sem α) : o.sem s = aopSem s a := by
  cases a with
  | trs => simp only [AOp.base, Option.some.injEq] at h; subst h; rfl
  | trt k => simp only [AOp.base, Option.some.injEq] at h; subst h; rfl
  | convs => simp only [AOp.base, Option.some.injEq] at h; subst h; rfl
  | copys => simp only [AOp.base, Option.some.injEq] at h; subst h; rfl
  | copyt k => simp only [AOp.base, Option.some.injEq] at h; subst h; rfl
  | clones c => simp [AOp.base] at h
  | clonet k c => simp only [AOp.base, Option.some.injEq] at h; subst h; rfl
  | convt k g =>
    simp only [AOp.base] at h
    split at h
    · simp only [Option.some.injEq] at h; subst h; rfl
    · cases g <;> simp only [Option.some.injEq, reduceCtorEq] at h <;> subst h <;> rfl

theorem mapIdx_fit [Zero α] (round : α → α) (m : Mat α) (hv : m.valid = true) (hf : sizeFit m) :
    m.mapIdx (fun a => narrow32 (narrow32 a)) = m := by
  have h := (stepX_itx_valid round m hv hf).1
  simp only [Mat.stepX, ResX.ok.injEq, and_true] at h
  exact h

/-- one operation of any family: the next container is valid and represents the textbook meaning -/
theorem any_step_spec [Zero α] [Add α] (h0 : (0 : α) + 0 = 0) (fill : α) (round : α → α) (a : AnyOp)
    (m t : Mat α) (s : Sem α) (hR : Rel m s) (hok : a.ok m s) (hstep : a.next fill round m = some t) :
    Rel t (a.sem s) := by
  have hv : m.valid = true := hR.1
  cases a with
  | op o =>
    simp only [AnyOp.next] at hstep
    split at hstep
    · next t' ht =>
      cases hstep
      exact step_spec h0 o m t s hR hok ht
    · cases hstep
  | «alias» a =>
    obtain ⟨h1, h2⟩ := stepAlias_agrees fill m hv a
    simp only [AnyOp.next] at hstep
    split at hstep
    · next t' s' ht =>
      cases hstep
      obtain ⟨⟨o, hb, hs⟩, _⟩ := h1 t s' ht
      have := step_spec h0 o m t s hR (base_okFor m.fmt a o hb _ _) hs
      rw [base_sem m.fmt a o hb s] at this
      exact this
    · next t' ht =>
      cases hstep
      obtain ⟨o, hb, hs⟩ := h2 t ht
      have := step_spec h0 o m t s hR (base_okFor m.fmt a o hb _ _) hs
      rw [base_sem m.fmt a o hb s] at this
      exact this
    · cases hstep
  | ext x =>
    obtain ⟨hex, hfit⟩ := hok
    simp only [AnyOp.next] at hstep
    split at hstep
    · next t' s' ht =>
      cases hstep
      obtain ⟨_, hr, hc, he⟩ := hR
      cases x with
      | itx =>
        rw [(stepX_itx_valid round m hv (hfit rfl)).1] at ht
        cases ht
        exact ⟨hv, hr, hc, he⟩
      | dtx => cases hex
      | dtw => cases hex
      | bperm p q => cases hex
      | layoutz =>
        obtain ⟨_, tv, tr, tc, _, te⟩ := stepX_layout_spec h0 round m hv .layoutz (Or.inl rfl) t s' ht
        exact ⟨tv, tr.trans hr, tc.trans hc, fun i j _ _ => te i j⟩
      | layouta k =>
        obtain ⟨_, tv, tr, tc, _, te⟩ := stepX_layout_spec h0 round m hv (.layouta k) (Or.inr ⟨k, rfl⟩) t s' ht
        exact ⟨tv, tr.trans hr, tc.trans hc, fun i j _ _ => te i j⟩
      | graphz =>
        obtain ⟨_, A, rfl⟩ := graph_rebuild_src round m t s' ht
        obtain ⟨B, rfl, bv, br, bc, _, _, _, be⟩ := graph_rebuild_spec h0 round A hv t s' ht
        exact ⟨bv, br.trans hr, bc.trans hc, fun i j _ _ => be i j⟩
      | triDense =>
        obtain ⟨hs, _⟩ := stepX_triDense_eq round m hv t s' ht
        exact step_spec h0 .tri m t s ⟨hv, hr, hc, he⟩ rfl hs
      | xclone d i =>
        cases d with
        | true => cases hex
        | false =>
          cases i with
          | false =>
            simp only [Mat.stepX, ResX.ok.injEq] at ht
            obtain ⟨rfl, _⟩ := ht
            exact ⟨hv, hr, hc, he⟩
          | true =>
            simp only [Mat.stepX, ResX.ok.injEq] at ht
            obtain ⟨ht, _⟩ := ht
            simp only [if_true, Bool.false_eq_true, if_false] at ht
            rw [mapIdx_fit round m hv (hfit rfl)] at ht
            subst ht
            exact ⟨hv, hr, hc, he⟩
    · cases hstep

/-! ### the chain -/

theorem anychain_spec_aux [Zero α] [Add α] (h0 : (0 : α) + 0 = 0) (fill : α) (round : α → α) (as : List AnyOp) :
    ∀ (m m' : Mat α) (s : Sem α), Rel m s → anyChainOk fill round as m s → anyRun fill round as m = some m' →
      Rel m' (anySemRun as s) := by
  induction as with
  | nil =>
    intro m m' s hR _ hrun
    cases hrun
    exact hR
  | cons a as ih =>
    intro m m' s hR hok hrun
    simp only [anyRun] at hrun
    split at hrun
    · next t ht =>
      exact ih t m' (a.sem s) (any_step_spec h0 fill round a m t s hR hok.1 ht) (hok.2 t ht) hrun
    · cases hrun

/-- **C02 chain theorem over the whole alphabet**: running a chain of operations of all three families (`Op`, `AOp`,
    exact `XOp`) on a valid container, the side conditions holding along the run, yields a valid container with the
    dimensions and the entries of the textbook meaning of the chain. -/
theorem anychain_spec [Zero α] [Add α] (h0 : (0 : α) + 0 = 0) (fill : α) (round : α → α) (as : List AnyOp)
    (m m' : Mat α) (hv : m.valid = true)
    (hok : anyChainOk fill round as m ⟨m.rows, m.cols, m.entry⟩)
    (hrun : anyRun fill round as m = some m') :
    m'.valid = true ∧
    m'.rows = (anySemRun as ⟨m.rows, m.cols, m.entry⟩).rows ∧
    m'.cols = (anySemRun as ⟨m.rows, m.cols, m.entry⟩).cols ∧
    ∀ i j, i < m'.rows → j < m'.cols → m'.entry i j = (anySemRun as ⟨m.rows, m.cols, m.entry⟩).f i j := by
  obtain ⟨v, r, c, e⟩ := anychain_spec_aux h0 fill round as m m' ⟨m.rows, m.cols, m.entry⟩
    ⟨hv, rfl, rfl, fun _ _ _ _ => rfl⟩ hok hrun
  exact ⟨v, r, c, fun i j hi hj => e i j (r ▸ hi) (c ▸ hj)⟩

/-- a chain of plain `Op`s is the special case `chain_spec`: the runs and the meanings coincide -/
theorem anyRun_op [Zero α] (fill : α) (round : α → α) (ops : List Op) (m : Mat α) :
    anyRun fill round (ops.map AnyOp.op) m = m.run ops := by
  induction ops generalizing m with
  | nil => rfl
  | cons o os ih =>
    simp only [List.map_cons, anyRun, AnyOp.next, Mat.run]
    cases m.step o with
    | ok t => exact ih t
    | abort => rfl
    | bad => rfl

theorem anySemRun_op [Zero α] (ops : List Op) (s : Sem α) : anySemRun (ops.map AnyOp.op) s = semRun ops s := by
  induction ops generalizing s with
  | nil => rfl
  | cons o os ih => exact ih (o.sem s)

/-! ### the block permutation: meaning relative to the block shape `bh × bw` of the current container -/

/-- `bperm p q` on blocks of shape `bh × bw`: scalar row `i` comes from block row `p[i / bh]`, same row inside the block
    (both empty = "no permutation") -/
def bpermSem (bh bw : Nat) (p q : Array Nat) (s : Sem α) : Sem α :=
  if p.size = 0 ∧ q.size = 0 then s
  else ⟨s.rows, s.cols, fun i j => s.f (p.getD (i / bh) 0 * bh + i % bh) (q.getD (j / bw) 0 * bw + j % bw)⟩

namespace AnyOp

/-- meaning of one operation, the block shape given from outside (used by `bperm` only) -/
def semB [Zero α] (bh bw : Nat) (s : Sem α) : AnyOp → Sem α
  | .ext (.bperm p q) => bpermSem bh bw p q s
  | a => a.sem s

/-- side condition; for `bperm`: the current container is BCSR of the announced block shape and the permutations are
    bijections of the block index sets (or both empty) -/
def okB (bh bw : Nat) (m : Mat α) (s : Sem α) : AnyOp → Prop
  | .ext (.bperm p q) => ∃ A, m = .bcsr A ∧ A.bh = bh ∧ A.bw = bw ∧
      ((p.size = 0 ∧ q.size = 0) ∨
       (p.size = A.rows ∧ q.size = A.cols ∧ Csr.isPerm p = true ∧ Csr.isPerm q = true))
  | a => a.ok m s

end AnyOp

theorem blk_lt {a r R b : Nat} (ha : a < R) (hr : r < b) : a * b + r < R * b := by
  have := Nat.mul_le_mul_right b (show a + 1 ≤ R from ha)
  rw [Nat.succ_mul] at this
  omega

theorem bperm_step_spec [Zero α] [Add α] (h0 : (0 : α) + 0 = 0) (round : α → α) (A : Bcsr α) (p q : Array Nat)
    (t : Mat α) (s' : Option (Mat α)) (s : Sem α) (hR : Rel (.bcsr A) s)
    (hpq : (p.size = 0 ∧ q.size = 0) ∨
       (p.size = A.rows ∧ q.size = A.cols ∧ Csr.isPerm p = true ∧ Csr.isPerm q = true))
    (ht : (Mat.bcsr A).stepX round (.bperm p q) = .ok t s') : Rel t (bpermSem A.bh A.bw p q s) := by
  obtain ⟨hv, hr, hc, he⟩ := hR
  have hv' := hv
  simp only [Mat.valid, Bool.and_eq_true, decide_eq_true_eq] at hv'
  obtain ⟨⟨hAv, hbh⟩, hbw⟩ := hv'
  unfold bpermSem
  by_cases hz : p.size = 0 ∧ q.size = 0
  · rw [if_pos hz]
    have : A.permute p q = some A := by unfold Bcsr.permute; rw [if_pos hz]
    simp only [Mat.stepX, this, ResX.ok.injEq] at ht
    obtain ⟨rfl, _⟩ := ht
    exact ⟨hv, hr, hc, he⟩
  · rw [if_neg hz]
    rcases hpq with hpq | ⟨hps, hqs, hp, hq⟩
    · exact absurd hpq hz
    have hP : ∀ i, i < s.rows → p.getD (i / A.bh) 0 * A.bh + i % A.bh < s.rows := by
      intro i hi
      rw [← hr] at hi ⊢
      change i < A.rows * A.bh at hi
      change _ < A.rows * A.bh
      have h1 : i / A.bh < p.size := by
        rw [hps]; exact (Nat.div_lt_iff_lt_mul hbh).2 hi
      have h2 := PermuteAux.isPerm_lt hp h1
      rw [hps] at h2
      exact blk_lt h2 (Nat.mod_lt _ hbh)
    have hQ : ∀ j, j < s.cols → q.getD (j / A.bw) 0 * A.bw + j % A.bw < s.cols := by
      intro j hj
      rw [← hc] at hj ⊢
      change j < A.cols * A.bw at hj
      change _ < A.cols * A.bw
      have h1 : j / A.bw < q.size := by
        rw [hqs]; exact (Nat.div_lt_iff_lt_mul hbw).2 hj
      have h2 := PermuteAux.isPerm_lt hq h1
      rw [hqs] at h2
      exact blk_lt h2 (Nat.mod_lt _ hbw)
    cases hne : A.isArrayless with
    | true =>
      have : A.permute p q = some A := by
        unfold Bcsr.permute
        rw [if_neg hz, if_neg (by omega), hne]
        rfl
      simp only [Mat.stepX, this, ResX.ok.injEq] at ht
      obtain ⟨rfl, _⟩ := ht
      have hzero : ∀ i j, A.entry i j = 0 := by
        apply bcsr_entry_zero h0 A
        intro k
        simp only [Bcsr.isArrayless, Bool.and_eq_true, Array.isEmpty_iff] at hne
        simp [Array.getD, hne.2]
      refine ⟨hv, hr, hc, ?_⟩
      intro i j hi hj
      rw [← he _ _ (hP i hi) (hQ j hj)]
      change A.entry i j = A.entry _ _
      rw [hzero, hzero]
    | false =>
      obtain ⟨B, hB, b1, b2, b3, b4, bv, be⟩ := bcsr_permute_spec A p q hAv hne hbh hbw hp hq hps hqs
      simp only [Mat.stepX, hB, ResX.ok.injEq] at ht
      obtain ⟨rfl, _⟩ := ht
      refine ⟨?_, ?_, ?_, ?_⟩
      · simp only [Mat.valid, bv, b1, b2, Bool.and_eq_true, decide_eq_true_eq]
        exact ⟨⟨trivial, hbh⟩, hbw⟩
      · change B.rows * B.bh = s.rows
        rw [b1, b3]; exact hr
      · change B.cols * B.bw = s.cols
        rw [b2, b4]; exact hc
      · intro i j hi hj
        change B.entry i j = _
        rw [be i j (by rw [← hr] at hi; exact hi) (by rw [← hc] at hj; exact hj)]
        exact he _ _ (hP i hi) (hQ j hj)

/-- one operation of any family including `bperm`, the block shape announced from outside -/
theorem any_step_spec_b [Zero α] [Add α] (h0 : (0 : α) + 0 = 0) (fill : α) (round : α → α) (bh bw : Nat) (a : AnyOp)
    (m t : Mat α) (s : Sem α) (hR : Rel m s) (hok : a.okB bh bw m s) (hstep : a.next fill round m = some t) :
    Rel t (a.semB bh bw s) := by
  cases a with
  | op o => exact any_step_spec h0 fill round (.op o) m t s hR hok hstep
  | «alias» a => exact any_step_spec h0 fill round (.alias a) m t s hR hok hstep
  | ext x =>
    cases x with
    | bperm p q =>
      obtain ⟨A, rfl, rfl, rfl, hpq⟩ := hok
      simp only [AnyOp.next] at hstep
      split at hstep
      · next t' s' ht =>
        cases hstep
        exact bperm_step_spec h0 round A p q t s' s hR hpq ht
      · cases hstep
    | itx => exact any_step_spec h0 fill round (.ext .itx) m t s hR hok hstep
    | dtx => exact any_step_spec h0 fill round (.ext .dtx) m t s hR hok hstep
    | dtw => exact any_step_spec h0 fill round (.ext .dtw) m t s hR hok hstep
    | layoutz => exact any_step_spec h0 fill round (.ext .layoutz) m t s hR hok hstep
    | layouta k => exact any_step_spec h0 fill round (.ext (.layouta k)) m t s hR hok hstep
    | graphz => exact any_step_spec h0 fill round (.ext .graphz) m t s hR hok hstep
    | triDense => exact any_step_spec h0 fill round (.ext .triDense) m t s hR hok hstep
    | xclone d i => exact any_step_spec h0 fill round (.ext (.xclone d i)) m t s hR hok hstep

/-! ### chains with block permutations: every step announces a block shape (read by `bperm` only) -/

def anySemRunB [Zero α] : List (AnyOp × Nat × Nat) → Sem α → Sem α
  | [], s => s
  | (a, bh, bw) :: as, s => anySemRunB as (a.semB bh bw s)

def anyChainOkB [Zero α] (fill : α) (round : α → α) : List (AnyOp × Nat × Nat) → Mat α → Sem α → Prop
  | [], _, _ => True
  | (a, bh, bw) :: as, m, s =>
    a.okB bh bw m s ∧ ∀ t, a.next fill round m = some t → anyChainOkB fill round as t (a.semB bh bw s)

theorem anychain_spec_b_aux [Zero α] [Add α] (h0 : (0 : α) + 0 = 0) (fill : α) (round : α → α)
    (as : List (AnyOp × Nat × Nat)) :
    ∀ (m m' : Mat α) (s : Sem α), Rel m s → anyChainOkB fill round as m s →
      anyRun fill round (as.map Prod.fst) m = some m' → Rel m' (anySemRunB as s) := by
  induction as with
  | nil =>
    intro m m' s hR _ hrun
    cases hrun
    exact hR
  | cons ab as ih =>
    obtain ⟨a, bh, bw⟩ := ab
    intro m m' s hR hok hrun
    simp only [List.map_cons, anyRun] at hrun
    split at hrun
    · next t ht =>
      exact ih t m' (a.semB bh bw s) (any_step_spec_b h0 fill round bh bw a m t s hR hok.1 ht) (hok.2 t ht) hrun
    · cases hrun

/-- **the chain theorem including block permutations**: as `anychain_spec`, every step additionally announcing the
    block shape its `bperm` (if it is one) finds; `anyChainOkB` checks the announcement against the container. -/
theorem anychain_spec_b [Zero α] [Add α] (h0 : (0 : α) + 0 = 0) (fill : α) (round : α → α)
    (as : List (AnyOp × Nat × Nat)) (m m' : Mat α) (hv : m.valid = true)
    (hok : anyChainOkB fill round as m ⟨m.rows, m.cols, m.entry⟩)
    (hrun : anyRun fill round (as.map Prod.fst) m = some m') :
    m'.valid = true ∧
    m'.rows = (anySemRunB as ⟨m.rows, m.cols, m.entry⟩).rows ∧
    m'.cols = (anySemRunB as ⟨m.rows, m.cols, m.entry⟩).cols ∧
    ∀ i j, i < m'.rows → j < m'.cols → m'.entry i j = (anySemRunB as ⟨m.rows, m.cols, m.entry⟩).f i j := by
  obtain ⟨v, r, c, e⟩ := anychain_spec_b_aux h0 fill round as m m' ⟨m.rows, m.cols, m.entry⟩
    ⟨hv, rfl, rfl, fun _ _ _ _ => rfl⟩ hok hrun
  exact ⟨v, r, c, fun i j hi hj => e i j (r ▸ hi) (c ▸ hj)⟩

end C02L
