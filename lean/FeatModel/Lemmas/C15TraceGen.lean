import FeatModel.Lemmas.C15Lift1
/-! From the Boolean trace checks to statements about all points of a facet, and the two-sided corollary. -/
namespace FeatModel.FE
open FeatModel.Poly

theorem traceOk_eval {f : Fam} {k : Kind} {dim : Nat} {m : Mesh} {r : List Nat} {tab : BasisTab}
    (ht : tabOf f k dim = some tab) (h : traceOk f k dim m r = true) {i : Nat} (hi : i < tab.nloc) (s : List Rat) :
    evalAt (embedPt' k dim (dim - 1) r s) (tab.val ((slotPerm f m 0).getD i i))
      = match facetId f k dim r i with
        | some id => evalAt s ((facetBasis f k dim).getD id [])
        | none => 0 := by
  simp only [traceOk, ht, Bool.and_eq_true, List.all_eq_true, List.mem_range] at h
  have h2 := equivT_sound (h.2 i hi) (pt s)
  rw [embedPt', ← evalAt_substL']
  simp only [evalAt]
  rw [h2]
  cases facetId f k dim r i <;> simp [eval]

theorem traceOk_perm {f : Fam} {k : Kind} {dim : Nat} {m : Mesh} {r : List Nat} {tab : BasisTab}
    (ht : tabOf f k dim = some tab) (h : traceOk f k dim m r = true) :
    sortN ((List.range tab.nloc).filterMap (facetId f k dim r)) = List.range (facetBasis f k dim).length := by
  simp only [traceOk, ht, Bool.and_eq_true, beq_iff_eq] at h
  exact h.1

theorem insN_perm (a : Nat) (l : List Nat) : (insN a l).Perm (a :: l) := by
  induction l with
  | nil => simp [insN]
  | cons b l ih =>
    unfold insN
    by_cases h : a ≤ b
    · simp [h]
    · simp only [h, if_false]
      exact (List.Perm.cons b ih).trans (List.Perm.swap a b l)

theorem sortN_perm (l : List Nat) : (sortN l).Perm l := by
  induction l with
  | nil => simp [sortN]
  | cons a l ih => exact (insN_perm a (sortN l)).trans (List.Perm.cons a ih)

theorem sum_map_option (l : List Nat) (fid : Nat → Option Nat) (g : Nat → Rat) :
    (l.map fun i => match fid i with | some id => g id | none => 0).sum = ((l.filterMap fid).map g).sum := by
  induction l with
  | nil => simp
  | cons a l ih =>
    cases h : fid a <;> simp [h, ih]

/-- summing over the local DOFs of the cell = summing over the functionals of the facet -/
theorem facet_sum {n nlow : Nat} {fid : Nat → Option Nat}
    (hperm : sortN ((List.range n).filterMap fid) = List.range nlow) (g : Nat → Rat) :
    ((List.range n).map fun i => match fid i with | some id => g id | none => 0).sum
      = ((List.range nlow).map g).sum := by
  rw [sum_map_option]
  have hp : ((List.range n).filterMap fid).Perm (List.range nlow) := by
    rw [← hperm]; exact (sortN_perm _).symm
  exact (hp.map g).sum_eq

/-- one-sided trace of a finite element function with local coefficients `u` on the facet with stored row `r`:
    it only depends on the coefficients of the functionals attached to the facet (`U id`) -/
theorem one_sided_trace {f : Fam} {k : Kind} {dim : Nat} {m : Mesh} {r : List Nat} {tab : BasisTab}
    (ht : tabOf f k dim = some tab) (h : traceOk f k dim m r = true) (u U : Nat → Rat)
    (hu : ∀ i, i < tab.nloc → ∀ id, facetId f k dim r i = some id → u i = U id) (s : List Rat) :
    ((List.range tab.nloc).map fun i =>
        u i * evalAt (embedPt' k dim (dim - 1) r s) (tab.val ((slotPerm f m 0).getD i i))).sum
      = ((List.range (facetBasis f k dim).length).map fun id =>
          U id * evalAt s ((facetBasis f k dim).getD id [])).sum := by
  rw [← facet_sum (traceOk_perm ht h)]
  congr 1
  apply List.map_congr_left
  intro i hi
  have hi' : i < tab.nloc := List.mem_range.mp hi
  rw [traceOk_eval ht h hi' s]
  cases hf : facetId f k dim r i with
  | none => simp
  | some id => simp [hu i hi' id hf]

end FeatModel.FE
