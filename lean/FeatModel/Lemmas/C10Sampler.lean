import FeatModel.Model.RefineSpec
/-! C10 helper lemmas: specification of the hand-transcribed orientation sampler (`CongruencySampler::compare`) for
arbitrary vertex numbers: the `code`-th symmetric arrangement of a target tuple is recognised with exactly that code,
so that the congruency map of the returned code sends source-local onto target-local vertex positions. -/
namespace FeatModel.Refine
open FeatModel.Gen.Refine

theorem sampler_quad (a b c d : Nat) (hab : a ≠ b) (hac : a ≠ c) (had : a ≠ d) (hbc : b ≠ c) (hbd : b ≠ d)
    (hcd : c ≠ d) (code : Nat) (hc : code < 8) :
    compare .hypercube 2 ((reorient .hypercube 2 code [a, b, c, d]).getD 0 0)
      ((reorient .hypercube 2 code [a, b, c, d]).getD 1 0) [a, b, c, d] = (code : Int) := by
  have hba := Ne.symm hab; have hca := Ne.symm hac; have hda := Ne.symm had
  have hcb := Ne.symm hbc; have hdb := Ne.symm hbd; have hdc := Ne.symm hcd
  have : code = 0 ∨ code = 1 ∨ code = 2 ∨ code = 3 ∨ code = 4 ∨ code = 5 ∨ code = 6 ∨ code = 7 := by omega
  rcases this with rfl | rfl | rfl | rfl | rfl | rfl | rfl | rfl <;>
    simp [reorient, congMap, FeatModel.Refine.compare, trgAt, *]

theorem sampler_tria (a b c : Nat) (hab : a ≠ b) (hac : a ≠ c) (hbc : b ≠ c) (code : Nat)
    (hc : code ∈ [0, 1, 2, 4, 5, 6]) :
    compare .simplex 2 ((reorient .simplex 2 code [a, b, c]).getD 0 0)
      ((reorient .simplex 2 code [a, b, c]).getD 1 0) [a, b, c] = (code : Int) := by
  have hba := Ne.symm hab; have hca := Ne.symm hac; have hcb := Ne.symm hbc
  simp only [List.mem_cons, List.not_mem_nil, or_false] at hc
  rcases hc with rfl | rfl | rfl | rfl | rfl | rfl <;>
    simp [reorient, congMap, FeatModel.Refine.compare, trgAt, *]

theorem sampler_edge (kind : Kind) (a b : Nat) (hab : a ≠ b) (code : Nat) (hc : code < 2) :
    compare kind 1 ((reorient kind 1 code [a, b]).getD 0 0) ((reorient kind 1 code [a, b]).getD 1 0) [a, b]
      = (code : Int) := by
  have hba := Ne.symm hab
  have : code = 0 ∨ code = 1 := by omega
  rcases this with rfl | rfl <;> cases kind <;>
    simp [reorient, congMap, FeatModel.Refine.compare, trgAt, *]

/-- the vertex congruency map of code `o` sends local position `j` of the re-oriented tuple to the position of the
    same vertex in the original tuple -/
theorem congLookup_reorient (kind : Kind) (cd : Nat) (t : List Nat) (o j : Nat)
    (hj : j < ((congMap kind cd 0).getD o []).length) :
    t.getD (congLookup kind cd 0 (o : Int) j) 0 = (reorient kind cd o t).getD j 0 := by
  unfold congLookup reorient
  simp only [Int.toNat_natCast]
  cases h : (congMap kind cd 0).getD o [] with
  | nil => rw [h] at hj; simp at hj
  | cons x xs =>
    rw [h] at hj
    simp only [List.getD_eq_getElem?_getD, List.getElem?_map, List.getElem?_eq_getElem hj]
    simp

end FeatModel.Refine
