import FeatModel.Lemmas.C20Cont
/-! C20 helper lemmas, part 4: the reference-count invariant of whole states -/
namespace FeatModel.Pool

def optIds : Option Cont → List Nat
  | none => []
  | some c => c.ownIds

def layIds : Option Layout → List Nat
  | none => []
  | some L => idsOf L.inds

def slotsIds : List (Option Cont) → List Nat
  | [] => []
  | x :: r => optIds x ++ slotsIds r

def laysIds : List (Option Layout) → List Nat
  | [] => []
  | x :: r => layIds x ++ laysIds r

/-- all owner references of a state: arrays of non-view containers and of layouts, with multiplicity -/
def State.ownIds (s : State) : List Nat := slotsIds s.slots ++ laysIds s.lays

/-- (I1)+(I2): every counter equals the number of owner references (0 = not in the pool), all stored
    counters are positive -/
def Inv (s : State) : Prop := PoolPos s.pool ∧ ∀ j, count s.pool j = (s.ownIds).count j

theorem slotsIds_set (l : List (Option Cont)) (a : Nat) (x : Option Cont) (h : a < l.length) (j : Nat) :
    (slotsIds (l.set a x)).count j + (optIds ((l[a]?).join)).count j = (slotsIds l).count j + (optIds x).count j := by
  induction l generalizing a with
  | nil => simp at h
  | cons y r ih =>
    cases a with
    | zero => simp [slotsIds, List.count_append]; omega
    | succ a =>
      have := ih a (by simpa using h)
      simp only [List.set_cons_succ, slotsIds, List.count_append, List.getElem?_cons_succ] at *
      omega

theorem laysIds_set (l : List (Option Layout)) (a : Nat) (x : Option Layout) (h : a < l.length) (j : Nat) :
    (laysIds (l.set a x)).count j + (layIds ((l[a]?).join)).count j = (laysIds l).count j + (layIds x).count j := by
  induction l generalizing a with
  | nil => simp at h
  | cons y r ih =>
    cases a with
    | zero => simp [laysIds, List.count_append]; omega
    | succ a =>
      have := ih a (by simpa using h)
      simp only [List.set_cons_succ, laysIds, List.count_append, List.getElem?_cons_succ] at *
      omega

theorem slot_lt {s : State} {a : Nat} {c : Cont} (h : s.slot a = some c) : a < s.slots.length := by
  unfold State.slot at h
  cases hg : s.slots[a]? with
  | none => rw [hg] at h; cases h
  | some x => exact (List.getElem?_eq_some_iff.mp hg).1

theorem lay_lt {s : State} {a : Nat} {c : Layout} (h : s.lay a = some c) : a < s.lays.length := by
  unfold State.lay at h
  cases hg : s.lays[a]? with
  | none => rw [hg] at h; cases h
  | some x => exact (List.getElem?_eq_some_iff.mp hg).1

/-- owner references after replacing the content of one container slot -/
theorem own_setSlot (s : State) (a : Nat) (x : Option Cont) (h : a < s.slots.length) (j : Nat) :
    ((s.setSlot a x).ownIds).count j + (optIds (s.slot a)).count j = (s.ownIds).count j + (optIds x).count j := by
  have := slotsIds_set s.slots a x h j
  unfold State.ownIds State.setSlot State.slot
  simp only [List.count_append]
  omega

theorem own_setLay (s : State) (a : Nat) (x : Option Layout) (h : a < s.lays.length) (j : Nat) :
    ((s.setLay a x).ownIds).count j + (layIds (s.lay a)).count j = (s.ownIds).count j + (layIds x).count j := by
  have := laysIds_set s.lays a x h j
  unfold State.ownIds State.setLay State.lay
  simp only [List.count_append]
  omega

theorem slot_setSlot_ne (s : State) (a b : Nat) (x : Option Cont) (h : a ≠ b) :
    (s.setSlot a x).slot b = s.slot b := by
  unfold State.setSlot State.slot
  simp only
  rw [List.getElem?_set_ne h]

theorem length_setSlot (s : State) (a : Nat) (x : Option Cont) : (s.setSlot a x).slots.length = s.slots.length := by
  unfold State.setSlot; simp

/-- replacing slot `a` while the pool moves by exactly the ownership difference keeps the invariant -/
theorem inv_setSlot {s : State} {p' : Pool} {a : Nat} {x : Option Cont} (hi : Inv s) (ha : a < s.slots.length)
    (hd : Delta s.pool p' (optIds x) (optIds (s.slot a))) (hp : PoolPos p') :
    Inv ({ s with pool := p' }.setSlot a x) := by
  refine ⟨hp, ?_⟩
  intro j
  have h1 := own_setSlot { s with pool := p' } a x ha j
  have h2 := hi.2 j
  have h3 := hd j
  have e1 : ({ s with pool := p' } : State).ownIds = s.ownIds := rfl
  have e2 : ({ s with pool := p' } : State).slot a = s.slot a := rfl
  have e3 : (({ s with pool := p' } : State).setSlot a x).pool = p' := rfl
  rw [e1, e2] at h1
  rw [e3]
  omega

theorem inv_setLay {s : State} {p' : Pool} {a : Nat} {x : Option Layout} (hi : Inv s) (ha : a < s.lays.length)
    (hd : Delta s.pool p' (layIds x) (layIds (s.lay a))) (hp : PoolPos p') :
    Inv ({ s with pool := p' }.setLay a x) := by
  refine ⟨hp, ?_⟩
  intro j
  have h1 := own_setLay { s with pool := p' } a x ha j
  have h2 := hi.2 j
  have h3 := hd j
  have e1 : ({ s with pool := p' } : State).ownIds = s.ownIds := rfl
  have e2 : ({ s with pool := p' } : State).lay a = s.lay a := rfl
  have e3 : (({ s with pool := p' } : State).setLay a x).pool = p' := rfl
  rw [e1, e2] at h1
  rw [e3]
  omega

/-- only the pool contents change (write / format): the invariant is untouched -/
theorem inv_pool {s : State} {p' : Pool} (hi : Inv s) (hd : Delta s.pool p' [] []) (hp : PoolPos p') :
    Inv { s with pool := p' } := by
  refine ⟨hp, ?_⟩
  intro j
  have h2 := hi.2 j
  have h3 := hd j
  have e1 : ({ s with pool := p' } : State).ownIds = s.ownIds := rfl
  rw [e1]
  simp only [List.count_nil] at h3
  show count p' j = _
  omega

theorem inv_init : Inv State.init := by
  refine ⟨?_, ?_⟩
  · intro id c h; unfold State.init get at h; simp at h
  · intro j; simp [State.init, State.ownIds, slotsIds, laysIds, optIds, layIds, count, get, List.replicate]

end FeatModel.Pool
