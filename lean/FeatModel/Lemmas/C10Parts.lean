import FeatModel.Lemmas.C10Counts
/-! C10 helper lemmas: where the children of a coarse entity sit in the refined index sets (all mesh sizes), and the
characterisation of the targets produced by the simple target refiner. -/
namespace FeatModel.Refine
open FeatModel.Gen.Refine

theorem getElem?_flatMap_const {α β : Type} (l : List α) (g : α → List β) (n : Nat)
    (h : ∀ x ∈ l, (g x).length = n) (i j : Nat) (hj : j < n) :
    (l.flatMap g)[i * n + j]? = (l[i]?).bind (fun x => (g x)[j]?) := by
  induction l generalizing i with
  | nil => simp
  | cons a as ih =>
    have ha : (g a).length = n := h a (by simp)
    rw [List.flatMap_cons]
    cases i with
    | zero =>
      simp only [Nat.zero_mul, Nat.zero_add, List.getElem?_cons_zero, Option.bind_some]
      exact List.getElem?_append_left (by omega)
    | succ i =>
      have hge : (g a).length ≤ (i + 1) * n + j := by rw [ha, Nat.succ_mul]; omega
      rw [List.getElem?_append_right hge]
      have e : (i + 1) * n + j - (g a).length = i * n + j := by rw [ha, Nat.succ_mul]; omega
      rw [e, ih (fun x hx => h x (by simp [hx])) i]
      simp

theorem getElem?_flatMap_range' {β : Type} (B : Nat → List β) (n c s p : Nat) (hcs : c ≤ s) (hsn : s < c + n)
    (hp : p < (B s).length) :
    ((List.range' c n).flatMap B)[((List.range' c (s - c)).map fun j => (B j).length).sum + p]? = (B s)[p]? := by
  induction n generalizing c with
  | zero => omega
  | succ n ih =>
    rw [List.range'_succ, List.flatMap_cons]
    by_cases h : s = c
    · subst h
      simp only [Nat.sub_self, List.range'_zero, List.map_nil, List.sum_nil, Nat.zero_add]
      exact List.getElem?_append_left hp
    · have e : s - c = (s - (c + 1)) + 1 := by omega
      rw [e, List.range'_succ, List.map_cons, List.sum_cons]
      have hge : (B c).length ≤ (B c).length + ((List.range' (c + 1) (s - (c + 1))).map fun j => (B j).length).sum + p := by
        omega
      rw [List.getElem?_append_right hge]
      have e2 : (B c).length + ((List.range' (c + 1) (s - (c + 1))).map fun j => (B j).length).sum + p - (B c).length
          = ((List.range' (c + 1) (s - (c + 1))).map fun j => (B j).length).sum + p := by omega
      rw [e2]
      exact ih (c + 1) (by omega) (by omega)

/-- **child numbering**: the `j`-th child the index refiner generates for the coarse `s`-entity `t` is the fine
    `c`-entity number `offset c s + t * refCount s c + j` -/
theorem fineIdx_child (M : Mesh) (hd : M.dim < 4) (c f s t j : Nat) (hfc : f < c) (hcs : c ≤ s) (hsd : s ≤ M.dim)
    (ht : t < M.num s) (hj : j < refCount M.kind s c) :
    (fineIdx M c f)[offset M.kind M.nums c s + t * refCount M.kind s c + j]? = (childRows M s c f t)[j]? := by
  unfold fineIdx
  have hlen : ∀ s', c ≤ s' → s' < 4 →
      ((List.range (M.num s')).flatMap fun i => childRows M s' c f i).length = M.num s' * refCount M.kind s' c :=
    fun s' h1 h2 => block_length M s' c f h2 hfc h1
  have hoff : offset M.kind M.nums c s =
      ((List.range' c (s - c)).map fun j => ((List.range (M.num j)).flatMap fun i => childRows M j c f i).length).sum := by
    unfold offset
    congr 1
    apply List.map_congr_left
    intro s' hs'
    rw [List.mem_range'_1] at hs'
    rw [hlen s' hs'.1 (by omega)]
    unfold Mesh.num
    exact Nat.mul_comm _ _
  have hp : t * refCount M.kind s c + j < ((List.range (M.num s)).flatMap fun i => childRows M s c f i).length := by
    rw [hlen s hcs (by omega)]
    have : (t + 1) * refCount M.kind s c ≤ M.num s * refCount M.kind s c := Nat.mul_le_mul_right _ ht
    rw [Nat.succ_mul] at this
    omega
  rw [Nat.add_assoc, hoff]
  rw [getElem?_flatMap_range' (fun s => (List.range (M.num s)).flatMap fun i => childRows M s c f i)
    (M.dim + 1 - c) c s _ hcs (by omega) hp]
  rw [getElem?_flatMap_const (List.range (M.num s)) (fun i => childRows M s c f i) (refCount M.kind s c)
    (fun i _ => childRows_length M s c f i (by omega) hfc hcs) t j hj]
  rw [List.getElem?_range ht]
  simp

/-- the targets the simple target refiner produces in dimension `c` -/
theorem mem_simpleTargets (M : Mesh) (P : Part) (c x : Nat) :
    x ∈ simpleTargets M P c ↔
      ∃ s, c ≤ s ∧ s ≤ M.dim ∧ ∃ t ∈ P.target s, ∃ j, j < refCount M.kind s c ∧
        x = offset M.kind M.nums c s + t * refCount M.kind s c + j := by
  unfold simpleTargets
  simp only [List.mem_flatMap, List.mem_range'_1, List.mem_map, List.mem_range]
  constructor
  · rintro ⟨s, ⟨h1, h2⟩, t, ht, j, hj, rfl⟩
    exact ⟨s, h1, by omega, t, ht, j, hj, rfl⟩
  · rintro ⟨s, h1, h2, t, ht, j, hj, rfl⟩
    exact ⟨s, ⟨h1, by omega⟩, t, ht, j, hj, rfl⟩

/-- fine vertices: the coarse vertices first, then one vertex per coarse entity with `refCount _ _ 0 = 1` -/
theorem simpleTargets_length (M : Mesh) (P : Part) (c : Nat) :
    (simpleTargets M P c).length =
      ((List.range' c (M.dim + 1 - c)).map fun s => (P.target s).length * refCount M.kind s c).sum := by
  unfold simpleTargets
  rw [List.length_flatMap]
  congr 1
  apply List.map_congr_left
  intro s _
  rw [length_flatMap_const _ _ (refCount M.kind s c)]
  intro t _
  simp

end FeatModel.Refine

namespace FeatModel.Refine
open FeatModel.Gen.Refine

theorem refCount_vertex_le_one (kind : Kind) : ∀ s < 4, refCount kind s 0 = 0 ∨ refCount kind s 0 = 1 := by
  cases kind <;> decide

/-- the block of new vertices created for the coarse `s`-entities -/
def vertBlock (M : Mesh) (s : Nat) : List (List Rat) :=
  if refCount M.kind s 0 = 0 then []
  else (List.range (M.num s)).map fun i => midpoint M (M.tuple s 0 i) (faceCount M.kind s 0)

theorem vertBlock_length (M : Mesh) (s : Nat) (hs : s < 4) :
    (vertBlock M s).length = refCount M.kind s 0 * M.nums.getD s 0 := by
  unfold vertBlock
  rcases refCount_vertex_le_one M.kind s hs with h | h <;> simp [h, Mesh.num]

/-- **vertex numbering**: the coarse vertices keep their numbers; the new vertex of the coarse `s`-entity `t`
    (`s ≥ 1`) is fine vertex number `offset 0 s + t` and is the barycentre `midpoint` of `t`'s vertices -/
theorem fineVerts_child (M : Mesh) (hd : M.dim < 4) (hv : M.verts.length = M.num 0) (s t : Nat) (hs1 : 1 ≤ s)
    (hsd : s ≤ M.dim) (hr : refCount M.kind s 0 ≠ 0) (ht : t < M.num s) :
    (fineVerts M)[offset M.kind M.nums 0 s + t]? = some (midpoint M (M.tuple s 0 t) (faceCount M.kind s 0)) := by
  have hfv : fineVerts M = M.verts ++ (List.range' 1 M.dim).flatMap (vertBlock M) := rfl
  have hoff : offset M.kind M.nums 0 s =
      M.verts.length + ((List.range' 1 (s - 1)).map fun j => (vertBlock M j).length).sum := by
    unfold offset
    have e : s - 0 = (s - 1) + 1 := by omega
    rw [e, List.range'_succ, List.map_cons, List.sum_cons, hv]
    congr 1
    · simp [refCount, Mesh.num]
    · congr 1
      apply List.map_congr_left
      intro j hj
      rw [List.mem_range'_1] at hj
      rw [vertBlock_length M j (by omega)]
  have hp : t < (vertBlock M s).length := by
    unfold vertBlock; simp [hr, ht]
  rw [hfv, hoff, Nat.add_assoc, List.getElem?_append_right (by omega)]
  have e : M.verts.length + (((List.range' 1 (s - 1)).map fun j => (vertBlock M j).length).sum + t) - M.verts.length
      = ((List.range' 1 (s - 1)).map fun j => (vertBlock M j).length).sum + t := by omega
  rw [e, getElem?_flatMap_range' (vertBlock M) M.dim 1 s t hs1 (by omega) hp]
  unfold vertBlock
  simp [hr, ht]

theorem fineVerts_coarse (M : Mesh) (t : Nat) (ht : t < M.verts.length) : (fineVerts M)[t]? = M.verts[t]? := by
  have hfv : fineVerts M = M.verts ++ (List.range' 1 M.dim).flatMap (vertBlock M) := rfl
  rw [hfv, List.getElem?_append_left ht]

/-- the refined node's part is exactly the `StandardRefinery<MeshPart>` of the node's part: the tree takes no
    shortcut, whatever the dimension signature of the part -/
theorem refineNode_part (M : Mesh) (n n' : PartNode) (h : refineNode M n = some n') :
    refinePart M n.part = some n'.part := by
  unfold refineNode at h
  cases hp : refinePart M n.part with
  | none => rw [hp] at h; simp at h
  | some p' =>
    rw [hp] at h
    simp only at h
    split at h
    · simp at h
    · simp only [Option.some.injEq] at h
      rw [← h]

/-- every child of the refined node is the `StandardRefinery<MeshPart>` of a child of the node against the coarse
    parent PART -/
theorem refineNode_children (M : Mesh) (n n' : PartNode) (h : refineNode M n = some n') :
    ∀ ch' ∈ n'.children, ∃ ch ∈ n.children, refinePart (n.part.asParent M.kind M.dim) ch = some ch' := by
  unfold refineNode at h
  cases hp : refinePart M n.part with
  | none => rw [hp] at h; simp at h
  | some p' =>
    rw [hp] at h
    simp only at h
    split at h
    · simp at h
    · simp only [Option.some.injEq] at h
      rw [← h]
      intro ch' hch'
      simp only [List.mem_filterMap, List.mem_map, id] at hch'
      obtain ⟨o, ⟨ch, hch, ho⟩, hoc⟩ := hch'
      subst hoc
      refine ⟨ch, hch, ?_⟩
      split at ho
      · simp at ho
      · exact ho

/-- a part without topology: the refined target set of EVERY dimension is the simple target refinement -/
theorem refinePart_simple (M : Mesh) (P P' : Part) (ht : P.topo = none) (h : refinePart M P = some P') (c : Nat)
    (hc : c ≤ M.dim) : P'.target c = simpleTargets M P c := by
  unfold refinePart at h
  rw [ht] at h
  simp only [Option.some.injEq] at h
  rw [← h]
  unfold Part.target
  simp only
  rw [List.getD_eq_getElem?_getD, List.getElem?_map, List.getElem?_range (by omega)]
  rfl


end FeatModel.Refine
