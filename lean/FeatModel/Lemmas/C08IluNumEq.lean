import FeatModel.Lemmas.C08IluFactorAux
/-! C08: the index-faithful `factorize_numeric_il_du` (merge pointers `pl`, `pu`, `k`, early `break`) equals the
find-based formulation `factorizeNumericS` on every well-shaped sorted pattern. -/
namespace FeatModel.Solver
open FeatModel.LA

/-! ### generic loop lemmas -/

theorem foldRange_self {β : Type} (k : Nat) (f : β → Nat → β) (x : β) : foldRange k k f x = x := by
  simp [foldRange]

theorem foldRange_succ_left {β : Type} (k e : Nat) (f : β → Nat → β) (x : β) (h : k < e) :
    foldRange k e f x = foldRange (k + 1) e f (f x k) := by
  unfold foldRange
  rw [show e - k = (e - (k + 1)) + 1 by omega, List.range'_succ]
  rfl

/-- split of a `foldRange` loop at an intermediate index -/
theorem foldRange_split {β : Type} (a b c : Nat) (f : β → Nat → β) (x : β) (hab : a ≤ b) (hbc : b ≤ c) :
    foldRange a c f x = foldRange b c f (foldRange a b f x) := by
  unfold foldRange
  rw [← List.foldl_append]
  congr 1
  rw [show c - a = (b - a) + (c - b) by omega, ← List.range'_append_1]
  congr 2
  omega

/-- two loops with step functions that agree on all states satisfying an invariant -/
theorem foldRange_congr_inv {β : Type} (P : β → Prop) (f g : β → Nat → β) (b e : Nat) (x : β) (hbe : b ≤ e)
    (h0 : P x) (hstep : ∀ m y, b ≤ m → m < e → P y → f y m = g y m ∧ P (g y m)) :
    foldRange b e f x = foldRange b e g x ∧ P (foldRange b e g x) := by
  have key : ∀ k, b + k ≤ e →
      (List.range' b k).foldl f x = (List.range' b k).foldl g x ∧ P ((List.range' b k).foldl g x) := by
    intro k
    induction k with
    | zero => intro _; exact ⟨rfl, h0⟩
    | succ k ih =>
      intro hk
      obtain ⟨h1, h2⟩ := ih (by omega)
      rw [List.range'_concat, List.foldl_append, List.foldl_append, h1]
      simp only [List.foldl_cons, List.foldl_nil, Nat.one_mul]
      exact hstep (b + k) _ (by omega) (by omega) h2
  unfold foldRange
  exact key (e - b) (by omega)

theorem foldl_congr_inv {β γ : Type} (P : β → Prop) (f g : β → γ → β) (l : List γ) (x : β) (h0 : P x)
    (hstep : ∀ m, m ∈ l → ∀ y, P y → f y m = g y m ∧ P (g y m)) : l.foldl f x = l.foldl g x := by
  induction l generalizing x with
  | nil => rfl
  | cons a l ih =>
    obtain ⟨h1, h2⟩ := hstep a (List.mem_cons_self) x h0
    rw [List.foldl_cons, List.foldl_cons, h1]
    exact ih _ h2 (fun m hm => hstep m (List.mem_cons_of_mem _ hm))

/-! ### `findPos` -/

theorem findPos_none_of (idx : Array Nat) (b q c : Nat) (h : ∀ k, b ≤ k → k < q → idx.getD k 0 ≠ c) :
    findPos idx b q c = none := by
  unfold findPos
  rw [List.find?_eq_none]
  intro k hk
  rw [List.mem_range'_1] at hk
  simpa using h k hk.1 (by omega)

theorem findPos_succ (idx : Array Nat) (b q c : Nat) (h : b < q) :
    findPos idx b q c = if idx.getD b 0 = c then some b else findPos idx (b + 1) q c := by
  unfold findPos
  rw [show q - b = (q - (b + 1)) + 1 by omega, List.range'_succ, List.find?_cons]
  by_cases hc : idx.getD b 0 = c
  · have hb : (idx.getD b 0 == c) = true := beq_iff_eq.mpr hc
    rw [hb, if_pos hc]
  · have hb : (idx.getD b 0 == c) = false := beq_false_of_ne hc
    rw [hb, if_neg hc]

theorem findPos_skip (idx : Array Nat) (q c : Nat) :
    ∀ (m b p : Nat), p - b ≤ m → b ≤ p → p ≤ q → (∀ r, b ≤ r → r < p → idx.getD r 0 ≠ c) →
      findPos idx b q c = findPos idx p q c
  | 0, b, p, hm, hbp, _, _ => by
    have : b = p := by omega
    rw [this]
  | m + 1, b, p, hm, hbp, hpq, h => by
    rcases Nat.eq_or_lt_of_le hbp with heq | hlt
    · rw [heq]
    · rw [findPos_succ idx b q c (by omega), if_neg (h b (Nat.le_refl _) hlt)]
      exact findPos_skip idx q c m (b + 1) p (by omega) (by omega) hpq (fun r hr1 hr2 => h r (by omega) hr2)

/-! ### merge = find -/

section merge
variable {α : Type} [Zero α] [Sub α]

theorem mergeSub_spec (idx : Array Nat) (b q ck : Nat) (t : α)
    (hmono : ∀ k k', b ≤ k → k < k' → k' < q → idx.getD k 0 < idx.getD k' 0) :
    ∀ (f : Nat) (a : Array α) (p : Nat), b ≤ p → p ≤ q → q - p ≤ f →
      (mergeSub idx q ck t f a p).1 =
          (match findPos idx p q ck with
            | some r => a.setIfInBounds r (a.getD r 0 - t)
            | none => a) ∧
        p ≤ (mergeSub idx q ck t f a p).2 ∧ (mergeSub idx q ck t f a p).2 ≤ q ∧
        ∀ r, p ≤ r → r < (mergeSub idx q ck t f a p).2 → idx.getD r 0 ≤ ck
  | 0, a, p, _, hpq, hf => by
    have hnone : findPos idx p q ck = none := findPos_none_of _ _ _ _ (fun k h1 h2 => by omega)
    rw [hnone]
    refine ⟨rfl, Nat.le_refl _, hpq, ?_⟩
    intro r h1 h2
    have : (mergeSub idx q ck t 0 a p).2 = p := rfl
    omega
  | f + 1, a, p, hbp, hpq, hf => by
    by_cases hc : p < q ∧ idx.getD p 0 ≤ ck
    · have hstep : mergeSub idx q ck t (f + 1) a p =
          mergeSub idx q ck t f (if idx.getD p 0 == ck then a.setIfInBounds p (a.getD p 0 - t) else a) (p + 1) := by
        rw [mergeSub, if_pos (by simp only [Bool.and_eq_true, decide_eq_true_eq]; exact hc)]
      rw [hstep]
      obtain ⟨h1, h2, h3, h4⟩ := mergeSub_spec idx b q ck t hmono f
        (if idx.getD p 0 == ck then a.setIfInBounds p (a.getD p 0 - t) else a) (p + 1) (by omega) (by omega) (by omega)
      refine ⟨?_, by omega, h3, ?_⟩
      · rw [h1, findPos_succ idx p q ck hc.1]
        by_cases he : idx.getD p 0 = ck
        · have hnone : findPos idx (p + 1) q ck = none := by
            apply findPos_none_of
            intro k hk1 hk2
            have := hmono p k hbp (by omega) hk2
            omega
          have hb : (idx.getD p 0 == ck) = true := beq_iff_eq.mpr he
          rw [hnone, if_pos he, hb, if_pos rfl]
        · have hb : (idx.getD p 0 == ck) = false := beq_false_of_ne he
          rw [if_neg he, hb, if_neg (by decide)]
      · intro r hr1 hr2
        rcases Nat.eq_or_lt_of_le hr1 with heq | hlt
        · rw [← heq]; exact hc.2
        · exact h4 r (by omega) hr2
    · have hstep : mergeSub idx q ck t (f + 1) a p = (a, p) := by
        rw [mergeSub, if_neg]
        simp only [Bool.and_eq_true, decide_eq_true_eq]
        exact hc
      rw [hstep]
      have hnone : findPos idx p q ck = none := by
        apply findPos_none_of
        intro k hk1 hk2
        have hp : ¬ idx.getD p 0 ≤ ck := fun h => hc ⟨by omega, h⟩
        rcases Nat.eq_or_lt_of_le hk1 with heq | hlt
        · rw [← heq]; omega
        · have := hmono p k hbp hlt hk2
          omega
      rw [hnone]
      refine ⟨rfl, Nat.le_refl _, hpq, ?_⟩
      intro r h1 h2
      exact absurd h2 (by show ¬ r < p; omega)

/-- `mergeSub` from a pointer `p` behind which all columns are smaller than `ck` acts like `findPos` on the full row -/
theorem mergeSub_find (idx : Array Nat) (b q ck : Nat) (t : α)
    (hmono : ∀ k k', b ≤ k → k < k' → k' < q → idx.getD k 0 < idx.getD k' 0)
    (a : Array α) (p : Nat) (hbp : b ≤ p) (hpq : p ≤ q) (hlt : ∀ r, b ≤ r → r < p → idx.getD r 0 < ck) :
    (mergeSub idx q ck t (q - p) a p).1 =
        (match findPos idx b q ck with
          | some r => a.setIfInBounds r (a.getD r 0 - t)
          | none => a) ∧
      p ≤ (mergeSub idx q ck t (q - p) a p).2 ∧ (mergeSub idx q ck t (q - p) a p).2 ≤ q ∧
      ∀ r, b ≤ r → r < (mergeSub idx q ck t (q - p) a p).2 → idx.getD r 0 ≤ ck := by
  obtain ⟨h1, h2, h3, h4⟩ := mergeSub_spec idx b q ck t hmono (q - p) a p hbp hpq (Nat.le_refl _)
  rw [findPos_skip idx q ck (p - b) b p (Nat.le_refl _) hbp hpq (fun r hr1 hr2 => by have := hlt r hr1 hr2; omega)]
  refine ⟨h1, h2, h3, ?_⟩
  intro r hr1 hr2
  rcases Nat.lt_or_ge r p with h | h
  · exact Nat.le_of_lt (hlt r hr1 h)
  · exact h4 r h hr2

end merge

variable {α : Type} [Field α]

/-! ### the three cases of `elimEntry` on an explicit state -/

theorem elimEntry_low (s : IluSym) (i : Nat) (lij : α) (dl du dd : Array α) (k : Nat) (h : s.ciU.getD k 0 < i) :
    elimEntry s i lij ⟨dl, du, dd⟩ k =
      ⟨(match findPos s.ciL (s.rpL.getD i 0) (s.rpL.getD (i + 1) 0) (s.ciU.getD k 0) with
          | some r => dl.setIfInBounds r (dl.getD r 0 - lij * du.getD k 0)
          | none => dl), du, dd⟩ := by
  unfold elimEntry
  simp only []
  rw [if_pos h]
  cases findPos s.ciL (s.rpL.getD i 0) (s.rpL.getD (i + 1) 0) (s.ciU.getD k 0) <;> rfl

theorem elimEntry_diag (s : IluSym) (i : Nat) (lij : α) (dl du dd : Array α) (k : Nat) (h : s.ciU.getD k 0 = i) :
    elimEntry s i lij ⟨dl, du, dd⟩ k = ⟨dl, du, dd.setIfInBounds i (dd.getD i 0 - lij * du.getD k 0)⟩ := by
  unfold elimEntry
  simp only []
  rw [if_neg (by omega), if_pos h]

theorem elimEntry_upp (s : IluSym) (i : Nat) (lij : α) (dl du dd : Array α) (k : Nat) (h : i < s.ciU.getD k 0) :
    elimEntry s i lij ⟨dl, du, dd⟩ k =
      ⟨dl, (match findPos s.ciU (s.rpU.getD i 0) (s.rpU.getD (i + 1) 0) (s.ciU.getD k 0) with
          | some r => du.setIfInBounds r (du.getD r 0 - lij * du.getD k 0)
          | none => du), dd⟩ := by
  unfold elimEntry
  simp only []
  rw [if_neg (by omega), if_neg (by omega)]
  cases findPos s.ciU (s.rpU.getD i 0) (s.rpU.getD (i + 1) 0) (s.ciU.getD k 0) <;> rfl

/-! ### the two `k` loops -/

/-- first loop: consumes the entries of row `cj` of `U` with column `< i` -/
theorem elimLow_spec {s : IluSym} (w : s.WFP) {i : Nat} (hi : i < s.n) {cj : Nat} (hcj : cj < s.n) (lij : α)
    (du dd : Array α) :
    ∀ (f : Nat) (dl : Array α) (pl k : Nat), s.rpU.getD cj 0 ≤ k → k ≤ s.rpU.getD (cj + 1) 0 →
      s.rpU.getD (cj + 1) 0 - k ≤ f → s.rpL.getD i 0 ≤ pl → pl ≤ s.rpL.getD (i + 1) 0 →
      (k < s.rpU.getD (cj + 1) 0 → ∀ r, s.rpL.getD i 0 ≤ r → r < pl → s.ciL.getD r 0 < s.ciU.getD k 0) →
      foldRange k (s.rpU.getD (cj + 1) 0) (elimEntry s i lij) ⟨dl, du, dd⟩ =
          foldRange (elimLow s i (s.rpL.getD (i + 1) 0) (s.rpU.getD (cj + 1) 0) lij du f dl pl k).2.2
            (s.rpU.getD (cj + 1) 0) (elimEntry s i lij)
            ⟨(elimLow s i (s.rpL.getD (i + 1) 0) (s.rpU.getD (cj + 1) 0) lij du f dl pl k).1, du, dd⟩ ∧
        k ≤ (elimLow s i (s.rpL.getD (i + 1) 0) (s.rpU.getD (cj + 1) 0) lij du f dl pl k).2.2 ∧
        (elimLow s i (s.rpL.getD (i + 1) 0) (s.rpU.getD (cj + 1) 0) lij du f dl pl k).2.2 ≤ s.rpU.getD (cj + 1) 0 ∧
        ((elimLow s i (s.rpL.getD (i + 1) 0) (s.rpU.getD (cj + 1) 0) lij du f dl pl k).2.2 < s.rpU.getD (cj + 1) 0 →
          i ≤ s.ciU.getD (elimLow s i (s.rpL.getD (i + 1) 0) (s.rpU.getD (cj + 1) 0) lij du f dl pl k).2.2 0)
  | 0, dl, pl, k, hk0, hk1, hf, hp0, hp1, hinv => by
    have : elimLow s i (s.rpL.getD (i + 1) 0) (s.rpU.getD (cj + 1) 0) lij du 0 dl pl k = (dl, pl, k) := rfl
    rw [this]
    exact ⟨rfl, Nat.le_refl _, hk1, fun h => absurd (show k < s.rpU.getD (cj + 1) 0 from h) (by omega)⟩
  | f + 1, dl, pl, k, hk0, hk1, hf, hp0, hp1, hinv => by
    by_cases hk : k < s.rpU.getD (cj + 1) 0
    · by_cases hck : s.ciU.getD k 0 ≥ i
      · have : elimLow s i (s.rpL.getD (i + 1) 0) (s.rpU.getD (cj + 1) 0) lij du (f + 1) dl pl k = (dl, pl, k) := by
          rw [elimLow, if_pos hk]
          simp only []
          rw [if_pos hck]
        rw [this]
        exact ⟨rfl, Nat.le_refl _, hk1, fun _ => hck⟩
      · have hlt : s.ciU.getD k 0 < i := by omega
        have hmono : ∀ a a', s.rpL.getD i 0 ≤ a → a < a' → a' < s.rpL.getD (i + 1) 0 →
            s.ciL.getD a 0 < s.ciL.getD a' 0 := fun a a' h1 h2 h3 => w.monoInL hi h1 h2 h3
        obtain ⟨m1, m2, m3, m4⟩ := mergeSub_find s.ciL (s.rpL.getD i 0) (s.rpL.getD (i + 1) 0) (s.ciU.getD k 0)
          (lij * du.getD k 0) hmono dl pl hp0 hp1 (hinv hk)
        have hstep : elimLow s i (s.rpL.getD (i + 1) 0) (s.rpU.getD (cj + 1) 0) lij du (f + 1) dl pl k =
            elimLow s i (s.rpL.getD (i + 1) 0) (s.rpU.getD (cj + 1) 0) lij du f
              (mergeSub s.ciL (s.rpL.getD (i + 1) 0) (s.ciU.getD k 0) (lij * du.getD k 0)
                (s.rpL.getD (i + 1) 0 - pl) dl pl).1
              (mergeSub s.ciL (s.rpL.getD (i + 1) 0) (s.ciU.getD k 0) (lij * du.getD k 0)
                (s.rpL.getD (i + 1) 0 - pl) dl pl).2 (k + 1) := by
          rw [elimLow, if_pos hk]
          simp only []
          rw [if_neg hck]
        rw [hstep]
        obtain ⟨e1, e2, e3, e4⟩ := elimLow_spec w hi hcj lij du dd f _ _ (k + 1) (by omega) (by omega) (by omega)
          (Nat.le_trans hp0 m2) m3 (by
            intro hk' r hr1 hr2
            have hs := w.sortU cj hcj k hk0 hk'
            have := m4 r hr1 hr2
            omega)
        refine ⟨?_, by omega, e3, e4⟩
        rw [foldRange_succ_left _ _ _ _ hk, elimEntry_low s i lij dl du dd k hlt, ← m1]
        exact e1
    · have : elimLow s i (s.rpL.getD (i + 1) 0) (s.rpU.getD (cj + 1) 0) lij du (f + 1) dl pl k = (dl, pl, k) := by
        rw [elimLow, if_neg hk]
      rw [this]
      exact ⟨rfl, Nat.le_refl _, hk1, fun h => absurd h hk⟩

/-- last loop: all remaining entries of row `cj` of `U` have column `> i` -/
theorem elimUpp_spec {s : IluSym} (w : s.WFP) {i : Nat} (hi : i < s.n) {cj : Nat} (hcj : cj < s.n) (lij : α)
    (dl dd : Array α) :
    ∀ (f : Nat) (du : Array α) (pu k : Nat), s.rpU.getD cj 0 ≤ k → k ≤ s.rpU.getD (cj + 1) 0 →
      s.rpU.getD (cj + 1) 0 - k ≤ f → s.rpU.getD i 0 ≤ pu → pu ≤ s.rpU.getD (i + 1) 0 →
      (k < s.rpU.getD (cj + 1) 0 → ∀ r, s.rpU.getD i 0 ≤ r → r < pu → s.ciU.getD r 0 < s.ciU.getD k 0) →
      (k < s.rpU.getD (cj + 1) 0 → i < s.ciU.getD k 0) →
      foldRange k (s.rpU.getD (cj + 1) 0) (elimEntry s i lij) ⟨dl, du, dd⟩ =
        ⟨dl, elimUpp s (s.rpU.getD (i + 1) 0) (s.rpU.getD (cj + 1) 0) lij f du pu k, dd⟩
  | 0, du, pu, k, hk0, hk1, hf, hp0, hp1, hinv, hup => by
    have hk : k = s.rpU.getD (cj + 1) 0 := by omega
    rw [← hk, foldRange_self]
    rfl
  | f + 1, du, pu, k, hk0, hk1, hf, hp0, hp1, hinv, hup => by
    by_cases hk : k < s.rpU.getD (cj + 1) 0
    · have hmono : ∀ a a', s.rpU.getD i 0 ≤ a → a < a' → a' < s.rpU.getD (i + 1) 0 →
          s.ciU.getD a 0 < s.ciU.getD a' 0 :=
        fun a a' h1 h2 h3 => idx_strictMono s.ciU _ _ (w.sortU i hi) a' a h1 h2 h3
      obtain ⟨m1, m2, m3, m4⟩ := mergeSub_find s.ciU (s.rpU.getD i 0) (s.rpU.getD (i + 1) 0) (s.ciU.getD k 0)
        (lij * du.getD k 0) hmono du pu hp0 hp1 (hinv hk)
      have hstep : elimUpp s (s.rpU.getD (i + 1) 0) (s.rpU.getD (cj + 1) 0) lij (f + 1) du pu k =
          elimUpp s (s.rpU.getD (i + 1) 0) (s.rpU.getD (cj + 1) 0) lij f
            (mergeSub s.ciU (s.rpU.getD (i + 1) 0) (s.ciU.getD k 0) (lij * du.getD k 0)
              (s.rpU.getD (i + 1) 0 - pu) du pu).1
            (mergeSub s.ciU (s.rpU.getD (i + 1) 0) (s.ciU.getD k 0) (lij * du.getD k 0)
              (s.rpU.getD (i + 1) 0 - pu) du pu).2 (k + 1) := by
        rw [elimUpp, if_pos hk]
      rw [hstep, foldRange_succ_left _ _ _ _ hk, elimEntry_upp s i lij dl du dd k (hup hk), ← m1]
      apply elimUpp_spec w hi hcj lij dl dd f _ _ (k + 1) (by omega) (by omega) (by omega)
        (Nat.le_trans hp0 m2) m3
      · intro hk' r hr1 hr2
        have hs := w.sortU cj hcj k hk0 hk'
        have := m4 r hr1 hr2
        omega
      · intro hk'
        have hs := w.sortU cj hcj k hk0 hk'
        have := hup hk
        omega
    · have hk : k = s.rpU.getD (cj + 1) 0 := by omega
      have : elimUpp s (s.rpU.getD (i + 1) 0) (s.rpU.getD (cj + 1) 0) lij (f + 1) du pu k = du := by
        rw [elimUpp, if_neg (by omega)]
      rw [this, ← hk, foldRange_self]

/-! ### one `L` entry, one row, all rows -/

theorem elimLM_eq_elimL {s : IluSym} (w : s.WFP) {i : Nat} (hi : i < s.n) (d : IluNum α) (hd : d.Sz s) {j : Nat}
    (hj1 : s.rpL.getD i 0 ≤ j) (hj2 : j < s.rpL.getD (i + 1) 0) : elimLM s i d j = elimL s i d j := by
  have hcji : s.ciL.getD j 0 < i := w.lowL i hi j hj1 hj2
  have hjs : j < d.dataL.size := by have := w.endL_le hi; have := hd.1; omega
  have hlij : (d.dataL.setIfInBounds j (d.dataL.getD j 0 * d.dataD.getD (s.ciL.getD j 0) 0)).getD j 0 =
      d.dataL.getD j 0 * d.dataD.getD (s.ciL.getD j 0) 0 := by
    rw [getD_setIfInBounds, if_pos ⟨rfl, hjs⟩]
  have hinv0 : s.rpU.getD (s.ciL.getD j 0) 0 < s.rpU.getD (s.ciL.getD j 0 + 1) 0 → ∀ r, s.rpL.getD i 0 ≤ r → r < j →
      s.ciL.getD r 0 < s.ciU.getD (s.rpU.getD (s.ciL.getD j 0) 0) 0 := by
    intro hk r hr1 hr2
    have h1 := w.monoInL hi hr1 hr2 hj2
    have h2 := w.uppU (s.ciL.getD j 0) (by omega) _ (Nat.le_refl _) hk
    omega
  unfold elimLM elimL
  simp only []
  rw [hlij]
  generalize hcj : s.ciL.getD j 0 = cj at *
  have hcjn : cj < s.n := by omega
  generalize d.dataL.getD j 0 * d.dataD.getD cj 0 = lij
  generalize d.dataL.setIfInBounds j lij = dl0
  obtain ⟨e1, e2, e3, e4⟩ := elimLow_spec w hi hcjn lij d.dataU d.dataD
    (s.rpU.getD (cj + 1) 0 - s.rpU.getD cj 0) dl0 j (s.rpU.getD cj 0) (Nat.le_refl _) (w.monoU cj hcjn)
    (Nat.le_refl _) hj1 (Nat.le_of_lt hj2) hinv0
  generalize elimLow s i (s.rpL.getD (i + 1) 0) (s.rpU.getD (cj + 1) 0) lij d.dataU
    (s.rpU.getD (cj + 1) 0 - s.rpU.getD cj 0) dl0 j (s.rpU.getD cj 0) = r at e1 e2 e3 e4 ⊢
  obtain ⟨dl', pl', k'⟩ := r
  simp only [] at e1 e2 e3 e4 ⊢
  rw [e1]
  have hvac : ∀ k, (k < s.rpU.getD (cj + 1) 0 → ∀ r, s.rpU.getD i 0 ≤ r → r < s.rpU.getD i 0 →
      s.ciU.getD r 0 < s.ciU.getD k 0) := fun k _ r h1 h2 => by omega
  by_cases hhit : k' < s.rpU.getD (cj + 1) 0 ∧ s.ciU.getD k' 0 = i
  · have hb : (decide (k' < s.rpU.getD (cj + 1) 0) && s.ciU.getD k' 0 == i) = true := by
      rw [Bool.and_eq_true, decide_eq_true_eq, beq_iff_eq]
      exact hhit
    rw [hb, if_pos rfl, if_pos rfl, foldRange_succ_left _ _ _ _ hhit.1, elimEntry_diag s i lij _ _ _ k' hhit.2]
    refine (elimUpp_spec w hi hcjn lij dl' _ _ d.dataU (s.rpU.getD i 0) (k' + 1) (by omega) (by omega)
      (Nat.le_refl _) (Nat.le_refl _) (w.monoU i hi) (hvac _) ?_).symm
    intro hk'
    have := w.sortU cj hcjn k' e2 hk'
    omega
  · have hb : (decide (k' < s.rpU.getD (cj + 1) 0) && s.ciU.getD k' 0 == i) = false := by
      rw [Bool.eq_false_iff]
      intro h
      rw [Bool.and_eq_true, decide_eq_true_eq, beq_iff_eq] at h
      exact hhit h
    rw [hb, if_neg (by decide), if_neg (by decide)]
    refine (elimUpp_spec w hi hcjn lij dl' _ _ d.dataU (s.rpU.getD i 0) k' e2 e3
      (Nat.le_refl _) (Nat.le_refl _) (w.monoU i hi) (hvac _) ?_).symm
    intro hk'
    have := e4 hk'
    have : s.ciU.getD k' 0 ≠ i := fun h => hhit ⟨hk', h⟩
    omega

theorem factorRowM_eq_S {s : IluSym} (w : s.WFP) {i : Nat} (hi : i < s.n) (d : IluNum α) (hd : d.Sz s) :
    factorRowM s d i = factorRowS s d i ∧ (factorRowS s d i).Sz s := by
  obtain ⟨h1, h2⟩ := foldRange_congr_inv (fun y : IluNum α => y.Sz s) (elimLM s i) (elimL s i)
    (s.rpL.getD i 0) (s.rpL.getD (i + 1) 0) d (w.monoL i hi) hd
    (fun m y hm1 hm2 hy => ⟨elimLM_eq_elimL w hi y hy hm1 hm2, (elimL_spec w hi y hy hm1 hm2 _ rfl _ rfl).1⟩)
  unfold factorRowM factorRowS
  simp only []
  rw [h1]
  refine ⟨rfl, h2.1, h2.2.1, ?_⟩
  show (Array.setIfInBounds _ _ _).size = s.n
  rw [Array.size_setIfInBounds]
  exact h2.2.2

theorem factorizeNumeric_eq_S (s : IluSym) (hs : s.wf = true) (hso : s.sorted = true) (d : IluNum α) (hd : d.Sz s) :
    factorizeNumeric s d = factorizeNumericS s d := by
  have w := IluSym.WFP.of_bool s hs hso
  unfold factorizeNumeric factorizeNumericS
  exact foldl_congr_inv (fun y : IluNum α => y.Sz s) _ _ _ d hd
    (fun i hi y hy => factorRowM_eq_S w (List.mem_range.mp hi) y hy)

end FeatModel.Solver
