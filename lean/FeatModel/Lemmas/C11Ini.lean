import FeatModel.Model.Ini
import FeatModel.Lemmas.C11Num
import FeatModel.Lemmas.C11Xml
import FeatModel.Lemmas.C11RoundTrip
/-
C11 — the property-map dump/parse round trip (`PropertyMap::write` followed by `PropertyMap::read`).

Stage A: flat maps (`ini_roundtrip_flat`), Stage B: arbitrarily nested sections in canonical
(write-order) form (`ini_roundtrip_tree`).  Auxiliary material lives in `FeatModel.C11.IniRT`;
the main theorems are stated in `FeatModel.C11`.  Core Lean only.
-/
namespace FeatModel.C11.IniRT

/-! ## admissible keys, values, section names -/

/-- admissible key: non-empty, trimmed, without `=`, `#`, line feed (blanks inside are fine) -/
structure KeyOk (k : Str) : Prop where
  ne : k ≠ []
  trimmed : trim k = k
  noEq : '=' ∉ k
  noHash : '#' ∉ k
  noNl : '\n' ∉ k

/-- admissible value: trimmed (possibly empty), without `#` and line feed, not ending in the continuation mark `&` -/
structure ValOk (v : Str) : Prop where
  trimmed : trim v = v
  noHash : '#' ∉ v
  noNl : '\n' ∉ v
  noAmp : v.getLast? ≠ some '&'

/-- admissible entry: the written line `k = v` must not look like a section marker `[...]` -/
structure EntOk (kv : Str × Str) : Prop where
  key : KeyOk kv.1
  val : ValOk kv.2
  noSec : ¬ (kv.1.head? = some '[' ∧ kv.2.getLast? = some ']')

/-- admissible section name: non-empty, trimmed, without `#` and line feed -/
structure SecOk (nm : Str) : Prop where
  ne : nm ≠ []
  trimmed : trim nm = nm
  noHash : '#' ∉ nm
  noNl : '\n' ∉ nm

/-- strictly sorted (pairwise, which for the transitive `noCaseLt` is the same as chain-wise) -/
def SortedKeys (es : List (Str × Str)) : Prop := es.Pairwise (fun a b => noCaseLt a.1 b.1 = true)

/-! ## small facts about lists, `trim` -/

theorem eqStr : " = ".toList = [' ', '=', ' '] := by simp
theorem endStr : "} # end of [".toList = ['}', ' ', '#', ' ', 'e', 'n', 'd', ' ', 'o', 'f', ' ', '['] := by simp

theorem contains_false {c : Char} {l : Str} (h : c ∉ l) : l.contains c = false := by
  simpa using h

theorem contains_true {c : Char} {l : Str} (h : c ∈ l) : l.contains c = true := by
  simpa using h

theorem length_dropWhile_le (p : Char → Bool) (l : Str) : (l.dropWhile p).length ≤ l.length := by
  induction l with
  | nil => simp
  | cons a t ih =>
    rw [List.dropWhile_cons]; split
    · simp only [List.length_cons]; omega
    · exact Nat.le_refl _

theorem length_trimBack_le (l : Str) : (trimBack l).length ≤ l.length := by
  unfold trimBack
  have := length_dropWhile_le isWs l.reverse
  simpa using this

/-- a trimmed string neither starts nor ends with white space -/
theorem head_of_trimmed {k : Str} (h : trim k = k) : ∀ c, k.head? = some c → isWs c = false := by
  intro c hc
  cases k with
  | nil => simp at hc
  | cons a t =>
    simp only [List.head?_cons, Option.some.injEq] at hc; subst hc
    cases hw : isWs a with
    | false => rfl
    | true =>
      exfalso
      have h1 : (trim (a :: t)).length ≤ t.length := by
        unfold trim trimFront
        rw [List.dropWhile_cons, hw]
        exact Nat.le_trans (length_trimBack_le _) (length_dropWhile_le _ _)
      rw [h] at h1; simp only [List.length_cons] at h1; omega

theorem last_of_trimmed {k : Str} (h : trim k = k) : ∀ c, k.getLast? = some c → isWs c = false := by
  intro c hc
  have h2 := List.head?_dropWhile_not isWs (trimFront k).reverse
  have h3 : ((trimFront k).reverse.dropWhile isWs).head? = some c := by
    have : (trim k).getLast? = some c := by rw [h]; exact hc
    unfold trim trimBack at this
    simpa using this
  rw [h3] at h2; exact h2

theorem trimBack_append_ws {b : Char} {t : Str} (h : isWs b = true) : trimBack (t ++ [b]) = trimBack t := by
  simp [trimBack, h]

theorem trimFront_of_head {t : Str} (h : ∀ c, t.head? = some c → isWs c = false) : trimFront t = t :=
  dropWhile_eq_self_of_head h

theorem trimBack_of_last {t : Str} (h : ∀ c, t.getLast? = some c → isWs c = false) : trimBack t = t := by
  unfold trimBack
  rw [dropWhile_eq_self_of_head (by simpa using h), List.reverse_reverse]

theorem head?_append_of_ne {a b : Str} (h : a ≠ []) : (a ++ b).head? = a.head? := by
  cases a with
  | nil => exact absurd rfl h
  | cons x xs => rfl

/-- `trim (k ++ " ") = k` for a trimmed `k` -/
theorem trim_key_blank {k : Str} (hk : KeyOk k) : trim (k ++ [' ']) = k := by
  unfold trim
  rw [trimFront_of_head (by rw [head?_append_of_ne hk.ne]; exact head_of_trimmed hk.trimmed),
    trimBack_append_ws isWs_space, trimBack_of_last (last_of_trimmed hk.trimmed)]

/-! ## the reader: single lines -/

/-- the lines `ls` take the reader from state `st` to state `st'`, whatever follows -/
def Steps (replace : Bool) (ls : List Str) (st st' : IniSt) : Prop :=
  ∀ fuel rest, iniLoop replace (fuel + ls.length) (ls ++ rest) st = iniLoop replace fuel rest st'

theorem Steps.nil (replace : Bool) (st : IniSt) : Steps replace [] st st := fun _ _ => rfl

theorem Steps.append {replace : Bool} {l1 l2 : List Str} {s1 s2 s3 : IniSt}
    (h1 : Steps replace l1 s1 s2) (h2 : Steps replace l2 s2 s3) : Steps replace (l1 ++ l2) s1 s3 := by
  intro fuel rest
  have e : fuel + (l1 ++ l2).length = (fuel + l2.length) + l1.length := by
    simp only [List.length_append]; omega
  rw [e, List.append_assoc, h1, h2]

theorem Steps.single {replace : Bool} {raw : Str} {st st' : IniSt}
    (h : ∀ fuel rest, iniLoop replace (fuel + 1) (raw :: rest) st = iniLoop replace fuel rest st') :
    Steps replace [raw] st st' := fun fuel rest => h fuel rest

theorem contValue_done (n : Nat) (v : Str) (rest : List Str) (h : v.getLast? ≠ some '&') :
    contValue (n + 1) v rest = some (v, rest) := by
  rw [contValue]
  have : (v.getLast? == some '&') = false := by simpa using h
  simp [this]

theorem addEntry_fresh (m : PMap) (sec : Path) (k v : Str) (replace : Bool)
    (h : ∀ e ∈ m.ents, e.1 = sec → noCaseEq e.2.1 k = false) :
    m.addEntry sec k v replace = { m with ents := m.ents ++ [(sec, k, v)] } := by
  unfold PMap.addEntry
  have : m.ents.any (fun e => e.1 == sec && noCaseEq e.2.1 k) = false := by
    rw [List.any_eq_false]
    intro e he hc
    simp only [Bool.and_eq_true, beq_iff_eq] at hc
    rw [h e he hc.1] at hc; exact absurd hc.2 (by simp)
  simp [this]

/-- an entry line whose trimmed form is `k =w` with `trim w = v` -/
theorem entry_step (replace : Bool) {raw k w v : Str} (hk : KeyOk k)
    (hraw : trim raw = k ++ ' ' :: '=' :: w) (hw : '#' ∉ w)
    (hsec : ¬ (k.head? = some '[' ∧ (k ++ ' ' :: '=' :: w).getLast? = some ']'))
    (htw : trim w = v) (hamp : v.getLast? ≠ some '&')
    (m : PMap) (stack : List Path) (cur : Path) (l : LastRead) (hl : l ≠ .braceClose) :
    Steps replace [raw] ⟨m, stack, cur, l⟩ ⟨m.addEntry cur k v replace, stack, cur, .entry⟩ := by
  apply Steps.single
  intro fuel rest
  have hne : (k ++ ' ' :: '=' :: w).isEmpty = false := by
    cases k <;> simp
  have hhash : (k ++ ' ' :: '=' :: w).contains '#' = false := by
    apply contains_false
    simp only [List.mem_append, List.mem_cons, not_or]
    exact ⟨hk.noHash, by decide, by decide, hw⟩
  have hs : ((k ++ ' ' :: '=' :: w).head? == some '[' && (k ++ ' ' :: '=' :: w).getLast? == some ']') = false := by
    rw [head?_append_of_ne hk.ne]
    cases h1 : (k.head? == some '[') with
    | false => rfl
    | true =>
      cases h2 : ((k ++ ' ' :: '=' :: w).getLast? == some ']') with
      | false => rfl
      | true => exact absurd ⟨by simpa using h1, by simpa using h2⟩ hsec
  have heq : (k ++ ' ' :: '=' :: w).contains '=' = true := contains_true (by simp)
  have hall : ∀ c ∈ k ++ [' '], (c != '=') = true := by
    intro c hc
    simp only [List.mem_append, List.mem_singleton] at hc
    rcases hc with hc | hc
    · simp only [bne_iff_ne, ne_eq]; intro e; subst e; exact hk.noEq hc
    · subst hc; decide
  have hsplit : k ++ ' ' :: '=' :: w = (k ++ [' ']) ++ '=' :: w := by simp
  have htake : (k ++ ' ' :: '=' :: w).takeWhile (fun x => x != '=') = k ++ [' '] := by
    rw [hsplit]; exact takeWhile_append_stop hall (by decide)
  have hdrop : (k ++ ' ' :: '=' :: w).dropWhile (fun x => x != '=') = '=' :: w := by
    rw [hsplit]; exact dropWhile_append_stop hall (by decide)
  have hkne : k.isEmpty = false := by cases k with
    | nil => exact absurd rfl hk.ne
    | cons _ _ => rfl
  have hlb : (l == LastRead.braceClose) = false := by
    cases l <;> first | rfl | exact absurd rfl hl
  rw [iniLoop.eq_3]
  simp only [hraw, hne, hhash, hs, heq, htake, hdrop, trim_key_blank hk, hkne, List.drop_succ_cons, List.drop_zero,
    htw, hlb, Bool.false_eq_true, if_false, if_true]
  cases hv : v.isEmpty with
  | true => simp
  | false => simp [contValue_done rest.length v rest hamp]

/-! ## the reader: entry lines as written -/

/-- the line `PropertyMap::write` prints for an entry at nesting level `indent` -/
def entLine (indent : Nat) (kv : Str × Str) : Str :=
  List.replicate (2 * indent) ' ' ++ kv.1 ++ " = ".toList ++ kv.2

theorem getLast?_append_of_ne {a b : Str} (h : b ≠ []) : (a ++ b).getLast? = b.getLast? := by
  cases b with
  | nil => exact absurd rfl h
  | cons x xs =>
    rw [List.getLast?_append]
    cases hl : (x :: xs).getLast? with
    | none => simp at hl
    | some c => rfl

theorem entLine_step (replace : Bool) (indent : Nat) {kv : Str × Str} (h : EntOk kv)
    (m : PMap) (stack : List Path) (cur : Path) (l : LastRead) (hl : l ≠ .braceClose) :
    Steps replace [entLine indent kv] ⟨m, stack, cur, l⟩ ⟨m.addEntry cur kv.1 kv.2 replace, stack, cur, .entry⟩ := by
  obtain ⟨k, v⟩ := kv
  have hk := h.key
  have hv := h.val
  have hns := h.noSec
  simp only at hk hv hns ⊢
  have hkh := head_of_trimmed hk.trimmed
  cases v with
  | nil =>
    refine entry_step replace (w := []) hk ?_ (by simp) ?_ rfl hv.noAmp m stack cur l hl
    · unfold entLine trim trimFront
      simp only [eqStr, List.append_nil, List.append_assoc]
      rw [dropWhile_isWs_replicate]
      have e : k ++ [' ', '=', ' '] = ((k ++ [' ']) ++ ['=']) ++ [' '] := by simp
      have e2 : k ++ [' ', '='] = (k ++ [' ']) ++ ['='] := by simp
      rw [show List.dropWhile isWs (k ++ [' ', '=', ' ']) = trimFront (k ++ [' ', '=', ' ']) from rfl,
        trimFront_of_head (by rw [head?_append_of_ne hk.ne]; exact hkh), e,
        trimBack_append_ws isWs_space, trimBack_concat (by decide), e2]
    · intro hc
      have : (k ++ [' ', '=']).getLast? = some '=' := by
        rw [getLast?_append_of_ne (by simp)]; rfl
      rw [this] at hc; exact absurd hc.2 (by decide)
  | cons a t =>
    have hvl := last_of_trimmed hv.trimmed
    have hvh := head_of_trimmed hv.trimmed
    refine entry_step replace (w := ' ' :: a :: t) hk ?_ ?_ ?_ ?_ hv.noAmp m stack cur l hl
    · unfold entLine
      simp only [eqStr, List.append_assoc]
      have := trim_replicate_append (2 * indent) (k ++ ([' ', '=', ' '] ++ a :: t))
        (by rw [head?_append_of_ne hk.ne]; exact hkh)
        (by rw [getLast?_append_of_ne (by simp), getLast?_append_of_ne (by simp)]; exact hvl)
      simpa using this
    · simp only [List.mem_cons, not_or]
      refine ⟨by decide, ?_⟩
      have := hv.noHash
      simpa using this
    · intro hc
      apply hns
      refine ⟨hc.1, ?_⟩
      have h2 := hc.2
      rw [getLast?_append_of_ne (by simp)] at h2
      have e : (' ' :: '=' :: ' ' :: a :: t) = [' ', '=', ' '] ++ (a :: t) := rfl
      rw [e, getLast?_append_of_ne (by simp)] at h2
      exact h2
    · have := trim_replicate_append 1 (a :: t) hvh hvl
      simpa using this

/-- the paths/keys already in the map do not clash with the entries to be read into section `cur` -/
def FreshEnts (E : List (Path × Str × Str)) (cur : Path) (es : List (Str × Str)) : Prop :=
  ∀ e ∈ E, e.1 = cur → ∀ kv ∈ es, noCaseEq e.2.1 kv.1 = false

theorem noCaseEq_of_lt {a b : Str} (h : noCaseLt a b = true) : noCaseEq a b = false := by
  simp [noCaseEq, h]

theorem ents_steps (replace : Bool) (indent : Nat) (stack : List Path) (cur : Path) :
    ∀ (es : List (Str × Str)) (S : List Path) (E : List (Path × Str × Str)) (l : LastRead),
      (∀ kv ∈ es, EntOk kv) → SortedKeys es → FreshEnts E cur es → l ≠ .braceClose →
      ∃ l', Steps replace (es.map (entLine indent)) ⟨⟨S, E⟩, stack, cur, l⟩
          ⟨⟨S, E ++ es.map (fun kv => (cur, kv.1, kv.2))⟩, stack, cur, l'⟩ ∧
        l' ≠ .braceClose ∧ (l ≠ .none → l' ≠ .none) := by
  intro es
  induction es with
  | nil =>
    intro S E l _ _ _ hl
    exact ⟨l, by simpa using Steps.nil replace _, hl, id⟩
  | cons kv es ih =>
    intro S E l hok hs hf hl
    have hs' := List.pairwise_cons.mp hs
    have h1 := entLine_step replace indent (hok kv (by simp)) ⟨S, E⟩ stack cur l hl
    rw [addEntry_fresh _ _ _ _ _ (fun e he hc => hf e he hc kv (by simp))] at h1
    have hf' : FreshEnts (E ++ [(cur, kv.1, kv.2)]) cur es := by
      intro e he hc kv' hkv'
      rcases List.mem_append.mp he with he | he
      · exact hf e he hc kv' (by simp [hkv'])
      · simp only [List.mem_singleton] at he; subst he
        exact noCaseEq_of_lt (hs'.1 kv' hkv')
    obtain ⟨l', h2, h3, h4⟩ := ih S (E ++ [(cur, kv.1, kv.2)]) .entry (fun x hx => hok x (by simp [hx])) hs'.2 hf'
      (by decide)
    refine ⟨l', ?_, h3, fun _ => ?_⟩
    · have := Steps.append h1 h2
      simpa using this
    · exact h4 (by decide)

/-! ## the reader: section marker, braces -/

def secLine (indent : Nat) (nm : Str) : Str := List.replicate (2 * indent) ' ' ++ '[' :: nm ++ [']']
def openLine (indent : Nat) : Str := List.replicate (2 * indent) ' ' ++ ['{']
def closeLine (indent : Nat) (nm : Str) : Str :=
  List.replicate (2 * indent) ' ' ++ "} # end of [".toList ++ nm ++ [']']

theorem path_child {p pre : Path} (h1 : p.length = pre.length + 1) (h2 : p.take pre.length = pre) :
    ∃ x, p = pre ++ [x] := by
  have h3 := List.take_append_drop pre.length p
  rw [h2] at h3
  have h4 : (p.drop pre.length).length = 1 := by simp [h1]
  match hd : p.drop pre.length, h4 with
  | [x], _ => exact ⟨x, by rw [← h3, hd]⟩

theorem addSection_fresh (S : List Path) (E : List (Path × Str × Str)) (pre : Path) (nm : Str)
    (h : ∀ p ∈ S, ∀ x, p = pre ++ [x] → noCaseEq x nm = false) :
    PMap.addSection ⟨S, E⟩ pre nm = (pre ++ [nm], ⟨S ++ [pre ++ [nm]], E⟩) := by
  unfold PMap.addSection
  have : S.find? (fun p => p.length == pre.length + 1 && p.take pre.length == pre &&
      noCaseEq (p.getLastD []) nm) = none := by
    rw [List.find?_eq_none]
    intro p hp hc
    simp only [Bool.and_eq_true, beq_iff_eq] at hc
    obtain ⟨x, rfl⟩ := path_child hc.1.1 hc.1.2
    have := h _ hp x rfl
    rw [show (pre ++ [x]).getLastD [] = x by simp] at hc
    rw [this] at hc; exact absurd hc.2 (by simp)
  simp only [this]

theorem sec_step (replace : Bool) (indent : Nat) {nm : Str} (hn : SecOk nm)
    (S : List Path) (E : List (Path × Str × Str)) (pre : Path) (stk : List Path) (cur : Path) (l : LastRead)
    (h : ∀ p ∈ S, ∀ x, p = pre ++ [x] → noCaseEq x nm = false) :
    Steps replace [secLine indent nm] ⟨⟨S, E⟩, pre :: stk, cur, l⟩
      ⟨⟨S ++ [pre ++ [nm]], E⟩, pre :: stk, pre ++ [nm], .section⟩ := by
  apply Steps.single
  intro fuel rest
  have hraw : trim (secLine indent nm) = '[' :: (nm ++ [']']) := by
    have := trim_replicate_append (2 * indent) ('[' :: (nm ++ [']']))
      (by intro c hc; simp only [List.head?_cons, Option.some.injEq] at hc; subst hc; decide)
      (by intro c hc
          rw [show '[' :: (nm ++ [']']) = ('[' :: nm) ++ [']'] from rfl, List.getLast?_concat] at hc
          simp only [Option.some.injEq] at hc; subst hc; decide)
    simpa [secLine] using this
  have hhash : ('[' :: (nm ++ [']'])).contains '#' = false := by
    apply contains_false
    simp only [List.mem_cons, List.mem_append, not_or]
    exact ⟨by decide, hn.noHash, by decide, by simp⟩
  have hlast : ('[' :: (nm ++ [']'])).getLast? = some ']' := by
    rw [show '[' :: (nm ++ [']']) = ('[' :: nm) ++ [']'] from rfl, List.getLast?_concat]
  have hnme : nm.isEmpty = false := by
    cases nm with
    | nil => exact absurd rfl hn.ne
    | cons _ _ => rfl
  rw [iniLoop.eq_3]
  simp only [hraw, hhash, hlast, List.isEmpty_cons, List.head?_cons, beq_self_eq_true, Bool.and_self,
    Bool.false_eq_true, if_false, if_true, List.drop_succ_cons, List.drop_zero, List.dropLast_concat,
    hn.trimmed, hnme, List.headD_cons, addSection_fresh S E pre nm h]

theorem open_step (replace : Bool) (indent : Nat) (m : PMap) (stk : List Path) (cur : Path) :
    Steps replace [openLine indent] ⟨m, stk, cur, .section⟩ ⟨m, cur :: stk, cur, .braceOpen⟩ := by
  apply Steps.single
  intro fuel rest
  have hraw : trim (openLine indent) = ['{'] := by
    have := trim_replicate_append (2 * indent) ['{'] (by decide) (by decide)
    simpa [openLine] using this
  rw [iniLoop.eq_3]
  simp [hraw]

theorem close_step (replace : Bool) (indent : Nat) (nm : Str) (m : PMap) (a b : Path) (stk : List Path)
    (cur : Path) (l : LastRead) (hl : l ≠ .none) :
    Steps replace [closeLine indent nm] ⟨m, a :: b :: stk, cur, l⟩ ⟨m, b :: stk, b, .braceClose⟩ := by
  apply Steps.single
  intro fuel rest
  have hraw : trim (closeLine indent nm) = ['}', ' '] ++ '#' :: (" end of [".toList ++ nm ++ [']']) := by
    have := trim_replicate_append (2 * indent) ("} # end of [".toList ++ nm ++ [']'])
      (by intro c hc
          rw [endStr] at hc
          simp only [List.cons_append, List.head?_cons, Option.some.injEq] at hc; subst hc; decide)
      (by intro c hc
          rw [List.getLast?_concat] at hc
          simp only [Option.some.injEq] at hc; subst hc; decide)
    rw [closeLine, List.append_assoc, List.append_assoc, ← List.append_assoc _ nm, this]
    simp
  have hstrip : stripComment (['}', ' '] ++ '#' :: (" end of [".toList ++ nm ++ [']'])) = ['}', ' '] :=
    takeWhile_append_stop (by decide) (by decide)
  have htrim : trim ['}', ' '] = ['}'] := by decide
  have hlb : (l != LastRead.none) = true := by
    cases l <;> first | rfl | exact absurd rfl hl
  rw [iniLoop.eq_3]
  simp only [hraw, hstrip, htrim]
  simp [hlb]

/-! ## canonical nested maps -/

/-- a list of sibling sections in first-child/next-sibling form: the head section `nm` with its own entries
    `ents` and subsections `kids`, followed by the later siblings `rest` -/
inductive Forest where
  | nil
  | cons (nm : Str) (ents : List (Str × Str)) (kids : Forest) (rest : Forest)

namespace Forest

def names : Forest → List Str
  | nil => []
  | cons nm _ _ rest => nm :: rest.names

/-- section paths below `pre` in creation (= write) order: depth first -/
def secs (pre : Path) : Forest → List Path
  | nil => []
  | cons nm _ kids rest => (pre ++ [nm]) :: (kids.secs (pre ++ [nm]) ++ rest.secs pre)

/-- entries below `pre` in creation (= write) order -/
def ents (pre : Path) : Forest → List (Path × Str × Str)
  | nil => []
  | cons nm es kids rest =>
    es.map (fun kv => (pre ++ [nm], kv.1, kv.2)) ++ (kids.ents (pre ++ [nm]) ++ rest.ents pre)

/-- the lines `PropertyMap::write` prints for the sections at nesting level `indent` -/
def lines (indent : Nat) : Forest → List Str
  | nil => []
  | cons nm es kids rest =>
    [secLine indent nm, openLine indent] ++ (es.map (entLine (indent + 1)) ++ kids.lines (indent + 1)) ++
      [closeLine indent nm] ++ rest.lines indent

/-- nesting depth -/
def height : Forest → Nat
  | nil => 0
  | cons _ _ kids rest => max (kids.height + 1) rest.height

/-- admissible names and entries everywhere; entries and sibling sections strictly sorted -/
def Ok : Forest → Prop
  | nil => True
  | cons nm es kids rest =>
    SecOk nm ∧ (∀ kv ∈ es, EntOk kv) ∧ SortedKeys es ∧ kids.Ok ∧ rest.Ok ∧
      (∀ nm' ∈ rest.names, noCaseLt nm nm' = true)

end Forest

/-- the canonical flat representation: root entries `es`, sections `f` -/
def treeMap (es : List (Str × Str)) (f : Forest) : PMap :=
  { secs := f.secs [], ents := es.map (fun kv => ([], kv.1, kv.2)) ++ f.ents [] }

def treeLines (es : List (Str × Str)) (f : Forest) : List Str := es.map (entLine 0) ++ f.lines 0

theorem noCaseLt_irrefl (a : Str) : noCaseLt a a = false := by
  induction a with
  | nil => rfl
  | cons c cs ih => simp [noCaseLt, ih]

/-- whatever is already recorded below `pre` sorts before all names of `f` -/
def Before (pre : Path) (S : List Path) (E : List (Path × Str × Str)) (f : Forest) : Prop :=
  (∀ p ∈ S, ∀ x q, p = pre ++ x :: q → ∀ nm ∈ f.names, noCaseLt x nm = true) ∧
  (∀ e ∈ E, ∀ x q, e.1 = pre ++ x :: q → ∀ nm ∈ f.names, noCaseLt x nm = true)

theorem secs_shape (f : Forest) : ∀ (pre : Path), ∀ p ∈ f.secs pre, ∃ nm ∈ f.names, ∃ q, p = pre ++ nm :: q := by
  induction f with
  | nil => intro pre p hp; simp [Forest.secs] at hp
  | cons nm es kids rest ihk ihr =>
    intro pre p hp
    simp only [Forest.secs, List.mem_cons, List.mem_append] at hp
    rcases hp with hp | hp | hp
    · exact ⟨nm, by simp [Forest.names], [], by simp [hp]⟩
    · obtain ⟨x, _, q, rfl⟩ := ihk _ p hp
      exact ⟨nm, by simp [Forest.names], x :: q, by simp⟩
    · obtain ⟨x, hx, q, rfl⟩ := ihr _ p hp
      exact ⟨x, by simp [Forest.names, hx], q, rfl⟩

theorem ents_shape (f : Forest) : ∀ (pre : Path), ∀ e ∈ f.ents pre, ∃ nm ∈ f.names, ∃ q, e.1 = pre ++ nm :: q := by
  induction f with
  | nil => intro pre p hp; simp [Forest.ents] at hp
  | cons nm es kids rest ihk ihr =>
    intro pre e he
    simp only [Forest.ents, List.mem_map, List.mem_append] at he
    rcases he with ⟨kv, _, rfl⟩ | he | he
    · exact ⟨nm, by simp [Forest.names], [], by simp⟩
    · obtain ⟨x, _, q, hq⟩ := ihk _ e he
      exact ⟨nm, by simp [Forest.names], x :: q, by simp [hq]⟩
    · obtain ⟨x, hx, q, hq⟩ := ihr _ e he
      exact ⟨x, by simp [Forest.names, hx], q, hq⟩

theorem forest_steps (replace : Bool) (f : Forest) :
    ∀ (pre : Path) (indent : Nat) (S : List Path) (E : List (Path × Str × Str)) (stk : List Path) (l : LastRead),
      f.Ok → Before pre S E f →
      ∃ l', Steps replace (f.lines indent) ⟨⟨S, E⟩, pre :: stk, pre, l⟩
          ⟨⟨S ++ f.secs pre, E ++ f.ents pre⟩, pre :: stk, pre, l'⟩ ∧ (l ≠ .none → l' ≠ .none) := by
  induction f with
  | nil =>
    intro pre indent S E stk l _ _
    exact ⟨l, by simpa [Forest.lines, Forest.secs, Forest.ents] using Steps.nil replace _, id⟩
  | cons nm es kids rest ihk ihr =>
    intro pre indent S E stk l hok hb
    obtain ⟨hnm, hes, hsort, hkids, hrest, hlt⟩ := hok
    -- `[nm]`
    have s1 := sec_step replace indent hnm S E pre stk pre l (by
      intro p hp x hx
      exact noCaseEq_of_lt (hb.1 p hp x [] hx nm (by simp [Forest.names])))
    -- `{`
    have s2 := open_step replace indent ⟨S ++ [pre ++ [nm]], E⟩ (pre :: stk) (pre ++ [nm])
    -- entries
    have hfresh : FreshEnts E (pre ++ [nm]) es := by
      intro e he hc kv _
      have := hb.2 e he nm [] (by simp [hc]) nm (by simp [Forest.names])
      rw [noCaseLt_irrefl] at this; exact absurd this (by simp)
    obtain ⟨l1, s3, _, hl1⟩ := ents_steps replace (indent + 1) ((pre ++ [nm]) :: pre :: stk) (pre ++ [nm]) es
      (S ++ [pre ++ [nm]]) E .braceOpen hes hsort hfresh (by decide)
    -- subsections
    have hbk : Before (pre ++ [nm]) (S ++ [pre ++ [nm]]) (E ++ es.map (fun kv => (pre ++ [nm], kv.1, kv.2))) kids := by
      constructor
      · intro p hp x q hpq
        rcases List.mem_append.mp hp with hp | hp
        · have := hb.1 p hp nm (x :: q) (by simp [hpq]) nm (by simp [Forest.names])
          rw [noCaseLt_irrefl] at this; exact absurd this (by simp)
        · simp only [List.mem_singleton] at hp
          rw [hp] at hpq
          have := congrArg List.length hpq
          simp at this
      · intro e he x q hpq
        rcases List.mem_append.mp he with he | he
        · have := hb.2 e he nm (x :: q) (by simp [hpq]) nm (by simp [Forest.names])
          rw [noCaseLt_irrefl] at this; exact absurd this (by simp)
        · obtain ⟨kv, _, rfl⟩ := List.mem_map.mp he
          have := congrArg List.length hpq
          simp at this
    obtain ⟨l2, s4, hl2⟩ := ihk (pre ++ [nm]) (indent + 1) _ _ (pre :: stk) l1 hkids hbk
    -- `}`
    have s5 := close_step replace indent nm
      ⟨S ++ [pre ++ [nm]] ++ kids.secs (pre ++ [nm]),
        E ++ es.map (fun kv => (pre ++ [nm], kv.1, kv.2)) ++ kids.ents (pre ++ [nm])⟩
      (pre ++ [nm]) pre stk (pre ++ [nm]) l2 (hl2 (hl1 (by decide)))
    -- later siblings
    have hbr : Before pre (S ++ [pre ++ [nm]] ++ kids.secs (pre ++ [nm]))
        (E ++ es.map (fun kv => (pre ++ [nm], kv.1, kv.2)) ++ kids.ents (pre ++ [nm])) rest := by
      constructor
      · intro p hp x q hpq nm' hnm'
        simp only [List.mem_append, List.mem_singleton] at hp
        rcases hp with (hp | hp) | hp
        · exact hb.1 p hp x q hpq nm' (by simp [Forest.names, hnm'])
        · rw [hp] at hpq
          have : x = nm := by
            have := List.append_cancel_left hpq
            simp at this; exact this.1.symm
          rw [this]; exact hlt nm' hnm'
        · obtain ⟨y, _, q', rfl⟩ := secs_shape kids _ p hp
          have : x = nm := by
            rw [List.append_assoc] at hpq
            have := List.append_cancel_left hpq
            simp at this; exact this.1.symm
          rw [this]; exact hlt nm' hnm'
      · intro e he x q hpq nm' hnm'
        simp only [List.mem_append, List.mem_map] at he
        rcases he with (he | ⟨kv, _, rfl⟩) | he
        · exact hb.2 e he x q hpq nm' (by simp [Forest.names, hnm'])
        · have : x = nm := by
            have := List.append_cancel_left hpq
            simp at this; exact this.1.symm
          rw [this]; exact hlt nm' hnm'
        · obtain ⟨y, _, q', hq'⟩ := ents_shape kids _ e he
          have : x = nm := by
            rw [hq', List.append_assoc] at hpq
            have := List.append_cancel_left hpq
            simp at this; exact this.1.symm
          rw [this]; exact hlt nm' hnm'
    obtain ⟨l3, s6, hl3⟩ := ihr pre indent _ _ stk .braceClose hrest hbr
    refine ⟨l3, ?_, fun _ => hl3 (by decide)⟩
    have := Steps.append (Steps.append (Steps.append (Steps.append (Steps.append s1 s2) s3) s4) s5) s6
    simpa [Forest.lines, Forest.secs, Forest.ents] using this

/-! ## `noCaseLt` is transitive: adjacent-sorted lists are pairwise sorted -/

theorem noCaseLt_trans : ∀ (a b c : Str), noCaseLt a b = true → noCaseLt b c = true → noCaseLt a c = true := by
  intro a
  induction a with
  | nil =>
    intro b c h1 h2
    cases b with
    | nil => simp [noCaseLt] at h1
    | cons y ys => cases c with
      | nil => simp [noCaseLt] at h2
      | cons z zs => rfl
  | cons x xs ih =>
    intro b c h1 h2
    cases b with
    | nil => simp [noCaseLt] at h1
    | cons y ys => cases c with
      | nil => simp [noCaseLt] at h2
      | cons z zs =>
        simp only [noCaseLt] at h1 h2 ⊢
        split at h1
        · split at h2
          · rw [if_pos (by omega)]
          · split at h2
            · simp at h2
            · rw [if_pos (by omega)]
        · split at h1
          · simp at h1
          · split at h2
            · rw [if_pos (by omega)]
            · split at h2
              · simp at h2
              · rw [if_neg (by omega), if_neg (by omega)]; exact ih ys zs h1 h2

/-- each key is `noCaseLt` its successor -/
def ChainKeys : List (Str × Str) → Prop
  | [] => True
  | [_] => True
  | a :: b :: t => noCaseLt a.1 b.1 = true ∧ ChainKeys (b :: t)

theorem sortedKeys_of_chain (es : List (Str × Str)) (h : ChainKeys es) : SortedKeys es := by
  induction es with
  | nil => exact List.Pairwise.nil
  | cons a t ih =>
    cases t with
    | nil => exact List.pairwise_cons.mpr ⟨fun _ h => absurd h (by simp), List.Pairwise.nil⟩
    | cons b t' =>
      have ihp := ih h.2
      have hb := List.pairwise_cons.mp ihp
      refine List.pairwise_cons.mpr ⟨?_, ihp⟩
      intro c hc
      rcases List.mem_cons.mp hc with rfl | hc
      · exact h.1
      · exact noCaseLt_trans _ _ _ h.1 (hb.1 c hc)

/-! ## from `Steps` to `iniRead` -/

theorem read_of_steps {replace : Bool} {lines : List Str} {m : PMap} {cur : Path} {l : LastRead}
    (hnl : ∀ x ∈ lines, '\n' ∉ x)
    (h : Steps replace lines ⟨PMap.empty, [[]], [], .none⟩ ⟨m, [[]], cur, l⟩) :
    iniRead replace (lines.flatMap (fun x => x ++ ['\n'])) = some m := by
  unfold iniRead splitLines
  rw [RT.splitChar_flatMap '\n' lines hnl]
  have e : (lines ++ [[]]).length + 1 = 2 + lines.length := by simp; omega
  simp only [e]
  rw [h 2 [[]], iniLoop.eq_3]
  simp [trim, trimFront, trimBack, iniLoop]

theorem nl_entLine (indent : Nat) {kv : Str × Str} (h : EntOk kv) : '\n' ∉ entLine indent kv := by
  unfold entLine
  simp only [eqStr, List.mem_append, List.mem_replicate, List.mem_cons, not_or]
  exact ⟨⟨⟨by simp, h.key.noNl⟩, by decide, by decide, by decide, by simp⟩, h.val.noNl⟩

/-! ## the writer on sorted data -/

theorem sortBy_sorted {α : Type} (lt : α → α → Bool) (l : List α) (h : l.Pairwise (fun a b => lt a b = true)) :
    sortBy lt l = l := by
  induction l with
  | nil => rfl
  | cons a t ih =>
    have h' := List.pairwise_cons.mp h
    show insertBy lt a (sortBy lt t) = a :: t
    rw [ih h'.2]
    cases t with
    | nil => rfl
    | cons b t' => simp [insertBy, h'.1 b (by simp)]

/-- the flat map with entries `es` (all in the root section) -/
def flatMap_ (es : List (Str × Str)) : PMap := { secs := [], ents := es.map (fun kv => ([], kv.1, kv.2)) }

theorem write_flat (es : List (Str × Str)) (hs : SortedKeys es) :
    (flatMap_ es).writeAt (flatMap_ es).depthBound [] 0 = es.map (entLine 0) := by
  have hd : (flatMap_ es).depthBound = 2 := rfl
  have he : (flatMap_ es).entriesOf [] = es := by
    unfold PMap.entriesOf flatMap_
    have : (es.map (fun kv => (([] : Path), kv.1, kv.2))).filter (fun e => e.1 == []) =
        es.map (fun kv => (([] : Path), kv.1, kv.2)) := by
      rw [List.filter_eq_self]; intro a ha
      obtain ⟨kv, _, rfl⟩ := List.mem_map.mp ha; rfl
    simp only [this, List.map_map]
    have : ((fun e : Path × Str × Str => e.2) ∘ fun kv : Str × Str => (([] : Path), kv.1, kv.2)) = id := by
      funext kv; rfl
    rw [this, List.map_id]
    exact sortBy_sorted _ _ hs
  have hc : (flatMap_ es).childrenOf [] = [] := rfl
  rw [hd, PMap.writeAt, he, hc]
  simp [entLine]

/-! ## the writer on canonical nested maps -/

/-- `pre` is a prefix of `p` -/
def pfx (pre p : Path) : Bool := p.take pre.length == pre
/-- `pre` is a proper prefix of `p` -/
def spfx (pre p : Path) : Bool := pfx pre p && decide (pre.length < p.length)

theorem filter_sub {α : Type} (p q : α → Bool) (l : List α) (h : ∀ a, p a = true → q a = true) :
    l.filter p = (l.filter q).filter p := by
  rw [List.filter_filter]
  congr 1; funext a
  cases hp : p a with
  | false => rfl
  | true => simp [h a hp]

theorem pfx_append (pre q : Path) : pfx pre (pre ++ q) = true := by
  simp [pfx]

theorem pfx_decomp {pre p : Path} (h : pfx pre p = true) : ∃ q, p = pre ++ q := by
  simp only [pfx, beq_iff_eq] at h
  exact ⟨p.drop pre.length, by have := List.take_append_drop pre.length p; rw [h] at this; exact this.symm⟩

theorem pfx_child_decomp {pre p : Path} {nm : Str} (h : pfx (pre ++ [nm]) p = true) : ∃ q, p = pre ++ nm :: q := by
  obtain ⟨q, rfl⟩ := pfx_decomp h
  exact ⟨q, by simp⟩

theorem pfx_child_pfx {pre p : Path} {nm : Str} (h : pfx (pre ++ [nm]) p = true) : pfx pre p = true := by
  obtain ⟨q, rfl⟩ := pfx_child_decomp h
  exact pfx_append pre _

theorem names_sorted (f : Forest) (h : f.Ok) : f.names.Pairwise (fun a b => noCaseLt a b = true) := by
  induction f with
  | nil => exact List.Pairwise.nil
  | cons nm es kids rest _ ihr =>
    obtain ⟨_, _, _, _, hrest, hlt⟩ := h
    exact List.pairwise_cons.mpr ⟨hlt, ihr hrest⟩

theorem children_names (f : Forest) (pre : Path) :
    ((f.secs pre).filter (fun p => p.length == pre.length + 1)).map (fun p => p.getLastD []) = f.names := by
  induction f with
  | nil => rfl
  | cons nm es kids rest _ ihr =>
    have hk : (kids.secs (pre ++ [nm])).filter (fun p => p.length == pre.length + 1) = [] := by
      rw [List.filter_eq_nil_iff]
      intro p hp
      obtain ⟨x, _, q, rfl⟩ := secs_shape kids _ p hp
      simp
    have hl : ((pre ++ [nm]).length == pre.length + 1) = true := by simp
    simp only [Forest.secs, Forest.names, List.filter_cons, List.filter_append, hk, List.nil_append, hl, if_true,
      List.map_cons, ihr]
    rw [show (pre ++ [nm]).getLastD [] = nm by simp]

theorem body_write_of (M : PMap) (pre : Path) (indent fuel : Nat) (es : List (Str × Str)) (f : Forest)
    (hes : SortedKeys es) (hok : f.Ok)
    (HE : M.ents.filter (fun e => pfx pre e.1) = es.map (fun kv => (pre, kv.1, kv.2)) ++ f.ents pre)
    (HS : M.secs.filter (spfx pre) = f.secs pre)
    (hF : (f.names.map (fun nm => [secLine indent nm, openLine indent] ++ M.writeAt fuel (pre ++ [nm]) (indent + 1) ++
        [closeLine indent nm])).flatten = f.lines indent) :
    M.writeAt (fuel + 1) pre indent = es.map (entLine indent) ++ f.lines indent := by
  have he : M.entriesOf pre = es := by
    unfold PMap.entriesOf
    rw [filter_sub (fun e : Path × Str × Str => e.1 == pre) (fun e => pfx pre e.1) M.ents
      (by intro a ha; simp only [beq_iff_eq] at ha; rw [ha]; simpa using pfx_append pre []), HE,
      List.filter_append]
    have h1 : (es.map (fun kv => (pre, kv.1, kv.2))).filter (fun e => e.1 == pre) = es.map (fun kv => (pre, kv.1, kv.2)) := by
      rw [List.filter_eq_self]; intro a ha
      obtain ⟨kv, _, rfl⟩ := List.mem_map.mp ha; simp
    have h2 : (f.ents pre).filter (fun e => e.1 == pre) = [] := by
      rw [List.filter_eq_nil_iff]; intro e he
      obtain ⟨x, _, q, hq⟩ := ents_shape f pre e he
      rw [hq]; simp
    rw [h1, h2, List.append_nil, List.map_map]
    have : ((fun e : Path × Str × Str => e.2) ∘ fun kv : Str × Str => (pre, kv.1, kv.2)) = id := by
      funext kv; rfl
    rw [this, List.map_id]
    exact sortBy_sorted _ _ hes
  have hc : M.childrenOf pre = f.names := by
    unfold PMap.childrenOf
    rw [filter_sub (fun p : Path => p.length == pre.length + 1 && p.take pre.length == pre) (spfx pre) M.secs
      (by intro a ha
          simp only [Bool.and_eq_true, beq_iff_eq] at ha
          simp [spfx, pfx, ha.1, ha.2]), HS]
    have : (f.secs pre).filter (fun p => p.length == pre.length + 1 && p.take pre.length == pre) =
        (f.secs pre).filter (fun p => p.length == pre.length + 1) := by
      apply List.filter_congr
      intro p hp
      obtain ⟨x, _, q, rfl⟩ := secs_shape f pre p hp
      simp
    rw [this, children_names]
    exact sortBy_sorted _ _ (names_sorted f hok)
  rw [PMap.writeAt, he, hc]
  rw [← hF]
  rfl

theorem pfx_child_iff (pre q : Path) (x nm : Str) : pfx (pre ++ [nm]) (pre ++ x :: q) = true ↔ x = nm := by
  constructor
  · intro h
    obtain ⟨q', hq'⟩ := pfx_child_decomp h
    have := List.append_cancel_left hq'
    simp only [List.cons.injEq] at this; exact this.1
  · rintro rfl
    have := pfx_append (pre ++ [x]) q
    simpa using this

theorem spfx_child_spfx {pre p : Path} {nm : Str} (h : spfx (pre ++ [nm]) p = true) : spfx pre p = true := by
  simp only [spfx, Bool.and_eq_true, decide_eq_true_eq] at h ⊢
  refine ⟨pfx_child_pfx h.1, ?_⟩
  have := h.2; simp only [List.length_append, List.length_singleton] at this; omega

theorem not_mem_names_of_lt {nm : Str} {l : List Str} (h : ∀ nm' ∈ l, noCaseLt nm nm' = true) : nm ∉ l := by
  intro hm
  have := h nm hm
  rw [noCaseLt_irrefl] at this; exact absurd this (by simp)

theorem forest_write (M : PMap) (f : Forest) :
    ∀ (pre : Path) (indent fuel : Nat) (Ef : List (Path × Str × Str)) (Sf : List Path),
      f.Ok → f.height ≤ fuel →
      M.ents.filter (fun e => pfx pre e.1) = Ef ++ f.ents pre →
      M.secs.filter (spfx pre) = Sf ++ f.secs pre →
      (∀ e ∈ Ef, ∀ x q, e.1 = pre ++ x :: q → x ∉ f.names) →
      (∀ p ∈ Sf, ∀ x q, p = pre ++ x :: q → x ∉ f.names) →
      (f.names.map (fun nm => [secLine indent nm, openLine indent] ++ M.writeAt fuel (pre ++ [nm]) (indent + 1) ++
        [closeLine indent nm])).flatten = f.lines indent := by
  induction f with
  | nil => intros; rfl
  | cons nm es kids rest ihk ihr =>
    intro pre indent fuel Ef Sf hok hfuel HE HS hEf hSf
    obtain ⟨hnm, hes, hsort, hkids, hrest, hlt⟩ := hok
    have hnr : nm ∉ rest.names := not_mem_names_of_lt hlt
    simp only [Forest.height] at hfuel
    obtain ⟨fuel', rfl⟩ : ∃ k, fuel = k + 1 := ⟨fuel - 1, by omega⟩
    have hfk : kids.height ≤ fuel' := by omega
    have hfr : rest.height ≤ fuel' + 1 := by omega
    -- the restriction of `M` to the subtree at `pre ++ [nm]`
    have HE' : M.ents.filter (fun e => pfx (pre ++ [nm]) e.1) =
        es.map (fun kv => (pre ++ [nm], kv.1, kv.2)) ++ kids.ents (pre ++ [nm]) := by
      rw [filter_sub (fun e : Path × Str × Str => pfx (pre ++ [nm]) e.1) (fun e => pfx pre e.1) M.ents
        (fun a ha => pfx_child_pfx ha), HE]
      simp only [Forest.ents, List.filter_append]
      have a : Ef.filter (fun e => pfx (pre ++ [nm]) e.1) = [] := by
        rw [List.filter_eq_nil_iff]; intro e he hc
        obtain ⟨q, hq⟩ := pfx_child_decomp hc
        exact hEf e he nm q hq (by simp [Forest.names])
      have b : (es.map (fun kv => (pre ++ [nm], kv.1, kv.2))).filter (fun e => pfx (pre ++ [nm]) e.1) =
          es.map (fun kv => (pre ++ [nm], kv.1, kv.2)) := by
        rw [List.filter_eq_self]; intro e he
        obtain ⟨kv, _, rfl⟩ := List.mem_map.mp he
        simpa using pfx_append (pre ++ [nm]) []
      have c : (kids.ents (pre ++ [nm])).filter (fun e => pfx (pre ++ [nm]) e.1) = kids.ents (pre ++ [nm]) := by
        rw [List.filter_eq_self]; intro e he
        obtain ⟨x, _, q, hq⟩ := ents_shape kids _ e he
        simp only [hq]; exact pfx_append _ _
      have d : (rest.ents pre).filter (fun e => pfx (pre ++ [nm]) e.1) = [] := by
        rw [List.filter_eq_nil_iff]; intro e he hc
        obtain ⟨x, hx, q, hq⟩ := ents_shape rest _ e he
        rw [hq, pfx_child_iff] at hc
        exact hnr (hc ▸ hx)
      rw [a, b, c, d]; simp
    have HS' : M.secs.filter (spfx (pre ++ [nm])) = kids.secs (pre ++ [nm]) := by
      rw [filter_sub (spfx (pre ++ [nm])) (spfx pre) M.secs (fun a ha => spfx_child_spfx ha), HS]
      simp only [Forest.secs, List.filter_append, List.filter_cons]
      have a : Sf.filter (spfx (pre ++ [nm])) = [] := by
        rw [List.filter_eq_nil_iff]; intro p hp hc
        simp only [spfx, Bool.and_eq_true] at hc
        obtain ⟨q, hq⟩ := pfx_child_decomp hc.1
        exact hSf p hp nm q hq (by simp [Forest.names])
      have b : spfx (pre ++ [nm]) (pre ++ [nm]) = false := by simp [spfx]
      have c : (kids.secs (pre ++ [nm])).filter (spfx (pre ++ [nm])) = kids.secs (pre ++ [nm]) := by
        rw [List.filter_eq_self]; intro p hp
        obtain ⟨x, _, q, rfl⟩ := secs_shape kids _ p hp
        simp only [spfx, pfx_append, Bool.true_and, decide_eq_true_eq]
        simp
      have d : (rest.secs pre).filter (spfx (pre ++ [nm])) = [] := by
        rw [List.filter_eq_nil_iff]; intro p hp hc
        obtain ⟨x, hx, q, rfl⟩ := secs_shape rest _ p hp
        simp only [spfx, Bool.and_eq_true] at hc
        rw [pfx_child_iff] at hc
        exact hnr (hc.1 ▸ hx)
      rw [a, b, c, d]; simp
    have hFk := ihk (pre ++ [nm]) (indent + 1) fuel' (es.map (fun kv => (pre ++ [nm], kv.1, kv.2))) [] hkids hfk HE'
      (by simpa using HS')
      (by intro e he x q hq
          obtain ⟨kv, _, rfl⟩ := List.mem_map.mp he
          have := congrArg List.length hq
          simp at this)
      (by intro p hp; simp at hp)
    have hbody := body_write_of M (pre ++ [nm]) (indent + 1) fuel' es kids hsort hkids HE' HS' hFk
    have hFr := ihr pre indent (fuel' + 1)
      (Ef ++ es.map (fun kv => (pre ++ [nm], kv.1, kv.2)) ++ kids.ents (pre ++ [nm]))
      (Sf ++ [pre ++ [nm]] ++ kids.secs (pre ++ [nm])) hrest hfr
      (by rw [HE]; simp [Forest.ents])
      (by rw [HS]; simp [Forest.secs])
      (by intro e he x q hq
          simp only [List.mem_append, List.mem_map] at he
          rcases he with (he | ⟨kv, _, rfl⟩) | he
          · exact fun hx => hEf e he x q hq (by simp [Forest.names, hx])
          · have : x = nm := by
              have := List.append_cancel_left hq
              simp at this; exact this.1.symm
            rw [this]; exact hnr
          · obtain ⟨y, _, q', hq'⟩ := ents_shape kids _ e he
            have : x = nm := by
              rw [hq', List.append_assoc] at hq
              have := List.append_cancel_left hq
              simp at this; exact this.1.symm
            rw [this]; exact hnr)
      (by intro p hp x q hq
          simp only [List.mem_append, List.mem_singleton] at hp
          rcases hp with (hp | hp) | hp
          · exact fun hx => hSf p hp x q hq (by simp [Forest.names, hx])
          · have : x = nm := by
              rw [hp] at hq
              have := List.append_cancel_left hq
              simp at this; exact this.1.symm
            rw [this]; exact hnr
          · obtain ⟨y, _, q', rfl⟩ := secs_shape kids _ p hp
            have : x = nm := by
              rw [List.append_assoc] at hq
              have := List.append_cancel_left hq
              simp at this; exact this.1.symm
            rw [this]; exact hnr)
    simp only [Forest.names, List.map_cons, List.flatten_cons, Forest.lines]
    rw [hbody, hFr]

/-! ## the nesting bound of `iniWrite` suffices -/

theorem le_foldl_max (l : List Nat) : ∀ a, a ≤ l.foldl max a := by
  induction l with
  | nil => intro a; exact Nat.le_refl a
  | cons b t ih => intro a; exact Nat.le_trans (Nat.le_max_left a b) (ih (max a b))

theorem mem_le_foldl_max (l : List Nat) : ∀ a, ∀ x ∈ l, x ≤ l.foldl max a := by
  induction l with
  | nil => intro a x hx; simp at hx
  | cons b t ih =>
    intro a x hx
    rcases List.mem_cons.mp hx with rfl | hx
    · exact Nat.le_trans (Nat.le_max_right a x) (le_foldl_max t (max a x))
    · exact ih (max a b) x hx

theorem height_witness (f : Forest) : ∀ pre : Path, f.height = 0 ∨ ∃ p ∈ f.secs pre, p.length = pre.length + f.height := by
  induction f with
  | nil => intro pre; exact Or.inl rfl
  | cons nm es kids rest ihk ihr =>
    intro pre
    right
    simp only [Forest.height, Forest.secs, List.mem_cons, List.mem_append]
    by_cases hc : rest.height ≤ kids.height + 1
    · rw [Nat.max_eq_left hc]
      rcases ihk (pre ++ [nm]) with h0 | ⟨p, hp, hl⟩
      · exact ⟨pre ++ [nm], Or.inl rfl, by simp [h0]⟩
      · exact ⟨p, Or.inr (Or.inl hp), by rw [hl]; simp; omega⟩
    · rw [Nat.max_eq_right (by omega)]
      rcases ihr pre with h0 | ⟨p, hp, hl⟩
      · omega
      · exact ⟨p, Or.inr (Or.inr hp), hl⟩

theorem height_le_depthBound (es : List (Str × Str)) (f : Forest) : f.height + 2 ≤ (treeMap es f).depthBound := by
  unfold PMap.depthBound treeMap
  simp only [Nat.add_le_add_iff_right]
  rcases height_witness f [] with h0 | ⟨p, hp, hl⟩
  · omega
  · have := mem_le_foldl_max ((f.secs []).map List.length) 0 p.length (List.mem_map.mpr ⟨p, hp, rfl⟩)
    simp only [List.length_nil, Nat.zero_add] at hl
    omega

theorem write_tree (es : List (Str × Str)) (f : Forest) (hes : SortedKeys es) (hok : f.Ok) :
    (treeMap es f).writeAt (treeMap es f).depthBound [] 0 = treeLines es f := by
  obtain ⟨fuel, hfuel⟩ : ∃ k, (treeMap es f).depthBound = k + 2 :=
    ⟨(treeMap es f).depthBound - 2, by have := height_le_depthBound es f; omega⟩
  have hh : f.height ≤ fuel + 1 := by have := height_le_depthBound es f; omega
  have HE : (treeMap es f).ents.filter (fun e => pfx [] e.1) =
      es.map (fun kv => (([] : Path), kv.1, kv.2)) ++ f.ents [] := by
    rw [List.filter_eq_self.mpr (fun a _ => by simp [pfx])]; rfl
  have HS : (treeMap es f).secs.filter (spfx []) = f.secs [] := by
    show (f.secs []).filter (spfx []) = f.secs []
    rw [List.filter_eq_self]; intro p hp
    obtain ⟨x, _, q, rfl⟩ := secs_shape f [] p hp
    simp [spfx, pfx]
  have hF := forest_write (treeMap es f) f [] 0 (fuel + 1) (es.map (fun kv => (([] : Path), kv.1, kv.2))) []
    hok hh HE (by simpa using HS)
    (by intro e he x q hq
        obtain ⟨kv, _, rfl⟩ := List.mem_map.mp he
        simp at hq)
    (by intro p hp; simp at hp)
  rw [hfuel]
  exact body_write_of (treeMap es f) [] 0 (fuel + 1) es f hes hok HE HS hF

theorem nl_secLine (indent : Nat) {nm : Str} (h : '\n' ∉ nm) : '\n' ∉ secLine indent nm := by
  unfold secLine
  simp only [List.mem_append, List.mem_replicate, List.mem_cons, not_or]
  exact ⟨⟨by simp, by decide, h⟩, by simp⟩

theorem nl_openLine (indent : Nat) : '\n' ∉ openLine indent := by
  unfold openLine
  simp only [List.mem_append, List.mem_replicate, not_or]
  exact ⟨by simp, by simp⟩

theorem nl_closeLine (indent : Nat) {nm : Str} (h : '\n' ∉ nm) : '\n' ∉ closeLine indent nm := by
  unfold closeLine
  simp only [endStr, List.mem_append, List.mem_replicate, not_or]
  exact ⟨⟨⟨by simp, by decide⟩, h⟩, by simp⟩

theorem nl_lines (f : Forest) : ∀ indent, f.Ok → ∀ x ∈ f.lines indent, '\n' ∉ x := by
  induction f with
  | nil => intro _ _ x hx; simp [Forest.lines] at hx
  | cons nm es kids rest ihk ihr =>
    intro indent hok x hx
    obtain ⟨hnm, hes, _, hkids, hrest, _⟩ := hok
    simp only [Forest.lines, List.mem_append, List.mem_cons, List.mem_map, List.not_mem_nil, or_false] at hx
    rcases hx with (((rfl | rfl) | ⟨kv, hkv, rfl⟩ | hx) | rfl) | hx
    · exact nl_secLine indent hnm.noNl
    · exact nl_openLine indent
    · exact nl_entLine _ (hes kv hkv)
    · exact ihk _ hkids x hx
    · exact nl_closeLine indent hnm.noNl
    · exact ihr _ hrest x hx

end FeatModel.C11.IniRT

namespace FeatModel.C11
open IniRT

/-- Stage A: the dump of a flat property map with admissible, strictly sorted entries is read back as the same map -/
theorem ini_roundtrip_flat (replace : Bool) (es : List (Str × Str))
    (hsorted : es.Pairwise (fun a b => noCaseLt a.1 b.1 = true))
    (hk : ∀ kv ∈ es, KeyOk kv.1) (hv : ∀ kv ∈ es, ValOk kv.2)
    (hbr : ∀ kv ∈ es, ¬ (kv.1.head? = some '[' ∧ kv.2.getLast? = some ']')) :
    iniRead replace (iniWrite { secs := [], ents := es.map (fun kv => ([], kv.1, kv.2)) }) =
      some { secs := [], ents := es.map (fun kv => ([], kv.1, kv.2)) } := by
  have hok : ∀ kv ∈ es, EntOk kv := fun kv h => ⟨hk kv h, hv kv h, hbr kv h⟩
  show iniRead replace (iniWrite (flatMap_ es)) = some (flatMap_ es)
  unfold iniWrite
  rw [write_flat es hsorted]
  obtain ⟨l', h, _, _⟩ := ents_steps replace 0 [[]] [] es [] [] .none hok hsorted
    (fun e he => absurd he (by simp)) (by decide)
  refine read_of_steps ?_ (by simpa [flatMap_, PMap.empty] using h)
  intro x hx
  obtain ⟨kv, hkv, rfl⟩ := List.mem_map.mp hx
  exact nl_entLine 0 (hok kv hkv)

/-- byte-for-byte: dumping the re-read map reproduces the text -/
theorem ini_roundtrip_flat_bytes (replace : Bool) (es : List (Str × Str))
    (hsorted : es.Pairwise (fun a b => noCaseLt a.1 b.1 = true))
    (hk : ∀ kv ∈ es, KeyOk kv.1) (hv : ∀ kv ∈ es, ValOk kv.2)
    (hbr : ∀ kv ∈ es, ¬ (kv.1.head? = some '[' ∧ kv.2.getLast? = some ']')) :
    (iniRead replace (iniWrite { secs := [], ents := es.map (fun kv => ([], kv.1, kv.2)) })).map iniWrite =
      some (iniWrite { secs := [], ents := es.map (fun kv => ([], kv.1, kv.2)) }) := by
  rw [ini_roundtrip_flat replace es hsorted hk hv hbr]; rfl

/-- Stage A with adjacent-sortedness (`ChainKeys`) instead of pairwise sortedness -/
theorem ini_roundtrip_flat_chain (replace : Bool) (es : List (Str × Str)) (hchain : ChainKeys es)
    (hk : ∀ kv ∈ es, KeyOk kv.1) (hv : ∀ kv ∈ es, ValOk kv.2)
    (hbr : ∀ kv ∈ es, ¬ (kv.1.head? = some '[' ∧ kv.2.getLast? = some ']')) :
    iniRead replace (iniWrite { secs := [], ents := es.map (fun kv => ([], kv.1, kv.2)) }) =
      some { secs := [], ents := es.map (fun kv => ([], kv.1, kv.2)) } :=
  ini_roundtrip_flat replace es (sortedKeys_of_chain es hchain) hk hv hbr

/-- the flat maps of Stage A are the canonical maps without sections -/
theorem treeMap_nil (es : List (Str × Str)) :
    treeMap es .nil = { secs := [], ents := es.map (fun kv => ([], kv.1, kv.2)) } := by
  simp [treeMap, Forest.secs, Forest.ents]

/-- Stage B: the dump of a canonical nested property map (root entries `es`, sections `f`, arbitrary nesting depth)
    is read back as the same map -/
theorem ini_roundtrip_tree (replace : Bool) (es : List (Str × Str)) (f : Forest)
    (hes : ∀ kv ∈ es, EntOk kv) (hsorted : SortedKeys es) (hf : f.Ok) :
    iniRead replace (iniWrite (treeMap es f)) = some (treeMap es f) := by
  unfold iniWrite
  rw [write_tree es f hsorted hf]
  obtain ⟨l1, s1, _, _⟩ := ents_steps replace 0 [[]] [] es [] [] .none hes hsorted
    (fun e he => absurd he (by simp)) (by decide)
  obtain ⟨l2, s2, _⟩ := forest_steps replace f [] 0 [] (es.map (fun kv => (([] : Path), kv.1, kv.2))) [] l1 hf
    ⟨fun p hp => absurd hp (by simp), fun e he x q hq => by
      obtain ⟨kv, _, rfl⟩ := List.mem_map.mp he
      simp at hq⟩
  have s := Steps.append s1 s2
  refine read_of_steps (lines := treeLines es f) ?_ (by simpa [treeMap, treeLines, PMap.empty] using s)
  intro x hx
  rcases List.mem_append.mp hx with hx | hx
  · obtain ⟨kv, hkv, rfl⟩ := List.mem_map.mp hx
    exact nl_entLine 0 (hes kv hkv)
  · exact nl_lines f 0 hf x hx

/-- byte-for-byte: dumping the re-read map reproduces the text -/
theorem ini_roundtrip_tree_bytes (replace : Bool) (es : List (Str × Str)) (f : Forest)
    (hes : ∀ kv ∈ es, EntOk kv) (hsorted : SortedKeys es) (hf : f.Ok) :
    (iniRead replace (iniWrite (treeMap es f))).map iniWrite = some (iniWrite (treeMap es f)) := by
  rw [ini_roundtrip_tree replace es f hes hsorted hf]; rfl

/-- the dump itself, line by line -/
theorem iniWrite_tree (es : List (Str × Str)) (f : Forest) (hsorted : SortedKeys es) (hf : f.Ok) :
    iniWrite (treeMap es f) = (treeLines es f).flatMap (fun l => l ++ ['\n']) := by
  unfold iniWrite; rw [write_tree es f hsorted hf]

/-! ## the side conditions are not superfluous (each dropped condition breaks the round trip) -/

section Necessity
private def rt (es : List (String × String)) : Bool :=
  let m := flatMap_ (es.map (fun kv => (kv.1.toList, kv.2.toList)))
  iniRead false (iniWrite m) == some m
private def rtSec (nm : String) : Bool :=
  let m := treeMap [] (.cons nm.toList [] .nil .nil)
  iniRead false (iniWrite m) == some m

example : rt [("[x", "y"), ("a b", "c = d"), ("z", "w]")] = true := by decide   -- admissible
example : rt [("[a", "b]")] = false := by decide     -- `EntOk.noSec`: line looks like a section marker
example : rt [("a", "b&")] = false := by decide      -- `ValOk.noAmp`: continuation mark
example : rt [("a", "b#c")] = false := by decide     -- `ValOk.noHash`
example : rt [("a", "b\nc")] = false := by decide    -- `ValOk.noNl`
example : rt [("a", " b")] = false := by decide      -- `ValOk.trimmed`
example : rt [("", "b")] = false := by decide        -- `KeyOk.ne`
example : rt [("a ", "b")] = false := by decide      -- `KeyOk.trimmed`
example : rt [("a=b", "c")] = false := by decide     -- `KeyOk.noEq`
example : rt [("a#b", "c")] = false := by decide     -- `KeyOk.noHash`
example : rt [("a\nb", "c")] = false := by decide    -- `KeyOk.noNl`
example : rt [("b", "1"), ("a", "2")] = false := by decide   -- not sorted: written (and re-read) in sorted order
example : rt [("a", "1"), ("A", "2")] = false := by decide   -- keys equal up to case
example : rtSec "s t" = true := by decide            -- admissible
example : rtSec "" = false := by decide              -- `SecOk.ne`
example : rtSec " s" = false := by decide            -- `SecOk.trimmed`
example : rtSec "s#t" = false := by decide           -- `SecOk.noHash`
example : rtSec "s\nt" = false := by decide          -- `SecOk.noNl`
end Necessity

end FeatModel.C11
