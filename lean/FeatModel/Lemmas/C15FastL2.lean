import FeatModel.Model.FEDual
/-! kernel-checked: the samples of the real 3-D Lagrange-2 evaluator are products of 1-D evaluations -/
namespace FeatModel.FE
open FeatModel.Poly FeatModel.Gen
set_option maxRecDepth 100000 in
theorem fast_l2 : fastSamplesOk BasisH1.l2 3 true true BasisH3.l2_idx BasisH3.l2_samples = true := by decide +kernel
end FeatModel.FE
