import FeatModel.Lemmas.C08IluFactorAux
import FeatModel.Lemmas.C08IluFactor
import FeatModel.Lemmas.C08IluNumEq
import FeatModel.Lemmas.C08Blocked
import Mathlib.Algebra.Field.Defs
/-! C08 (partial-inverse port): auxiliary lemmas for the numeric ILU factorisation `factorizeNumericS` over a
`Ring` (partial-inverse port of `C08IluNCAux`: the algebra of the block ILU, where `1 / x` is only a partial inverse;
nothing in this file uses division).  The shape facts (`IluSym.WFP`, `findPos_*`,
`IluNum.Sz`, …) are algebra-free and imported from `C08IluFactorAux`; everything that was stated for a `Field` there is
re-proved here with the multiplications in the order of the model. -/
open Finset
namespace FeatModel.Solver.PI
open FeatModel.LA FeatModel.Solver

variable {α : Type}

/-! ### dense entries of sorted rows -/
section entry
variable [Ring α]

theorem entry_eq_zero_of_forall (A : Csr α) (i c : Nat)
    (h : ∀ k, A.rowBegin i ≤ k → k < A.rowEnd i → A.colInd.getD k A.cols ≠ c) : A.entry i c = 0 := by
  rw [Blk.entry_eq_sum_Ico']
  apply Finset.sum_eq_zero
  intro k hk
  rw [Finset.mem_Ico] at hk
  exact if_neg (h k hk.1 hk.2)

theorem entry_eq_val (A : Csr α) (i p : Nat) (hp1 : A.rowBegin i ≤ p) (hp2 : p < A.rowEnd i)
    (h : ∀ k, A.rowBegin i ≤ k → k < A.rowEnd i → k ≠ p → A.colInd.getD k A.cols ≠ A.colInd.getD p A.cols) :
    A.entry i (A.colInd.getD p A.cols) = A.val.getD p 0 := by
  rw [Blk.entry_eq_sum_Ico', Finset.sum_eq_single p]
  · rw [if_pos rfl]
  · intro k hk hkp
    rw [Finset.mem_Ico] at hk
    exact if_neg (h k hk.1 hk.2 hkp)
  · intro hn
    exact absurd (Finset.mem_Ico.mpr ⟨hp1, hp2⟩) hn

variable {s : IluSym} (w : s.WFP)
include w

theorem ciL_getD {i : Nat} (hi : i < s.n) {k : Nat} (hk : k < s.rpL.getD (i + 1) 0) :
    s.ciL.getD k s.n = s.ciL.getD k 0 :=
  Csr.getD_eq_of_lt _ (Nat.lt_of_lt_of_le hk (w.endL_le hi)) _ _

theorem ciU_getD {i : Nat} (hi : i < s.n) {k : Nat} (hk : k < s.rpU.getD (i + 1) 0) :
    s.ciU.getD k s.n = s.ciU.getD k 0 :=
  Csr.getD_eq_of_lt _ (Nat.lt_of_lt_of_le hk (w.endU_le hi)) _ _

theorem matL_entry_at (d : IluNum α) {i : Nat} (hi : i < s.n) {p : Nat} (hp1 : s.rpL.getD i 0 ≤ p)
    (hp2 : p < s.rpL.getD (i + 1) 0) : (s.matL d).entry i (s.ciL.getD p 0) = d.dataL.getD p 0 := by
  have := entry_eq_val (s.matL d) i p hp1 hp2 (by
    intro k hk1 hk2 hkp
    show s.ciL.getD k s.n ≠ s.ciL.getD p s.n
    rw [ciL_getD w hi hk2, ciL_getD w hi hp2]
    exact fun h => hkp (w.injL hi hk1 hk2 hp1 hp2 h))
  rw [show (s.matL d).colInd.getD p (s.matL d).cols = s.ciL.getD p 0 from ciL_getD w hi hp2] at this
  exact this

theorem matU_entry_at (d : IluNum α) {i : Nat} (hi : i < s.n) {p : Nat} (hp1 : s.rpU.getD i 0 ≤ p)
    (hp2 : p < s.rpU.getD (i + 1) 0) : (s.matU d).entry i (s.ciU.getD p 0) = d.dataU.getD p 0 := by
  have := entry_eq_val (s.matU d) i p hp1 hp2 (by
    intro k hk1 hk2 hkp
    show s.ciU.getD k s.n ≠ s.ciU.getD p s.n
    rw [ciU_getD w hi hk2, ciU_getD w hi hp2]
    exact fun h => hkp (w.injU hi hk1 hk2 hp1 hp2 h))
  rw [show (s.matU d).colInd.getD p (s.matU d).cols = s.ciU.getD p 0 from ciU_getD w hi hp2] at this
  exact this

/-- `L` is strictly lower triangular -/
theorem matL_entry_zero (d : IluNum α) {i : Nat} (hi : i < s.n) {c : Nat} (hc : i ≤ c) :
    (s.matL d).entry i c = 0 := by
  apply entry_eq_zero_of_forall
  intro k hk1 hk2
  show s.ciL.getD k s.n ≠ c
  rw [ciL_getD w hi hk2]
  have := w.lowL i hi k hk1 hk2
  omega

/-- `U` is strictly upper triangular -/
theorem matU_entry_zero (d : IluNum α) {i : Nat} (hi : i < s.n) {c : Nat} (hc : c ≤ i) :
    (s.matU d).entry i c = 0 := by
  apply entry_eq_zero_of_forall
  intro k hk1 hk2
  show s.ciU.getD k s.n ≠ c
  rw [ciU_getD w hi hk2]
  have := w.uppU i hi k hk1 hk2
  omega

omit w in
theorem matL_entry_congr (d d' : IluNum α) (i c : Nat)
    (h : ∀ p, s.rpL.getD i 0 ≤ p → p < s.rpL.getD (i + 1) 0 → d'.dataL.getD p 0 = d.dataL.getD p 0) :
    (s.matL d').entry i c = (s.matL d).entry i c := by
  rw [Blk.entry_eq_sum_Ico', Blk.entry_eq_sum_Ico']
  apply Finset.sum_congr rfl
  intro k hk
  rw [Finset.mem_Ico] at hk
  show (if s.ciL.getD k s.n = c then d'.dataL.getD k 0 else 0) = (if s.ciL.getD k s.n = c then d.dataL.getD k 0 else 0)
  rw [h k hk.1 hk.2]

omit w in
theorem matU_entry_congr (d d' : IluNum α) (i c : Nat)
    (h : ∀ p, s.rpU.getD i 0 ≤ p → p < s.rpU.getD (i + 1) 0 → d'.dataU.getD p 0 = d.dataU.getD p 0) :
    (s.matU d').entry i c = (s.matU d).entry i c := by
  rw [Blk.entry_eq_sum_Ico', Blk.entry_eq_sum_Ico']
  apply Finset.sum_congr rfl
  intro k hk
  rw [Finset.mem_Ico] at hk
  show (if s.ciU.getD k s.n = c then d'.dataU.getD k 0 else 0) = (if s.ciU.getD k s.n = c then d.dataU.getD k 0 else 0)
  rw [h k hk.1 hk.2]

/-- `l * U_{r,c}` (the multiplier on the LEFT) as a sum over the storage positions of row `r` -/
theorem mul_matU_entry (d : IluNum α) {r : Nat} (hr : r < s.n) (l : α) (c : Nat) :
    ∑ k ∈ Ico (s.rpU.getD r 0) (s.rpU.getD (r + 1) 0), (if s.ciU.getD k 0 = c then l * d.dataU.getD k 0 else 0)
      = l * (s.matU d).entry r c := by
  rw [Blk.entry_eq_sum_Ico', Finset.mul_sum]
  apply Finset.sum_congr rfl
  intro k hk
  rw [Finset.mem_Ico] at hk
  show _ = l * (if s.ciU.getD k s.n = c then d.dataU.getD k 0 else 0)
  rw [ciU_getD w hr hk.2, mul_ite, mul_zero]

end entry

/-! ### effect of `elimEntry` / `elimL` on the stored data -/

variable [Ring α]

theorem elimEntry_spec {s : IluSym} (w : s.WFP) {i : Nat} (hi : i < s.n) (l : α) (d : IluNum α) (hd : d.Sz s)
    (k : Nat) :
    (elimEntry s i l d k).Sz s ∧
    (∀ p, (elimEntry s i l d k).dataL.getD p 0 = d.dataL.getD p 0 -
        (if s.inL i p ∧ s.ciU.getD k 0 = s.ciL.getD p 0 then l * d.dataU.getD k 0 else 0)) ∧
    (∀ p, (elimEntry s i l d k).dataU.getD p 0 = d.dataU.getD p 0 -
        (if s.inU i p ∧ s.ciU.getD k 0 = s.ciU.getD p 0 then l * d.dataU.getD k 0 else 0)) ∧
    (∀ r, (elimEntry s i l d k).dataD.getD r 0 = d.dataD.getD r 0 -
        (if r = i ∧ s.ciU.getD k 0 = i then l * d.dataU.getD k 0 else 0)) := by
  unfold elimEntry
  simp only []
  generalize s.ciU.getD k 0 = ck
  generalize l * d.dataU.getD k 0 = t
  obtain ⟨hsl, hsu, hsd⟩ := hd
  by_cases h1 : ck < i
  · rw [if_pos h1]
    have hU : ∀ p, d.dataU.getD p 0 = d.dataU.getD p 0 -
        (if s.inU i p ∧ ck = s.ciU.getD p 0 then t else 0) := by
      intro p
      rw [if_neg, sub_zero]
      rintro ⟨⟨hq1, hq2⟩, hq3⟩
      have := w.uppU i hi p hq1 hq2; omega
    have hD : ∀ r, d.dataD.getD r 0 = d.dataD.getD r 0 - (if r = i ∧ ck = i then t else 0) := by
      intro r
      rw [if_neg, sub_zero]
      omega
    split
    · rename_i pl hf
      obtain ⟨hp1, hp2, hp3⟩ := findPos_some _ _ _ _ _ hf
      refine ⟨⟨by simpa using hsl, hsu, hsd⟩, ?_, hU, hD⟩
      intro p
      show (d.dataL.setIfInBounds pl _).getD p 0 = _
      rw [getD_setIfInBounds]
      by_cases hpp : pl = p
      · subst hpp
        have : pl < d.dataL.size := by have := w.endL_le hi; omega
        rw [if_pos ⟨rfl, this⟩, if_pos ⟨⟨hp1, hp2⟩, hp3.symm⟩]
      · rw [if_neg (fun h => hpp h.1), if_neg, sub_zero]
        rintro ⟨⟨hq1, hq2⟩, hq3⟩
        exact hpp (w.injL hi hp1 hp2 hq1 hq2 (hp3.trans hq3))
    · rename_i hf
      refine ⟨⟨hsl, hsu, hsd⟩, ?_, hU, hD⟩
      intro p
      rw [if_neg, sub_zero]
      rintro ⟨⟨hq1, hq2⟩, hq3⟩
      exact findPos_none _ _ _ _ hf p hq1 hq2 hq3.symm
  · rw [if_neg h1]
    have hL : ∀ p, d.dataL.getD p 0 = d.dataL.getD p 0 -
        (if s.inL i p ∧ ck = s.ciL.getD p 0 then t else 0) := by
      intro p
      rw [if_neg, sub_zero]
      rintro ⟨⟨hq1, hq2⟩, hq3⟩
      have := w.lowL i hi p hq1 hq2; omega
    by_cases h2 : ck = i
    · rw [if_pos h2]
      refine ⟨⟨hsl, hsu, by simpa using hsd⟩, hL, ?_, ?_⟩
      · intro p
        rw [if_neg, sub_zero]
        rintro ⟨⟨hq1, hq2⟩, hq3⟩
        have := w.uppU i hi p hq1 hq2; omega
      · intro r
        show (d.dataD.setIfInBounds i _).getD r 0 = _
        rw [getD_setIfInBounds]
        by_cases hr : i = r
        · subst hr
          rw [if_pos ⟨rfl, by omega⟩, if_pos ⟨rfl, h2⟩]
        · rw [if_neg (fun h => hr h.1), if_neg (fun h => hr h.1.symm), sub_zero]
    · rw [if_neg h2]
      have hD : ∀ r, d.dataD.getD r 0 = d.dataD.getD r 0 - (if r = i ∧ ck = i then t else 0) := by
        intro r
        rw [if_neg (fun h => h2 h.2), sub_zero]
      split
      · rename_i pu hf
        obtain ⟨hp1, hp2, hp3⟩ := findPos_some _ _ _ _ _ hf
        refine ⟨⟨hsl, by simpa using hsu, hsd⟩, hL, ?_, hD⟩
        intro p
        show (d.dataU.setIfInBounds pu _).getD p 0 = _
        rw [getD_setIfInBounds]
        by_cases hpp : pu = p
        · subst hpp
          have : pu < d.dataU.size := by have := w.endU_le hi; omega
          rw [if_pos ⟨rfl, this⟩, if_pos ⟨⟨hp1, hp2⟩, hp3.symm⟩]
        · rw [if_neg (fun h => hpp h.1), if_neg, sub_zero]
          rintro ⟨⟨hq1, hq2⟩, hq3⟩
          exact hpp (w.injU hi hp1 hp2 hq1 hq2 (hp3.trans hq3))
      · rename_i hf
        refine ⟨⟨hsl, hsu, hsd⟩, hL, ?_, hD⟩
        intro p
        rw [if_neg, sub_zero]
        rintro ⟨⟨hq1, hq2⟩, hq3⟩
        exact findPos_none _ _ _ _ hf p hq1 hq2 hq3.symm

theorem sum_ite_and (A : Prop) [Decidable A] (f : Nat → Prop) [DecidablePred f] (x : Nat → α) (S : Finset Nat) :
    ∑ k ∈ S, (if A ∧ f k then x k else 0) = if A then ∑ k ∈ S, (if f k then x k else 0) else 0 := by
  by_cases h : A <;> simp [h]

/-- the loop over the stored entries `k ∈ [b, e)` of a row of `U` other than row `i` -/
theorem elimEntry_fold {s : IluSym} (w : s.WFP) {i : Nat} (hi : i < s.n) (l : α) (d : IluNum α) (hd : d.Sz s)
    (b e : Nat) (hbe : b ≤ e) (hdis : ∀ k, b ≤ k → k < e → ¬ s.inU i k) :
    (foldRange b e (elimEntry s i l) d).Sz s ∧
    (∀ p, (foldRange b e (elimEntry s i l) d).dataL.getD p 0 = d.dataL.getD p 0 -
        ∑ k ∈ Ico b e, (if s.inL i p ∧ s.ciU.getD k 0 = s.ciL.getD p 0 then l * d.dataU.getD k 0 else 0)) ∧
    (∀ p, (foldRange b e (elimEntry s i l) d).dataU.getD p 0 = d.dataU.getD p 0 -
        ∑ k ∈ Ico b e, (if s.inU i p ∧ s.ciU.getD k 0 = s.ciU.getD p 0 then l * d.dataU.getD k 0 else 0)) ∧
    (∀ r, (foldRange b e (elimEntry s i l) d).dataD.getD r 0 = d.dataD.getD r 0 -
        ∑ k ∈ Ico b e, (if r = i ∧ s.ciU.getD k 0 = i then l * d.dataU.getD k 0 else 0)) := by
  apply foldRange_induct (fun m (y : IluNum α) => y.Sz s ∧
    (∀ p, y.dataL.getD p 0 = d.dataL.getD p 0 -
        ∑ k ∈ Ico b m, (if s.inL i p ∧ s.ciU.getD k 0 = s.ciL.getD p 0 then l * d.dataU.getD k 0 else 0)) ∧
    (∀ p, y.dataU.getD p 0 = d.dataU.getD p 0 -
        ∑ k ∈ Ico b m, (if s.inU i p ∧ s.ciU.getD k 0 = s.ciU.getD p 0 then l * d.dataU.getD k 0 else 0)) ∧
    (∀ r, y.dataD.getD r 0 = d.dataD.getD r 0 -
        ∑ k ∈ Ico b m, (if r = i ∧ s.ciU.getD k 0 = i then l * d.dataU.getD k 0 else 0))) _ b e d hbe
  · refine ⟨hd, ?_, ?_, ?_⟩ <;> intro p <;> simp
  · intro m y hbm hme ⟨hy, hyL, hyU, hyD⟩
    obtain ⟨hs, hsL, hsU, hsD⟩ := elimEntry_spec w hi l y hy m
    have hUm : y.dataU.getD m 0 = d.dataU.getD m 0 := by
      rw [hyU m, Finset.sum_eq_zero, sub_zero]
      intro k _
      exact if_neg (fun h => hdis m hbm hme h.1)
    refine ⟨hs, ?_, ?_, ?_⟩
    · intro p
      rw [hsL p, hyL p, Finset.sum_Ico_succ_top hbm, hUm, sub_sub]
    · intro p
      rw [hsU p, hyU p, Finset.sum_Ico_succ_top hbm, hUm, sub_sub]
    · intro r
      rw [hsD r, hyD r, Finset.sum_Ico_succ_top hbm, hUm, sub_sub]

/-- one `L` entry of row `i` (storage position `j`, column `cj`): scaled by the inverted pivot `dataD[cj]`, then
    `l` times row `cj` of `U` is subtracted from row `i` on the pattern; expressed with the dense meaning of `U` -/
theorem elimL_spec {s : IluSym} (w : s.WFP) {i : Nat} (hi : i < s.n) (d : IluNum α) (hd : d.Sz s) {j : Nat}
    (hj1 : s.rpL.getD i 0 ≤ j) (hj2 : j < s.rpL.getD (i + 1) 0) (cj : Nat) (hcj : cj = s.ciL.getD j 0)
    (l : α) (hl : l = d.dataL.getD j 0 * d.dataD.getD cj 0) :
    (elimL s i d j).Sz s ∧
    (∀ p, (elimL s i d j).dataL.getD p 0 = if p = j then l else
        d.dataL.getD p 0 - (if s.inL i p then l * (s.matU d).entry cj (s.ciL.getD p 0) else 0)) ∧
    (∀ p, (elimL s i d j).dataU.getD p 0 =
        d.dataU.getD p 0 - (if s.inU i p then l * (s.matU d).entry cj (s.ciU.getD p 0) else 0)) ∧
    (∀ r, (elimL s i d j).dataD.getD r 0 =
        d.dataD.getD r 0 - (if r = i then l * (s.matU d).entry cj i else 0)) := by
  have hcji : cj < i := by rw [hcj]; exact w.lowL i hi j hj1 hj2
  have hcjn : cj < s.n := by omega
  have hjs : j < d.dataL.size := by have := w.endL_le hi; have := hd.1; omega
  have hd1 : ({ d with dataL := d.dataL.setIfInBounds j l } : IluNum α).Sz s :=
    ⟨by show (d.dataL.setIfInBounds j l).size = _; rw [Array.size_setIfInBounds]; exact hd.1, hd.2.1, hd.2.2⟩
  have hdis : ∀ k, s.rpU.getD cj 0 ≤ k → k < s.rpU.getD (cj + 1) 0 → ¬ s.inU i k := by
    intro k _ hk2 h
    have := w.rpU_le (i := cj + 1) (j := i) (by omega) (by omega)
    have := h.1
    omega
  obtain ⟨h1, h2, h3, h4⟩ := elimEntry_fold w hi l _ hd1 (s.rpU.getD cj 0) (s.rpU.getD (cj + 1) 0)
    (w.monoU cj hcjn) hdis
  have he : elimL s i d j = foldRange (s.rpU.getD cj 0) (s.rpU.getD (cj + 1) 0) (elimEntry s i l)
      { d with dataL := d.dataL.setIfInBounds j l } := by
    unfold elimL
    simp only []
    rw [← hcj, ← hl]
  rw [he]
  refine ⟨h1, ?_, ?_, ?_⟩
  · intro p
    rw [h2 p, sum_ite_and, mul_matU_entry w _ hcjn]
    show (d.dataL.setIfInBounds j l).getD p 0 - (if s.inL i p then l * (s.matU d).entry cj (s.ciL.getD p 0) else 0) = _
    rw [getD_setIfInBounds]
    by_cases hpj : p = j
    · subst hpj
      rw [if_pos ⟨rfl, hjs⟩, if_pos rfl, ← hcj, matU_entry_zero w d hcjn (Nat.le_refl _)]
      simp
    · rw [if_neg (fun h => hpj h.1.symm), if_neg hpj]
  · intro p
    rw [h3 p, sum_ite_and, mul_matU_entry w _ hcjn]
    rfl
  · intro r
    rw [h4 r, sum_ite_and, mul_matU_entry w _ hcjn]
    rfl

/-! ### the row invariant -/

/-- `∑_q l_{i,c_q} u_{c_q,c}` over the `L` positions `q ∈ [rpL i, m)` of row `i` (values from `y`, rows of `U` from `d`) -/
def rowS (s : IluSym) (i : Nat) (d y : IluNum α) (m c : Nat) : α :=
  ∑ q ∈ Ico (s.rpL.getD i 0) m, y.dataL.getD q 0 * (s.matU d).entry (s.ciL.getD q 0) c

/-- state `y` of row `i` after its `L` positions `< m` have been processed, `d` = state before row `i` -/
structure RowInv (s : IluSym) (i : Nat) (d : IluNum α) (m : Nat) (y : IluNum α) : Prop where
  sz : y.Sz s
  frL : ∀ p, ¬ s.inL i p → y.dataL.getD p 0 = d.dataL.getD p 0
  frU : ∀ p, ¬ s.inU i p → y.dataU.getD p 0 = d.dataU.getD p 0
  frD : ∀ r, r ≠ i → y.dataD.getD r 0 = d.dataD.getD r 0
  valL : ∀ p, s.inL i p → y.dataL.getD p 0 =
    if p < m then (d.dataL.getD p 0 - rowS s i d y m (s.ciL.getD p 0)) * d.dataD.getD (s.ciL.getD p 0) 0
    else d.dataL.getD p 0 - rowS s i d y m (s.ciL.getD p 0)
  valD : y.dataD.getD i 0 = d.dataD.getD i 0 - rowS s i d y m i
  valU : ∀ p, s.inU i p → y.dataU.getD p 0 = d.dataU.getD p 0 - rowS s i d y m (s.ciU.getD p 0)

theorem RowInv.base {s : IluSym} (i : Nat) (d : IluNum α) (hd : d.Sz s) : RowInv s i d (s.rpL.getD i 0) d := by
  have hS : ∀ c, rowS s i d d (s.rpL.getD i 0) c = 0 := fun c => by simp [rowS]
  refine ⟨hd, fun _ _ => rfl, fun _ _ => rfl, fun _ _ => rfl, ?_, ?_, ?_⟩
  · intro p hp
    rw [if_neg (by have := hp.1; omega), hS, sub_zero]
  · rw [hS, sub_zero]
  · intro p _
    rw [hS, sub_zero]

theorem RowInv.step {s : IluSym} (w : s.WFP) {i : Nat} (hi : i < s.n) {d y : IluNum α} {m : Nat}
    (h : RowInv s i d m y) (hm1 : s.rpL.getD i 0 ≤ m) (hm2 : m < s.rpL.getD (i + 1) 0) :
    RowInv s i d (m + 1) (elimL s i y m) := by
  obtain ⟨cj, hcj⟩ : ∃ cj, cj = s.ciL.getD m 0 := ⟨_, rfl⟩
  obtain ⟨l, hl⟩ : ∃ l, l = y.dataL.getD m 0 * y.dataD.getD cj 0 := ⟨_, rfl⟩
  obtain ⟨hs, hL, hU, hD⟩ := elimL_spec w hi y h.sz hm1 hm2 cj hcj l hl
  have hcji : cj < i := by rw [hcj]; exact w.lowL i hi m hm1 hm2
  have hcjn : cj < s.n := by omega
  have hue : ∀ c, (s.matU y).entry cj c = (s.matU d).entry cj c := by
    intro c
    apply matU_entry_congr
    intro p _ hp2
    apply h.frU
    intro hin
    have := w.rpU_le (i := cj + 1) (j := i) (by omega) (by omega)
    have := hin.1
    omega
  have hDcj : y.dataD.getD cj 0 = d.dataD.getD cj 0 := h.frD cj (by omega)
  have hu0 : ∀ c, c ≤ cj → (s.matU d).entry cj c = 0 := fun c hc => matU_entry_zero w d hcjn hc
  -- the finished positions stay
  have hLlt : ∀ q, s.rpL.getD i 0 ≤ q → q < m → (elimL s i y m).dataL.getD q 0 = y.dataL.getD q 0 := by
    intro q hq1 hq2
    have hlt := w.monoInL hi hq1 hq2 hm2
    rw [hL q, if_neg (by omega), hue, hu0 _ (by omega), mul_zero, ite_self, sub_zero]
  have hLm : (elimL s i y m).dataL.getD m 0 = l := by rw [hL m, if_pos rfl]
  have hS : ∀ c, rowS s i d (elimL s i y m) (m + 1) c = rowS s i d y m c + l * (s.matU d).entry cj c := by
    intro c
    unfold rowS
    rw [Finset.sum_Ico_succ_top hm1, hLm, ← hcj]
    congr 1
    apply Finset.sum_congr rfl
    intro q hq
    rw [Finset.mem_Ico] at hq
    rw [hLlt q hq.1 hq.2]
  refine ⟨hs, ?_, ?_, ?_, ?_, ?_, ?_⟩
  · intro p hp
    have hpm : p ≠ m := fun e => hp (e ▸ ⟨hm1, hm2⟩)
    rw [hL p, if_neg hpm, if_neg hp, sub_zero]
    exact h.frL p hp
  · intro p hp
    rw [hU p, if_neg hp, sub_zero]
    exact h.frU p hp
  · intro r hr
    rw [hD r, if_neg hr, sub_zero]
    exact h.frD r hr
  · intro p hp
    rw [hS]
    rcases Nat.lt_trichotomy p m with hlt | heq | hgt
    · have hc := w.monoInL hi hp.1 hlt hm2
      rw [hLlt p hp.1 hlt, h.valL p hp, if_pos hlt, if_pos (by omega), hu0 _ (by omega), mul_zero, add_zero]
    · subst heq
      have hv := h.valL p hp
      rw [if_neg (Nat.lt_irrefl _)] at hv
      rw [hLm, if_pos (by omega), ← hcj, hu0 _ (Nat.le_refl _), mul_zero, add_zero, hl, hv, hDcj, ← hcj]
    · have hv := h.valL p hp
      rw [if_neg (by omega)] at hv
      rw [hL p, if_neg (by omega), if_pos hp, if_neg (by omega), hue, hv, sub_sub]
  · rw [hD i, if_pos rfl, hue, h.valD, hS, sub_sub]
  · intro p hp
    rw [hU p, if_pos hp, hue, h.valU p hp, hS, sub_sub]

/-- all `L` positions of row `i` processed -/
theorem RowInv.fold {s : IluSym} (w : s.WFP) {i : Nat} (hi : i < s.n) (d : IluNum α) (hd : d.Sz s) :
    RowInv s i d (s.rpL.getD (i + 1) 0) (foldRange (s.rpL.getD i 0) (s.rpL.getD (i + 1) 0) (elimL s i) d) := by
  apply foldRange_induct (fun m y => RowInv s i d m y) _ _ _ d (w.monoL i hi) (RowInv.base i d hd)
  intro m y hm1 hm2 h
  exact h.step w hi hm1 hm2


end FeatModel.Solver.PI
