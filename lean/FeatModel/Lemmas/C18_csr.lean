/-
C18 helper lemmas, part 6: `SparseMatrixCSR::apply` (hence `LAFEM::Transfer::prol/rest/trunc`) is the product with
the dense meaning of the stored matrix.
-/
import FeatModel.Lemmas.C18_basic
open FeatModel.GT Finset

namespace C18L

theorem row_dot (cols : Nat) (row : List (Nat × Rat)) (x : List Rat) (hc : ∀ e ∈ row, e.1 < cols) :
    (row.map fun (e : Nat × Rat) => e.2 * x.getD e.1 0).sum
      = ∑ j ∈ range cols, (row.filterMap fun (e : Nat × Rat) => if e.1 = j then some e.2 else none).sum * x.getD j 0 := by
  induction row with
  | nil => simp
  | cons e row ih =>
    rw [List.map_cons, List.sum_cons, ih (fun e' he' => hc e' (by simp [he']))]
    have he : e.1 < cols := hc e (by simp)
    have : ∀ j ∈ range cols,
        ((e :: row).filterMap fun (e : Nat × Rat) => if e.1 = j then some e.2 else none).sum * x.getD j 0
        = (if e.1 = j then e.2 else 0) * x.getD j 0
          + (row.filterMap fun (e : Nat × Rat) => if e.1 = j then some e.2 else none).sum * x.getD j 0 := by
      intro j _
      rw [List.filterMap_cons]
      split_ifs with h <;> simp [h] <;> ring
    rw [Finset.sum_congr rfl this, Finset.sum_add_distrib]
    congr 1
    rw [Finset.sum_eq_single e.1]
    · simp
    · intro j _ hj; rw [if_neg (Ne.symm hj)]; ring
    · intro hn; exact absurd (Finset.mem_range.2 he) hn

/-- `(A x)_i = Σ_j ⟦A⟧_ij x_j` for every row whose column indices are in range (duplicates add) -/
theorem csr_apply_dense (m : Csr) (x : List Rat) {i : Nat} (hi : i < m.rows) (hc : ∀ e ∈ m.row i, e.1 < m.cols) :
    (m.apply x).getD i 0 = ∑ j ∈ range m.cols, m.dense i j * x.getD j 0 := by
  unfold Csr.apply
  rw [getD_vtab _ hi, lsum_eq]
  have := row_dot m.cols (m.row i) x hc
  rw [show (List.map (fun (x_1 : Nat × Rat) => match x_1 with | (c, v) => v * x.getD c 0) (m.row i))
      = (m.row i).map fun (e : Nat × Rat) => e.2 * x.getD e.1 0 from rfl, this]
  apply Finset.sum_congr rfl
  intro j _
  unfold Csr.dense
  rw [lsum_eq]

end C18L
