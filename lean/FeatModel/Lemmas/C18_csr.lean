/-
C18 helper lemmas, part 6: the CSR level.  `rest = prol.transpose()` is C02's loop-faithful counting-sort model, the
products of `LAFEM::Transfer` are C01's `SparseMatrixCSR::apply` model; both are imported read-only and combined here.
-/
import FeatModel.Lemmas.C18_basic
import FeatModel.Lemmas.C02Transpose
import FeatModel.Props.C01
open FeatModel.GT FeatModel.LA Finset

namespace C18L

/-- `apply(r, x)` of a matrix with a valid layout (possibly the container without arrays): never aborts on matching
sizes and returns `A x` in terms of the dense meaning `entry` -/
theorem apply_valid_spec (A : Csr Rat) (hA : A.valid = true) (x r : Array Rat) (hr : r.size = A.rows)
    (hx : x.size = A.cols) :
    ∃ r', A.applyQ x r false = some r' ∧ r'.size = A.rows ∧
      ∀ i, i < A.rows → r'.getD i 0 = ∑ j ∈ range A.cols, A.entry i j * x.getD j 0 := by
  rcases C02L.valid_cases hA with hless | hv
  · have h0 : A.usedElements = 0 := C02L.arrayless_usedElements hless
    refine ⟨Array.replicate r.size 0, by simp [Csr.applyQ, Csr.apply, hr, hx, h0], by simp [hr], ?_⟩
    intro i hi
    have : (Array.replicate r.size (0 : Rat)).getD i 0 = 0 := by simp [Array.getD]
    rw [this]
    symm
    apply Finset.sum_eq_zero
    intro j _
    rw [C02L.arrayless_entry hless]; ring
  · exact C01.csr_apply_spec (tinyRat epsQ) C01.tinyRat_zero_one.1 A (C02L.V_to hv).1 x r hr hx

/-- `rest = prol.transpose()`: swapped dimensions, valid layout, `R(j,i) = P(i,j)` — at array level -/
theorem rest_spec (P T : Csr Rat) (hP : P.valid = true) :
    (Transfer.ofProl P T).rest.rows = P.cols ∧ (Transfer.ofProl P T).rest.cols = P.rows ∧
    (Transfer.ofProl P T).rest.valid = true ∧
    ∀ i j, i < P.rows → j < P.cols → (Transfer.ofProl P T).rest.entry j i = P.entry i j :=
  C02L.transpose_spec P hP

/-- `Transfer::prol / rest / trunc` = products with `P`, `Pᵀ`, `T` -/
theorem transfer_products (P T : Csr Rat) (hP : P.valid = true) (hT : T.valid = true)
    (hTr : T.rows = P.cols) (hTc : T.cols = P.rows)
    (xc vf0 yf vc0 : Array Rat) (hxc : xc.size = P.cols) (hvf : vf0.size = P.rows) (hyf : yf.size = P.rows)
    (hvc : vc0.size = P.cols) :
    (∃ xp, (Transfer.ofProl P T).applyProl vf0 xc = some xp ∧
        ∀ i, i < P.rows → xp.getD i 0 = ∑ j ∈ range P.cols, P.entry i j * xc.getD j 0) ∧
    (∃ xr, (Transfer.ofProl P T).applyRest yf vc0 = some xr ∧
        ∀ j, j < P.cols → xr.getD j 0 = ∑ i ∈ range P.rows, P.entry i j * yf.getD i 0) ∧
    (∃ xt, (Transfer.ofProl P T).applyTrunc yf vc0 = some xt ∧
        ∀ j, j < P.cols → xt.getD j 0 = ∑ i ∈ range P.rows, T.entry j i * yf.getD i 0) := by
  obtain ⟨hr1, hr2, hr3, hr4⟩ := rest_spec P T hP
  refine ⟨?_, ?_, ?_⟩
  · obtain ⟨r', h1, _, h3⟩ := apply_valid_spec P hP xc vf0 hvf hxc
    exact ⟨r', h1, h3⟩
  · obtain ⟨r', h1, _, h3⟩ := apply_valid_spec (Transfer.ofProl P T).rest hr3 yf vc0 (by rw [hr1]; exact hvc)
      (by rw [hr2]; exact hyf)
    refine ⟨r', h1, ?_⟩
    intro j hj
    rw [h3 j (by rw [hr1]; exact hj), hr2]
    apply Finset.sum_congr rfl
    intro i hi
    rw [hr4 i j (Finset.mem_range.1 hi) hj]
  · obtain ⟨r', h1, _, h3⟩ := apply_valid_spec T hT yf vc0 (by rw [hTr]; exact hvc) (by rw [hTc]; exact hyf)
    refine ⟨r', h1, ?_⟩
    intro j hj
    rw [h3 j (by rw [hTr]; exact hj), hTc]

end C18L
