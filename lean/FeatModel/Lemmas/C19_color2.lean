import FeatModel.Model.Adjacency
import FeatModel.Model.AdjKernels
import FeatModel.Lemmas.C19_color
import FeatModel.Lemmas.C19_api
import FeatModel.Lemmas.C19_renders
/-! C19 lemmas, group `color2` (statements fixed by Props/C19.statements) -/
open FeatModel.Adj

namespace C19L.color2

open C19L.color

/-! ### invariant of `greedyOrdered` over a prefix `done` of the order (no symmetry needed) -/

structure OInv2 (g : Graph) (done : List Nat) (st : Coloring.St) : Prop where
  size : st.coloring.size = g.nDom
  ncolLen : st.numColors ≤ done.length
  ncolDeg : st.numColors ≤ g.maxDegree + 1
  unset : ∀ k, k ∉ done → st.coloring.getD k (g.nDom + 1) = g.nDom + 1
  lt : ∀ k, k ∈ done → st.coloring.getD k (g.nDom + 1) < st.numColors
  used : ∀ c, c < st.numColors → ∃ k, k ∈ done ∧ st.coloring.getD k (g.nDom + 1) = c
  scanned : ∀ a b, a < done.length → b < a → done.getD b 0 ∈ g.row (done.getD a 0) →
    st.coloring.getD (done.getD a 0) (g.nDom + 1) ≠ st.coloring.getD (done.getD b 0) (g.nDom + 1)

theorem oMarked_length_le (g : Graph) (st : Coloring.St) (i : Nat) :
    (oMarked g st i).length ≤ g.maxDegree :=
  Nat.le_trans (List.length_filterMap_le _ _) (row_length_le_maxDegree g i)

theorem getD_mem_of_lt (l : List Nat) (a : Nat) (h : a < l.length) : l.getD a 0 ∈ l := by
  simp [List.getD_eq_getElem?_getD, h]

theorem getD_append_left' (l : List Nat) (i a : Nat) (h : a < l.length) :
    (l ++ [i]).getD a 0 = l.getD a 0 := by
  simp [List.getD_eq_getElem?_getD, List.getElem?_append_left h]

theorem getD_append_last (l : List Nat) (i : Nat) : (l ++ [i]).getD l.length 0 = i := by
  simp [List.getD_eq_getElem?_getD]

theorem OInv2_step {g : Graph} {done : List Nat} {st : Coloring.St} {i : Nat} (h : OInv2 g done st)
    (hdl : done.length ≤ g.nDom) (hi : i < g.nDom) (hid : i ∉ done) :
    OInv2 g (done ++ [i]) (oStep g st i) := by
  have hdone_of_set : ∀ k, st.coloring.getD k (g.nDom + 1) ≠ g.nDom + 1 → k ∈ done := by
    intro k hk
    by_cases hkd : k ∈ done
    · exact hkd
    · exact absurd (h.unset k hkd) hk
  have hset_of_done : ∀ k, k ∈ done → st.coloring.getD k (g.nDom + 1) ≠ g.nDom + 1 := by
    intro k hk
    have h1 := h.lt k hk
    have h2 := h.ncolLen
    omega
  have hmk : ∀ x, x ∈ oMarked g st i → x < st.numColors := by
    intro x hx
    obtain ⟨k, _, hne, rfl⟩ := mem_oMarked.1 hx
    exact h.lt k (hdone_of_set k hne)
  obtain ⟨c, hcol, hcm, hclt, hmono, hnc⟩ := colorNode_spec st i (oMarked g st i) hmk
  have hsz : i < st.coloring.size := by rw [h.size]; exact hi
  have hold : ∀ k, k ≠ i →
      (oStep g st i).coloring.getD k (g.nDom + 1) = st.coloring.getD k (g.nDom + 1) := by
    intro k hk
    unfold oStep
    rw [hcol]
    exact getD_set_ne hk
  have hnew : (oStep g st i).coloring.getD i (g.nDom + 1) = c := by
    unfold oStep
    rw [hcol]
    exact getD_set_eq hsz
  have hne_of_done : ∀ k, k ∈ done → k ≠ i := fun k hk e => hid (e ▸ hk)
  have hmarked_of_nbr : ∀ b, b ∈ done → b ∈ g.row i → st.coloring.getD b (g.nDom + 1) ≠ c := by
    intro b hbd hb he
    exact hcm (mem_oMarked.2 ⟨b, hb, hset_of_done b hbd, he⟩)
  have hnum : (oStep g st i).numColors = (Coloring.colorNode st i (oMarked g st i)).numColors := rfl
  refine ⟨?_, ?_, ?_, ?_, ?_, ?_, ?_⟩
  · unfold oStep
    rw [hcol]
    simpa using h.size
  · have := h.ncolLen
    simp only [List.length_append, List.length_singleton]
    rw [hnum]
    rcases hnc with he | ⟨he, _⟩ <;> rw [he] <;> omega
  · rw [hnum]
    rcases hnc with he | ⟨he, hall⟩
    · rw [he]; exact h.ncolDeg
    · rw [he]
      have h1 : (List.range st.numColors).length ≤ (oMarked g st i).length :=
        nodup_subset_length_le List.nodup_range (fun a ha => hall a (by simpa using ha))
      have h2 := oMarked_length_le g st i
      simp only [List.length_range] at h1
      omega
  · intro k hk
    simp only [List.mem_append, List.mem_singleton, not_or] at hk
    rw [hold k hk.2]
    exact h.unset k hk.1
  · intro k hk
    simp only [List.mem_append, List.mem_singleton] at hk
    rw [hnum]
    rcases hk with hk | rfl
    · rw [hold k (hne_of_done k hk)]
      exact Nat.lt_of_lt_of_le (h.lt k hk) hmono
    · rw [hnew]
      exact hclt
  · intro c' hc'
    rw [hnum] at hc'
    by_cases hlt : c' < st.numColors
    · obtain ⟨k, hk, he⟩ := h.used c' hlt
      exact ⟨k, by simp [hk], by rw [hold k (hne_of_done k hk)]; exact he⟩
    · rcases hnc with he | ⟨he, hall⟩
      · rw [he] at hc'; exact absurd hc' hlt
      · rw [he] at hc' hclt
        have hc0 : ¬ c < st.numColors := fun h' => hcm (hall c h')
        refine ⟨i, by simp, ?_⟩
        rw [hnew]
        omega
  · intro a b ha hb hab
    simp only [List.length_append, List.length_singleton] at ha
    have hbl : b < done.length := by omega
    rw [getD_append_left' done i b hbl] at hab ⊢
    have hbd : done.getD b 0 ∈ done := getD_mem_of_lt done b hbl
    by_cases hal : a < done.length
    · rw [getD_append_left' done i a hal] at hab ⊢
      have had : done.getD a 0 ∈ done := getD_mem_of_lt done a hal
      rw [hold _ (hne_of_done _ had), hold _ (hne_of_done _ hbd)]
      exact h.scanned a b hal hb hab
    · have : a = done.length := by omega
      subst this
      rw [getD_append_last] at hab ⊢
      rw [hnew, hold _ (hne_of_done _ hbd)]
      exact fun e => hmarked_of_nbr _ hbd hab e.symm

theorem OInv2_fold {g : Graph} (l : List Nat) (done : List Nat) (st : Coloring.St) (h : OInv2 g done st)
    (hnd : (done ++ l).Nodup) (hlt : ∀ x, x ∈ done ++ l → x < g.nDom) :
    OInv2 g (done ++ l) (l.foldl (oStep g) st) := by
  induction l generalizing done st with
  | nil => simpa using h
  | cons i t ih =>
    simp only [List.foldl_cons]
    have hnd' : ((done ++ [i]) ++ t).Nodup := by simpa using hnd
    have hlt' : ∀ x, x ∈ (done ++ [i]) ++ t → x < g.nDom := by
      intro x hx; exact hlt x (by simpa using hx)
    have hdl : done.length ≤ g.nDom := by
      have hdn : done.Nodup := (List.nodup_append.1 hnd).1
      have := nodup_subset_length_le (m := List.range g.nDom) hdn
        (fun a ha => by simpa using hlt a (by simp [ha]))
      simpa using this
    have hid : i ∉ done := by
      intro hmem
      have := (List.nodup_append.1 hnd).2.2 i hmem i (by simp)
      exact this rfl
    have hstep := OInv2_step h hdl (hlt i (by simp)) hid
    have := ih (done ++ [i]) (oStep g st i) hstep hnd' hlt'
    simpa using this

theorem OInv2_init (g : Graph) : OInv2 g [] (oInit g) := by
  refine ⟨?_, ?_, ?_, ?_, ?_, ?_, ?_⟩
  · simp [oInit]
  · simp [oInit]
  · simp [oInit]
  · intro k _
    simp only [oInit, Array.getD_eq_getD_getElem?, Array.getElem?_replicate]
    split <;> rfl
  · intro k hk; simp at hk
  · intro c hc; simp [oInit] at hc
  · intro a b ha; simp at ha

/-- everything the ordered constructor guarantees, packaged -/
theorem OInv2_final (g : Graph) (order : List Nat) (hord : Perm.isBijection order = true)
    (hlen : order.length = g.nDom) :
    OInv2 g order (Coloring.greedyOrdered g order) ∧ (∀ k, k < g.nDom → k ∈ order) ∧
      (∀ x, x ∈ order → x < g.nDom) := by
  unfold Perm.isBijection at hord
  rw [Bool.and_eq_true, List.all_eq_true, List.all_eq_true] at hord
  obtain ⟨hall, hcont⟩ := hord
  have hmem : ∀ k, k < g.nDom → k ∈ order := by
    intro k hk
    have := hcont k (by rw [hlen]; simpa using hk)
    simpa using this
  have hlt : ∀ x, x ∈ order → x < g.nDom := by
    intro x hx
    have := hall x hx
    rw [hlen] at this
    simpa using this
  have hnd : order.Nodup :=
    nodup_of_subset_length_le (l := List.range g.nDom) List.nodup_range
      (fun a ha => hmem a (by simpa using ha)) (by simp [hlen])
  have hfin := OInv2_fold order [] (oInit g) (OInv2_init g) (by simpa using hnd) (by simpa using hlt)
  simp only [List.nil_append] at hfin
  rw [greedyOrdered_eq]
  exact ⟨hfin, hmem, hlt⟩

theorem coloringOrdered_bounds (g : Graph) (order : List Nat) (hord : Perm.isBijection order = true)
    (hlen : order.length = g.nDom) :
    (Coloring.greedyOrdered g order).numColors ≤ g.maxDegree + 1 ∧
    ∀ i, i < g.nDom → (Coloring.greedyOrdered g order).coloring.getD i 0 < (Coloring.greedyOrdered g order).numColors := by
  obtain ⟨h, hmem, hlt⟩ := OInv2_final g order hord hlen
  refine ⟨h.ncolDeg, ?_⟩
  intro i hi
  rw [getD_default_irrel 0 (g.nDom + 1) (by rw [h.size]; exact hi)]
  exact h.lt i (hmem i hi)

theorem coloringOrdered_proper_scanned (g : Graph) (order : List Nat) (hord : Perm.isBijection order = true)
    (hlen : order.length = g.nDom) :
    ∀ a b, a < order.length → b < a → order.getD b 0 ∈ g.row (order.getD a 0) →
      (Coloring.greedyOrdered g order).coloring.getD (order.getD a 0) 0 ≠
      (Coloring.greedyOrdered g order).coloring.getD (order.getD b 0) 0 := by
  obtain ⟨h, hmem, hlt⟩ := OInv2_final g order hord hlen
  intro a b ha hb hab
  have h1 : order.getD a 0 < g.nDom := hlt _ (getD_mem_of_lt order a ha)
  have h2 : order.getD b 0 < g.nDom := hlt _ (getD_mem_of_lt order b (by omega))
  rw [getD_default_irrel 0 (g.nDom + 1) (by rw [h.size]; exact h1),
    getD_default_irrel 0 (g.nDom + 1) (by rw [h.size]; exact h2)]
  exact h.scanned a b ha hb hab

theorem coloringOrdered_colors_contiguous (g : Graph) (order : List Nat) (hord : Perm.isBijection order = true)
    (hlen : order.length = g.nDom) :
    Coloring.numDistinct (Coloring.greedyOrdered g order).coloring.toList = (Coloring.greedyOrdered g order).numColors := by
  obtain ⟨h, hmem, hlt⟩ := OInv2_final g order hord hlen
  rw [C19L.api.numDistinct_spec _ (List.range (Coloring.greedyOrdered g order).numColors) List.nodup_range]
  · simp
  · intro c
    rw [List.mem_range, Array.mem_toList_iff, Array.mem_iff_getElem]
    constructor
    · intro hc
      obtain ⟨i, hi, he⟩ := h.used c hc
      have hi' : i < (Coloring.greedyOrdered g order).coloring.size := by rw [h.size]; exact hlt i hi
      refine ⟨i, hi', ?_⟩
      rw [← he]
      simp [Array.getD_eq_getD_getElem?, hi']
    · rintro ⟨i, hi, rfl⟩
      have := h.lt i (hmem i (by rw [← h.size]; exact hi))
      simpa [Array.getD_eq_getD_getElem?, hi] using this

/-! ### partition graph: transpose gives back the colouring -/

theorem eq_singleton_of_count (L : List Nat) (c0 : Nat)
    (h : ∀ c, L.count c = if c0 = c then 1 else 0) : L = [c0] := by
  have hall : ∀ x, x ∈ L → x = c0 := by
    intro x hx
    have := List.count_pos_iff.2 hx
    rw [h x] at this
    by_cases e : c0 = x
    · exact e.symm
    · simp [e] at this
  have hrep : L = List.replicate L.length c0 := List.eq_replicate_iff.2 ⟨rfl, hall⟩
  have hc := h c0
  rw [hrep] at hc
  simp only [List.count_replicate_self, if_true] at hc
  rw [hrep, hc]
  rfl

theorem partition_transpose_roundtrip (nc : Nat) (col : List Nat) (h : ∀ c, c ∈ col → c < nc) :
    (Coloring.partitionGraph nc col).transpose.adj = col.map (fun c => [c]) ∧
    (Coloring.partitionGraph nc col).transpose.nImg = nc := by
  constructor
  · have hnI : (Coloring.partitionGraph nc col).nImg = col.length := rfl
    unfold Graph.transpose
    simp only [hnI]
    apply List.ext_getElem
    · simp
    · intro j h1 h2
      have hj : j < col.length := by simpa using h1
      simp only [List.getElem_map, List.getElem_range]
      apply eq_singleton_of_count
      intro c
      have hcnt := C19L.renders.transposeRow_aux_count (Coloring.partitionGraph nc col).adj j c 0
      rw [C19L.renders.transposeRow_eq, hcnt]
      simp only [Nat.zero_le, if_true, Nat.sub_zero]
      have hspec := partitionGraph_spec nc col h j hj
      have hrow : (Coloring.partitionGraph nc col).adj.getD c [] = (Coloring.partitionGraph nc col).row c := rfl
      rw [hrow]
      have hg : col.getD j 0 = col[j] := by simp [List.getD_eq_getElem?_getD, hj]
      have hm := hspec.1 c
      have hle := hspec.2 c
      rw [hg] at hm
      by_cases e : col[j] = c
      · have := List.count_pos_iff.2 (hm.2 e)
        simp only [e, if_true]
        omega
      · simp only [e, if_false]
        exact List.count_eq_zero.2 (fun hmem => e (hm.1 hmem))
  · simp [Graph.transpose, Graph.nDom, Coloring.partitionGraph]

end C19L.color2
