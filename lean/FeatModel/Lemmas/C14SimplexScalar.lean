import FeatModel.Lemmas.C14Refine1D
import Mathlib.Algebra.Order.BigOperators.Group.Finset
/-! # C14: `SimplexScalarFactory` (w ↦ w/2, x ↦ (x+1)/2) keeps the degree: a rule on `[-1,1]` that integrates
    `x^j`, `j ≤ d`, up to `ε` becomes a rule on `[0,1]` that integrates `x^k`, `k ≤ d`, up to `ε/2` -/
namespace FeatModel.Cub

/-- the transformation as a one-child "refinement" `x ↦ (1 + x)/2`, weight factor 1/2 -/
def ssMaps : RefMaps := { ce := 1, ae := 1, maps := [{ c := 1, b := [1], a := [[1]] }] }

theorem simplexScalar_eq_refine1 (t : DyTable) (ht : t.wf 1 = true) : t.simplexScalar = t.refine1 ssMaps := by
  unfold DyTable.wf at ht
  rw [Bool.and_eq_true] at ht
  have hx : ∀ p ∈ t.x, p.length = 1 := fun p hp => by simpa using List.all_eq_true.1 ht.2 p hp
  unfold DyTable.simplexScalar DyTable.refine1 ssMaps
  simp only [List.flatMap_cons, List.flatMap_nil, List.append_nil, one_mul, List.map_id']
  congr 1
  apply List.map_congr_left
  intro p hp
  match p, hx p hp with
  | [c], _ => simp [RefMap.apply, dot]; ring

theorem sum_choose_two (k : Nat) : ((List.range (k + 1)).map fun i => (k.choose i : Rat)).sum = (2 : Rat) ^ k := by
  rw [← finset_sum_range_eq_listQ]
  exact_mod_cast Nat.sum_range_choose k

theorem abs_list_sum_le (u : Nat → Rat) (c : Nat → Rat) (ε : Rat) (n : Nat)
    (h : ∀ i, i < n → |u i| ≤ c i * ε) :
    |((List.range n).map u).sum| ≤ ((List.range n).map c).sum * ε := by
  rw [← finset_sum_range_eq_listQ, ← finset_sum_range_eq_listQ, Finset.sum_mul]
  calc _ ≤ ∑ i ∈ Finset.range n, |u i| := Finset.abs_sum_le_sum_abs _ _
    _ ≤ _ := Finset.sum_le_sum (fun i hi => h i (Finset.mem_range.1 hi))

/-- SIMPLEX-SCALAR rules (Simplex<1> from the interval rule), tolerance version -/
theorem simplexScalar_exactQ (t : DyTable) (ht : t.wf 1 = true) (d : Nat) (ε : Rat)
    (H : t.ExactQ false 1 d ε) : t.simplexScalar.ExactQ true 1 d (ε / 2) := by
  intro e hl hs
  match e, hl with
  | [k], _ =>
    have hk : k ≤ d := by simpa [esum] using hs
    have hrm : ssMaps.wf 1 = true := by decide
    have hsh : ∀ m ∈ ssMaps.maps, TermsShape 1 (esum [k]) (expandAll m.rows [k]) := by
      intro m hm
      simp only [ssMaps, List.mem_singleton] at hm
      subst hm
      exact termsShape_1d 1 k
    rw [simplexScalar_eq_refine1 t ht]
    -- the transformed moment
    have hM : (t.refine1 ssMaps).momentQ [k] =
        ((List.range (k + 1)).map fun i => (k.choose i : Rat) * t.momentQ [k - i]).sum / (2 : Rat) ^ (k + 1) := by
      unfold DyTable.momentQ
      rw [momentNum_refine1 t ssMaps 1 ht hrm [k], refMoment_cast_shape t.momentNum t.ew t.ec 1 (esum [k]) [k] _ hsh]
      have hexp : (t.refine1 ssMaps).momentExp [k] = (t.ew + t.ec * esum [k]) + (k + 1) := by
        simp only [DyTable.momentExp, DyTable.refine1, ssMaps, esum]; ring
      have h1 : (2 : Rat) ^ (t.ew + t.ec * esum [k]) ≠ 0 := by positivity
      rw [hexp, show (2 : Rat) ^ (t.ew + t.ec * esum [k] + (k + 1)) =
        (2 : Rat) ^ (t.ew + t.ec * esum [k]) * (2 : Rat) ^ (k + 1) from pow_add _ _ _, mul_div_mul_left _ _ h1]
      congr 1
      simp only [mapsQ, ssMaps, List.map_cons, List.map_nil, List.sum_cons, List.sum_nil]
      have hr : ({ c := 1, b := [1], a := [[1]] } : RefMap).rows = [[1, 1]] := by decide
      rw [hr, applyQ_expandAll_1d, if_neg (by decide)]
      simp only [Int.cast_one, one_mul, add_zero, one_pow, mul_one, DyTable.momentExp, esum]
    -- the reference integral
    have hI : refIntQ true [k] =
        ((List.range (k + 1)).map fun i => (k.choose i : Rat) * refIntQ false [k - i]).sum / (2 : Rat) ^ (k + 1) := by
      have := sum_choose_refIntQ_h1 k 1
      simp only [one_pow, mul_one] at this
      rw [this, refIntQ_s1]
      have hk1 : ((k + 1 : Nat) : Rat) ≠ 0 := by positivity
      have h0 : (1 + -1 : Rat) ^ (k + 1) = 0 := by simp
      have h2 : (1 + 1 : Rat) ^ (k + 1) = 2 ^ (k + 1) := by norm_num
      rw [h0, h2]
      field_simp
      ring
    rw [hM, hI, ← sub_div, abs_div, abs_of_pos (by positivity : (0 : Rat) < 2 ^ (k + 1)),
      div_le_iff₀ (by positivity : (0 : Rat) < 2 ^ (k + 1)), ← sum_sub_list]
    have hterm : ∀ i, i < k + 1 →
        |(k.choose i : Rat) * t.momentQ [k - i] - (k.choose i : Rat) * refIntQ false [k - i]| ≤ (k.choose i : Rat) * ε := by
      intro i _
      rw [← mul_sub, abs_mul, abs_of_nonneg (by positivity : (0 : Rat) ≤ (k.choose i : Rat))]
      exact mul_le_mul_of_nonneg_left (H [k - i] rfl (by simp [esum]; omega)) (by positivity)
    calc _ ≤ ((List.range (k + 1)).map fun i => (k.choose i : Rat)).sum * ε := abs_list_sum_le _ _ ε (k + 1) hterm
      _ = (2 : Rat) ^ k * ε := by rw [sum_choose_two]
      _ = ε / 2 * 2 ^ (k + 1) := by rw [pow_succ]; ring

end FeatModel.Cub
