import FeatModel.Lemmas.C20Pool
/-! C20 helper lemmas, part 2: accounting of pool transitions (`Delta`) for lists of pointers and for the
    container-level operations: the counters change by exactly (+ new owner references − old owner references). -/
namespace FeatModel.Pool

/-- chunk ids a list of pointers refers to (with multiplicity) -/
def idsOf : List Ptr → List Nat
  | [] => []
  | .null :: r => idsOf r
  | .at id _ :: r => id :: idsOf r

theorem idsOf_append (a b : List Ptr) : idsOf (a ++ b) = idsOf a ++ idsOf b := by
  induction a with
  | nil => rfl
  | cons x r ih => cases x <;> simp [idsOf, ih]

/-- `p'` arises from `p` by adding one reference per element of `plus` and dropping one per element of `minus` -/
def Delta (p p' : Pool) (plus minus : List Nat) : Prop :=
  ∀ j, count p' j + minus.count j = count p j + plus.count j

theorem Delta.refl (p : Pool) : Delta p p [] [] := by intro j; simp

theorem Delta.trans {p p1 p2 : Pool} {a b c d : List Nat} (h1 : Delta p p1 a b) (h2 : Delta p1 p2 c d) :
    Delta p p2 (a ++ c) (b ++ d) := by
  intro j
  have := h1 j; have := h2 j
  simp only [List.count_append]; omega

theorem Delta.congr {p p' : Pool} {a b a' b' : List Nat} (h : Delta p p' a b)
    (ha : ∀ j, a.count j = a'.count j) (hb : ∀ j, b.count j = b'.count j) : Delta p p' a' b' := by
  intro j; have := h j; rw [← ha j, ← hb j]; exact this

theorem delta_releaseAll {l : List Ptr} {p p' : Pool} (h : releaseAll p l = .ok p') (hp : PoolPos p) :
    Delta p p' [] (idsOf l) ∧ PoolPos p' := by
  induction l generalizing p with
  | nil => unfold releaseAll at h; injection h with h; subst h; exact ⟨Delta.refl p, hp⟩
  | cons q qs ih =>
    unfold releaseAll at h
    cases hr : release p q with
    | error e => rw [hr] at h; cases h
    | ok p1 =>
      rw [hr] at h
      have hp1 := posRelease hr hp
      obtain ⟨hd, hpp⟩ := ih h hp1
      refine ⟨?_, hpp⟩
      cases q with
      | null =>
        unfold release at hr; injection hr with hr; subst hr
        simpa [idsOf] using hd
      | «at» id off =>
        intro j
        have h1 := (count_release hr hp j).2.2
        have h2 := hd j
        simp only [idsOf, List.count_cons, List.count_nil] at *
        by_cases hij : id = j
        · simp [hij] at *; omega
        · have : (id == j) = false := by simp [hij]
          simp [hij, this] at *; omega

theorem delta_incrAll {l : List Ptr} {p p' : Pool} (h : incrAll p l = .ok p') (hp : PoolPos p) :
    Delta p p' (idsOf l) [] ∧ PoolPos p' := by
  induction l generalizing p with
  | nil => unfold incrAll at h; injection h with h; subst h; exact ⟨Delta.refl p, hp⟩
  | cons q qs ih =>
    unfold incrAll at h
    cases hr : incr p q with
    | error e => rw [hr] at h; cases h
    | ok p1 =>
      rw [hr] at h
      have hp1 := posIncr hr hp
      obtain ⟨hd, hpp⟩ := ih h hp1
      refine ⟨?_, hpp⟩
      intro j
      rcases count_incr hr j with ⟨hq, hpe⟩ | ⟨id, hq, h1⟩
      · subst hq; subst hpe
        have h2 := hd j
        simpa [idsOf] using h2
      · subst hq
        have h2 := hd j
        simp only [idsOf, List.count_cons, List.count_nil] at *
        by_cases hij : id = j
        · simp [hij] at *; omega
        · have : (id == j) = false := by simp [hij]
          simp [hij, this] at *; omega

theorem delta_alloc (p : Pool) (n esz : Nat) (vals : List Int) :
    Delta p (alloc p n esz vals).1 (idsOf [(alloc p n esz vals).2]) [] := by
  intro j
  have h := count_alloc p n esz vals j
  rw [h]
  cases hq : (alloc p n esz vals).2 with
  | null => simp [idsOf]
  | «at» id off =>
    simp only [idsOf, List.count_cons, List.count_nil]
    by_cases hij : id = j
    · subst hij
      have : off = 0 := by
        unfold alloc at hq; split at hq
        · cases hq
        · injection hq with _ h2; exact h2.symm
      subst this; simp
    · have h1 : ¬ (Ptr.at id off = Ptr.at j 0) := by intro hh; injection hh with h1 _; exact hij h1
      have h2 : (id == j) = false := by simp [hij]
      simp [h1, h2]

theorem delta_allocAll {l : List (Ptr × Nat)} {p : Pool} (esz : Nat) (copy : Bool) (hp : PoolPos p) :
    Delta p (allocAll p esz copy l).1 (idsOf (allocAll p esz copy l).2) [] ∧ PoolPos (allocAll p esz copy l).1 := by
  induction l generalizing p with
  | nil => exact ⟨Delta.refl p, hp⟩
  | cons x rest ih =>
    obtain ⟨q, n⟩ := x
    simp only [allocAll]
    generalize hv : (if copy = true then readArr p q n else List.replicate n 0) = vals
    have hd1 := delta_alloc p n esz vals
    have hp1 := posAlloc p n esz vals hp
    obtain ⟨hd2, hp2⟩ := ih (p := (alloc p n esz vals).1) hp1
    refine ⟨?_, hp2⟩
    have := Delta.trans hd1 hd2
    refine this.congr ?_ (fun j => rfl)
    intro j
    cases hq : (alloc p n esz vals).2 <;> simp [idsOf, hq]

theorem count_writeArr (p : Pool) (q : Ptr) (vs : List Int) (j : Nat) : count (writeArr p q vs) j = count p j := by
  unfold writeArr
  cases q with
  | null => rfl
  | «at» id off =>
    simp only
    cases hg : get p id with
    | none => rfl
    | some c =>
      simp only
      by_cases hij : id = j
      · subst hij; unfold count; rw [get_set_self p id _ (get_lt hg), hg]
      · unfold count; rw [get_set_ne p id j _ hij]

theorem pos_writeArr (p : Pool) (q : Ptr) (vs : List Int) (hp : PoolPos p) : PoolPos (writeArr p q vs) := by
  unfold writeArr
  cases q with
  | null => exact hp
  | «at» id off =>
    simp only
    cases hg : get p id with
    | none => exact hp
    | some c =>
      simp only
      intro k c' hk
      by_cases hik : id = k
      · subst hik; rw [get_set_self p id _ (get_lt hg)] at hk
        injection hk with hk; subst hk; exact hp id c hg
      · rw [get_set_ne p id k _ hik] at hk; exact hp k c' hk

theorem delta_fillArrs (l : List (Ptr × Nat)) (p : Pool) (v : Int) (hp : PoolPos p) :
    Delta p (fillArrs p v l) [] [] ∧ PoolPos (fillArrs p v l) := by
  induction l generalizing p with
  | nil => exact ⟨Delta.refl p, hp⟩
  | cons x rest ih =>
    obtain ⟨q, n⟩ := x
    simp only [fillArrs]
    obtain ⟨h1, h2⟩ := ih (writeArr p q (iota v n)) (pos_writeArr p q _ hp)
    refine ⟨?_, h2⟩
    intro j; have := h1 j; rw [count_writeArr] at this; exact this

theorem delta_formatArrs (l : List (Ptr × Nat)) (p : Pool) (v : Int) (hp : PoolPos p) :
    Delta p (formatArrs p v l) [] [] ∧ PoolPos (formatArrs p v l) := by
  induction l generalizing p with
  | nil => exact ⟨Delta.refl p, hp⟩
  | cons x rest ih =>
    obtain ⟨q, n⟩ := x
    simp only [formatArrs]
    obtain ⟨h1, h2⟩ := ih (writeArr p q (List.replicate n v)) (pos_writeArr p q _ hp)
    refine ⟨?_, h2⟩
    intro j; have := h1 j; rw [count_writeArr] at this; exact this

/-! ### base addresses: every pointer that was successfully shared or freshly allocated is null or the start of a chunk -/

/-- a list of owner pointers: each is null (zero-sized array) or the base address of a chunk -/
def AlignedL (l : List Ptr) : Prop := ∀ q ∈ l, q = .null ∨ ∃ id, q = .at id 0

/-- freshly allocated w.r.t. a pool of length `n`: null or the base address of a chunk id that did not exist -/
def FreshL (n : Nat) (l : List Ptr) : Prop := ∀ q ∈ l, q = .null ∨ ∃ id, q = .at id 0 ∧ n ≤ id

theorem AlignedL.nil : AlignedL [] := by intro q h; cases h

theorem AlignedL.append {a b : List Ptr} (ha : AlignedL a) (hb : AlignedL b) : AlignedL (a ++ b) := by
  intro q h
  cases List.mem_append.mp h with
  | inl h => exact ha q h
  | inr h => exact hb q h

theorem AlignedL.left {a b : List Ptr} (h : AlignedL (a ++ b)) : AlignedL a :=
  fun q hq => h q (List.mem_append.mpr (Or.inl hq))

theorem AlignedL.right {a b : List Ptr} (h : AlignedL (a ++ b)) : AlignedL b :=
  fun q hq => h q (List.mem_append.mpr (Or.inr hq))

theorem FreshL.aligned {n : Nat} {l : List Ptr} (h : FreshL n l) : AlignedL l := by
  intro q hq
  rcases h q hq with h | ⟨id, h, _⟩
  · exact Or.inl h
  · exact Or.inr ⟨id, h⟩

theorem FreshL.mono {n m : Nat} {l : List Ptr} (h : FreshL m l) (hnm : n ≤ m) : FreshL n l := by
  intro q hq
  rcases h q hq with h | ⟨id, h, hh⟩
  · exact Or.inl h
  · exact Or.inr ⟨id, h, by omega⟩

theorem incr_aligned {p p' : Pool} {q : Ptr} (h : incr p q = .ok p') : q = .null ∨ ∃ id, q = .at id 0 := by
  rcases count_incr h 0 with ⟨hq, _⟩ | ⟨id, hq, _⟩
  · exact Or.inl hq
  · exact Or.inr ⟨id, hq⟩

theorem incrAll_aligned {l : List Ptr} {p p' : Pool} (h : incrAll p l = .ok p') : AlignedL l := by
  induction l generalizing p with
  | nil => exact AlignedL.nil
  | cons q qs ih =>
    unfold incrAll at h
    cases hr : incr p q with
    | error e => rw [hr] at h; cases h
    | ok p1 =>
      rw [hr] at h
      intro x hx
      cases List.mem_cons.mp hx with
      | inl e => subst e; exact incr_aligned hr
      | inr hx => exact ih h x hx

theorem incr_length {p p' : Pool} {q : Ptr} (h : incr p q = .ok p') : p'.length = p.length := by
  unfold incr at h
  cases q with
  | null => injection h with h; subst h; rfl
  | «at» id off =>
    simp only at h
    split at h
    · cases h
    · split at h
      · cases h
      · injection h with h; subst h; simp

theorem release_length {p p' : Pool} {q : Ptr} (h : release p q = .ok p') : p'.length = p.length := by
  unfold release at h
  cases q with
  | null => injection h with h; subst h; rfl
  | «at» id off =>
    simp only at h
    split at h
    · cases h
    · split at h
      · cases h
      · split at h <;> (injection h with h; subst h; simp)

theorem incrAll_length {l : List Ptr} {p p' : Pool} (h : incrAll p l = .ok p') : p'.length = p.length := by
  induction l generalizing p with
  | nil => unfold incrAll at h; injection h with h; subst h; rfl
  | cons q qs ih =>
    unfold incrAll at h
    cases hr : incr p q with
    | error e => rw [hr] at h; cases h
    | ok p1 => rw [hr] at h; rw [ih h, incr_length hr]

theorem releaseAll_length {l : List Ptr} {p p' : Pool} (h : releaseAll p l = .ok p') : p'.length = p.length := by
  induction l generalizing p with
  | nil => unfold releaseAll at h; injection h with h; subst h; rfl
  | cons q qs ih =>
    unfold releaseAll at h
    cases hr : release p q with
    | error e => rw [hr] at h; cases h
    | ok p1 => rw [hr] at h; rw [ih h, release_length hr]

theorem alloc_length (p : Pool) (n esz : Nat) (vals : List Int) : p.length ≤ (alloc p n esz vals).1.length := by
  unfold alloc; split <;> simp

theorem alloc_fresh (p : Pool) (n esz : Nat) (vals : List Int) :
    (alloc p n esz vals).2 = .null ∨ ∃ id, (alloc p n esz vals).2 = .at id 0 ∧ p.length ≤ id := by
  unfold alloc; split
  · exact Or.inl rfl
  · exact Or.inr ⟨p.length, rfl, Nat.le_refl _⟩

theorem allocAll_length (l : List (Ptr × Nat)) (p : Pool) (esz : Nat) (copy : Bool) :
    p.length ≤ (allocAll p esz copy l).1.length := by
  induction l generalizing p with
  | nil => exact Nat.le_refl _
  | cons x rest ih =>
    obtain ⟨q, n⟩ := x
    simp only [allocAll]
    exact Nat.le_trans (alloc_length p n esz _) (ih _)

theorem allocAll_fresh (l : List (Ptr × Nat)) (p : Pool) (esz : Nat) (copy : Bool) :
    FreshL p.length (allocAll p esz copy l).2 := by
  induction l generalizing p with
  | nil => intro q h; cases h
  | cons x rest ih =>
    obtain ⟨q, n⟩ := x
    simp only [allocAll]
    intro y hy
    cases List.mem_cons.mp hy with
    | inl e => subst e; exact alloc_fresh p n esz _
    | inr hy => exact (ih _).mono (alloc_length p n esz _) y hy

theorem writeArr_length (p : Pool) (q : Ptr) (vs : List Int) : (writeArr p q vs).length = p.length := by
  unfold writeArr
  cases q with
  | null => rfl
  | «at» id off => simp only; split <;> simp

/-- releasing a list of base addresses never aborts when every counter covers the multiplicity in the list -/
theorem releaseAll_ok {l : List Ptr} {p : Pool} (hp : PoolPos p) (ha : AlignedL l)
    (hc : ∀ j, (idsOf l).count j ≤ count p j) : ∃ p', releaseAll p l = .ok p' := by
  induction l generalizing p with
  | nil => exact ⟨p, rfl⟩
  | cons q qs ih =>
    have hqs : AlignedL qs := fun x hx => ha x (List.mem_cons_of_mem _ hx)
    rcases ha q (List.mem_cons_self) with hq | ⟨id, hq⟩
    · subst hq
      unfold releaseAll
      simp only [release]
      exact ih hp hqs (fun j => by simpa [idsOf] using hc j)
    · subst hq
      have h1 : 1 ≤ count p id := by
        have := hc id; simp only [idsOf, List.count_cons_self] at this; omega
      cases hr : release p (.at id 0) with
      | error e =>
        exfalso
        unfold release at hr
        simp only [ne_eq, not_true_eq_false, if_false] at hr
        cases hg : get p id with
        | none => unfold count at h1; rw [hg] at h1; simp at h1
        | some c => rw [hg] at hr; simp only at hr; split at hr <;> cases hr
      | ok p1 =>
        unfold releaseAll
        rw [hr]
        simp only
        apply ih (posRelease hr hp) hqs
        intro j
        have h2 := (count_release hr hp j).2.2
        have h3 := hc j
        simp only [idsOf, List.count_cons] at h3
        by_cases hij : id = j
        · simp [hij] at h2 h3; omega
        · have : (id == j) = false := by simp [hij]
          simp [hij, this] at h2 h3; omega

theorem delta_copyArrs (l : List (Ptr × Ptr × Nat)) (p : Pool) (hp : PoolPos p) :
    Delta p (copyArrs p l) [] [] ∧ PoolPos (copyArrs p l) := by
  induction l generalizing p with
  | nil => exact ⟨Delta.refl p, hp⟩
  | cons x rest ih =>
    obtain ⟨d, q, n⟩ := x
    simp only [copyArrs]
    by_cases hdq : d = q
    · simp only [hdq, if_true]; exact ih p hp
    · simp only [hdq, if_false]
      obtain ⟨h1, h2⟩ := ih (writeArr p d (readArr p q n)) (pos_writeArr p d _ hp)
      refine ⟨?_, h2⟩
      intro j; have := h1 j; rw [count_writeArr] at this; exact this

end FeatModel.Pool
