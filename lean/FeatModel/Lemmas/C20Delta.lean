import FeatModel.Lemmas.C20Pool
/-! C20 helper lemmas, part 2: accounting of pool transitions (`Delta`) for lists of pointers and for the
    container-level operations: the counters change by exactly (+ new owner references − old owner references). -/
namespace FeatModel.Pool

/-- chunk ids a list of pointers refers to (with multiplicity) -/
def idsOf : List Ptr → List Nat
  | [] => []
  | .null :: r => idsOf r
  | .at id _ :: r => id :: idsOf r

theorem idsOf_append (a b : List Ptr) : idsOf (a ++ b) = idsOf a ++ idsOf b := by
  induction a with
  | nil => rfl
  | cons x r ih => cases x <;> simp [idsOf, ih]

/-- `p'` arises from `p` by adding one reference per element of `plus` and dropping one per element of `minus` -/
def Delta (p p' : Pool) (plus minus : List Nat) : Prop :=
  ∀ j, count p' j + minus.count j = count p j + plus.count j

theorem Delta.refl (p : Pool) : Delta p p [] [] := by intro j; simp

theorem Delta.trans {p p1 p2 : Pool} {a b c d : List Nat} (h1 : Delta p p1 a b) (h2 : Delta p1 p2 c d) :
    Delta p p2 (a ++ c) (b ++ d) := by
  intro j
  have := h1 j; have := h2 j
  simp only [List.count_append]; omega

theorem Delta.congr {p p' : Pool} {a b a' b' : List Nat} (h : Delta p p' a b)
    (ha : ∀ j, a.count j = a'.count j) (hb : ∀ j, b.count j = b'.count j) : Delta p p' a' b' := by
  intro j; have := h j; rw [← ha j, ← hb j]; exact this

theorem delta_releaseAll {l : List Ptr} {p p' : Pool} (h : releaseAll p l = .ok p') (hp : PoolPos p) :
    Delta p p' [] (idsOf l) ∧ PoolPos p' := by
  induction l generalizing p with
  | nil => unfold releaseAll at h; injection h with h; subst h; exact ⟨Delta.refl p, hp⟩
  | cons q qs ih =>
    unfold releaseAll at h
    cases hr : release p q with
    | error e => rw [hr] at h; cases h
    | ok p1 =>
      rw [hr] at h
      have hp1 := posRelease hr hp
      obtain ⟨hd, hpp⟩ := ih h hp1
      refine ⟨?_, hpp⟩
      cases q with
      | null =>
        unfold release at hr; injection hr with hr; subst hr
        simpa [idsOf] using hd
      | «at» id off =>
        intro j
        have h1 := (count_release hr hp j).2.2
        have h2 := hd j
        simp only [idsOf, List.count_cons, List.count_nil] at *
        by_cases hij : id = j
        · simp [hij] at *; omega
        · have : (id == j) = false := by simp [hij]
          simp [hij, this] at *; omega

theorem delta_incrAll {l : List Ptr} {p p' : Pool} (h : incrAll p l = .ok p') (hp : PoolPos p) :
    Delta p p' (idsOf l) [] ∧ PoolPos p' := by
  induction l generalizing p with
  | nil => unfold incrAll at h; injection h with h; subst h; exact ⟨Delta.refl p, hp⟩
  | cons q qs ih =>
    unfold incrAll at h
    cases hr : incr p q with
    | error e => rw [hr] at h; cases h
    | ok p1 =>
      rw [hr] at h
      have hp1 := posIncr hr hp
      obtain ⟨hd, hpp⟩ := ih h hp1
      refine ⟨?_, hpp⟩
      intro j
      rcases count_incr hr j with ⟨hq, hpe⟩ | ⟨id, hq, h1⟩
      · subst hq; subst hpe
        have h2 := hd j
        simpa [idsOf] using h2
      · subst hq
        have h2 := hd j
        simp only [idsOf, List.count_cons, List.count_nil] at *
        by_cases hij : id = j
        · simp [hij] at *; omega
        · have : (id == j) = false := by simp [hij]
          simp [hij, this] at *; omega

theorem delta_alloc (p : Pool) (n esz : Nat) (vals : List Int) :
    Delta p (alloc p n esz vals).1 (idsOf [(alloc p n esz vals).2]) [] := by
  intro j
  have h := count_alloc p n esz vals j
  rw [h]
  cases hq : (alloc p n esz vals).2 with
  | null => simp [idsOf]
  | «at» id off =>
    simp only [idsOf, List.count_cons, List.count_nil]
    by_cases hij : id = j
    · subst hij
      have : off = 0 := by
        unfold alloc at hq; split at hq
        · cases hq
        · injection hq with _ h2; exact h2.symm
      subst this; simp
    · have h1 : ¬ (Ptr.at id off = Ptr.at j 0) := by intro hh; injection hh with h1 _; exact hij h1
      have h2 : (id == j) = false := by simp [hij]
      simp [h1, h2]

theorem delta_allocAll {l : List (Ptr × Nat)} {p : Pool} (esz : Nat) (copy : Bool) (hp : PoolPos p) :
    Delta p (allocAll p esz copy l).1 (idsOf (allocAll p esz copy l).2) [] ∧ PoolPos (allocAll p esz copy l).1 := by
  induction l generalizing p with
  | nil => exact ⟨Delta.refl p, hp⟩
  | cons x rest ih =>
    obtain ⟨q, n⟩ := x
    simp only [allocAll]
    generalize hv : (if copy = true then readArr p q n else List.replicate n 0) = vals
    have hd1 := delta_alloc p n esz vals
    have hp1 := posAlloc p n esz vals hp
    obtain ⟨hd2, hp2⟩ := ih (p := (alloc p n esz vals).1) hp1
    refine ⟨?_, hp2⟩
    have := Delta.trans hd1 hd2
    refine this.congr ?_ (fun j => rfl)
    intro j
    cases hq : (alloc p n esz vals).2 <;> simp [idsOf, hq]

theorem count_writeArr (p : Pool) (q : Ptr) (vs : List Int) (j : Nat) : count (writeArr p q vs) j = count p j := by
  unfold writeArr
  cases q with
  | null => rfl
  | «at» id off =>
    simp only
    cases hg : get p id with
    | none => rfl
    | some c =>
      simp only
      by_cases hij : id = j
      · subst hij; unfold count; rw [get_set_self p id _ (get_lt hg), hg]
      · unfold count; rw [get_set_ne p id j _ hij]

theorem pos_writeArr (p : Pool) (q : Ptr) (vs : List Int) (hp : PoolPos p) : PoolPos (writeArr p q vs) := by
  unfold writeArr
  cases q with
  | null => exact hp
  | «at» id off =>
    simp only
    cases hg : get p id with
    | none => exact hp
    | some c =>
      simp only
      intro k c' hk
      by_cases hik : id = k
      · subst hik; rw [get_set_self p id _ (get_lt hg)] at hk
        injection hk with hk; subst hk; exact hp id c hg
      · rw [get_set_ne p id k _ hik] at hk; exact hp k c' hk

theorem delta_fillArrs (l : List (Ptr × Nat)) (p : Pool) (v : Int) (hp : PoolPos p) :
    Delta p (fillArrs p v l) [] [] ∧ PoolPos (fillArrs p v l) := by
  induction l generalizing p with
  | nil => exact ⟨Delta.refl p, hp⟩
  | cons x rest ih =>
    obtain ⟨q, n⟩ := x
    simp only [fillArrs]
    obtain ⟨h1, h2⟩ := ih (writeArr p q (iota v n)) (pos_writeArr p q _ hp)
    refine ⟨?_, h2⟩
    intro j; have := h1 j; rw [count_writeArr] at this; exact this

theorem delta_formatArrs (l : List (Ptr × Nat)) (p : Pool) (v : Int) (hp : PoolPos p) :
    Delta p (formatArrs p v l) [] [] ∧ PoolPos (formatArrs p v l) := by
  induction l generalizing p with
  | nil => exact ⟨Delta.refl p, hp⟩
  | cons x rest ih =>
    obtain ⟨q, n⟩ := x
    simp only [formatArrs]
    obtain ⟨h1, h2⟩ := ih (writeArr p q (List.replicate n v)) (pos_writeArr p q _ hp)
    refine ⟨?_, h2⟩
    intro j; have := h1 j; rw [count_writeArr] at this; exact this

end FeatModel.Pool
