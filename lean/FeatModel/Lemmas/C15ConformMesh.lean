import FeatModel.Model.FEConform
import FeatModel.Lemmas.C15Conform
import FeatModel.Lemmas.C15Hess
/-! H¹-conformity of Lagrange-1/2 on the cells of an arbitrary 2-D mesh. -/
namespace FeatModel.FE
open FeatModel.Poly

set_option maxRecDepth 100000 in
theorem conform_checks : ([Kind.S, Kind.H].all rowsCovered && conformKeys.all fun key => facetIdOk key.1 key.2) = true := by
  decide +kernel

/-- the value the model of the evaluator + DOF mapping (`interp` op, `feEval`) returns for the finite element function
    with global coefficient vector `u` at the reference point `x` of cell `c` -/
theorem feEval_value {f : Fam} {m : Mesh} {u : List Rat} {c : Nat} {x : List Rat} {tab : BasisTab}
    (ht : tabOf f m.kind m.dim = some tab) :
    (feEval f m u c x).map (fun r => r.2.1)
      = some (sumR ((List.range tab.nloc).map fun i =>
          u.getD ((localDofs f m c).getD i 0) 0 * evalAt x (tab.val ((slotPerm f m c).getD i i)))) := by
  simp only [feEval, evalCell, ht, Option.map_some, List.length_map, List.length_range]
  congr 2
  apply List.map_congr_left
  intro i hi
  have hi' := List.mem_range.mp hi
  simp [List.getD_eq_getElem?_getD, List.getElem?_map, List.getElem?_range hi']

theorem slotPerm_id {f : Fam} (hf : f ≠ Fam.L3) (m : Mesh) (c i : Nat) : (slotPerm f m c).getD i i = i := by
  simp only [slotPerm, slotPermOf, hf, ne_eq, not_false_eq_true, true_or, if_true]
  by_cases h : i < numLocal f m.kind m.dim
  · simp [List.getD_eq_getElem?_getD, List.getElem?_range h]
  · have hn : (List.range (numLocal f m.kind m.dim))[i]? = none := by
      apply List.getElem?_eq_none; simp; omega
    simp [List.getD_eq_getElem?_getD, hn]

theorem flatMap_range_one {α : Type} (l : List Nat) (g : Nat → Nat → α) :
    (l.flatMap fun e => [0].map fun j => g e j) = l.map fun e => g e 0 := by
  induction l with
  | nil => rfl
  | cons a l ih =>
    rw [List.flatMap_cons, ih]
    rfl

theorem getD_append_left' (A B : List Nat) (i : Nat) (h : i < A.length) : (A ++ B).getD i 0 = A.getD i 0 := by
  simp [List.getD_eq_getElem?_getD, List.getElem?_append_left h]

theorem getD_append_right' (A B : List Nat) (i : Nat) : (A ++ B).getD (A.length + i) 0 = B.getD i 0 := by
  simp [List.getD_eq_getElem?_getD, List.getElem?_append_right]

theorem getD_map' (A : List Nat) (g : Nat → Nat) (i : Nat) (h : i < A.length) : (A.map g).getD i 0 = g (A.getD i 0) := by
  simp [List.getD_eq_getElem?_getD, List.getElem?_map, List.getElem?_eq_getElem h]

/-- local-to-global map of a cell of a 2-D mesh for a family with one DOF per vertex: the vertex DOFs come first -/
theorem localDofs_vertex {f : Fam} {m : Mesh} {c : Nat} (hdim : m.dim = 2)
    (h0 : dpd f m 0 = 1) {i : Nat} (hi : i < (m.row 2 0 c).length) :
    (localDofs f m c).getD i 0 = entityDof f m 0 ((m.row 2 0 c).getD i 0) 0 := by
  simp only [localDofs, hdim, List.range_succ, List.range_zero, List.nil_append, List.cons_append,
    List.flatMap_cons, List.flatMap_nil, List.append_nil, h0, show (0 : Nat) ≠ 2 from by omega, if_false]
  rw [flatMap_range_one, getD_append_left' _ _ _ (by simpa using hi), getD_map' _ _ _ hi]

/-- … followed by the edge DOFs (families with one DOF per edge) -/
theorem localDofs_edge {f : Fam} {m : Mesh} {c : Nat} (hdim : m.dim = 2)
    (h0 : dpd f m 0 = 1) (h1 : dpd f m 1 = 1) {l : Nat} (hl : l < (m.row 2 1 c).length) :
    (localDofs f m c).getD ((m.row 2 0 c).length + l) 0 = entityDof f m 1 ((m.row 2 1 c).getD l 0) 0 := by
  simp only [localDofs, hdim, List.range_succ, List.range_zero, List.nil_append, List.cons_append,
    List.flatMap_cons, List.flatMap_nil, List.append_nil, h0, h1, show (0 : Nat) ≠ 2 from by omega,
    show (1 : Nat) ≠ 2 from by omega, if_false]
  rw [flatMap_range_one, flatMap_range_one]
  have hlen : (List.map (fun e => entityDof f m 0 e 0) (m.row 2 0 c)).length = (m.row 2 0 c).length := by simp
  rw [← hlen, getD_append_right', getD_append_left' _ _ _ (by simpa using hl), getD_map' _ _ _ hl]

/-- coefficient of functional `id` of edge `e` in the global vector `u`: the DOF of the edge's `id`-th vertex
    (`id = 0, 1`), the DOF of the edge itself (`id = 2`) – it only depends on the edge -/
def edgeCoef (f : Fam) (M : Mesh) (u : List Rat) (e id : Nat) : Rat :=
  if id < 2 then u.getD (entityDof f M 0 ((M.row 1 0 e).getD id 0) 0) 0 else u.getD (entityDof f M 1 e 0) 0

theorem sumR_eq_sum (l : List Rat) : sumR l = l.sum := by rw [sumR, foldl_add, zero_add]

/-- one-sided trace on an edge of a cell of an **arbitrary 2-D mesh** `M`: it only depends on the edge's own
    functionals (`edgeCoef`) and the edge's intrinsic coordinate -/
theorem one_sided_trace_mesh {f : Fam} {k : Kind} {tab : BasisTab} (ht : tabOf f k 2 = some tab)
    (hf : f ≠ Fam.L3) (hrows : rowsCovered k = true) (hfid : facetIdOk f k = true) (htr : traceAll2 f k = true)
    (M : Mesh) (hdim : M.dim = 2) (h0 : dpd f M 0 = 1) (h1 : (dofsPerDim f k 2).getD 1 0 = 1 → dpd f M 1 = 1)
    (hnl : tab.nloc ≤ 16) (u : List Rat) (c l : Nat) (hl : l < numFaces k 2 1) (π : List Nat) (hπ : π ∈ edgeSyms) (e : Nat)
    (hcv : (M.row 2 0 c).length = numVerts k 2) (hce : (M.row 2 1 c).length = numFaces k 2 1)
    (he : (M.row 2 1 c).getD l 0 = e)
    (hcons : ∀ id, id < 2 → (M.row 2 0 c).getD ((storedRow k 2 1 l π).getD id 0) 0 = (M.row 1 0 e).getD id 0)
    (s : List Rat) :
    sumR ((List.range tab.nloc).map fun i =>
        u.getD ((localDofs f M c).getD i 0) 0 * evalAt (embedPt' k 2 1 (storedRow k 2 1 l π) s) (tab.val i))
      = ((List.range (facetBasis f k 2).length).map fun id =>
          edgeCoef f M u e id * evalAt s ((facetBasis f k 2).getD id [])).sum := by
  simp only [rowsCovered, List.all_eq_true, List.mem_range, Bool.and_eq_true, beq_iff_eq, List.contains_iff_mem] at hrows
  obtain ⟨hmem, hrow⟩ := hrows l hl π hπ
  have hT : traceOk f k 2 (refMesh k 2 (orientFor k l π)) (storedRow k 2 1 l π) = true := by
    simp only [traceAll2, List.all_eq_true, List.mem_range] at htr
    have := htr _ hmem l hl
    rwa [hrow] at this
  -- the facet functional of every local DOF, from the finite check
  simp only [facetIdOk, List.all_eq_true, List.mem_range] at hfid
  have hspec := hfid l hl π hπ
  have hu : ∀ i, i < tab.nloc → ∀ id, facetId f k 2 (storedRow k 2 1 l π) i = some id →
      u.getD ((localDofs f M c).getD i 0) 0 = edgeCoef f M u e id := by
    intro i hi id hid
    have h := hspec i (by omega)
    simp only [hid, Bool.or_eq_true, Bool.and_eq_true, decide_eq_true_eq, beq_iff_eq] at h
    rcases h with ⟨⟨hlt, hieq⟩, hrv⟩ | ⟨⟨hid2, hieq⟩, hd1⟩
    · have hiv : i < (M.row 2 0 c).length := by rw [hcv, hieq]; exact hrv
      rw [localDofs_vertex hdim h0 hiv, hieq, hcons id hlt]
      simp [edgeCoef, hlt]
    · subst hid2
      have hle : l < (M.row 2 1 c).length := by rw [hce]; exact hl
      rw [hieq, ← hcv, localDofs_edge hdim h0 (h1 hd1) hle, he]
      simp [edgeCoef]
  have key := one_sided_trace ht hT (fun i => u.getD ((localDofs f M c).getD i 0) 0) (edgeCoef f M u e) hu s
  rw [sumR_eq_sum, ← key]
  congr 1
  apply List.map_congr_left
  intro i _
  simp only [slotPerm_id hf]

/-- how a cell `c` of a mesh sees one of its edges: local edge number `l`, the order `π` in which the edge stores the
    two vertices relative to the cell's local edge, and the consistency of the index sets -/
structure SeesEdge (k : Kind) (M : Mesh) (c l : Nat) (π : List Nat) (e : Nat) : Prop where
  hl : l < numFaces k 2 1
  hπ : π ∈ edgeSyms
  hcv : (M.row 2 0 c).length = numVerts k 2
  hce : (M.row 2 1 c).length = numFaces k 2 1
  he : (M.row 2 1 c).getD l 0 = e
  hcons : ∀ id, id < 2 → (M.row 2 0 c).getD ((storedRow k 2 1 l π).getD id 0) 0 = (M.row 1 0 e).getD id 0

/-- **H¹-conformity of Lagrange-1/2 on every 2-D mesh** (triangles and quadrilaterals, any vertex coordinates, any
    orientation of the two cells and of the edge): the finite element function with global coefficient vector `u`,
    evaluated by the model of the evaluator + DOF mapping (`feEval`, the `interp` op) in two cells `c₁`, `c₂` at the
    point of their common edge `e` with intrinsic coordinate `s`, has the same value from both sides. -/
theorem conformity_mesh_2d (key : Fam × Kind) (hkey : key ∈ conformKeys) (M : Mesh) (hk : M.kind = key.2)
    (hdim : M.dim = 2) (u : List Rat) (e c1 l1 c2 l2 : Nat) (π1 π2 : List Nat)
    (h1 : SeesEdge key.2 M c1 l1 π1 e) (h2 : SeesEdge key.2 M c2 l2 π2 e) (s : List Rat) :
    (feEval key.1 M u c1 (embedPt' key.2 2 1 (storedRow key.2 2 1 l1 π1) s)).map (fun r => r.2.1)
      = (feEval key.1 M u c2 (embedPt' key.2 2 1 (storedRow key.2 2 1 l2 π2) s)).map (fun r => r.2.1) := by
  have hc := conform_checks
  simp only [List.all_cons, List.all_nil, Bool.and_true, Bool.and_eq_true, conformKeys] at hc
  obtain ⟨⟨hrS, hrH⟩, hL1S, hL2S, hL1H, hL2H⟩ := hc
  obtain ⟨f, k⟩ := key
  simp only at hk h1 h2 ⊢
  have main : ∀ (tab : BasisTab), tabOf f k 2 = some tab → f ≠ Fam.L3 → rowsCovered k = true →
      facetIdOk f k = true → traceAll2 f k = true → dpd f M 0 = 1 →
      ((dofsPerDim f k 2).getD 1 0 = 1 → dpd f M 1 = 1) → tab.nloc ≤ 16 →
      (feEval f M u c1 (embedPt' k 2 1 (storedRow k 2 1 l1 π1) s)).map (fun r => r.2.1)
        = (feEval f M u c2 (embedPt' k 2 1 (storedRow k 2 1 l2 π2) s)).map (fun r => r.2.1) := by
    intro tab ht hf hr hfi htr h0 h1' hnl
    have ht' : tabOf f M.kind M.dim = some tab := by rw [hk, hdim]; exact ht
    rw [feEval_value ht', feEval_value ht']
    simp only [slotPerm_id hf]
    rw [one_sided_trace_mesh ht hf hr hfi htr M hdim h0 h1' hnl u c1 l1 h1.hl π1 h1.hπ e h1.hcv h1.hce h1.he h1.hcons s,
      one_sided_trace_mesh ht hf hr hfi htr M hdim h0 h1' hnl u c2 l2 h2.hl π2 h2.hπ e h2.hcv h2.hce h2.he h2.hcons s]
  have hd : ∀ d, dpd f M d = (dofsPerDim f k 2).getD d 0 := fun d => by simp [dpd, hk, hdim]
  simp only [conformKeys, List.mem_cons, List.not_mem_nil, or_false, Prod.mk.injEq] at hkey
  rcases hkey with ⟨rfl, rfl⟩ | ⟨rfl, rfl⟩ | ⟨rfl, rfl⟩ | ⟨rfl, rfl⟩
  · exact main _ rfl (by decide) hrS hL1S (traceAll2_of_key (key := (Fam.L1, Kind.S)) (by decide))
      (by rw [hd]; decide) (by intro h; rw [hd]; exact h) (by decide)
  · exact main _ rfl (by decide) hrS hL2S (traceAll2_of_key (key := (Fam.L2, Kind.S)) (by decide))
      (by rw [hd]; decide) (by intro h; rw [hd]; exact h) (by decide)
  · exact main _ rfl (by decide) hrH hL1H (traceAll2_of_key (key := (Fam.L1, Kind.H)) (by decide))
      (by rw [hd]; decide) (by intro h; rw [hd]; exact h) (by decide)
  · exact main _ rfl (by decide) hrH hL2H (traceAll2_of_key (key := (Fam.L2, Kind.H)) (by decide))
      (by rw [hd]; decide) (by intro h; rw [hd]; exact h) (by decide)

/-- … and both cells map that edge point to the same physical point `T_e(s)` of the edge (any cell geometry) -/
theorem edge_point_mesh (k : Kind) (M : Mesh) (hk : M.kind = k) (hdim : M.dim = 2) (w : Nat)
    (hU : ∀ v, (M.vertex v).length = w) (e c l : Nat) (π : List Nat) (h : SeesEdge k M c l π e)
    (hle : (M.row 1 0 e).length = 2) (s : List Rat) :
    mapPoint k 2 (M.entVerts 2 c) (embedPt' k 2 1 (storedRow k 2 1 l π) s) = mapPoint k 1 (M.entVerts 1 e) s := by
  have hπ : π ∈ shapeSyms k 1 := by
    have := h.hπ
    simp only [edgeSyms, List.mem_cons, List.not_mem_nil, or_false] at this
    cases k <;> simp [shapeSyms, this]
  have hst := shapeTrace_of_sym (k := k) (dim := 2) (d := 1) (l := l) (π := π) (Or.inr (Or.inl rfl))
    ⟨by omega, by omega⟩ h.hl hπ
  have hV : uniformV (M.entVerts 2 c) (numVerts k 2) w := by
    intro i hi
    have hi' : i < (M.row 2 0 c).length := by rw [h.hcv]; exact hi
    simp only [Mesh.entVerts, show (2 : Nat) ≠ 0 from by omega, if_false]
    rw [getD_map_lt _ M.vertex i 0 [] hi']
    exact hU _
  rw [embedding_lemma hst hV (numVerts_pos k 1) (numVerts_pos k 2) s]
  congr 1
  have hr2 := (shapeTrace_lt hst (numVerts_pos k 1)).2
  have hn1 : numVerts k 1 = 2 := by cases k <;> rfl
  rw [hn1] at hr2
  simp only [Mesh.entVerts, show (1 : Nat) ≠ 0 from by omega, show (2 : Nat) ≠ 0 from by omega, if_false]
  apply List.ext_getElem
  · simp [hr2, hle]
  · intro id h1 h2
    have hid : id < 2 := by simpa [hr2] using h1
    have hlt := (shapeTrace_lt hst (show id < numVerts k 1 by omega)).1
    simp only [List.getElem_map]
    have hrid : (storedRow k 2 1 l π)[id] = (storedRow k 2 1 l π).getD id 0 := by
      simp [List.getD_eq_getElem?_getD, List.getElem?_eq_getElem (show id < (storedRow k 2 1 l π).length by omega)]
    have heid : (M.row 1 0 e)[id] = (M.row 1 0 e).getD id 0 := by
      simp [List.getD_eq_getElem?_getD, List.getElem?_eq_getElem (show id < (M.row 1 0 e).length by omega)]
    rw [hrid, heid, ← h.hcons id hid]
    have : (storedRow k 2 1 l π).getD id 0 < (M.row 2 0 c).length := by rw [h.hcv]; exact hlt
    rw [getD_map_lt _ M.vertex _ 0 [] this]

end FeatModel.FE
