import FeatModel.Model.DA.Fence
/-
C17: the layered multi-threaded assembly protocol (`LCfg`): safety (two workers inside `scatter()` are
separated by a complete layer), mutual exclusion of `combine()`, and deadlock-freedom — for all interleavings.
-/
namespace FeatModel.DA

/-! ## the transition relation in explicit form -/

inductive LStep (c : LCfg) (s : LSt) : LSt → Prop
  | mopen : s.ph 0 = .front →
      LStep c s { s with fence := updB s.fence 0 true, ph := updP s.ph 0 .back }
  | join : s.ph 0 = .back → c.allDone s = true →
      LStep c s { s with ph := updP s.ph 0 .done }
  | wfront (t : Nat) : 1 ≤ t → t ≤ c.n → s.ph t = .front → s.fence 0 = true →
      LStep c s { s with ph := updP s.ph t (c.after t (s.pos t)) }
  | wwait (t : Nat) : 1 ≤ t → t ≤ c.n → s.ph t = .idle → c.waitAt t = some (s.pos t) →
      s.fence (t + 1) = true →
      LStep c s { s with ph := updP s.ph t .ready }
  | enterI (t : Nat) : 1 ≤ t → t ≤ c.n → s.ph t = .idle → c.waitAt t ≠ some (s.pos t) →
      LStep c s { s with ph := updP s.ph t .insc }
  | enterR (t : Nat) : 1 ≤ t → t ≤ c.n → s.ph t = .ready →
      LStep c s { s with ph := updP s.ph t .insc }
  | leaveO (t : Nat) : 1 ≤ t → t ≤ c.n → s.ph t = .insc → c.openAt t = some (s.pos t) →
      LStep c s { s with ph := updP s.ph t .toOpen }
  | leaveN (t : Nat) : 1 ≤ t → t ≤ c.n → s.ph t = .insc → c.openAt t ≠ some (s.pos t) →
      LStep c s { s with ph := updP s.ph t (c.after t (s.pos t + 1)), pos := upd s.pos t (s.pos t + 1) }
  | wopen (t : Nat) : 1 ≤ t → t ≤ c.n → s.ph t = .toOpen →
      LStep c s { s with fence := updB s.fence t true, ph := updP s.ph t (c.after t (s.pos t + 1)),
                         pos := upd s.pos t (s.pos t + 1) }
  | center (t : Nat) : 1 ≤ t → t ≤ c.n → s.ph t = .preComb → s.mutex = false →
      LStep c s { s with ph := updP s.ph t .inComb, mutex := true }
  | cleave (t : Nat) : 1 ≤ t → t ≤ c.n → s.ph t = .inComb →
      LStep c s { s with ph := updP s.ph t .done, mutex := false }

theorem step_parts {c : LCfg} {s s' : LSt} {e : Ev} (h : c.step s e = some s') :
    c.next s e.thread = some e ∧ c.enabled s e = true ∧ s' = c.apply s e := by
  unfold LCfg.step at h
  split at h
  · next hc => exact ⟨hc.1, hc.2, by injection h with h; exact h.symm⟩
  · cases h

theorem next_zero {c : LCfg} {s : LSt} {e : Ev} (h : c.next s 0 = some e) :
    (s.ph 0 = .front ∧ e = .fopen 0 0) ∨ (s.ph 0 = .back ∧ e = .join) := by
  unfold LCfg.next at h
  simp only [if_true] at h
  split at h <;> simp_all

theorem next_worker {c : LCfg} {s : LSt} {t : Nat} {e : Ev} (ht : t ≠ 0) (h : c.next s t = some e) :
    t ≤ c.n ∧
    ((s.ph t = .front ∧ e = .fwait t 0) ∨
     (s.ph t = .idle ∧ c.waitAt t = some (s.pos t) ∧ e = .fwait t (t + 1)) ∨
     (s.ph t = .idle ∧ c.waitAt t ≠ some (s.pos t) ∧ e = .enter t (c.cell (s.pos t))) ∨
     (s.ph t = .ready ∧ e = .enter t (c.cell (s.pos t))) ∨
     (s.ph t = .insc ∧ e = .leave t (c.cell (s.pos t))) ∨
     (s.ph t = .toOpen ∧ e = .fopen t t) ∨
     (s.ph t = .preComb ∧ e = .center t) ∨
     (s.ph t = .inComb ∧ e = .cleave t)) := by
  unfold LCfg.next at h
  rw [if_neg ht] at h
  by_cases hn : c.n < t
  · rw [if_pos hn] at h; cases h
  · rw [if_neg hn] at h
    refine ⟨by omega, ?_⟩
    split at h
    · simp_all
    · by_cases hw : c.waitAt t = some (s.pos t)
      · rw [if_pos hw] at h; simp_all
      · rw [if_neg hw] at h; simp_all
    all_goals simp_all

theorem step_LStep {c : LCfg} {s s' : LSt} {e : Ev} (h : c.step s e = some s') : LStep c s s' := by
  obtain ⟨hn, hen, rfl⟩ := step_parts h
  by_cases ht : e.thread = 0
  · rw [ht] at hn
    rcases next_zero hn with ⟨hp, rfl⟩ | ⟨hp, rfl⟩
    · simpa [LCfg.apply] using LStep.mopen hp
    · simpa [LCfg.apply] using LStep.join hp (by simpa [LCfg.enabled] using hen)
  · generalize hteq : e.thread = t at hn ht
    obtain ⟨hle, hcases⟩ := next_worker ht hn
    have h1 : 1 ≤ t := by omega
    rcases hcases with ⟨hp, rfl⟩ | ⟨hp, hw, rfl⟩ | ⟨hp, hw, rfl⟩ | ⟨hp, rfl⟩ | ⟨hp, rfl⟩ | ⟨hp, rfl⟩ |
      ⟨hp, rfl⟩ | ⟨hp, rfl⟩
    · simpa [LCfg.apply] using LStep.wfront _ h1 hle hp (by simpa [LCfg.enabled] using hen)
    · simpa [LCfg.apply] using LStep.wwait _ h1 hle hp hw (by simpa [LCfg.enabled] using hen)
    · simpa [LCfg.apply] using LStep.enterI _ h1 hle hp hw
    · simpa [LCfg.apply] using LStep.enterR _ h1 hle hp
    · by_cases ho : c.openAt t = some (s.pos t)
      · simpa [LCfg.apply, ho] using LStep.leaveO _ h1 hle hp ho
      · simpa [LCfg.apply, ho] using LStep.leaveN _ h1 hle hp ho
    · simpa [LCfg.apply, ht] using LStep.wopen _ h1 hle hp
    · simpa [LCfg.apply] using LStep.center _ h1 hle hp (by simpa [LCfg.enabled] using hen)
    · simpa [LCfg.apply] using LStep.cleave _ h1 hle hp

theorem reach_induct {c : LCfg} {P : LSt → Prop} (h0 : P c.init)
    (hstep : ∀ s s', P s → LStep c s s' → P s') : ∀ s, c.Reach s → P s := by
  intro s hs
  induction hs with
  | init => exact h0
  | step e _ h ih => exact hstep _ _ ih (step_LStep h)

theorem after_cases (c : LCfg) (w p : Nat) :
    (c.after w p = .idle ∧ p < c.fin w) ∨ (c.after w p = .preComb ∧ c.fin w ≤ p) ∨
    (c.after w p = .done ∧ c.fin w ≤ p) := by
  unfold LCfg.after
  by_cases h1 : p < c.fin w
  · simp [h1]
  · by_cases h2 : c.comb = true
    · simp [h1, h2]; omega
    · simp [h1, h2]; omega

/-! ## mutual exclusion of `combine()` -/

structure MInv (s : LSt) : Prop where
  m1 : ∀ a, s.ph a = .inComb → s.mutex = true
  m2 : ∀ a b, s.ph a = .inComb → s.ph b = .inComb → a = b

theorem MInv_init (c : LCfg) : MInv c.init := by
  constructor <;> simp [LCfg.init]

theorem MInv_step {c : LCfg} {s s' : LSt} (hi : MInv s) (hst : LStep c s s') : MInv s' := by
  obtain ⟨m1, m2⟩ := hi
  cases hst
  all_goals
    constructor
    · intro a
      simp only [updP]
      grind [after_cases]
    · intro a b
      simp only [updP]
      grind [after_cases]

theorem layered_combine_mutex (c : LCfg) (s : LSt) (hs : c.Reach s)
    (a b : Nat) (ha : 1 ≤ a ∧ a ≤ c.n) (hb : 1 ≤ b ∧ b ≤ c.n)
    (hA : s.ph a = .inComb) (hB : s.ph b = .inComb) : a = b :=
  have _ := ha
  have _ := hb
  (reach_induct (MInv_init c) (fun _ _ hi hst => MInv_step hi hst) s hs).m2 a b hA hB

/-! ## the main invariant -/

set_option linter.unusedSimpArgs false

/-- what the proofs need to know about the constants -/
structure LWF (c : LCfg) : Prop where
  open_ge : ∀ w q, 1 ≤ w → w ≤ c.n → c.openAt w = some q → c.beg w ≤ q
  wait_lt : ∀ w p, 1 ≤ w → w ≤ c.n → c.waitAt w = some p → w < c.n
  wait_ge : ∀ w p, 1 ≤ w → w ≤ c.n → c.waitAt w = some p → c.beg w ≤ p
  open_ex : ∀ w, 1 < w → w ≤ c.n → ∃ q, c.openAt w = some q ∧ q < c.fin w

structure LInv (c : LCfg) (s : LSt) : Prop where
  posA : ∀ w, 1 ≤ w → w ≤ c.n → c.beg w ≤ s.pos w
  actB : ∀ w, 1 ≤ w → w ≤ c.n →
    (s.ph w = .idle ∨ s.ph w = .ready ∨ s.ph w = .insc ∨ s.ph w = .toOpen) → s.pos w < c.fin w
  finC : ∀ w, 1 ≤ w → w ≤ c.n →
    (s.ph w = .preComb ∨ s.ph w = .inComb ∨ s.ph w = .done) → c.fin w ≤ s.pos w
  waitE : ∀ w p, 1 ≤ w → w ≤ c.n → c.waitAt w = some p →
    (p < s.pos w ∨ (p = s.pos w ∧ (s.ph w = .ready ∨ s.ph w = .insc ∨ s.ph w = .toOpen))) →
    s.fence (w + 1) = true
  openF : ∀ w q, 1 ≤ w → w ≤ c.n → c.openAt w = some q → (s.fence w = true ↔ q < s.pos w)
  toOpG : ∀ w, 1 ≤ w → w ≤ c.n → s.ph w = .toOpen → c.openAt w = some (s.pos w)
  mastH : s.ph 0 ≠ .front → s.fence 0 = true
  mastI : s.ph 0 = .front ∨ s.ph 0 = .back ∨ s.ph 0 = .done
  phJ : ∀ w, 1 ≤ w → w ≤ c.n → s.ph w ≠ .back ∧ s.ph w ≠ .toOpen2
  mutK : s.mutex = true → ∃ v, 1 ≤ v ∧ v ≤ c.n ∧ s.ph v = .inComb

theorem LInv_init {c : LCfg} (wf : LWF c) : LInv c c.init := by
  constructor <;> simp [LCfg.init]
  · intro w p h1 h2 h3; have := wf.wait_ge w p h1 h2 h3; omega
  · exact wf.open_ge

theorem LInv_step_posA {c : LCfg} {s s' : LSt} (hi : LInv c s) (hst : LStep c s s') :
    ∀ w, 1 ≤ w → w ≤ c.n → c.beg w ≤ s'.pos w := by
  obtain ⟨posA, actB, finC, waitE, openF, toOpG, mastH, mastI, phJ, mutK⟩ := hi
  cases hst
  all_goals
    simp only [updP, upd, updB]
    grind [after_cases]

theorem LInv_step_actB {c : LCfg} {s s' : LSt} (hi : LInv c s) (hst : LStep c s s') :
    ∀ w, 1 ≤ w → w ≤ c.n →
    (s'.ph w = .idle ∨ s'.ph w = .ready ∨ s'.ph w = .insc ∨ s'.ph w = .toOpen) → s'.pos w < c.fin w := by
  obtain ⟨posA, actB, finC, waitE, openF, toOpG, mastH, mastI, phJ, mutK⟩ := hi
  cases hst
  all_goals
    simp only [updP, upd, updB]
    grind [after_cases]

theorem LInv_step_finC {c : LCfg} {s s' : LSt} (hi : LInv c s) (hst : LStep c s s') :
    ∀ w, 1 ≤ w → w ≤ c.n →
    (s'.ph w = .preComb ∨ s'.ph w = .inComb ∨ s'.ph w = .done) → c.fin w ≤ s'.pos w := by
  obtain ⟨posA, actB, finC, waitE, openF, toOpG, mastH, mastI, phJ, mutK⟩ := hi
  cases hst
  all_goals
    simp only [updP, upd, updB]
    grind [after_cases]

theorem LInv_step_waitE {c : LCfg} {s s' : LSt} (hi : LInv c s) (hst : LStep c s s') :
    ∀ w p, 1 ≤ w → w ≤ c.n → c.waitAt w = some p →
    (p < s'.pos w ∨ (p = s'.pos w ∧ (s'.ph w = .ready ∨ s'.ph w = .insc ∨ s'.ph w = .toOpen))) →
    s'.fence (w + 1) = true := by
  obtain ⟨posA, actB, finC, waitE, openF, toOpG, mastH, mastI, phJ, mutK⟩ := hi
  cases hst
  all_goals
    simp only [updP, upd, updB]
    grind [after_cases]

theorem LInv_step_openF {c : LCfg} {s s' : LSt} (hi : LInv c s) (hst : LStep c s s') :
    ∀ w q, 1 ≤ w → w ≤ c.n → c.openAt w = some q → (s'.fence w = true ↔ q < s'.pos w) := by
  obtain ⟨posA, actB, finC, waitE, openF, toOpG, mastH, mastI, phJ, mutK⟩ := hi
  cases hst
  all_goals
    simp only [updP, upd, updB]
    grind [after_cases]

theorem LInv_step_toOpG {c : LCfg} {s s' : LSt} (hi : LInv c s) (hst : LStep c s s') :
    ∀ w, 1 ≤ w → w ≤ c.n → s'.ph w = .toOpen → c.openAt w = some (s'.pos w) := by
  obtain ⟨posA, actB, finC, waitE, openF, toOpG, mastH, mastI, phJ, mutK⟩ := hi
  cases hst
  all_goals
    simp only [updP, upd, updB]
    grind [after_cases]

theorem LInv_step_mastH {c : LCfg} {s s' : LSt} (hi : LInv c s) (hst : LStep c s s') :
    s'.ph 0 ≠ .front → s'.fence 0 = true := by
  obtain ⟨posA, actB, finC, waitE, openF, toOpG, mastH, mastI, phJ, mutK⟩ := hi
  cases hst
  all_goals
    simp only [updP, upd, updB]
    grind [after_cases]

theorem LInv_step_mastI {c : LCfg} {s s' : LSt} (hi : LInv c s) (hst : LStep c s s') :
    s'.ph 0 = .front ∨ s'.ph 0 = .back ∨ s'.ph 0 = .done := by
  obtain ⟨posA, actB, finC, waitE, openF, toOpG, mastH, mastI, phJ, mutK⟩ := hi
  cases hst
  all_goals
    simp only [updP, upd, updB]
    grind [after_cases]

theorem LInv_step_phJ {c : LCfg} {s s' : LSt} (hi : LInv c s) (hst : LStep c s s') :
    ∀ w, 1 ≤ w → w ≤ c.n → s'.ph w ≠ .back ∧ s'.ph w ≠ .toOpen2 := by
  obtain ⟨posA, actB, finC, waitE, openF, toOpG, mastH, mastI, phJ, mutK⟩ := hi
  cases hst
  all_goals
    simp only [updP, upd, updB]
    grind [after_cases]

theorem LInv_step_mutK {c : LCfg} {s s' : LSt} (hi : LInv c s) (hst : LStep c s s') :
    s'.mutex = true → ∃ v, 1 ≤ v ∧ v ≤ c.n ∧ s'.ph v = .inComb := by
  obtain ⟨posA, actB, finC, waitE, openF, toOpG, mastH, mastI, phJ, mutK⟩ := hi
  cases hst
  all_goals
    simp only [updP, upd, updB]
    grind [after_cases]

theorem LInv_step {c : LCfg} {s s' : LSt} (hi : LInv c s) (hst : LStep c s s') : LInv c s' :=
  ⟨LInv_step_posA hi hst, LInv_step_actB hi hst, LInv_step_finC hi hst, LInv_step_waitE hi hst,
   LInv_step_openF hi hst, LInv_step_toOpG hi hst, LInv_step_mastH hi hst, LInv_step_mastI hi hst,
   LInv_step_phJ hi hst, LInv_step_mutK hi hst⟩

theorem LInv_reach {c : LCfg} (wf : LWF c) {s : LSt} (hs : c.Reach s) : LInv c s :=
  reach_induct (LInv_init wf) (fun _ _ hi hst => LInv_step hi hst) s hs

/-! ## the constants of `_work_layered` are well-formed -/

theorem tl_mono {n : Nat} {tl : Nat → Nat} (htl : ∀ i, i < n → tl i + 2 ≤ tl (i + 1)) :
    ∀ d i, i + d ≤ n → tl i + 2 * d ≤ tl (i + d) := by
  intro d
  induction d with
  | zero => intro i _; simp
  | succ d ih =>
    intro i h
    have h1 := ih i (by omega)
    have h2 := htl (i + d) (by omega)
    have : i + (d + 1) = i + d + 1 := by omega
    rw [this]; omega

theorem tl_mono' {n : Nat} {tl : Nat → Nat} (htl : ∀ i, i < n → tl i + 2 ≤ tl (i + 1))
    (i j : Nat) (hij : i ≤ j) (hj : j ≤ n) : tl i + 2 * (j - i) ≤ tl j := by
  have := tl_mono htl (j - i) i (by omega)
  have e : i + (j - i) = j := by omega
  rw [e] at this; exact this

theorem tl_le {n : Nat} {tl : Nat → Nat} (htl : ∀ i, i < n → tl i + 2 ≤ tl (i + 1))
    (w : Nat) (hw : w ≤ n) : tl w ≤ tl n := by
  have := tl_mono' htl w n hw (Nat.le_refl _)
  omega

theorem le_mono {le : Nat → Nat} {m : Nat} (hle : ∀ i j, i < j → j ≤ m → le i < le j) (i j : Nat)
    (hij : i ≤ j) (hj : j ≤ m) : le i ≤ le j := by
  by_cases h : i = j
  · subst h; exact Nat.le_refl _
  · exact Nat.le_of_lt (hle i j (by omega) hj)

theorem ofFns_wf (n : Nat) (le tl cell : Nat → Nat) (comb : Bool)
    (hle : ∀ i j, i < j → j ≤ tl n → le i < le j)
    (htl : ∀ i, i < n → tl i + 2 ≤ tl (i + 1)) : LWF (LCfg.ofFns n le tl cell comb) := by
  constructor
  · intro w q h1 h2 h
    simp only [LCfg.ofFns] at h h2 ⊢
    split at h
    · injection h with h
      have h3 := htl (w - 1) (by omega)
      have e : w - 1 + 1 = w := by omega
      rw [e] at h3
      have h4 := tl_le htl w h2
      have := hle (tl (w - 1)) (tl (w - 1) + 1) (by omega) (by omega)
      omega
    · cases h
  · intro w p h1 h2 h
    simp only [LCfg.ofFns] at h h2 ⊢
    split at h
    · assumption
    · cases h
  · intro w p h1 h2 h
    simp only [LCfg.ofFns] at h h2 ⊢
    split at h
    · injection h with h
      have h3 := htl (w - 1) (by omega)
      have e : w - 1 + 1 = w := by omega
      rw [e] at h3
      have h4 := tl_le htl w h2
      have := le_mono hle (tl (w - 1)) (tl w - 1) (by omega) (by omega)
      omega
    · cases h
  · intro w h1 h2
    simp only [LCfg.ofFns] at h2 ⊢
    refine ⟨le (tl (w - 1) + 1) - 1, by simp [h1], ?_⟩
    have h3 := htl (w - 1) (by omega)
    have e : w - 1 + 1 = w := by omega
    rw [e] at h3
    have := hle (tl (w - 1) + 1) (tl w) (by omega) (tl_le htl w h2)
    omega

/-! ## safety -/

/-- like layered_safe, but the separating layer is a real layer: l + 1 ≤ tl n -/
theorem layered_safe_bounded (n : Nat) (le tl cell : Nat → Nat) (comb : Bool)
    (hle : ∀ i j, i < j → j ≤ tl n → le i < le j)
    (htl : ∀ i, i < n → tl i + 2 ≤ tl (i + 1))
    (s : LSt) (hs : (LCfg.ofFns n le tl cell comb).Reach s)
    (a b : Nat) (ha : 1 ≤ a) (hab : a < b) (hb : b ≤ n)
    (hA : s.ph a = .insc) (hB : s.ph b = .insc) :
    ∃ l, l + 1 ≤ tl n ∧ s.pos a < le l ∧ le (l + 1) ≤ s.pos b := by
  have _ := hB
  have inv := LInv_reach (ofFns_wf n le tl cell comb hle htl) hs
  have hpa : s.pos a < le (tl a) := inv.actB a ha (by simp [LCfg.ofFns]; omega) (by simp [hA])
  have hpb : le (tl (b - 1)) ≤ s.pos b := inv.posA b (by omega) (by simpa [LCfg.ofFns] using hb)
  have htla : tl (a - 1) + 2 ≤ tl a := by
    have := htl (a - 1) (by omega)
    have e : a - 1 + 1 = a := by omega
    rw [e] at this; exact this
  have htan : tl a ≤ tl n := tl_le htl a (by omega)
  have hta1 : tl a + 2 ≤ tl (a + 1) := htl a (by omega)
  have hta1n : tl (a + 1) ≤ tl n := tl_le htl (a + 1) (by omega)
  by_cases hadj : b = a + 1
  · subst hadj
    have e1 : a + 1 - 1 = a := by omega
    rw [e1] at hpb
    by_cases hw : s.pos a < le (tl a - 1)
    · refine ⟨tl a - 1, by omega, hw, ?_⟩
      have e : tl a - 1 + 1 = tl a := by omega
      rw [e]; exact hpb
    · have hf : s.fence (a + 1) = true :=
        inv.waitE a (le (tl a - 1)) ha (by simp [LCfg.ofFns]; omega)
          (by simp [LCfg.ofFns]; omega) (by rw [hA]; simp; omega)
      have ho := (inv.openF (a + 1) (le (tl a + 1) - 1) (by omega) (by simpa [LCfg.ofFns] using hb)
        (by simp [LCfg.ofFns]; omega)).1 hf
      exact ⟨tl a, by omega, hpa, by omega⟩
  · refine ⟨tl a, by omega, hpa, ?_⟩
    have h1 := tl_mono' htl (a + 1) (b - 1) (by omega) (by omega)
    have := le_mono hle (tl a + 1) (tl (b - 1)) (by omega) (tl_le htl (b - 1) (by omega))
    omega

/-- two workers that are inside scatter() at the same time are separated by a complete layer
    (so their layers are at least 2 apart) — for all interleavings -/
theorem layered_safe (n : Nat) (le tl cell : Nat → Nat) (comb : Bool)
    (hle : ∀ i j, i < j → j ≤ tl n → le i < le j)
    (htl : ∀ i, i < n → tl i + 2 ≤ tl (i + 1))
    (s : LSt) (hs : (LCfg.ofFns n le tl cell comb).Reach s)
    (a b : Nat) (ha : 1 ≤ a) (hab : a < b) (hb : b ≤ n)
    (hA : s.ph a = .insc) (hB : s.ph b = .insc) :
    ∃ l, s.pos a < le l ∧ le (l + 1) ≤ s.pos b := by
  obtain ⟨l, _, h1, h2⟩ := layered_safe_bounded n le tl cell comb hle htl s hs a b ha hab hb hA hB
  exact ⟨l, h1, h2⟩

/-- a worker inside scatter is at a position of its own range, in particular below the total -/
theorem layered_insc_pos_lt (n : Nat) (le tl cell : Nat → Nat) (comb : Bool)
    (hle : ∀ i j, i < j → j ≤ tl n → le i < le j)
    (htl : ∀ i, i < n → tl i + 2 ≤ tl (i + 1))
    (s : LSt) (hs : (LCfg.ofFns n le tl cell comb).Reach s)
    (w : Nat) (hw1 : 1 ≤ w) (hwn : w ≤ n) (hW : s.ph w = .insc) :
    s.pos w < le (tl n) := by
  have inv := LInv_reach (ofFns_wf n le tl cell comb hle htl) hs
  have hp : s.pos w < le (tl w) := inv.actB w hw1 (by simpa [LCfg.ofFns] using hwn) (by simp [hW])
  have := le_mono hle (tl w) (tl n) (tl_le htl w hwn) (Nat.le_refl _)
  omega

/-! ## deadlock-freedom -/

theorem allDone_iff (c : LCfg) (s : LSt) :
    c.allDone s = true ↔ ∀ w, 1 ≤ w → w ≤ c.n → s.ph w = .done := by
  simp only [LCfg.allDone, List.all_eq_true, List.mem_range, beq_iff_eq]
  constructor
  · intro h w h1 h2
    have := h (w - 1) (by omega)
    have e : w - 1 + 1 = w := by omega
    rw [e] at this; exact this
  · intro h k hk
    exact h (k + 1) (by omega) (by omega)

theorem step_of {c : LCfg} {s : LSt} (e : Ev) (hn : c.next s e.thread = some e)
    (hen : c.enabled s e = true) : ∃ e s', c.step s e = some s' :=
  ⟨e, c.apply s e, by simp [LCfg.step, hn, hen]⟩

/-- the largest worker that is not done can move, or a worker inside `combine()` can -/
theorem worker_step {c : LCfg} {s : LSt} (wf : LWF c) (inv : LInv c s) (h0 : s.fence 0 = true)
    (w : Nat) (h1 : 1 ≤ w) (h2 : w ≤ c.n) (hnd : s.ph w ≠ .done)
    (hlater : ∀ v, w < v → v ≤ c.n → s.ph v = .done) : ∃ e s', c.step s e = some s' := by
  have hw0 : w ≠ 0 := by omega
  have hwn : ¬ c.n < w := by omega
  cases h : s.ph w with
  | front =>
    exact step_of (c := c) (s := s) (.fwait w 0) (by simp [LCfg.next, Ev.thread, h, hw0, hwn]) (by simpa [LCfg.enabled] using h0)
  | idle =>
    by_cases hwt : c.waitAt w = some (s.pos w)
    · refine step_of (c := c) (s := s) (.fwait w (w + 1)) (by simp [LCfg.next, Ev.thread, h, hw0, hwn, hwt]) ?_
      have hlt := wf.wait_lt w _ h1 h2 hwt
      obtain ⟨q, hq, hqf⟩ := wf.open_ex (w + 1) (by omega) (by omega)
      have hd := hlater (w + 1) (by omega) (by omega)
      have hfin := inv.finC (w + 1) (by omega) (by omega) (by simp [hd])
      have := (inv.openF (w + 1) q (by omega) (by omega) hq).2 (by omega)
      simpa [LCfg.enabled] using this
    · exact step_of (c := c) (s := s) (.enter w (c.cell (s.pos w))) (by simp [LCfg.next, Ev.thread, h, hw0, hwn, hwt])
        (by simp [LCfg.enabled])
  | ready =>
    exact step_of (c := c) (s := s) (.enter w (c.cell (s.pos w))) (by simp [LCfg.next, Ev.thread, h, hw0, hwn])
        (by simp [LCfg.enabled])
  | insc =>
    exact step_of (c := c) (s := s) (.leave w (c.cell (s.pos w))) (by simp [LCfg.next, Ev.thread, h, hw0, hwn])
        (by simp [LCfg.enabled])
  | toOpen =>
    exact step_of (c := c) (s := s) (.fopen w w) (by simp [LCfg.next, Ev.thread, h, hw0, hwn])
        (by simp [LCfg.enabled])
  | back => exact absurd h (inv.phJ w h1 h2).1
  | toOpen2 => exact absurd h (inv.phJ w h1 h2).2
  | preComb =>
    by_cases hm : s.mutex = true
    · obtain ⟨v, hv1, hv2, hv⟩ := inv.mutK hm
      exact step_of (c := c) (s := s) (.cleave v)
        (by simp [LCfg.next, Ev.thread, hv, show v ≠ 0 by omega, show ¬ c.n < v by omega])
        (by simp [LCfg.enabled])
    · exact step_of (c := c) (s := s) (.center w) (by simp [LCfg.next, Ev.thread, h, hw0, hwn])
        (by simpa [LCfg.enabled] using hm)
  | inComb =>
    exact step_of (c := c) (s := s) (.cleave w) (by simp [LCfg.next, Ev.thread, h, hw0, hwn])
        (by simp [LCfg.enabled])
  | done => exact absurd h hnd

theorem workers_step {c : LCfg} {s : LSt} (wf : LWF c) (inv : LInv c s) (h0 : s.fence 0 = true) :
    ∀ k, k ≤ c.n → (∀ v, k < v → v ≤ c.n → s.ph v = .done) →
      (∃ e s', c.step s e = some s') ∨ (∀ w, 1 ≤ w → w ≤ c.n → s.ph w = .done) := by
  intro k
  induction k with
  | zero => intro _ h; exact Or.inr (fun w h1 h2 => h w (by omega) h2)
  | succ k ih =>
    intro hk h
    by_cases hd : s.ph (k + 1) = .done
    · refine ih (by omega) (fun v hv1 hv2 => ?_)
      by_cases e : v = k + 1
      · subst e; exact hd
      · exact h v (by omega) hv2
    · exact Or.inl (worker_step wf inv h0 (k + 1) (by omega) hk hd h)

/-- no deadlock: every reachable non-final state has an enabled transition -/
theorem layered_no_deadlock (n : Nat) (le tl cell : Nat → Nat) (comb : Bool)
    (hle : ∀ i j, i < j → j ≤ tl n → le i < le j)
    (htl : ∀ i, i < n → tl i + 2 ≤ tl (i + 1))
    (s : LSt) (hs : (LCfg.ofFns n le tl cell comb).Reach s) (hf : LCfg.final s = false) :
    ∃ e s', (LCfg.ofFns n le tl cell comb).step s e = some s' := by
  have wf := ofFns_wf n le tl cell comb hle htl
  have inv := LInv_reach wf hs
  generalize LCfg.ofFns n le tl cell comb = c at *
  have hnd : s.ph 0 ≠ .done := by simpa [LCfg.final] using hf
  rcases inv.mastI with h | h | h
  · exact step_of (c := c) (s := s) (.fopen 0 0) (by simp [LCfg.next, Ev.thread, h]) (by simp [LCfg.enabled])
  · have h0 : s.fence 0 = true := inv.mastH (by simp [h])
    rcases workers_step wf inv h0 c.n (Nat.le_refl _) (fun v h1 h2 => by omega) with hst | hall
    · exact hst
    · exact step_of (c := c) (s := s) .join (by simp [LCfg.next, Ev.thread, h])
        (by simpa [LCfg.enabled] using (allDone_iff c s).2 hall)
  · exact absurd h hnd

end FeatModel.DA
