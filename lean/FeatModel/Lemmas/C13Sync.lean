/-
Helper lemmas for C13 (distributed vector synchronisation): pointwise meaning of a scatter,
independence of the arrival order.
-/
import Mathlib.Tactic.Ring
import Mathlib.Tactic.Linarith
import Mathlib.Algebra.BigOperators.Group.List.Basic
import Mathlib.Algebra.Field.Basic
import FeatModel.Model.Dist
open FeatModel.Dist

namespace FeatModel.C13L

variable {α : Type} [Field α]

theorem val_eq_getElem (v : List α) (i : Nat) (hi : i < v.length) : val v i = v[i] := by
  simp [val, List.getD_eq_getElem?_getD, hi]

theorem val_modify (v : List α) (k : Nat) (f : α → α) (i : Nat) (hi : i < v.length) :
    val (v.modify k f) i = if k = i then f (val v i) else val v i := by
  rw [val_eq_getElem _ _ (by simpa using hi), val_eq_getElem _ _ hi, List.getElem_modify]

/-- the generic fold behind `scatterAxpy` -/
theorem foldl_modify_length (l : List (Nat × α)) (a : α) (v : List α) :
    (l.foldl (fun w p => w.modify p.1 (fun x => x + a * p.2)) v).length = v.length := by
  induction l generalizing v with
  | nil => rfl
  | cons p l ih => simp [List.foldl_cons, ih]

theorem foldl_modify_val (l : List (Nat × α)) (a : α) (v : List α) (i : Nat) (hi : i < v.length) :
    val (l.foldl (fun w p => w.modify p.1 (fun x => x + a * p.2)) v) i
      = val v i + ((l.filter (fun p => p.1 = i)).map (fun p => a * p.2)).sum := by
  induction l generalizing v with
  | nil => simp
  | cons p l ih =>
    rw [List.foldl_cons, ih _ (by simpa using hi), val_modify _ _ _ _ hi, List.filter_cons]
    by_cases h : p.1 = i
    · simp [h, add_assoc]
    · simp [h]

/-- what one scatter adds to entry `i` -/
def contrib (mir : List Nat) (buf : List α) (a : α) (i : Nat) : α :=
  (((mir.zip buf).filter (fun p => p.1 = i)).map (fun p => a * p.2)).sum

theorem scatterAxpy_length (v : List α) (mir : List Nat) (buf : List α) (a : α) :
    (scatterAxpy v mir buf a).length = v.length := foldl_modify_length _ _ _

theorem scatterAxpy_val (v : List α) (mir : List Nat) (buf : List α) (a : α) (i : Nat) (hi : i < v.length) :
    val (scatterAxpy v mir buf a) i = val v i + contrib mir buf a i := foldl_modify_val _ _ _ _ hi

theorem ext_val {v w : List α} (hl : v.length = w.length) (h : ∀ i, i < v.length → val v i = val w i) : v = w := by
  apply List.ext_getElem hl
  intro i h1 h2
  rw [← val_eq_getElem, ← val_eq_getElem]; exact h i h1

/-- fold of scatters over a list of messages -/
theorem foldl_scatter_length {ι : Type} (ms : List ι) (mir : ι → List Nat) (buf : ι → List α) (a : α) (v : List α) :
    (ms.foldl (fun t k => scatterAxpy t (mir k) (buf k) a) v).length = v.length := by
  induction ms generalizing v with
  | nil => rfl
  | cons k ms ih => rw [List.foldl_cons, ih, scatterAxpy_length]

theorem foldl_scatter_val {ι : Type} (ms : List ι) (mir : ι → List Nat) (buf : ι → List α) (a : α) (v : List α)
    (i : Nat) (hi : i < v.length) :
    val (ms.foldl (fun t k => scatterAxpy t (mir k) (buf k) a) v) i
      = val v i + (ms.map fun k => contrib (mir k) (buf k) a i).sum := by
  induction ms generalizing v with
  | nil => simp
  | cons k ms ih =>
    rw [List.foldl_cons, ih _ (by rw [scatterAxpy_length]; exact hi), scatterAxpy_val _ _ _ _ _ hi]
    simp [add_assoc]

theorem foldl_scatter_perm {ι : Type} {ms₁ ms₂ : List ι} (h : ms₁.Perm ms₂) (mir : ι → List Nat) (buf : ι → List α)
    (a : α) (v : List α) :
    ms₁.foldl (fun t k => scatterAxpy t (mir k) (buf k) a) v = ms₂.foldl (fun t k => scatterAxpy t (mir k) (buf k) a) v := by
  apply ext_val
  · rw [foldl_scatter_length, foldl_scatter_length]
  · intro i hi
    rw [foldl_scatter_length] at hi
    rw [foldl_scatter_val _ _ _ _ _ _ hi, foldl_scatter_val _ _ _ _ _ _ hi, (h.map _).sum_eq]

/-- the mirror and the received buffer of message `k` on patch `r` -/
def msgMir (ps : List Patch) (r k : Nat) : List Nat := ((ps.getD r default).nbrs.getD k (0, [])).2
def msgBuf (ps : List Patch) (vs : List (List α)) (r k : Nat) : List α :=
  (sendBuf ps vs ((ps.getD r default).nbrs.getD k (0, [])).1 r).getD []

theorem sync0Patch_eq (ps : List Patch) (vs : List (List α)) (r : Nat) (ord : List Nat) :
    sync0Patch ps vs r ord
      = ord.foldl (fun t k => scatterAxpy t (msgMir ps r k) (msgBuf ps vs r k) 1) (vs.getD r []) := rfl

theorem sync0Patch_perm (ps : List Patch) (vs : List (List α)) (r : Nat) {o₁ o₂ : List Nat} (h : o₁.Perm o₂) :
    sync0Patch ps vs r o₁ = sync0Patch ps vs r o₂ := by
  rw [sync0Patch_eq, sync0Patch_eq]; exact foldl_scatter_perm h _ _ _ _

theorem sync0_perm (ps : List Patch) (vs : List (List α)) (ords₁ ords₂ : List (List Nat))
    (h : ∀ r, (ords₁.getD r []).Perm (ords₂.getD r [])) : sync0 ps ords₁ vs = sync0 ps ords₂ vs := by
  unfold sync0
  apply List.map_congr_left
  intro r _
  exact sync0Patch_perm ps vs r (h r)

end FeatModel.C13L
