import FeatModel.Model.MeshFile
import FeatModel.Lemmas.C11Num
import FeatModel.Lemmas.C11Xml
import FeatModel.Lemmas.C11Mesh
import FeatModel.Lemmas.C11RoundTrip
import FeatModel.Lemmas.C11RoundTrip2
import FeatModel.Lemmas.C11Bezier
/-!
C11 — charts (`Circle`, `Sphere`, `Bezier`; the Bezier block itself is in `C11Bezier.lean`) of the mesh file model: the printed chart block is parsed back to the chart,
malformed chart markups are rejected, and the round trip `parseMeshFile ∘ printMeshFile = id` for nodes with an atlas.
Core Lean only.
-/
namespace FeatModel.C11

/-- an admissible atlas entry of a mesh file with WORLD dimension `wdim` (the shape dimension is irrelevant, as in
    FEAT's `DimensionalChartHelper<world_dim>`): a non-empty admissible name; a `Circle` in 2D /
    `Sphere` in 3D with a radius not below the reader's threshold (and a non-degenerate circle domain); a `Bezier`
    chart in 2D that satisfies `BezierOk` (`C11Bezier.lean`) -/
def ChartOk (wdim : Nat) (name : Str) (c : Chart) : Prop :=
  name ≠ [] ∧ NameOk name ∧
  match c with
  | .circle r _ _ dom => wdim = 2 ∧ ¬ r < radiusMin ∧ (∀ l rr, dom = some (l, rr) → l ≠ rr)
  | .sphere r _ _ _ => wdim = 3 ∧ ¬ r < radiusMin
  | .bezier cl o segs params => wdim = 2 ∧ BezierOk cl o segs params

theorem ChartOk_bezier_iff (wdim : Nat) (name : Str) (cl : Bool) (o : Rat)
    (segs : List (List (List Rat) × List Rat)) (params : List Rat) :
    ChartOk wdim name (.bezier cl o segs params) ↔
      name ≠ [] ∧ NameOk name ∧ wdim = 2 ∧ BezierOk cl o segs params := Iff.rfl

end FeatModel.C11

namespace FeatModel.C11.CH
open FeatModel.C11.RT FeatModel.C11.RT2

set_option linter.unusedSimpArgs false

/-! ## Part 1: `scan_markup` on a closed markup `<nm k1="v1" … kn="vn" />` -/

theorem trim_snoc_space {a : Char} {t : Str} (ha : isWs a = false) :
    trim ((a :: t) ++ [' ']) = trim (a :: t) := by
  have h1 : trimFront ((a :: t) ++ [' ']) = (a :: t) ++ [' '] := by
    rw [List.cons_append]; exact trimFront_cons ha
  rw [trim, h1, trim, trimFront_cons ha]
  simp [trimBack, List.dropWhile, isWs]

theorem scanMarkup_with_attrs_closed {nm rest u : Str} {b : Char} (hnm : validName nm = true)
    (hrest : rest = b :: u) (hb : isWs b = false) (hlast : rest.getLast? = some '"')
    (hlt : '<' ∉ rest) (hgt : '>' ∉ rest) :
    scanMarkup ('<' :: ((nm ++ ' ' :: (rest ++ [' ', '/'])) ++ ['>'])) = markupTail nm rest false true := by
  let body : Str := nm ++ ' ' :: rest
  let inner : Str := nm ++ ' ' :: (rest ++ [' ', '/'])
  obtain ⟨a, t, rfl⟩ : ∃ a t, nm = a :: t := by
    cases nm with
    | nil => simp [validName] at hnm
    | cons a t => exact ⟨a, t, rfl⟩
  have ha : isWs a = false := validName_not_ws hnm a (by simp)
  have hq : isWs '"' = false := by decide
  have hsl : isWs '/' = false := by decide
  have hlast_inner : inner.getLast? = some '/' := by
    simp [inner, List.getLast?_eq_head?_reverse]
  have hlast_body : body.getLast? = some '"' := by
    simp only [body]
    rw [List.getLast?_append, List.getLast?_cons, hlast]; rfl
  have htrim_inner : trim inner = inner := xml_trim_eq_self ha hlast_inner hsl
  have htrim_body : trim body = body := xml_trim_eq_self ha hlast_body hq
  have htrim_rest : trim rest = rest := by
    subst hrest; exact xml_trim_eq_self hb hlast hq
  have hnotin : ∀ d : Char, d ∉ (a :: t) → d ≠ ' ' → d ≠ '/' → d ∉ rest → d ∉ inner := by
    intro d h1 h2 h3 h4
    simp only [List.mem_cons, not_or] at h1
    simp [inner, h1, h2, h3, h4]
  have hlt' : '<' ∉ inner := hnotin _ (validName_not_mem hnm (by decide)) (by decide) (by decide) hlt
  have hgt' : '>' ∉ inner := hnotin _ (validName_not_mem hnm (by decide)) (by decide) (by decide) hgt
  have hhead : (inner.head? == some '/') = false := by
    have : a ≠ '/' := isAlnum_ne (validName_all hnm a (by simp)) (by decide)
    simp [inner, this]
  have hclosed : (inner.getLast? == some '/') = true := by rw [hlast_inner]; decide
  have hdl : inner.dropLast = body ++ [' '] := by
    have : inner = (body ++ [' ']) ++ ['/'] := by simp [inner, body]
    rw [this, List.dropLast_concat]
  have hbody : trim inner.dropLast = body := by
    rw [hdl]
    show trim ((a :: (t ++ ' ' :: rest)) ++ [' ']) = body
    rw [trim_snoc_space ha]
    exact htrim_body
  have htake : body.takeWhile (fun c => !isWs c) = a :: t :=
    takeWhile_append_stop (fun c hc => by simp [validName_not_ws hnm c hc]) (by decide)
  have hdrop : trim (body.dropWhile (fun c => !isWs c)) = rest := by
    have : body.dropWhile (fun c => !isWs c) = ' ' :: rest :=
      dropWhile_append_stop (fun c hc => by simp [validName_not_ws hnm c hc]) (by decide)
    rw [this]
    have : trim (' ' :: rest) = trim rest := by
      simp [trim, trimFront, List.dropWhile, isWs]
    rw [this, htrim_rest]
  exact scanMarkup_bracket inner inner body (a :: t) rest false true
    htrim_inner (by simp [inner]) hlt' hgt' hhead hclosed rfl (by simpa using hbody) (by simp [body])
    htake hdrop hnm

/-- `scan_markup` on `<nm k1="v1" … kn="vn" />` -/
theorem scanMarkup_attr_list_closed {nm : Str} (kvs : List (Str × Str)) (hne : kvs ≠ []) (hnm : validName nm = true)
    (hk : ∀ kv ∈ kvs, AttrOk kv) :
    scanMarkup ('<' :: ((nm ++ ' ' :: (attrText kvs ++ [' ', '/'])) ++ ['>'])) =
      .ok (some { name := nm, attrs := kvs.foldl insAttr [], closed := true, termin := false }) := by
  obtain ⟨b, u, he, hb⟩ := attrText_head kvs hne hk
  have hnot : ∀ d : Char, d ≠ '=' → d ≠ '"' → d ≠ ' ' →
      (d.toNat < 48 ∨ (57 < d.toNat ∧ d.toNat < 65) ∨ (90 < d.toNat ∧ d.toNat < 97) ∨ 122 < d.toNat) →
      (∀ kv ∈ kvs, d ∉ kv.2) → d ∉ attrText kvs := by
    intro d h1 h2 h3 h4 h5
    exact attrText_notMem d kvs h1 h2 h3 (fun kv hkv => ⟨validName_not_mem (hk kv hkv).1 h4, h5 kv hkv⟩)
  have hlt : '<' ∉ attrText kvs :=
    hnot _ (by decide) (by decide) (by decide) (by decide) (fun kv hkv hm => ((hk kv hkv).2.1 _ hm).2.1 rfl)
  have hgt : '>' ∉ attrText kvs :=
    hnot _ (by decide) (by decide) (by decide) (by decide) (fun kv hkv hm => ((hk kv hkv).2.1 _ hm).2.2 rfl)
  rw [scanMarkup_with_attrs_closed hnm he hb (attrText_last kvs hne) hlt hgt]
  simp only [markupTail, Bool.false_eq_true, if_false]
  rw [scanAttrs_list kvs _ [] (attrText_length kvs) hk]

/-! ## Part 2: the printed chart lines -/

/-- a printed coordinate tuple -/
def mid2 (x y : Rat) : Str := showQ x ++ ' ' :: showQ y
def mid3 (x y z : Rat) : Str := showQ x ++ ' ' :: showQ y ++ ' ' :: showQ z

theorem mid2_eq (x y : Rat) : mid2 x y = joinSp ([x, y].map showQ) := by
  unfold mid2 joinSp; simp

theorem mid3_eq (x y z : Rat) : mid3 x y z = joinSp ([x, y, z].map showQ) := by
  unfold mid3 joinSp; simp

theorem joinSp_showQ_attr (qs : List Rat) :
    (∀ c ∈ joinSp (qs.map showQ), c ≠ '"' ∧ c ≠ '<' ∧ c ≠ '>') ∧
      trim (joinSp (qs.map showQ)) = joinSp (qs.map showQ) := by
  constructor
  · intro c hc
    rcases joinSp_showQ_chars qs c hc with rfl | h
    · decide
    · exact ⟨(tokChar_ne h).2.2.2.1, (tokChar_ne h).1, (tokChar_ne h).2.1⟩
  · have := trim_sp_joinSp_showQ 0 qs
    simpa only [sp, List.replicate_zero, List.nil_append] using this

theorem showQ_attr (x : Rat) :
    (∀ c ∈ showQ x, c ≠ '"' ∧ c ≠ '<' ∧ c ≠ '>') ∧ trim (showQ x) = showQ x := by
  constructor
  · intro c hc
    have h := tokChar_showQ x c hc
    exact ⟨(tokChar_ne h).2.2.2.1, (tokChar_ne h).1, (tokChar_ne h).2.1⟩
  · exact trim_eq_self_of_noWs _ (showQ_tok x).2

theorem mid2_attr (x y : Rat) :
    (∀ c ∈ mid2 x y, c ≠ '"' ∧ c ≠ '<' ∧ c ≠ '>') ∧ trim (mid2 x y) = mid2 x y := by
  rw [mid2_eq]; exact joinSp_showQ_attr _

theorem mid3_attr (x y z : Rat) :
    (∀ c ∈ mid3 x y z, c ≠ '"' ∧ c ≠ '<' ∧ c ≠ '>') ∧ trim (mid3 x y z) = mid3 x y z := by
  rw [mid3_eq]; exact joinSp_showQ_attr _

theorem splitWs_mid2 (x y : Rat) : splitWs (mid2 x y) = [showQ x, showQ y] := by
  rw [mid2_eq, splitWs_joinSp_showQ]; rfl

theorem splitWs_mid3 (x y z : Rat) : splitWs (mid3 x y z) = [showQ x, showQ y, showQ z] := by
  rw [mid3_eq, splitWs_joinSp_showQ]; rfl

theorem nl_showQ (x : Rat) : '\n' ∉ showQ x :=
  nl_tokLine (fun c hc => Or.inr (tokChar_showQ x c hc))

theorem nl_mid2 (x y : Rat) : '\n' ∉ mid2 x y := by
  rw [mid2_eq]; exact nl_tokLine (joinSp_showQ_chars _)

theorem nl_mid3 (x y z : Rat) : '\n' ∉ mid3 x y z := by
  rw [mid3_eq]; exact nl_tokLine (joinSp_showQ_chars _)

/-- the attribute map of the scanned `<Circle … />` line (sorted by key) -/
def circleAttrs (r mx my : Rat) : Option (Rat × Rat) → List (Str × Str)
  | none => [("midpoint".toList, mid2 mx my), ("radius".toList, showQ r)]
  | some (l, rr) => [("domain".toList, mid2 l rr), ("midpoint".toList, mid2 mx my), ("radius".toList, showQ r)]

def circleMarkup (r mx my : Rat) (dom : Option (Rat × Rat)) : Markup :=
  ⟨"Circle".toList, circleAttrs r mx my dom, true, false⟩

def sphereMarkup (r mx my mz : Rat) : Markup :=
  ⟨"Sphere".toList, [("midpoint".toList, mid3 mx my mz), ("radius".toList, showQ r)], true, false⟩

/-- the scanned markup of the element line of a chart -/
def chartMarkup : Chart → Markup
  | .circle r mx my dom => circleMarkup r mx my dom
  | .sphere r mx my mz => sphereMarkup r mx my mz
  | .bezier .. => circleMarkup 0 0 0 none      -- not used (Bezier charts are not one-line charts)

/-- a chart that is written as one closed element line -/
def OneLine (c : Chart) : Prop := ∀ cl o segs params, c ≠ .bezier cl o segs params

/-- the text between the brackets of the element line of a chart, without its first character -/
def domText : Option (Rat × Rat) → Str
  | some (l, rr) => " domain=".toList ++ q (showQ l ++ ' ' :: showQ rr)
  | none => []

def circleBody (r mx my : Rat) (dom : Option (Rat × Rat)) : Str :=
  "ircle radius=".toList ++ q (showQ r) ++ " midpoint=".toList ++ q (showQ mx ++ ' ' :: showQ my) ++
    domText dom ++ " /".toList

def sphereBody (r mx my mz : Rat) : Str :=
  "phere radius=".toList ++ q (showQ r) ++ " midpoint=".toList ++
    q (showQ mx ++ ' ' :: showQ my ++ ' ' :: showQ mz) ++ " /".toList

def chartBody : Chart → Str
  | .circle r mx my dom => circleBody r mx my dom
  | .sphere r mx my mz => sphereBody r mx my mz
  | .bezier .. => []

def chartHead : Chart → Char
  | .circle .. => 'C'
  | .sphere .. => 'S'
  | .bezier .. => 'B'

theorem chartHead_ne (c : Chart) : chartHead c ≠ '!' := by cases c <;> simp [chartHead]

/-- the three lines of `writeChart` in bracket form -/
theorem writeChart_eq (name : Str) (c : Chart) (hnb : OneLine c) :
    writeChart name c =
      [sp 2 ++ '<' :: (('C' :: ("hart name=".toList ++ q name)) ++ ['>']),
       sp 4 ++ '<' :: ((chartHead c :: chartBody c) ++ ['>']),
       sp 2 ++ '<' :: (('/' :: "Chart".toList) ++ ['>'])] := by
  cases c with
  | circle r mx my dom =>
    unfold writeChart writeChartOld chartBody circleBody chartHead
    obtain _ | ⟨l, rr⟩ := dom
    · dsimp only [domText]
      simp
    · dsimp only [domText]
      simp
  | sphere r mx my mz =>
    unfold writeChart writeChartOld chartBody sphereBody chartHead
    dsimp only
    simp
  | bezier cl o segs params => exact absurd rfl (hnb cl o segs params)

theorem fold_circle_attrs2 (a b : Str) :
    [("radius".toList, a), ("midpoint".toList, b)].foldl insAttr [] =
      [("midpoint".toList, b), ("radius".toList, a)] := by
  have h1 : strLt "midpoint".toList "radius".toList = true := by decide
  simp only [List.foldl, insAttr, mapInsert, h1, if_true]

theorem fold_circle_attrs3 (a b c : Str) :
    [("radius".toList, a), ("midpoint".toList, b), ("domain".toList, c)].foldl insAttr [] =
      [("domain".toList, c), ("midpoint".toList, b), ("radius".toList, a)] := by
  have h1 : strLt "midpoint".toList "radius".toList = true := by decide
  have h2 : strLt "domain".toList "midpoint".toList = true := by decide
  simp only [List.foldl, insAttr, mapInsert, h1, h2, if_true]

/-- the `<Circle … />` line -/
theorem scan_circle_line (r mx my : Rat) (dom : Option (Rat × Rat)) :
    scanMarkup ('<' :: (('C' :: chartBody (.circle r mx my dom)) ++ ['>'])) =
      .ok (some (circleMarkup r mx my dom)) := by
  cases dom with
  | none =>
    have e : '<' :: (('C' :: chartBody (.circle r mx my none)) ++ ['>']) =
        '<' :: (("Circle".toList ++ ' ' :: (attrText [("radius".toList, showQ r),
          ("midpoint".toList, mid2 mx my)] ++ [' ', '/'])) ++ ['>']) := by
      unfold chartBody circleBody mid2
      dsimp only [domText]
      simp [q, attrText]
    rw [e, scanMarkup_attr_list_closed _ (by simp) (by decide), fold_circle_attrs2]
    · rfl
    · intro kv hkv
      simp only [List.mem_cons, List.not_mem_nil, or_false] at hkv
      rcases hkv with rfl | rfl
      · exact attrOk_mk (by decide) (showQ_attr r)
      · exact attrOk_mk (by decide) (mid2_attr mx my)
  | some lr =>
    obtain ⟨l, rr⟩ := lr
    have e : '<' :: (('C' :: chartBody (.circle r mx my (some (l, rr)))) ++ ['>']) =
        '<' :: (("Circle".toList ++ ' ' :: (attrText [("radius".toList, showQ r),
          ("midpoint".toList, mid2 mx my), ("domain".toList, mid2 l rr)] ++ [' ', '/'])) ++ ['>']) := by
      unfold chartBody circleBody mid2
      dsimp only [domText]
      simp [q, attrText]
    rw [e, scanMarkup_attr_list_closed _ (by simp) (by decide), fold_circle_attrs3]
    · rfl
    · intro kv hkv
      simp only [List.mem_cons, List.not_mem_nil, or_false] at hkv
      rcases hkv with rfl | rfl | rfl
      · exact attrOk_mk (by decide) (showQ_attr r)
      · exact attrOk_mk (by decide) (mid2_attr mx my)
      · exact attrOk_mk (by decide) (mid2_attr l rr)

/-- the `<Sphere … />` line -/
theorem scan_sphere_line (r mx my mz : Rat) :
    scanMarkup ('<' :: (('S' :: chartBody (.sphere r mx my mz)) ++ ['>'])) =
      .ok (some (sphereMarkup r mx my mz)) := by
  have e : '<' :: (('S' :: chartBody (.sphere r mx my mz)) ++ ['>']) =
      '<' :: (("Sphere".toList ++ ' ' :: (attrText [("radius".toList, showQ r),
        ("midpoint".toList, mid3 mx my mz)] ++ [' ', '/'])) ++ ['>']) := by
    unfold chartBody sphereBody mid3
    dsimp only
    simp [q, attrText]
  rw [e, scanMarkup_attr_list_closed _ (by simp) (by decide), fold_circle_attrs2]
  · rfl
  · intro kv hkv
    simp only [List.mem_cons, List.not_mem_nil, or_false] at hkv
    rcases hkv with rfl | rfl
    · exact attrOk_mk (by decide) (showQ_attr r)
    · exact attrOk_mk (by decide) (mid3_attr mx my mz)

/-- the element line of any chart -/
theorem scan_chart_item_line (c : Chart) (hnb : OneLine c) :
    scanMarkup ('<' :: ((chartHead c :: chartBody c) ++ ['>'])) = .ok (some (chartMarkup c)) := by
  cases c with
  | circle r mx my dom => exact scan_circle_line r mx my dom
  | sphere r mx my mz => exact scan_sphere_line r mx my mz
  | bezier cl o segs params => exact absurd rfl (hnb cl o segs params)

/-- the `<Chart name="…">` line -/
theorem scan_chart_line (name : Str) (hn : NameOk name) :
    scanMarkup ('<' :: (('C' :: ("hart name=".toList ++ q name)) ++ ['>'])) =
      .ok (some (⟨"Chart".toList, [("name".toList, name)], false, false⟩ : Markup)) := by
  have e : '<' :: (('C' :: ("hart name=".toList ++ q name)) ++ ['>']) =
      '<' :: ("Chart".toList ++ ' ' :: ("name".toList ++ '=' :: '"' :: (name ++ ['"', '>']))) := by
    simp [q]
  rw [e, scanMarkup_one_attr (by decide) (by decide) (nameOk_attr hn).1 (nameOk_attr hn).2]

theorem checkAttribs_circle (line : Nat) (r mx my : Rat) (dom : Option (Rat × Rat)) :
    checkAttribs line (specOf "Circle") (circleMarkup r mx my dom).attrs = .ok () := by
  cases dom with
  | none => simp [circleMarkup, circleAttrs, checkAttribs, specOf]
  | some lr => obtain ⟨l, rr⟩ := lr; simp [circleMarkup, circleAttrs, checkAttribs, specOf]

theorem checkAttribs_sphere (line : Nat) (r mx my mz : Rat) :
    checkAttribs line (specOf "Sphere") (sphereMarkup r mx my mz).attrs = .ok () := by
  simp [sphereMarkup, checkAttribs, specOf]

theorem circle_attrOf (r mx my : Rat) (dom : Option (Rat × Rat)) :
    attrOf (circleMarkup r mx my dom) "radius" = some (showQ r) ∧
    attrOf (circleMarkup r mx my dom) "midpoint" = some (mid2 mx my) ∧
    attrOf (circleMarkup r mx my dom) "domain" = dom.map (fun lr => mid2 lr.1 lr.2) := by
  have s1 : strLt "radius".toList "midpoint".toList = false := by decide
  have s2 : strLt "midpoint".toList "radius".toList = true := by decide
  have s3 : strLt "radius".toList "radius".toList = false := by decide
  have s4 : strLt "midpoint".toList "midpoint".toList = false := by decide
  have s5 : strLt "domain".toList "midpoint".toList = true := by decide
  have s6 : strLt "domain".toList "radius".toList = true := by decide
  have s7 : strLt "domain".toList "domain".toList = false := by decide
  have s8 : strLt "midpoint".toList "domain".toList = false := by decide
  have s9 : strLt "radius".toList "domain".toList = false := by decide
  cases dom with
  | none =>
    refine ⟨?_, ?_, ?_⟩ <;>
    · unfold circleMarkup circleAttrs
      simp only [attrOf, mapFind, s1, s2, s3, s4, s5, s6, s7, s8, s9]
      rfl
  | some lr =>
    obtain ⟨l, rr⟩ := lr
    refine ⟨?_, ?_, ?_⟩ <;>
    · unfold circleMarkup circleAttrs
      simp only [attrOf, mapFind, s1, s2, s3, s4, s5, s6, s7, s8, s9]
      rfl

theorem sphere_attrOf (r mx my mz : Rat) :
    attrOf (sphereMarkup r mx my mz) "radius" = some (showQ r) ∧
    attrOf (sphereMarkup r mx my mz) "midpoint" = some (mid3 mx my mz) := by
  have s1 : strLt "radius".toList "midpoint".toList = false := by decide
  have s2 : strLt "midpoint".toList "radius".toList = true := by decide
  have s3 : strLt "radius".toList "radius".toList = false := by decide
  have s4 : strLt "midpoint".toList "midpoint".toList = false := by decide
  refine ⟨?_, ?_⟩ <;>
  · unfold sphereMarkup
    simp only [attrOf, mapFind, s1, s2, s3, s4]
    rfl

/-- `CircleChartParser::create` on the printed line gives the chart back -/
theorem circleCreate_printed (line : Nat) (r mx my : Rat) (dom : Option (Rat × Rat))
    (hr : ¬ r < radiusMin) (hdom : ∀ l rr, dom = some (l, rr) → l ≠ rr) :
    circleCreate line (circleMarkup r mx my dom) = .ok (Chart.circle r mx my dom, false) := by
  obtain ⟨a1, a2, a3⟩ := circle_attrOf r mx my dom
  unfold circleCreate
  rw [a1, a2, a3]
  cases dom with
  | none => simp only [readQ_showQ, hr, if_false, splitWs_mid2, Option.map_none]
  | some lr =>
    obtain ⟨l, rr⟩ := lr
    have hne : (l == rr) = false := by simpa using hdom l rr rfl
    simp only [readQ_showQ, hr, if_false, splitWs_mid2, Option.map_some, hne]

/-- a printed circle with a degenerate domain `l = r` is flagged (the file is then `Outcome.unmodelled`) -/
theorem circleCreate_printed_degenerate (line : Nat) (r mx my l : Rat) (hr : ¬ r < radiusMin) :
    circleCreate line (circleMarkup r mx my (some (l, l))) = .ok (Chart.circle r mx my (some (l, l)), true) := by
  obtain ⟨a1, a2, a3⟩ := circle_attrOf r mx my (some (l, l))
  have hne : (l == l) = true := by simp
  unfold circleCreate
  rw [a1, a2, a3]
  simp only [readQ_showQ, hr, if_false, splitWs_mid2, Option.map_some, hne]

/-- `SphereChartParser::create` on the printed line gives the chart back -/
theorem sphereCreate_printed (line : Nat) (r mx my mz : Rat) (hr : ¬ r < radiusMin) :
    sphereCreate line (sphereMarkup r mx my mz) = .ok (Chart.sphere r mx my mz) := by
  obtain ⟨a1, a2⟩ := sphere_attrOf r mx my mz
  unfold sphereCreate
  rw [a1, a2]
  simp only [readQ_showQ, hr, if_false, splitWs_mid3]

/-! ## Part 3: the chart block as a run of the scanner -/

/-- one closed markup line: the name stack is unchanged -/
theorem step_open_closed {raw s : Str} {rest : List Str} {i : Nat} {names : List Str} {st st' : St} {m : Markup}
    (htrim : trim raw = s) (hne : s ≠ []) (hcom : startsWith s "<!--".toList = false)
    (hs : scanMarkup s = .ok (some m)) (hterm : m.termin = false) (hclosed : m.closed = true)
    (ho : openM st (i + 1) m = .ok st') :
    scanLoop meshClient (raw :: rest) i names st = scanLoop meshClient rest (i + 1) names st' := by
  have he : s.isEmpty = false := by cases s <;> simp_all
  rw [scanLoop]
  simp only [htrim, he, hcom, hs, hterm, hclosed, meshClient, ho, Bool.false_eq_true, if_false, if_true]

theorem Run_closed_line {k : Nat} {a : Char} {t : Str} (ha : a ≠ '!') {m : Markup}
    (hs : scanMarkup ('<' :: ((a :: t) ++ ['>'])) = .ok (some m)) (hterm : m.termin = false)
    (hclosed : m.closed = true) {st st' : St} (ho : ∀ line, openM st line m = .ok st') (names : List Str) :
    Run [sp k ++ '<' :: ((a :: t) ++ ['>'])] names st names st' := by
  apply Run.single
  intro tail i
  exact step_open_closed (trim_markup_line k (a :: t)) (by simp) (markup_not_comment ha) hs hterm hclosed (ho _)

/-- `<Chart name="…">` below the root: a `ChartParser` without a chart is pushed -/
theorem openM_chart (sh : Shape) (dim wdim : Nat) (mesh : Option Mesh) (parts : List (Str × Part))
    (pts : List Partition) (chs : List (Str × Chart)) (line : Nat) (name : Str) (hne : name ≠ [])
    (hfresh : mapFind strLt name chs = none) :
    openM (mkSt sh dim [Frame.root] ⟨mesh, parts, pts, chs, wdim⟩) line
      (⟨"Chart".toList, [("name".toList, name)], false, false⟩ : Markup) =
      .ok (mkSt sh dim [Frame.chart name none, Frame.root] ⟨mesh, parts, pts, chs, wdim⟩) := by
  have hc : checkAttribs line (specOf "Chart") [("name".toList, name)] = .ok () := by
    simp [checkAttribs, specOf]
  have a1 : attrOf (⟨"Chart".toList, [("name".toList, name)], false, false⟩ : Markup) "name" = some name := by
    have h1 : strLt "name".toList "name".toList = false := by decide
    simp only [attrOf, mapFind, h1]; rfl
  have hemp : name.isEmpty = false := by cases name <;> simp_all
  generalize hst : mkSt sh dim [Frame.root] ⟨mesh, parts, pts, chs, wdim⟩ = st
  generalize hmm : (⟨"Chart".toList, [("name".toList, name)], false, false⟩ : Markup) = m at a1
  have hstack : st.stack = [Frame.root] := by rw [← hst]; rfl
  have hcharts : mapFind strLt name st.node.charts = none := by rw [← hst]; exact hfresh
  have hn : String.ofList m.name = "Chart" := by rw [← hmm]; exact String_ofList_toList _
  have ha : m.attrs = [("name".toList, name)] := by rw [← hmm]
  have hcl : m.closed = false := by rw [← hmm]
  unfold openM
  rw [hstack]
  simp only [hn, ha, hc, hcl, a1, hemp, hcharts]
  simp [← hst, mkSt]

/-- the closed element line inside a `<Chart>`: the chart is stored in the `ChartParser` -/
theorem openM_chart_item (sh : Shape) (dim : Nat) (name : Str) (o : Option Chart) (rs : List Frame) (node : Node)
    (line : Nat) (c : Chart) (hok : ChartOk node.wdim name c) (hnb : OneLine c) :
    openM (mkSt sh dim (Frame.chart name o :: rs) node) line (chartMarkup c) =
      .ok (mkSt sh dim (Frame.chart name (some c) :: rs) node) := by
  obtain ⟨-, -, hc⟩ := hok
  cases c with
  | bezier cl o segs params => exact absurd rfl (hnb cl o segs params)
  | circle r mx my dom =>
    obtain ⟨hdim, hr, hdom⟩ := hc
    have hck := checkAttribs_circle line r mx my dom
    have hm := circleCreate_printed line r mx my dom hr hdom
    have hn : String.ofList (circleMarkup r mx my dom).name = "Circle" := String_ofList_toList _
    have hcl : (circleMarkup r mx my dom).closed = true := rfl
    show openM (mkSt sh dim (Frame.chart name o :: rs) node) line (circleMarkup r mx my dom) = _
    generalize hst : mkSt sh dim (Frame.chart name o :: rs) node = st
    generalize circleMarkup r mx my dom = m at hm hck hn hcl ⊢
    have hstack : st.stack = Frame.chart name o :: rs := by rw [← hst]; rfl
    have hd : st.wdim = 2 := by rw [← hst]; exact hdim
    unfold openM
    rw [hstack]
    simp only [hn, hck, hcl, hm, hd]
    simp [← hst, mkSt, hdim]
  | sphere r mx my mz =>
    obtain ⟨hdim, hr⟩ := hc
    have hck := checkAttribs_sphere line r mx my mz
    have hm := sphereCreate_printed line r mx my mz hr
    have hn : String.ofList (sphereMarkup r mx my mz).name = "Sphere" := String_ofList_toList _
    have hcl : (sphereMarkup r mx my mz).closed = true := rfl
    show openM (mkSt sh dim (Frame.chart name o :: rs) node) line (sphereMarkup r mx my mz) = _
    generalize hst : mkSt sh dim (Frame.chart name o :: rs) node = st
    generalize sphereMarkup r mx my mz = m at hm hck hn hcl ⊢
    have hstack : st.stack = Frame.chart name o :: rs := by rw [← hst]; rfl
    have hd : st.wdim = 3 := by rw [← hst]; exact hdim
    unfold openM
    rw [hstack]
    simp only [hn, hck, hcl, hm, hd]
    simp [← hst, mkSt, hdim]

/-- `</Chart>`: the chart is inserted into the atlas -/
theorem closeTop_chart_frame (sh : Shape) (dim wdim : Nat) (name : Str) (c : Chart) (rs : List Frame)
    (mesh : Option Mesh) (parts : List (Str × Part)) (pts : List Partition) (chs : List (Str × Chart))
    (line : Nat) :
    closeTop (mkSt sh dim (Frame.chart name (some c) :: rs) ⟨mesh, parts, pts, chs, wdim⟩) line =
      .ok (mkSt sh dim rs ⟨mesh, parts, pts, mapInsert strLt name c chs, wdim⟩) := by
  simp [closeTop, mkSt]

theorem chartMarkup_flags (c : Chart) : (chartMarkup c).termin = false ∧ (chartMarkup c).closed = true := by
  cases c <;> exact ⟨rfl, rfl⟩

/-- **a whole `<Chart>` block**: from the root frame to the root frame, the chart is in the atlas -/
theorem Run_writeChart_oneLine (sh : Shape) (dim wdim : Nat) (mesh : Option Mesh) (parts : List (Str × Part))
    (pts : List Partition) (chs : List (Str × Chart)) (name : Str) (c : Chart) (hok : ChartOk wdim name c)
    (hnb : OneLine c)
    (hfresh : mapFind strLt name chs = none) (b : Str) (below : List Str) :
    Run (writeChart name c) (b :: below) (mkSt sh dim [Frame.root] ⟨mesh, parts, pts, chs, wdim⟩) (b :: below)
      (mkSt sh dim [Frame.root] ⟨mesh, parts, pts, mapInsert strLt name c chs, wdim⟩) := by
  rw [writeChart_eq name c hnb]
  have r1 := Run_open_line (k := 2) (a := 'C') (by decide) (scan_chart_line name hok.2.1) rfl rfl
    (fun line => openM_chart sh dim wdim mesh parts pts chs line name hok.1 hfresh) (b :: below)
  have r2 := Run_closed_line (k := 4) (chartHead_ne c) (scan_chart_item_line c hnb) (chartMarkup_flags c).1
    (chartMarkup_flags c).2
    (fun line => openM_chart_item sh dim name none [Frame.root] ⟨mesh, parts, pts, chs, wdim⟩ line c hok hnb)
    ("Chart".toList :: b :: below)
  have r3 := Run_close_line (k := 2) (nm := "Chart".toList) (by decide)
    (fun line => closeTop_chart_frame sh dim wdim name c [Frame.root] mesh parts pts chs line) b below
  exact Run.append (Run.append r1 r2) r3

/-- **a whole `<Chart>` block**: from the root frame to the root frame, the chart is in the atlas -/
theorem Run_writeChart (sh : Shape) (dim wdim : Nat) (mesh : Option Mesh) (parts : List (Str × Part))
    (pts : List Partition) (chs : List (Str × Chart)) (name : Str) (c : Chart) (hok : ChartOk wdim name c)
    (hfresh : mapFind strLt name chs = none) (b : Str) (below : List Str) :
    Run (writeChart name c) (b :: below) (mkSt sh dim [Frame.root] ⟨mesh, parts, pts, chs, wdim⟩) (b :: below)
      (mkSt sh dim [Frame.root] ⟨mesh, parts, pts, mapInsert strLt name c chs, wdim⟩) := by
  cases c with
  | circle r mx my dom =>
    exact Run_writeChart_oneLine sh dim wdim mesh parts pts chs name _ hok (fun _ _ _ _ h => by cases h) hfresh b below
  | sphere r mx my mz =>
    exact Run_writeChart_oneLine sh dim wdim mesh parts pts chs name _ hok (fun _ _ _ _ h => by cases h) hfresh b below
  | bezier cl o segs params =>
    obtain ⟨hne, hname, hdim, hbz⟩ := hok
    subst hdim
    have e1 : sp 2 ++ "<Chart name=".toList ++ q name ++ ">".toList =
        sp 2 ++ '<' :: (('C' :: ("hart name=".toList ++ q name)) ++ ['>']) := by simp
    have e3 : sp 2 ++ "</Chart>".toList = sp 2 ++ '<' :: (('/' :: "Chart".toList) ++ ['>']) := by
      have : "</Chart>".toList = '<' :: (('/' :: "Chart".toList) ++ ['>']) := by decide
      rw [this]
    show Run ([sp 2 ++ "<Chart name=".toList ++ q name ++ ">".toList] ++ writeBezier cl o segs params ++
      [sp 2 ++ "</Chart>".toList]) _ _ _ _
    rw [e1, e3]
    have r1 := Run_open_line (k := 2) (a := 'C') (by decide) (scan_chart_line name hname) rfl rfl
      (fun line => openM_chart sh dim 2 mesh parts pts chs line name hne hfresh) (b :: below)
    have r2 := BZ.Run_writeBezier sh dim name none [Frame.root] ⟨mesh, parts, pts, chs, 2⟩ rfl "Chart".toList (b :: below)
      cl o segs params hbz
    have r3 := Run_close_line (k := 2) (nm := "Chart".toList) (by decide)
      (fun line => closeTop_chart_frame sh dim 2 name (Chart.bezier cl o segs params) [Frame.root] mesh parts pts chs
        line) b below
    exact Run.append (Run.append r1 r2) r3

/-- **a whole `<Chart>` block with a Bezier chart** (the Bezier instance of `Run_writeChart`): running the scanner over
    the printed block from a root-frame state adds `(name, chart)` to `node.charts` -/
theorem Run_writeChart_bezier (sh : Shape) (dim : Nat) (mesh : Option Mesh) (parts : List (Str × Part))
    (pts : List Partition) (chs : List (Str × Chart)) (name : Str) (cl : Bool) (o : Rat)
    (segs : List (List (List Rat) × List Rat)) (params : List Rat)
    (hne : name ≠ []) (hname : NameOk name) (hbz : BezierOk cl o segs params)
    (hfresh : mapFind strLt name chs = none) (b : Str) (below : List Str) :
    Run (writeChart name (.bezier cl o segs params)) (b :: below)
      (mkSt sh dim [Frame.root] ⟨mesh, parts, pts, chs, 2⟩) (b :: below)
      (mkSt sh dim [Frame.root] ⟨mesh, parts, pts, mapInsert strLt name (.bezier cl o segs params) chs, 2⟩) :=
  Run_writeChart sh dim 2 mesh parts pts chs name (.bezier cl o segs params)
    ((ChartOk_bezier_iff 2 name cl o segs params).2 ⟨hne, hname, rfl, hbz⟩) hfresh b below

/-- the same with the chart appended, when all names in the atlas are smaller -/
theorem Run_writeChart_append (sh : Shape) (dim wdim : Nat) (mesh : Option Mesh) (parts : List (Str × Part))
    (pts : List Partition) (chs : List (Str × Chart)) (name : Str) (c : Chart) (hok : ChartOk wdim name c)
    (hfresh : ∀ kv ∈ chs, strLt kv.1 name = true) (b : Str) (below : List Str) :
    Run (writeChart name c) (b :: below) (mkSt sh dim [Frame.root] ⟨mesh, parts, pts, chs, wdim⟩) (b :: below)
      (mkSt sh dim [Frame.root] ⟨mesh, parts, pts, chs ++ [(name, c)], wdim⟩) := by
  have := Run_writeChart sh dim wdim mesh parts pts chs name c hok (mapFind_none _ _ hfresh) b below
  rwa [mapInsert_append _ _ _ hfresh] at this

def chartsLines (chs : List (Str × Chart)) : List Str :=
  (chs.map (fun nc => writeChart nc.1 nc.2)).flatten

/-- **all charts** of a strictly sorted atlas -/
theorem Run_charts (sh : Shape) (dim wdim : Nat) (mesh : Option Mesh) (parts : List (Str × Part))
    (pts : List Partition) (b : Str) (below : List Str) (todo : List (Str × Chart)) :
    ∀ (done : List (Str × Chart)), (∀ nc ∈ todo, ChartOk wdim nc.1 nc.2) →
    (done ++ todo).Pairwise (fun a b => strLt a.1 b.1 = true) →
    Run (chartsLines todo) (b :: below) (mkSt sh dim [Frame.root] ⟨mesh, parts, pts, done, wdim⟩) (b :: below)
      (mkSt sh dim [Frame.root] ⟨mesh, parts, pts, done ++ todo, wdim⟩) := by
  induction todo with
  | nil => intro done _ _; simpa [chartsLines] using Run.nil _ _
  | cons nc todo ih =>
    intro done hp hsorted
    obtain ⟨nm, c⟩ := nc
    have hfresh : ∀ kv ∈ done, strLt kv.1 nm = true := by
      intro kv hkv
      exact (List.pairwise_append.1 hsorted).2.2 kv hkv (nm, c) (by simp)
    have r1 := Run_writeChart_append sh dim wdim mesh parts pts done nm c (hp (nm, c) (by simp)) hfresh b below
    have r2 := ih (done ++ [(nm, c)]) (fun nc hnc => hp nc (by simp [hnc])) (by simpa using hsorted)
    have := Run.append r1 r2
    simpa [chartsLines] using this

end FeatModel.C11.CH

/-! ## Part 4: malformed chart markups are rejected -/

namespace FeatModel.C11

/-- a `<Circle>` whose radius attribute is not a number is a grammar error -/
theorem circleCreate_bad_radius (line : Nat) (m : Markup) (rs : Str)
    (h1 : attrOf m "radius" = some rs) (h : readQ rs = none) :
    circleCreate line m = gErr line := by
  unfold circleCreate
  rw [h1]
  cases attrOf m "midpoint" with
  | none => rfl
  | some ms => simp only [h]

/-- a `<Circle>` whose radius is below the threshold `1E-5` is a grammar error -/
theorem circleCreate_small_radius (line : Nat) (m : Markup) (rs : Str) (r : Rat)
    (h1 : attrOf m "radius" = some rs) (h : readQ rs = some r) (hr : r < radiusMin) :
    circleCreate line m = gErr line := by
  unfold circleCreate
  rw [h1]
  cases attrOf m "midpoint" with
  | none => rfl
  | some ms => simp only [h, hr, if_true]

/-- a `<Circle>` whose midpoint attribute does not consist of exactly two tokens is a grammar error -/
theorem circleCreate_bad_midpoint (line : Nat) (m : Markup) (ms : Str)
    (h2 : attrOf m "midpoint" = some ms) (h : (splitWs ms).length ≠ 2) :
    circleCreate line m = gErr line := by
  unfold circleCreate
  rw [h2]
  repeat' split
  all_goals first | rfl | (simp_all)

/-- a `<Circle>` whose domain attribute does not consist of exactly two tokens is a grammar error -/
theorem circleCreate_bad_domain (line : Nat) (m : Markup) (ds : Str)
    (h3 : attrOf m "domain" = some ds) (h : (splitWs ds).length ≠ 2) :
    circleCreate line m = gErr line := by
  unfold circleCreate
  rw [h3]
  repeat' split
  all_goals first | rfl | (simp_all)

/-- every failure of `CircleChartParser::create` is a grammar error in the line of the markup -/
theorem circleCreate_error (line : Nat) (m : Markup) (e : Err) (h : circleCreate line m = .error e) :
    e = ⟨.grammar, line⟩ := by
  unfold circleCreate at h
  repeat' split at h
  all_goals first
    | (injection h with h; exact h.symm)
    | (exact absurd h (by simp))

/-- a `<Sphere>` whose midpoint attribute does not consist of exactly three tokens is a grammar error -/
theorem sphereCreate_bad_midpoint (line : Nat) (m : Markup) (ms : Str)
    (h2 : attrOf m "midpoint" = some ms) (h : (splitWs ms).length ≠ 3) :
    sphereCreate line m = gErr line := by
  unfold sphereCreate
  rw [h2]
  repeat' split
  all_goals first | rfl | (simp_all)

/-- a `<Sphere>` whose radius attribute is not a number is a grammar error -/
theorem sphereCreate_bad_radius (line : Nat) (m : Markup) (rs : Str)
    (h1 : attrOf m "radius" = some rs) (h : readQ rs = none) :
    sphereCreate line m = gErr line := by
  unfold sphereCreate
  rw [h1]
  cases attrOf m "midpoint" with
  | none => rfl
  | some ms => simp only [h]

/-- a `<Chart>` without a child element cannot close ("Invalid empty chart") -/
theorem closeTop_empty_chart (st : St) (line : Nat) (name : Str) (rest : List Frame)
    (h : st.stack = Frame.chart name none :: rest) : closeTop st line = gErr line := by
  unfold closeTop
  rw [h]

/-- a second `<Chart>` with a name that is already in the atlas is a content error -/
theorem openM_duplicate_chart (st : St) (line : Nat) (m : Markup) (rest : List Frame) (name : Str)
    (hstack : st.stack = Frame.root :: rest)
    (hn : String.ofList m.name = "Chart")
    (hc : checkAttribs line (specOf "Chart") m.attrs = .ok ())
    (hcl : m.closed = false)
    (ha : attrOf m "name" = some name) (hne : name ≠ [])
    (hdup : (mapFind strLt name st.node.charts).isSome = true) :
    openM st line m = cErr line := by
  have hemp : name.isEmpty = false := by cases name <;> simp_all
  unfold openM
  rw [hstack]
  simp only [hn, hc, hcl, ha, hemp, hdup]
  simp

/-- a closed `<Chart … />` is a grammar error -/
theorem openM_closed_chart (st : St) (line : Nat) (m : Markup) (rest : List Frame)
    (hstack : st.stack = Frame.root :: rest)
    (hn : String.ofList m.name = "Chart")
    (hc : checkAttribs line (specOf "Chart") m.attrs = .ok ())
    (hcl : m.closed = true) :
    openM st line m = gErr line := by
  unfold openM
  rw [hstack]
  simp only [hn, hc, hcl]
  simp

/-- a `<Chart name="">` is a grammar error -/
theorem openM_unnamed_chart (st : St) (line : Nat) (m : Markup) (rest : List Frame)
    (hstack : st.stack = Frame.root :: rest)
    (hn : String.ofList m.name = "Chart")
    (hc : checkAttribs line (specOf "Chart") m.attrs = .ok ())
    (hcl : m.closed = false)
    (ha : attrOf m "name" = some []) :
    openM st line m = gErr line := by
  unfold openM
  rw [hstack]
  simp only [hn, hc, hcl, ha]
  simp

/-- a `<Circle>` inside a chart of a mesh file whose world dimension is not 2 is a grammar error -/
theorem openM_circle_wrong_dim (st : St) (line : Nat) (m : Markup) (name : Str) (o : Option Chart)
    (rest : List Frame) (hstack : st.stack = Frame.chart name o :: rest)
    (hn : String.ofList m.name = "Circle") (hd : st.wdim ≠ 2) :
    openM st line m = gErr line := by
  have hd' : (st.wdim == 2) = false := by simpa using hd
  unfold openM
  rw [hstack]
  simp only [hn, hd']
  simp

/-- a `<Sphere>` inside a chart of a mesh file whose world dimension is not 3 is a grammar error -/
theorem openM_sphere_wrong_dim (st : St) (line : Nat) (m : Markup) (name : Str) (o : Option Chart)
    (rest : List Frame) (hstack : st.stack = Frame.chart name o :: rest)
    (hn : String.ofList m.name = "Sphere") (hd : st.wdim ≠ 3) :
    openM st line m = gErr line := by
  have hd' : (st.wdim == 3) = false := by simpa using hd
  unfold openM
  rw [hstack]
  simp only [hn, hd']
  simp

/-- a content line directly inside a `<Chart>` is a grammar error -/
theorem contentM_in_chart (st : St) (line : Nat) (s : Str) (name : Str) (o : Option Chart) (rest : List Frame)
    (hstack : st.stack = Frame.chart name o :: rest) : contentM st line s = gErr line := by
  unfold contentM
  rw [hstack]

end FeatModel.C11

/-! ## Part 5: the round trip for a node with an atlas -/

namespace FeatModel.C11.CH
open FeatModel.C11.RT FeatModel.C11.RT2

set_option linter.unusedSimpArgs false

/-- `openM_mesh` of `C11RoundTrip.lean` for an arbitrary node without a root mesh -/
theorem openM_mesh_node {sh : Shape} {dim wdim : Nat} (hs : supported sh (dim : Int) (wdim : Int) = true)
    (sizes : List Nat) (hlen : sizes.length = dim + 1) (h64 : ∀ s ∈ sizes, s < 2 ^ 64)
    (hzb : zeroBelow sizes = false) (node : Node) (hnone : node.mesh = none) (hnw : node.wdim = wdim) (line : Nat) :
    openM (mkSt sh dim [Frame.root] node) line
      (⟨"Mesh".toList, [("size".toList, joinSp (sizes.map showNat)), ("type".toList, meshTypeStr sh dim wdim)],
        false, false⟩ : Markup) =
      .ok (mkSt sh dim [Frame.mesh sizes none (List.replicate dim none), Frame.root] node) := by
  have hc : checkAttribs line (specOf "Mesh")
      [("size".toList, joinSp (sizes.map showNat)), ("type".toList, meshTypeStr sh dim wdim)] = .ok () := by
    simp [checkAttribs, specOf]
  have hm := meshCreate_printed hs sizes hlen h64 hzb [Frame.root] node hnw line
  generalize hst : mkSt sh dim [Frame.root] node = st at hm ⊢
  generalize hmm : (⟨"Mesh".toList, [("size".toList, joinSp (sizes.map showNat)),
    ("type".toList, meshTypeStr sh dim wdim)], false, false⟩ : Markup) = m at hm ⊢
  have hstack : st.stack = [Frame.root] := by rw [← hst]; rfl
  have hnode : st.node.mesh = none := by rw [← hst]; exact hnone
  have hn : String.ofList m.name = "Mesh" := by rw [← hmm]; exact String_ofList_toList _
  have ha : m.attrs = [("size".toList, joinSp (sizes.map showNat)), ("type".toList, meshTypeStr sh dim wdim)] := by
    rw [← hmm]
  have hcl : m.closed = false := by rw [← hmm]
  unfold openM
  rw [hstack]
  simp only [hn, ha, hc, hcl, hm, hnode]
  simp [← hst, mkSt]

theorem closeTop_mesh_frame_node (sh : Shape) (dim : Nat) (sizes : List Nat) (vs : List (List Rat))
    (ts : List (List (List Nat))) (rs : List Frame) (node : Node) (line : Nat) :
    closeTop (mkSt sh dim (Frame.mesh sizes (some vs) (ts.map some) :: rs) node) line =
      .ok (mkSt sh dim rs { node with mesh := some { sizes := sizes, verts := vs, topo := ts } }) := by
  simp [closeTop, mkSt, mapMOpt_id_map_some]

/-- the whole `<Mesh>` element read into a node that already holds an atlas -/
theorem Run_writeMesh_charts {sh : Shape} {dim wdim : Nat} (hs : supported sh (dim : Int) (wdim : Int) = true) (m : Mesh)
    (hwf : m.wf sh dim wdim = true) (h64 : ∀ s ∈ m.sizes, s < 2 ^ 64) (hzb : zeroBelow m.sizes = false)
    (chs : List (Str × Chart)) (b : Str) (below : List Str) :
    Run (writeMesh sh dim wdim m) (b :: below) (mkSt sh dim [Frame.root] ⟨none, [], [], chs, wdim⟩) (b :: below)
      (mkSt sh dim [Frame.root] ⟨some m, [], [], chs, wdim⟩) := by
  obtain ⟨hsz, hvl, hvr, htl, htp⟩ := (Mesh.wf_iff sh dim wdim m).1 hwf
  have hdim : 0 < dim ∧ dim ≤ 3 := ⟨(supported_pos hs).1, (supported_pos hs).2.1⟩
  have hwdim : 0 < wdim := (supported_pos hs).2.2.1
  have hbound : m.sizes.getD 0 0 ≤ 2 ^ 64 := by
    cases hm : m.sizes with
    | nil => simp
    | cons a t => have := h64 a (by simp [hm]); simp; omega
  have e1 : sp 2 ++ "<Mesh type=".toList ++ q (meshTypeStr sh dim wdim) ++ " size=".toList ++
      q (joinSp (m.sizes.map showNat)) ++ ">".toList =
      sp 2 ++ '<' :: (('M' :: ("esh type=".toList ++ q (meshTypeStr sh dim wdim) ++ " size=".toList ++
        q (joinSp (m.sizes.map showNat)))) ++ ['>']) := by
    simp
  have hsc : scanMarkup ('<' :: (('M' :: ("esh type=".toList ++ q (meshTypeStr sh dim wdim) ++ " size=".toList ++
        q (joinSp (m.sizes.map showNat)))) ++ ['>'])) =
      .ok (some (⟨"Mesh".toList, [("size".toList, joinSp (m.sizes.map showNat)),
        ("type".toList, meshTypeStr sh dim wdim)], false, false⟩ : Markup)) :=
    scan_mesh_line hs m.sizes
  have r1 := Run_open_line (k := 2) (by decide) hsc rfl rfl
    (fun line => openM_mesh_node hs m.sizes hsz h64 hzb ⟨none, [], [], chs, wdim⟩ rfl rfl line) (b :: below)
  have r2 := Run_vertices_block sh dim m.sizes (List.replicate dim none) [Frame.root] ⟨none, [], [], chs, wdim⟩
    "Mesh".toList (b :: below) m.verts hwdim hvl hvr
  have r3 := Run_topo_blocks sh dim 4 m.sizes (some m.verts) [Frame.root] ⟨none, [], [], chs, wdim⟩ "Mesh".toList
    (b :: below) hbound m.topo 0 [] rfl (by rw [htl]; have : (3 : Nat) < 2 ^ 64 := by decide
                                            omega)
    (by
      intro j hj
      rw [htl] at hj
      have := htp j hj
      simpa [tuplesProp] using this)
  rw [htl] at r3
  have e4 : "</Mesh>".toList = '<' :: (('/' :: "Mesh".toList) ++ ['>']) := by decide
  have r4 := Run_close_line (k := 2) (nm := "Mesh".toList) (by decide)
    (fun line => closeTop_mesh_frame_node sh dim m.sizes m.verts m.topo [Frame.root] ⟨none, [], [], chs, wdim⟩ line) b below
  have hm : ({ sizes := m.sizes, verts := m.verts, topo := m.topo } : Mesh) = m := by cases m; rfl
  rw [hm] at r4
  have := Run.append (Run.append (Run.append r1 r2) r3) r4
  unfold writeMesh
  rw [e1, e4, writeTopo_eq]
  simpa using this

theorem writeLines_node_charts (sh : Shape) (dim wdim : Nat) (m : Mesh) (parts : List (Str × Part))
    (pts : List Partition) (chs : List (Str × Chart)) :
    writeLines sh dim { mesh := some m, parts := parts, partitions := pts, charts := chs, wdim := wdim } =
      rootLine sh dim wdim :: (chartsLines chs ++ bodyLines sh dim wdim m parts pts ++ ["</FeatMeshFile>".toList]) := by
  unfold writeLines rootLine bodyLines partsLines ptsLines chartsLines
  dsimp only
  simp only [List.cons_append, List.nil_append, List.append_assoc]

theorem nl_chartsLines (wdim : Nat) (chs : List (Str × Chart)) (hc : ∀ nc ∈ chs, ChartOk wdim nc.1 nc.2) :
    ∀ l ∈ chartsLines chs, '\n' ∉ l := by
  intro l hl
  simp only [chartsLines, List.mem_flatten, List.mem_map] at hl
  obtain ⟨ls, ⟨⟨nm, c⟩, hnc, rfl⟩, hl⟩ := hl
  have hname : '\n' ∉ nm := fun hm => ((hc _ hnc).2.1.2 _ hm).2.2.2 rfl
  by_cases hbz : ∃ cl o segs params, c = Chart.bezier cl o segs params
  · obtain ⟨cl, o, segs, params, rfl⟩ := hbz
    have hl' : l ∈ [sp 2 ++ "<Chart name=".toList ++ q nm ++ ">".toList] ++ writeBezier cl o segs params ++
        [sp 2 ++ "</Chart>".toList] := hl
    simp only [List.mem_append, List.mem_singleton] at hl'
    rcases hl' with (rfl | hl') | rfl
    · have h1 : '\n' ∉ "<Chart name=".toList := by decide
      have h2 := nl_q hname
      have h3 : '\n' ∉ ">".toList := by decide
      exact nl_append (nl_append (nl_append (nl_sp 2) h1) h2) h3
    · exact BZ.nl_writeBezier cl o segs params l hl'
    · exact nl_append (nl_sp 2) (by decide)
  have hnb : OneLine c := by
    intro cl o segs params e
    exact hbz ⟨cl, o, segs, params, e⟩
  rw [writeChart_eq nm c hnb] at hl
  simp only [List.mem_cons, List.not_mem_nil, or_false] at hl
  rcases hl with rfl | rfl | rfl
  · refine nl_open_line 2 _ ?_
    have h1 : '\n' ∉ "hart name=".toList := by decide
    have h2 := nl_q hname
    simp only [List.mem_cons, List.mem_append, not_or]
    exact ⟨by decide, h1, h2⟩
  · refine nl_open_line 4 _ ?_
    cases c with
    | circle r mx my dom =>
      have h1 := nl_q (nl_showQ r)
      have h2 := nl_q (nl_mid2 mx my)
      have h3 : '\n' ∉ domText dom := by
        obtain _ | ⟨l, rr⟩ := dom
        · exact List.not_mem_nil
        · have := nl_q (nl_mid2 l rr)
          have h0 : '\n' ∉ " domain=".toList := by decide
          exact nl_append h0 this
      have k1 : '\n' ∉ "ircle radius=".toList := by decide
      have k2 : '\n' ∉ " midpoint=".toList := by decide
      have k3 : '\n' ∉ " /".toList := by decide
      have : '\n' ∉ circleBody r mx my dom :=
        nl_append (nl_append (nl_append (nl_append (nl_append k1 h1) k2) h2) h3) k3
      simp only [chartHead, chartBody, List.mem_cons, not_or]
      exact ⟨by decide, this⟩
    | sphere r mx my mz =>
      have h1 := nl_q (nl_showQ r)
      have h2 := nl_q (nl_mid3 mx my mz)
      have k1 : '\n' ∉ "phere radius=".toList := by decide
      have k2 : '\n' ∉ " midpoint=".toList := by decide
      have k3 : '\n' ∉ " /".toList := by decide
      have : '\n' ∉ sphereBody r mx my mz :=
        nl_append (nl_append (nl_append (nl_append k1 h1) k2) h2) k3
      simp only [chartHead, chartBody, List.mem_cons, not_or]
      exact ⟨by decide, this⟩
    | bezier cl o segs params => exact absurd rfl (hnb cl o segs params)
  · exact nl_close_line 2 _ (by decide)

theorem splitLines_node_charts {sh : Shape} {dim wdim : Nat} (hs : supported sh (dim : Int) (wdim : Int) = true) {m : Mesh}
    {parts : List (Str × Part)} {pts : List Partition} (h : NodeOk sh dim wdim m parts pts)
    (chs : List (Str × Chart)) (hc : ∀ nc ∈ chs, ChartOk wdim nc.1 nc.2) :
    splitLines (printMeshFile sh dim { mesh := some m, parts := parts, partitions := pts, charts := chs, wdim := wdim }) =
      rootLine sh dim wdim :: (chartsLines chs ++ bodyLines sh dim wdim m parts pts ++ ["</FeatMeshFile>".toList]) ++ [[]] := by
  unfold splitLines printMeshFile
  rw [writeLines_node_charts, splitChar_flatMap '\n']
  intro l hl
  simp only [List.mem_cons, List.mem_append, List.not_mem_nil, or_false] at hl
  rcases hl with rfl | (hl | hl) | rfl
  · exact nl_rootLine hs
  · exact nl_chartsLines wdim chs hc l hl
  · exact nl_bodyLines hs h l hl
  · decide

theorem Run_body_charts {sh : Shape} {dim wdim : Nat} (hs : supported sh (dim : Int) (wdim : Int) = true) {m : Mesh}
    {parts : List (Str × Part)} {pts : List Partition} (h : NodeOk sh dim wdim m parts pts)
    (chs : List (Str × Chart)) (hc : ∀ nc ∈ chs, ChartOk wdim nc.1 nc.2)
    (hcs : chs.Pairwise (fun a b => strLt a.1 b.1 = true)) (b : Str) (below : List Str) :
    Run (chartsLines chs ++ bodyLines sh dim wdim m parts pts) (b :: below) (mkSt sh dim [Frame.root] (emptyNode wdim))
      (b :: below) (mkSt sh dim [Frame.root] { mesh := some m, parts := parts, partitions := pts, charts := chs, wdim := wdim }) := by
  have hdim : dim + 1 < 2 ^ 64 := by
    have := supported_pos hs
    have : (4 : Nat) < 2 ^ 64 := by decide
    omega
  have r0 := Run_charts sh dim wdim none [] [] b below chs [] hc (by simpa using hcs)
  have r1 := Run_writeMesh_charts hs m h.hwf h.h64 h.hzb chs b below
  have r2 := Run_parts (chs := chs) (wdim := wdim) sh dim (some m) [] hdim b below parts [] h.hp (by simpa using h.hsorted)
  have r3 := Run_partitions (chs := chs) (wdim := wdim) sh dim (some m) parts b below pts [] h.hpt
  have := Run.append r0 (Run.append (Run.append r1 r2) r3)
  simpa [bodyLines, emptyNode] using this

theorem scanLoop_node_charts {sh : Shape} {dim wdim : Nat} (hs : supported sh (dim : Int) (wdim : Int) = true) {m : Mesh}
    {parts : List (Str × Part)} {pts : List Partition} (h : NodeOk sh dim wdim m parts pts)
    (chs : List (Str × Chart)) (hc : ∀ nc ∈ chs, ChartOk wdim nc.1 nc.2)
    (hcs : chs.Pairwise (fun a b => strLt a.1 b.1 = true)) (i : Nat) :
    scanLoop meshClient (chartsLines chs ++ bodyLines sh dim wdim m parts pts ++ ["</FeatMeshFile>".toList] ++ [[]]) i
      ["FeatMeshFile".toList] (mkSt sh dim [Frame.root] (emptyNode wdim)) =
      .ok (mkSt sh dim [] { mesh := some m, parts := parts, partitions := pts, charts := chs, wdim := wdim }) := by
  obtain ⟨j, hj⟩ := Run_body_charts hs h chs hc hcs "FeatMeshFile".toList [] (["</FeatMeshFile>".toList] ++ [[]]) i
  rw [List.append_assoc, hj]
  have e : "</FeatMeshFile>".toList = '<' :: (('/' :: "FeatMeshFile".toList) ++ ['>']) := by decide
  rw [e]
  exact final_close_line (by decide) (fun line => closeTop_root_frame sh dim _ line) _ j

theorem parseBody_node_charts {sh : Shape} {dim wdim : Nat} (hs : supported sh (dim : Int) (wdim : Int) = true) {m : Mesh}
    {parts : List (Str × Part)} {pts : List Partition} (h : NodeOk sh dim wdim m parts pts)
    (chs : List (Str × Chart)) (hc : ∀ nc ∈ chs, ChartOk wdim nc.1 nc.2)
    (hcs : chs.Pairwise (fun a b => strLt a.1 b.1 = true)) (i : Nat) :
    parseBody sh dim wdim (rootMarkup sh dim wdim) i
        (chartsLines chs ++ bodyLines sh dim wdim m parts pts ++ ["</FeatMeshFile>".toList] ++ [[]]) =
      .ok sh dim { mesh := some m, parts := parts, partitions := pts, charts := chs, wdim := wdim } := by
  have hck : checkAttribs i (specOf "root") (rootMarkup sh dim wdim).attrs = .ok () := by
    unfold rootMarkup
    simp [checkAttribs, specOf]
  have hn : (rootMarkup sh dim wdim).name = "FeatMeshFile".toList := rfl
  have hl := scanLoop_node_charts hs h chs hc hcs i
  have hmap : mapOutOfRange { mesh := some m, parts := parts, partitions := pts, charts := chs, wdim := wdim } = false := h.hmap
  unfold mkSt emptyNode at hl
  unfold parseBody
  simp only [hck, hn, hl]
  simp [hmap, resolveLinks, resolveDeduct]

end FeatModel.C11.CH

namespace FeatModel.C11

/-- **parse ∘ print = id** for a file with an atlas (`Circle` / `Sphere` / `Bezier` charts, see `ChartOk`), a root mesh, mesh parts with
    mappings, own (full) topology and attribute sets (not linked to a chart), and partitions -/
theorem parse_print_node_charts (sh : Shape) (dim wdim : Nat) (m : Mesh) (parts : List (Str × Part))
    (partitions : List Partition) (charts : List (Str × Chart))
    (hs : supported sh (dim : Int) (wdim : Int) = true)
    (hwf : m.wf sh dim wdim = true)
    (h64 : ∀ s ∈ m.sizes, s < 2 ^ 64)
    (hzb : zeroBelow m.sizes = false)
    (hp : ∀ np ∈ parts, PartOkFull sh dim np.1 np.2)
    (hsorted : parts.Pairwise (fun a b => strLt a.1 b.1 = true))
    (hpt : ∀ p ∈ partitions, PartitionOk p)
    (hmap : mapOutOfRange ⟨some m, parts, partitions, [], wdim⟩ = false)
    (hc : ∀ nc ∈ charts, ChartOk wdim nc.1 nc.2)
    (hcs : charts.Pairwise (fun a b => strLt a.1 b.1 = true)) :
    parseMeshFile (printMeshFile sh dim { mesh := some m, parts := parts, partitions := partitions, charts := charts, wdim := wdim })
      = .ok sh dim { mesh := some m, parts := parts, partitions := partitions, charts := charts, wdim := wdim } := by
  have h : RT2.NodeOk sh dim wdim m parts partitions := ⟨hwf, h64, hp, hsorted, hpt, hzb, hmap⟩
  unfold parseMeshFile
  rw [CH.splitLines_node_charts hs h charts hc, List.cons_append, RT.readRoot_print hs]
  simp only [RT.rootType_print hs, hs, Bool.not_true, Bool.false_eq_true, if_false, Int.toNat_natCast]
  exact CH.parseBody_node_charts hs h charts hc hcs 1

/-- **print ∘ parse ∘ print = print** (byte for byte) for a file with an atlas -/
theorem print_parse_print_node_charts (sh : Shape) (dim wdim : Nat) (m : Mesh) (parts : List (Str × Part))
    (partitions : List Partition) (charts : List (Str × Chart))
    (hs : supported sh (dim : Int) (wdim : Int) = true)
    (hwf : m.wf sh dim wdim = true)
    (h64 : ∀ s ∈ m.sizes, s < 2 ^ 64)
    (hzb : zeroBelow m.sizes = false)
    (hp : ∀ np ∈ parts, PartOkFull sh dim np.1 np.2)
    (hsorted : parts.Pairwise (fun a b => strLt a.1 b.1 = true))
    (hpt : ∀ p ∈ partitions, PartitionOk p)
    (hmap : mapOutOfRange ⟨some m, parts, partitions, [], wdim⟩ = false)
    (hc : ∀ nc ∈ charts, ChartOk wdim nc.1 nc.2)
    (hcs : charts.Pairwise (fun a b => strLt a.1 b.1 = true)) :
    ∀ sh' dim' n',
      parseMeshFile (printMeshFile sh dim
          { mesh := some m, parts := parts, partitions := partitions, charts := charts, wdim := wdim }) = .ok sh' dim' n' →
      printMeshFile sh' dim' n' =
        printMeshFile sh dim { mesh := some m, parts := parts, partitions := partitions, charts := charts, wdim := wdim } := by
  intro sh' dim' n' h
  rw [parse_print_node_charts sh dim wdim m parts partitions charts hs hwf h64 hzb hp hsorted hpt hmap hc hcs] at h
  injection h with h1 h2 h3
  subst h1 h2 h3
  rfl

end FeatModel.C11
