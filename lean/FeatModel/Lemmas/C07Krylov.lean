import FeatModel.Model.Solver.Krylov
import FeatModel.Lemmas.C07Control
/-! Helper lemmas for C07: the recurrence residual of PCG / Richardson is the true filtered residual `F(b − A x)`
    of the iterate in every iteration, for every preconditioner function; fuel suffices. -/
namespace FeatModel.Solver
set_option linter.unusedSectionVars false

variable {V α : Type} [Mul α] [Div α] [Neg α] [Zero α] [One α] [LE α] [LT α] [DecidableEq α] [DecidableLE α]
  [DecidableLT α]

/-- the two linear-algebra facts the residual recurrence of PCG needs (proved for the driver's instance
    `ratSys` in Lemmas/C07Vec.lean) -/
structure Lawful (S : Sys V α) : Prop where
  resid_step : ∀ b x p a, resid S b (S.ops.axpy x p a) = S.ops.axpy (resid S b x) (S.Fd (S.A p)) (-a)
  resid_zero : ∀ b, resid S b S.ops.zero = S.Fd b

/-- the returned status/state pair is the outcome of `_set_new_defect` applied to the norm of the TRUE filtered
    residual `F(b − A x)` of the returned iterate -/
def FinalStep (S : Sys V α) (c : Config α) (b : V) (res : Result V α) : Prop :=
  ∃ s : State α, setNewDefect c s true (S.nrm (resid S b res.x)) = (res.status, res.st)

theorem setNew_ne_undefined (c : Config α) (s s' : State α) (fin : Bool) (d : α) (st : Status)
    (h : setNewDefect c s fin d = (st, s')) : st ≠ .undefined := by
  obtain ⟨s2, stRaw, ha, _, _, _, _, _, _, hcase⟩ := setNew_analyse c s s' fin d st h
  rcases hcase with ⟨e, _⟩ | ⟨_, e, _⟩
  · rw [e]; exact (analyse_spec c _ _ _ _ ha).2.2.2.2.2.2
  · rw [e]; simp

/-- what every solver loop of this file guarantees about its result -/
def LoopPost (S : Sys V α) (c : Config α) (b : V) (d0 : α) (res : Result V α) : Prop :=
  res.st.defInit = d0 ∧ 0 < res.st.numIter ∧ res.status ≠ .undefined ∧ res.status ≠ .progress ∧
    (res.status ≠ .aborted → FinalStep S c b res)

theorem pcgLoop_spec (S : Sys V α) (hl : Lawful S) (c : Config α) (b : V) :
    ∀ (fuel : Nat) (x r p : V) (gamma : α) (st : State α) (calls : Nat) (hist : List α) (res : Result V α),
      r = resid S b x → st.numIter ≤ max c.minIter c.maxIter → max c.minIter c.maxIter + 1 ≤ fuel + st.numIter →
      pcgLoop S c fuel x r p gamma st calls hist = some res → LoopPost S c b st.defInit res := by
  intro fuel
  induction fuel with
  | zero => intro x r p gamma st calls hist res _ h1 h2; omega
  | succ fuel ih =>
    intro x r p gamma st calls hist res hr h1 h2 h
    simp only [pcgLoop] at h
    split at h
    · exact absurd h (by simp)
    · have hr' : S.ops.axpy r (S.Fd (S.A p)) (-(gamma / S.ops.dot (S.Fd (S.A p)) p)) =
          resid S b (S.ops.axpy x p (gamma / S.ops.dot (S.Fd (S.A p)) p)) := by
        rw [hl.resid_step, hr]
      generalize hx' : S.ops.axpy x p (gamma / S.ops.dot (S.Fd (S.A p)) p) = x' at h hr'
      generalize hr2 : S.ops.axpy r (S.Fd (S.A p)) (-(gamma / S.ops.dot (S.Fd (S.A p)) p)) = r' at h hr'
      generalize hsn : setNewDefect c st true (S.nrm r') = sn at h
      obtain ⟨status, st'⟩ := sn
      have hf := setNew_frame c st st' true _ _ hsn
      simp only at h
      split at h
      · -- terminal status from `_set_new_defect`
        rename_i hne
        simp only [Option.some.injEq] at h
        subst h
        refine ⟨hf.2.1, by simp only; omega, setNew_ne_undefined c _ _ _ _ _ hsn, by simpa using hne, ?_⟩
        intro _
        exact ⟨st, by simp only; rw [← hr']; exact hsn⟩
      · rename_i hne
        have hp : status = .progress := by simpa using hne
        subst hp
        have hb := setNew_progress_bound c st st' true _ hsn
        split at h
        · simp only [Option.some.injEq] at h
          subst h
          exact ⟨hf.2.1, by simp only; omega, by simp, by simp, by simp⟩
        · split at h
          · exact absurd h (by simp)
          · have := ih x' r' _ _ st' _ _ res hr' (by omega) (by omega) h
            rw [hf.2.1] at this
            exact this

theorem richLoop_spec (S : Sys V α) (c : Config α) (omega : α) (b : V) :
    ∀ (fuel : Nat) (x df : V) (st : State α) (calls : Nat) (hist : List α) (res : Result V α),
      st.numIter ≤ max c.minIter c.maxIter → max c.minIter c.maxIter + 1 ≤ fuel + st.numIter →
      richLoop S c omega b fuel x df st calls hist = some res →
      res.st.defInit = st.defInit ∧ res.status ≠ .undefined ∧ res.status ≠ .progress ∧
        (res.status ≠ .aborted → 0 < res.st.numIter ∧ FinalStep S c b res) := by
  intro fuel
  induction fuel with
  | zero => intro x df st calls hist res h1 h2; omega
  | succ fuel ih =>
    intro x df st calls hist res h1 h2 h
    simp only [richLoop] at h
    split at h
    · simp only [Option.some.injEq] at h
      subst h
      exact ⟨rfl, by simp, by simp, by simp⟩
    · rename_i cor _
      generalize hx' : S.ops.axpy x cor omega = x' at h
      generalize hsn : setNewDefect c st true (S.nrm (resid S b x')) = sn at h
      obtain ⟨status, st'⟩ := sn
      have hf := setNew_frame c st st' true _ _ hsn
      simp only at h
      split at h
      · rename_i hne
        simp only [Option.some.injEq] at h
        subst h
        refine ⟨hf.2.1, setNew_ne_undefined c _ _ _ _ _ hsn, by simpa using hne, ?_⟩
        intro _
        exact ⟨by simp only; omega, st, hsn⟩
      · rename_i hne
        have hp : status = .progress := by simpa using hne
        subst hp
        have hb := setNew_progress_bound c st st' true _ hsn
        have := ih x' _ st' _ _ res (by omega) (by omega) h
        rw [hf.2.1] at this
        exact this


/-- reading of `FinalStep`: what each terminal status says about the true residual of the returned iterate.  Since
    the fix of finding c07-edge:F3 a `success` always rests on a computed defect; a converged-looking stale defect is
    reported as `max_iter` -/
theorem finalStep_facts (S : Sys V α) (c : Config α) (b : V) (res : Result V α) (h : FinalStep S c b res) :
    (calcDef c res.st.numIter = true → res.st.defCur = S.nrm (resid S b res.x)) ∧
    (res.status = .success → calcDef c res.st.numIter = true ∧ Converged c res.st.defInit res.st.defCur ∧
      ¬ Diverged c res.st.defInit res.st.defCur ∧ c.minIter ≤ res.st.numIter) ∧
    (res.status = .maxIter → (¬ Converged c res.st.defInit res.st.defCur ∨ calcDef c res.st.numIter = false) ∧
      ¬ Diverged c res.st.defInit res.st.defCur ∧ c.maxIter ≤ res.st.numIter ∧ c.minIter ≤ res.st.numIter) ∧
    (res.status = .diverged → Diverged c res.st.defInit res.st.defCur) ∧
    (res.status = .stagnated → 0 < c.minStag ∧ c.stagRate * res.st.defPrev ≤ res.st.defCur ∧
      c.minStag ≤ res.st.numStag ∧ ¬ Converged c res.st.defInit res.st.defCur ∧
      ¬ Diverged c res.st.defInit res.st.defCur ∧ c.minIter ≤ res.st.numIter ∧ res.st.numIter < c.maxIter) := by
  obtain ⟨s, hs⟩ := h
  have hf := setNew_frame c s res.st true _ _ hs
  obtain ⟨s2, stRaw, ha, _, _, _, _, _, _, hcase⟩ := setNew_analyse c s res.st true _ _ hs
  have hfr := analyse_frame c _ _ _ _ ha
  have hsp := analyse_spec c _ _ _ _ ha
  obtain ⟨h1, h2, h3, h4, h5⟩ := hfr
  rw [← h1, ← h2, ← h3, ← h4] at hsp
  obtain ⟨_, hd, hsu, hm, hst, _, _⟩ := hsp
  have hcd : calcDef c res.st.numIter = calcDef c (s.numIter + 1) := by rw [hf.1]
  refine ⟨?_, ?_, ?_, ?_, ?_⟩
  · intro hc
    rw [hcd] at hc
    exact (hf.2.2.2.1 hc).1
  · intro e
    rcases hcase with ⟨e1, hcalc⟩ | ⟨_, e2, _⟩
    · have := hsu.1 (e1 ▸ e)
      exact ⟨by rw [hcd]; exact hcalc e, this.2.2.2, this.2.1, this.2.2.1⟩
    · rw [e] at e2; cases e2
  · intro e
    rcases hcase with ⟨e1, _⟩ | ⟨e1, _, hcf⟩
    · have := hm.1 (e1 ▸ e)
      exact ⟨Or.inl this.2.2.2.1, this.2.1, this.2.2.2.2, this.2.2.1⟩
    · have := hsu.1 e1
      have hmm := calcDef_false_iters c _ hcf
      exact ⟨Or.inr (by rw [hcd]; exact hcf), this.2.1, by omega, this.2.2.1⟩
  · intro e
    rcases hcase with ⟨e1, _⟩ | ⟨_, e2, _⟩
    · exact (hd.1 (e1 ▸ e)).2
    · rw [e] at e2; cases e2
  · intro e
    rcases hcase with ⟨e1, _⟩ | ⟨_, e2, _⟩
    · have := hst (e1 ▸ e)
      exact ⟨this.2.1, this.2.2.1, this.2.2.2.2.1, this.2.2.2.2.2.2.2.1, this.2.2.2.2.2.2.2.2,
        this.2.2.2.2.2.2.1, this.2.2.2.2.2.1⟩
    · rw [e] at e2; cases e2

/-- `PCG::_apply_intern` -/
theorem pcgIntern_spec (S : Sys V α) (hl : Lawful S) (c : Config α) (prev : State α) (b x r : V) (res : Result V α)
    (hr : r = resid S b x) (h : pcgIntern S c prev x r = some res) :
    res.st.defInit = S.nrm r ∧ res.status ≠ .undefined ∧ res.status ≠ .progress ∧
      ((res.st.numIter = 0 ∧ res.x = x ∧ res.st.defCur = S.nrm r ∧
          (res.status = .aborted ∨ (res.status = .success ∧ (S.nrm r < c.tolAbsLow ∨ S.nrm r ≤ c.eps2)))) ∨
        (0 < res.st.numIter ∧ (res.status ≠ .aborted → FinalStep S c b res))) := by
  simp only [pcgIntern] at h
  rcases hsi : setInitialDefect c prev true (S.nrm r) with ⟨status, st⟩
  rw [hsi] at h
  obtain ⟨hst, _, hsu, hpr, hall⟩ := setInitial_spec c prev true _ _ _ hsi
  simp only at h
  split at h
  · rename_i hne
    simp only [Option.some.injEq] at h
    subst h
    subst hst
    have hne' : status ≠ .progress := by simpa using hne
    refine ⟨rfl, ?_, hne', Or.inl ⟨rfl, rfl, rfl, ?_⟩⟩
    · rcases hall with e | e | e <;> simp_all
    · rcases hall with e | e | e
      · exact Or.inl e
      · exact Or.inr ⟨e, (hsu.1 e).2⟩
      · exact absurd e hne'
  · split at h
    · simp only [Option.some.injEq] at h
      subst h
      subst hst
      exact ⟨rfl, by simp, by simp, Or.inl ⟨rfl, rfl, rfl, Or.inl rfl⟩⟩
    · have := pcgLoop_spec S hl c b _ x r _ _ st _ _ res hr (by subst hst; simp) (by subst hst; simp [fuelOf]) h
      subst hst
      exact ⟨this.1, this.2.2.1, this.2.2.2.1, Or.inr ⟨this.2.1, this.2.2.2.2⟩⟩

/-- `Richardson::_apply_intern` with `_vec_def = df` -/
theorem richIntern_spec (S : Sys V α) (c : Config α) (prev : State α) (omega : α) (b x df : V) (res : Result V α)
    (h : richIntern S c prev omega b x df = some res) :
    res.st.defInit = S.nrm df ∧ res.status ≠ .undefined ∧ res.status ≠ .progress ∧
      ((res.st.numIter = 0 ∧ res.x = x ∧ res.st.defCur = S.nrm df ∧
          (res.status = .aborted ∨ (res.status = .success ∧ (S.nrm df < c.tolAbsLow ∨ S.nrm df ≤ c.eps2)))) ∨
        (res.status ≠ .aborted → 0 < res.st.numIter ∧ FinalStep S c b res)) := by
  simp only [richIntern] at h
  rcases hsi : setInitialDefect c prev true (S.nrm df) with ⟨status, st⟩
  rw [hsi] at h
  obtain ⟨hst, _, hsu, hpr, hall⟩ := setInitial_spec c prev true _ _ _ hsi
  simp only at h
  split at h
  · rename_i hne
    simp only [Option.some.injEq] at h
    subst h
    subst hst
    have hne' : status ≠ .progress := by simpa using hne
    refine ⟨rfl, ?_, hne', Or.inl ⟨rfl, rfl, rfl, ?_⟩⟩
    · rcases hall with e | e | e <;> simp_all
    · rcases hall with e | e | e
      · exact Or.inl e
      · exact Or.inr ⟨e, (hsu.1 e).2⟩
      · exact absurd e hne'
  · have := richLoop_spec S c omega b _ x df st _ _ res (by subst hst; simp) (by subst hst; simp [fuelOf]) h
    subst hst
    exact ⟨this.1, this.2.1, this.2.2.1, Or.inr this.2.2.2⟩

/-- the soundness statement shared by the solvers (spelled out again in Props/C07.lean): `x0` start iterate,
    `ρ0`/`ρ` norms of the true filtered residual of the start / returned iterate -/
def SolveSound (c : Config α) (x0 : V) (ρ0 ρ : α) (res : Result V α) : Prop :=
  res.status ≠ .undefined ∧ res.status ≠ .progress ∧ res.st.defInit = ρ0 ∧
  (res.status ≠ .aborted →
    (res.st.numIter = 0 → res.x = x0 ∧ res.status = .success ∧ (ρ0 < c.tolAbsLow ∨ ρ0 ≤ c.eps2)) ∧
    (0 < res.st.numIter →
      (calcDef c res.st.numIter = true → res.st.defCur = ρ) ∧
      (res.status = .success → calcDef c res.st.numIter = true ∧ Converged c ρ0 res.st.defCur ∧
        ¬ Diverged c ρ0 res.st.defCur ∧ c.minIter ≤ res.st.numIter) ∧
      (res.status = .maxIter → (¬ Converged c ρ0 res.st.defCur ∨ calcDef c res.st.numIter = false) ∧
        ¬ Diverged c ρ0 res.st.defCur ∧ c.maxIter ≤ res.st.numIter ∧ c.minIter ≤ res.st.numIter) ∧
      (res.status = .diverged → Diverged c ρ0 res.st.defCur) ∧
      (res.status = .stagnated → 0 < c.minStag ∧ c.stagRate * res.st.defPrev ≤ res.st.defCur ∧
        c.minStag ≤ res.st.numStag ∧ ¬ Converged c ρ0 res.st.defCur ∧ ¬ Diverged c ρ0 res.st.defCur ∧
        c.minIter ≤ res.st.numIter ∧ res.st.numIter < c.maxIter)))

theorem solveSound_of (S : Sys V α) (c : Config α) (b x0 : V) (ρ0 : α) (res : Result V α)
    (h : res.st.defInit = ρ0 ∧ res.status ≠ .undefined ∧ res.status ≠ .progress ∧
      ((res.st.numIter = 0 ∧ res.x = x0 ∧ res.st.defCur = ρ0 ∧
          (res.status = .aborted ∨ (res.status = .success ∧ (ρ0 < c.tolAbsLow ∨ ρ0 ≤ c.eps2)))) ∨
        (res.status ≠ .aborted → 0 < res.st.numIter ∧ FinalStep S c b res))) :
    SolveSound c x0 ρ0 (S.nrm (resid S b res.x)) res := by
  obtain ⟨h0, hu, hp, hcase⟩ := h
  refine ⟨hu, hp, h0, ?_⟩
  intro hna
  rcases hcase with ⟨hz, hx, _, hs⟩ | hB
  · refine ⟨fun _ => ?_, fun hpos => by omega⟩
    rcases hs with e | ⟨e, ht⟩
    · exact absurd e hna
    · exact ⟨hx, e, ht⟩
  · obtain ⟨hpos, hfin⟩ := hB hna
    refine ⟨fun hz => by omega, fun _ => ?_⟩
    have := finalStep_facts S c b res hfin
    rw [h0] at this
    exact this

end FeatModel.Solver
