import FeatModel.Lemmas.C14Refine
import FeatModel.Gen.CubatureMeta
/-! C14: the subdivision identity of the refinery child maps, monomial by monomial (kernel evaluation) -/
namespace FeatModel.Cub

set_option maxRecDepth 100000 in
theorem subdivH1 : subdivAll false 1 Gen.refMapsH1 1 39 = true := by decide +kernel

end FeatModel.Cub
