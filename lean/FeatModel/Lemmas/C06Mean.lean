import FeatModel.Model.LA.Filter
import Mathlib.Tactic.Ring
import Mathlib.Tactic.FieldSimp
/-! helper lemmas for the C06 mean-filter and slip-filter theorems: the dot-product loop and `axpy` over a field -/
namespace FeatModel.LA.Filter

section Semiring
variable {α : Type} [CommSemiring α]

theorem foldl_add_init (l : List α) (a : α) :
    l.foldl (fun s t => s + t) a = a + l.foldl (fun s t => s + t) 0 := by
  induction l generalizing a with
  | nil => simp
  | cons x t ih =>
    simp only [List.foldl_cons]
    rw [ih (a + x), ih (0 + x)]
    simp [add_assoc]

theorem dotL_nil_left (y : List α) : dotL ([] : List α) y = 0 := by simp [dotL]
theorem dotL_nil_right (x : List α) : dotL x ([] : List α) = 0 := by simp [dotL]

theorem dotL_cons (a b : α) (x y : List α) : dotL (a :: x) (b :: y) = a * b + dotL x y := by
  unfold dotL
  simp only [List.zipWith_cons_cons, List.foldl_cons]
  rw [foldl_add_init]
  simp

theorem dotL_comm (x y : List α) : dotL x y = dotL y x := by
  induction x generalizing y with
  | nil => simp [dotL_nil_left, dotL_nil_right]
  | cons a t ih =>
    cases y with
    | nil => simp [dotL_nil_left, dotL_nil_right]
    | cons b u => rw [dotL_cons, dotL_cons, ih, mul_comm]

/-- `(v + a x) · w = v · w + a (x · w)` for `v`, `x` of equal length -/
theorem dotL_axpyL (v x w : List α) (a : α) (h : v.length = x.length) :
    dotL (axpyL v x a) w = dotL v w + a * dotL x w := by
  induction v generalizing x w with
  | nil =>
    cases x with
    | nil => simp [axpyL, dotL_nil_left]
    | cons b u => simp at h
  | cons c t ih =>
    cases x with
    | nil => simp at h
    | cons b u =>
      cases w with
      | nil => simp [dotL_nil_right]
      | cons d z =>
        simp only [List.length_cons, Nat.add_right_cancel_iff] at h
        simp only [axpyL, List.zipWith_cons_cons] at ih ⊢
        rw [dotL_cons, dotL_cons, dotL_cons, ih u z h]
        ring

theorem length_axpyL (v x : List α) (a : α) (h : v.length = x.length) : (axpyL v x a).length = v.length := by
  simp [axpyL, h]

theorem axpyL_zero (v x : List α) (h : v.length = x.length) : axpyL v x 0 = v := by
  induction v generalizing x with
  | nil => simp [axpyL]
  | cons c t ih =>
    cases x with
    | nil => simp at h
    | cons b u =>
      simp only [List.length_cons, Nat.add_right_cancel_iff] at h
      simp only [axpyL, List.zipWith_cons_cons] at ih ⊢
      rw [ih u h]
      simp

/-- `f ⊙ (v + a x) = f ⊙ v + a (f ⊙ x)` (component-wise products, equal lengths) -/
theorem zipWith_mul_axpyL (f v x : List α) (a : α) (h : v.length = x.length) :
    List.zipWith (fun p q => p * q) f (axpyL v x a) =
      axpyL (List.zipWith (fun p q => p * q) f v) (List.zipWith (fun p q => p * q) f x) a := by
  induction f generalizing v x with
  | nil => simp [axpyL]
  | cons c t ih =>
    cases v with
    | nil =>
      cases x with
      | nil => simp [axpyL]
      | cons b u => simp at h
    | cons d w =>
      cases x with
      | nil => simp at h
      | cons b u =>
        simp only [List.length_cons, Nat.add_right_cancel_iff] at h
        have := ih w u h
        simp only [axpyL, List.zipWith_cons_cons] at this ⊢
        rw [this]
        congr 1
        ring

theorem tdotL_comm (f x y : List α) : tdotL f x y = tdotL f y x := by
  unfold tdotL
  induction f generalizing x y with
  | nil => simp [dotL_nil_left]
  | cons c t ih =>
    cases x with
    | nil => simp [dotL_nil_left, dotL_nil_right]
    | cons a u =>
      cases y with
      | nil => simp [dotL_nil_left, dotL_nil_right]
      | cons b w =>
        simp only [List.zipWith_cons_cons, dotL_cons]
        rw [ih u w]
        ring

/-- the frequency-weighted dot product is linear in the (axpy-updated) middle argument -/
theorem tdotL_axpyL (f v x w : List α) (a : α) (h : v.length = x.length) (hf : f.length = v.length) :
    tdotL f (axpyL v x a) w = tdotL f v w + a * tdotL f x w := by
  unfold tdotL
  rw [zipWith_mul_axpyL f v x a h, dotL_axpyL]
  simp [hf, h]

end Semiring

end FeatModel.LA.Filter
