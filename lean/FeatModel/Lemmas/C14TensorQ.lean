import FeatModel.Lemmas.C14Tensor
import FeatModel.Lemmas.C14Rat
/-! # C14: tensor-product rules of ANY point count are exact in each variable up to the degree of the scalar rule
    (sums of products; tolerance version with the explicit constant 3^dim − 2^dim) -/
namespace FeatModel.Cub

theorem tensor_momentNum (t : DyTable) (hwf : t.wf 1 = true) (dim : Nat) (e : List Nat) (he : e.length = dim) :
    (t.tensor dim).momentNum e = iprod (e.map fun k => t.momentNum [k]) := by
  unfold DyTable.wf at hwf
  rw [Bool.and_eq_true] at hwf
  have hlen : t.w.length = t.x.length := by simpa using hwf.1
  have hp : ∀ p ∈ t.x, p.length = 1 := fun p hp => by simpa using List.all_eq_true.1 hwf.2 p hp
  unfold DyTable.momentNum DyTable.tensor scalarCoords
  simp only
  rw [isumMono_tensor t.w _ (by simpa using hlen) dim e he]
  congr 1
  apply List.map_congr_left
  intro k _
  exact smom_scalarCoords t.w t.x k hp

def qprod : List Rat → Rat
  | [] => 1
  | a :: as => a * qprod as

theorem iprod_cast (ew ec : Nat) (f : Nat → Int) : ∀ (e : List Nat),
    ((iprod (e.map f) : Int) : Rat) / (2 : Rat) ^ (ew * e.length + ec * esum e) =
      qprod (e.map fun k => (f k : Rat) / (2 : Rat) ^ (ew + ec * k))
  | [] => by simp [iprod, qprod, esum]
  | k :: ks => by
    have ih := iprod_cast ew ec f ks
    simp only [List.map_cons, iprod, qprod, List.length_cons, esum, ← ih]
    push_cast
    have : (2 : Rat) ^ (ew * (ks.length + 1) + ec * (k + esum ks)) =
        (2 : Rat) ^ (ew + ec * k) * (2 : Rat) ^ (ew * ks.length + ec * esum ks) := by
      rw [← pow_add]; congr 1; ring
    rw [this]
    have h1 : (2 : Rat) ^ (ew + ec * k) ≠ 0 := by positivity
    have h2 : (2 : Rat) ^ (ew * ks.length + ec * esum ks) ≠ 0 := by positivity
    field_simp

/-- the moment of the tensor-product rule is the product of the scalar rule's moments -/
theorem tensor_momentQ (t : DyTable) (hwf : t.wf 1 = true) (dim : Nat) (e : List Nat) (he : e.length = dim) :
    (t.tensor dim).momentQ e = qprod (e.map fun k => t.momentQ [k]) := by
  unfold DyTable.momentQ
  rw [tensor_momentNum t hwf dim e he]
  have hexp : (t.tensor dim).momentExp e = t.ew * e.length + t.ec * esum e := by
    simp [DyTable.momentExp, DyTable.tensor, he]
  rw [hexp, iprod_cast]
  have hk : ∀ k : Nat, t.momentExp [k] = t.ew + t.ec * k := fun k => by simp [DyTable.momentExp, esum]
  simp only [hk]

/-- the integral over the cube is the product of the integrals over the interval -/
theorem refIntQ_cube : ∀ (e : List Nat), refIntQ false e = qprod (e.map fun k => refIntQ false [k])
  | [] => by simp [refIntQ, refNum, refDen, cubeNum, cubeDen, qprod]
  | k :: ks => by
    have ih := refIntQ_cube ks
    simp only [List.map_cons, qprod, ← ih]
    simp only [refIntQ, refNum, refDen, cubeNum, cubeDen, Bool.false_eq_true, if_false]
    push_cast
    have h1 : ((k : Rat) + 1) ≠ 0 := by positivity
    have h2 : (cubeDen ks : Rat) ≠ 0 := by exact_mod_cast (cubeDen_pos ks).ne'
    field_simp

theorem refIntQ_interval_le (k : Nat) : |refIntQ false [k]| ≤ 2 := by
  simp only [refIntQ, refNum, refDen, cubeNum, cubeDen, Bool.false_eq_true, if_false, Nat.mul_one]
  have hk : (1 : Rat) ≤ ((k + 1 : Nat) : Rat) := by exact_mod_cast Nat.succ_le_succ (Nat.zero_le k)
  rw [abs_div, abs_of_pos (by linarith : (0 : Rat) < ((k + 1 : Nat) : Rat)), div_le_iff₀ (by linarith)]
  split
  · simp <;> linarith
  · simp <;> linarith

/-- error of a product of `n` factors, each perturbed by at most `ε ≤ 1` around a value of modulus ≤ 2 -/
def tensorErr : Nat → Rat → Rat
  | 0, _ => 0
  | n + 1, ε => 3 ^ n * ε + 2 * tensorErr n ε

theorem tensorErr_eq : ∀ (n : Nat) (ε : Rat), tensorErr n ε = (3 ^ n - 2 ^ n) * ε
  | 0, ε => by simp [tensorErr]
  | n + 1, ε => by simp only [tensorErr, tensorErr_eq n ε]; ring

theorem qprod_perturb (ε : Rat) (hε0 : 0 ≤ ε) (hε1 : ε ≤ 1) : ∀ (a b : List Rat),
    List.Forall₂ (fun x y => |x - y| ≤ ε ∧ |y| ≤ 2) a b →
    |qprod a - qprod b| ≤ tensorErr a.length ε ∧ |qprod a| ≤ 3 ^ a.length
  | [], [], _ => by simp [qprod, tensorErr]
  | x :: a, y :: b, h => by
    cases h with
    | cons hxy hab =>
      obtain ⟨ih1, ih2⟩ := qprod_perturb ε hε0 hε1 a b hab
      have hx : |x| ≤ 3 := by
        have := abs_sub_abs_le_abs_sub x y
        linarith [hxy.1, hxy.2]
      constructor
      · simp only [qprod, List.length_cons, tensorErr]
        have e1 : x * qprod a - y * qprod b = (x - y) * qprod a + y * (qprod a - qprod b) := by ring
        rw [e1]
        calc _ ≤ |(x - y) * qprod a| + |y * (qprod a - qprod b)| := abs_add_le _ _
          _ = |x - y| * |qprod a| + |y| * |qprod a - qprod b| := by rw [abs_mul, abs_mul]
          _ ≤ ε * 3 ^ a.length + 2 * tensorErr a.length ε := by
            apply add_le_add
            · exact mul_le_mul hxy.1 ih2 (abs_nonneg _) hε0
            · exact mul_le_mul hxy.2 ih1 (abs_nonneg _) (by norm_num)
          _ = _ := by ring
      · simp only [qprod, List.length_cons, abs_mul, pow_succ]
        calc |x| * |qprod a| ≤ 3 * 3 ^ a.length := mul_le_mul hx ih2 (abs_nonneg _) (by norm_num)
          _ = _ := by ring

/-- TENSOR-PRODUCT RULES, any point count, any dimension: if the scalar rule integrates `x^k`, `k ≤ d`, up to
    `ε ≤ 1`, the tensor-product rule integrates every monomial with all exponents `≤ d` (in particular every
    monomial of total degree ≤ d) up to `(3^dim − 2^dim)·ε` -/
theorem tensor_exactQ (t : DyTable) (hwf : t.wf 1 = true) (d : Nat) (ε : Rat) (hε0 : 0 ≤ ε) (hε1 : ε ≤ 1)
    (H : t.ExactQ false 1 d ε) (dim : Nat) (e : List Nat) (he : e.length = dim) (hk : ∀ k ∈ e, k ≤ d) :
    |(t.tensor dim).momentQ e - refIntQ false e| ≤ (3 ^ dim - 2 ^ dim) * ε := by
  rw [tensor_momentQ t hwf dim e he, refIntQ_cube e, ← tensorErr_eq, ← he]
  have hf : ∀ (l : List Nat), (∀ k ∈ l, k ≤ d) →
      List.Forall₂ (fun x y => |x - y| ≤ ε ∧ |y| ≤ 2) (l.map fun k => t.momentQ [k])
        (l.map fun k => refIntQ false [k]) := by
    intro l
    induction l with
    | nil => intro _; exact List.Forall₂.nil
    | cons k ks ih =>
      intro hl
      exact List.Forall₂.cons ⟨H [k] rfl (by simpa [esum] using hl k List.mem_cons_self), refIntQ_interval_le k⟩
        (ih (fun j hj => hl j (List.mem_cons_of_mem _ hj)))
  have := (qprod_perturb ε hε0 hε1 _ _ (hf e hk)).1
  simpa using this

end FeatModel.Cub
