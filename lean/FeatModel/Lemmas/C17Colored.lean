import FeatModel.Model.DA.Fence
/-
C17: the coloured barrier protocol of `DomainAssembler` (`CCfg`): safety of the scatter phase,
mutual exclusion of `combine()`, and deadlock freedom.
-/
set_option linter.unusedVariables false

namespace FeatModel.DA

/-! ## the transitions, one by one -/

/-- all transitions of the coloured protocol in explicit form -/
inductive CTr (c : CCfg) (s : CSt) : CSt → Prop
  | openFront : s.mph = .openFront →
      CTr c s { s with fence := updB s.fence 0 true, mph := .wait1, mi := 1 }
  | wait1 : s.mph = .wait1 → s.fence s.mi = true → CTr c s { s with mph := .close1 }
  | wait2 : s.mph = .wait2 → s.fence s.mi = true → CTr c s { s with mph := .close2 }
  | close1a : s.mph = .close1 → s.mi < c.n →
      CTr c s { s with fence := updB s.fence s.mi false, mph := .wait1, mi := s.mi + 1 }
  | close1b : s.mph = .close1 → ¬ s.mi < c.n →
      CTr c s { s with fence := updB s.fence s.mi false, mph := .closeFront }
  | close2a : s.mph = .close2 → s.mi < c.n →
      CTr c s { s with fence := updB s.fence s.mi false, mph := .wait2, mi := s.mi + 1 }
  | close2b : s.mph = .close2 → ¬ s.mi < c.n →
      CTr c s { s with fence := updB s.fence s.mi false, mph := .closeBack }
  | closeFront : s.mph = .closeFront →
      CTr c s { s with fence := updB s.fence 0 false, mph := .openBack }
  | openBack : s.mph = .openBack →
      CTr c s { s with fence := updB s.fence (c.n + 1) true, mph := .wait2, mi := 1 }
  | closeBack : s.mph = .closeBack →
      CTr c s { s with fence := updB s.fence (c.n + 1) false, col := upd s.col 0 (s.col 0 + 1),
                       mph := if s.col 0 + 1 < c.nc then .openFront else .join }
  | join : s.mph = .join → c.allDone s = true → CTr c s { s with mph := .done }
  | wfront (t : Nat) : 1 ≤ t → t ≤ c.n → s.ph t = .front → s.fence 0 = true →
      CTr c s { s with pos := upd s.pos t (c.cbeg (s.col t) t),
                       ph := updP s.ph t (c.afterElem s t (c.cbeg (s.col t) t)) }
  | wenter (t : Nat) : 1 ≤ t → t ≤ c.n → s.ph t = .idle → CTr c s { s with ph := updP s.ph t .insc }
  | wleave (t : Nat) : 1 ≤ t → t ≤ c.n → s.ph t = .insc →
      CTr c s { s with pos := upd s.pos t (s.pos t + 1), ph := updP s.ph t (c.afterElem s t (s.pos t + 1)) }
  | wopen (t : Nat) : 1 ≤ t → t ≤ c.n → s.ph t = .toOpen →
      CTr c s { s with fence := updB s.fence t true, ph := updP s.ph t .back }
  | wback (t : Nat) : 1 ≤ t → t ≤ c.n → s.ph t = .back → s.fence (c.n + 1) = true →
      CTr c s { s with ph := updP s.ph t .toOpen2 }
  | wopen2 (t : Nat) : 1 ≤ t → t ≤ c.n → s.ph t = .toOpen2 →
      CTr c s { s with fence := updB s.fence t true, col := upd s.col t (s.col t + 1),
                       ph := updP s.ph t (if s.col t + 1 < c.nc then .front else if c.comb then .preComb else .done) }
  | wcenter (t : Nat) : 1 ≤ t → t ≤ c.n → s.ph t = .preComb → s.mutex = false →
      CTr c s { s with ph := updP s.ph t .inComb, mutex := true }
  | wcleave (t : Nat) : 1 ≤ t → t ≤ c.n → s.ph t = .inComb →
      CTr c s { s with ph := updP s.ph t .done, mutex := false }

theorem CTr.of_step {c : CCfg} {s s' : CSt} {e : Ev} (h : c.step s e = some s') : CTr c s s' := by
  unfold CCfg.step at h
  split at h
  next hc =>
    obtain ⟨hnx, hen⟩ := hc
    simp only [Option.some.injEq] at h
    subst h
    generalize ht0 : e.thread = t at hnx
    unfold CCfg.next at hnx
    split at hnx
    next ht =>
      subst ht
      split at hnx <;> simp only [Option.some.injEq, reduceCtorEq] at hnx <;> subst hnx
      next hm => simp only [CCfg.apply, hm, if_true]; exact .openFront hm
      next hm =>
        simp only [CCfg.apply, CCfg.enabled, hm, if_true] at hen ⊢; exact .wait1 hm hen
      next hm =>
        simp only [CCfg.apply, CCfg.enabled, hm, if_true, reduceCtorEq, if_false] at hen ⊢
        exact .wait2 hm hen
      next hm =>
        simp only [CCfg.apply, hm]
        split
        next h1 => exact .close1a hm h1
        next h1 => exact .close1b hm h1
      next hm =>
        simp only [CCfg.apply, hm]
        split
        next h1 => exact .close2a hm h1
        next h1 => exact .close2b hm h1
      next hm => simp only [CCfg.apply, hm]; exact .closeFront hm
      next hm =>
        simp only [CCfg.apply, hm, if_true, reduceCtorEq, if_false]; exact .openBack hm
      next hm => simp only [CCfg.apply, hm]; exact .closeBack hm
      next hm => simp only [CCfg.apply, CCfg.enabled] at hen ⊢; exact .join hm hen
    next ht =>
      split at hnx
      next => simp at hnx
      next hle =>
        split at hnx <;> simp only [Option.some.injEq, reduceCtorEq] at hnx <;> subst hnx
        all_goals (have h1 : 1 ≤ t := Nat.pos_of_ne_zero ht)
        all_goals (have h2 : t ≤ c.n := Nat.le_of_not_lt hle)
        next hp =>
          simp only [CCfg.apply, CCfg.enabled, if_neg ht, if_true] at hen ⊢; exact .wfront t h1 h2 hp hen
        next hp => simp only [CCfg.apply]; exact .wenter t h1 h2 hp
        next hp => simp only [CCfg.apply]; exact .wleave t h1 h2 hp
        next hp => simp only [CCfg.apply, if_neg ht, hp, if_true]; exact .wopen t h1 h2 hp
        next hp =>
          simp only [CCfg.apply, CCfg.enabled, if_neg ht, Nat.add_one_ne_zero, if_false] at hen ⊢
          exact .wback t h1 h2 hp hen
        next hp =>
          simp only [CCfg.apply, if_neg ht, hp, reduceCtorEq, if_false]; exact .wopen2 t h1 h2 hp
        next hp =>
          simp only [CCfg.apply, CCfg.enabled, Bool.not_eq_true'] at hen ⊢; exact .wcenter t h1 h2 hp hen
        next hp => simp only [CCfg.apply]; exact .wcleave t h1 h2 hp
  next => simp at h

theorem CTr.to_step {c : CCfg} {s s' : CSt} (tr : CTr c s s') : ∃ e, c.step s e = some s' := by
  cases tr
  case openFront hm => exact ⟨.fopen 0 0, by simp [CCfg.step, CCfg.next, CCfg.enabled, CCfg.apply, Ev.thread, hm]⟩
  case wait1 hm hf => exact ⟨.fwait 0 s.mi, by simp [CCfg.step, CCfg.next, CCfg.enabled, CCfg.apply, Ev.thread, hm, hf]⟩
  case wait2 hm hf => exact ⟨.fwait 0 s.mi, by simp [CCfg.step, CCfg.next, CCfg.enabled, CCfg.apply, Ev.thread, hm, hf]⟩
  case close1a hm hf => exact ⟨.fclose 0 s.mi, by simp [CCfg.step, CCfg.next, CCfg.enabled, CCfg.apply, Ev.thread, hm, hf]⟩
  case close1b hm hf => exact ⟨.fclose 0 s.mi, by simp [CCfg.step, CCfg.next, CCfg.enabled, CCfg.apply, Ev.thread, hm, hf]⟩
  case close2a hm hf => exact ⟨.fclose 0 s.mi, by simp [CCfg.step, CCfg.next, CCfg.enabled, CCfg.apply, Ev.thread, hm, hf]⟩
  case close2b hm hf => exact ⟨.fclose 0 s.mi, by simp [CCfg.step, CCfg.next, CCfg.enabled, CCfg.apply, Ev.thread, hm, hf]⟩
  case closeFront hm => exact ⟨.fclose 0 0, by simp [CCfg.step, CCfg.next, CCfg.enabled, CCfg.apply, Ev.thread, hm]⟩
  case openBack hm => exact ⟨.fopen 0 (c.n + 1), by simp [CCfg.step, CCfg.next, CCfg.enabled, CCfg.apply, Ev.thread, hm]⟩
  case closeBack hm => exact ⟨.fclose 0 (c.n + 1), by simp [CCfg.step, CCfg.next, CCfg.enabled, CCfg.apply, Ev.thread, hm]⟩
  case join hm hd => exact ⟨.join, by simp [CCfg.step, CCfg.next, CCfg.enabled, CCfg.apply, Ev.thread, hm, hd]⟩
  case wfront t h1 h2 hp hf =>
    have ht : t ≠ 0 := by omega
    have ht' : ¬ c.n < t := by omega
    exact ⟨.fwait t 0, by simp [CCfg.step, CCfg.next, CCfg.enabled, CCfg.apply, Ev.thread, *]⟩
  case wenter t h1 h2 hp =>
    have ht : t ≠ 0 := by omega
    have ht' : ¬ c.n < t := by omega
    exact ⟨.enter t (c.cell (s.pos t)), by simp [CCfg.step, CCfg.next, CCfg.enabled, CCfg.apply, Ev.thread, *]⟩
  case wleave t h1 h2 hp =>
    have ht : t ≠ 0 := by omega
    have ht' : ¬ c.n < t := by omega
    exact ⟨.leave t (c.cell (s.pos t)), by simp [CCfg.step, CCfg.next, CCfg.enabled, CCfg.apply, Ev.thread, *]⟩
  case wopen t h1 h2 hp =>
    have ht : t ≠ 0 := by omega
    have ht' : ¬ c.n < t := by omega
    exact ⟨.fopen t t, by simp [CCfg.step, CCfg.next, CCfg.enabled, CCfg.apply, Ev.thread, *]⟩
  case wback t h1 h2 hp hf =>
    have ht : t ≠ 0 := by omega
    have ht' : ¬ c.n < t := by omega
    exact ⟨.fwait t (c.n + 1), by simp [CCfg.step, CCfg.next, CCfg.enabled, CCfg.apply, Ev.thread, *]⟩
  case wopen2 t h1 h2 hp =>
    have ht : t ≠ 0 := by omega
    have ht' : ¬ c.n < t := by omega
    exact ⟨.fopen t t, by simp [CCfg.step, CCfg.next, CCfg.enabled, CCfg.apply, Ev.thread, *]⟩
  case wcenter t h1 h2 hp hf =>
    have ht : t ≠ 0 := by omega
    have ht' : ¬ c.n < t := by omega
    exact ⟨.center t, by simp [CCfg.step, CCfg.next, CCfg.enabled, CCfg.apply, Ev.thread, *]⟩
  case wcleave t h1 h2 hp =>
    have ht : t ≠ 0 := by omega
    have ht' : ¬ c.n < t := by omega
    exact ⟨.cleave t, by simp [CCfg.step, CCfg.next, CCfg.enabled, CCfg.apply, Ev.thread, *]⟩

theorem CCfg.reach_induct {c : CCfg} {P : CSt → Prop} (h0 : P c.init)
    (hstep : ∀ s s', P s → CTr c s s' → P s') {s : CSt} (hs : c.Reach s) : P s := by
  induction hs with
  | init => exact h0
  | step e _ h ih => exact hstep _ _ ih (CTr.of_step h)

/-! ## the mutex -/

structure CMInv (c : CCfg) (s : CSt) : Prop where
  held : ∀ a, s.ph a = .inComb → s.mutex = true
  uniq : ∀ a b, s.ph a = .inComb → s.ph b = .inComb → a = b
  holder : s.mutex = true → ∃ a, 1 ≤ a ∧ a ≤ c.n ∧ s.ph a = .inComb

theorem CMInv.init (c : CCfg) : CMInv c c.init := by
  constructor <;> grind [CCfg.init]

theorem CMInv.step {c : CCfg} {s s' : CSt} (h : CMInv c s) (tr : CTr c s s') : CMInv c s' := by
  obtain ⟨h1, h2, h3⟩ := h
  refine ⟨?_, ?_, ?_⟩
  · cases tr <;> grind [updP, CCfg.afterElem]
  · cases tr <;> grind [updP, CCfg.afterElem]
  · cases tr
    case wcenter t ht1 ht2 hp hm => exact fun _ => ⟨t, ht1, ht2, by simp [updP]⟩
    case wcleave => simp
    all_goals
      intro hm
      obtain ⟨a, ha1, ha2, ha3⟩ := h3 hm
      exact ⟨a, ha1, ha2, by grind [updP, CCfg.afterElem]⟩

theorem CMInv.reach {c : CCfg} {s : CSt} (hs : c.Reach s) : CMInv c s :=
  CCfg.reach_induct (CMInv.init c) (fun _ _ h tr => h.step tr) hs

/-- at most one worker is inside combine() -/
theorem colored_combine_mutex (c : CCfg) (s : CSt) (hs : c.Reach s)
    (a b : Nat) (ha : 1 ≤ a ∧ a ≤ c.n) (hb : 1 ≤ b ∧ b ≤ c.n)
    (hA : s.ph a = .inComb) (hB : s.ph b = .inComb) : a = b :=
  (CMInv.reach hs).uniq a b hA hB

/-! ## the barrier invariant -/

structure CInv (c : CCfg) (s : CSt) : Prop where
  mi_rng : s.mph = .wait1 ∨ s.mph = .close1 ∨ s.mph = .wait2 ∨ s.mph = .close2 → 1 ≤ s.mi ∧ s.mi ≤ c.n
  mlt : s.mph ≠ .join → s.mph ≠ .done → s.col 0 < c.nc
  f0 : s.fence 0 = true ↔ (s.mph = .wait1 ∨ s.mph = .close1 ∨ s.mph = .closeFront)
  fb : s.fence (c.n + 1) = true ↔ (s.mph = .wait2 ∨ s.mph = .close2 ∨ s.mph = .closeBack)
  fk : s.mph = .close1 ∨ s.mph = .close2 → s.fence s.mi = true
  w_of : ∀ w, 1 ≤ w → w ≤ c.n → s.mph = .openFront →
    s.col w = s.col 0 ∧ s.ph w = .front ∧ s.fence w = false
  w_1 : ∀ w, 1 ≤ w → w ≤ c.n → s.mph = .wait1 ∨ s.mph = .close1 →
    s.col w = s.col 0 ∧
    (s.ph w = .front ∨ s.ph w = .idle ∨ s.ph w = .insc ∨ s.ph w = .toOpen ∨ s.ph w = .back) ∧
    (s.ph w = .idle ∨ s.ph w = .insc → c.cbeg (s.col 0) w ≤ s.pos w ∧ s.pos w < c.cend (s.col 0) w) ∧
    (s.ph w ≠ .back → s.fence w = false) ∧
    (s.ph w = .back → (s.fence w = true ↔ s.mi ≤ w)) ∧
    (w < s.mi → s.ph w = .back)
  w_cf : ∀ w, 1 ≤ w → w ≤ c.n → s.mph = .closeFront ∨ s.mph = .openBack →
    s.col w = s.col 0 ∧ s.ph w = .back ∧ s.fence w = false
  w_2 : ∀ w, 1 ≤ w → w ≤ c.n → s.mph = .wait2 ∨ s.mph = .close2 →
    (s.col w = s.col 0 ∧ (s.ph w = .back ∨ s.ph w = .toOpen2) ∧ s.fence w = false ∧ s.mi ≤ w) ∨
    (s.col w = s.col 0 + 1 ∧ (s.fence w = true ↔ s.mi ≤ w) ∧
      (s.col 0 + 1 < c.nc → s.ph w = .front) ∧
      (¬ s.col 0 + 1 < c.nc → s.ph w = .preComb ∨ s.ph w = .inComb ∨ s.ph w = .done))
  w_cb : ∀ w, 1 ≤ w → w ≤ c.n → s.mph = .closeBack →
    s.col w = s.col 0 + 1 ∧ s.fence w = false ∧
      (s.col 0 + 1 < c.nc → s.ph w = .front) ∧
      (¬ s.col 0 + 1 < c.nc → s.ph w = .preComb ∨ s.ph w = .inComb ∨ s.ph w = .done)
  w_j : ∀ w, 1 ≤ w → w ≤ c.n → s.mph = .join ∨ s.mph = .done →
    s.ph w = .preComb ∨ s.ph w = .inComb ∨ s.ph w = .done

theorem CInv.init (c : CCfg) : CInv c c.init := by
  constructor <;> grind [CCfg.init]

set_option hygiene false in
/-- instantiate the per-worker parts of the invariant at a given index -/
local macro "cinv_inst" w:term : tactic => `(tactic| (
  have := h6 $w; have := h7 $w; have := h8 $w; have := h9 $w; have := h10 $w; have := h11 $w))

set_option hygiene false in
local macro "cinv_glob" : tactic => `(tactic| (
  clear h6 h7 h8 h9 h10 h11; grind (splits := 40) [updB, updP, upd, CCfg.afterElem]))

set_option hygiene false in
local macro "cinv_wrk" : tactic => `(tactic| (
  intro w hw1 hw2; cinv_inst w; clear h6 h7 h8 h9 h10 h11; grind (splits := 40) [updB, updP, upd, CCfg.afterElem]))

theorem CInv.step_openFront {c : CCfg} (hn : 1 ≤ c.n) {s : CSt} (h : CInv c s) (g0 : s.mph = .openFront) :
    CInv c { s with fence := updB s.fence 0 true, mph := .wait1, mi := 1 } := by
  obtain ⟨h1, h2, h3, h4, h5, h6, h7, h8, h9, h10, h11⟩ := h
  cinv_inst s.mi
  refine ⟨?_, ?_, ?_, ?_, ?_, ?_, ?_, ?_, ?_, ?_, ?_⟩
  · cinv_glob
  · cinv_glob
  · cinv_glob
  · cinv_glob
  · cinv_glob
  · cinv_wrk
  · cinv_wrk
  · cinv_wrk
  · cinv_wrk
  · cinv_wrk
  · cinv_wrk

theorem CInv.step_wait1 {c : CCfg} (hn : 1 ≤ c.n) {s : CSt} (h : CInv c s) (g0 : s.mph = .wait1) (g1 : s.fence s.mi = true) :
    CInv c { s with mph := .close1 } := by
  obtain ⟨h1, h2, h3, h4, h5, h6, h7, h8, h9, h10, h11⟩ := h
  cinv_inst s.mi
  refine ⟨?_, ?_, ?_, ?_, ?_, ?_, ?_, ?_, ?_, ?_, ?_⟩
  · cinv_glob
  · cinv_glob
  · cinv_glob
  · cinv_glob
  · cinv_glob
  · cinv_wrk
  · cinv_wrk
  · cinv_wrk
  · cinv_wrk
  · cinv_wrk
  · cinv_wrk

theorem CInv.step_wait2 {c : CCfg} (hn : 1 ≤ c.n) {s : CSt} (h : CInv c s) (g0 : s.mph = .wait2) (g1 : s.fence s.mi = true) :
    CInv c { s with mph := .close2 } := by
  obtain ⟨h1, h2, h3, h4, h5, h6, h7, h8, h9, h10, h11⟩ := h
  cinv_inst s.mi
  refine ⟨?_, ?_, ?_, ?_, ?_, ?_, ?_, ?_, ?_, ?_, ?_⟩
  · cinv_glob
  · cinv_glob
  · cinv_glob
  · cinv_glob
  · cinv_glob
  · cinv_wrk
  · cinv_wrk
  · cinv_wrk
  · cinv_wrk
  · cinv_wrk
  · cinv_wrk

theorem CInv.step_close1a {c : CCfg} (hn : 1 ≤ c.n) {s : CSt} (h : CInv c s) (g0 : s.mph = .close1) (g1 : s.mi < c.n) :
    CInv c { s with fence := updB s.fence s.mi false, mph := .wait1, mi := s.mi + 1 } := by
  obtain ⟨h1, h2, h3, h4, h5, h6, h7, h8, h9, h10, h11⟩ := h
  cinv_inst s.mi
  refine ⟨?_, ?_, ?_, ?_, ?_, ?_, ?_, ?_, ?_, ?_, ?_⟩
  · cinv_glob
  · cinv_glob
  · cinv_glob
  · cinv_glob
  · cinv_glob
  · cinv_wrk
  · cinv_wrk
  · cinv_wrk
  · cinv_wrk
  · cinv_wrk
  · cinv_wrk

theorem CInv.step_close1b {c : CCfg} (hn : 1 ≤ c.n) {s : CSt} (h : CInv c s) (g0 : s.mph = .close1) (g1 : ¬ s.mi < c.n) :
    CInv c { s with fence := updB s.fence s.mi false, mph := .closeFront } := by
  obtain ⟨h1, h2, h3, h4, h5, h6, h7, h8, h9, h10, h11⟩ := h
  cinv_inst s.mi
  refine ⟨?_, ?_, ?_, ?_, ?_, ?_, ?_, ?_, ?_, ?_, ?_⟩
  · cinv_glob
  · cinv_glob
  · cinv_glob
  · cinv_glob
  · cinv_glob
  · cinv_wrk
  · cinv_wrk
  · cinv_wrk
  · cinv_wrk
  · cinv_wrk
  · cinv_wrk

theorem CInv.step_close2a {c : CCfg} (hn : 1 ≤ c.n) {s : CSt} (h : CInv c s) (g0 : s.mph = .close2) (g1 : s.mi < c.n) :
    CInv c { s with fence := updB s.fence s.mi false, mph := .wait2, mi := s.mi + 1 } := by
  obtain ⟨h1, h2, h3, h4, h5, h6, h7, h8, h9, h10, h11⟩ := h
  cinv_inst s.mi
  refine ⟨?_, ?_, ?_, ?_, ?_, ?_, ?_, ?_, ?_, ?_, ?_⟩
  · cinv_glob
  · cinv_glob
  · cinv_glob
  · cinv_glob
  · cinv_glob
  · cinv_wrk
  · cinv_wrk
  · cinv_wrk
  · cinv_wrk
  · cinv_wrk
  · cinv_wrk

theorem CInv.step_close2b {c : CCfg} (hn : 1 ≤ c.n) {s : CSt} (h : CInv c s) (g0 : s.mph = .close2) (g1 : ¬ s.mi < c.n) :
    CInv c { s with fence := updB s.fence s.mi false, mph := .closeBack } := by
  obtain ⟨h1, h2, h3, h4, h5, h6, h7, h8, h9, h10, h11⟩ := h
  cinv_inst s.mi
  refine ⟨?_, ?_, ?_, ?_, ?_, ?_, ?_, ?_, ?_, ?_, ?_⟩
  · cinv_glob
  · cinv_glob
  · cinv_glob
  · cinv_glob
  · cinv_glob
  · cinv_wrk
  · cinv_wrk
  · cinv_wrk
  · cinv_wrk
  · cinv_wrk
  · cinv_wrk

theorem CInv.step_closeFront {c : CCfg} (hn : 1 ≤ c.n) {s : CSt} (h : CInv c s) (g0 : s.mph = .closeFront) :
    CInv c { s with fence := updB s.fence 0 false, mph := .openBack } := by
  obtain ⟨h1, h2, h3, h4, h5, h6, h7, h8, h9, h10, h11⟩ := h
  cinv_inst s.mi
  refine ⟨?_, ?_, ?_, ?_, ?_, ?_, ?_, ?_, ?_, ?_, ?_⟩
  · cinv_glob
  · cinv_glob
  · cinv_glob
  · cinv_glob
  · cinv_glob
  · cinv_wrk
  · cinv_wrk
  · cinv_wrk
  · cinv_wrk
  · cinv_wrk
  · cinv_wrk

theorem CInv.step_openBack {c : CCfg} (hn : 1 ≤ c.n) {s : CSt} (h : CInv c s) (g0 : s.mph = .openBack) :
    CInv c { s with fence := updB s.fence (c.n + 1) true, mph := .wait2, mi := 1 } := by
  obtain ⟨h1, h2, h3, h4, h5, h6, h7, h8, h9, h10, h11⟩ := h
  cinv_inst s.mi
  refine ⟨?_, ?_, ?_, ?_, ?_, ?_, ?_, ?_, ?_, ?_, ?_⟩
  · cinv_glob
  · cinv_glob
  · cinv_glob
  · cinv_glob
  · cinv_glob
  · cinv_wrk
  · cinv_wrk
  · cinv_wrk
  · cinv_wrk
  · cinv_wrk
  · cinv_wrk

theorem CInv.step_closeBack {c : CCfg} (hn : 1 ≤ c.n) {s : CSt} (h : CInv c s) (g0 : s.mph = .closeBack) :
    CInv c { s with fence := updB s.fence (c.n + 1) false, col := upd s.col 0 (s.col 0 + 1),
                       mph := if s.col 0 + 1 < c.nc then .openFront else .join } := by
  obtain ⟨h1, h2, h3, h4, h5, h6, h7, h8, h9, h10, h11⟩ := h
  cinv_inst s.mi
  refine ⟨?_, ?_, ?_, ?_, ?_, ?_, ?_, ?_, ?_, ?_, ?_⟩
  · cinv_glob
  · cinv_glob
  · cinv_glob
  · cinv_glob
  · cinv_glob
  · cinv_wrk
  · cinv_wrk
  · cinv_wrk
  · cinv_wrk
  · cinv_wrk
  · cinv_wrk

theorem CInv.step_join {c : CCfg} (hn : 1 ≤ c.n) {s : CSt} (h : CInv c s) (g0 : s.mph = .join) (g1 : c.allDone s = true) :
    CInv c { s with mph := .done } := by
  obtain ⟨h1, h2, h3, h4, h5, h6, h7, h8, h9, h10, h11⟩ := h
  cinv_inst s.mi
  refine ⟨?_, ?_, ?_, ?_, ?_, ?_, ?_, ?_, ?_, ?_, ?_⟩
  · cinv_glob
  · cinv_glob
  · cinv_glob
  · cinv_glob
  · cinv_glob
  · cinv_wrk
  · cinv_wrk
  · cinv_wrk
  · cinv_wrk
  · cinv_wrk
  · cinv_wrk

theorem CInv.step_wfront {c : CCfg} (hn : 1 ≤ c.n) {s : CSt} (h : CInv c s) (t : Nat) (g0 : 1 ≤ t) (g1 : t ≤ c.n) (g2 : s.ph t = .front) (g3 : s.fence 0 = true) :
    CInv c { s with pos := upd s.pos t (c.cbeg (s.col t) t),
                       ph := updP s.ph t (c.afterElem s t (c.cbeg (s.col t) t)) } := by
  obtain ⟨h1, h2, h3, h4, h5, h6, h7, h8, h9, h10, h11⟩ := h
  cinv_inst s.mi
  cinv_inst t
  refine ⟨?_, ?_, ?_, ?_, ?_, ?_, ?_, ?_, ?_, ?_, ?_⟩
  · cinv_glob
  · cinv_glob
  · cinv_glob
  · cinv_glob
  · cinv_glob
  · cinv_wrk
  · cinv_wrk
  · cinv_wrk
  · cinv_wrk
  · cinv_wrk
  · cinv_wrk

theorem CInv.step_wenter {c : CCfg} (hn : 1 ≤ c.n) {s : CSt} (h : CInv c s) (t : Nat) (g0 : 1 ≤ t) (g1 : t ≤ c.n) (g2 : s.ph t = .idle) :
    CInv c { s with ph := updP s.ph t .insc } := by
  obtain ⟨h1, h2, h3, h4, h5, h6, h7, h8, h9, h10, h11⟩ := h
  cinv_inst s.mi
  cinv_inst t
  refine ⟨?_, ?_, ?_, ?_, ?_, ?_, ?_, ?_, ?_, ?_, ?_⟩
  · cinv_glob
  · cinv_glob
  · cinv_glob
  · cinv_glob
  · cinv_glob
  · cinv_wrk
  · cinv_wrk
  · cinv_wrk
  · cinv_wrk
  · cinv_wrk
  · cinv_wrk

theorem CInv.step_wleave {c : CCfg} (hn : 1 ≤ c.n) {s : CSt} (h : CInv c s) (t : Nat) (g0 : 1 ≤ t) (g1 : t ≤ c.n) (g2 : s.ph t = .insc) :
    CInv c { s with pos := upd s.pos t (s.pos t + 1), ph := updP s.ph t (c.afterElem s t (s.pos t + 1)) } := by
  obtain ⟨h1, h2, h3, h4, h5, h6, h7, h8, h9, h10, h11⟩ := h
  cinv_inst s.mi
  cinv_inst t
  refine ⟨?_, ?_, ?_, ?_, ?_, ?_, ?_, ?_, ?_, ?_, ?_⟩
  · cinv_glob
  · cinv_glob
  · cinv_glob
  · cinv_glob
  · cinv_glob
  · cinv_wrk
  · cinv_wrk
  · cinv_wrk
  · cinv_wrk
  · cinv_wrk
  · cinv_wrk

theorem CInv.step_wopen {c : CCfg} (hn : 1 ≤ c.n) {s : CSt} (h : CInv c s) (t : Nat) (g0 : 1 ≤ t) (g1 : t ≤ c.n) (g2 : s.ph t = .toOpen) :
    CInv c { s with fence := updB s.fence t true, ph := updP s.ph t .back } := by
  obtain ⟨h1, h2, h3, h4, h5, h6, h7, h8, h9, h10, h11⟩ := h
  cinv_inst s.mi
  cinv_inst t
  refine ⟨?_, ?_, ?_, ?_, ?_, ?_, ?_, ?_, ?_, ?_, ?_⟩
  · cinv_glob
  · cinv_glob
  · cinv_glob
  · cinv_glob
  · cinv_glob
  · cinv_wrk
  · cinv_wrk
  · cinv_wrk
  · cinv_wrk
  · cinv_wrk
  · cinv_wrk

theorem CInv.step_wback {c : CCfg} (hn : 1 ≤ c.n) {s : CSt} (h : CInv c s) (t : Nat) (g0 : 1 ≤ t) (g1 : t ≤ c.n) (g2 : s.ph t = .back) (g3 : s.fence (c.n + 1) = true) :
    CInv c { s with ph := updP s.ph t .toOpen2 } := by
  obtain ⟨h1, h2, h3, h4, h5, h6, h7, h8, h9, h10, h11⟩ := h
  cinv_inst s.mi
  cinv_inst t
  refine ⟨?_, ?_, ?_, ?_, ?_, ?_, ?_, ?_, ?_, ?_, ?_⟩
  · cinv_glob
  · cinv_glob
  · cinv_glob
  · cinv_glob
  · cinv_glob
  · cinv_wrk
  · cinv_wrk
  · cinv_wrk
  · cinv_wrk
  · cinv_wrk
  · cinv_wrk

theorem CInv.step_wopen2 {c : CCfg} (hn : 1 ≤ c.n) {s : CSt} (h : CInv c s) (t : Nat) (g0 : 1 ≤ t) (g1 : t ≤ c.n) (g2 : s.ph t = .toOpen2) :
    CInv c { s with fence := updB s.fence t true, col := upd s.col t (s.col t + 1),
                       ph := updP s.ph t (if s.col t + 1 < c.nc then .front else if c.comb then .preComb else .done) } := by
  obtain ⟨h1, h2, h3, h4, h5, h6, h7, h8, h9, h10, h11⟩ := h
  cinv_inst s.mi
  cinv_inst t
  refine ⟨?_, ?_, ?_, ?_, ?_, ?_, ?_, ?_, ?_, ?_, ?_⟩
  · cinv_glob
  · cinv_glob
  · cinv_glob
  · cinv_glob
  · cinv_glob
  · cinv_wrk
  · cinv_wrk
  · cinv_wrk
  · cinv_wrk
  · cinv_wrk
  · cinv_wrk

theorem CInv.step_wcenter {c : CCfg} (hn : 1 ≤ c.n) {s : CSt} (h : CInv c s) (t : Nat) (g0 : 1 ≤ t) (g1 : t ≤ c.n) (g2 : s.ph t = .preComb) (g3 : s.mutex = false) :
    CInv c { s with ph := updP s.ph t .inComb, mutex := true } := by
  obtain ⟨h1, h2, h3, h4, h5, h6, h7, h8, h9, h10, h11⟩ := h
  cinv_inst s.mi
  cinv_inst t
  refine ⟨?_, ?_, ?_, ?_, ?_, ?_, ?_, ?_, ?_, ?_, ?_⟩
  · cinv_glob
  · cinv_glob
  · cinv_glob
  · cinv_glob
  · cinv_glob
  · cinv_wrk
  · cinv_wrk
  · cinv_wrk
  · cinv_wrk
  · cinv_wrk
  · cinv_wrk

theorem CInv.step_wcleave {c : CCfg} (hn : 1 ≤ c.n) {s : CSt} (h : CInv c s) (t : Nat) (g0 : 1 ≤ t) (g1 : t ≤ c.n) (g2 : s.ph t = .inComb) :
    CInv c { s with ph := updP s.ph t .done, mutex := false } := by
  obtain ⟨h1, h2, h3, h4, h5, h6, h7, h8, h9, h10, h11⟩ := h
  cinv_inst s.mi
  cinv_inst t
  refine ⟨?_, ?_, ?_, ?_, ?_, ?_, ?_, ?_, ?_, ?_, ?_⟩
  · cinv_glob
  · cinv_glob
  · cinv_glob
  · cinv_glob
  · cinv_glob
  · cinv_wrk
  · cinv_wrk
  · cinv_wrk
  · cinv_wrk
  · cinv_wrk
  · cinv_wrk

theorem CInv.step {c : CCfg} (hn : 1 ≤ c.n) {s s' : CSt} (h : CInv c s) (tr : CTr c s s') : CInv c s' := by
  cases tr
  case openFront g0 => exact h.step_openFront hn g0
  case wait1 g0 g1 => exact h.step_wait1 hn g0 g1
  case wait2 g0 g1 => exact h.step_wait2 hn g0 g1
  case close1a g0 g1 => exact h.step_close1a hn g0 g1
  case close1b g0 g1 => exact h.step_close1b hn g0 g1
  case close2a g0 g1 => exact h.step_close2a hn g0 g1
  case close2b g0 g1 => exact h.step_close2b hn g0 g1
  case closeFront g0 => exact h.step_closeFront hn g0
  case openBack g0 => exact h.step_openBack hn g0
  case closeBack g0 => exact h.step_closeBack hn g0
  case join g0 g1 => exact h.step_join hn g0 g1
  case wfront t g0 g1 g2 g3 => exact h.step_wfront hn t g0 g1 g2 g3
  case wenter t g0 g1 g2 => exact h.step_wenter hn t g0 g1 g2
  case wleave t g0 g1 g2 => exact h.step_wleave hn t g0 g1 g2
  case wopen t g0 g1 g2 => exact h.step_wopen hn t g0 g1 g2
  case wback t g0 g1 g2 g3 => exact h.step_wback hn t g0 g1 g2 g3
  case wopen2 t g0 g1 g2 => exact h.step_wopen2 hn t g0 g1 g2
  case wcenter t g0 g1 g2 g3 => exact h.step_wcenter hn t g0 g1 g2 g3
  case wcleave t g0 g1 g2 => exact h.step_wcleave hn t g0 g1 g2

theorem CInv.reach {c : CCfg} (hn : 1 ≤ c.n) {s : CSt} (hs : c.Reach s) : CInv c s :=
  CCfg.reach_induct (CInv.init c) (fun _ _ h tr => h.step hn tr) hs

/-- all workers that are inside scatter() at the same time work on the same colour, each inside its own share -/
theorem colored_safe (c : CCfg) (hn : 1 ≤ c.n) (s : CSt) (hs : c.Reach s) (a b : Nat)
    (ha : 1 ≤ a ∧ a ≤ c.n) (hb : 1 ≤ b ∧ b ≤ c.n) (hA : s.ph a = .insc) (hB : s.ph b = .insc) :
    s.col a = s.col b ∧ c.cbeg (s.col a) a ≤ s.pos a ∧ s.pos a < c.cend (s.col a) a := by
  obtain ⟨h1, h2, h3, h4, h5, h6, h7, h8, h9, h10, h11⟩ := CInv.reach hn hs
  cinv_inst a
  cinv_inst b
  clear h6 h7 h8 h9 h10 h11
  cases hm : s.mph <;> simp_all <;> grind

/-! ## deadlock freedom -/

theorem CCfg.not_allDone {c : CCfg} {s : CSt} (h : ¬ c.allDone s = true) :
    ∃ w, 1 ≤ w ∧ w ≤ c.n ∧ s.ph w ≠ .done := by
  simp only [CCfg.allDone, List.all_eq_true, List.mem_range, beq_iff_eq, Classical.not_forall] at h
  obtain ⟨k, hk, hne⟩ := h
  exact ⟨k + 1, by omega, by omega, hne⟩

theorem CInv.progress {c : CCfg} {s : CSt} (h : CInv c s) (hx : CMInv c s) (hf : s.mph ≠ .done) :
    ∃ s', CTr c s s' := by
  obtain ⟨h1, h2, h3, h4, h5, h6, h7, h8, h9, h10, h11⟩ := h
  cases hm : s.mph
  case openFront => exact ⟨_, .openFront hm⟩
  case closeFront => exact ⟨_, .closeFront hm⟩
  case openBack => exact ⟨_, .openBack hm⟩
  case closeBack => exact ⟨_, .closeBack hm⟩
  case done => exact absurd hm hf
  case close1 =>
    by_cases hk : s.mi < c.n
    · exact ⟨_, .close1a hm hk⟩
    · exact ⟨_, .close1b hm hk⟩
  case close2 =>
    by_cases hk : s.mi < c.n
    · exact ⟨_, .close2a hm hk⟩
    · exact ⟨_, .close2b hm hk⟩
  case wait1 =>
    by_cases hk : s.fence s.mi = true
    · exact ⟨_, .wait1 hm hk⟩
    · obtain ⟨k1, k2⟩ := h1 (by simp [hm])
      have h0 : s.fence 0 = true := h3.2 (by simp [hm])
      obtain ⟨-, hp, -, -, hb, -⟩ := h7 s.mi k1 k2 (by simp [hm])
      rcases hp with hp | hp | hp | hp | hp
      · exact ⟨_, .wfront _ k1 k2 hp h0⟩
      · exact ⟨_, .wenter _ k1 k2 hp⟩
      · exact ⟨_, .wleave _ k1 k2 hp⟩
      · exact ⟨_, .wopen _ k1 k2 hp⟩
      · exact absurd ((hb hp).2 (Nat.le_refl _)) hk
  case wait2 =>
    by_cases hk : s.fence s.mi = true
    · exact ⟨_, .wait2 hm hk⟩
    · obtain ⟨k1, k2⟩ := h1 (by simp [hm])
      have h0 : s.fence (c.n + 1) = true := h4.2 (by simp [hm])
      rcases h9 s.mi k1 k2 (by simp [hm]) with ⟨-, hp | hp, -, -⟩ | ⟨-, hb, -⟩
      · exact ⟨_, .wback _ k1 k2 hp h0⟩
      · exact ⟨_, .wopen2 _ k1 k2 hp⟩
      · exact absurd (hb.2 (Nat.le_refl _)) hk
  case join =>
    by_cases hd : c.allDone s = true
    · exact ⟨_, .join hm hd⟩
    · obtain ⟨w, w1, w2, hw⟩ := CCfg.not_allDone hd
      rcases h11 w w1 w2 (by simp [hm]) with hp | hp | hp
      · by_cases hmu : s.mutex = true
        · obtain ⟨a, a1, a2, ha⟩ := hx.holder hmu
          exact ⟨_, .wcleave a a1 a2 ha⟩
        · exact ⟨_, .wcenter w w1 w2 hp (by simpa using hmu)⟩
      · exact ⟨_, .wcleave w w1 w2 hp⟩
      · exact absurd hp hw

/-- no deadlock: every reachable non-final state has an enabled transition -/
theorem colored_no_deadlock (c : CCfg) (hn : 1 ≤ c.n) (s : CSt) (hs : c.Reach s)
    (hf : CCfg.final s = false) : ∃ e s', c.step s e = some s' := by
  have hf' : s.mph ≠ .done := by simpa [CCfg.final] using hf
  obtain ⟨s', tr⟩ := (CInv.reach hn hs).progress (CMInv.reach hs) hf'
  obtain ⟨e, he⟩ := tr.to_step
  exact ⟨e, s', he⟩

end FeatModel.DA
