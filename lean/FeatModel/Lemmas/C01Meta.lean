import FeatModel.Lemmas.C01Sum
import FeatModel.Model.LA.Meta
import Mathlib.Algebra.Order.Field.Rat
import Mathlib.Algebra.Order.Ring.Abs
import Mathlib.Tactic.Linarith
/-!
Meta-matrices: the specification of one `apply` member (`Spec`), its stability under the first/rest combinators
(`chain`, `split`, `onFirst`, `onRest`), and the structural induction over `MetaMat` given the leaf specifications.
-/
open Finset
namespace FeatModel.LA

theorem slice_size {α : Type} (v : Array α) (off n : Nat) (h : off + n ≤ v.size) : (slice v off n).size = n := by
  unfold slice
  simp [Array.size_extract]
  omega

theorem slice_getD (v : Array Rat) (off n k : Nat) (h : off + n ≤ v.size) (hk : k < n) :
    (slice v off n).getD k 0 = v.getD (off + k) 0 := by
  have hs := slice_size v off n h
  have h1 : k < (slice v off n).size := by rw [hs]; exact hk
  have h2 : off + k < v.size := by omega
  rw [Array.getD_eq_getD_getElem?, Array.getD_eq_getD_getElem?, Array.getElem?_eq_getElem h1,
    Array.getElem?_eq_getElem h2]
  simp [slice]

theorem append_getD (a b : Array Rat) (i : Nat) (hi : i < a.size + b.size) :
    (a ++ b).getD i 0 = if i < a.size then a.getD i 0 else b.getD (i - a.size) 0 := by
  have h1 : i < (a ++ b).size := by rw [Array.size_append]; exact hi
  rw [Array.getD_eq_getD_getElem?, Array.getElem?_eq_getElem h1, Array.getElem_append]
  split
  · simp
  · rename_i h
    have h2 : i - a.size < b.size := by omega
    simp [Array.getD, h2]

/-- `y_i` for the axpy forms, 0 for the plain product -/
def baseOf (ax : Option Rat) (y : Array Rat) (i : Nat) : Rat :=
  match ax with
  | none => 0
  | some _ => y.getD i 0

/-- what an `apply` member has to do: for matching sizes, `|alpha| ≥ eps` and `r` either separate from or identical
    to `y`, it returns normally with `r_i = y_i + alpha·dot x i` (resp. `dot x i` for the plain product) -/
def Spec (f : MetaOp Rat) (nOut nIn : Nat) (dot : Array Rat → Nat → Rat) : Prop :=
  ∀ (ax : Option Rat) (x y r : Array Rat) (ali : Bool),
    (∀ al, ax = some al → epsQ ≤ |al|) → r.size = nOut → (ax.isSome = true → y.size = nOut) → x.size = nIn →
    (ali = true → r = y) →
    ∃ r', f ax x y r ali = some r' ∧ r'.size = nOut ∧
      ∀ i, i < nOut → r'.getD i 0 = baseOf ax y i + ax.getD 1 * dot x i

theorem Spec.congr {f : MetaOp Rat} {nOut nIn : Nat} {d d' : Array Rat → Nat → Rat} (h : Spec f nOut nIn d)
    (hd : ∀ x i, x.size = nIn → i < nOut → d x i = d' x i) : Spec f nOut nIn d' := by
  intro ax x y r ali h1 h2 h3 h4 h5
  obtain ⟨r', e1, e2, e3⟩ := h ax x y r ali h1 h2 h3 h4 h5
  exact ⟨r', e1, e2, fun i hi => by rw [e3 i hi, hd x i h4 hi]⟩

theorem epsQ_le_one : epsQ ≤ |(1 : Rat)| := by
  simp [epsQ]
  norm_num

/-- the blocks of a block row act on the same result vector, one after the other -/
theorem chain_spec {F R : MetaOp Rat} {nOut n1 n2 : Nat} {dF dR : Array Rat → Nat → Rat}
    (hF : Spec F nOut n1 dF) (hR : Spec R nOut n2 dR) :
    Spec (chain n1 n2 F R) nOut (n1 + n2) (fun x i => dF (slice x 0 n1) i + dR (slice x n1 n2) i) := by
  intro ax x y r ali h1 h2 h3 h4 h5
  obtain ⟨r1, e1, e2, e3⟩ := hF ax (slice x 0 n1) y r ali h1 h2 h3 (slice_size x 0 n1 (by omega)) h5
  have hax' : ∀ al, some (ax.getD 1) = some al → epsQ ≤ |al| := by
    intro al hal
    cases ax with
    | none => simp at hal; rw [← hal]; exact epsQ_le_one
    | some a => simp at hal; rw [← hal]; exact h1 a rfl
  obtain ⟨r2, f1, f2, f3⟩ := hR (some (ax.getD 1)) (slice x n1 n2) r1 r1 true hax' e2 (fun _ => e2)
    (slice_size x n1 n2 (by omega)) (fun _ => rfl)
  refine ⟨r2, by simp [chain, e1, f1], f2, ?_⟩
  intro i hi
  rw [f3 i hi, baseOf, e3 i hi]
  simp only [Option.getD_some]
  ring

/-- the blocks of a block column produce the parts of the result vector -/
theorem split_spec {F R : MetaOp Rat} {n1 n2 nIn : Nat} {dF dR : Array Rat → Nat → Rat}
    (hF : Spec F n1 nIn dF) (hR : Spec R n2 nIn dR) :
    Spec (split n1 n2 F R) (n1 + n2) nIn (fun x i => if i < n1 then dF x i else dR x (i - n1)) := by
  intro ax x y r ali h1 h2 h3 h4 h5
  have hy1 : ax.isSome = true → (slice y 0 n1).size = n1 := fun h => slice_size y 0 n1 (by have := h3 h; omega)
  have hy2 : ax.isSome = true → (slice y n1 n2).size = n2 := fun h => slice_size y n1 n2 (by have := h3 h; omega)
  obtain ⟨r1, e1, e2, e3⟩ := hF ax x (slice y 0 n1) (slice r 0 n1) ali h1 (slice_size r 0 n1 (by omega)) hy1 h4
    (fun h => by rw [h5 h])
  obtain ⟨r2, f1, f2, f3⟩ := hR ax x (slice y n1 n2) (slice r n1 n2) ali h1 (slice_size r n1 n2 (by omega)) hy2 h4
    (fun h => by rw [h5 h])
  refine ⟨r1 ++ r2, by simp [split, e1, f1], by rw [Array.size_append, e2, f2], ?_⟩
  intro i hi
  rw [append_getD r1 r2 i (by rw [e2, f2]; exact hi), e2]
  have hb : ∀ (off n k : Nat), k < n → (ax.isSome = true → off + n ≤ y.size) →
      baseOf ax (slice y off n) k = baseOf ax y (off + k) := by
    intro off n k hk hle
    cases ax with
    | none => rfl
    | some a => simp only [baseOf]; exact slice_getD y off n k (hle rfl) hk
  beta_reduce
  by_cases hlt : i < n1
  · rw [if_pos hlt, if_pos hlt, e3 i hlt, hb 0 n1 i hlt (fun h => by have := h3 h; omega), Nat.zero_add]
  · rw [if_neg hlt, if_neg hlt, f3 (i - n1) (by omega), hb n1 n2 (i - n1) (by omega) (fun h => by have := h3 h; omega)]
    congr 2
    omega

theorem onFirst_spec {F : MetaOp Rat} {nOut n k : Nat} {d : Array Rat → Nat → Rat} (hF : Spec F nOut n d) :
    Spec (onFirst n F) nOut (n + k) (fun x i => d (slice x 0 n) i) := by
  intro ax x y r ali h1 h2 h3 h4 h5
  exact hF ax (slice x 0 n) y r ali h1 h2 h3 (slice_size x 0 n (by omega)) h5

theorem onRest_spec {F : MetaOp Rat} {nOut off n : Nat} {d : Array Rat → Nat → Rat} (hF : Spec F nOut n d) :
    Spec (onRest off n F) nOut (off + n) (fun x i => d (slice x off n) i) := by
  intro ax x y r ali h1 h2 h3 h4 h5
  exact hF ax (slice x off n) y r ali h1 h2 h3 (slice_size x off n (by omega)) h5

/-- a sum over the columns of `[A | B]` splits into the sums over the two blocks with the sliced operand -/
theorem sum_hsplit (A B : Nat → Rat) (x : Array Rat) (c1 c2 : Nat) (hx : x.size = c1 + c2) :
    ∑ k ∈ range (c1 + c2), (if k < c1 then A k else B (k - c1)) * x.getD k 0
      = ∑ k ∈ range c1, A k * (slice x 0 c1).getD k 0 + ∑ k ∈ range c2, B k * (slice x c1 c2).getD k 0 := by
  rw [Finset.sum_range_add]
  congr 1
  · apply Finset.sum_congr rfl
    intro k hk
    rw [Finset.mem_range] at hk
    rw [if_pos hk, slice_getD x 0 c1 k (by omega) hk, Nat.zero_add]
  · apply Finset.sum_congr rfl
    intro k hk
    rw [Finset.mem_range] at hk
    rw [if_neg (by omega), slice_getD x c1 c2 k (by omega) hk, Nat.add_sub_cancel_left]

namespace MetaMat

/-- row `i` of `M x` resp. of `Mᵀ x` for the dense meaning of `M` -/
def dot (M : MetaMat Rat) (tr : Bool) (x : Array Rat) (i : Nat) : Rat :=
  if tr then ∑ k ∈ range M.rows, M.entry k i * x.getD k 0 else ∑ k ∈ range M.cols, M.entry i k * x.getD k 0

/-- both `apply` directions of `M` meet their specification -/
def Ok (M : MetaMat Rat) : Prop :=
  Spec (M.goQ false) M.rows M.cols (M.dot false) ∧
  (M.noBanded = true → Spec (M.goQ true) M.cols M.rows (M.dot true))

theorem row_ok {f r : MetaMat Rat} (hf : f.Ok) (hr : r.Ok) (hrows : f.rows = r.rows) : (row f r).Ok := by
  constructor
  · have h := chain_spec hf.1 (by rw [hrows]; exact hr.1)
    refine h.congr ?_
    intro x i hx _
    simp only [dot, Bool.false_eq_true, if_false, entry, cols]
    exact (sum_hsplit (fun k => f.entry i k) (fun k => r.entry i k) x f.cols r.cols hx).symm
  · intro hnb
    simp only [noBanded, Bool.and_eq_true] at hnb
    have h := split_spec (hf.2 hnb.1) (by rw [hrows]; exact hr.2 hnb.2)
    refine h.congr ?_
    intro x i _ _
    simp only [dot, if_true, entry, rows]
    by_cases hi : i < f.cols
    · simp only [if_pos hi]
    · simp only [if_neg hi, hrows]

theorem col_ok {f r : MetaMat Rat} (hf : f.Ok) (hr : r.Ok) (hcols : f.cols = r.cols) : (col f r).Ok := by
  constructor
  · have h := split_spec hf.1 (by rw [hcols]; exact hr.1)
    refine h.congr ?_
    intro x i _ _
    simp only [dot, Bool.false_eq_true, if_false, entry, cols]
    by_cases hi : i < f.rows
    · simp only [if_pos hi]
    · simp only [if_neg hi, hcols]
  · intro hnb
    simp only [noBanded, Bool.and_eq_true] at hnb
    have h := chain_spec (hf.2 hnb.1) (by rw [hcols]; exact hr.2 hnb.2)
    refine h.congr ?_
    intro x i hx _
    simp only [dot, if_true, entry, rows]
    exact (sum_hsplit (fun k => f.entry k i) (fun k => r.entry k i) x f.rows r.rows hx).symm

theorem diag_ok {f r : MetaMat Rat} (hf : f.Ok) (hr : r.Ok) : (diag f r).Ok := by
  constructor
  · have h := split_spec (onFirst_spec (k := r.cols) hf.1) (onRest_spec (off := f.cols) hr.1)
    refine h.congr ?_
    intro x i hx _
    simp only [dot, Bool.false_eq_true, if_false, entry, cols]
    by_cases hi : i < f.rows
    · simp only [if_pos hi]
      refine Eq.trans ?_ (sum_hsplit (fun k => f.entry i k) (fun _ => 0) x f.cols r.cols hx).symm
      simp
    · simp only [if_neg hi]
      refine Eq.trans ?_ (sum_hsplit (fun _ => 0) (fun k => r.entry (i - f.rows) k) x f.cols r.cols hx).symm
      simp
  · intro hnb
    simp only [noBanded, Bool.and_eq_true] at hnb
    have h := split_spec (onFirst_spec (k := r.rows) (hf.2 hnb.1)) (onRest_spec (off := f.rows) (hr.2 hnb.2))
    refine h.congr ?_
    intro x i hx _
    simp only [dot, if_true, entry, rows]
    by_cases hi : i < f.cols
    · simp only [if_pos hi]
      have e : ∑ k ∈ range (f.rows + r.rows),
          (if k < f.rows then f.entry k i else 0) * x.getD k 0
          = ∑ k ∈ range (f.rows + r.rows), (if k < f.rows then f.entry k i else (fun _ => (0 : Rat)) (k - f.rows)) * x.getD k 0 := rfl
      rw [e, sum_hsplit (fun k => f.entry k i) (fun _ => 0) x f.rows r.rows hx]
      simp
    · simp only [if_neg hi]
      have e : ∑ k ∈ range (f.rows + r.rows),
          (if k < f.rows then 0 else r.entry (k - f.rows) (i - f.cols)) * x.getD k 0
          = ∑ k ∈ range (f.rows + r.rows), (if k < f.rows then (fun _ => (0 : Rat)) k else r.entry (k - f.rows) (i - f.cols)) * x.getD k 0 := rfl
      rw [e, sum_hsplit (fun _ => 0) (fun k => r.entry k (i - f.cols)) x f.rows r.rows hx]
      simp

theorem saddle_ok {a b d : MetaMat Rat} (ha : a.Ok) (hb : b.Ok) (hd : d.Ok) (hrows : a.rows = b.rows)
    (hcols : a.cols = d.cols) : (saddle a b d).Ok := by
  constructor
  · have h := split_spec (chain_spec ha.1 (by rw [hrows]; exact hb.1))
      (onFirst_spec (k := b.cols) (by rw [hcols]; exact hd.1))
    refine h.congr ?_
    intro x i hx _
    simp only [dot, Bool.false_eq_true, if_false, entry, cols]
    by_cases hi : i < a.rows
    · simp only [if_pos hi]
      exact (sum_hsplit (fun k => a.entry i k) (fun k => b.entry i k) x a.cols b.cols hx).symm
    · simp only [if_neg hi]
      refine Eq.trans ?_ (sum_hsplit (fun k => d.entry (i - a.rows) k) (fun _ => 0) x a.cols b.cols hx).symm
      simp [hcols]
  · intro hnb
    simp only [noBanded, Bool.and_eq_true] at hnb
    have h := split_spec (chain_spec (ha.2 hnb.1.1) (by rw [hcols]; exact hd.2 hnb.2))
      (onFirst_spec (k := d.rows) (by rw [hrows]; exact hb.2 hnb.1.2))
    refine h.congr ?_
    intro x i hx _
    simp only [dot, if_true, entry, rows]
    by_cases hi : i < a.cols
    · simp only [if_pos hi]
      exact (sum_hsplit (fun k => a.entry k i) (fun k => d.entry k i) x a.rows d.rows hx).symm
    · simp only [if_neg hi]
      refine Eq.trans ?_ (sum_hsplit (fun k => b.entry k (i - a.cols)) (fun _ => 0) x a.rows d.rows hx).symm
      simp [hrows]

/-- structural induction: if every well-formed leaf meets its specification, so does every well-formed tree -/
theorem ok_of_leaves
    (hcsr : ∀ A : Csr Rat, A.wf = true → (MetaMat.csr A).Ok)
    (hbcsr : ∀ A : Bcsr Rat, A.wf = true → 0 < A.bh → 0 < A.bw → (MetaMat.bcsr A).Ok)
    (hdense : ∀ A : Dense Rat, A.wf = true → 0 < A.rows → 0 < A.cols → (MetaMat.dense A).Ok)
    (hcscr : ∀ A : Cscr Rat, A.wf = true → (MetaMat.cscr A).Ok)
    (hbanded : ∀ A : Banded Rat, A.wf = true → 0 < A.rows → (MetaMat.banded A).Ok) :
    ∀ M : MetaMat Rat, M.wf = true → M.Ok
  | .csr A, h => hcsr A h
  | .cscr A, h => hcscr A h
  | .banded A, h => by
    simp only [wf, Bool.and_eq_true, decide_eq_true_eq] at h
    exact hbanded A h.1 h.2
  | .bcsr A, h => by
    simp only [wf, Bool.and_eq_true, decide_eq_true_eq] at h
    exact hbcsr A h.1.1 h.1.2 h.2
  | .dense A, h => by
    simp only [wf, Bool.and_eq_true, decide_eq_true_eq] at h
    exact hdense A h.1.1 h.1.2 h.2
  | .row f r, h => by
    simp only [wf, Bool.and_eq_true, beq_iff_eq] at h
    exact row_ok (ok_of_leaves hcsr hbcsr hdense hcscr hbanded f h.1.1) (ok_of_leaves hcsr hbcsr hdense hcscr hbanded r h.1.2) h.2
  | .col f r, h => by
    simp only [wf, Bool.and_eq_true, beq_iff_eq] at h
    exact col_ok (ok_of_leaves hcsr hbcsr hdense hcscr hbanded f h.1.1) (ok_of_leaves hcsr hbcsr hdense hcscr hbanded r h.1.2) h.2
  | .diag f r, h => by
    simp only [wf, Bool.and_eq_true] at h
    exact diag_ok (ok_of_leaves hcsr hbcsr hdense hcscr hbanded f h.1) (ok_of_leaves hcsr hbcsr hdense hcscr hbanded r h.2)
  | .saddle a b d, h => by
    simp only [wf, Bool.and_eq_true, beq_iff_eq] at h
    exact saddle_ok (ok_of_leaves hcsr hbcsr hdense hcscr hbanded a h.1.1.1.1) (ok_of_leaves hcsr hbcsr hdense hcscr hbanded b h.1.1.1.2)
      (ok_of_leaves hcsr hbcsr hdense hcscr hbanded d h.1.1.2) h.1.2 h.2

/-! ### the `|alpha| < eps` early-out: every member returns `y` itself -/

end MetaMat

theorem slice_append_slice (y : Array Rat) (n1 n2 : Nat) (hy : y.size = n1 + n2) :
    slice y 0 n1 ++ slice y n1 n2 = y := by
  unfold slice
  rw [Nat.zero_add, Array.extract_append_extract]
  have h1 : min 0 n1 = 0 := Nat.zero_min n1
  have h2 : max n1 (n1 + n2) = n1 + n2 := Nat.max_eq_right (Nat.le_add_right n1 n2)
  rw [h1, h2]
  exact Array.extract_eq_self_of_le (by omega)

/-- for a scaling factor below eps the member returns `y` (values; with `r` aliasing `y`, `r` is left as it is) -/
def TinySpec (f : MetaOp Rat) (nOut nIn : Nat) : Prop :=
  ∀ (al : Rat) (x y r : Array Rat) (ali : Bool), |al| < epsQ → r.size = nOut → y.size = nOut → x.size = nIn →
    (ali = true → r = y) → f (some al) x y r ali = some y

theorem chain_tiny {F R : MetaOp Rat} {nOut n1 n2 : Nat} (hF : TinySpec F nOut n1) (hR : TinySpec R nOut n2) :
    TinySpec (chain n1 n2 F R) nOut (n1 + n2) := by
  intro al x y r ali h1 h2 h3 h4 h5
  have e1 := hF al (slice x 0 n1) y r ali h1 h2 h3 (slice_size x 0 n1 (by omega)) h5
  have e2 := hR al (slice x n1 n2) y y true h1 h3 h3 (slice_size x n1 n2 (by omega)) (fun _ => rfl)
  simp [chain, e1, e2]

theorem split_tiny {F R : MetaOp Rat} {n1 n2 nIn : Nat} (hF : TinySpec F n1 nIn) (hR : TinySpec R n2 nIn) :
    TinySpec (split n1 n2 F R) (n1 + n2) nIn := by
  intro al x y r ali h1 h2 h3 h4 h5
  have e1 := hF al x (slice y 0 n1) (slice r 0 n1) ali h1 (slice_size r 0 n1 (by omega)) (slice_size y 0 n1 (by omega)) h4
    (fun h => by rw [h5 h])
  have e2 := hR al x (slice y n1 n2) (slice r n1 n2) ali h1 (slice_size r n1 n2 (by omega))
    (slice_size y n1 n2 (by omega)) h4 (fun h => by rw [h5 h])
  simp [split, e1, e2, slice_append_slice y n1 n2 h3]

theorem onFirst_tiny {F : MetaOp Rat} {nOut n k : Nat} (hF : TinySpec F nOut n) : TinySpec (onFirst n F) nOut (n + k) := by
  intro al x y r ali h1 h2 h3 h4 h5
  exact hF al (slice x 0 n) y r ali h1 h2 h3 (slice_size x 0 n (by omega)) h5

theorem onRest_tiny {F : MetaOp Rat} {nOut off n : Nat} (hF : TinySpec F nOut n) :
    TinySpec (onRest off n F) nOut (off + n) := by
  intro al x y r ali h1 h2 h3 h4 h5
  exact hF al (slice x off n) y r ali h1 h2 h3 (slice_size x off n (by omega)) h5

namespace MetaMat

def TinyOk (M : MetaMat Rat) : Prop :=
  TinySpec (M.goQ false) M.rows M.cols ∧ TinySpec (M.goQ true) M.cols M.rows

theorem tiny_of_leaves
    (hcsr : ∀ A : Csr Rat, (MetaMat.csr A).TinyOk)
    (hbcsr : ∀ A : Bcsr Rat, (MetaMat.bcsr A).TinyOk)
    (hdense : ∀ A : Dense Rat, 0 < A.rows → 0 < A.cols → (MetaMat.dense A).TinyOk)
    (hcscr : ∀ A : Cscr Rat, (MetaMat.cscr A).TinyOk)
    (hbanded : ∀ A : Banded Rat, 0 < A.rows → (MetaMat.banded A).TinyOk) :
    ∀ M : MetaMat Rat, M.wf = true → M.TinyOk
  | .csr A, _ => hcsr A
  | .cscr A, _ => hcscr A
  | .banded A, h => by
    simp only [wf, Bool.and_eq_true, decide_eq_true_eq] at h
    exact hbanded A h.2
  | .bcsr A, _ => hbcsr A
  | .dense A, h => by
    simp only [wf, Bool.and_eq_true, decide_eq_true_eq] at h
    exact hdense A h.1.2 h.2
  | .row f r, h => by
    simp only [wf, Bool.and_eq_true, beq_iff_eq] at h
    have hf := tiny_of_leaves hcsr hbcsr hdense hcscr hbanded f h.1.1
    have hr := tiny_of_leaves hcsr hbcsr hdense hcscr hbanded r h.1.2
    have e := h.2
    have g1 := chain_tiny hf.1 (by rw [e]; exact hr.1)
    have g2 := split_tiny hf.2 (by rw [e]; exact hr.2)
    exact ⟨g1, g2⟩
  | .col f r, h => by
    simp only [wf, Bool.and_eq_true, beq_iff_eq] at h
    have hf := tiny_of_leaves hcsr hbcsr hdense hcscr hbanded f h.1.1
    have hr := tiny_of_leaves hcsr hbcsr hdense hcscr hbanded r h.1.2
    have e := h.2
    have g1 := split_tiny hf.1 (by rw [e]; exact hr.1)
    have g2 := chain_tiny hf.2 (by rw [e]; exact hr.2)
    exact ⟨g1, g2⟩
  | .diag f r, h => by
    simp only [wf, Bool.and_eq_true] at h
    have hf := tiny_of_leaves hcsr hbcsr hdense hcscr hbanded f h.1
    have hr := tiny_of_leaves hcsr hbcsr hdense hcscr hbanded r h.2
    have g1 := split_tiny (onFirst_tiny (k := r.cols) hf.1) (onRest_tiny (off := f.cols) hr.1)
    have g2 := split_tiny (onFirst_tiny (k := r.rows) hf.2) (onRest_tiny (off := f.rows) hr.2)
    exact ⟨g1, g2⟩
  | .saddle a b d, h => by
    simp only [wf, Bool.and_eq_true, beq_iff_eq] at h
    have ha := tiny_of_leaves hcsr hbcsr hdense hcscr hbanded a h.1.1.1.1
    have hb := tiny_of_leaves hcsr hbcsr hdense hcscr hbanded b h.1.1.1.2
    have hd := tiny_of_leaves hcsr hbcsr hdense hcscr hbanded d h.1.1.2
    have er := h.1.2
    have ec := h.2
    have g1 := split_tiny (chain_tiny ha.1 (by rw [er]; exact hb.1)) (onFirst_tiny (k := b.cols) (by rw [ec]; exact hd.1))
    have g2 := split_tiny (chain_tiny ha.2 (by rw [ec]; exact hd.2)) (onFirst_tiny (k := d.rows) (by rw [er]; exact hb.2))
    exact ⟨g1, g2⟩

end MetaMat
end FeatModel.LA
